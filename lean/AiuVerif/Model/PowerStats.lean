/-
Executable model of `src/aiu_trace_analyzer/pipeline/power_stats.py` (C19).

Modelled, function by function:
* `analyze_power_statistics`               → `collect1` / `collect`  (the `if not ts`, the
  `ph == "C" and name == "Power"` / `"Watts" in args` / `"Cmpt Exec" in name` classification, the
  `ts > last_ts` and `dur > 0` guards, `last_power_sample` updated even when no period is formed)
* `PowerStatisticsContext._merge_periods`  → `mergePeriods` (`sorted` on tuples = stable
  lexicographic sort, then the `start <= last_end` sweep that extends `merged[-1]`)
* `PowerStatisticsContext._split_power_period` → `split` (`current_pos` walk, skip rule
  `k_end <= power_start or k_start >= power_end`, gap segment only when `current_pos < overlap_start`,
  tail segment only when `current_pos < power_end`)
* `PowerStatisticsContext._compute_weighted_stats` → `computeStats` (`None` on no segments; every
  `if … > 0 else 0` guard; the weighted median loop over the segments stably sorted by power, which
  leaves `0` when it never breaks)
* `PowerStatisticsContext.drain`           → `drainStats` (`[]`/warning when there is no power
  period; with/without grouping; the `if not kernel_periods and not without_kernels` fallback)

Numbers are exact rationals; the code has no `assert`/`raise` on these paths, its "error" branches
are the `None` / "No data" / "Insufficient power data" results, which are explicit here.
Core Lean only.
-/
import AiuVerif.Basic

namespace AiuVerif
namespace PowerStats

/-- `(start, end)` -/
abbrev Period := Num × Num
/-- `(start, end, watts)` — an entry of `context.power_periods` -/
abbrev PPeriod := Num × Num × Num
/-- `(duration, power, has_kernel)` — what `_split_power_period` appends -/
abbrev Seg := Num × Num × Bool
/-- `(duration, power)` — what `_compute_weighted_stats` consumes -/
abbrev WSeg := Num × Num

/-! ### `_merge_periods` -/

/-- Python's `<=` on 2-tuples -/
def leLex (a b : Period) : Bool := decide (a.1 < b.1) || (decide (a.1 = b.1) && decide (a.2 ≤ b.2))

/-- the `for start, end in sorted_periods[1:]` sweep; `cur` is `merged[-1]` -/
def mergeGo : Period → List Period → List Period
  | cur, [] => [cur]
  | cur, (s, e) :: rest =>
    if s ≤ cur.2 then mergeGo (cur.1, max cur.2 e) rest
    else cur :: mergeGo (s, e) rest

def mergePeriods (periods : List Period) : List Period :=
  match periods.mergeSort leLex with
  | [] => []
  | first :: rest => mergeGo first rest

/-! ### `_split_power_period` -/

/-- the loop over `kernel_timeline` with `current_pos = cur`, followed by the tail segment -/
def splitFrom (ps pe v : Num) : Num → List Period → List Seg
  | cur, [] => if cur < pe then [(pe - cur, v, false)] else []
  | cur, (ks, ke) :: rest =>
    if ke ≤ ps ∨ ks ≥ pe then splitFrom ps pe v cur rest
    else
      let os := max ps ks
      let oe := min pe ke
      (if cur < os then [(os - cur, v, false)] else []) ++
        ((oe - os, v, true) :: splitFrom ps pe v oe rest)

def split (ps pe v : Num) (timeline : List Period) : List Seg := splitFrom ps pe v ps timeline

/-! ### `_compute_weighted_stats` -/

structure Stats where
  minNz : Num
  max : Num
  meanNz : Num
  medianNz : Num
  avgTotal : Num
  durTotal : Num
  durNz : Num
deriving DecidableEq, Repr

def sumDur (l : List WSeg) : Num := (l.map (·.1)).sum
def wSum (l : List WSeg) : Num := (l.map (fun s => s.1 * s.2)).sum
def nonZero (l : List WSeg) : List WSeg := l.filter (fun s => decide (0 < s.2))

/-- `min(xs)` / `max(xs)` of a non-empty Python list, `0.0` for the empty one -/
def minOr0 : List Num → Num
  | [] => 0
  | x :: xs => xs.foldl min x
def maxOr0 : List Num → Num
  | [] => 0
  | x :: xs => xs.foldl max x

/-- the `for dur, power in sorted_segments` loop; `cum` is `cumulative_dur`; `0` when it never breaks -/
def medianGo (half : Num) : Num → List WSeg → Num
  | _, [] => 0
  | cum, (d, p) :: rest => if half ≤ cum + d then p else medianGo half (cum + d) rest

/-- `sorted(non_zero_segments, key=lambda x: x[1])` — stable -/
def sortByPower (l : List WSeg) : List WSeg := l.mergeSort (fun a b => decide (a.2 ≤ b.2))

def computeStats (segs : List WSeg) : Option Stats :=
  if segs.isEmpty then none
  else
    let total := sumDur segs
    let avg := if 0 < total then wSum segs / total else 0
    let nz := nonZero segs
    let nzDur := sumDur nz
    let mean := if 0 < nzDur then wSum nz / nzDur else 0
    let median := if nz.isEmpty then 0 else medianGo (nzDur / 2) 0 (sortByPower nz)
    some { minNz := minOr0 (nz.map (·.2)), max := maxOr0 (segs.map (·.2)), meanNz := mean,
           medianNz := median, avgTotal := avg, durTotal := total, durNz := nzDur }

/-! ### `drain` -/

def allSegments (pp : List PPeriod) (timeline : List Period) : List Seg :=
  pp.flatMap (fun p => split p.1 p.2.1 p.2.2 timeline)

def withK (l : List Seg) : List WSeg := (l.filter (fun s => s.2.2)).map (fun s => (s.1, s.2.1))
def withoutK (l : List Seg) : List WSeg := (l.filter (fun s => !s.2.2)).map (fun s => (s.1, s.2.1))

/-- the two data sets handed to `_compute_weighted_stats` (with kernels, without kernels) -/
def scenarios (pp : List PPeriod) (kp : List Period) : List WSeg × List WSeg :=
  let all := allSegments pp (mergePeriods kp)
  let w := withK all
  let wo := withoutK all
  let wo := if kp.isEmpty ∧ wo.isEmpty then all.map (fun s => (s.1, s.2.1)) else wo
  (w, wo)

/-- `none`: "Insufficient power data"; otherwise the statistics of the two scenarios, each `none`
when the log line reads "No data" -/
def drainStats (pp : List PPeriod) (kp : List Period) : Option (Option Stats × Option Stats) :=
  if pp.isEmpty then none
  else
    let sc := scenarios pp kp
    some (computeStats sc.1, computeStats sc.2)

/-! ### `analyze_power_statistics` -/

/-- the fields of a trace event the callback looks at (`none` = key absent) -/
structure REv where
  ph : String
  name : Option String
  ts : Option Num
  watts : Option Num        -- `event["args"]["Watts"]` when both keys exist
  dur : Option Num
deriving Repr

/-- the context: `power_periods`, `last_power_sample`, `kernel_periods` -/
structure Coll where
  periods : List PPeriod := []
  last : Option (Num × Num) := none
  kernels : List Period := []
deriving DecidableEq, Repr

/-- `needle in hay` on character lists -/
def isInfix (needle : List Char) : List Char → Bool
  | [] => needle.isEmpty
  | c :: cs => needle.isPrefixOf (c :: cs) || isInfix needle cs

def containsStr (hay needle : String) : Bool := isInfix needle.toList hay.toList

def collect1 (c : Coll) (e : REv) : Coll :=
  match e.ts with
  | none => c
  | some ts =>
    if ts = 0 then c                                         -- `if not ts`
    else if e.ph = "C" ∧ e.name = some "Power" then
      match e.watts with
      | none => c
      | some w =>
        let periods := match c.last with
          | some (lts, lw) => if lts < ts then c.periods ++ [(lts, ts, lw)] else c.periods
          | none => c.periods
        { c with periods := periods, last := some (ts, w) }
    else if e.ph = "X" ∧ containsStr (e.name.getD "") "Cmpt Exec" then
      if 0 < e.dur.getD 0 then { c with kernels := c.kernels ++ [(ts, ts + e.dur.getD 0)] } else c
    else c

def collect (evs : List REv) : Coll := evs.foldl collect1 {}

/-- the stage followed by its context's `drain` -/
def analyze (evs : List REv) : Option (Option Stats × Option Stats) :=
  let c := collect evs
  drainStats c.periods c.kernels

end PowerStats
end AiuVerif
