/-
Model of the export step and of the scratch-key discipline of the pipeline (C02).

  core/processing.py  EventProcessor.convert_events  (ensure `args`, move unknown top-level keys into args)
  trace_view.py       AbstractEventType.from_dict + the event classes' `json()` (= __dict__)

`Raw` keeps what the conversion reads: the phase, which top-level keys are present, and the two
truthiness tests the classes apply (`if tid:` in MetaEvents, `if bp:` in FlowEvents).
A missing required key is the `KeyError` the real code raises; an unknown phase is its `Exception`.

`effect`: which registered stages may ADD a pipeline-internal scratch key to events and which
REMOVE it from every event they emit (validated against real per-stage streams of `-I` runs).
Core Lean only.
-/
import AiuVerif.Basic

namespace AiuVerif.Export

structure Raw where
  ph : String
  keys : List String     -- top-level keys present in the dict
  tidTruthy : Bool       -- `bool(event["tid"])` (0 is falsy)
  bpTruthy : Bool
deriving Repr

inductive Err where
  | keyError (k : String)
  | invalidPh
deriving Repr, DecidableEq

def need (r : Raw) (ks : List String) : Except Err Unit :=
  match ks.find? (fun k => !r.keys.contains k) with
  | some k => .error (.keyError k)
  | none => .ok ()

/-- the key set of the exported JSON object (convert_events guarantees `args`) -/
def fromDict (r : Raw) : Except Err (List String) :=
  if r.ph = "B" ∨ r.ph = "E" then do
    need r ["ts", "pid", "tid", "name"]
    pure ["ph", "ts", "pid", "tid", "name", "cat", "args"]
  else if r.ph = "X" then do
    need r ["name", "ts", "dur", "pid", "tid"]
    pure ["name", "cat", "ph", "ts", "dur", "pid", "tid", "args"]
  else if r.ph = "C" then do
    need r ["name", "ts", "pid"]
    pure ["name", "ts", "ph", "pid", "cat", "args"]
  else if r.ph = "b" ∨ r.ph = "e" then do
    need r ["ts", "pid", "tid", "name", "id"]
    pure ["name", "ts", "pid", "tid", "cat", "id", "ph", "args"]
  else if r.ph = "s" ∨ r.ph = "f" then do
    need r ["ts", "id", "pid", "tid", "name", "cat"]
    pure (["name", "cat", "ph", "ts", "pid", "tid", "id"] ++ (if r.bpTruthy then ["bp"] else []))
  else if r.ph = "M" then do
    need r ["name", "ts", "pid"]
    pure (["name", "ph", "ts", "pid"] ++ (if r.keys.contains "tid" && r.tidTruthy then ["tid"] else []) ++ ["args"])
  else if r.ph = "i" then do
    need r ["name", "ts", "pid", "tid", "s"]
    pure ["name", "cat", "ph", "ts", "pid", "tid", "s", "args"]
  else .error .invalidPh

/-- keys the Trace Event Format requires per phase (the statement of C02) -/
def required (ph : String) : List String :=
  ["ph", "name", "pid", "ts"] ++
  (if ph = "X" then ["dur", "tid"] else []) ++
  (if ph = "C" then ["args"] else []) ++
  (if ph = "s" ∨ ph = "f" then ["id"] else []) ++
  (if ph = "M" then ["args"] else [])

/-! ### scratch keys -/

inductive Scratch where
  | tsAll | tsDev | jobhash | tsCycles | helperF | counterDur
  /-- a `dur` key on an event that is not a slice (counter, flow arrow, metadata, instant) -/
  | nonSliceDur
deriving DecidableEq, Repr

inductive Eff where
  | adds | cleans | none
deriving DecidableEq, Repr

/-- effect of a stage (by callback name) on a scratch key -/
def effect (k : Scratch) (stage : String) : Eff :=
  match k, stage with
  | .tsAll, "cycle_count_to_wallclock" => .adds
  | .tsAll, "tighten_hts_by_instr_type" => .adds
  | .tsAll, "mp_sync_tight_v1" => .adds
  | .tsAll, "cycle_count_conversion_cleanup" => .cleans
  | .tsDev, "cycle_count_to_wallclock" => .adds
  | .tsDev, "mp_sync_tight_v1" => .adds
  | .tsDev, "cleanup_copy_of_device_ts" => .cleans
  | .jobhash, "flow_extraction" => .adds          -- collective events synthesized from a group carry jobhash
  | .jobhash, "cycle_count_conversion_cleanup" => .cleans
  | .tsCycles, "extract_power_event" => .adds
  | .tsCycles, "compute_power" => .cleans
  | .helperF, "flow_prepare_event_data" => .adds
  | .helperF, "flow_data_cleanup" => .cleans
  | .counterDur, "compute_utilization" => .adds
  | .counterDur, "cleanup_copy_of_device_ts" => .cleans
  | .nonSliceDur, "compute_utilization" => .adds   -- the PT Active counters inherit the kernel's duration
  | .nonSliceDur, "cleanup_copy_of_device_ts" => .cleans
  | _, _ => .none

/-- a registration site as far as the analysis needs it -/
structure St where
  name : String
  cond : Bool
  guard : String
deriving DecidableEq

def selected (v : String → Bool) (s : St) : Bool := !s.cond || v s.guard

/-- may some event carry the scratch key behind the selected stages?  (`v` = truth value of each
    guard text; events traverse every selected stage in order — C03.run_eq_runSpec) -/
def mayCarry (k : Scratch) (v : String → Bool) : List St → Bool → Bool
  | [], f => f
  | s :: rest, f =>
    if selected v s then
      match effect k s.name with
      | .adds => mayCarry k v rest true
      | .cleans => mayCarry k v rest false
      | .none => mayCarry k v rest f
    else mayCarry k v rest f

end AiuVerif.Export
