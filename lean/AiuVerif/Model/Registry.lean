/-
Model of stage registration against a profile:
  core/stage_profile.py  StageProfile._ingest_profile_data, StageProfile.from_json (empty profile),
                         StageProfileChecker.fwd_find_stage
  core/processing.py     EventProcessor.register_stage (accept / skip decision only)
Core Lean only.
-/
namespace AiuVerif.Registry

abbrev Profile := List (String × Bool)

/-- `_ingest_profile_data`: walk the all-stages list; the requested profile is consumed front to
    back by exact name match; everything that does not match the *current* head of the requested
    profile is disabled.  `next = none` models the sentinel `("nothing", False)` after the requested
    list is exhausted.  (An empty requested stage list makes the real code raise IndexError on
    `pop(0)`: the `.error` branch.) -/
def ingestGo : Option (String × Bool) → Profile → Profile → Profile
  | _, _, [] => []
  | none, _, (st, _) :: all => (st, false) :: ingestGo none [] all
  | some (ns, ne), req, (st, _) :: all =>
    if ns = st then
      (st, ne) :: (match req with
        | [] => ingestGo none [] all
        | r :: req' => ingestGo (some r) req' all)
    else (st, false) :: ingestGo (some (ns, ne)) req all

def ingestProfile (req all : Profile) : Except String Profile :=
  match req with
  | [] => .error "IndexError"
  | r :: req' =>
    -- (a stage literally named "nothing" would match the sentinel and get its flag False: same result)
    .ok (ingestGo (some r) req' all)

/-- `StageProfile.from_json`: an empty JSON object means "all stages" -/
def fromJson (req : Option Profile) (all : Profile) : Except String Profile :=
  match req with
  | none => ingestProfile all all
  | some r => ingestProfile r all

/-- `for incr, st in enumerate(profile[reg_idx:])`: first entry with that name, its offset and flag -/
def scan (stage : String) : Profile → Nat → Option (Nat × Bool)
  | [], _ => none
  | st :: rest, i => if st.1 = stage then some (i, st.2) else scan stage rest (i + 1)

/-- `fwd_find_stage`: returns (accept?, new reg_idx) -/
def fwdFind (prof : Profile) (r : Nat) (stage : String) : Bool × Nat :=
  match scan stage (prof.drop r) 0 with
  | some (incr, en) => (en, r + incr + 1)
  | none => (false, r)

/-- the sequence of `register_stage` calls of one run: accept/skip decision per requested name -/
def registerAll (prof : Profile) : List String → Nat → List Bool
  | [], _ => []
  | s :: rest, r => (fwdFind prof r s).1 :: registerAll prof rest (fwdFind prof r s).2

/-- a registration call site: callback name + whether it is nested under an `if` -/
structure Entry where
  name : String
  cond : Bool     -- conditional site
  en : Bool       -- flag of the profile entry at the same position
  sel : Bool      -- does this run reach the site (its if-conditions hold)?

/-- static condition on the source order, decidable on the generated site list:
    scanning forward from a *conditional* site, no site of the same name occurs before (or at)
    the next unconditional site. -/
def okFrom (nm : String) : List (String × Bool) → Bool
  | [] => true
  | j :: rest => j.1 != nm && (if j.2 then okFrom nm rest else true)

def staticB : List (String × Bool) → Bool
  | [] => true
  | m :: rest => (if m.2 then okFrom m.1 rest else true) && staticB rest

end AiuVerif.Registry
