/-
Executable model of the partial-overlap resolution (C04).  Core Lean only.

Python modelled (src/aiu_trace_analyzer/pipeline/overlap.py):
  * `OverlapDetectionContext.overlap_detection`      → `detect`
      - `assert current_ts <= event["ts"]`                          → `Err.assertOrder`
      - `assert (blocked and len(end_ts) > 0) or (not blocked and len(end_ts) == 0)`
                                                                     → `Err.assertState`
      - `event_end = round(ts + dur, 4)`                             → `endOf` (`rnd4`)
  * `check_overlap_condition`                         → `overlaps`   (∃ e ∈ ends, ts < e < end)
  * `update_queue_status`                             → `prune`      (keep `x >= new_current`)
  * `handle_overlap`, modes `OVERLAP_RESOLVE_TID` and `OVERLAP_RESOLVE_DROP` → the two arms of
    `detect` (TID: `find_next_tid` + re-run of `overlap_detection` on the new lane *before* the old
    lane is pruned; the `KeyError` of `self.tid_space[pid][tid]` at the end of a chain is
    `Err.keyError`; unbounded recursion through a cyclic map is `Err.recursion`, fuel = number of
    map entries + 1)
  * `collect_tid_space`                               → `collect`
  * `_create_tid_space`                               → `createSpace` (fuel = n + |exclude|)
  * `_collect_and_build_tid_space`                    → `buildPid` / `buildSpaces`
      (`new_tspace[...] = ...` is a dict write: later writes win → `amapSet`)
  * `detect_partial_overlap_tids` / `detect_partial_overlap_events` (`ph in "X"`) → `isX` guards
  * the registration order sort_events → assert_ts_sequence (pass-through) →
    detect_partial_overlap_tids → pipeline_barrier → detect_partial_overlap_events is composed
    in `pipeline` as a batch composition (justified by C03 `run_eq_runSpec` / barrier theorems).

`self.queues[queue_id]` with `queue_id = hash((pid, tid))` is a total function
`Lane → LaneSt` whose default is the tuple `(0.0, False, [])` the code inserts on first access
(hash injectivity on the generated domain is in the trusted base).
Not modelled: -O async / warn / shift, `max_tid_streams == -1` (not reachable from the CLI),
a tid equal to the reserved key `-1` (tids are naturals here), events without `tid`.
-/
import AiuVerif.Basic

namespace AiuVerif.Overlap

/-- the fields of an event the sub-pipeline reads or writes.  `isX` is `ph == "X"`; for other
phases `dur` is the value the sort key uses (0 when the key is absent). -/
structure Ev where
  uid : Nat
  isX : Bool
  pid : Nat
  tid : Nat
  ts : Rat
  dur : Rat
deriving DecidableEq, Repr

abbrev Lane := Nat × Nat

def Ev.lane (e : Ev) : Lane := (e.pid, e.tid)

/-- Python `round(x)` to an integer on the exact value: round half to even -/
def roundHalfEven (q : Rat) : Int :=
  let f := q.floor
  let r := q - (f : Rat)
  if r < 1/2 then f
  else if 1/2 < r then f + 1
  else if f % 2 = 0 then f else f + 1

/-- Python `round(x, 4)` on the exact value -/
def rnd4 (q : Rat) : Rat := ((roundHalfEven (q * 10000) : Int) : Rat) / 10000

/-- `event_end = round(event["ts"] + event["dur"], 4)` -/
def Ev.endOf (e : Ev) : Rat := rnd4 (e.ts + e.dur)

/-- `OverlapTracking`: (ts of the current head, blocked, stack of active end times) -/
structure LaneSt where
  cur : Rat
  blocked : Bool
  ends : List Rat
deriving Repr

def LaneSt.init : LaneSt := ⟨0, false, []⟩

abbrev Lanes := Lane → LaneSt

def Lanes.init : Lanes := fun _ => LaneSt.init

def Lanes.set (st : Lanes) (l : Lane) (q : LaneSt) : Lanes :=
  fun l' => if l' = l then q else st l'

inductive Err where
  | assertOrder | assertState | keyError | recursion
deriving DecidableEq, Repr

inductive Mode where
  | drop | tid
deriving DecidableEq, Repr

/-- `check_overlap_condition`: some active end lies strictly inside the new slice -/
def overlaps (s E : Rat) (ends : List Rat) : Bool :=
  ends.any (fun e => decide (s < e) && decide (e < E))

/-- `update_queue_status` -/
def prune (s : Rat) (q : LaneSt) : LaneSt :=
  let e := q.ends.filter (fun x => decide (s ≤ x))
  ⟨s, !e.isEmpty, e⟩

/-- `overlap_detection` for one `X` event (with `handle_overlap` inlined). Returns the new lane
table and the emitted events. -/
def detect (mode : Mode) (next : Nat → Nat → Option Nat) :
    Nat → Lanes → Ev → Except Err (Lanes × List Ev)
  | fuel, st, ev =>
    let q := st ev.lane
    if ¬ (q.cur ≤ ev.ts) then .error .assertOrder
    else if ¬ (q.blocked = !q.ends.isEmpty) then .error .assertState
    else if q.blocked = false then
      .ok (st.set ev.lane (prune ev.ts ⟨ev.ts, true, [ev.endOf]⟩), [ev])
    else if overlaps ev.ts ev.endOf q.ends then
      match mode with
      | .drop => .ok (st.set ev.lane (prune ev.ts q), [])
      | .tid =>
        match next ev.pid ev.tid with
        | none => .error .keyError
        | some t =>
          match fuel with
          | 0 => .error .recursion
          | fuel + 1 =>
            match detect mode next fuel st { ev with tid := t } with
            | .error e => .error e
            | .ok (st', out) => .ok (st'.set ev.lane (prune ev.ts (st' ev.lane)), out)
    else
      .ok (st.set ev.lane (prune ev.ts { q with ends := q.ends ++ [ev.endOf] }), [ev])

/-- `detect_partial_overlap_events` on one event -/
def step (mode : Mode) (next : Nat → Nat → Option Nat) (fuel : Nat) (st : Lanes) (ev : Ev) :
    Except Err (Lanes × List Ev) :=
  if ev.isX then detect mode next fuel st ev else .ok (st, [ev])

/-- the stage applied to a stream, in order -/
def detectAll (mode : Mode) (next : Nat → Nat → Option Nat) (fuel : Nat) :
    Lanes → List Ev → Except Err (Lanes × List Ev)
  | st, [] => .ok (st, [])
  | st, ev :: rest =>
    match step mode next fuel st ev with
    | .error e => .error e
    | .ok (st', out) =>
      match detectAll mode next fuel st' rest with
      | .error e => .error e
      | .ok (st'', outs) => .ok (st'', out ++ outs)

/-! ### tid space -/

/-- a Python dict as association list in insertion order; a write to an existing key replaces
the value in place -/
def amapSet {β : Type} (m : List (Nat × β)) (k : Nat) (v : β) : List (Nat × β) :=
  match m with
  | [] => [(k, v)]
  | (k', v') :: r => if k' = k then (k, v) :: r else (k', v') :: amapSet r k v

def amapGet {β : Type} (m : List (Nat × β)) (k : Nat) : Option β :=
  match m with
  | [] => none
  | (k', v') :: r => if k' = k then some v' else amapGet r k

/-- `collect_tid_space` for one pid: the tids in first-seen order (`tid_space[pid]` keys;
the set under key `-1` has the same elements) -/
def collectTid (seen : List Nat) (tid : Nat) : List Nat :=
  if tid ∈ seen then seen else seen ++ [tid]

/-- per pid: list of seen tids -/
def collect (m : List (Nat × List Nat)) (e : Ev) : List (Nat × List Nat) :=
  if e.isX then
    amapSet m e.pid (collectTid ((amapGet m e.pid).getD []) e.tid)
  else m

/-- the `while len(tlist) < n` loop of `_create_tid_space`; `cur` is `next_tid` -/
def createLoop (excl : List Nat) : Nat → Nat → Nat → List Nat
  | 0, _, _ => []
  | _, 0, _ => []
  | fuel + 1, need + 1, cur =>
    if (cur + 1) ∈ excl then createLoop excl fuel (need + 1) (cur + 1)
    else (cur + 1) :: createLoop excl fuel need (cur + 1)

/-- `_create_tid_space(tid, exclude)` with `max(max_tid_streams, 1) = n` -/
def createSpace (n tid : Nat) (excl : List Nat) : List Nat :=
  createLoop excl (n + excl.length) n tid

/-- `new_tspace[src] = next` for consecutive candidates -/
def chainWrites (m : List (Nat × Nat)) : List Nat → List (Nat × Nat)
  | a :: b :: r => chainWrites (amapSet m a b) (b :: r)
  | _ => m

/-- the loop body of `_collect_and_build_tid_space` over the seen tids of one pid:
state = (exclude, new_tspace) -/
def buildLoop (n : Nat) : List Nat → List Nat → List (Nat × Nat) → List (Nat × Nat)
  | [], _, m => m
  | tid :: rest, excl, m =>
    let c := createSpace n tid excl
    buildLoop n rest (excl ++ c) (chainWrites m (tid :: c))

def buildPid (n : Nat) (seen : List Nat) : List (Nat × Nat) := buildLoop n seen seen []

/-- `max_tid_streams` default of `OverlapDetectionContext` (the CLI does not override it) -/
def maxTidStreams : Nat := 5

def buildSpaces (n : Nat) (evs : List Ev) : List (Nat × List (Nat × Nat)) :=
  (evs.foldl collect []).map (fun x => (x.1, buildPid n x.2))

/-- `find_next_tid`: `self.tid_space[pid][tid]` -/
def nextOf (sp : List (Nat × List (Nat × Nat))) (pid tid : Nat) : Option Nat :=
  match amapGet sp pid with
  | none => none
  | some m => amapGet m tid

def spaceSize (sp : List (Nat × List (Nat × Nat))) : Nat :=
  (sp.map (fun x => x.2.length)).sum

end AiuVerif.Overlap
