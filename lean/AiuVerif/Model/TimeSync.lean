/-
Executable model of the cycle → wall-clock conversion of device slices (C06).

Python modelled (/repo/src/aiu_trace_analyzer/pipeline/timesync.py):
* `cycle_count_to_wallclock` + `_convert_cycle_timestamps` + `_get_DTS_rela_to_TSRef_in_us`
  + `_conv_DTS_to_array_in_us`                                  → `stage1`
  (anchors the counter `cvtRefIdx name` at the host end `ts+dur`, widens the slice to TS1, writes
   `args.ts_dev`, `args.ts_all`, `args.time_adjust`; five `assert`s)
* `tighten_hts_by_instr_type` + `_match_opIds_from_event` + `_align_hts_by_type` (`PRE_TIGHTENED = True`)
  + `_align_hts_to_beg` + `_get_DTS_rela_to_TS1_in_us`          → `stage2`
  (keeps the end, `dur` := interval of the first matching keyword; without keyword keeps `ts`,
   `dur` := TS5-TS1; one `assert`)
* registration in core/acelyzer.py: `cycle_count_to_wallclock` directly followed by
  `tighten_hts_by_instr_type`, both with `soc_frequency=args.freq[0]`, no context, no buffering → `both`, `run`
* keyword tables: `PhaseName.cvtRefIdx`, `PhaseName.opIds` (and `refIdx`, `flexMap` for `phase_tables_agree`)

Conventions / limits: a device slice carries exactly the five keys TS1..TS5 (`tsx = some [c1,…,c5]`); any other
length stands for a missing key (`KeyError` in the code, `keyerror` here).  Numbers are exact rationals; the code
computes in doubles (exact on the harness grid).  The unused branch `PRE_TIGHTENED = False` is not modelled.
Core Lean only.
-/
import AiuVerif.Basic
import AiuVerif.Model.PhaseName

namespace AiuVerif.TimeSync
open AiuVerif.PhaseName

structure Ev where
  uid : Nat
  ph : String
  name : String
  ts : Rat
  dur : Rat
  /-- `args.TS1..TS5` when present -/
  tsx : Option (List Int)
  /-- `args.ts_all` -/
  tsAll : Option (List Rat) := none
  /-- `args.ts_dev` -/
  tsDev : Option (List Rat) := none
  /-- `args.time_adjust` = `{ts: Δts, dur: Δdur}` -/
  adjust : Option (Rat × Rat) := none
deriving Repr

/-- `_conv_DTS_to_array_in_us`: `float(args[TSk]) / freq` for exactly the five keys -/
def conv5 (f : Rat) : List Int → Option (List Rat)
  | [c1, c2, c3, c4, c5] => some ([c1, c2, c3, c4, c5].map fun (c : Int) => (c : Rat) / f)
  | _ => none

/-- the loop `last = ts_all[0]; for t in ts_all[1:]: assert last <= t` -/
def monotone : List Rat → Bool
  | [] => true
  | [_] => true
  | a :: b :: r => decide (a ≤ b) && monotone (b :: r)

/-- `cycle_count_to_wallclock` on one event -/
def stage1 (f : Rat) (e : Ev) : Except String Ev :=
  if e.ph != "X" then .ok e
  else
    match e.tsx with
    | none => .ok e
    | some cs =>
      match conv5 f cs with
      | none => .error "keyerror"
      | some d =>
        let r := cvtRefIdx e.name
        match d[r]? with
        | none => .error "keyerror"
        | some dr =>
          let tref := e.ts + e.dur
          -- _get_DTS_rela_to_TSRef_in_us, then `wall_clock_tref + converted[i]`
          let conv := d.map fun x => tref + (x - dr)
          match conv[r]?, conv[0]?, conv[4]? with
          | some cr, some c0, some c4 =>
            let dur' := cr - c0
            let ts' := tref - dur'
            let adj := if ts' != e.ts || dur' != e.dur then some (ts' - e.ts, dur' - e.dur) else e.adjust
            if ts' < 0 then .error "assert"          -- new event ts < 0.0
            else if ts' < c0 then .error "assert"     -- TS1 is projected before the event timestamp
            else if c4 < ts' + dur' then .error "assert"  -- TS5 is projected past the end of the event
            else if !monotone conv then .error "assert"
            else .ok { e with ts := ts', dur := dur', tsDev := some d, tsAll := some conv, adjust := adj }
          | _, _, _ => .error "keyerror"

/-- `tighten_hts_by_instr_type` on one event -/
def stage2 (f : Rat) (e : Ev) : Except String Ev :=
  if e.ph != "X" then .ok e
  else
    match e.tsx with
    | none => .ok e
    | some cs =>
      match conv5 f cs with
      | none => .error "keyerror"
      | some d =>
        match d[0]? with
        | none => .error "keyerror"
        | some d0 =>
          -- _get_DTS_rela_to_TS1_in_us
          let rel := d.map fun x => x - d0
          match opIds e.name with
          | [] =>
            -- _align_hts_to_beg: ts stays, dur := TS5 - TS1
            let conv := rel.map fun x => e.ts + x
            match conv[4]?, conv[0]? with
            | some c4, some c0 => .ok { e with dur := c4 - c0, tsDev := some d, tsAll := some conv }
            | _, _ => .error "keyerror"
          | op :: _ =>
            -- _align_hts_by_type: end stays, dur := TS[op+2] - TS[op+1]
            match rel[op + 1]?, rel[op]? with
            | some rb, some ra =>
              let htsEnd := e.ts + e.dur
              let dur' := rb - ra
              let ts' := htsEnd - dur'
              if ts' < 0 then .error "assert"
              else .ok { e with ts := ts', dur := dur', tsDev := some d,
                                tsAll := some (rel.map fun x => x - rb + htsEnd) }
            | _, _ => .error "keyerror"

/-- the two stages as registered, on one event -/
def both (f : Rat) (e : Ev) : Except String Ev :=
  match stage1 f e with
  | .error m => .error m
  | .ok e' => stage2 f e'

/-- a stream: events pass one by one through both stages, the first raising event aborts the run -/
def run (f : Rat) : List Ev → Except String (List Ev)
  | [] => .ok []
  | e :: es =>
    match both f e with
    | .error m => .error m
    | .ok o =>
      match run f es with
      | .error m => .error m
      | .ok os => .ok (o :: os)

end AiuVerif.TimeSync
