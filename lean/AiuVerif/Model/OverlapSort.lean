/-
The per-lane sort in front of the overlap detection, and the composed sub-pipeline (C04).
Core Lean only.

Python modelled:
  * src/aiu_trace_analyzer/pipeline/sort.py `EventSortingContext.sort` / `.drain` as registered by
    `Acelyzer.register_processing_functions` (`ts_sorting_ctx`: `event_types=None`,
    `sortkey="ts,dur:r"`, `global_sort=False`): every event that has a `ts` is appended to the
    queue of its `(pid, tid)`; at drain every queue is stably sorted by the key tuple
    `(float(ts), -float(dur or 0.0))` and the queues are emitted in first-seen (dict) order.
  * the registration sort_events → assert_ts_sequence → detect_partial_overlap_tids →
    pipeline_barrier → detect_partial_overlap_events of core/acelyzer.py → `pipeline`.
    `assert_ts_sequence` only logs.  Batch composition is what the engine does (C03).
Not modelled: events without `ts` (they bypass the queue), `global_sort`, `event_types` filters.
-/
import AiuVerif.Model.Overlap

namespace AiuVerif.Overlap

/-- Python tuple comparison `(ts_a, -dur_a) <= (ts_b, -dur_b)` -/
def keyLe (a b : Ev) : Bool :=
  decide (a.ts < b.ts) || (decide (a.ts = b.ts) && decide (b.dur ≤ a.dur))

/-- `self.queues[queue_id].append(event)` on a dict of lists kept in insertion order -/
def enqueue (qs : List (Lane × List Ev)) (e : Ev) : List (Lane × List Ev) :=
  match qs with
  | [] => [(e.lane, [e])]
  | (l, q) :: r => if l = e.lane then (l, q ++ [e]) :: r else (l, q) :: enqueue r e

/-- stable insertion sort (structural, so that concrete runs reduce in the kernel): `x` is put in
front of the first element whose key is not smaller, so equal keys keep their input order like
Python's `list.sort` -/
def insertBy (x : Ev) : List Ev → List Ev
  | [] => [x]
  | y :: r => if keyLe x y then x :: y :: r else y :: insertBy x r

def isort : List Ev → List Ev
  | [] => []
  | x :: r => insertBy x (isort r)

/-- `drain`: sort every queue (stable), emit the queues in dict order -/
def drainQueues (qs : List (Lane × List Ev)) : List Ev :=
  qs.flatMap (fun lq => isort lq.2)

def sortStage (evs : List Ev) : List Ev := drainQueues (evs.foldl enqueue [])

/-- sort ; collect tids ; (barrier) build tid space ; detect.  In DROP mode neither the
collection stage nor the barrier is registered and `find_next_tid` is never called. -/
def pipeline (mode : Mode) (evs : List Ev) : Except Err (List Ev) :=
  let sorted := sortStage evs
  let sp := match mode with
    | .tid => buildSpaces maxTidStreams sorted
    | .drop => []
  match detectAll mode (nextOf sp) (spaceSize sp + 1) Lanes.init sorted with
  | .error e => .error e
  | .ok (_, out) => .ok out

end AiuVerif.Overlap
