/-
Model of the PT-utilization path (C11), at the level of *parsed* compiler-log rows:

* `pipeline/rcu_utilization.py`
  - `RCUUtilizationContext._handle_category` (`-opCat<X>` → `X`, `-NA` → `NotAvailable`, no splitter →
    `NotAvailable` since /repo 3b111fa; it used to be `Total`, see `handleCategoryOld` in Props/C11),
    `_add_kernel` (kernel key `<name> Cmpt Exec`; the first row of a kernel decides its
    cycle entry unless that row says 0, in which case nothing is stored and a later non-zero row of the
    same kernel is taken; the first row of a kernel decides its category), `get_cycles` (0 if unknown);
  - `compute_utilization` (`ideal = cycles · (1/core)`, `utilization = |ideal/dur|` unless `dur` is
    within 1e-9 of 0, capped at 1, `pt_active` only if > 0), `MultiRCUUtilizationContext.
    make_utilization_event` (start counter `100·u` carrying a scratch `dur`, end counter 0 only if
    `u > 0`), `RCUUtilizationContext.set_categories_for_pid`, `accumulate_categories` (unknown kernel →
    `other`; the category row and then the `Total` row are bumped), `print_table_as_pd` /
    `_compute_row_stats` (exact ratios; the `round(·, 4)` is a tolerance of the correspondence) with the
    stable sort by (Pid, Kernel_Time);
* `pipeline/stats.py::calculate_stats` — the rule that drops a start counter whose value is within 1e-9
  of 0 (only when the stats stage is registered; `cleanup_copy_of_device_ts` strips the scratch `dur`
  otherwise);
* `MultiRCUUtilizationContext.extract_kernel_from_event_name` (`[N]` in the name + `args.fn_idx` present
  → first `[N]` replaced by `str(fn_idx)`; the suffix rule);
* `FLEX` dialect `acc_kernel = is.name;Cmpt Exec$`, `acc_event_cat = has.args.TS1` (kernel slices).

With a single table the fingerprint match always selects that table (`update_fprint_matches` takes the
best candidate whatever its similarity, and since /repo 4ba5a45 runs once, so a table without kernel rows
or with only zero entries is fine: every kernel is then unknown), so fingerprints are not modelled.  The line regexes of
`_process_table_line` are exercised by the correspondence, not modelled.  Core Lean only.
-/
import AiuVerif.Basic

namespace AiuVerif.Util

/-! ### the parsed table -/

inductive CatTag where
  | opcat (c : String)   -- `<kernel>-opCat<c>`
  | na                   -- `<kernel>-NA`
  | none                 -- no splitter in the first column
  deriving DecidableEq, Repr

structure LogRow where
  kernel : String
  tag : CatTag
  cycles : Nat
  deriving DecidableEq, Repr

/-- `_handle_category` -/
def handleCategory : CatTag → String
  | .opcat c => c
  | .na => "NotAvailable"
  | .none => "NotAvailable"

def keyOfRow (r : LogRow) : String := r.kernel ++ " Cmpt Exec"

def hasKey {β : Type} (t : List (String × β)) (k : String) : Bool := t.any (fun p => p.1 == k)

def lookup {β : Type} (t : List (String × β)) (k : String) : Option β :=
  match t with
  | [] => none
  | p :: rest => if p.1 == k then some p.2 else lookup rest k

/-- `current_table` update of `_add_kernel` -/
def addCycles (t : List (String × Nat)) (r : LogRow) : List (String × Nat) :=
  if hasKey t (keyOfRow r) then t else if r.cycles ≠ 0 then t ++ [(keyOfRow r, r.cycles)] else t

def buildTable (rows : List LogRow) : List (String × Nat) := rows.foldl addCycles []

/-- `get_cycles` -/
def getCycles (t : List (String × Nat)) (k : String) : Nat := (lookup t k).getD 0

/-- `kernel_cat_map[0].add` of `_add_kernel` -/
def addCat (m : List (String × String)) (r : LogRow) : List (String × String) :=
  if hasKey m (keyOfRow r) then m else m ++ [(keyOfRow r, handleCategory r.tag)]

def buildCatMap (rows : List LogRow) : List (String × String) := rows.foldl addCat [("other", "other")]

/-- category used by `accumulate_categories` (unknown kernel → entry `other`) -/
def catOfKernel (m : List (String × String)) (k : String) : String := (lookup m k).getD "other"

/-! ### one kernel slice -/

/-- `args.fn_idx` as found in the event: an integer or a string (`str()` of it is substituted) -/
inductive FnIdx where
  | int (i : Int)
  | str (s : String)
  deriving DecidableEq, Repr

/-- Python `str(fn_idx)` -/
def FnIdx.render : FnIdx → String
  | .int i => toString i
  | .str s => s

structure UEv where
  name : String
  pid : Int
  ts : Rat
  dur : Rat
  /-- the slice carries `args.TS1` (`acc_event_cat`) -/
  hasTS : Bool
  /-- `args.fn_idx` when the key is present (whatever its value, 0 included) -/
  fn : Option FnIdx := none

def endsWithChars (suf s : List Char) : Bool := suf.reverse.isPrefixOf s.reverse

/-- `is_acc_event and is_acc_kernel` in the FLEX dialect -/
def isKernel (e : UEv) : Bool := e.hasTS && endsWithChars "Cmpt Exec".toList e.name.toList

/-- `re.sub(pat, rep, ·, count=1)` for a literal pattern: the leftmost occurrence is replaced -/
def replaceFirst (pat rep : List Char) : List Char → List Char
  | [] => []
  | c :: cs =>
    if pat.isPrefixOf (c :: cs) then rep ++ (c :: cs).drop pat.length else c :: replaceFirst pat rep cs

/-- `MultiRCUUtilizationContext.extract_kernel_from_event_name` on the characters of the name: when
`args.fn_idx` is present the first `[N]` is replaced by `str(fn_idx)` (a name without `[N]` is left alone),
then ` Cmpt Exec` is appended unless the name already ends with `Cmpt Exec` -/
def tableChars (name : List Char) (fn : Option FnIdx) : List Char :=
  let r := match fn with
    | some f => replaceFirst "[N]".toList f.render.toList name
    | none => name
  if endsWithChars "Cmpt Exec".toList r then r else r ++ " Cmpt Exec".toList

/-- the name under which the slice is looked up in the cycle table and the category map -/
def tableName (e : UEv) : String := String.ofList (tableChars e.name.toList e.fn)

def absR (x : Rat) : Rat := if x < 0 then -x else x

/-- `math.isclose(x, 0.0, abs_tol=1e-9)` -/
def tiny (x : Rat) : Bool := decide (absR x ≤ 1 / 1000000000)

def idealDur (core : Rat) (cycles : Nat) : Rat := (cycles : Rat) * (1 / core)

def utilization (ideal dur : Rat) : Rat :=
  let u := if tiny dur then 0 else absR (ideal / dur)
  if 1 < u then 1 else u

/-- `args.pt_active` (absent when the utilization is 0) -/
def ptActive (u : Rat) : Option Rat := if 0 < u then some u else none

/-- the `PT Active` counters that reach the export for one slice: `(ts, value)`.
`stats = true`: `calculate_stats` is registered and swallows a start counter whose value is ~0. -/
def counters (stats : Bool) (ts dur u : Rat) : List (Rat × Rat) :=
  (if stats && tiny (u * 100) then [] else [(ts, u * 100)]) ++
  (if 0 < u * 100 then [(ts + dur, 0)] else [])

/-! ### category tables -/

structure Acc where
  dur : Rat
  ideal : Rat
  calls : Nat
  deriving DecidableEq, Repr

def Acc.zero : Acc := ⟨0, 0, 0⟩
def Acc.add (a b : Acc) : Acc := ⟨a.dur + b.dur, a.ideal + b.ideal, a.calls + b.calls⟩

abbrev CTab := List (String × Acc)

def addKey (t : CTab) (c : String) : CTab := if hasKey t c then t else t ++ [(c, Acc.zero)]

/-- `set_categories_for_pid`: `Total`, `StcdpHbm`, then the categories of the map in map order -/
def initTab (m : List (String × String)) : CTab :=
  (["Total", "StcdpHbm"] ++ m.map (fun p => p.2)).foldl addKey []

/-- `categories[h][c] = old + (d, i, 1)`; appending on a missing key stands for the `KeyError`, which
`Lemmas/Util.lean` shows unreachable (`bump_present`) -/
def bump : CTab → String → Acc → CTab
  | [], c, a => [(c, a)]
  | p :: rest, c, a => if p.1 == c then (p.1, p.2.add a) :: rest else p :: bump rest c a

/-- `accumulate_categories`: the category row first, then the `Total` row -/
def accumulate (t : CTab) (cat : String) (a : Acc) : CTab := bump (bump t cat a) "Total" a

abbrev PTabs := List (Int × CTab)

def tabOf (init : CTab) (st : PTabs) (p : Int) : CTab :=
  match st with
  | [] => init
  | q :: rest => if q.1 = p then q.2 else tabOf init rest p

def setTab (st : PTabs) (p : Int) (t : CTab) : PTabs :=
  match st with
  | [] => [(p, t)]
  | q :: rest => if q.1 = p then (p, t) :: rest else q :: setTab rest p t

structure Cfg where
  core : Rat
  stats : Bool

/-- what one kernel slice contributes -/
structure Ann where
  pt : Option Rat
  cat : String
  ctrs : List (Rat × Rat)

structure Env where
  cfg : Cfg
  table : List (String × Nat)
  catmap : List (String × String)

def mkEnv (cfg : Cfg) (rows : List LogRow) : Env := ⟨cfg, buildTable rows, buildCatMap rows⟩

def idealOf (env : Env) (e : UEv) : Rat := idealDur env.cfg.core (getCycles env.table (tableName e))
def utilOf (env : Env) (e : UEv) : Rat := utilization (idealOf env e) e.dur
def catOf (env : Env) (e : UEv) : String := catOfKernel env.catmap (tableName e)
def accOf (env : Env) (e : UEv) : Acc := ⟨e.dur, idealOf env e, 1⟩

def annotate (env : Env) (e : UEv) : Ann :=
  ⟨ptActive (utilOf env e), catOf env e, counters env.cfg.stats e.ts e.dur (utilOf env e)⟩

def step (env : Env) (st : PTabs) (e : UEv) : PTabs :=
  setTab st e.pid (accumulate (tabOf (initTab env.catmap) st e.pid) (catOf env e) (accOf env e))

def tables (env : Env) (ks : List UEv) : PTabs := ks.foldl (step env) []

/-! ### `<output>_categories.csv` -/

structure CRow where
  pid : Int
  cat : String
  time : Rat
  fracTime : Rat
  calls : Nat
  ideal : Rat
  idealCyc : Int
  fracIdeal : Rat
  ptUtil : Rat

def ratio (num den : Rat) : Rat := if tiny den then 0 else num / den

def mkCRow (core : Rat) (pid : Int) (total : Acc) (p : String × Acc) : CRow :=
  { pid := pid, cat := p.1, time := p.2.dur, fracTime := ratio p.2.dur total.dur, calls := p.2.calls,
    ideal := p.2.ideal, idealCyc := (p.2.ideal / absR (1 / core)).floor,
    fracIdeal := ratio p.2.ideal total.ideal, ptUtil := ratio p.2.ideal p.2.dur }

def leTime (a b : String × Acc) : Bool := decide (a.2.dur ≤ b.2.dur)

def totalOf (t : CTab) : Acc := (lookup t "Total").getD Acc.zero

/-- the rows of one pid: stable sort by Kernel_Time over the insertion order of the categories -/
def rowsOfTab (core : Rat) (pid : Int) (t : CTab) : List CRow :=
  (t.mergeSort leTime).map (mkCRow core pid (totalOf t))

def lePid (a b : Int × CTab) : Bool := decide (a.1 ≤ b.1)

def csvRows (core : Rat) (st : PTabs) : List CRow :=
  (st.mergeSort lePid).flatMap (fun q => rowsOfTab core q.1 q.2)

structure Out where
  anns : List Ann
  rows : List CRow

/-- the kernel slices among the X events, in pipeline order -/
def kernels (evs : List UEv) : List UEv := evs.filter isKernel

def run (cfg : Cfg) (rows : List LogRow) (evs : List UEv) : Out :=
  let env := mkEnv cfg rows
  let ks := kernels evs
  ⟨ks.map (annotate env), csvRows cfg.core (tables env ks)⟩

end AiuVerif.Util
