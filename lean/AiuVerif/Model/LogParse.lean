/-
The compiler-log parser of the utilization stage: `RCUUtilizationContext.extract_tables`,
`_process_table_line`, `_add_kernel`, `_handle_category`, `RCUKernelCategoryMap.add`
(pipeline/rcu_utilization.py).  The log is read line by line; a line is classified by the regular
expressions of the class, modelled here as plain character functions:

  _autopilot_pattern       `DSM-AutoPilot BEGIN`            substring   → parsing STOPS
  _clock_scaling           `Ideal Clock Scaling:`           substring   → line ignored
  _iteration_mode_pattern  `^\s+(DECODING|PREFILL)\s+$`                 → line ignored (only the table-mode label changes)
  _start_pattern           ` Ideal/Total Cycles `           substring   → a new table starts
  _end_pattern             `====== Perf Summary End ======` substring   → the table is finished
  _data_pattern            `^[_\-a-zA-Z\d]+ +\d+ *$`                    → a table row (`$` also matches before the final newline)
  _ignore_pattern          `(Precompute|-LxPreload)`        substring   → row ignored
  _category_splitter       `(\-opCat|\-NA$)`                            → `re.split` with the separators kept

Not modelled: the fingerprint objects (which table a job uses; C11 assumes one table), `\d`/`\s` beyond ASCII.
Core Lean only.
-/
import AiuVerif.Basic
import AiuVerif.Model.PhaseName

namespace AiuVerif.LogParse
open AiuVerif.PhaseName (hasSubL)

def isNameCh (c : Char) : Bool := c == '_' || c == '-' || c.isAlphanum
def isWs (c : Char) : Bool := c == ' ' || c == '\t' || c == '\n' || c == '\r' || c == '\x0b' || c == '\x0c'

/-- `$` also matches just before a final newline -/
def chopNl (l : List Char) : List Char :=
  match l.getLast? with
  | some '\n' => l.dropLast
  | _ => l

/-- `^[_\-a-zA-Z\d]+ +\d+ *$`: the name and the digit string of a row, or `none` -/
def dataRow (line : List Char) : Option (List Char × List Char) :=
  let l := chopNl line
  let name := l.takeWhile isNameCh
  let r1 := l.dropWhile isNameCh
  let sp := r1.takeWhile (· == ' ')
  let r2 := r1.dropWhile (· == ' ')
  let dg := r2.takeWhile Char.isDigit
  let r3 := r2.dropWhile Char.isDigit
  if !name.isEmpty && !sp.isEmpty && !dg.isEmpty && r3.all (· == ' ') then some (name, dg) else none

/-- `^\s+(DECODING|PREFILL)\s+$` -/
def iterMode (line : List Char) : Bool :=
  let lead := line.takeWhile isWs
  let r := line.dropWhile isWs
  !lead.isEmpty &&
    ((("DECODING".toList).isPrefixOf r && (let t := r.drop 8; !t.isEmpty && t.all isWs)) ||
     (("PREFILL".toList).isPrefixOf r && (let t := r.drop 7; !t.isEmpty && t.all isWs)))

def sepOpCat : List Char := ['-', 'o', 'p', 'C', 'a', 't']
def sepNA : List Char := ['-', 'N', 'A']

/-- `_category_splitter.split(name)`: pieces and separators in order (fuel = length of the input) -/
def catSplit : Nat → List Char → List Char → List (List Char)
  | 0, cur, _ => [cur.reverse]
  | _ + 1, cur, [] => [cur.reverse]
  | n + 1, cur, s@(c :: cs) =>
    if sepOpCat.isPrefixOf s then cur.reverse :: sepOpCat :: catSplit n [] (s.drop 6)
    else if s == sepNA then [cur.reverse, sepNA, []]
    else catSplit n (c :: cur) cs

/-- `_handle_category` -/
def category (parts : List (List Char)) : String :=
  match parts with
  | _ :: sep :: _ => if sep == sepOpCat then String.ofList (parts.getLast?.getD []) else "NotAvailable"
  | _ => "NotAvailable"

/-- `int(...)` of a non-empty ASCII digit string -/
def digitsVal (dg : List Char) : Nat := dg.foldl (fun a c => a * 10 + (c.toNat - 48)) 0

structure Table where
  cycles : List (String × Nat)        -- `current_table`, insertion order
  cats : List (String × String)       -- `kernel_cat_map[0]`, insertion order (starts with other → other)
deriving Repr, DecidableEq

def Table.empty : Table := { cycles := [], cats := [("other", "other")] }

/-- `_add_kernel`: the first row of a kernel wins; a zero cycle count is never stored; the category of the first row
(also of a zero row) is kept -/
def addKernel (t : Table) (kernel : String) (cyc : Nat) (cat : String) : Table :=
  { cycles := if (t.cycles.any (·.1 == kernel)) || cyc == 0 then t.cycles else t.cycles ++ [(kernel, cyc)],
    cats := if t.cats.any (·.1 == kernel) then t.cats else t.cats ++ [(kernel, cat)] }

structure St where
  active : Bool := false
  cur : Table := Table.empty
  done : List Table := []             -- finished tables in the order of their end markers
  stop : Bool := false
deriving Repr

def patAuto : List Char := "DSM-AutoPilot BEGIN".toList
def patScale : List Char := "Ideal Clock Scaling:".toList
def patStart : List Char := " Ideal/Total Cycles ".toList
def patEnd : List Char := "====== Perf Summary End ======".toList
def patPre : List Char := "Precompute".toList
def patLx : List Char := "-LxPreload".toList

/-- the row a line of an open table contributes: table key, cycle count, category - `none` for a line that is not a
row, an ignored row, or the `Total` row -/
def rowOf (line : List Char) : Option (String × Nat × String) :=
  match dataRow line with
  | none => none
  | some (name, dg) =>
    if hasSubL patPre line || hasSubL patLx line then none
    else
      let parts := catSplit name.length [] name
      let k0 := String.ofList (parts.headD [])
      if k0 == "Total" then none
      else some (k0 ++ " Cmpt Exec", digitsVal dg, category parts)

/-- `_process_table_line` -/
def step (s : St) (line : List Char) : St :=
  if s.stop then s
  else if hasSubL patAuto line then { s with stop := true }
  else if hasSubL patScale line then s
  else if iterMode line then s
  else if hasSubL patStart line then { s with active := true, cur := Table.empty }
  else if !s.active then s
  else if hasSubL patEnd line then { s with active := false, done := s.done ++ [s.cur] }
  else match rowOf line with
    | none => s
    | some (k, c, cat) => { s with cur := addKernel s.cur k c cat }

def parse (lines : List (List Char)) : St := lines.foldl step {}

/-- Python's text mode (`open(path, 'r')`, universal newlines): `\r\n` and a lone `\r` are read as `\n` -/
def normNl : List Char → List Char
  | '\r' :: '\n' :: r => '\n' :: normNl r
  | '\r' :: r => '\n' :: normNl r
  | c :: r => c :: normNl r
  | [] => []

/-- `for line in file`: every line keeps its newline; the last one may lack it -/
def splitLines : List Char → List Char → List (List Char)
  | cur, [] => if cur.isEmpty then [] else [cur.reverse]
  | cur, '\n' :: r => ('\n' :: cur).reverse :: splitLines [] r
  | cur, c :: r => splitLines (c :: cur) r

/-- `extract_tables` on the text of the log file -/
def parseText (t : List Char) : St := parse (splitLines [] (normNl t))

end AiuVerif.LogParse
