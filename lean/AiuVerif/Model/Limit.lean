/-
Executable model of `--event_limit` / `--event_filter` as implemented in
`src/aiu_trace_analyzer/pipeline/normalize.py`:

* `Cfg`, `mkCfg`        — `EventLimiter.__init__` on the dict that `Acelyzer._parse_event_limit_type` hands over
                          (defaults `skip 0`, `count 1<<60`, `ts_start 0.0`, `ts_end sys.float_info.max`,
                          `no_count_types "M"`; `event_limit = count + skip`).
* `ignored`             — `is_ignored_type`: `ph in no_count_types` is a *substring* test.
* `inWin`, `withinLimits` — `is_within_limits` (missing `ts` = −1.0, missing `dur` = 0.0; the counter only
                          advances for events inside the window).
* `eventWithinLimits`   — `NormalizationContext.event_within_limits` (ignored types short-circuit: they are
                          neither counted nor subject to the limits).
* `entries`, `collect`, `parseFilters` — `extract_eventfilters`: split on `,` then `:`; entries that do not have
                          exactly two parts are skipped; the result is the list of pairs in command-line order
                          (`collectOld`: the dict semantics before /repo d1d4f97, kept for a witness only).
* `walk`, `eventFiltered` — `event_filtered`: descend along `attr.split('.')`, `break` at the first missing key;
                          `a not in e` on a `str` leaf is a substring test followed by `e[a]` ⇒ `TypeError`, on a
                          number it is a `TypeError`; a `dict` target never matches; otherwise
                          `regex.search(str(e))`.
* `normalize`           — `_attr_to_args`, `_hex_to_int_str`, `_name_unification`, `_capitalized_args`.
* `step`, `run`         — `normalize_phase1` on one event / on the stream (an exception ends the run).

Event values are modelled two levels deep (top-level scalars, `args`/`attr` dicts of scalars), which is the shape
of the traces; a scalar is a string or a non-string rendered by `str()` (the rendering is supplied with the
value).  Regular expressions are a parameter `m : ρ → String → Bool` of every function that matches; the driver
instantiates it with literal patterns with optional `^`/`$` anchors (`Rx`, `rxMatch`), which is the fragment the
correspondence generates.  `int(s, 0)` is modelled for sign + `0x`/`0o`/`0b`/decimal digits (no `_`, no blanks).
The `TS1` branch (`tsx_32bit_local_correction`) belongs to C05 and is not part of this model: generated events
carry no `TS1`.  Core Lean only.
-/
import AiuVerif.Basic

namespace AiuVerif
namespace Limit

/-! ### strings -/

def isInfixL : List Char → List Char → Bool
  | p, [] => p.isEmpty
  | p, c :: cs => p.isPrefixOf (c :: cs) || isInfixL p cs

/-- Python `p in s` on strings -/
def isInfix (p s : String) : Bool := isInfixL p.toList s.toList

/-- `str.replace(old, new)` for a non-empty `old` (left to right, non-overlapping); fuel = length -/
def replaceL (old new : List Char) : Nat → List Char → List Char
  | 0, s => s
  | _ + 1, [] => []
  | fuel + 1, c :: cs =>
    if old.isPrefixOf (c :: cs) then new ++ replaceL old new fuel ((c :: cs).drop old.length)
    else c :: replaceL old new fuel cs

def replace (s old new : String) : String :=
  String.ofList (replaceL old.toList new.toList s.length s.toList)

/-- `_name_unification` -/
def unify (name : String) : String := replace (replace name "RDMA" "Rdma") "Receive" "Recv"

def digitVal (base : Nat) (c : Char) : Option Nat :=
  let v : Option Nat :=
    if '0' ≤ c ∧ c ≤ '9' then some (c.toNat - '0'.toNat)
    else if 'a' ≤ c ∧ c ≤ 'f' then some (c.toNat - 'a'.toNat + 10)
    else if 'A' ≤ c ∧ c ≤ 'F' then some (c.toNat - 'A'.toNat + 10)
    else none
  v.bind fun d => if d < base then some d else none

def digitsVal (base : Nat) : List Char → Option Nat
  | [] => none
  | cs => cs.foldl (fun acc c => acc.bind fun a => (digitVal base c).map fun d => a * base + d) (some 0)

/-- `int(s, 0)` on the modelled fragment; `none` = `ValueError` -/
def intBase0 (s : String) : Option Int :=
  let (neg, body) : Bool × List Char :=
    match s.toList with
    | '-' :: r => (true, r)
    | '+' :: r => (false, r)
    | r => (false, r)
  let mag : Option Nat :=
    match body with
    | '0' :: 'x' :: r => digitsVal 16 r
    | '0' :: 'X' :: r => digitsVal 16 r
    | '0' :: 'o' :: r => digitsVal 8 r
    | '0' :: 'O' :: r => digitsVal 8 r
    | '0' :: 'b' :: r => digitsVal 2 r
    | '0' :: 'B' :: r => digitsVal 2 r
    | '0' :: r => if r.all (· == '0') then some 0 else none      -- "012" is a ValueError with base 0
    | r => digitsVal 10 r
  mag.map fun n => if neg then -(n : Int) else (n : Int)

/-! ### events -/

/-- a scalar: a `str`, or anything else together with its `str()` rendering -/
inductive Leaf
  | str (s : String)
  | num (r : String)
deriving DecidableEq, Repr

def Leaf.render : Leaf → String
  | .str s => s
  | .num r => r

abbrev Dict := List (String × Leaf)

def Dict.get? (d : Dict) (k : String) : Option Leaf := (d.find? (·.1 == k)).map (·.2)

/-- `d[k] = v`: replace in place or append -/
def Dict.set (d : Dict) (k : String) (v : Leaf) : Dict :=
  if d.any (·.1 == k) then d.map (fun p => if p.1 == k then (k, v) else p) else d ++ [(k, v)]

def Dict.erase (d : Dict) (k : String) : Dict := d.filter (·.1 != k)

structure Ev where
  uid : Nat
  ph : String
  ts : Option Rat
  dur : Option Rat
  name : Option String
  top : Dict                    -- the other top-level scalars (pid, tid, cat, …, and the renderings of ts / dur)
  args : Option Dict
  attr : Option Dict
deriving DecidableEq, Repr

inductive Err | key | type
deriving DecidableEq, Repr

/-! ### limits -/

structure Cfg where
  skip : Int
  count : Int
  tsStart : Rat
  tsEnd : Rat
  nct : String
deriving DecidableEq, Repr

/-- `sys.float_info.max` -/
def floatMax : Rat := ((2 : Int) ^ 1024 - (2 : Int) ^ 971 : Int)

def mkCfg (skip count : Option Int) (tsStart tsEnd : Option Rat) (nct : Option String) : Cfg :=
  { skip := skip.getD 0, count := count.getD ((2 : Int) ^ 60), tsStart := tsStart.getD 0,
    tsEnd := tsEnd.getD floatMax, nct := nct.getD "M" }

def ignored (c : Cfg) (e : Ev) : Bool := isInfix e.ph c.nct

def evTs (e : Ev) : Rat := e.ts.getD (-1)
def evEnd (e : Ev) : Rat := evTs e + e.dur.getD 0

/-- `[ts, ts+dur]` intersects `[ts_start, ts_end]` -/
def inWin (c : Cfg) (e : Ev) : Bool := decide (c.tsStart ≤ evEnd e) && decide (evTs e ≤ c.tsEnd)

/-- `is_within_limits` with the counter threaded: (verdict, new counter) -/
def withinLimits (c : Cfg) (cnt : Nat) (e : Ev) : Bool × Nat :=
  let w := inWin c e
  let cnt' := if w then cnt + 1 else cnt
  (w && decide (c.skip < (cnt' : Int)) && decide ((cnt' : Int) ≤ c.count + c.skip), cnt')

/-- `event_within_limits` -/
def eventWithinLimits (c : Cfg) (cnt : Nat) (e : Ev) : Bool × Nat :=
  if ignored c e then (true, cnt) else withinLimits c cnt e

/-- the limiter alone over a stream: the verdict for every event -/
def limitFlags (c : Cfg) : Nat → List Ev → List Bool
  | _, [] => []
  | cnt, e :: es => (eventWithinLimits c cnt e).1 :: limitFlags c (eventWithinLimits c cnt e).2 es

/-! ### filters -/

/-- the `fstr.split(":")` of every `filterstr.split(",")`, `[]` for a blank filter string -/
def entries (s : String) : List (List String) :=
  if s.trimAscii.toString.isEmpty then [] else (s.splitOn ",").map (·.splitOn ":")

/-- `extract_eventfilters` on the split entries; `compile` is `re.compile`.  Entries that do not have exactly
two parts are skipped; the result is the list of pairs in command-line order: several entries may name the
same attribute and all of them are active (since /repo d1d4f97). -/
def collect {ρ : Type} (compile : String → ρ) : List (List String) → List (String × ρ)
  | [] => []
  | [k, r] :: rest => (k, compile r) :: collect compile rest
  | _ :: rest => collect compile rest

/-- the active filters: attribute path (`attr.split('.')`, done by `event_filtered`) and compiled regex -/
def parseFilters {ρ : Type} (compile : String → ρ) (s : String) : List (List String × ρ) :=
  (collect compile (entries s)).map fun p => (p.1.splitOn ".", p.2)

/-- OLD (before /repo d1d4f97): `dict[key] = value` over an association list kept in first-insertion order -/
def insertFilterOld {ρ : Type} (fs : List (String × ρ)) (k : String) (r : ρ) : List (String × ρ) :=
  if fs.any (·.1 == k) then fs.map (fun p => if p.1 == k then (k, r) else p) else fs ++ [(k, r)]

/-- OLD `extract_eventfilters` (before /repo d1d4f97): the filters were a `dict` keyed by the attribute, so a
later entry for the same attribute replaced an earlier one.  Kept only for the regression witness
`C17.filter_dup_attr_loses_first`; nothing else uses it. -/
def collectOld {ρ : Type} (compile : String → ρ) (es : List (List String)) : List (String × ρ) :=
  es.foldl (fun fs f =>
    match f with
    | [k, r] => insertFilterOld fs k (compile r)
    | _ => fs) []

/-- what the attribute walk ends on -/
inductive Target
  | dict                -- the event itself, or `args`: `isinstance(e, dict)` ⇒ no match
  | leaf (l : Leaf)
deriving DecidableEq, Repr

/-- continue the walk below a scalar -/
def belowLeaf (l : Leaf) : List String → Except Err Target
  | [] => .ok (.leaf l)
  | a :: _ =>
    match l with
    | .str s => if isInfix a s then .error .type else .ok (.leaf l)   -- `a in "…"` then `"…"[a]`
    | .num _ => .error .type                                           -- `a not in 5`

/-- top-level lookup in the (normalised) event dict -/
def topGet (e : Ev) (k : String) : Option (Sum Leaf Dict) :=
  if k == "ph" then some (.inl (.str e.ph))
  else if k == "name" then e.name.map fun n => .inl (.str n)
  else if k == "args" then e.args.map .inr
  else if k == "attr" then e.attr.map .inr
  else (Dict.get? e.top k).map .inl

def walk (e : Ev) : List String → Except Err Target
  | [] => .ok .dict
  | a :: rest =>
    match topGet e a with
    | none => .ok .dict
    | some (.inl l) => belowLeaf l rest
    | some (.inr d) =>
      match rest with
      | [] => .ok .dict
      | b :: rest' =>
        match Dict.get? d b with
        | none => .ok .dict
        | some l => belowLeaf l rest'

/-- `event_filtered` -/
def eventFiltered {ρ : Type} (m : ρ → String → Bool) : List (List String × ρ) → Ev → Except Err Bool
  | [], _ => .ok false
  | (path, rx) :: fs, e =>
    match walk e path with
    | .error x => .error x
    | .ok (.leaf l) => if m rx l.render then .ok true else eventFiltered m fs e
    | .ok .dict => eventFiltered m fs e

/-! ### normalisation and the stage -/

def hexKeys : List String := ["TS1", "TS2", "TS3", "TS4", "TS5", "Power"]

def hexToInt (d : Dict) : Dict :=
  hexKeys.foldl (fun d k =>
    match Dict.get? d k with
    | some (.str s) => (match intBase0 s with | some n => Dict.set d k (.str (toString n)) | none => d)
    | _ => d) d

def attrToArgs (e : Ev) : Ev :=
  match e.attr with
  | none => e
  | some a => { e with args := some (a.foldl (fun d p => Dict.set d p.1 p.2) (e.args.getD [])), attr := none }

def capArgs (d : Dict) : Dict :=
  match Dict.get? d "Bytes" with
  | some v => Dict.set (Dict.erase d "Bytes") "bytes" v
  | none => d

/-- the event the filters (and the user) see -/
def normalize (e : Ev) : Except Err Ev :=
  let e1 := attrToArgs e
  let e2 := { e1 with args := e1.args.map hexToInt }
  match e2.name with
  | none => .error .key
  | some n => .ok { e2 with name := some (unify n), args := e2.args.map capArgs }

/-- `normalize_phase1` on one event: (new counter, `[]` / `[event]` / exception) -/
def step {ρ : Type} (m : ρ → String → Bool) (c : Cfg) (fs : List (List String × ρ)) (cnt : Nat) (e : Ev) :
    Nat × Except Err (Option Ev) :=
  let r := eventWithinLimits c cnt e
  if !r.1 then (r.2, .ok none)
  else if e.ph != "X" then (r.2, .ok (some e))
  else
    match normalize e with
    | .error x => (r.2, .error x)
    | .ok e' =>
      match eventFiltered m fs e' with
      | .error x => (r.2, .error x)
      | .ok true => (r.2, .ok none)
      | .ok false =>
        match e'.args with
        | none => (r.2, .error .key)                       -- event["args"]["jobname"] = …
        | some a =>
          match Dict.get? a "jobhash" with
          | none => (r.2, .error .key)                     -- … event["args"]["jobhash"]
          | some _ => (r.2, .ok (some e'))

/-- the stage over a stream: what leaves it, and the exception that ended the run (if any) -/
def run {ρ : Type} (m : ρ → String → Bool) (c : Cfg) (fs : List (List String × ρ)) :
    Nat → List Ev → List Ev × Option Err
  | _, [] => ([], none)
  | cnt, e :: es =>
    match step m c fs cnt e with
    | (_, .error x) => ([], some x)
    | (cnt', .ok none) => run m c fs cnt' es
    | (cnt', .ok (some e')) => let r := run m c fs cnt' es; (e' :: r.1, r.2)

/-! ### the regex fragment of the correspondence -/

structure Rx where
  atStart : Bool
  atEnd : Bool
  lit : String
deriving DecidableEq, Repr

def parseRx (s : String) : Rx :=
  let l := s.toList
  let (a, l) := match l with | '^' :: r => (true, r) | r => (false, r)
  let (z, l) := if l.getLast? == some '$' then (true, l.dropLast) else (false, l)
  ⟨a, z, String.ofList l⟩

/-- `re.search` for a literal with optional anchors (subject without newline) -/
def rxMatch (r : Rx) (s : String) : Bool :=
  match r.atStart, r.atEnd with
  | true, true => s == r.lit
  | true, false => r.lit.toList.isPrefixOf s.toList
  | false, true => r.lit.toList.isSuffixOf s.toList
  | false, false => isInfix r.lit s

end Limit
end AiuVerif
