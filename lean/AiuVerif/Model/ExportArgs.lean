/-
The argument dictionary of an exported event (C01, clause "still carrying its user-supplied
argument keys"; core/processing.py EventProcessor.convert_events):

    if "args" not in event: event["args"] = {}
    for key, val in event.items():
        if key not in ["ph","ts","pid","tid","name","cat","args","id","bp","dur"]:
            event["args"][key] = val

followed by `AbstractEventType.from_dict`, whose event classes keep the `args` dictionary as it is
(`json()` returns `__dict__`).  Dictionaries are insertion-ordered association lists with distinct
keys; values are opaque (`V`).  Core only.
-/
namespace AiuVerif.ExportArgs

abbrev KV (V : Type) := List (String × V)

def known : List String := ["ph", "ts", "pid", "tid", "name", "cat", "args", "id", "bp", "dur"]

def lookup {V : Type} (d : KV V) (k : String) : Option V :=
  match d with
  | [] => none
  | (k', v) :: rest => if k' = k then some v else lookup rest k

/-- `d[k] = v` -/
def assign {V : Type} (d : KV V) (k : String) (v : V) : KV V :=
  match d with
  | [] => [(k, v)]
  | (k', v') :: rest => if k' = k then (k, v) :: rest else (k', v') :: assign rest k v

/-- the unknown top-level entries, in dictionary order -/
def unknownTop {V : Type} (top : KV V) : KV V := top.filter (fun p => !known.contains p.1)

/-- `args` of the exported event: the event's own `args` (or `{}`), then every unknown top-level
entry assigned into it -/
def exportArgs {V : Type} (top : KV V) (args : Option (KV V)) : KV V :=
  (unknownTop top).foldl (fun a p => assign a p.1 p.2) (args.getD [])

end AiuVerif.ExportArgs
