/-
Name-based phase classification of FLEX device events — the four keyword tables of /repo:

* `refIdx`     = `NormalizationContext._get_ref_ts`            (pipeline/normalize.py)   `endswith`, leading blank
* `cvtRefIdx`  = the `ref_idx` cascade of `_convert_cycle_timestamps` (pipeline/timesync.py)
                 `endswith("Cmpt Prep")`, `endswith(" DmaI")`, `endswith("Cmpt Exec")`, default 4
* `opIds`      = `_match_opIds_from_event`                     (pipeline/timesync.py)    substring, leading blank
* `flexMap`    = `FlexEventMapToTS.__getitem__`                (pipeline/tools.py)       substring, no blank,
                 first hit in insertion order

All indices are 0-based positions in `[TS1, TS2, TS3, TS4, TS5]`.
String tests are written over `List Char` by structural recursion so that they reduce under `decide`.
Core Lean only.
-/
namespace AiuVerif.PhaseName

/-- Python `pat in s` on code-point lists -/
def hasSubL : List Char → List Char → Bool
  | pat, [] => pat.isEmpty
  | pat, s@(_ :: cs) => pat.isPrefixOf s || hasSubL pat cs

/-- Python `pat in s` -/
def hasSub (s pat : String) : Bool := hasSubL pat.toList s.toList

/-- Python `s.endswith(pat)` -/
def endsW (s pat : String) : Bool := pat.toList.isSuffixOf s.toList

/-- `_get_ref_ts`: index of the counter whose wall-clock time is the host `ts` of the slice -/
def refIdx (name : String) : Nat :=
  if endsW name " DmaI" then 0
  else if endsW name " Cmpt Prep" then 1
  else if endsW name " Cmpt Exec" then 2
  else if endsW name " DmaO" then 3
  else 0

/-- `_convert_cycle_timestamps`: three independent `if`s executed in source order
(Prep, DmaI, Exec), the last one that fires wins; default 4 -/
def cvtRefIdx (name : String) : Nat :=
  let r0 := 4
  let r1 := if endsW name "Cmpt Prep" then 2 else r0
  let r2 := if endsW name " DmaI" then 1 else r1
  if endsW name "Cmpt Exec" then 3 else r2

/-- `_match_opIds_from_event`: indices of the keywords contained in the name, ascending
(`np.nonzero([key in name for key in op_keywords])`) -/
def opIds (name : String) : List Nat :=
  (if hasSub name " DmaI" then [0] else []) ++ (if hasSub name " Cmpt Prep" then [1] else []) ++
    (if hasSub name " Cmpt Exec" then [2] else []) ++ (if hasSub name " DmaO" then [3] else [])

/-- `FlexEventMapToTS.__getitem__`: first key (insertion order) contained in the name -/
def flexMap (name : String) : Option (Nat × Nat) :=
  if hasSub name "DmaI" then some (0, 1)
  else if hasSub name "Cmpt Prep" then some (1, 2)
  else if hasSub name "Cmpt Exec" then some (2, 3)
  else if hasSub name "DmaO" then some (3, 4)
  else none

/-- the counter pair `(a, b)` (0-based) whose difference is the exported duration after
`tighten_hts_by_instr_type`: `(op, op+1)` for the first matching keyword, `(0, 4)` without keyword -/
def durPair (name : String) : Nat × Nat :=
  match opIds name with
  | [] => (0, 4)
  | op :: _ => (op, op + 1)

/-- percent-decoding of the line protocol (`lib.core.enc`): `%XX` → the character with that code -/
def hexVal (c : Char) : Nat :=
  if '0' ≤ c ∧ c ≤ '9' then c.toNat - '0'.toNat
  else if 'A' ≤ c ∧ c ≤ 'F' then c.toNat - 'A'.toNat + 10
  else if 'a' ≤ c ∧ c ≤ 'f' then c.toNat - 'a'.toNat + 10
  else 0

def decodeL : List Char → List Char
  | '%' :: 'u' :: a :: b :: c :: d :: rest =>
    Char.ofNat (((hexVal a * 16 + hexVal b) * 16 + hexVal c) * 16 + hexVal d) :: decodeL rest
  | '%' :: a :: b :: rest => Char.ofNat (hexVal a * 16 + hexVal b) :: decodeL rest
  | c :: rest => c :: decodeL rest
  | [] => []

def decode (s : String) : String :=
  let r := String.ofList (decodeL s.toList)
  if r = "\x00" then "" else r

end AiuVerif.PhaseName
