/-
Model of the TensorBoard and DataFrame exporters:
  export/exporter.py  TensorBoardFileTraceExporter._parse_by_rank_id / _parse_events_by_id /
                      _update_traceview_value_by_rank / _save_events_by_id / flush
                      JsonFileTraceExporter.export (every event appended as `event.json()`)
                      DataframeExporter._extract_value / _convert_trace_event / export / flush

The exporter never looks inside an event except for one key (`pid` of a trace event, `id` of a
device entry), so the TensorBoard part is generic in the event type `α` and takes the key reader
`pidOf : α → PidV` as a parameter.  Python's `defaultdict(list)` is an insertion-ordered
association list (`Groups`): its length is `len(events_by_id)`, a lookup of an absent key gives `[]`
(the real `value[rid]` on a defaultdict does exactly that).  `event[key]` on a dict without the key
raises `KeyError`: that is the explicit `Except` branch of `parseByRankId`.
Core Lean only (this file is imported by the driver).
-/
namespace AiuVerif
namespace Tb

/-- what `event[key]` evaluates to -/
inductive PidV where
  /-- the key is absent: `event[key]` raises KeyError -/
  | missing
  /-- a Python `int` (a `bool` is an int: `True == 1`) -/
  | int (i : Int)
  /-- `None`, a float, a string …: `rank_id is not None and isinstance(rank_id, int)` is false -/
  | other
  deriving DecidableEq, Repr

/-- `if rank_id >= 1000: rank_id -= 1000` -/
def foldRank (i : Int) : Int := if i ≥ 1000 then i - 1000 else i

/-- `defaultdict(list)`: insertion-ordered association list -/
abbrev Groups (α : Type) := List (Int × List α)

namespace Groups
variable {α : Type}

/-- `events_by_id[k].append(e)` -/
def add : Groups α → Int → α → Groups α
  | [], k, e => [(k, [e])]
  | (k', l) :: rest, k, e => if k' = k then (k', l ++ [e]) :: rest else (k', l) :: add rest k e

/-- `events_by_id[k]` of a defaultdict: `[]` for an absent key -/
def get : Groups α → Int → List α
  | [], _ => []
  | (k', l) :: rest, k => if k' = k then l else get rest k

def keys (g : Groups α) : List Int := g.map (·.1)

end Groups

variable {α : Type}

/-- `_parse_by_rank_id(key, data)`, continuing from the groups collected so far -/
def parseFrom (pidOf : α → PidV) : Groups α → List α → Except String (Groups α)
  | g, [] => .ok g
  | g, e :: es =>
    match pidOf e with
    | .missing => .error "keyerror"
    | .int i => parseFrom pidOf (g.add (foldRank i) e) es
    | .other => parseFrom pidOf g es

def parseByRankId (pidOf : α → PidV) (data : List α) : Except String (Groups α) :=
  parseFrom pidOf [] data

/-- `rank_cnt` of `_parse_events_by_id` (after the repair: the pseudo process −1 is only
    discounted when it is present) -/
def rankCnt (g : Groups α) : Nat :=
  if g.length > 1 then g.length - (if g.keys.contains (-1) then 1 else 0) else g.length

/-- `_update_traceview_value_by_rank(var, rank_cnt, value)`: `value[rid]` for `rid in range(rank_cnt)` -/
def perRank (g : Groups α) (rc : Nat) : List (List α) :=
  (List.range rc).map (fun (r : Nat) => g.get (Int.ofNat r))

/-- what `flush` leaves on disk -/
structure TbOut (α δ : Type) where
  /-- `rank_cnt` -/
  rankCnt : Nat
  /-- `traceEvents` of `<base>_worker_<r>.pt.trace.json`, `r = 0 …`; no worker file at all when
      `rank_cnt == 1` (early return) -/
  workers : List (List α)
  /-- `deviceProperties` of the worker files (same indexing) -/
  workerDevs : List (List δ)
  /-- `traceEvents` of the combined file -/
  combined : List α

/-- `TensorBoardFileTraceExporter.flush` for the exported events `evs` (already `.json()` dicts in
    `self.traceview.trace_events`) and the collected device entries `devs` -/
def flush {δ : Type} (pidOf : α → PidV) (idOf : δ → PidV) (evs : List α) (devs : List δ) :
    Except String (TbOut α δ) := do
  let g ← parseByRankId pidOf evs
  let rc := rankCnt g
  let dg ← parseByRankId idOf devs
  if rc = 1 then
    pure { rankCnt := rc, workers := [], workerDevs := [], combined := evs }
  else
    pure { rankCnt := rc, workers := perRank g rc, workerDevs := perRank dg rc, combined := evs }

/-- the folded key of an event, `none` when `_parse_by_rank_id` skips it -/
def keyOf (pidOf : α → PidV) (e : α) : Option Int :=
  match pidOf e with
  | .int i => some (foldRank i)
  | _ => none

end Tb

/-! ### DataframeExporter -/
namespace Df

/-- a JSON-like Python value; only what `_extract_value` can tell apart -/
inductive J where
  | null
  | num (q : Rat)
  | str (s : String)
  | obj (kv : List (String × J))
  deriving Inhabited

/-- `dict.get`-like lookup on an insertion-ordered dict -/
def lookup (k : String) : List (String × J) → Option J
  | [] => none
  | (k', v) :: rest => if k' = k then some v else lookup k rest

/-- `_extract_value`: walk the dotted path; the default as soon as the current value is not a dict
    or lacks the key; whatever is found otherwise (possibly `None` or a dict) -/
def extract : List String → J → J → J
  | [], v, _ => v
  | k :: ks, .obj kv, d =>
    match lookup k kv with
    | some v => extract ks v d
    | none => d
  | _ :: _, _, d => d

/-- one `data_map` entry: dotted path (already split), column title, default -/
structure Col where
  path : List String
  title : String
  dflt : J

/-- the built-in `data_map` -/
def defaultMap : List Col :=
  [ ⟨["args", "rank"], "Rank", .num 0⟩,
    ⟨["ts"], "Timestamp", .num 0⟩,
    ⟨["dur"], "Duration", .num 0⟩,
    ⟨["cat"], "Category", .str "other"⟩,
    ⟨["name"], "Event Name", .str "NoName"⟩,
    ⟨["args", "class"], "Event CLass", .str "UNKNOWN"⟩,
    ⟨["args", "jobname"], "Job", .str "Unknown"⟩,
    ⟨["args", "bytes"], "Size", .num 0⟩,
    ⟨["args", "pt_active"], "PT_Active", .num 0⟩ ]

/-- an exported event object: its Python class (only `CompleteEvents` or not matters) and `json()` -/
structure XEv where
  complete : Bool
  json : J

def phOf (j : J) : J := extract ["ph"] j .null

def isX : J → Bool
  | .str s => s == "X"
  | _ => false

/-- `_convert_trace_event` for an event that passed the `ph` test -/
def rowOf (dm : List Col) (j : J) : List J := dm.map (fun c => extract c.path j c.dflt)

/-- `DataframeExporter.export`: the loop with its two guards (`isinstance(event, CompleteEvents)`,
    then `event_dict.ph != "X"` → `None` → not appended), appending to `vertical_view`.
    (`if event_line:` is also false for an empty tuple, i.e. an empty `data_map`.) -/
def dfExport (dm : List Col) : List (List J) → List XEv → List (List J)
  | view, [] => view
  | view, e :: es =>
    if !e.complete then dfExport dm view es
    else if !isX (phOf e.json) then dfExport dm view es
    else if dm.isEmpty then dfExport dm view es
    else dfExport dm (view ++ [rowOf dm e.json]) es

/-- `JsonFileTraceExporter.export`: every event is appended as `event.json()` -/
def jsonExport : List J → List XEv → List J
  | tv, [] => tv
  | tv, e :: es => jsonExport (tv ++ [e.json]) es

end Df
end AiuVerif
