/- Helper lemmas for the global-store engine (core only). -/
import AiuVerif.Model.EngineG

namespace AiuVerif
namespace GStage
variable {St ε : Type}

@[simp] theorem dels_append (j : Nat) (a b : List (GLog ε)) : dels j (a ++ b) = dels j a ++ dels j b := by
  induction a with
  | nil => rfl
  | cons e a ih =>
    cases e with
    | del k x => simp only [List.cons_append, dels]; split <;> simp [ih]
    | emit k y => simp only [List.cons_append, dels]; exact ih

@[simp] theorem emits_append (j : Nat) (a b : List (GLog ε)) : emits j (a ++ b) = emits j a ++ emits j b := by
  induction a with
  | nil => rfl
  | cons e a ih =>
    cases e with
    | emit k y => simp only [List.cons_append, emits]; split <;> simp [ih]
    | del k x => simp only [List.cons_append, emits]; exact ih

@[simp] theorem dels_map_del (j k : Nat) (xs : List ε) :
    dels j (xs.map (GLog.del k)) = if k = j then xs else [] := by
  induction xs with
  | nil => simp [dels]
  | cons x xs ih => simp only [List.map_cons, dels, ih]; split <;> simp

@[simp] theorem dels_map_emit (j k : Nat) (xs : List ε) : dels j (xs.map (GLog.emit k)) = [] := by
  induction xs with
  | nil => rfl
  | cons x xs ih => simpa [dels] using ih

@[simp] theorem emits_map_emit (j k : Nat) (xs : List ε) :
    emits j (xs.map (GLog.emit k)) = if k = j then xs else [] := by
  induction xs with
  | nil => simp [emits]
  | cons x xs ih => simp only [List.map_cons, emits, ih]; split <;> simp

@[simp] theorem emits_map_del (j k : Nat) (xs : List ε) : emits j (xs.map (GLog.del k)) = [] := by
  induction xs with
  | nil => rfl
  | cons x xs ih => simpa [emits] using ih

/-- index of a log entry -/
def idx : GLog ε → Nat
  | .del k _ => k
  | .emit k _ => k

theorem dels_of_ge (j k : Nat) (L : List (GLog ε)) (h : ∀ e ∈ L, k ≤ idx e) (hj : j < k) :
    dels j L = [] ∧ emits j L = [] := by
  induction L with
  | nil => exact ⟨rfl, rfl⟩
  | cons e L ih =>
    have he := h e (List.mem_cons_self ..)
    obtain ⟨i1, i2⟩ := ih (fun e' he' => h e' (List.mem_cons_of_mem _ he'))
    cases e with
    | del k' x =>
      have : k' ≠ j := by simp only [idx] at he; omega
      simp [dels, emits, this, i1, i2]
    | emit k' y =>
      have : k' ≠ j := by simp only [idx] at he; omega
      simp [dels, emits, this, i1, i2]

theorem feedLog_ge (k : Nat) (p : List (GStage St ε)) (s : St) (xs : List ε) :
    ∀ e ∈ feedLog k p s xs, k ≤ idx e := by
  induction p generalizing k s xs with
  | nil => simp [feedLog]
  | cons st rest ih =>
    intro e he
    simp only [feedLog, List.mem_append, List.mem_map] at he
    rcases he with (⟨x, _, rfl⟩ | ⟨y, _, rfl⟩) | he
    · exact Nat.le_refl _
    · exact Nat.le_refl _
    · exact Nat.le_of_succ_le (ih (k + 1) _ _ e he)

theorem streamLog_ge (k : Nat) (p : List (GStage St ε)) (s : St) (xs : List ε) :
    ∀ e ∈ streamLog k p s xs, k ≤ idx e := by
  induction xs generalizing s with
  | nil => simp [streamLog]
  | cons x xs ih =>
    intro e he
    simp only [streamLog, List.mem_append] at he
    rcases he with he | he
    · exact feedLog_ge k p s [x] e he
    · exact ih _ e he

theorem drainLog_ge (k : Nat) (p : List (GStage St ε)) (s : St) :
    ∀ e ∈ drainLog k p s, k ≤ idx e := by
  induction p generalizing k s with
  | nil => simp [drainLog]
  | cons st rest ih =>
    intro e he
    simp only [drainLog, List.mem_append, List.mem_map] at he
    rcases he with (⟨y, _, rfl⟩ | he) | he
    · exact Nat.le_refl _
    · exact Nat.le_of_succ_le (streamLog_ge (k + 1) rest _ _ e he)
    · exact Nat.le_of_succ_le (ih (k + 1) _ e he)

/-- what a log segment over the stages `[k, k+n)` must satisfy: `xs` went into stage `k`, each
later stage received exactly what its predecessor emitted, `out` came out of the last stage -/
structure Linked (k n : Nat) (L : List (GLog ε)) (xs out : List ε) : Prop where
  first : 0 < n → dels k L = xs
  link : ∀ j, k ≤ j → j + 1 < k + n → dels (j + 1) L = emits j L
  last : 0 < n → emits (k + n - 1) L = out
  empty : n = 0 → out = xs

theorem Linked.append {k n : Nat} {L₁ L₂ : List (GLog ε)} {xs₁ xs₂ o₁ o₂ : List ε}
    (h₁ : Linked k n L₁ xs₁ o₁) (h₂ : Linked k n L₂ xs₂ o₂) :
    Linked k n (L₁ ++ L₂) (xs₁ ++ xs₂) (o₁ ++ o₂) where
  first := fun hn => by rw [dels_append, h₁.first hn, h₂.first hn]
  link := fun j a b => by rw [dels_append, emits_append, h₁.link j a b, h₂.link j a b]
  last := fun hn => by rw [emits_append, h₁.last hn, h₂.last hn]
  empty := fun hn => by rw [h₁.empty hn, h₂.empty hn]

theorem linked_nil (k n : Nat) : Linked k n ([] : List (GLog ε)) [] [] :=
  ⟨fun _ => rfl, fun _ _ _ => rfl, fun _ => rfl, fun _ => rfl⟩

theorem feed_nil_stages (s : St) (xs : List ε) : feed ([] : List (GStage St ε)) s xs = (s, xs) := rfl

theorem feedLog_linked (k : Nat) (p : List (GStage St ε)) (s : St) (xs : List ε) :
    Linked k p.length (feedLog k p s xs) xs (feed p s xs).2 := by
  induction p generalizing k s xs with
  | nil => exact ⟨fun h => absurd h (by simp), fun _ _ h => absurd h (by simp; omega),
      fun h => absurd h (by simp), fun _ => rfl⟩
  | cons st rest ih =>
    have IH := ih (k + 1) (feed1 st s xs).1 (feed1 st s xs).2
    have hge := feedLog_ge (k + 1) rest (feed1 st s xs).1 (feed1 st s xs).2
    have h0 := dels_of_ge k (k + 1) _ hge (Nat.lt_succ_self k)
    refine ⟨fun _ => ?_, fun j hj1 hj2 => ?_, fun _ => ?_, fun h => absurd h (by simp)⟩
    · simp [feedLog, h0.1]
    · simp only [feedLog, dels_append, emits_append, dels_map_del, dels_map_emit, emits_map_del,
        emits_map_emit, List.length_cons] at *
      by_cases hjk : j = k
      · subst hjk
        have hrest : 0 < rest.length := by omega
        simp [h0.2, IH.first hrest]
      · have h1 : ¬ (k = j + 1) := by omega
        have h2 : ¬ (k = j) := by omega
        simp only [h1, h2, if_false, List.nil_append]
        exact IH.link j (by omega) (by omega)
    · have hidx : k + (st :: rest).length - 1 = k + rest.length := by simp
      rw [hidx]
      simp only [feedLog, emits_append, emits_map_del, emits_map_emit, feed, List.nil_append]
      cases hr : rest with
      | nil => simp [feedLog, emits, feed]
      | cons r rs =>
        have hne : ¬ (k = k + (r :: rs).length) := by simp
        rw [if_neg hne, List.nil_append]
        have hl := IH.last (by rw [hr]; simp)
        rw [hr] at hl
        rw [show k + (r :: rs).length = k + 1 + (r :: rs).length - 1 by simp; omega]
        exact hl

theorem streamLog_linked (k : Nat) (p : List (GStage St ε)) (s : St) (xs : List ε) :
    Linked k p.length (streamLog k p s xs) xs (stream p s xs).2 := by
  induction xs generalizing s with
  | nil => exact linked_nil k p.length
  | cons x xs ih =>
    have h1 := feedLog_linked k p s [x]
    have h2 := ih (feed p s [x]).1
    have := h1.append h2
    simpa [streamLog, stream] using this

/-- the drain phase of the stages `[k, k+n)`: nothing is delivered to stage `k` any more, every
later stage still receives exactly what its predecessor emits, and `out` leaves the last stage -/
structure DrainLinked (k n : Nat) (L : List (GLog ε)) (out : List ε) : Prop where
  first : dels k L = []
  link : ∀ j, k ≤ j → j + 1 < k + n → dels (j + 1) L = emits j L
  last : 0 < n → emits (k + n - 1) L = out
  empty : n = 0 → out = []

theorem drainLog_linked (k : Nat) (p : List (GStage St ε)) (s : St) :
    DrainLinked k p.length (drainLog k p s) (drainAll p s).2 := by
  induction p generalizing k s with
  | nil => exact ⟨rfl, fun _ _ h => absurd h (by simp; omega), fun h => absurd h (by simp), fun _ => rfl⟩
  | cons st rest ih =>
    have C := streamLog_linked (k + 1) rest (st.drain s).1 (st.drain s).2
    have D := ih (k + 1) (stream rest (st.drain s).1 (st.drain s).2).1
    have hC0 := dels_of_ge k (k + 1) _ (streamLog_ge (k + 1) rest (st.drain s).1 (st.drain s).2)
      (Nat.lt_succ_self k)
    have hD0 := dels_of_ge k (k + 1) _
      (drainLog_ge (k + 1) rest (stream rest (st.drain s).1 (st.drain s).2).1) (Nat.lt_succ_self k)
    refine ⟨?_, fun j hj1 hj2 => ?_, fun _ => ?_, fun h => absurd h (by simp)⟩
    · simp [drainLog, hC0.1, hD0.1]
    · simp only [drainLog, dels_append, emits_append, dels_map_emit, emits_map_emit,
        List.length_cons] at *
      by_cases hjk : j = k
      · subst hjk
        have hrest : 0 < rest.length := by omega
        simp [hC0.2, hD0.2, C.first hrest, D.first]
      · have h2 : ¬ (k = j) := by omega
        simp only [h2, if_false, List.nil_append]
        rw [C.link j (by omega) (by omega), D.link j (by omega) (by omega)]
    · have hidx : k + (st :: rest).length - 1 = k + rest.length := by simp
      rw [hidx]
      simp only [drainLog, drainAll, emits_append, emits_map_emit]
      cases hr : rest with
      | nil =>
        have hstream : ∀ (s' : St) (ys : List ε), (stream ([] : List (GStage St ε)) s' ys).2 = ys := by
          intro s' ys
          induction ys generalizing s' with
          | nil => rfl
          | cons y ys ihy => simp [stream, feed, ihy]
        have hslog : ∀ (s' : St) (ys : List ε), streamLog (k + 1) ([] : List (GStage St ε)) s' ys = [] := by
          intro s' ys
          induction ys generalizing s' with
          | nil => rfl
          | cons y ys ihy => simp [streamLog, feedLog, ihy]
        simp [hslog, hstream, drainLog, drainAll, emits]
      | cons r rs =>
        have hne : ¬ (k = k + (r :: rs).length) := by simp
        rw [if_neg hne, List.nil_append]
        have c := C.last (by rw [hr]; simp)
        have d := D.last (by rw [hr]; simp)
        rw [hr] at c d
        rw [show k + (r :: rs).length = k + 1 + (r :: rs).length - 1 by simp; omega, c, d]

end GStage
end AiuVerif
