/- Helper lemmas for the ConcurrentPreps sweep (C13).  Core Lean only. -/
import AiuVerif.Model.Preps

namespace AiuVerif.Preps

/-- breakpoint times strictly increasing -/
def StrictTimes (l : List BP) : Prop := l.Pairwise (fun a b => a.1 < b.1)

/-- `c` is the value at time `t` of the step function a breakpoint list stands for: the value of
the latest breakpoint at or before `t`, and `0` before the first breakpoint -/
def IsVal (q : List BP) (t : Num) (c : Nat) : Prop :=
  (∃ x ∈ q, x.1 ≤ t ∧ x.2 = c ∧ ∀ y ∈ q, y.1 ≤ t → y.1 ≤ x.1) ∨ ((∀ y ∈ q, t < y.1) ∧ c = 0)

def rdy (q : List BP) (s : Num) : List BP := q.filter (fun x => decide (x.1 < s))
def mid (q : List BP) (s e : Num) : List BP := q.filter (fun x => decide (s ≤ x.1) && decide (x.1 < e))
def pst (q : List BP) (e : Num) : List BP := q.filter (fun x => decide (e ≤ x.1))

theorem mem_rdy {q : List BP} {s : Num} {y : BP} : y ∈ rdy q s ↔ y ∈ q ∧ y.1 < s := by
  simp [rdy, List.mem_filter]

theorem mem_mid {q : List BP} {s e : Num} {y : BP} : y ∈ mid q s e ↔ y ∈ q ∧ s ≤ y.1 ∧ y.1 < e := by
  simp [mid, List.mem_filter]

theorem mem_pst {q : List BP} {e : Num} {y : BP} : y ∈ pst q e ↔ y ∈ q ∧ e ≤ y.1 := by
  simp [pst, List.mem_filter]

theorem strict_rdy {q : List BP} (h : StrictTimes q) (s : Num) : StrictTimes (rdy q s) :=
  List.Pairwise.filter _ h
theorem strict_mid {q : List BP} (h : StrictTimes q) (s e : Num) : StrictTimes (mid q s e) :=
  List.Pairwise.filter _ h
theorem strict_pst {q : List BP} (h : StrictTimes q) (e : Num) : StrictTimes (pst q e) :=
  List.Pairwise.filter _ h

/-- the special case for the empty list in `update_queues` is an instance of the general one -/
theorem updateQueues_eq (q : List BP) (s e : Num) :
    updateQueues q s e =
      (rdy q s,
       headPart (mid q s e) s (lastVal (rdy q s) 0) ++ (mid q s e).map bump ++
         tailPart (pst q e) e (lastVal (mid q s e) (lastVal (rdy q s) 0)) ++ pst q e) := by
  cases q with
  | nil => simp [updateQueues, rdy, mid, pst, headPart, tailPart, lastVal]
  | cons a l => rfl

theorem lastVal_nil (d : Nat) : lastVal [] d = d := rfl

/-- on a strictly increasing list the last entry is the latest one -/
theorem lastVal_spec {l : List BP} (h : StrictTimes l) (d : Nat) (hne : l ≠ []) :
    ∃ x ∈ l, x.2 = lastVal l d ∧ ∀ y ∈ l, y.1 ≤ x.1 := by
  cases hl : l.getLast? with
  | none => simp [List.getLast?_eq_none_iff] at hl; exact absurd hl hne
  | some x =>
    obtain ⟨ys, rfl⟩ := List.getLast?_eq_some_iff.mp hl
    refine ⟨x, by simp, ?_, ?_⟩
    · simp [lastVal, hl]
    · intro y hy
      have hp := (List.pairwise_append.mp h).2.2
      rcases List.mem_append.mp hy with hy | hy
      · have := hp y hy x (by simp); grind
      · simp at hy; subst hy; grind

theorem head_le {a : BP} {l : List BP} (h : StrictTimes (a :: l)) : ∀ y ∈ a :: l, a.1 ≤ y.1 := by
  intro y hy
  have := List.pairwise_cons.mp h
  rcases List.mem_cons.mp hy with rfl | hy
  · grind
  · have := this.1 y hy; grind

theorem mem_headPart {m : List BP} (h : StrictTimes m) (s : Num) (lr : Nat) (x : BP) :
    x ∈ headPart m s lr ↔ x = (s, lr + 1) ∧ ∀ y ∈ m, s < y.1 := by
  cases m with
  | nil => simp [headPart]
  | cons a l =>
    have hle := head_le h
    by_cases hs : s < a.1
    · simp only [headPart, hs, if_true, List.mem_singleton]
      constructor
      · intro hx; refine ⟨hx, fun y hy => ?_⟩
        have := hle y hy; grind
      · exact fun hx => hx.1
    · simp only [headPart, hs, if_false, List.not_mem_nil, false_iff]
      intro hx; exact hs (hx.2 a (by simp))

theorem mem_tailPart {p : List BP} (h : StrictTimes p) (e : Num) (lo : Nat) (x : BP) :
    x ∈ tailPart p e lo ↔ x = (e, lo) ∧ ∀ y ∈ p, e < y.1 := by
  cases p with
  | nil => simp [tailPart]
  | cons a l =>
    have hle := head_le h
    by_cases hs : e < a.1
    · simp only [tailPart, hs, if_true, List.mem_singleton]
      constructor
      · intro hx; refine ⟨hx, fun y hy => ?_⟩
        have := hle y hy; grind
      · exact fun hx => hx.1
    · simp only [tailPart, hs, if_false, List.not_mem_nil, false_iff]
      intro hx; exact hs (hx.2 a (by simp))

theorem strict_headPart (m : List BP) (s : Num) (lr : Nat) : StrictTimes (headPart m s lr) := by
  cases m with
  | nil => simp [headPart, StrictTimes]
  | cons a l => by_cases hs : s < a.1 <;> simp [headPart, hs, StrictTimes]

theorem strict_tailPart (p : List BP) (e : Num) (lo : Nat) : StrictTimes (tailPart p e lo) := by
  cases p with
  | nil => simp [tailPart, StrictTimes]
  | cons a l => by_cases hs : e < a.1 <;> simp [tailPart, hs, StrictTimes]


/-! ### the new list of `update_queues` -/

theorem mem_new {q : List BP} (h : StrictTimes q) (s e : Num) (x : BP) :
    x ∈ (updateQueues q s e).2 ↔
      (x = (s, lastVal (rdy q s) 0 + 1) ∧ ∀ y ∈ mid q s e, s < y.1) ∨
      (∃ y ∈ mid q s e, x = bump y) ∨
      (x = (e, lastVal (mid q s e) (lastVal (rdy q s) 0)) ∧ ∀ y ∈ pst q e, e < y.1) ∨
      x ∈ pst q e := by
  rw [updateQueues_eq]
  simp only [List.mem_append, List.mem_map, mem_headPart (strict_mid h s e), mem_tailPart (strict_pst h e)]
  constructor
  · rintro (((h1 | ⟨y, hy, rfl⟩) | h3) | h4)
    · exact Or.inl h1
    · exact Or.inr (Or.inl ⟨y, hy, rfl⟩)
    · exact Or.inr (Or.inr (Or.inl h3))
    · exact Or.inr (Or.inr (Or.inr h4))
  · rintro (h1 | ⟨y, hy, rfl⟩ | h3 | h4)
    · exact Or.inl (Or.inl (Or.inl h1))
    · exact Or.inl (Or.inl (Or.inr ⟨y, hy, rfl⟩))
    · exact Or.inl (Or.inr h3)
    · exact Or.inr h4

theorem ready_eq (q : List BP) (s e : Num) : (updateQueues q s e).1 = rdy q s := by
  rw [updateQueues_eq]

/-- value carried by a new start breakpoint: the count just before `s` -/
theorem lr_spec {q : List BP} (h : StrictTimes q) (s : Num) :
    ((∀ y ∈ q, ¬ y.1 < s) ∧ lastVal (rdy q s) 0 = 0) ∨
    (∃ x ∈ q, x.1 < s ∧ x.2 = lastVal (rdy q s) 0 ∧ ∀ y ∈ q, y.1 < s → y.1 ≤ x.1) := by
  by_cases hne : rdy q s = []
  · left
    refine ⟨fun y hy hlt => ?_, by rw [hne]; rfl⟩
    have : y ∈ rdy q s := mem_rdy.mpr ⟨hy, hlt⟩
    rw [hne] at this; simp at this
  · right
    obtain ⟨x, hx, hv, hmax⟩ := lastVal_spec (strict_rdy h s) 0 hne
    have hx' := mem_rdy.mp hx
    exact ⟨x, hx'.1, hx'.2, hv, fun y hy hlt => hmax y (mem_rdy.mpr ⟨hy, hlt⟩)⟩

/-- value carried by a new end breakpoint -/
theorem lo_spec {q : List BP} (h : StrictTimes q) (s e : Num) (lr : Nat) :
    ((∀ y ∈ q, ¬ (s ≤ y.1 ∧ y.1 < e)) ∧ lastVal (mid q s e) lr = lr) ∨
    (∃ x ∈ q, s ≤ x.1 ∧ x.1 < e ∧ x.2 = lastVal (mid q s e) lr ∧
        ∀ y ∈ q, s ≤ y.1 → y.1 < e → y.1 ≤ x.1) := by
  by_cases hne : mid q s e = []
  · left
    refine ⟨fun y hy hlt => ?_, by rw [hne]; rfl⟩
    have : y ∈ mid q s e := mem_mid.mpr ⟨hy, hlt.1, hlt.2⟩
    rw [hne] at this; simp at this
  · right
    obtain ⟨x, hx, hv, hmax⟩ := lastVal_spec (strict_mid h s e) lr hne
    have hx' := mem_mid.mp hx
    exact ⟨x, hx'.1, hx'.2.1, hx'.2.2, hv, fun y hy h1 h2 => hmax y (mem_mid.mpr ⟨hy, h1, h2⟩)⟩

/-- the start `s` is a breakpoint of the new list -/
theorem s_in_new {q : List BP} (h : StrictTimes q) (s e : Num) :
    ∃ y ∈ (updateQueues q s e).2, y.1 = s := by
  by_cases hm : ∀ y ∈ mid q s e, s < y.1
  · exact ⟨_, (mem_new h s e _).mpr (Or.inl ⟨rfl, hm⟩), rfl⟩
  · have ⟨y, hy⟩ : ∃ y, y ∈ mid q s e ∧ ¬ s < y.1 := by
      apply Classical.byContradiction; intro hc; apply hm; intro y hy
      apply Classical.byContradiction; intro hn; exact hc ⟨y, hy, hn⟩
    refine ⟨bump y, (mem_new h s e _).mpr (Or.inr (Or.inl ⟨y, hy.1, rfl⟩)), ?_⟩
    have := (mem_mid.mp hy.1).2.1
    simp only [bump]; grind

/-- the end `e` is a breakpoint of the new list -/
theorem e_in_new {q : List BP} (h : StrictTimes q) (s e : Num) :
    ∃ y ∈ (updateQueues q s e).2, y.1 = e := by
  by_cases hm : ∀ y ∈ pst q e, e < y.1
  · exact ⟨_, (mem_new h s e _).mpr (Or.inr (Or.inr (Or.inl ⟨rfl, hm⟩))), rfl⟩
  · have ⟨y, hy⟩ : ∃ y, y ∈ pst q e ∧ ¬ e < y.1 := by
      apply Classical.byContradiction; intro hc; apply hm; intro y hy
      apply Classical.byContradiction; intro hn; exact hc ⟨y, hy, hn⟩
    refine ⟨y, (mem_new h s e _).mpr (Or.inr (Or.inr (Or.inr hy.1))), ?_⟩
    have := (mem_pst.mp hy.1).2
    grind

/-- every breakpoint of the new list is at or after `s` -/
theorem new_ge {q : List BP} (h : StrictTimes q) {s e : Num} (hse : s < e) :
    ∀ x ∈ (updateQueues q s e).2, s ≤ x.1 := by
  intro x hx
  rcases (mem_new h s e x).mp hx with ⟨rfl, _⟩ | ⟨y, hy, rfl⟩ | ⟨rfl, _⟩ | hx
  · exact Rat.le_refl
  · exact (mem_mid.mp hy).2.1
  · exact Rat.le_of_lt hse
  · have := (mem_pst.mp hx).2; grind

/-- times of the new list together with the emitted ones: the old times plus `s` and `e` -/
theorem new_times {q : List BP} (h : StrictTimes q) (s e : Num) (t : Num) :
    ((∃ x ∈ (updateQueues q s e).2, x.1 = t) ∨ (∃ x ∈ (updateQueues q s e).1, x.1 = t)) ↔
      ((∃ x ∈ q, x.1 = t) ∨ t = s ∨ t = e) := by
  rw [ready_eq]
  constructor
  · rintro (⟨x, hx, rfl⟩ | ⟨x, hx, rfl⟩)
    · rcases (mem_new h s e x).mp hx with ⟨rfl, _⟩ | ⟨y, hy, rfl⟩ | ⟨rfl, _⟩ | hx
      · exact Or.inr (Or.inl rfl)
      · exact Or.inl ⟨y, (mem_mid.mp hy).1, rfl⟩
      · exact Or.inr (Or.inr rfl)
      · exact Or.inl ⟨x, (mem_pst.mp hx).1, rfl⟩
    · exact Or.inl ⟨x, (mem_rdy.mp hx).1, rfl⟩
  · rintro (⟨x, hx, rfl⟩ | rfl | rfl)
    · by_cases h1 : x.1 < s
      · exact Or.inr ⟨x, mem_rdy.mpr ⟨hx, h1⟩, rfl⟩
      · by_cases h2 : x.1 < e
        · exact Or.inl ⟨bump x, (mem_new h s e _).mpr (Or.inr (Or.inl ⟨x, mem_mid.mpr ⟨hx, by grind, h2⟩, rfl⟩)), rfl⟩
        · exact Or.inl ⟨x, (mem_new h s e _).mpr (Or.inr (Or.inr (Or.inr (mem_pst.mpr ⟨hx, by grind⟩)))), rfl⟩
    · exact Or.inl (s_in_new h t e)
    · exact Or.inl (e_in_new h s t)

/-- the new list is again strictly increasing in time -/
theorem strict_new {q : List BP} (h : StrictTimes q) {s e : Num} (hse : s < e) :
    StrictTimes (updateQueues q s e).2 := by
  rw [updateQueues_eq]
  have hm := strict_mid h s e
  have hp := strict_pst h e
  unfold StrictTimes
  refine List.pairwise_append.mpr ⟨List.pairwise_append.mpr ⟨List.pairwise_append.mpr ⟨strict_headPart _ _ _, ?_, ?_⟩,
    strict_tailPart _ _ _, ?_⟩, hp, ?_⟩
  · exact List.pairwise_map.mpr hm
  · intro a ha b hb
    obtain ⟨rfl, hlt⟩ := (mem_headPart hm s _ a).mp ha
    obtain ⟨y, hy, rfl⟩ := List.mem_map.mp hb
    exact hlt y hy
  · intro a ha b hb
    obtain ⟨rfl, _⟩ := (mem_tailPart hp e _ b).mp hb
    rcases List.mem_append.mp ha with ha | ha
    · obtain ⟨rfl, _⟩ := (mem_headPart hm s _ a).mp ha
      exact hse
    · obtain ⟨y, hy, rfl⟩ := List.mem_map.mp ha
      exact (mem_mid.mp hy).2.2
  · intro a ha b hb
    have hb' := (mem_pst.mp hb).2
    rcases List.mem_append.mp ha with ha | ha
    · rcases List.mem_append.mp ha with ha | ha
      · obtain ⟨rfl, _⟩ := (mem_headPart hm s _ a).mp ha
        show s < b.1
        grind
      · obtain ⟨y, hy, rfl⟩ := List.mem_map.mp ha
        have := (mem_mid.mp hy).2.2
        show y.1 < b.1
        grind
    · obtain ⟨rfl, hlt⟩ := (mem_tailPart hp e _ a).mp ha
      exact hlt b hb


theorem isVal_of_max {q : List BP} {t : Num} {x : BP} (hx : x ∈ q) (hxt : x.1 ≤ t)
    (hmax : ∀ y ∈ q, y.1 ≤ t → y.1 ≤ x.1) : IsVal q t x.2 :=
  Or.inl ⟨x, hx, hxt, rfl, hmax⟩

theorem isVal_zero {q : List BP} {t : Num} (h : ∀ y ∈ q, t < y.1) : IsVal q t 0 :=
  Or.inr ⟨h, rfl⟩

/-- Key step: if the stored list represents a step function `f` from `lo` on, the new list
represents `f + 1_[s,e)` from `s` on. -/
theorem step_vals {q : List BP} (h : StrictTimes q) {s e lo : Num} (hse : s < e) (f : Num → Nat)
    (hrep : ∀ t c, lo ≤ t → IsVal q t c → c = f t) (hlo : lo ≤ s) :
    ∀ t c, s ≤ t → IsVal (updateQueues q s e).2 t c → c = f t + (if t < e then 1 else 0) := by
  intro t c hst hv
  have hlt : lo ≤ t := by grind
  obtain ⟨ys, hys, hyst⟩ := s_in_new h s e
  obtain ⟨ye, hye, hyet⟩ := e_in_new h s e
  have hbump : ∀ y ∈ q, s ≤ y.1 → y.1 < e → bump y ∈ (updateQueues q s e).2 := fun y hy h1 h2 =>
    (mem_new h s e _).mpr (Or.inr (Or.inl ⟨y, mem_mid.mpr ⟨hy, h1, h2⟩, rfl⟩))
  have hpost : ∀ y ∈ q, e ≤ y.1 → y ∈ (updateQueues q s e).2 := fun y hy h1 =>
    (mem_new h s e _).mpr (Or.inr (Or.inr (Or.inr (mem_pst.mpr ⟨hy, h1⟩))))
  rcases hv with ⟨x, hx, hxt, hc, hmax⟩ | ⟨hall, _⟩
  · have he := hmax ye hye
    rcases (mem_new h s e x).mp hx with ⟨rfl, hmid⟩ | ⟨y0, hy0, rfl⟩ | ⟨rfl, hpst⟩ | hxp
    · -- the new start breakpoint is the latest one at or before t
      have hte : t < e := by
        apply Classical.byContradiction; intro hn
        have : e ≤ s := by have := he (by grind); grind
        grind
      have hnomid : ∀ y ∈ q, s ≤ y.1 → y.1 ≤ t → False := by
        intro y hy h1 h2
        have h3 : y.1 < e := by grind
        have h4 := hmid y (mem_mid.mpr ⟨hy, h1, h3⟩)
        have h5 := hmax _ (hbump y hy h1 h3) (by simpa [bump] using h2)
        simp only [bump] at h5; grind
      have hval : lastVal (rdy q s) 0 = f t := by
        rcases lr_spec h s with ⟨hnone, hz⟩ | ⟨x0, hx0, hx0s, hx0v, hx0m⟩
        · rw [hz]
          apply hrep t 0 hlt
          apply isVal_zero
          intro y hy
          apply Classical.byContradiction; intro hn
          exact hnomid y hy (by have := hnone y hy; grind) (by grind)
        · rw [← hx0v]
          apply hrep t _ hlt
          apply isVal_of_max hx0 (by grind)
          intro y hy hyt
          by_cases hys : y.1 < s
          · exact hx0m y hy hys
          · exact absurd (hnomid y hy (by grind) hyt) id
      simp only [hte, if_true]
      rw [← hc, hval]
    · -- a bumped stored breakpoint is the latest one
      have hm0 := mem_mid.mp hy0
      have hte : t < e := by
        apply Classical.byContradiction; intro hn
        have := he (by grind)
        simp only [bump] at this; grind
      have hval : y0.2 = f t := by
        apply hrep t _ hlt
        apply isVal_of_max hm0.1 (by simpa [bump] using hxt)
        intro y hy hyt
        by_cases hys : y.1 < s
        · grind
        · have := hmax _ (hbump y hy (by grind) (by grind)) (by simpa [bump] using hyt)
          simpa [bump] using this
      simp only [hte, if_true]
      rw [← hc]; simp only [bump]; rw [hval]
    · -- the new end breakpoint is the latest one
      have hte : ¬ t < e := by grind
      have hnopst : ∀ y ∈ q, e ≤ y.1 → y.1 ≤ t → False := by
        intro y hy h1 h2
        have h3 := hpst y (mem_pst.mpr ⟨hy, h1⟩)
        have h4 := hmax y (hpost y hy h1) h2
        grind
      have hval : lastVal (mid q s e) (lastVal (rdy q s) 0) = f t := by
        rcases lo_spec h s e (lastVal (rdy q s) 0) with ⟨hnomid, hz⟩ | ⟨x1, hx1, hx1s, hx1e, hx1v, hx1m⟩
        · rw [hz]
          rcases lr_spec h s with ⟨hnone, hz⟩ | ⟨x0, hx0, hx0s, hx0v, hx0m⟩
          · rw [hz]
            apply hrep t 0 hlt
            apply isVal_zero
            intro y hy
            apply Classical.byContradiction; intro hn
            have h1 := hnone y hy
            have h2 := hnomid y hy
            exact hnopst y hy (by grind) (by grind)
          · rw [← hx0v]
            apply hrep t _ hlt
            apply isVal_of_max hx0 (by grind)
            intro y hy hyt
            by_cases hys : y.1 < s
            · exact hx0m y hy hys
            · have h2 := hnomid y hy
              exact absurd (hnopst y hy (by grind) hyt) id
        · rw [← hx1v]
          apply hrep t _ hlt
          apply isVal_of_max hx1 (by grind)
          intro y hy hyt
          by_cases hys : y.1 < s
          · grind
          · by_cases hye' : y.1 < e
            · exact hx1m y hy (by grind) hye'
            · exact absurd (hnopst y hy (by grind) hyt) id
      simp only [hte, if_false, Nat.add_zero]
      rw [← hc, hval]
    · -- a stored breakpoint at or after e is the latest one
      have hxp' := mem_pst.mp hxp
      have hte : ¬ t < e := by grind
      have hval : x.2 = f t := by
        apply hrep t _ hlt
        apply isVal_of_max hxp'.1 hxt
        intro y hy hyt
        by_cases hye' : y.1 < e
        · grind
        · exact hmax y (hpost y hy (by grind)) hyt
      simp only [hte, if_false, Nat.add_zero]
      rw [← hc, hval]
  · exact absurd (hall ys hys) (by grind)


/-! ### the invariant over the processed prefix -/

theorem inFlight_nil (t : Num) : inFlight [] t = 0 := rfl

theorem inFlight_append_one (P : List (Num × Num)) (iv : Num × Num) (t : Num) :
    inFlight (P ++ [iv]) t = inFlight P t + (if iv.1 ≤ t ∧ t < iv.2 then 1 else 0) := by
  unfold inFlight
  rw [List.filter_append, List.length_append]
  by_cases h : iv.1 ≤ t ∧ t < iv.2
  · simp [List.filter, h]
  · simp only [h, if_false]
    have : (decide (iv.1 ≤ t) && decide (t < iv.2)) = false := by
      simpa using fun h1 => by grind
    simp [List.filter, this]

theorem inFlight_eq_zero {P : List (Num × Num)} {t : Num} (h : ∀ iv ∈ P, iv.2 ≤ t) :
    inFlight P t = 0 := by
  unfold inFlight
  rw [List.length_eq_zero_iff, List.filter_eq_nil_iff]
  intro iv hiv
  have := h iv hiv
  simp only [Bool.and_eq_true, decide_eq_true_eq, not_and]
  intro _; grind

/-- State of the sweep after the intervals `P`: `q` the stored breakpoints, `out` the samples
already emitted, `lo` the start of the last interval (any number when `P` is empty). -/
structure Inv (P : List (Num × Num)) (lo : Num) (q out : List BP) : Prop where
  strict : StrictTimes (out ++ q)
  out_lt : ∀ x ∈ out, x.1 < lo
  q_ge : ∀ x ∈ q, lo ≤ x.1
  out_val : ∀ x ∈ out, x.2 = inFlight P x.1
  rep : ∀ t c, lo ≤ t → IsVal q t c → c = inFlight P t
  times : ∀ t, (∃ x ∈ out ++ q, x.1 = t) ↔ (∃ iv ∈ P, t = iv.1 ∨ t = iv.2)

theorem Inv.init (lo : Num) : Inv [] lo [] [] where
  strict := List.Pairwise.nil
  out_lt := by simp
  q_ge := by simp
  out_val := by simp
  rep := by
    intro t c _ hv
    rcases hv with ⟨x, hx, _⟩ | ⟨_, hc⟩
    · simp at hx
    · simpa [inFlight_nil] using hc
  times := by simp

theorem Inv.q_val {P : List (Num × Num)} {lo : Num} {q out : List BP} (h : Inv P lo q out) :
    ∀ x ∈ q, x.2 = inFlight P x.1 := by
  intro x hx
  exact h.rep x.1 x.2 (h.q_ge x hx) (isVal_of_max hx Rat.le_refl (fun y _ hy => hy))

theorem Inv.step {P : List (Num × Num)} {lo : Num} {q out : List BP} (h : Inv P lo q out)
    {s e : Num} (hlo : lo ≤ s) (hse : s < e) :
    Inv (P ++ [(s, e)]) s (updateQueues q s e).2 (out ++ (updateQueues q s e).1) := by
  have hsq : StrictTimes q := (List.pairwise_append.mp h.strict).2.1
  have hso : StrictTimes out := (List.pairwise_append.mp h.strict).1
  have hoq := (List.pairwise_append.mp h.strict).2.2
  refine ⟨?_, ?_, new_ge hsq hse, ?_, ?_, ?_⟩
  · -- strictly increasing: out ++ ready ++ new
    rw [ready_eq]
    unfold StrictTimes
    refine List.pairwise_append.mpr ⟨List.pairwise_append.mpr ⟨hso, strict_rdy hsq s, ?_⟩, strict_new hsq hse, ?_⟩
    · intro a ha b hb
      exact hoq a ha b (mem_rdy.mp hb).1
    · intro a ha b hb
      have hb' := new_ge hsq hse b hb
      rcases List.mem_append.mp ha with ha | ha
      · have := h.out_lt a ha; grind
      · have := (mem_rdy.mp ha).2; grind
  · intro x hx
    rw [ready_eq] at hx
    rcases List.mem_append.mp hx with hx | hx
    · have := h.out_lt x hx; grind
    · exact (mem_rdy.mp hx).2
  · intro x hx
    rw [ready_eq] at hx
    have hxs : x.1 < s := by
      rcases List.mem_append.mp hx with hx | hx
      · have := h.out_lt x hx; grind
      · exact (mem_rdy.mp hx).2
    have hxv : x.2 = inFlight P x.1 := by
      rcases List.mem_append.mp hx with hx | hx
      · exact h.out_val x hx
      · exact h.q_val x (mem_rdy.mp hx).1
    rw [inFlight_append_one, hxv]
    have : ¬ (s ≤ x.1 ∧ x.1 < e) := by grind
    simp [this]
  · intro t c hst hv
    have := step_vals hsq hse (inFlight P) h.rep hlo t c hst hv
    rw [inFlight_append_one, this]
    by_cases hte : t < e <;> simp [hst, hte]
  · intro t
    have hnt := new_times hsq s e t
    have hot := h.times t
    constructor
    · rintro ⟨x, hx, rfl⟩
      have : (∃ y ∈ q, y.1 = x.1) ∨ x.1 = s ∨ x.1 = e ∨ (∃ y ∈ out, y.1 = x.1) := by
        rcases List.mem_append.mp hx with hx | hx
        · rcases List.mem_append.mp hx with hx | hx
          · exact Or.inr (Or.inr (Or.inr ⟨x, hx, rfl⟩))
          · rcases hnt.mp (Or.inr ⟨x, hx, rfl⟩) with h1 | h1 | h1
            · exact Or.inl h1
            · exact Or.inr (Or.inl h1)
            · exact Or.inr (Or.inr (Or.inl h1))
        · rcases hnt.mp (Or.inl ⟨x, hx, rfl⟩) with h1 | h1 | h1
          · exact Or.inl h1
          · exact Or.inr (Or.inl h1)
          · exact Or.inr (Or.inr (Or.inl h1))
      rcases this with ⟨y, hy, hyx⟩ | h1 | h1 | ⟨y, hy, hyx⟩
      · obtain ⟨iv, hiv, hivt⟩ := hot.mp ⟨y, List.mem_append_right _ hy, hyx⟩
        exact ⟨iv, List.mem_append_left _ hiv, hivt⟩
      · exact ⟨(s, e), by simp, Or.inl h1⟩
      · exact ⟨(s, e), by simp, Or.inr h1⟩
      · obtain ⟨iv, hiv, hivt⟩ := hot.mp ⟨y, List.mem_append_left _ hy, hyx⟩
        exact ⟨iv, List.mem_append_left _ hiv, hivt⟩
    · rintro ⟨iv, hiv, hivt⟩
      have : (∃ x ∈ out, x.1 = t) ∨ (∃ x ∈ q, x.1 = t) ∨ t = s ∨ t = e := by
        rcases List.mem_append.mp hiv with hiv | hiv
        · obtain ⟨x, hx, hxt⟩ := hot.mpr ⟨iv, hiv, hivt⟩
          rcases List.mem_append.mp hx with hx | hx
          · exact Or.inl ⟨x, hx, hxt⟩
          · exact Or.inr (Or.inl ⟨x, hx, hxt⟩)
        · simp only [List.mem_singleton] at hiv
          subst hiv
          rcases hivt with h1 | h1
          · exact Or.inr (Or.inr (Or.inl h1))
          · exact Or.inr (Or.inr (Or.inr h1))
      rcases this with ⟨x, hx, hxt⟩ | h2
      · exact ⟨x, List.mem_append_left _ (List.mem_append_left _ hx), hxt⟩
      · rcases hnt.mpr h2 with ⟨x, hx, hxt⟩ | ⟨x, hx, hxt⟩
        · exact ⟨x, List.mem_append_right _ hx, hxt⟩
        · exact ⟨x, List.mem_append_left _ (List.mem_append_right _ hx), hxt⟩

/-- the invariant survives any start-sorted continuation -/
theorem Inv.sweepFrom : ∀ (ivs : List (Num × Num)) {P : List (Num × Num)} {lo : Num} {q out : List BP},
    Inv P lo q out → (∀ iv ∈ ivs, lo ≤ iv.1) → (∀ iv ∈ ivs, iv.1 < iv.2) →
    ivs.Pairwise (fun a b => a.1 ≤ b.1) →
    ∃ lo', Inv (P ++ ivs) lo' (sweepFrom (q, out) ivs).1 (sweepFrom (q, out) ivs).2
  | [], P, lo, q, out, h, _, _, _ => ⟨lo, by simpa [Preps.sweepFrom] using h⟩
  | iv :: rest, P, lo, q, out, h, hlo, hpos, hsorted => by
    have hs := List.pairwise_cons.mp hsorted
    have h1 := h.step (hlo iv (by simp)) (hpos iv (by simp))
    obtain ⟨lo', h2⟩ := Inv.sweepFrom rest h1 (fun iv' hiv' => hs.1 iv' hiv')
      (fun iv' hiv' => hpos iv' (List.mem_cons_of_mem _ hiv')) hs.2
    refine ⟨lo', ?_⟩
    have : P ++ iv :: rest = P ++ [(iv.1, iv.2)] ++ rest := by simp
    rw [this]
    simpa [Preps.sweepFrom, sweepStep] using h2


/-! ### the stage: per-pid dict, projection to one rank -/

/-- the events the stage treats as Prep slices (on a run that does not raise) -/
def isPrepEv (ev : PEv) : Bool :=
  phX ev.ph && (match classify ev with | .ok true => true | _ => false)

/-- the Prep intervals of rank `p`, in stream order -/
def prepIvs (p : Int) (evs : List PEv) : List (Num × Num) :=
  evs.filterMap (fun ev =>
    if isPrepEv ev && ev.pid == p then ev.dur.map (fun d => (ev.ts, ev.ts + d)) else none)

/-- the `ConcurrentPreps` samples of rank `p` in an output stream, in order -/
def countersOf (p : Int) (outs : List Out) : List BP :=
  outs.filterMap (fun o => match o with
    | .counter pid t c => if pid == p then some (t, c) else none
    | .pass _ => none)

/-- the uids of the events passed through, in order -/
def passes (outs : List Out) : List Nat :=
  outs.filterMap (fun o => match o with
    | .pass u => some u
    | .counter _ _ _ => none)

theorem countersOf_append (p : Int) (a b : List Out) :
    countersOf p (a ++ b) = countersOf p a ++ countersOf p b := by
  simp [countersOf, List.filterMap_append]

theorem passes_append (a b : List Out) : passes (a ++ b) = passes a ++ passes b := by
  simp [passes, List.filterMap_append]

theorem countersOf_counters (p pid : Int) (l : List BP) :
    countersOf p (counters pid l) = if pid = p then l else [] := by
  induction l with
  | nil => simp [countersOf, counters]
  | cons a l ih =>
    have : countersOf p (counters pid (a :: l)) =
        (if pid = p then [a] else []) ++ countersOf p (counters pid l) := by
      by_cases h : pid = p <;> simp [countersOf, counters, h]
    rw [this, ih]
    by_cases h : pid = p <;> simp [h]

theorem passes_counters (pid : Int) (l : List BP) : passes (counters pid l) = [] := by
  induction l with
  | nil => rfl
  | cons a l ih => simp [passes, counters]

theorem getQ_setQ (st : QS) (pid p : Int) (q : List BP) :
    getQ (setQ st pid q) p = if p = pid then q else getQ st p := by
  induction st with
  | nil =>
    by_cases h : p = pid
    · simp [setQ, getQ, h]
    · have : (pid == p) = false := by simpa using fun h' => h h'.symm
      simp [setQ, getQ, h, this]
  | cons kv rest ih =>
    by_cases hk : kv.1 = pid
    · have hk' : (kv.1 == pid) = true := by simpa using hk
      by_cases h : p = pid
      · simp [setQ, getQ, hk', h]
      · have h1 : (pid == p) = false := by simpa using fun h' => h h'.symm
        have h2 : (kv.1 == p) = false := by simpa [hk] using fun h' => h h'.symm
        simp [setQ, getQ, hk', h, h1, h2]
    · have hk' : (kv.1 == pid) = false := by simpa using hk
      simp only [setQ, hk', Bool.false_eq_true, if_false]
      by_cases h3 : kv.1 = p
      · have h3' : (kv.1 == p) = true := by simpa using h3
        have hne : ¬ p = pid := fun h => hk (h3.trans h)
        simp [getQ, h3', hne]
      · have h3' : (kv.1 == p) = false := by simpa using h3
        simp only [getQ, h3', Bool.false_eq_true, if_false]
        exact ih

def keys (st : QS) : List Int := st.map (fun kv => kv.1)

theorem keys_setQ (st : QS) (pid : Int) (q : List BP) :
    keys (setQ st pid q) = if pid ∈ keys st then keys st else keys st ++ [pid] := by
  induction st with
  | nil => simp [setQ, keys]
  | cons kv rest ih =>
    by_cases hk : kv.1 = pid
    · have hk' : (kv.1 == pid) = true := by simpa using hk
      simp [setQ, keys, hk]
    · have hk' : (kv.1 == pid) = false := by simpa using hk
      have hne : ¬ pid = kv.1 := fun h => hk h.symm
      simp only [keys] at ih
      simp only [setQ, hk', keys, List.map_cons, List.mem_cons, hne, false_or, Bool.false_eq_true, if_false]
      by_cases hm : pid ∈ List.map (fun kv => kv.1) rest
      · simp only [hm, if_true] at ih ⊢; rw [ih]
      · simp only [hm, if_false] at ih ⊢; rw [ih]; simp

theorem nodup_setQ {st : QS} (h : (keys st).Nodup) (pid : Int) (q : List BP) :
    (keys (setQ st pid q)).Nodup := by
  rw [keys_setQ]
  by_cases hm : pid ∈ keys st
  · simpa [hm] using h
  · simp only [hm, if_false]
    rw [List.nodup_append]
    refine ⟨h, by simp, ?_⟩
    intro a ha b hb
    simp at hb; subst hb
    exact fun hab => hm (hab ▸ ha)

theorem nodup_reverse_int {l : List Int} (h : l.Nodup) : l.reverse.Nodup := by
  unfold List.Nodup at *
  rw [List.pairwise_reverse]
  exact h.imp (fun hab => fun h' => hab h'.symm)

theorem getQ_of_mem {st : QS} (h : (keys st).Nodup) {p : Int} {q : List BP} (hm : (p, q) ∈ st) :
    getQ st p = q := by
  induction st with
  | nil => simp at hm
  | cons kv rest ih =>
    simp only [keys, List.map_cons, List.nodup_cons] at h
    rcases List.mem_cons.mp hm with hm | hm
    · subst hm; simp [getQ]
    · have hne : kv.1 ≠ p := by
        intro he; apply h.1; rw [he]
        exact List.mem_map.mpr ⟨(p, q), hm, rfl⟩
      have : (kv.1 == p) = false := by simpa using hne
      simp only [getQ, this]
      exact ih h.2 hm

theorem getQ_of_not_mem {st : QS} {p : Int} (hm : p ∉ keys st) : getQ st p = [] := by
  induction st with
  | nil => rfl
  | cons kv rest ih =>
    simp only [keys, List.map_cons, List.mem_cons, not_or] at hm
    have : (kv.1 == p) = false := by simpa using fun h => hm.1 h.symm
    simp only [getQ, this]
    exact ih hm.2

theorem countersOf_flatMap_of_not_mem {l : QS} {p : Int} (hm : p ∉ keys l) :
    countersOf p (l.flatMap (fun kv => counters kv.1 kv.2)) = [] := by
  induction l with
  | nil => rfl
  | cons kv rest ih =>
    simp only [keys, List.map_cons, List.mem_cons, not_or] at hm
    have hne : ¬ kv.1 = p := fun h => hm.1 h.symm
    rw [List.flatMap_cons, countersOf_append, countersOf_counters, ih hm.2]
    simp [hne]

theorem countersOf_flatMap_of_mem {l : QS} (h : (keys l).Nodup) {p : Int} {q : List BP}
    (hm : (p, q) ∈ l) : countersOf p (l.flatMap (fun kv => counters kv.1 kv.2)) = q := by
  induction l with
  | nil => simp at hm
  | cons kv rest ih =>
    simp only [keys, List.map_cons, List.nodup_cons] at h
    rw [List.flatMap_cons, countersOf_append, countersOf_counters]
    rcases List.mem_cons.mp hm with hm | hm
    · subst hm
      have : p ∉ keys rest := h.1
      simp [countersOf_flatMap_of_not_mem this]
    · have hne : ¬ kv.1 = p := by
        intro he; apply h.1; rw [he]
        exact List.mem_map.mpr ⟨(p, q), hm, rfl⟩
      simp only [hne, if_false, List.nil_append]
      exact ih h.2 hm

/-- the drain emits, for rank `p`, exactly its stored breakpoints (whatever the `popitem` order) -/
theorem countersOf_drain {st : QS} (h : (keys st).Nodup) (p : Int) :
    countersOf p (drain st) = getQ st p := by
  unfold drain
  have hr : (keys st.reverse).Nodup := by
    rw [keys, List.map_reverse]; exact nodup_reverse_int h
  by_cases hm : p ∈ keys st
  · obtain ⟨kv, hkv, hp⟩ := List.mem_map.mp hm
    have hkv' : (p, kv.2) ∈ st := by rw [← hp]; exact hkv
    rw [getQ_of_mem h hkv']
    exact countersOf_flatMap_of_mem hr (by simpa using hkv')
  · rw [getQ_of_not_mem hm]
    exact countersOf_flatMap_of_not_mem (by simpa [keys, List.map_reverse] using hm)

theorem passes_drain (st : QS) : passes (drain st) = [] := by
  unfold drain
  induction st.reverse with
  | nil => rfl
  | cons kv rest ih => rw [List.flatMap_cons, passes_append, passes_counters, ih]; rfl

/-- the emitted prefix is only carried along by the sweep -/
theorem sweepFrom_out (ivs : List (Num × Num)) (q E : List BP) :
    (sweepFrom (q, E) ivs).1 = (sweepFrom (q, []) ivs).1 ∧
    (sweepFrom (q, E) ivs).2 = E ++ (sweepFrom (q, []) ivs).2 := by
  induction ivs generalizing q E with
  | nil => simp [sweepFrom]
  | cons iv rest ih =>
    have h1 := ih (updateQueues q iv.1 iv.2).2 (E ++ (updateQueues q iv.1 iv.2).1)
    have h2 := ih (updateQueues q iv.1 iv.2).2 ([] ++ (updateQueues q iv.1 iv.2).1)
    simp only [sweepFrom, List.foldl_cons, sweepStep] at h1 h2 ⊢
    refine ⟨h1.1.trans h2.1.symm, ?_⟩
    rw [h1.2, h2.2]
    simp [List.append_assoc]

/-- one event: effect on the queue of rank `p` and on its samples -/
theorem stepEv_proj {keep : Bool} {st st' : QS} {ev : PEv} {o : List Out}
    (h : stepEv keep st ev = .ok (st', o)) (hn : (keys st).Nodup) (p : Int) :
    (keys st').Nodup ∧
    getQ st' p = (sweepFrom (getQ st p, []) (prepIvs p [ev])).1 ∧
    countersOf p o = (sweepFrom (getQ st p, []) (prepIvs p [ev])).2 := by
  unfold stepEv at h
  by_cases hph : phX ev.ph = true
  · simp only [hph, if_true] at h
    cases hc : classify ev with
    | error e => simp [hc] at h
    | ok b =>
      cases b with
      | false =>
        simp only [hc] at h
        injection h with h; injection h with h1 h2
        subst h1; subst h2
        have : isPrepEv ev = false := by simp [isPrepEv, hc]
        simp [prepIvs, this, sweepFrom, countersOf, hn]
      | true =>
        simp only [hc] at h
        cases hd : ev.dur with
        | none => simp [hd] at h
        | some d =>
          simp only [hd] at h
          injection h with h; injection h with h1 h2
          subst h1; subst h2
          have hprep : isPrepEv ev = true := by simp [isPrepEv, hc, hph]
          refine ⟨nodup_setQ hn _ _, ?_, ?_⟩
          · simp only [createCounter, getQ_setQ, prepIvs, List.filterMap_cons, hprep, hd, Bool.true_and]
            by_cases hp : p = ev.pid
            · subst hp; simp [sweepFrom, sweepStep]
            · have : (ev.pid == p) = false := by simpa using fun h' => hp h'.symm
              simp [hp, this, sweepFrom]
          · rw [countersOf_append]
            have hk : countersOf p (if keep then [Out.pass ev.uid] else []) = [] := by
              cases keep <;> simp [countersOf]
            rw [hk, List.nil_append, countersOf_counters]
            simp only [createCounter, prepIvs, List.filterMap_cons, hprep, hd, Bool.true_and]
            by_cases hp : ev.pid = p
            · subst hp; simp [sweepFrom, sweepStep]
            · have : (ev.pid == p) = false := by simpa using hp
              simp [hp, this, sweepFrom]
  · simp only [hph] at h
    injection h with h; injection h with h1 h2
    subst h1; subst h2
    have : isPrepEv ev = false := by simp [isPrepEv, hph]
    simp [prepIvs, this, sweepFrom, countersOf, hn]

theorem prepIvs_cons (p : Int) (ev : PEv) (rest : List PEv) :
    prepIvs p (ev :: rest) = prepIvs p [ev] ++ prepIvs p rest := by
  simp only [prepIvs, List.filterMap_cons, List.filterMap_nil]
  split <;> simp

theorem sweepFrom_append (st : List BP × List BP) (a b : List (Num × Num)) :
    sweepFrom st (a ++ b) = sweepFrom (sweepFrom st a) b := by
  simp [sweepFrom, List.foldl_append]

/-- the whole stream: the queue of rank `p` and the samples of rank `p` are those of the
single-rank sweep over the Prep intervals of rank `p` -/
theorem runFrom_proj {keep : Bool} : ∀ (evs : List PEv) {st st' : QS} {o : List Out},
    runFrom keep st evs = .ok (st', o) → (keys st).Nodup → ∀ p : Int,
    (keys st').Nodup ∧
    getQ st' p = (sweepFrom (getQ st p, []) (prepIvs p evs)).1 ∧
    countersOf p o = (sweepFrom (getQ st p, []) (prepIvs p evs)).2
  | [], st, st', o, h, hn, p => by
    simp only [runFrom] at h
    injection h with h; injection h with h1 h2
    subst h1; subst h2
    simp [prepIvs, sweepFrom, countersOf, hn]
  | ev :: rest, st, st', o, h, hn, p => by
    simp only [runFrom] at h
    cases h1 : stepEv keep st ev with
    | error e => simp [h1] at h
    | ok r1 =>
      simp only [h1] at h
      cases h2 : runFrom keep r1.1 rest with
      | error e => simp [h2] at h
      | ok r2 =>
        simp only [h2] at h
        injection h with h; injection h with h3 h4
        subst h3; subst h4
        obtain ⟨n1, q1, c1⟩ := stepEv_proj (st' := r1.1) (o := r1.2) h1 hn p
        obtain ⟨n2, q2, c2⟩ := runFrom_proj rest (st' := r2.1) (o := r2.2) h2 n1 p
        refine ⟨n2, ?_, ?_⟩
        · have ho := sweepFrom_out (prepIvs p rest) (sweepFrom (getQ st p, []) (prepIvs p [ev])).1
            (sweepFrom (getQ st p, []) (prepIvs p [ev])).2
          rw [prepIvs_cons, sweepFrom_append, q2, q1]
          exact ho.1.symm
        · have ho := sweepFrom_out (prepIvs p rest) (sweepFrom (getQ st p, []) (prepIvs p [ev])).1
            (sweepFrom (getQ st p, []) (prepIvs p [ev])).2
          rw [countersOf_append, prepIvs_cons, sweepFrom_append, c1, c2, q1]
          exact ho.2.symm


/-- one event: which uid is passed on -/
theorem stepEv_passes {keep : Bool} {st st' : QS} {ev : PEv} {o : List Out}
    (h : stepEv keep st ev = .ok (st', o)) :
    passes o = if keep || !isPrepEv ev then [ev.uid] else [] := by
  unfold stepEv at h
  by_cases hph : phX ev.ph = true
  · simp only [hph, if_true] at h
    cases hc : classify ev with
    | error e => simp [hc] at h
    | ok b =>
      cases b with
      | false =>
        simp only [hc] at h
        injection h with h; injection h with h1 h2
        subst h2
        have : isPrepEv ev = false := by simp [isPrepEv, hc]
        simp [this, passes]
      | true =>
        simp only [hc] at h
        cases hd : ev.dur with
        | none => simp [hd] at h
        | some d =>
          simp only [hd] at h
          injection h with h; injection h with h1 h2
          subst h2
          have hprep : isPrepEv ev = true := by simp [isPrepEv, hc, hph]
          rw [passes_append, passes_counters]
          cases keep <;> simp [hprep, passes]
  · simp only [hph] at h
    injection h with h; injection h with h1 h2
    subst h2
    have : isPrepEv ev = false := by simp [isPrepEv, hph]
    simp [this, passes]

theorem runFrom_passes {keep : Bool} : ∀ (evs : List PEv) {st st' : QS} {o : List Out},
    runFrom keep st evs = .ok (st', o) →
    passes o = (evs.filter (fun ev => keep || !isPrepEv ev)).map (fun ev => ev.uid)
  | [], st, st', o, h => by
    simp only [runFrom] at h
    injection h with h; injection h with h1 h2
    subst h2; rfl
  | ev :: rest, st, st', o, h => by
    simp only [runFrom] at h
    cases h1 : stepEv keep st ev with
    | error e => simp [h1] at h
    | ok r1 =>
      simp only [h1] at h
      cases h2 : runFrom keep r1.1 rest with
      | error e => simp [h2] at h
      | ok r2 =>
        simp only [h2] at h
        injection h with h; injection h with h3 h4
        subst h4
        rw [passes_append, stepEv_passes (st' := r1.1) (o := r1.2) h1,
          runFrom_passes rest (st' := r2.1) (o := r2.2) h2, List.filter_cons]
        by_cases hk : (keep || !isPrepEv ev) = true
        · simp [hk]
        · simp [hk]

end AiuVerif.Preps
