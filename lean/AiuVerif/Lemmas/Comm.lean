/- Helper lemmas for communication-sequence summarization (C20).  Core Lean only. -/
import AiuVerif.Model.Comm

namespace AiuVerif.Comm

/-! ### the dict -/

theorem stGet_stSet (st : St) (k k' : Nat) (d : SeqData) :
    stGet (stSet st k d) k' = if k' = k then some d else stGet st k' := by
  induction st with
  | nil =>
    by_cases h : k' = k
    · simp [stSet, stGet, h]
    · have : (k == k') = false := by simpa using fun h' => h h'.symm
      simp [stSet, stGet, h, this]
  | cons kv rest ih =>
    by_cases hk : kv.1 = k
    · have hk' : (kv.1 == k) = true := by simpa using hk
      simp only [stSet, hk', if_true]
      by_cases h : k' = k
      · simp [stGet, h]
      · have h1 : (k == k') = false := by simpa using fun h' => h h'.symm
        have h2 : (kv.1 == k') = false := by simpa [hk] using fun h' => h h'.symm
        simp [stGet, h, h1, h2]
    · have hk' : (kv.1 == k) = false := by simpa using hk
      simp only [stSet, hk', Bool.false_eq_true, if_false]
      by_cases h3 : kv.1 = k'
      · have h3' : (kv.1 == k') = true := by simpa using h3
        have hne : ¬ k' = k := fun h => hk (h3.trans h)
        simp [stGet, h3', hne]
      · have h3' : (kv.1 == k') = false := by simpa using h3
        simp only [stGet, h3', Bool.false_eq_true, if_false]
        exact ih

theorem stGet_stDel (st : St) (k k' : Nat) :
    stGet (stDel st k) k' = if k' = k then none else stGet st k' := by
  induction st with
  | nil => by_cases h : k' = k <;> simp [stDel, stGet, h]
  | cons kv rest ih =>
    by_cases hk : kv.1 = k
    · have hk' : (kv.1 == k) = true := by simpa using hk
      simp only [stDel, hk', if_true, ih]
      by_cases h : k' = k
      · simp [h]
      · have h2 : (kv.1 == k') = false := by simpa [hk] using fun h' => h h'.symm
        simp [stGet, h, h2]
    · have hk' : (kv.1 == k) = false := by simpa using hk
      simp only [stDel, hk', Bool.false_eq_true, if_false]
      by_cases h3 : kv.1 = k'
      · have h3' : (kv.1 == k') = true := by simpa using h3
        have hne : ¬ k' = k := fun h => hk (h3.trans h)
        simp [stGet, h3', hne]
      · have h3' : (kv.1 == k') = false := by simpa using h3
        simp only [stGet, h3', Bool.false_eq_true, if_false]
        exact ih

theorem st_nil_of_get_none {st : St} (h : ∀ k, stGet st k = none) : st = [] := by
  cases st with
  | nil => rfl
  | cons kv rest =>
    have := h kv.1
    simp [stGet] at this

/-! ### parts of a sequence, the hull data -/

/-- the parts with sequence key `k`, in stream order -/
def partsOf (k : Nat) (evs : List CEv) : List CEv := evs.filter (fun ev => memberKey ev == some k)

theorem partsOf_cons_self {k : Nat} {ev : CEv} (h : memberKey ev = some k) (rest : List CEv) :
    partsOf k (ev :: rest) = ev :: partsOf k rest := by
  simp [partsOf, h]

theorem partsOf_cons_other {k : Nat} {ev : CEv} (h : memberKey ev ≠ some k) (rest : List CEv) :
    partsOf k (ev :: rest) = partsOf k rest := by
  have : (memberKey ev == some k) = false := by simpa using h
  simp [partsOf, this]

theorem mem_partsOf {k : Nat} {evs : List CEv} {p : CEv} :
    p ∈ partsOf k evs ↔ p ∈ evs ∧ memberKey p = some k := by
  simp [partsOf, List.mem_filter]

/-- what `add_to_sequence` folds over the parts of one key -/
def foldData (o : Option SeqData) (ps : List CEv) : Option SeqData :=
  ps.foldl (fun o ev => some (match o with
    | none => initData ev
    | some d => mergeData d ev)) o

/-- `d` is the hull of the non-empty list of parts `ps` -/
structure Hull (d : SeqData) (ps : List CEv) : Prop where
  count : d.count = ps.length
  start_le : ∀ p ∈ ps, d.start ≤ p.ts
  start_mem : ∃ p ∈ ps, d.start = p.ts
  stop_ge : ∀ p ∈ ps, p.ts + p.dur ≤ d.stop
  stop_mem : ∃ p ∈ ps, d.stop = p.ts + p.dur
  peers_sorted : d.peers.Pairwise (fun a b => a < b)
  peers_mem : ∀ x, x ∈ d.peers ↔ ∃ p ∈ ps, p.peer = some x

theorem mem_insertPeer (p x : Int) (l : List Int) : x ∈ insertPeer p l ↔ x = p ∨ x ∈ l := by
  induction l with
  | nil => simp [insertPeer]
  | cons a l ih =>
    simp only [insertPeer]
    by_cases h1 : p < a
    · simp [h1]
    · by_cases h2 : p = a
      · subst h2; simp
      · simp only [h1, h2, if_false, List.mem_cons, ih]
        constructor
        · rintro (h | h | h)
          · exact Or.inr (Or.inl h)
          · exact Or.inl h
          · exact Or.inr (Or.inr h)
        · rintro (h | h | h)
          · exact Or.inr (Or.inl h)
          · exact Or.inl h
          · exact Or.inr (Or.inr h)

theorem sorted_insertPeer (p : Int) {l : List Int} (h : l.Pairwise (fun a b => a < b)) :
    (insertPeer p l).Pairwise (fun a b => a < b) := by
  induction l with
  | nil => simp [insertPeer]
  | cons a l ih =>
    have hc := List.pairwise_cons.mp h
    simp only [insertPeer]
    by_cases h1 : p < a
    · simp only [h1, if_true]
      refine List.pairwise_cons.mpr ⟨?_, h⟩
      intro b hb
      rcases List.mem_cons.mp hb with rfl | hb
      · exact h1
      · have := hc.1 b hb; omega
    · by_cases h2 : p = a
      · rw [if_neg h1, if_pos h2]; subst h2; exact h
      · simp only [h1, h2, if_false]
        refine List.pairwise_cons.mpr ⟨?_, ih hc.2⟩
        intro b hb
        rcases (mem_insertPeer p b l).mp hb with rfl | hb
        · omega
        · exact hc.1 b hb

theorem mem_addPeer (peer : Option Int) (x : Int) (l : List Int) :
    x ∈ addPeer peer l ↔ peer = some x ∨ x ∈ l := by
  cases peer with
  | none => simp [addPeer]
  | some p =>
    simp only [addPeer, mem_insertPeer, Option.some.injEq]
    constructor
    · rintro (h | h)
      · exact Or.inl h.symm
      · exact Or.inr h
    · rintro (h | h)
      · exact Or.inl h.symm
      · exact Or.inr h

theorem sorted_addPeer (peer : Option Int) {l : List Int} (h : l.Pairwise (fun a b => a < b)) :
    (addPeer peer l).Pairwise (fun a b => a < b) := by
  cases peer with
  | none => exact h
  | some p => exact sorted_insertPeer p h

theorem Hull.init (ev : CEv) : Hull (initData ev) [ev] where
  count := by simp [initData]
  start_le := by intro p hp; simp at hp; subst hp; exact Rat.le_refl
  start_mem := ⟨ev, by simp, rfl⟩
  stop_ge := by intro p hp; simp at hp; subst hp; exact Rat.le_refl
  stop_mem := ⟨ev, by simp, rfl⟩
  peers_sorted := sorted_addPeer _ List.Pairwise.nil
  peers_mem := by
    intro x
    simp only [initData, mem_addPeer, List.not_mem_nil, or_false, List.mem_singleton]
    constructor
    · intro h; exact ⟨ev, rfl, h⟩
    · rintro ⟨p, rfl, h⟩; exact h

theorem Hull.merge {d : SeqData} {ps : List CEv} (h : Hull d ps) (ev : CEv) :
    Hull (mergeData d ev) (ps ++ [ev]) where
  count := by simp [mergeData, h.count]
  start_le := by
    intro p hp
    simp only [mergeData, minN]
    rcases List.mem_append.mp hp with hp | hp
    · have := h.start_le p hp
      by_cases hlt : ev.ts < d.start <;> simp only [hlt, if_true, if_false] <;> grind
    · simp at hp; subst hp
      by_cases hlt : p.ts < d.start <;> simp only [hlt, if_true, if_false] <;> grind
  start_mem := by
    simp only [mergeData, minN]
    by_cases hlt : ev.ts < d.start
    · exact ⟨ev, by simp, by simp [hlt]⟩
    · obtain ⟨p, hp, he⟩ := h.start_mem
      exact ⟨p, List.mem_append_left _ hp, by rw [if_neg hlt]; exact he⟩
  stop_ge := by
    intro p hp
    simp only [mergeData, maxN]
    rcases List.mem_append.mp hp with hp | hp
    · have := h.stop_ge p hp
      by_cases hlt : d.stop < ev.ts + ev.dur <;> simp only [hlt, if_true, if_false] <;> grind
    · simp at hp; subst hp
      by_cases hlt : d.stop < p.ts + p.dur <;> simp only [hlt, if_true, if_false] <;> grind
  stop_mem := by
    simp only [mergeData, maxN]
    by_cases hlt : d.stop < ev.ts + ev.dur
    · exact ⟨ev, by simp, by simp [hlt]⟩
    · obtain ⟨p, hp, he⟩ := h.stop_mem
      exact ⟨p, List.mem_append_left _ hp, by rw [if_neg hlt]; exact he⟩
  peers_sorted := sorted_addPeer _ h.peers_sorted
  peers_mem := by
    intro x
    simp only [mergeData, mem_addPeer, h.peers_mem x, List.mem_append, List.mem_singleton]
    constructor
    · rintro (h1 | ⟨p, hp, h1⟩)
      · exact ⟨ev, Or.inr rfl, h1⟩
      · exact ⟨p, Or.inl hp, h1⟩
    · rintro ⟨p, hp | rfl, h1⟩
      · exact Or.inr ⟨p, hp, h1⟩
      · exact Or.inl h1

theorem foldData_hull {d : SeqData} {ps : List CEv} (h : Hull d ps) (rest : List CEv) :
    ∃ d', foldData (some d) rest = some d' ∧ Hull d' (ps ++ rest) := by
  induction rest generalizing d ps with
  | nil => exact ⟨d, rfl, by simpa using h⟩
  | cons ev rest ih =>
    obtain ⟨d', h1, h2⟩ := ih (h.merge ev)
    refine ⟨d', ?_, by simpa using h2⟩
    simpa [foldData] using h1

theorem foldData_none_hull {ps : List CEv} (hne : ps ≠ []) :
    ∃ d, foldData none ps = some d ∧ Hull d ps := by
  cases ps with
  | nil => exact absurd rfl hne
  | cons ev rest =>
    obtain ⟨d', h1, h2⟩ := foldData_hull (Hull.init ev) rest
    exact ⟨d', by simpa [foldData] using h1, by simpa using h2⟩

theorem foldData_append (o : Option SeqData) (a b : List CEv) :
    foldData o (a ++ b) = foldData (foldData o a) b := by
  simp [foldData, List.foldl_append]

/-! ### collection -/

theorem collectStep_proj {st st' : St} {ev : CEv} (h : collectStep st ev = .ok st') (k : Nat) :
    raises ev = false ∧ stGet st' k = foldData (stGet st k) (partsOf k [ev]) := by
  unfold collectStep at h
  by_cases hr : raises ev = true
  · simp [hr] at h
  · have hr' : raises ev = false := by simpa using hr
    simp only [hr', Bool.false_eq_true, if_false] at h
    refine ⟨hr', ?_⟩
    cases hm : memberKey ev with
    | none =>
      simp only [hm] at h
      injection h with h; subst h
      simp [partsOf, hm, foldData]
    | some k0 =>
      simp only [hm] at h
      injection h with h; subst h
      by_cases hk : k = k0
      · subst hk
        have : partsOf k [ev] = [ev] := by simp [partsOf, hm]
        rw [this]
        unfold addToSequence
        cases hg : stGet st k with
        | none => simp [stGet_stSet, foldData]
        | some d => simp [stGet_stSet, foldData]
      · have hne : ¬ k0 = k := fun h => hk h.symm
        have : partsOf k [ev] = [] := by simp [partsOf, hm, hne]
        rw [this]
        unfold addToSequence
        cases hg : stGet st k0 with
        | none => simp [stGet_stSet, hk, foldData]
        | some d => simp [stGet_stSet, hk, foldData]

theorem partsOf_cons (k : Nat) (ev : CEv) (rest : List CEv) :
    partsOf k (ev :: rest) = partsOf k [ev] ++ partsOf k rest := by
  simp only [partsOf, List.filter_cons, List.filter_nil]
  split <;> simp

theorem collectFrom_proj : ∀ (evs : List CEv) {st st' : St}, collectFrom st evs = .ok st' →
    (∀ ev ∈ evs, raises ev = false) ∧ ∀ k, stGet st' k = foldData (stGet st k) (partsOf k evs)
  | [], st, st', h => by
    simp only [collectFrom] at h
    injection h with h; subst h
    exact ⟨by simp, fun k => by simp [partsOf, foldData]⟩
  | ev :: rest, st, st', h => by
    simp only [collectFrom] at h
    cases h1 : collectStep st ev with
    | error e => simp [h1] at h
    | ok st1 =>
      simp only [h1] at h
      obtain ⟨hr, hq⟩ := collectFrom_proj rest h
      refine ⟨?_, fun k => ?_⟩
      · intro e he
        rcases List.mem_cons.mp he with rfl | he
        · exact (collectStep_proj h1 0).1
        · exact hr e he
      · rw [hq k, (collectStep_proj h1 k).2, ← foldData_append, ← partsOf_cons]

theorem collectFrom_ok : ∀ (evs : List CEv) (st : St), (∀ ev ∈ evs, raises ev = false) →
    ∃ st', collectFrom st evs = .ok st'
  | [], st, _ => ⟨st, rfl⟩
  | ev :: rest, st, h => by
    have hr := h ev (by simp)
    have : ∃ st1, collectStep st ev = .ok st1 := by
      unfold collectStep
      simp only [hr, Bool.false_eq_true, if_false]
      cases memberKey ev <;> simp
    obtain ⟨st1, h1⟩ := this
    obtain ⟨st', h2⟩ := collectFrom_ok rest st1 (fun e he => h e (List.mem_cons_of_mem _ he))
    exact ⟨st', by simp [collectFrom, h1, h2]⟩


/-! ### application -/

/-- same data up to the part counter -/
def sameHull (d d0 : SeqData) : Prop :=
  d.start = d0.start ∧ d.stop = d0.stop ∧ d.name = d0.name ∧ d.peers = d0.peers

/-- the slice that replaces a sequence: the last part `ev`, rewritten from the collected data -/
def mergedEv (ev : CEv) (d : SeqData) : COut :=
  COut.merged { ev with name := d.name, ts := d.start, dur := d.stop - d.start } d.peers

/-- closed form of the application phase over a stream, `D` being the collected data per key:
a non-member passes; a part is swallowed unless it is the last part of its key in the stream,
which leaves as the merged slice -/
def specOut (D : Nat → Option SeqData) : List CEv → List COut
  | [] => []
  | ev :: rest =>
    (match memberKey ev with
      | none => [COut.pass ev]
      | some k =>
        if (partsOf k rest).isEmpty then
          (match D k with
            | some d => [mergedEv ev d]
            | none => [])
        else []) ++ specOut D rest

/-- state of the context when the application phase still has `rest` to see -/
structure AInv (st : St) (D : Nat → Option SeqData) (rest : List CEv) : Prop where
  absent : ∀ k, partsOf k rest = [] → stGet st k = none
  present : ∀ k, partsOf k rest ≠ [] → ∃ d d0, stGet st k = some d ∧ D k = some d0 ∧
    d.count = (partsOf k rest).length ∧ sameHull d d0

theorem applyStep_spec {st : St} {D : Nat → Option SeqData} {ev : CEv} {rest : List CEv}
    (hr : raises ev = false) (hinv : AInv st D (ev :: rest)) :
    ∃ st1, applyStep st ev = .ok (st1,
        (match memberKey ev with
          | none => [COut.pass ev]
          | some k =>
            if (partsOf k rest).isEmpty then
              (match D k with
                | some d => [mergedEv ev d]
                | none => [])
            else [])) ∧ AInv st1 D rest := by
  unfold applyStep
  simp only [hr, Bool.false_eq_true, if_false]
  cases hm : memberKey ev with
  | none =>
    refine ⟨st, rfl, ?_, ?_⟩
    · intro k hk
      exact hinv.absent k (by rw [partsOf_cons_other (by simp [hm])]; exact hk)
    · intro k hk
      have := hinv.present k (by rw [partsOf_cons_other (by simp [hm])]; exact hk)
      rwa [partsOf_cons_other (by simp [hm])] at this
  | some k =>
    have hparts : partsOf k (ev :: rest) = ev :: partsOf k rest := partsOf_cons_self hm rest
    obtain ⟨d, d0, hg, hD, hc, hs⟩ := hinv.present k (by rw [hparts]; simp)
    rw [hparts, List.length_cons] at hc
    have hother : ∀ k', k' ≠ k → partsOf k' (ev :: rest) = partsOf k' rest := fun k' hk' =>
      partsOf_cons_other (by rw [hm]; intro h; injection h with h; exact hk' h.symm) rest
    simp only [hg]
    by_cases hlast : partsOf k rest = []
    · -- the last part of its sequence: emit the merged slice, forget the key
      have hc0 : d.count - 1 = 0 := by rw [hc, hlast]; simp
      have hne : (d.count - 1 != 0) = false := by simp [hc0]
      simp only [hne, Bool.false_eq_true, if_false, hlast, List.isEmpty_nil, if_true, hD]
      refine ⟨stDel st k, ?_, ?_, ?_⟩
      · obtain ⟨h1, h2, h3, h4⟩ := hs
        simp [mergedEv, h1, h2, h3, h4]
      · intro k' hk'
        rw [stGet_stDel]
        by_cases he : k' = k
        · simp [he]
        · simp only [he, if_false]
          exact hinv.absent k' (by rw [hother k' he]; exact hk')
      · intro k' hk'
        have he : k' ≠ k := by intro he; rw [he] at hk'; exact hk' hlast
        rw [stGet_stDel]
        simp only [he, if_false]
        have := hinv.present k' (by rw [hother k' he]; exact hk')
        rwa [hother k' he] at this
    · -- more parts to come: count down
      have hlen : (partsOf k rest).length ≠ 0 := by
        intro h0; exact hlast (List.length_eq_zero_iff.mp h0)
      have hc1 : d.count - 1 = ((partsOf k rest).length : Int) := by rw [hc]; simp
      have hne : (d.count - 1 != 0) = true := by
        rw [hc1]; simp; exact hlast
      have hemp : (partsOf k rest).isEmpty = false := by
        simpa [List.isEmpty_iff] using hlast
      simp only [hne, if_true, hemp, Bool.false_eq_true, if_false]
      refine ⟨_, rfl, ?_, ?_⟩
      · intro k' hk'
        have he : k' ≠ k := by intro he; rw [he] at hk'; exact hlast hk'
        rw [stGet_stSet]
        simp only [he, if_false]
        exact hinv.absent k' (by rw [hother k' he]; exact hk')
      · intro k' hk'
        rw [stGet_stSet]
        by_cases he : k' = k
        · subst he
          simp only [if_true]
          exact ⟨_, d0, rfl, hD, hc1, hs⟩
        · simp only [he, if_false]
          have := hinv.present k' (by rw [hother k' he]; exact hk')
          rwa [hother k' he] at this

theorem applyFrom_spec {D : Nat → Option SeqData} : ∀ (evs : List CEv) (st : St),
    (∀ ev ∈ evs, raises ev = false) → AInv st D evs →
    applyFrom st evs = .ok ([], specOut D evs)
  | [], st, _, hinv => by
    have : st = [] := st_nil_of_get_none (fun k => hinv.absent k rfl)
    simp [applyFrom, specOut, this]
  | ev :: rest, st, hr, hinv => by
    obtain ⟨st1, h1, hinv1⟩ := applyStep_spec (hr ev (by simp)) hinv
    have h2 := applyFrom_spec rest st1 (fun e he => hr e (List.mem_cons_of_mem _ he)) hinv1
    simp only [applyFrom, h1, h2, specOut]

/-- the collected data of key `k` -/
def dataOf (evs : List CEv) (k : Nat) : Option SeqData := foldData none (partsOf k evs)

/-- **closed form of the whole summarization** when no event raises -/
theorem summarize_eq_spec (evs : List CEv) (hr : ∀ ev ∈ evs, raises ev = false) :
    summarize evs = .ok (specOut (dataOf evs) evs, 0) := by
  obtain ⟨st0, h0⟩ := collectFrom_ok evs [] hr
  have hq := (collectFrom_proj evs h0).2
  have hinv : AInv st0 (dataOf evs) evs := by
    refine ⟨?_, ?_⟩
    · intro k hk
      rw [hq k, hk]; rfl
    · intro k hk
      obtain ⟨d, hd, hh⟩ := foldData_none_hull hk
      refine ⟨d, d, ?_, hd, hh.count, rfl, rfl, rfl, rfl⟩
      rw [hq k]; exact hd
  simp [summarize, h0, applyFrom_spec evs st0 hr hinv]

theorem summarize_ok_no_raise {evs : List CEv} {r : List COut × Nat} (h : summarize evs = .ok r) :
    ∀ ev ∈ evs, raises ev = false := by
  unfold summarize at h
  cases h0 : collectFrom [] evs with
  | error e => simp [h0] at h
  | ok st0 => exact (collectFrom_proj evs h0).1


/-! ### reading the closed form -/

def COut.uid : COut → Nat
  | .pass ev => ev.uid
  | .merged ev _ => ev.uid

/-- the events that left unchanged, in order -/
def passesOf (outs : List COut) : List CEv :=
  outs.filterMap (fun o => match o with
    | .pass ev => some ev
    | .merged _ _ => none)

/-- what one event contributes to the output -/
def headOut (D : Nat → Option SeqData) (ev : CEv) (rest : List CEv) : List COut :=
  match memberKey ev with
  | none => [COut.pass ev]
  | some k =>
    if (partsOf k rest).isEmpty then
      (match D k with
        | some d => [mergedEv ev d]
        | none => [])
    else []

theorem specOut_cons (D : Nat → Option SeqData) (ev : CEv) (rest : List CEv) :
    specOut D (ev :: rest) = headOut D ev rest ++ specOut D rest := rfl

theorem headOut_uid {D : Nat → Option SeqData} {ev : CEv} {rest : List CEv} :
    ∀ o ∈ headOut D ev rest, o.uid = ev.uid := by
  intro o ho
  unfold headOut at ho
  cases hm : memberKey ev with
  | none => simp [hm] at ho; subst ho; rfl
  | some k =>
    simp only [hm] at ho
    by_cases he : (partsOf k rest).isEmpty = true
    · simp only [he, if_true] at ho
      cases hD : D k with
      | none => simp [hD] at ho
      | some d => simp [hD] at ho; subst ho; rfl
    · simp [he] at ho

theorem specOut_uid {D : Nat → Option SeqData} : ∀ (l : List CEv),
    ∀ o ∈ specOut D l, o.uid ∈ l.map (fun ev => ev.uid)
  | [], o, ho => by simp [specOut] at ho
  | ev :: rest, o, ho => by
    rw [specOut_cons] at ho
    rcases List.mem_append.mp ho with ho | ho
    · simp [headOut_uid o ho]
    · have := specOut_uid rest o ho
      simp only [List.map_cons, List.mem_cons]
      exact Or.inr this

theorem passesOf_append (a b : List COut) : passesOf (a ++ b) = passesOf a ++ passesOf b := by
  simp [passesOf, List.filterMap_append]

theorem passesOf_specOut (D : Nat → Option SeqData) : ∀ (l : List CEv),
    passesOf (specOut D l) = l.filter (fun ev => memberKey ev == none)
  | [] => rfl
  | ev :: rest => by
    rw [specOut_cons, passesOf_append, passesOf_specOut D rest, List.filter_cons]
    unfold headOut
    cases hm : memberKey ev with
    | none => simp [passesOf]
    | some k =>
      simp only [beq_iff_eq, reduceCtorEq, if_false]
      by_cases he : (partsOf k rest).isEmpty = true
      · simp only [he, if_true]
        cases hD : D k with
        | none => simp [passesOf]
        | some d => simp [passesOf, mergedEv]
      · simp [he, passesOf]

/-- the output slices that carry the uid of a part of key `k` -/
def outsOfKey (k : Nat) (l : List CEv) (outs : List COut) : List COut :=
  outs.filter (fun o => (partsOf k l).any (fun p => p.uid == o.uid))

theorem outsOfKey_specOut {D : Nat → Option SeqData} {k : Nat} {d : SeqData} (hD : D k = some d) :
    ∀ (l : List CEv), (l.map (fun ev => ev.uid)).Nodup →
    outsOfKey k l (specOut D l) =
      (match (partsOf k l).getLast? with
        | none => []
        | some last => [mergedEv last d])
  | [], _ => by simp [outsOfKey, specOut, partsOf]
  | ev :: rest, hu => by
    have hu' : ev.uid ∉ rest.map (fun ev => ev.uid) ∧ (rest.map (fun ev => ev.uid)).Nodup :=
      List.nodup_cons.mp hu
    have ih := outsOfKey_specOut hD rest hu'.2
    have hfresh : ∀ o ∈ specOut D rest, (ev.uid == o.uid) = false := by
      intro o ho
      have := specOut_uid rest o ho
      simp only [beq_eq_false_iff_ne, ne_eq]
      intro he; exact hu'.1 (he ▸ this)
    have hpartsfresh : ∀ p ∈ partsOf k rest, (p.uid == ev.uid) = false := by
      intro p hp
      simp only [beq_eq_false_iff_ne, ne_eq]
      intro he
      exact hu'.1 (he ▸ List.mem_map.mpr ⟨p, (mem_partsOf.mp hp).1, rfl⟩)
    unfold outsOfKey at ih ⊢
    rw [specOut_cons, List.filter_append]
    by_cases hm : memberKey ev = some k
    · rw [partsOf_cons_self hm]
      -- later outputs: the new part's uid does not occur among them
      have hrest : (specOut D rest).filter (fun o => (ev :: partsOf k rest).any (fun p => p.uid == o.uid)) =
          (specOut D rest).filter (fun o => (partsOf k rest).any (fun p => p.uid == o.uid)) := by
        apply List.filter_congr
        intro o ho
        simp [List.any_cons, hfresh o ho]
      rw [hrest, ih]
      unfold headOut
      simp only [hm]
      by_cases hlast : partsOf k rest = []
      · simp [hlast, hD, mergedEv, COut.uid]
      · have hemp : (partsOf k rest).isEmpty = false := by simpa [List.isEmpty_iff] using hlast
        simp only [hemp, Bool.false_eq_true, if_false, List.filter_nil, List.nil_append]
        rw [List.getLast?_cons_of_ne_nil hlast]
    · rw [partsOf_cons_other hm]
      have hhead : (headOut D ev rest).filter (fun o => (partsOf k rest).any (fun p => p.uid == o.uid)) = [] := by
        rw [List.filter_eq_nil_iff]
        intro o ho
        rw [headOut_uid o ho]
        simp only [List.any_eq_true, not_exists, not_and, Bool.not_eq_true]
        intro p hp
        exact hpartsfresh p hp
      rw [hhead, List.nil_append, ih]


/-- every output is a passed non-member or the rewritten slice of some part -/
theorem specOut_classified {D : Nat → Option SeqData} : ∀ (l : List CEv), ∀ o ∈ specOut D l,
    (∃ ev ∈ l, memberKey ev = none ∧ o = COut.pass ev) ∨
    (∃ ev ∈ l, ∃ k d, memberKey ev = some k ∧ o = mergedEv ev d)
  | [], o, ho => by simp [specOut] at ho
  | ev :: rest, o, ho => by
    rw [specOut_cons] at ho
    rcases List.mem_append.mp ho with ho | ho
    · unfold headOut at ho
      cases hm : memberKey ev with
      | none =>
        simp [hm] at ho
        exact Or.inl ⟨ev, by simp, hm, ho⟩
      | some k =>
        simp only [hm] at ho
        by_cases he : (partsOf k rest).isEmpty = true
        · simp only [he, if_true] at ho
          cases hD : D k with
          | none => simp [hD] at ho
          | some d =>
            simp [hD] at ho
            exact Or.inr ⟨ev, by simp, k, d, hm, ho⟩
        · simp [he] at ho
    · rcases specOut_classified rest o ho with ⟨e, he, h1, h2⟩ | ⟨e, he, k, d, h1, h2⟩
      · exact Or.inl ⟨e, List.mem_cons_of_mem _ he, h1, h2⟩
      · exact Or.inr ⟨e, List.mem_cons_of_mem _ he, k, d, h1, h2⟩

end AiuVerif.Comm
