/- Helper lemmas about the power-statistics model (C19). -/
import AiuVerif.Model.PowerStats
import Mathlib.Tactic.Linarith
import Mathlib.Tactic.Ring
import Mathlib.Algebra.Order.Field.Rat
import Mathlib.Order.Lattice

namespace AiuVerif
namespace PowerStats

/-! ### vocabulary of the statements -/

/-- a kernel timeline as `_merge_periods` is meant to deliver it: proper intervals, sorted,
pairwise separated by a gap -/
def Merged (tl : List Period) : Prop :=
  (∀ p ∈ tl, p.1 < p.2) ∧ tl.Pairwise (fun a b => a.2 < b.1)

/-- `t` lies in one of the half-open intervals `[s, e)` -/
def Covers (l : List Period) (t : Num) : Prop := ∃ p ∈ l, p.1 ≤ t ∧ t < p.2

/-- total duration of a list of tagged segments -/
def total (l : List Seg) : Num := (l.map (·.1)).sum

/-- length of `[ps, pe) ∩ [ks, ke)` summed over the intervals of a timeline; for a pairwise disjoint
timeline this is the measure of `[ps, pe) ∩ ⋃ timeline` -/
def overlap (ps pe : Num) (tl : List Period) : Num :=
  (tl.map (fun k => max 0 (min pe k.2 - max ps k.1))).sum

def untag (l : List Seg) : List WSeg := l.map (fun s => (s.1, s.2.1))

/-! ### sums -/

@[simp] theorem total_nil : total [] = 0 := rfl
@[simp] theorem total_cons (x : Seg) (l : List Seg) : total (x :: l) = x.1 + total l := by
  simp [total]
@[simp] theorem total_append (a b : List Seg) : total (a ++ b) = total a + total b := by
  simp [total, List.sum_append]

@[simp] theorem sumDur_nil : sumDur [] = 0 := rfl
@[simp] theorem sumDur_cons (x : WSeg) (l : List WSeg) : sumDur (x :: l) = x.1 + sumDur l := by
  simp [sumDur]
@[simp] theorem sumDur_append (a b : List WSeg) : sumDur (a ++ b) = sumDur a + sumDur b := by
  simp [sumDur, List.sum_append]
@[simp] theorem wSum_nil : wSum [] = 0 := rfl
@[simp] theorem wSum_cons (x : WSeg) (l : List WSeg) : wSum (x :: l) = x.1 * x.2 + wSum l := by
  simp [wSum]
@[simp] theorem wSum_append (a b : List WSeg) : wSum (a ++ b) = wSum a + wSum b := by
  simp [wSum, List.sum_append]

@[simp] theorem overlap_nil (ps pe : Num) : overlap ps pe [] = 0 := rfl
@[simp] theorem overlap_cons (ps pe : Num) (k : Period) (tl : List Period) :
    overlap ps pe (k :: tl) = max 0 (min pe k.2 - max ps k.1) + overlap ps pe tl := by
  simp [overlap]

theorem sumDur_perm {a b : List WSeg} (h : a.Perm b) : sumDur a = sumDur b := by
  induction h with
  | nil => rfl
  | cons x _ ih => simp [ih]
  | swap x y l => simp only [sumDur_cons]; ring
  | trans _ _ ih1 ih2 => exact ih1.trans ih2

theorem sumDur_nonneg {l : List WSeg} (h : ∀ s ∈ l, 0 ≤ s.1) : 0 ≤ sumDur l := by
  induction l with
  | nil => simp
  | cons x l ih =>
    simp only [sumDur_cons]
    have := h x (List.mem_cons_self ..)
    have := ih (fun s hs => h s (List.mem_cons_of_mem _ hs))
    linarith

theorem sumDur_pos {l : List WSeg} (hne : l ≠ []) (h : ∀ s ∈ l, 0 < s.1) : 0 < sumDur l := by
  cases l with
  | nil => exact absurd rfl hne
  | cons x l =>
    simp only [sumDur_cons]
    have := h x (List.mem_cons_self ..)
    have := sumDur_nonneg (l := l) (fun s hs => le_of_lt (h s (List.mem_cons_of_mem _ hs)))
    linarith

theorem sumDur_filter_le {l : List WSeg} (f : WSeg → Bool) (h : ∀ s ∈ l, 0 ≤ s.1) :
    sumDur (l.filter f) ≤ sumDur l := by
  induction l with
  | nil => simp
  | cons x l ih =>
    have hx := h x (List.mem_cons_self ..)
    have := ih (fun s hs => h s (List.mem_cons_of_mem _ hs))
    by_cases hf : f x = true
    · simp only [List.filter_cons, hf, if_true, sumDur_cons]; linarith
    · simp only [List.filter_cons, hf, sumDur_cons]; simp; linarith

/-- a weighted sum lies above `m ×` the total weight when every value is `≥ m` -/
theorem wSum_ge {l : List WSeg} (m : Num) (hd : ∀ s ∈ l, 0 ≤ s.1) (hp : ∀ s ∈ l, m ≤ s.2) :
    m * sumDur l ≤ wSum l := by
  induction l with
  | nil => simp
  | cons x l ih =>
    have h1 := hd x (List.mem_cons_self ..)
    have h2 := hp x (List.mem_cons_self ..)
    have := ih (fun s hs => hd s (List.mem_cons_of_mem _ hs)) (fun s hs => hp s (List.mem_cons_of_mem _ hs))
    simp only [sumDur_cons, wSum_cons]
    have : x.1 * m ≤ x.1 * x.2 := mul_le_mul_of_nonneg_left h2 h1
    linarith

theorem wSum_le {l : List WSeg} (m : Num) (hd : ∀ s ∈ l, 0 ≤ s.1) (hp : ∀ s ∈ l, s.2 ≤ m) :
    wSum l ≤ m * sumDur l := by
  induction l with
  | nil => simp
  | cons x l ih =>
    have h1 := hd x (List.mem_cons_self ..)
    have h2 := hp x (List.mem_cons_self ..)
    have := ih (fun s hs => hd s (List.mem_cons_of_mem _ hs)) (fun s hs => hp s (List.mem_cons_of_mem _ hs))
    simp only [sumDur_cons, wSum_cons]
    have : x.1 * x.2 ≤ x.1 * m := mul_le_mul_of_nonneg_left h2 h1
    linarith

/-! ### `min(...)` / `max(...)` -/

theorem foldl_min_le (l : List Num) (x : Num) :
    l.foldl min x ≤ x ∧ ∀ y ∈ l, l.foldl min x ≤ y := by
  induction l generalizing x with
  | nil => simp
  | cons a l ih =>
    obtain ⟨h1, h2⟩ := ih (min x a)
    refine ⟨le_trans h1 (min_le_left _ _), ?_⟩
    intro y hy
    rcases List.mem_cons.mp hy with rfl | hy
    · exact le_trans h1 (min_le_right _ _)
    · exact h2 y hy

theorem foldl_le_max (l : List Num) (x : Num) :
    x ≤ l.foldl max x ∧ ∀ y ∈ l, y ≤ l.foldl max x := by
  induction l generalizing x with
  | nil => simp
  | cons a l ih =>
    obtain ⟨h1, h2⟩ := ih (max x a)
    refine ⟨le_trans (le_max_left _ _) h1, ?_⟩
    intro y hy
    rcases List.mem_cons.mp hy with rfl | hy
    · exact le_trans (le_max_right _ _) h1
    · exact h2 y hy

theorem minOr0_le {l : List Num} {y : Num} (hy : y ∈ l) : minOr0 l ≤ y := by
  cases l with
  | nil => simp at hy
  | cons x l =>
    rcases List.mem_cons.mp hy with rfl | hy
    · exact (foldl_min_le l _).1
    · exact (foldl_min_le l x).2 y hy

theorem le_maxOr0 {l : List Num} {y : Num} (hy : y ∈ l) : y ≤ maxOr0 l := by
  cases l with
  | nil => simp at hy
  | cons x l =>
    rcases List.mem_cons.mp hy with rfl | hy
    · exact (foldl_le_max l _).1
    · exact (foldl_le_max l x).2 y hy

/-! ### weighted median loop -/

/-- the loop breaks (and returns the power of a segment) whenever the remaining weight reaches `half` -/
theorem medianGo_mem (half : Num) (cum : Num) (l : List WSeg) (hne : l ≠ [])
    (h : half ≤ cum + sumDur l) : medianGo half cum l ∈ l.map (·.2) := by
  induction l generalizing cum with
  | nil => exact absurd rfl hne
  | cons x rest ih =>
    obtain ⟨d, p⟩ := x
    unfold medianGo
    split
    · simp
    · rename_i hlt
      have hrest : rest ≠ [] := by
        intro hr
        subst hr
        simp at h
        exact hlt h
      have := ih (cum + d) hrest (by simp only [sumDur_cons] at h; linarith)
      exact List.mem_cons_of_mem _ this

/-! ### `_merge_periods` -/

theorem leLex_trans (a b c : Period) : leLex a b = true → leLex b c = true → leLex a c = true := by
  simp only [leLex, Bool.or_eq_true, Bool.and_eq_true, decide_eq_true_eq]
  intro h1 h2
  rcases h1 with h1 | ⟨h1, h1'⟩ <;> rcases h2 with h2 | ⟨h2, h2'⟩
  · exact Or.inl (lt_trans h1 h2)
  · exact Or.inl (h2 ▸ h1)
  · exact Or.inl (h1 ▸ h2)
  · exact Or.inr ⟨h1.trans h2, le_trans h1' h2'⟩

theorem leLex_total (a b : Period) : (leLex a b || leLex b a) = true := by
  simp only [leLex, Bool.or_eq_true, Bool.and_eq_true, decide_eq_true_eq]
  rcases lt_trichotomy a.1 b.1 with h | h | h
  · exact Or.inl (Or.inl h)
  · rcases le_total a.2 b.2 with h' | h'
    · exact Or.inl (Or.inr ⟨h, h'⟩)
    · exact Or.inr (Or.inr ⟨h.symm, h'⟩)
  · exact Or.inr (Or.inl h)

theorem leLex_start {a b : Period} (h : leLex a b = true) : a.1 ≤ b.1 := by
  simp only [leLex, Bool.or_eq_true, Bool.and_eq_true, decide_eq_true_eq] at h
  rcases h with h | ⟨h, _⟩
  · exact le_of_lt h
  · exact le_of_eq h

/-- `sorted(periods)` is ordered by start -/
theorem sorted_starts (l : List Period) : (l.mergeSort leLex).Pairwise (fun a b => a.1 ≤ b.1) :=
  (List.pairwise_mergeSort leLex_trans leLex_total l).imp leLex_start

theorem mergeGo_spec (cur : Period) (rest : List Period) (hc : cur.1 < cur.2)
    (hpos : ∀ p ∈ rest, p.1 < p.2) (hsorted : rest.Pairwise (fun a b => a.1 ≤ b.1))
    (hfirst : ∀ p ∈ rest, cur.1 ≤ p.1) :
    Merged (mergeGo cur rest) ∧ ∀ q ∈ mergeGo cur rest, cur.1 ≤ q.1 := by
  induction rest generalizing cur with
  | nil => simp [mergeGo, Merged, hc]
  | cons k rest ih =>
    obtain ⟨s, e⟩ := k
    rw [List.pairwise_cons] at hsorted
    have hposr : ∀ p ∈ rest, p.1 < p.2 := fun p hp => hpos p (List.mem_cons_of_mem _ hp)
    unfold mergeGo
    split
    · have := ih (cur.1, max cur.2 e) (lt_of_lt_of_le hc (le_max_left _ _)) hposr hsorted.2
        (fun p hp => hfirst p (List.mem_cons_of_mem _ hp))
      exact this
    · rename_i hgap
      have hgap : cur.2 < s := not_le.mp hgap
      have hse : s < e := hpos (s, e) (List.mem_cons_self ..)
      obtain ⟨hm, hq⟩ := ih (s, e) hse hposr hsorted.2 (fun p hp => hsorted.1 p hp)
      have hcs : cur.1 ≤ s := hfirst (s, e) (List.mem_cons_self ..)
      refine ⟨⟨?_, ?_⟩, ?_⟩
      · intro p hp
        rcases List.mem_cons.mp hp with rfl | hp
        · exact hc
        · exact hm.1 p hp
      · rw [List.pairwise_cons]
        exact ⟨fun q hq' => lt_of_lt_of_le hgap (hq q hq'), hm.2⟩
      · intro q hq'
        rcases List.mem_cons.mp hq' with rfl | hq'
        · exact le_refl _
        · exact le_trans hcs (hq q hq')

theorem covers_cons (k : Period) (l : List Period) (t : Num) :
    Covers (k :: l) t ↔ (k.1 ≤ t ∧ t < k.2) ∨ Covers l t := by
  simp [Covers]

theorem mergeGo_covers (cur : Period) (rest : List Period) (t : Num)
    (hsorted : rest.Pairwise (fun a b => a.1 ≤ b.1)) (hfirst : ∀ p ∈ rest, cur.1 ≤ p.1) :
    Covers (mergeGo cur rest) t ↔ Covers (cur :: rest) t := by
  induction rest generalizing cur with
  | nil => simp [mergeGo]
  | cons k rest ih =>
    obtain ⟨s, e⟩ := k
    rw [List.pairwise_cons] at hsorted
    have hcs : cur.1 ≤ s := hfirst (s, e) (List.mem_cons_self ..)
    unfold mergeGo
    split
    · rename_i hle
      rw [ih (cur.1, max cur.2 e) hsorted.2 (fun p hp => hfirst p (List.mem_cons_of_mem _ hp))]
      simp only [covers_cons]
      constructor
      · rintro (⟨h1, h2⟩ | h)
        · by_cases ht : t < cur.2
          · exact Or.inl ⟨h1, ht⟩
          · have ht : cur.2 ≤ t := not_lt.mp ht
            rcases lt_max_iff.mp h2 with h2 | h2
            · exact absurd h2 (not_lt.mpr ht)
            · exact Or.inr (Or.inl ⟨le_trans hle ht, h2⟩)
        · exact Or.inr (Or.inr h)
      · rintro (⟨h1, h2⟩ | ⟨h1, h2⟩ | h)
        · exact Or.inl ⟨h1, lt_max_iff.mpr (Or.inl h2)⟩
        · exact Or.inl ⟨le_trans hcs h1, lt_max_iff.mpr (Or.inr h2)⟩
        · exact Or.inr h
    · rw [covers_cons, ih (s, e) hsorted.2 (fun p hp => hsorted.1 p hp), covers_cons (k := cur)]

theorem covers_perm {a b : List Period} (h : a.Perm b) (t : Num) : Covers a t ↔ Covers b t := by
  simp only [Covers]
  constructor
  · rintro ⟨p, hp, hh⟩; exact ⟨p, h.mem_iff.mp hp, hh⟩
  · rintro ⟨p, hp, hh⟩; exact ⟨p, h.mem_iff.mpr hp, hh⟩

/-! ### `_split_power_period` -/

theorem splitFrom_total (ps pe v : Num) (hpe : ps < pe) (tl : List Period) (cur : Num)
    (hm : Merged tl) (h1 : ps ≤ cur) (h2 : cur ≤ pe) (hfirst : ∀ p ∈ tl, cur ≤ max ps p.1) :
    total (splitFrom ps pe v cur tl) = pe - cur := by
  induction tl generalizing cur with
  | nil =>
    unfold splitFrom
    split
    · simp
    · rename_i hn
      have : cur = pe := le_antisymm h2 (not_lt.mp hn)
      simp [this]
  | cons k rest ih =>
    obtain ⟨ks, ke⟩ := k
    obtain ⟨hpos, hpw⟩ := hm
    rw [List.pairwise_cons] at hpw
    have hmr : Merged rest := ⟨fun p hp => hpos p (List.mem_cons_of_mem _ hp), hpw.2⟩
    have hk : ks < ke := hpos (ks, ke) (List.mem_cons_self ..)
    unfold splitFrom
    split
    · exact ih cur hmr h1 h2 (fun p hp => hfirst p (List.mem_cons_of_mem _ hp))
    · rename_i hns
      push Not at hns
      have hcos : cur ≤ max ps ks := hfirst (ks, ke) (List.mem_cons_self ..)
      have hos : max ps ks < min pe ke := by
        rw [max_lt_iff, lt_min_iff, lt_min_iff]; exact ⟨⟨hpe, hns.1⟩, ⟨hns.2, hk⟩⟩
      have hrec := ih (min pe ke) hmr (le_trans (le_max_left _ _) (le_of_lt hos)) (min_le_left _ _)
        (fun p hp => by
          have : ke < p.1 := hpw.1 p hp
          exact le_trans (min_le_right _ _) (le_trans (le_of_lt this) (le_max_right _ _)))
      simp only [total_append, total_cons, hrec]
      by_cases hlt : cur < max ps ks
      · simp only [hlt, if_true, total_cons, total_nil]; ring
      · have : cur = max ps ks := le_antisymm hcos (not_lt.mp hlt)
        simp only [hlt, if_false, total_nil]; rw [this]; ring

theorem splitFrom_pos (ps pe v : Num) (hpe : ps < pe) (tl : List Period) (cur : Num)
    (hpos : ∀ p ∈ tl, p.1 < p.2) : ∀ s ∈ splitFrom ps pe v cur tl, 0 < s.1 := by
  induction tl generalizing cur with
  | nil =>
    unfold splitFrom
    split
    · intro s hs; simp at hs; subst hs; simp; linarith
    · simp
  | cons k rest ih =>
    obtain ⟨ks, ke⟩ := k
    have hposr : ∀ p ∈ rest, p.1 < p.2 := fun p hp => hpos p (List.mem_cons_of_mem _ hp)
    have hk : ks < ke := hpos (ks, ke) (List.mem_cons_self ..)
    unfold splitFrom
    split
    · exact ih cur hposr
    · rename_i hns
      push Not at hns
      have hos : max ps ks < min pe ke := by
        rw [max_lt_iff, lt_min_iff, lt_min_iff]; exact ⟨⟨hpe, hns.1⟩, ⟨hns.2, hk⟩⟩
      intro s hs
      simp only [List.mem_append, List.mem_cons] at hs
      rcases hs with hs | hs | hs
      · by_cases hlt : cur < max ps ks
        · simp only [hlt, if_true, List.mem_singleton] at hs; subst hs
          show 0 < max ps ks - cur
          linarith
        · simp [hlt] at hs
      · subst hs
        show 0 < min pe ke - max ps ks
        linarith
      · exact ih (min pe ke) hposr s hs

theorem splitFrom_tag (ps pe v : Num) (tl : List Period) (cur : Num) :
    ∀ s ∈ splitFrom ps pe v cur tl, s.2.1 = v := by
  induction tl generalizing cur with
  | nil =>
    unfold splitFrom
    split
    · intro s hs; simp at hs; subst hs; rfl
    · simp
  | cons k rest ih =>
    obtain ⟨ks, ke⟩ := k
    unfold splitFrom
    split
    · exact ih cur
    · intro s hs
      simp only [List.mem_append, List.mem_cons] at hs
      rcases hs with hs | hs | hs
      · by_cases hlt : cur < max ps ks
        · simp only [hlt, if_true, List.mem_singleton] at hs; subst hs; rfl
        · simp [hlt] at hs
      · subst hs; rfl
      · exact ih (min pe ke) s hs

theorem withK_append (a b : List Seg) : withK (a ++ b) = withK a ++ withK b := by
  simp [withK]
theorem withoutK_append (a b : List Seg) : withoutK (a ++ b) = withoutK a ++ withoutK b := by
  simp [withoutK]

/-- kernel-tagged time of one period = its overlap with the kernel intervals -/
theorem splitFrom_withK (ps pe v : Num) (hpe : ps < pe) (tl : List Period) (cur : Num)
    (hpos : ∀ p ∈ tl, p.1 < p.2) :
    sumDur (withK (splitFrom ps pe v cur tl)) = overlap ps pe tl ∧
    wSum (withK (splitFrom ps pe v cur tl)) = overlap ps pe tl * v := by
  induction tl generalizing cur with
  | nil =>
    unfold splitFrom
    split <;> simp [withK]
  | cons k rest ih =>
    obtain ⟨ks, ke⟩ := k
    have hposr : ∀ p ∈ rest, p.1 < p.2 := fun p hp => hpos p (List.mem_cons_of_mem _ hp)
    have hk : ks < ke := hpos (ks, ke) (List.mem_cons_self ..)
    unfold splitFrom
    split
    · rename_i hs
      have hz : max 0 (min pe ke - max ps ks) = 0 := by
        apply max_eq_left
        rcases hs with hs | hs
        · have : min pe ke ≤ max ps ks := le_trans (min_le_right _ _) (le_trans hs (le_max_left _ _))
          linarith
        · have : min pe ke ≤ max ps ks := le_trans (min_le_left _ _) (le_trans hs (le_max_right _ _))
          linarith
      obtain ⟨h1, h2⟩ := ih cur hposr
      simp only [overlap_cons, hz, h1, h2, zero_add, and_self]
    · rename_i hns
      push Not at hns
      have hos : max ps ks < min pe ke := by
        rw [max_lt_iff, lt_min_iff, lt_min_iff]; exact ⟨⟨hpe, hns.1⟩, ⟨hns.2, hk⟩⟩
      have hz : max 0 (min pe ke - max ps ks) = min pe ke - max ps ks := by
        apply max_eq_right; linarith
      obtain ⟨h1, h2⟩ := ih (min pe ke) hposr
      have hgap : withK (if cur < max ps ks then [(max ps ks - cur, v, false)] else []) = [] := by
        split <;> simp [withK]
      have hcons : withK ((min pe ke - max ps ks, v, true) :: splitFrom ps pe v (min pe ke) rest) =
          (min pe ke - max ps ks, v) :: withK (splitFrom ps pe v (min pe ke) rest) := by
        simp [withK]
      simp only [withK_append, hgap, List.nil_append, hcons, sumDur_cons, wSum_cons, h1, h2,
        overlap_cons, hz]
      constructor
      · trivial
      · ring

/-! ### tagged → untagged bookkeeping -/

theorem total_eq_with_add_without (l : List Seg) :
    total l = sumDur (withK l) + sumDur (withoutK l) := by
  induction l with
  | nil => simp [withK, withoutK]
  | cons x l ih =>
    obtain ⟨d, p, k⟩ := x
    cases k
    · simp [withK, withoutK] at ih ⊢; rw [ih]; ring
    · simp [withK, withoutK] at ih ⊢; rw [ih]; ring

theorem wSum_untag_eq (l : List Seg) :
    wSum (untag l) = wSum (withK l) + wSum (withoutK l) := by
  induction l with
  | nil => simp [withK, withoutK, untag]
  | cons x l ih =>
    obtain ⟨d, p, k⟩ := x
    cases k
    · simp [withK, withoutK, untag] at ih ⊢; rw [ih]; ring
    · simp [withK, withoutK, untag] at ih ⊢; rw [ih]; ring

theorem wSum_untag_of_tag (l : List Seg) (v : Num) (h : ∀ s ∈ l, s.2.1 = v) :
    wSum (untag l) = total l * v := by
  induction l with
  | nil => simp [untag]
  | cons x l ih =>
    have hx := h x (List.mem_cons_self ..)
    have := ih (fun s hs => h s (List.mem_cons_of_mem _ hs))
    simp only [untag, List.map_cons, wSum_cons, total_cons] at this ⊢
    rw [this, hx]; ring

theorem mem_withK {l : List Seg} {s : WSeg} (h : s ∈ withK l) : ∃ t ∈ l, t.1 = s.1 ∧ t.2.1 = s.2 := by
  simp only [withK, List.mem_map, List.mem_filter] at h
  obtain ⟨t, ⟨ht, _⟩, rfl⟩ := h
  exact ⟨t, ht, rfl, rfl⟩

theorem mem_withoutK {l : List Seg} {s : WSeg} (h : s ∈ withoutK l) : ∃ t ∈ l, t.1 = s.1 ∧ t.2.1 = s.2 := by
  simp only [withoutK, List.mem_map, List.mem_filter] at h
  obtain ⟨t, ⟨ht, _⟩, rfl⟩ := h
  exact ⟨t, ht, rfl, rfl⟩

/-! ### `drain`: sums over all power periods -/

/-- total sampled time `Σ (end − start)` of the power periods -/
def sampled (pp : List PPeriod) : Num := (pp.map (fun p => p.2.1 - p.1)).sum
/-- kernel-covered sampled time `Σ |[start, end) ∩ ⋃ timeline|` -/
def kernelTime (pp : List PPeriod) (tl : List Period) : Num :=
  (pp.map (fun p => overlap p.1 p.2.1 tl)).sum
/-- `Σ P × |[start, end) ∩ ⋃ timeline|`: the power-time integral over the kernel-covered part -/
def kernelEnergy (pp : List PPeriod) (tl : List Period) : Num :=
  (pp.map (fun p => overlap p.1 p.2.1 tl * p.2.2)).sum
/-- `Σ P × (end − start)`: the power-time integral over all sampled time -/
def energy (pp : List PPeriod) : Num := (pp.map (fun p => (p.2.1 - p.1) * p.2.2)).sum

def durTot : Option Stats → Num
  | none => 0
  | some s => s.durTotal

theorem allSegments_cons (p : PPeriod) (pp : List PPeriod) (tl : List Period) :
    allSegments (p :: pp) tl = split p.1 p.2.1 p.2.2 tl ++ allSegments pp tl := by
  simp [allSegments]

theorem allSegments_sums (pp : List PPeriod) (tl : List Period) (hpp : ∀ p ∈ pp, p.1 < p.2.1)
    (hm : Merged tl) :
    total (allSegments pp tl) = sampled pp ∧
    sumDur (withK (allSegments pp tl)) = kernelTime pp tl ∧
    wSum (withK (allSegments pp tl)) = kernelEnergy pp tl ∧
    wSum (untag (allSegments pp tl)) = energy pp := by
  induction pp with
  | nil => simp [allSegments, sampled, kernelTime, kernelEnergy, energy, withK, untag]
  | cons p pp ih =>
    have hp := hpp p (List.mem_cons_self ..)
    obtain ⟨i1, i2, i3, i4⟩ := ih (fun q hq => hpp q (List.mem_cons_of_mem _ hq))
    have t := splitFrom_total p.1 p.2.1 p.2.2 hp tl p.1 hm le_rfl (le_of_lt hp)
      (fun _ _ => le_max_left _ _)
    obtain ⟨k1, k2⟩ := splitFrom_withK p.1 p.2.1 p.2.2 hp tl p.1 hm.1
    have u := wSum_untag_of_tag (split p.1 p.2.1 p.2.2 tl) p.2.2 (splitFrom_tag _ _ _ _ _)
    rw [allSegments_cons]
    simp only [split] at t k1 k2 u ⊢
    refine ⟨?_, ?_, ?_, ?_⟩
    · simp only [total_append, t, i1, sampled, List.map_cons, List.sum_cons]
    · simp only [withK_append, sumDur_append, k1, i2, kernelTime, List.map_cons, List.sum_cons]
    · simp only [withK_append, wSum_append, k2, i3, kernelEnergy, List.map_cons, List.sum_cons]
    · simp only [untag, List.map_append, wSum_append] at u i4 ⊢
      simp only [u, i4, t, energy, List.map_cons, List.sum_cons]

theorem allSegments_pos (pp : List PPeriod) (tl : List Period) (hpp : ∀ p ∈ pp, p.1 < p.2.1)
    (hpos : ∀ k ∈ tl, k.1 < k.2) : ∀ s ∈ allSegments pp tl, 0 < s.1 := by
  intro s hs
  simp only [allSegments, List.mem_flatMap] at hs
  obtain ⟨p, hp, hs⟩ := hs
  exact splitFrom_pos p.1 p.2.1 p.2.2 (hpp p hp) tl p.1 hpos s hs

theorem allSegments_power (pp : List PPeriod) (tl : List Period) :
    ∀ s ∈ allSegments pp tl, ∃ p ∈ pp, s.2.1 = p.2.2 := by
  intro s hs
  simp only [allSegments, List.mem_flatMap] at hs
  obtain ⟨p, hp, hs⟩ := hs
  exact ⟨p, hp, splitFrom_tag p.1 p.2.1 p.2.2 tl p.1 s hs⟩

theorem mergePeriods_nil : mergePeriods [] = [] := by
  simp [mergePeriods]

theorem withoutK_of_untagged (l : List Seg) (h : ∀ s ∈ l, s.2.2 = false) : withoutK l = untag l := by
  induction l with
  | nil => rfl
  | cons x l ih =>
    have hx := h x (List.mem_cons_self ..)
    have := ih (fun s hs => h s (List.mem_cons_of_mem _ hs))
    simp only [withoutK, untag, List.filter_cons, hx, Bool.not_false, if_true, List.map_cons] at this ⊢
    rw [this]

theorem allSegments_nil_untagged (pp : List PPeriod) : ∀ s ∈ allSegments pp [], s.2.2 = false := by
  intro s hs
  simp only [allSegments, List.mem_flatMap, split, splitFrom] at hs
  obtain ⟨p, _, hs⟩ := hs
  split at hs
  · simp at hs; subst hs; rfl
  · simp at hs

/-- the `if not self.kernel_periods and not without_kernels` fallback of `drain` never changes the
data: the two scenarios are always the kernel-tagged and the untagged segments -/
theorem scenarios_eq (pp : List PPeriod) (kp : List Period) :
    scenarios pp kp = (withK (allSegments pp (mergePeriods kp)), withoutK (allSegments pp (mergePeriods kp))) := by
  unfold scenarios
  simp only []
  split
  · rename_i h
    have hk : kp = [] := by simpa using h.1
    subst hk
    rw [mergePeriods_nil]
    rw [withoutK_of_untagged _ (allSegments_nil_untagged pp)]
    rfl
  · rfl

theorem durTot_computeStats (segs : List WSeg) : durTot (computeStats segs) = sumDur segs := by
  unfold computeStats
  cases segs with
  | nil => simp [durTot]
  | cons x l => simp [durTot]

theorem computeStats_eq_some {segs : List WSeg} {st : Stats} (h : computeStats segs = some st) :
    segs ≠ [] ∧ st.durTotal = sumDur segs ∧ st.durNz = sumDur (nonZero segs) ∧
    st.avgTotal = (if 0 < sumDur segs then wSum segs / sumDur segs else 0) ∧
    st.meanNz = (if 0 < sumDur (nonZero segs) then wSum (nonZero segs) / sumDur (nonZero segs) else 0) ∧
    st.minNz = minOr0 ((nonZero segs).map (·.2)) ∧ st.max = maxOr0 (segs.map (·.2)) ∧
    st.medianNz = (if (nonZero segs).isEmpty then 0
      else medianGo (sumDur (nonZero segs) / 2) 0 (sortByPower (nonZero segs))) := by
  unfold computeStats at h
  cases segs with
  | nil => simp at h
  | cons x l =>
    simp only [List.isEmpty_cons, Bool.false_eq_true, if_false, Option.some.injEq] at h
    subst h
    simp

end PowerStats
end AiuVerif
