/- Helper lemmas for C04: every end on a lane's stack is the rounded end of a slice emitted on that
lane, so a slice is only moved when an earlier slice of the lane ends strictly inside it. Core only. -/
import AiuVerif.Lemmas.Overlap

namespace AiuVerif.Overlap

/-- every active end of a lane is the rounded end of a slice already emitted on that lane, which
started no later than the lane head -/
def EndsFrom (st : Lanes) (em : List Ev) : Prop :=
  ∀ L x, x ∈ (st L).ends →
    ∃ a ∈ em, a.isX = true ∧ a.lane = L ∧ a.endOf = x ∧ a.ts ≤ (st L).cur

theorem EndsFrom_init : EndsFrom Lanes.init [] := by
  intro L x hx; simp [Lanes.init, LaneSt.init] at hx

theorem EndsFrom_mono {st : Lanes} {em em' : List Ev} (h : EndsFrom st em) (hsub : ∀ a ∈ em, a ∈ em') :
    EndsFrom st em' := by
  intro L x hx
  obtain ⟨a, ha, h1⟩ := h L x hx
  exact ⟨a, hsub a ha, h1⟩

theorem EndsFrom_set_prune {st : Lanes} {em em' : List Ev} {l : Lane} {q' : LaneSt} {s : Rat}
    (h : EndsFrom st em) (hsub : ∀ a ∈ em, a ∈ em') (hcur : (st l).cur ≤ s)
    (hq : ∀ x ∈ q'.ends, x ∈ (st l).ends ∨
      ∃ b ∈ em', b.isX = true ∧ b.lane = l ∧ b.endOf = x ∧ b.ts ≤ s) :
    EndsFrom (st.set l (prune s q')) em' := by
  intro L x hx
  by_cases hL : L = l
  · subst hL
    rw [set_same] at hx ⊢
    have hx' := (mem_prune_ends.mp hx).1
    rcases hq x hx' with h1 | ⟨b, hb, h1, h2, h3, h4⟩
    · obtain ⟨a, ha, g1, g2, g3, g4⟩ := h L x h1
      exact ⟨a, hsub a ha, g1, g2, g3, by simp only [prune_cur]; exact Rat.le_trans g4 hcur⟩
    · exact ⟨b, hb, h1, h2, h3, by simpa using h4⟩
  · rw [set_other _ _ hL] at hx ⊢
    obtain ⟨a, ha, h1⟩ := h L x hx
    exact ⟨a, hsub a ha, h1⟩

theorem detect_ends (mode : Mode) (next : Nat → Nat → Option Nat) :
    ∀ (fuel : Nat) (st : Lanes) (ev : Ev) (st' : Lanes) (out em : List Ev),
      ev.isX = true → Inv st em → EndsFrom st em → detect mode next fuel st ev = .ok (st', out) →
      EndsFrom st' (em ++ out) := by
  intro fuel
  induction fuel with
  | zero =>
    intro st ev st' out em hx hinv hef h
    unfold detect at h
    simp only [] at h
    split at h
    · cases h
    split at h
    · cases h
    rename_i hcur hstate
    have hcur : (st ev.lane).cur ≤ ev.ts := Decidable.not_not.mp hcur
    split at h
    · injection h with h; injection h with h1 h2; subst h1; subst h2
      refine EndsFrom_set_prune hef (fun a ha => List.mem_append_left _ ha) hcur ?_
      intro x hx'
      simp at hx'
      exact Or.inr ⟨ev, by simp, hx, rfl, hx'.symm, Rat.le_refl⟩
    split at h
    · split at h
      · injection h with h; injection h with h1 h2; subst h1; subst h2
        simpa using EndsFrom_set_prune hef (fun a ha => ha) hcur (fun x hx' => Or.inl hx')
      · split at h
        · cases h
        · cases h
    · injection h with h; injection h with h1 h2; subst h1; subst h2
      refine EndsFrom_set_prune hef (fun a ha => List.mem_append_left _ ha) hcur ?_
      intro x hx'
      simp at hx'
      rcases hx' with hx' | hx'
      · exact Or.inl hx'
      · exact Or.inr ⟨ev, by simp, hx, rfl, hx'.symm, Rat.le_refl⟩
  | succ fuel ih =>
    intro st ev st' out em hx hinv hef h
    have hfull := h
    unfold detect at h
    simp only [] at h
    split at h
    · cases h
    split at h
    · cases h
    rename_i hcur hstate
    have hcur : (st ev.lane).cur ≤ ev.ts := Decidable.not_not.mp hcur
    split at h
    · injection h with h; injection h with h1 h2; subst h1; subst h2
      refine EndsFrom_set_prune hef (fun a ha => List.mem_append_left _ ha) hcur ?_
      intro x hx'
      simp at hx'
      exact Or.inr ⟨ev, by simp, hx, rfl, hx'.symm, Rat.le_refl⟩
    split at h
    · split at h
      · injection h with h; injection h with h1 h2; subst h1; subst h2
        simpa using EndsFrom_set_prune hef (fun a ha => ha) hcur (fun x hx' => Or.inl hx')
      · split at h
        · cases h
        · rename_i t ht
          split at h
          · cases h
          · rename_i st1 out1 hrec
            injection h with h; injection h with h1 h2; subst h1; subst h2
            have hef1 := ih st { ev with tid := t } st1 _ em hx hinv hef hrec
            obtain ⟨_, _, _, hbound⟩ := detect_spec _ next fuel st { ev with tid := t } st1 _ em hinv hrec
            exact EndsFrom_set_prune hef1 (fun a ha => ha) (hbound _ _ hcur Rat.le_refl)
              (fun x hx' => Or.inl hx')
    · injection h with h; injection h with h1 h2; subst h1; subst h2
      refine EndsFrom_set_prune hef (fun a ha => List.mem_append_left _ ha) hcur ?_
      intro x hx'
      simp at hx'
      rcases hx' with hx' | hx'
      · exact Or.inl hx'
      · exact Or.inr ⟨ev, by simp, hx, rfl, hx'.symm, Rat.le_refl⟩

/-- a slice that leaves `-O tid` with another tid met an active end strictly inside it -/
theorem detect_moved_witness (next : Nat → Nat → Option Nat) (fuel : Nat) (st : Lanes) (ev : Ev)
    (st' : Lanes) (out : List Ev) (h : detect .tid next fuel st ev = .ok (st', out)) :
    (st ev.lane).cur ≤ ev.ts ∧
    ∀ b' ∈ out, b'.tid ≠ ev.tid → ∃ x ∈ (st ev.lane).ends, ev.ts < x ∧ x < ev.endOf := by
  unfold detect at h
  simp only [] at h
  split at h
  · cases h
  split at h
  · cases h
  rename_i hcur hstate
  refine ⟨Decidable.not_not.mp hcur, ?_⟩
  split at h
  · injection h with h; injection h with h1 h2; subst h2
    intro b' hb' hne; simp at hb'; subst hb'; exact absurd rfl hne
  split at h
  · rename_i hb hov
    intro _ _ _
    simp only [overlaps, List.any_eq_true, Bool.and_eq_true, decide_eq_true_eq] at hov
    obtain ⟨x, hx, h1, h2⟩ := hov
    exact ⟨x, hx, h1, h2⟩
  · injection h with h; injection h with h1 h2; subst h2
    intro b' hb' hne; simp at hb'; subst hb'; exact absurd rfl hne

theorem detectAll_inv (mode : Mode) (next : Nat → Nat → Option Nat) (fuel : Nat) :
    ∀ (evs : List Ev) (st : Lanes) (em : List Ev) (st' : Lanes) (out : List Ev),
      Inv st em → LamList em → EndsFrom st em → detectAll mode next fuel st evs = .ok (st', out) →
      Inv st' (em ++ out) ∧ LamList (em ++ out) ∧ EndsFrom st' (em ++ out) := by
  intro evs
  induction evs with
  | nil =>
    intro st em st' out hinv hlam hef h
    simp only [detectAll] at h
    injection h with h; injection h with h1 h2; subst h1; subst h2
    simpa using ⟨hinv, hlam, hef⟩
  | cons ev rest ih =>
    intro st em st' out hinv hlam hef h
    simp only [detectAll] at h
    split at h
    · cases h
    rename_i st1 out1 hstep
    split at h
    · cases h
    rename_i st2 out2 hrest
    injection h with h; injection h with h1 h2; subst h1; subst h2
    obtain ⟨hi1, hl1⟩ := step_spec mode next fuel hinv hlam hstep
    have he1 : EndsFrom st1 (em ++ out1) := by
      unfold step at hstep
      split at hstep
      · rename_i hx; exact detect_ends mode next fuel st ev st1 out1 em hx hinv hef hstep
      · injection hstep with hstep; injection hstep with h1 h2; subst h1; subst h2
        exact EndsFrom_mono hef (fun a ha => List.mem_append_left _ ha)
    have := ih st1 (em ++ out1) st2 out2 hi1 hl1 he1 hrest
    simpa [List.append_assoc] using this

theorem detectAll_append (mode : Mode) (next : Nat → Nat → Option Nat) (fuel : Nat) :
    ∀ (pre rest : List Ev) (st st' : Lanes) (out : List Ev),
      detectAll mode next fuel st (pre ++ rest) = .ok (st', out) →
      ∃ st1 em out2, detectAll mode next fuel st pre = .ok (st1, em) ∧
        detectAll mode next fuel st1 rest = .ok (st', out2) ∧ out = em ++ out2 := by
  intro pre
  induction pre with
  | nil => intro rest st st' out h; exact ⟨st, [], out, rfl, by simpa using h, rfl⟩
  | cons ev pre ih =>
    intro rest st st' out h
    simp only [List.cons_append, detectAll] at h ⊢
    split at h
    · cases h
    rename_i st1 out1 hstep
    split at h
    · cases h
    rename_i st2 out2 hrest
    injection h with h; injection h with h1 h2; subst h1; subst h2
    obtain ⟨st3, em, out3, g1, g2, g3⟩ := ih rest st1 st2 out2 hrest
    refine ⟨st3, out1 ++ em, out3, ?_, g2, by rw [g3, List.append_assoc]⟩
    first | (rw [g1]) | (rw [hstep]; simp only []; rw [g1])

/-- stage level: the slice `b` processed after the prefix `pre` either keeps its tid or an earlier
emitted slice on its lane starts no later and ends strictly inside it -/
theorem moved_witness_stage (next : Nat → Nat → Option Nat) (fuel : Nat) (pre : List Ev) (b : Ev)
    (post : List Ev) (st' : Lanes) (out : List Ev) (hx : b.isX = true)
    (h : detectAll .tid next fuel Lanes.init (pre ++ b :: post) = .ok (st', out)) :
    ∃ st1 em b' outpost, detectAll .tid next fuel Lanes.init pre = .ok (st1, em) ∧
      out = em ++ b' :: outpost ∧
      (b'.tid ≠ b.tid → ∃ a' ∈ em, a'.isX = true ∧ a'.lane = b.lane ∧ a'.ts ≤ b.ts ∧
        b.ts < a'.endOf ∧ a'.endOf < b.endOf) := by
  obtain ⟨st1, em, out2, g1, g2, g3⟩ := detectAll_append .tid next fuel pre (b :: post) _ _ _ h
  simp only [detectAll] at g2
  split at g2
  · cases g2
  rename_i st2 outb hstep
  split at g2
  · cases g2
  rename_i st3 outpost hrest
  injection g2 with g2; injection g2 with h1 h2; subst h1; subst h2
  unfold step at hstep
  rw [if_pos hx] at hstep
  obtain ⟨t, ht⟩ := detect_tid_shape next fuel st1 b st2 outb hstep
  subst ht
  obtain ⟨_, _, hef⟩ := detectAll_inv .tid next fuel pre Lanes.init [] st1 em Inv_init
    List.Pairwise.nil EndsFrom_init g1
  simp only [List.nil_append] at hef
  obtain ⟨hcur, hw⟩ := detect_moved_witness next fuel st1 b st2 _ hstep
  refine ⟨st1, em, { b with tid := t }, outpost, g1, by rw [g3]; simp, ?_⟩
  intro hne
  obtain ⟨x, hx', h1, h2⟩ := hw _ (by simp) hne
  obtain ⟨a, ha, k1, k2, k3, k4⟩ := hef _ x hx'
  exact ⟨a, ha, k1, k2, Rat.le_trans k4 hcur, by rw [k3]; exact h1, by rw [k3]; exact h2⟩

end AiuVerif.Overlap
