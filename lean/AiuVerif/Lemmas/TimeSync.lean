/-
Helper lemmas for C06: closed forms of `stage1` (cycle_count_to_wallclock) and `stage2`
(tighten_hts_by_instr_type) on a device slice with counters `[c1,…,c5]`.
-/
import AiuVerif.Model.TimeSync
import AiuVerif.Lemmas.PhaseName
import Mathlib.Tactic.Linarith
import Mathlib.Tactic.FieldSimp
import Mathlib.Tactic.Ring
import Mathlib.Tactic.SplitIfs
import Mathlib.Algebra.Order.Field.Rat
import Mathlib.Algebra.Order.Field.Basic

namespace AiuVerif.TimeSync
open AiuVerif.PhaseName

/-- counter at a 0-based index of `[c1,…,c5]` (indices ≥ 4 give TS5) -/
def nth5 (c1 c2 c3 c4 c5 : Int) : Nat → Int
  | 0 => c1
  | 1 => c2
  | 2 => c3
  | 3 => c4
  | _ => c5

variable {f : Rat} {e e1 o : Ev} {c1 c2 c3 c4 c5 : Int}

/-- stage 1 keeps the identity of the event, keeps its end, and moves the start to the projection of TS1 when
the counter `cvtRefIdx name` is anchored at the host end -/
theorem stage1_dev (hph : e.ph = "X") (htsx : e.tsx = some [c1, c2, c3, c4, c5]) (h : stage1 f e = .ok e1) :
    e1.ph = e.ph ∧ e1.name = e.name ∧ e1.tsx = e.tsx ∧ e1.ts + e1.dur = e.ts + e.dur ∧
      e1.ts = e.ts + e.dur - ((nth5 c1 c2 c3 c4 c5 (cvtRefIdx e.name) - c1 : Int) : Rat) / f := by
  unfold stage1 at h
  simp only [hph, htsx, conv5, bne_self_eq_false, Bool.false_eq_true, ↓reduceIte] at h
  rcases cvtRefIdx_mem e.name with hr | hr | hr | hr <;>
  · simp only [hr, List.map_cons, List.map_nil, List.getElem?_cons_succ, List.getElem?_cons_zero] at h
    split_ifs at h
    all_goals
      cases h
      refine ⟨hph.symm, rfl, htsx.symm, by simp only; ring, ?_⟩
      simp only [nth5, hr]
      push_cast
      ring

theorem stage2_dev_beg (hph : e1.ph = "X") (htsx : e1.tsx = some [c1, c2, c3, c4, c5]) (hop : opIds e1.name = [])
    (h : stage2 f e1 = .ok o) :
    o.ts = e1.ts ∧ o.dur = ((c5 - c1 : Int) : Rat) / f := by
  unfold stage2 at h
  simp only [hph, htsx, conv5, hop, bne_self_eq_false, Bool.false_eq_true, ↓reduceIte, List.map_cons, List.map_nil,
    List.getElem?_cons_succ, List.getElem?_cons_zero] at h
  cases h
  refine ⟨rfl, ?_⟩
  simp only
  push_cast
  ring

theorem stage2_dev_type {op : Nat} {rest : List Nat} (hph : e1.ph = "X") (htsx : e1.tsx = some [c1, c2, c3, c4, c5])
    (hop : opIds e1.name = op :: rest) (hop4 : op = 0 ∨ op = 1 ∨ op = 2 ∨ op = 3)
    (h : stage2 f e1 = .ok o) :
    o.ts + o.dur = e1.ts + e1.dur ∧
      o.dur = ((nth5 c1 c2 c3 c4 c5 (op + 1) - nth5 c1 c2 c3 c4 c5 op : Int) : Rat) / f := by
  unfold stage2 at h
  simp only [hph, htsx, conv5, hop, bne_self_eq_false, Bool.false_eq_true, ↓reduceIte, List.map_cons,
    List.map_nil] at h
  rcases hop4 with rfl | rfl | rfl | rfl <;>
  · simp only [List.getElem?_cons_succ, List.getElem?_cons_zero, Nat.reduceAdd] at h
    split_ifs at h
    cases h
    refine ⟨by simp only; ring, ?_⟩
    simp only [nth5]
    push_cast
    ring

theorem stage1_host (h : e.ph ≠ "X" ∨ e.tsx = none) : stage1 f e = .ok e := by
  unfold stage1
  by_cases hph : e.ph = "X"
  · rcases h with h | h
    · exact absurd hph h
    · simp [hph, h]
  · simp [hph]

theorem stage2_host (h : e.ph ≠ "X" ∨ e.tsx = none) : stage2 f e = .ok e := by
  unfold stage2
  by_cases hph : e.ph = "X"
  · rcases h with h | h
    · exact absurd hph h
    · simp [hph, h]
  · simp [hph]

theorem cdiv_le (hf : 0 < f) {a b : Int} (h : a ≤ b) : (a : Rat) / f ≤ (b : Rat) / f :=
  div_le_div_of_nonneg_right (by exact_mod_cast h) (le_of_lt hf)

theorem cdiv_lt_iff (hf : 0 < f) {a b : Int} : (a : Rat) / f < (b : Rat) / f ↔ a < b := by
  rw [div_lt_div_iff_of_pos_right hf]
  exact Int.cast_lt

end AiuVerif.TimeSync
