/- Helper lemmas about the PT-utilization model (`Model/Util.lean`). -/
import AiuVerif.Model.Util
import Mathlib.Algebra.Order.Field.Rat
import Mathlib.Algebra.BigOperators.Group.List.Basic
import Mathlib.Tactic.Linarith
import Mathlib.Tactic.FieldSimp
import Mathlib.Tactic.Ring
import Mathlib.Tactic.Abel
import Mathlib.Tactic.NormNum

namespace AiuVerif.Util

/-! ### association lists -/

theorem hasKey_eq_isSome {β : Type} (t : List (String × β)) (k : String) :
    hasKey t k = (lookup t k).isSome := by
  induction t with
  | nil => rfl
  | cons p rest ih =>
    simp only [hasKey] at ih
    by_cases h : (p.1 == k) = true
    · simp [hasKey, lookup, h]
    · simp [hasKey, lookup, h, ih]

theorem lookup_append {β : Type} (t : List (String × β)) (k' : String) (v : β) (k : String) :
    lookup (t ++ [(k', v)]) k = (lookup t k).or (if (k' == k) = true then some v else none) := by
  induction t with
  | nil => simp [lookup]
  | cons p rest ih =>
    by_cases h : (p.1 == k) = true
    · simp [lookup, h]
    · simp [lookup, h, ih]

/-! ### the cycle table and the category map are "first listing wins" -/

/-- cycles of the first row of kernel key `k` that lists a non-zero count -/
def firstNonzero (rows : List LogRow) (k : String) : Option Nat :=
  (rows.find? (fun r => keyOfRow r == k && r.cycles != 0)).map (fun r => r.cycles)

/-- category of the first row of kernel key `k` -/
def firstCat (rows : List LogRow) (k : String) : Option String :=
  (rows.find? (fun r => keyOfRow r == k)).map (fun r => handleCategory r.tag)

theorem lookup_addCycles (t : List (String × Nat)) (r : LogRow) (k : String) :
    lookup (addCycles t r) k =
      (lookup t k).or (if (keyOfRow r == k && r.cycles != 0) = true then some r.cycles else none) := by
  unfold addCycles
  by_cases hk : (keyOfRow r == k) = true
  · have hk' : keyOfRow r = k := by simpa using hk
    by_cases hh : hasKey t (keyOfRow r) = true
    · have : (lookup t k).isSome = true := by rw [← hasKey_eq_isSome, ← hk']; exact hh
      obtain ⟨v, hv⟩ := Option.isSome_iff_exists.mp this
      simp [hh, hv]
    · have hn : lookup t k = none := by
        have : (lookup t k).isSome = false := by
          rw [← hasKey_eq_isSome, ← hk']; simpa using hh
        simpa using this
      by_cases hc : r.cycles = 0
      · simp [hh, hc, hn]
      · simp [hh, hc, hn, lookup_append, hk]
  · by_cases hh : hasKey t (keyOfRow r) = true
    · simp [hh, hk]
    · by_cases hc : r.cycles = 0
      · simp [hh, hc, hk]
      · simp [hh, hc, hk, lookup_append]

theorem lookup_foldl_addCycles (rows : List LogRow) (t : List (String × Nat)) (k : String) :
    lookup (rows.foldl addCycles t) k = (lookup t k).or (firstNonzero rows k) := by
  induction rows generalizing t with
  | nil => simp [firstNonzero]
  | cons r rs ih =>
    simp only [List.foldl_cons, ih, lookup_addCycles, firstNonzero, List.find?_cons]
    by_cases h : (keyOfRow r == k && r.cycles != 0) = true
    · simp [h]
    · simp [h]

theorem getCycles_buildTable (rows : List LogRow) (k : String) :
    getCycles (buildTable rows) k = (firstNonzero rows k).getD 0 := by
  simp [getCycles, buildTable, lookup_foldl_addCycles, lookup]

theorem lookup_addCat (m : List (String × String)) (r : LogRow) (k : String) :
    lookup (addCat m r) k =
      (lookup m k).or (if (keyOfRow r == k) = true then some (handleCategory r.tag) else none) := by
  unfold addCat
  by_cases hk : (keyOfRow r == k) = true
  · have hk' : keyOfRow r = k := by simpa using hk
    by_cases hh : hasKey m (keyOfRow r) = true
    · have : (lookup m k).isSome = true := by rw [← hasKey_eq_isSome, ← hk']; exact hh
      obtain ⟨v, hv⟩ := Option.isSome_iff_exists.mp this
      simp [hh, hv]
    · have hn : lookup m k = none := by
        have : (lookup m k).isSome = false := by
          rw [← hasKey_eq_isSome, ← hk']; simpa using hh
        simpa using this
      simp [hh, hn, lookup_append, hk]
  · by_cases hh : hasKey m (keyOfRow r) = true
    · simp [hh, hk]
    · simp [hh, hk, lookup_append]

theorem lookup_foldl_addCat (rows : List LogRow) (m : List (String × String)) (k : String) :
    lookup (rows.foldl addCat m) k = (lookup m k).or (firstCat rows k) := by
  induction rows generalizing m with
  | nil => simp [firstCat]
  | cons r rs ih =>
    simp only [List.foldl_cons, ih, lookup_addCat, firstCat, List.find?_cons]
    by_cases h : (keyOfRow r == k) = true
    · simp [h]
    · simp [h]

theorem catOfKernel_buildCatMap (rows : List LogRow) (k : String) (hk : k ≠ "other") :
    catOfKernel (buildCatMap rows) k = (firstCat rows k).getD "other" := by
  have : ("other" == k) = false := by simpa using fun e : "other" = k => hk e.symm
  simp [catOfKernel, buildCatMap, lookup_foldl_addCat, lookup, this]

theorem mem_of_lookup {β : Type} (t : List (String × β)) (k : String) (v : β) (h : lookup t k = some v) :
    (k, v) ∈ t := by
  induction t with
  | nil => simp [lookup] at h
  | cons p rest ih =>
    by_cases hp : (p.1 == k) = true
    · have hk : p.1 = k := by simpa using hp
      simp only [lookup, hp, if_true, Option.some.injEq] at h
      have : p = (k, v) := by cases p; simp_all
      simp [this]
    · simp only [lookup, hp] at h
      exact List.mem_cons_of_mem _ (ih h)

/-- every category of the map is `other` or the category of some log row -/
theorem catmap_values (rows : List LogRow) (m : List (String × String))
    (hm : ∀ p ∈ m, p.2 = "other" ∨ ∃ r ∈ rows, p.2 = handleCategory r.tag) (rs : List LogRow)
    (hrs : ∀ r ∈ rs, r ∈ rows) :
    ∀ p ∈ rs.foldl addCat m, p.2 = "other" ∨ ∃ r ∈ rows, p.2 = handleCategory r.tag := by
  induction rs generalizing m with
  | nil => exact hm
  | cons r rs ih =>
    apply ih
    · intro p hp
      unfold addCat at hp
      split at hp
      · exact hm p hp
      · rcases List.mem_append.mp hp with h | h
        · exact hm p h
        · simp at h; subst h; exact Or.inr ⟨r, hrs r (by simp), rfl⟩
    · exact fun x hx => hrs x (by simp [hx])

/-- the category of any kernel name is `other` or the category of some log row -/
theorem catOfKernel_cases (rows : List LogRow) (k : String) :
    catOfKernel (buildCatMap rows) k = "other" ∨ ∃ r ∈ rows, catOfKernel (buildCatMap rows) k = handleCategory r.tag := by
  unfold catOfKernel
  cases h : lookup (buildCatMap rows) k with
  | none => exact Or.inl rfl
  | some v =>
    have hmem := mem_of_lookup _ _ _ h
    have := catmap_values rows [("other", "other")] (by simp) rows (fun r hr => hr) (k, v) hmem
    simpa using this

/-! ### category tables -/

def accAt (t : CTab) (c : String) : Acc := (lookup t c).getD Acc.zero

theorem Acc.zero_add' (a : Acc) : Acc.zero.add a = a := by
  cases a; simp [Acc.add, Acc.zero]

theorem accAt_bump (t : CTab) (c' : String) (a : Acc) (c : String) :
    accAt (bump t c' a) c = if c' = c then (accAt t c).add a else accAt t c := by
  induction t with
  | nil =>
    by_cases h : c' = c
    · simp [bump, accAt, lookup, h, Acc.zero_add']
    · simp [bump, accAt, lookup, h]
  | cons p rest ih =>
    simp only [accAt] at ih
    by_cases hp : p.1 = c'
    · by_cases h : c' = c
      · simp [bump, accAt, lookup, hp, h]
      · simp [bump, accAt, lookup, hp, h]
    · by_cases hpc : p.1 = c
      · have h : ¬ c' = c := fun e => hp (hpc.trans e.symm)
        have h' : ¬ c = c' := fun e => h e.symm
        simp [bump, accAt, lookup, hpc, h, h']
      · simp [bump, accAt, lookup, hp, hpc, ih]

theorem accAt_accumulate (t : CTab) (cat : String) (a : Acc) (c : String) :
    accAt (accumulate t cat a) c =
      if "Total" = c then (if cat = c then (accAt t c).add a else accAt t c).add a
      else if cat = c then (accAt t c).add a else accAt t c := by
  simp only [accumulate, accAt_bump]

theorem tabOf_setTab (init : CTab) (st : PTabs) (p : Int) (t : CTab) (q : Int) :
    tabOf init (setTab st p t) q = if p = q then t else tabOf init st q := by
  induction st with
  | nil => by_cases h : p = q <;> simp [setTab, tabOf, h]
  | cons x rest ih =>
    by_cases hx : x.1 = p
    · by_cases h : p = q
      · simp [setTab, tabOf, hx, h]
      · simp [setTab, tabOf, hx, h]
    · by_cases hxq : x.1 = q
      · have h : ¬ p = q := fun e => hx (hxq.trans e.symm)
        have h' : ¬ q = p := fun e => h e.symm
        simp [setTab, tabOf, hxq, h, h']
      · simp [setTab, tabOf, hx, hxq, ih]

/-- the table of pid `p` only sees the kernel slices of pid `p`, in order -/
theorem tabOf_foldl_step (env : Env) (ks : List UEv) (st : PTabs) (p : Int) :
    tabOf (initTab env.catmap) (ks.foldl (step env) st) p =
      (ks.filter (fun e => e.pid = p)).foldl (fun t e => accumulate t (catOf env e) (accOf env e))
        (tabOf (initTab env.catmap) st p) := by
  induction ks generalizing st with
  | nil => simp
  | cons e es ih =>
    simp only [List.foldl_cons, ih, step, tabOf_setTab]
    by_cases h : e.pid = p
    · simp [h]
    · simp [h]

/-- additive views of `Acc` (its three components) -/
structure View (β : Type) [AddCommMonoid β] where
  φ : Acc → β
  zero : φ Acc.zero = 0
  add : ∀ a b, φ (a.add b) = φ a + φ b

def viewDur : View Rat := ⟨fun a => a.dur, rfl, fun _ _ => rfl⟩
def viewIdeal : View Rat := ⟨fun a => a.ideal, rfl, fun _ _ => rfl⟩
def viewCalls : View Nat := ⟨fun a => a.calls, rfl, fun _ _ => rfl⟩

theorem view_accAt_foldl {β : Type} [AddCommMonoid β] (v : View β) (cat : UEv → String) (acc : UEv → Acc)
    (es : List UEv) (t : CTab) (c : String) :
    v.φ (accAt (es.foldl (fun t e => accumulate t (cat e) (acc e)) t) c) =
      v.φ (accAt t c) + ((es.filter (fun e => cat e = c)).map (fun e => v.φ (acc e))).sum +
        (if "Total" = c then (es.map (fun e => v.φ (acc e))).sum else 0) := by
  induction es generalizing t with
  | nil => simp
  | cons e es ih =>
    simp only [List.foldl_cons, ih, accAt_accumulate]
    by_cases hT : "Total" = c
    · by_cases hc : cat e = c
      · simp only [hT, hc, if_true, v.add, List.filter_cons, decide_true, List.map_cons, List.sum_cons]; abel
      · simp only [hT, hc, if_true, if_false, v.add, List.filter_cons, decide_false, List.map_cons, List.sum_cons]
        simp; abel
    · by_cases hc : cat e = c
      · simp only [hT, hc, if_true, if_false, v.add, List.filter_cons, decide_true, List.map_cons, List.sum_cons]
        simp; abel
      · simp [hT, hc]

/-- sum of a view over all rows but `Total` -/
def sumOthers {β : Type} [AddCommMonoid β] (v : View β) (t : CTab) : β :=
  ((t.filter (fun p => p.1 ≠ "Total")).map (fun p => v.φ p.2)).sum

theorem sumOthers_cons {β : Type} [AddCommMonoid β] (v : View β) (p : String × Acc) (rest : CTab) :
    sumOthers v (p :: rest) = (if p.1 = "Total" then 0 else v.φ p.2) + sumOthers v rest := by
  by_cases h : p.1 = "Total" <;> simp [sumOthers, h]

theorem sumOthers_bump {β : Type} [AddCommMonoid β] (v : View β) (t : CTab) (c : String) (a : Acc) :
    sumOthers v (bump t c a) = sumOthers v t + (if c = "Total" then 0 else v.φ a) := by
  induction t with
  | nil =>
    by_cases h : c = "Total" <;> simp [bump, sumOthers, h]
  | cons p rest ih =>
    by_cases hp : p.1 = c
    · have hb : bump (p :: rest) c a = (p.1, p.2.add a) :: rest := by simp [bump, hp]
      rw [hb, sumOthers_cons, sumOthers_cons]
      by_cases h : c = "Total"
      · have : p.1 = "Total" := hp.trans h
        simp [h, this]
      · have : ¬ p.1 = "Total" := fun e => h (hp.symm.trans e)
        simp only [h, this, if_false, v.add]; abel
    · have hb : bump (p :: rest) c a = p :: bump rest c a := by simp [bump, hp]
      rw [hb, sumOthers_cons, sumOthers_cons, ih]; abel

theorem hasKey_cons {β : Type} (p : String × β) (rest : List (String × β)) (c : String) :
    hasKey (p :: rest) c = (p.1 == c || hasKey rest c) := rfl

theorem keysOf_bump (t : CTab) (c : String) (a : Acc) :
    (bump t c a).map (fun p => p.1) =
      if hasKey t c = true then t.map (fun p => p.1) else t.map (fun p => p.1) ++ [c] := by
  induction t with
  | nil => simp [bump, hasKey]
  | cons p rest ih =>
    by_cases hp : p.1 = c
    · simp [bump, hasKey_cons, hp]
    · have hb : bump (p :: rest) c a = p :: bump rest c a := by simp [bump, hp]
      rw [hb, List.map_cons, ih, hasKey_cons]
      by_cases hh : hasKey rest c = true
      · simp [hh]
      · simp [hh, hp]

theorem nodup_keys_bump (t : CTab) (c : String) (a : Acc) (h : (t.map (fun p => p.1)).Nodup) :
    ((bump t c a).map (fun p => p.1)).Nodup := by
  rw [keysOf_bump]
  split
  · exact h
  · rename_i hn
    refine List.nodup_append.mpr ⟨h, by simp, ?_⟩
    intro x hx y hy
    simp at hy
    subst hy
    intro e
    subst e
    apply hn
    simp only [hasKey, List.any_eq_true, beq_iff_eq]
    obtain ⟨p, hp, hpx⟩ := List.mem_map.mp hx
    exact ⟨p, hp, hpx⟩

theorem addKey_keys (t : CTab) (c : String) (h : (t.map (fun p => p.1)).Nodup) (hz : ∀ p ∈ t, p.2 = Acc.zero) :
    ((addKey t c).map (fun p => p.1)).Nodup ∧ ∀ p ∈ addKey t c, p.2 = Acc.zero := by
  unfold addKey
  split
  · exact ⟨h, hz⟩
  · rename_i hn
    constructor
    · rw [List.map_append]
      refine List.nodup_append.mpr ⟨h, by simp, ?_⟩
      intro x hx y hy
      simp at hy
      subst hy
      intro e
      subst e
      apply hn
      simp only [hasKey, List.any_eq_true, beq_iff_eq]
      obtain ⟨p, hp, hpx⟩ := List.mem_map.mp hx
      exact ⟨p, hp, hpx⟩
    · intro p hp
      rcases List.mem_append.mp hp with h1 | h1
      · exact hz p h1
      · simp at h1; subst h1; rfl

theorem initTab_spec (m : List (String × String)) :
    ((initTab m).map (fun p => p.1)).Nodup ∧ ∀ p ∈ initTab m, p.2 = Acc.zero := by
  unfold initTab
  generalize (["Total", "StcdpHbm"] ++ m.map (fun p => p.2)) = cs
  have : ∀ (t : CTab), (t.map (fun p => p.1)).Nodup → (∀ p ∈ t, p.2 = Acc.zero) →
      ((cs.foldl addKey t).map (fun p => p.1)).Nodup ∧ ∀ p ∈ cs.foldl addKey t, p.2 = Acc.zero := by
    induction cs with
    | nil => intro t h1 h2; exact ⟨h1, h2⟩
    | cons c cs ih =>
      intro t h1 h2
      obtain ⟨h3, h4⟩ := addKey_keys t c h1 h2
      exact ih _ h3 h4
  exact this [] (by simp) (by simp)

theorem sumOthers_zero {β : Type} [AddCommMonoid β] (v : View β) (t : CTab) (hz : ∀ p ∈ t, p.2 = Acc.zero) :
    sumOthers v t = 0 := by
  induction t with
  | nil => simp [sumOthers]
  | cons p rest ih =>
    have h1 := hz p (by simp)
    have h2 := ih (fun q hq => hz q (by simp [hq]))
    rw [sumOthers_cons, h2, h1, v.zero]
    simp

theorem accAt_zero (t : CTab) (hz : ∀ p ∈ t, p.2 = Acc.zero) (c : String) : accAt t c = Acc.zero := by
  induction t with
  | nil => simp [accAt, lookup]
  | cons p rest ih =>
    have h1 := hz p (by simp)
    have h2 := ih (fun q hq => hz q (by simp [hq]))
    simp only [accAt] at h2
    by_cases hp : p.1 = c
    · simp [accAt, lookup, hp, h1]
    · simp [accAt, lookup, hp, h2]

/-- **fold invariant**: as long as no accumulated slice has the category `Total`, the `Total` entry is the
sum of all other entries, and the keys stay pairwise distinct -/
theorem total_invariant {β : Type} [AddCommMonoid β] (v : View β) (cat : UEv → String) (acc : UEv → Acc)
    (es : List UEv) (hcat : ∀ e ∈ es, cat e ≠ "Total") (t : CTab)
    (hinv : v.φ (accAt t "Total") = sumOthers v t) :
    v.φ (accAt (es.foldl (fun t e => accumulate t (cat e) (acc e)) t) "Total") =
      sumOthers v (es.foldl (fun t e => accumulate t (cat e) (acc e)) t) := by
  induction es generalizing t with
  | nil => simpa using hinv
  | cons e es ih =>
    simp only [List.foldl_cons]
    apply ih (fun x hx => hcat x (by simp [hx]))
    have hc : cat e ≠ "Total" := hcat e (by simp)
    simp only [accumulate, sumOthers_bump, accAt_bump, hc, if_false, if_true, v.add, hinv, add_zero]

theorem nodup_keys_foldl (cat : UEv → String) (acc : UEv → Acc) (es : List UEv) (t : CTab)
    (h : (t.map (fun p => p.1)).Nodup) :
    ((es.foldl (fun t e => accumulate t (cat e) (acc e)) t).map (fun p => p.1)).Nodup := by
  induction es generalizing t with
  | nil => exact h
  | cons e es ih =>
    simp only [List.foldl_cons]
    exact ih _ (nodup_keys_bump _ _ _ (nodup_keys_bump _ _ _ h))

/-- with pairwise distinct keys the entry found by `lookup` is the entry itself -/
theorem accAt_of_mem (t : CTab) (h : (t.map (fun p => p.1)).Nodup) (p : String × Acc) (hp : p ∈ t) :
    accAt t p.1 = p.2 := by
  induction t with
  | nil => simp at hp
  | cons q rest ih =>
    simp only [List.map_cons, List.nodup_cons] at h
    rcases List.mem_cons.mp hp with rfl | hmem
    · simp [accAt, lookup]
    · have hne : ¬ q.1 = p.1 := fun e => h.1 (e ▸ List.mem_map_of_mem (f := fun p => p.1) hmem)
      have := ih h.2 hmem
      simp only [accAt] at this
      simp [accAt, lookup, hne, this]

/-! ### utilization arithmetic -/

theorem absR_of_nonneg (x : Rat) (h : 0 ≤ x) : absR x = x := by
  unfold absR
  split
  · linarith
  · rfl

theorem tiny_false_of_gt (x : Rat) (h : 1 / 1000000000 < x) : tiny x = false := by
  have h0 : (0 : Rat) < 1 / 1000000000 := by norm_num
  have : absR x = x := absR_of_nonneg x (by linarith)
  simp only [tiny, this, decide_eq_false_iff_not, not_le]
  exact h

/-! ### the per-rank tables have pairwise distinct pids -/

theorem setTab_keys (st : PTabs) (p : Int) (t : CTab) :
    (setTab st p t).map (fun q => q.1) =
      if p ∈ st.map (fun q => q.1) then st.map (fun q => q.1) else st.map (fun q => q.1) ++ [p] := by
  induction st with
  | nil => simp [setTab]
  | cons x rest ih =>
    by_cases hx : x.1 = p
    · simp [setTab, hx]
    · have hx' : ¬ p = x.1 := fun e => hx e.symm
      have hb : setTab (x :: rest) p t = x :: setTab rest p t := by simp [setTab, hx]
      rw [hb, List.map_cons, ih]
      by_cases hm : p ∈ rest.map (fun q => q.1)
      · simp [hm]
      · simp [hm, hx']

theorem nodup_setTab (st : PTabs) (p : Int) (t : CTab) (h : (st.map (fun q => q.1)).Nodup) :
    ((setTab st p t).map (fun q => q.1)).Nodup := by
  rw [setTab_keys]
  split
  · exact h
  · rename_i hn
    refine List.nodup_append.mpr ⟨h, by simp, ?_⟩
    intro x hx y hy
    simp at hy
    subst hy
    exact fun e => hn (e ▸ hx)

theorem nodup_pids_tables (env : Env) (ks : List UEv) (st : PTabs) (h : (st.map (fun q => q.1)).Nodup) :
    ((ks.foldl (step env) st).map (fun q => q.1)).Nodup := by
  induction ks generalizing st with
  | nil => exact h
  | cons e es ih => exact ih _ (nodup_setTab _ _ _ h)

theorem tabOf_of_mem (init : CTab) (st : PTabs) (h : (st.map (fun q => q.1)).Nodup) (q : Int × CTab)
    (hq : q ∈ st) : tabOf init st q.1 = q.2 := by
  induction st with
  | nil => simp at hq
  | cons x rest ih =>
    simp only [List.map_cons, List.nodup_cons] at h
    rcases List.mem_cons.mp hq with rfl | hmem
    · simp [tabOf]
    · have hne : ¬ x.1 = q.1 := fun e => h.1 (e ▸ List.mem_map_of_mem (f := fun q => q.1) hmem)
      simp [tabOf, hne, ih h.2 hmem]

theorem sum_map_cast_mul (S : List UEv) (n : UEv → Nat) (k : Rat) :
    (S.map (fun e => (n e : Rat) * k)).sum = (((S.map n).sum : Nat) : Rat) * k := by
  induction S with
  | nil => simp
  | cons e es ih => simp only [List.map_cons, List.sum_cons, ih]; push_cast; ring

/-! ### name expansion (`[N]` + `fn_idx`) -/

theorem replaceFirst_spec (pat rep : List Char) (hpat : pat ≠ []) (pre post : List Char)
    (hfirst : ∀ k, k < pre.length → pat.isPrefixOf ((pre ++ pat ++ post).drop k) = false) :
    replaceFirst pat rep (pre ++ pat ++ post) = pre ++ rep ++ post := by
  induction pre with
  | nil =>
    cases pat with
    | nil => exact absurd rfl hpat
    | cons c cs =>
      have hp : (c :: cs).isPrefixOf (c :: (cs ++ post)) = true :=
        List.isPrefixOf_iff_prefix.mpr (List.prefix_append (c :: cs) post)
      have hd : (c :: (cs ++ post)).drop (c :: cs).length = post := by
        have := List.drop_left (l₁ := c :: cs) (l₂ := post)
        simpa using this
      show replaceFirst (c :: cs) rep (c :: (cs ++ post)) = rep ++ post
      simp only [replaceFirst, hp, if_true, hd]
  | cons a pre ih =>
    have h0 := hfirst 0 (by simp)
    simp only [List.drop_zero] at h0
    have hstep : replaceFirst pat rep (a :: (pre ++ pat ++ post)) = a :: replaceFirst pat rep (pre ++ pat ++ post) := by
      have h0' : pat.isPrefixOf (a :: (pre ++ pat ++ post)) = false := by simpa using h0
      simp only [replaceFirst, h0', Bool.false_eq_true, if_false]
    have := ih (fun k hk => by
      have := hfirst (k + 1) (by simp; omega)
      simpa using this)
    simp only [List.cons_append] at hstep ⊢
    rw [hstep, this]

theorem endsWithChars_append (suf x post : List Char) (h : endsWithChars suf post = true) :
    endsWithChars suf (x ++ post) = true := by
  unfold endsWithChars at *
  rw [List.reverse_append]
  exact List.isPrefixOf_iff_prefix.mpr
    ((List.isPrefixOf_iff_prefix.mp h).trans (List.prefix_append _ _))

end AiuVerif.Util
