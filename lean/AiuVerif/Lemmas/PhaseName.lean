/-
Lemmas about the keyword tests of `Model/PhaseName.lean`: substring / suffix tests over `List Char` and the
relations between the blank-led and blank-free keywords that the four tables of the code use.
-/
import AiuVerif.Model.PhaseName

namespace AiuVerif.PhaseName

theorem hasSubL_iff (p : List Char) : ∀ s : List Char, hasSubL p s = true ↔ p <:+: s
  | [] => by simp [hasSubL]
  | a :: cs => by
    rw [hasSubL, Bool.or_eq_true, List.isPrefixOf_iff_prefix, hasSubL_iff p cs, List.infix_cons_iff]

/-- a pattern that occurs also occurs without its first character -/
theorem hasSubL_of_cons {c : Char} {p s : List Char} (h : hasSubL (c :: p) s = true) : hasSubL p s = true := by
  rw [hasSubL_iff] at *
  exact List.IsInfix.trans (List.suffix_cons c p).isInfix h

theorem isSuffixOf_of_cons {c : Char} {p s : List Char} (h : (c :: p).isSuffixOf s = true) :
    p.isSuffixOf s = true := by
  rw [List.isSuffixOf_iff_suffix] at *
  exact List.IsSuffix.trans (List.suffix_cons c p) h

/-- `s.endswith(p)` implies `p in s` -/
theorem hasSubL_of_isSuffixOf {p s : List Char} (h : p.isSuffixOf s = true) : hasSubL p s = true := by
  rw [hasSubL_iff]
  rw [List.isSuffixOf_iff_suffix] at h
  exact h.isInfix

theorem not_isSuffixOf_of_not_hasSubL {p s : List Char} (h : hasSubL p s = false) : p.isSuffixOf s = false := by
  cases hs : p.isSuffixOf s with
  | false => rfl
  | true => rw [hasSubL_of_isSuffixOf hs] at h; exact absurd h (by decide)

theorem not_hasSubL_cons {c : Char} {p s : List Char} (h : hasSubL p s = false) : hasSubL (c :: p) s = false := by
  cases hs : hasSubL (c :: p) s with
  | false => rfl
  | true => rw [hasSubL_of_cons hs] at h; exact absurd h (by decide)

/-- blank-led keyword `i` as the code spells it in `_get_ref_ts` / `_match_opIds_from_event` -/
def kwB : Nat → String
  | 0 => " DmaI"
  | 1 => " Cmpt Prep"
  | 2 => " Cmpt Exec"
  | _ => " DmaO"

/-- blank-free keyword `i` as `FlexEventMapToTS` and the statement spell it -/
def kwNB : Nat → String
  | 0 => "DmaI"
  | 1 => "Cmpt Prep"
  | 2 => "Cmpt Exec"
  | _ => "DmaO"

theorem kwB_toList (i : Nat) : (kwB i).toList = ' ' :: (kwNB i).toList := by
  match i with
  | 0 => decide
  | 1 => decide
  | 2 => decide
  | _ + 3 => simp only [kwB, kwNB]; decide

/-- exactly one phase keyword, as a blank-separated suffix -/
def Canonical (n : String) (i : Nat) : Prop :=
  endsW n (kwB i) = true ∧ ∀ j, j < 4 → j ≠ i → hasSub n (kwNB j) = false

/-- no phase keyword at all -/
def KeywordFree (n : String) : Prop := ∀ j, j < 4 → hasSub n (kwNB j) = false

/-- all Boolean keyword tests of the four tables, for a canonical name -/
theorem canonical_facts {n : String} {i : Nat} (h : Canonical n i) :
    endsW n (kwB i) = true ∧ endsW n (kwNB i) = true ∧ hasSub n (kwB i) = true ∧ hasSub n (kwNB i) = true ∧
    ∀ j, j < 4 → j ≠ i →
      endsW n (kwB j) = false ∧ endsW n (kwNB j) = false ∧ hasSub n (kwB j) = false ∧ hasSub n (kwNB j) = false := by
  obtain ⟨he, hno⟩ := h
  have he' : (' ' :: (kwNB i).toList).isSuffixOf n.toList = true := by
    rw [← kwB_toList]; exact he
  refine ⟨he, isSuffixOf_of_cons he', ?_, hasSubL_of_cons (hasSubL_of_isSuffixOf he'), ?_⟩
  · unfold hasSub; rw [kwB_toList]; exact hasSubL_of_isSuffixOf he'
  · intro j hj hji
    have h0 : hasSubL (kwNB j).toList n.toList = false := hno j hj hji
    have h1 : hasSubL (' ' :: (kwNB j).toList) n.toList = false := not_hasSubL_cons h0
    refine ⟨?_, not_isSuffixOf_of_not_hasSubL h0, ?_, h0⟩
    · unfold endsW; rw [kwB_toList]; exact not_isSuffixOf_of_not_hasSubL h1
    · unfold hasSub; rw [kwB_toList]; exact h1

theorem keywordFree_facts {n : String} (h : KeywordFree n) :
    ∀ j, j < 4 →
      endsW n (kwB j) = false ∧ endsW n (kwNB j) = false ∧ hasSub n (kwB j) = false ∧ hasSub n (kwNB j) = false := by
  intro j hj
  have h0 : hasSubL (kwNB j).toList n.toList = false := h j hj
  have h1 : hasSubL (' ' :: (kwNB j).toList) n.toList = false := not_hasSubL_cons h0
  refine ⟨?_, not_isSuffixOf_of_not_hasSubL h0, ?_, h0⟩
  · unfold endsW; rw [kwB_toList]; exact not_isSuffixOf_of_not_hasSubL h1
  · unfold hasSub; rw [kwB_toList]; exact h1

/-- a DMA slice in the sense of the FLEX dialect (`is.name; DmaI`, `is.name; DmaO`: unanchored): the blank-led
keyword `i ∈ {0 = DmaI, 3 = DmaO}` occurs somewhere in the name and no keyword of another phase occurs -/
def MidnameDma (n : String) (i : Nat) : Prop :=
  (i = 0 ∨ i = 3) ∧ hasSub n (kwB i) = true ∧ ∀ j, j < 4 → j ≠ i → hasSub n (kwNB j) = false

theorem midnameDma_facts {n : String} {i : Nat} (h : MidnameDma n i) :
    hasSub n (kwB i) = true ∧ ∀ j, j < 4 → j ≠ i → hasSub n (kwB j) = false ∧ endsW n (kwNB j) = false := by
  obtain ⟨_, hin, hno⟩ := h
  refine ⟨hin, ?_⟩
  intro j hj hji
  have h0 : hasSubL (kwNB j).toList n.toList = false := hno j hj hji
  refine ⟨?_, not_isSuffixOf_of_not_hasSubL h0⟩
  unfold hasSub; rw [kwB_toList]; exact not_hasSubL_cons h0

/-- `_convert_cycle_timestamps` only ever anchors TS2..TS5 -/
theorem cvtRefIdx_mem (n : String) : cvtRefIdx n = 1 ∨ cvtRefIdx n = 2 ∨ cvtRefIdx n = 3 ∨ cvtRefIdx n = 4 := by
  unfold cvtRefIdx
  simp only
  split
  · simp
  · split
    · simp
    · split <;> simp

/-- the first matching keyword index is one of 0..3 -/
theorem opIds_head (n : String) :
    opIds n = [] ∨ ∃ op rest, opIds n = op :: rest ∧ (op = 0 ∨ op = 1 ∨ op = 2 ∨ op = 3) := by
  unfold opIds
  by_cases h0 : hasSub n " DmaI" = true
  · right; exact ⟨0, _, by simp [h0]; rfl, Or.inl rfl⟩
  · by_cases h1 : hasSub n " Cmpt Prep" = true
    · right; exact ⟨1, _, by simp [h0, h1]; rfl, Or.inr (Or.inl rfl)⟩
    · by_cases h2 : hasSub n " Cmpt Exec" = true
      · right; exact ⟨2, _, by simp [h0, h1, h2]; rfl, Or.inr (Or.inr (Or.inl rfl))⟩
      · by_cases h3 : hasSub n " DmaO" = true
        · right; exact ⟨3, [], by simp [h0, h1, h2, h3], Or.inr (Or.inr (Or.inr rfl))⟩
        · left; simp [h0, h1, h2, h3]

end AiuVerif.PhaseName
