/- Helper lemmas about the flow model (core Lean only). -/
import AiuVerif.Model.Flow

namespace AiuVerif.Flow

/-! ### `Except` plumbing -/

theorem bind_ok {ε α β : Type} {x : Except ε α} {f : α → Except ε β} {b : β} :
    (x >>= f) = .ok b ↔ ∃ a, x = .ok a ∧ f a = .ok b := by
  cases x <;> simp [bind, Except.bind]

theorem pure_ok {ε α : Type} {a b : α} : (pure a : Except ε α) = .ok b ↔ a = b := by
  simp [pure, Except.pure]

theorem throw_ne_ok {ε α : Type} {e : ε} {b : α} : (throw e : Except ε α) ≠ .ok b := by
  simp [throw, throwThe, MonadExceptOf.throw]

/-! ### flow events, the id counter invariant -/

/-- a flow event (`ph` is `s` or `f`) -/
def isFlow (e : Ev) : Prop := e.ph = "s" ∨ e.ph = "f"

instance (e : Ev) : Decidable (isFlow e) := by unfold isFlow; infer_instance

/-- number of `s` events carrying flow id `k` -/
def cS (k : Nat) (l : List Ev) : Nat := l.countP (fun e => decide (e.ph = "s") && decide (e.id = some k))
/-- number of `f` events carrying flow id `k` -/
def cF (k : Nat) (l : List Ev) : Nat := l.countP (fun e => decide (e.ph = "f") && decide (e.id = some k))

theorem cS_append (k : Nat) (a b : List Ev) : cS k (a ++ b) = cS k a + cS k b := by simp [cS]
theorem cF_append (k : Nat) (a b : List Ev) : cF k (a ++ b) = cF k a + cF k b := by simp [cF]

theorem cS_pos {k : Nat} {l : List Ev} : 0 < cS k l ↔ ∃ e ∈ l, e.ph = "s" ∧ e.id = some k := by
  simp [cS, List.countP_pos_iff]
theorem cF_pos {k : Nat} {l : List Ev} : 0 < cF k l ↔ ∃ e ∈ l, e.ph = "f" ∧ e.id = some k := by
  simp [cF, List.countP_pos_iff]

/-- all flow ids of `l` lie in `(lo, hi]`, each id is on as many `s` as `f` events and at most one of each,
and events sharing an id share the name -/
structure Good (lo hi : Nat) (l : List Ev) : Prop where
  range : ∀ e ∈ l, isFlow e → ∃ k, e.id = some k ∧ lo < k ∧ k ≤ hi
  bal : ∀ k, cS k l = cF k l ∧ cS k l ≤ 1
  name : ∀ e ∈ l, ∀ e' ∈ l, isFlow e → isFlow e' → e.id = e'.id → e.name = e'.name

theorem Good.zero_of_out {lo hi : Nat} {l : List Ev} (h : Good lo hi l) {k : Nat} (hk : k ≤ lo ∨ hi < k) :
    cS k l = 0 ∧ cF k l = 0 := by
  constructor
  · apply Nat.eq_zero_of_not_pos
    intro hp
    obtain ⟨e, he, hs, hid⟩ := cS_pos.mp hp
    obtain ⟨k', hk', h1, h2⟩ := h.range e he (Or.inl hs)
    rw [hid] at hk'; cases hk'; omega
  · apply Nat.eq_zero_of_not_pos
    intro hp
    obtain ⟨e, he, hs, hid⟩ := cF_pos.mp hp
    obtain ⟨k', hk', h1, h2⟩ := h.range e he (Or.inr hs)
    rw [hid] at hk'; cases hk'; omega

theorem Good.nil (n : Nat) : Good n n [] :=
  ⟨by simp, by simp [cS, cF], by simp⟩

theorem Good.mono {lo hi lo' hi' : Nat} {l : List Ev} (h : Good lo hi l) (h1 : lo' ≤ lo) (h2 : hi ≤ hi') :
    Good lo' hi' l :=
  ⟨fun e he hf => by obtain ⟨k, a, b, c⟩ := h.range e he hf; exact ⟨k, a, by omega, by omega⟩, h.bal, h.name⟩

theorem Good.le {lo hi : Nat} {l : List Ev} (h : Good lo hi l) (hne : ∃ e ∈ l, isFlow e) : lo < hi := by
  obtain ⟨e, he, hf⟩ := hne
  obtain ⟨k, _, a, b⟩ := h.range e he hf
  omega

theorem Good.append {a b c : Nat} {l1 l2 : List Ev} (h1 : Good a b l1) (h2 : Good b c l2) (hab : a ≤ b) (hbc : b ≤ c) :
    Good a c (l1 ++ l2) := by
  refine ⟨?_, ?_, ?_⟩
  · intro e he hf
    rcases List.mem_append.mp he with he | he
    · obtain ⟨k, x, y, z⟩ := h1.range e he hf; exact ⟨k, x, y, by omega⟩
    · obtain ⟨k, x, y, z⟩ := h2.range e he hf; exact ⟨k, x, by omega, z⟩
  · intro k
    rw [cS_append, cF_append]
    by_cases hk : k ≤ b
    · have z := h2.zero_of_out (k := k) (Or.inl hk)
      have := h1.bal k
      omega
    · have z := h1.zero_of_out (k := k) (Or.inr (by omega))
      have := h2.bal k
      omega
  · intro e he e' he' hf hf' hid
    rcases List.mem_append.mp he with he | he <;> rcases List.mem_append.mp he' with he' | he'
    · exact h1.name e he e' he' hf hf' hid
    · obtain ⟨k, x, y, z⟩ := h1.range e he hf
      obtain ⟨k', x', y', z'⟩ := h2.range e' he' hf'
      rw [x, x'] at hid; cases hid; omega
    · obtain ⟨k, x, y, z⟩ := h2.range e he hf
      obtain ⟨k', x', y', z'⟩ := h1.range e' he' hf'
      rw [x, x'] at hid; cases hid; omega
    · exact h2.name e he e' he' hf hf' hid

theorem Good.perm {lo hi : Nat} {l1 l2 : List Ev} (p : l1.Perm l2) (h : Good lo hi l1) : Good lo hi l2 := by
  refine ⟨?_, ?_, ?_⟩
  · intro e he hf; exact h.range e (p.mem_iff.mpr he) hf
  · intro k
    have a : cS k l2 = cS k l1 := (p.countP_eq _).symm
    have b : cF k l2 = cF k l1 := (p.countP_eq _).symm
    rw [a, b]; exact h.bal k
  · intro e he e' he' hf hf' hid
    exact h.name e (p.mem_iff.mpr he) e' (p.mem_iff.mpr he') hf hf' hid

theorem Good.single {n : Nat} {e : Ev} (h : ¬ isFlow e) : Good n n [e] := by
  have hs : e.ph ≠ "s" := fun x => h (Or.inl x)
  have hf : e.ph ≠ "f" := fun x => h (Or.inr x)
  refine ⟨?_, ?_, ?_⟩
  · intro e' he' hf'; simp at he'; subst he'; exact absurd hf' h
  · intro k; simp [cS, cF, hs, hf]
  · intro a ha b hb fa; simp at ha; subst ha; exact absurd fa h

theorem Good.filter {lo hi : Nat} {l : List Ev} (p : Ev → Bool) (hp : ∀ e, isFlow e → p e = true)
    (h : Good lo hi l) : Good lo hi (l.filter p) := by
  have key : ∀ k, cS k (l.filter p) = cS k l ∧ cF k (l.filter p) = cF k l := by
    intro k
    constructor
    · simp only [cS, List.countP_filter]
      apply List.countP_congr
      intro e _
      by_cases hs : e.ph = "s"
      · simp [hs, hp e (Or.inl hs)]
      · simp [hs]
    · simp only [cF, List.countP_filter]
      apply List.countP_congr
      intro e _
      by_cases hs : e.ph = "f"
      · simp [hs, hp e (Or.inr hs)]
      · simp [hs]
  refine ⟨?_, ?_, ?_⟩
  · intro e he hf; exact h.range e (List.mem_filter.mp he).1 hf
  · intro k; rw [(key k).1, (key k).2]; exact h.bal k
  · intro e he e' he' hf hf' hid
    exact h.name e (List.mem_filter.mp he).1 e' (List.mem_filter.mp he').1 hf hf' hid

/-- the statement of the id clause: every flow event carries an id that is on exactly one `s` and one
`f` event, and all flow events with that id carry the same name -/
def PairedIds (l : List Ev) : Prop :=
  ∀ e ∈ l, isFlow e → ∃ k, e.id = some k ∧ cS k l = 1 ∧ cF k l = 1 ∧
    ∀ e' ∈ l, isFlow e' → e'.id = some k → e'.name = e.name

theorem Good.paired {lo hi : Nat} {l : List Ev} (h : Good lo hi l) : PairedIds l := by
  intro e he hf
  obtain ⟨k, hk, _, _⟩ := h.range e he hf
  refine ⟨k, hk, ?_, ?_, ?_⟩
  · have b := h.bal k
    rcases hf with hs | hs
    · have : 0 < cS k l := cS_pos.mpr ⟨e, he, hs, hk⟩
      omega
    · have : 0 < cF k l := cF_pos.mpr ⟨e, he, hs, hk⟩
      omega
  · have b := h.bal k
    rcases hf with hs | hs
    · have : 0 < cS k l := cS_pos.mpr ⟨e, he, hs, hk⟩
      omega
    · have : 0 < cF k l := cF_pos.mpr ⟨e, he, hs, hk⟩
      omega
  · intro e' he' hf' hk'
    exact h.name e' he' e he hf' hf (by rw [hk, hk'])

/-! ### stable insertion sort is a permutation -/

theorem insertTs_perm (x : Ev) (l : List Ev) : (insertTs x l).Perm (x :: l) := by
  induction l with
  | nil => exact List.Perm.refl _
  | cons y ys ih =>
    simp only [insertTs]
    split
    · exact List.Perm.refl _
    · exact (List.Perm.cons y ih).trans (List.Perm.swap x y ys)

theorem sortTs_perm (l : List Ev) : (sortTs l).Perm l := by
  induction l with
  | nil => exact List.Perm.refl _
  | cons x xs ih => exact (insertTs_perm x (sortTs xs)).trans (List.Perm.cons x ih)

/-! ### group bookkeeping -/

theorem findGrp_mem {k : String} {gs : List Grp} {g : Grp} (h : findGrp k gs = some g) : g ∈ gs := by
  induction gs with
  | nil => simp [findGrp] at h
  | cons a as ih =>
    simp only [findGrp] at h
    split at h
    · cases h; simp
    · exact List.mem_cons_of_mem _ (ih h)

theorem mem_removeGrp {k : String} {gs : List Grp} {g : Grp} (h : g ∈ removeGrp k gs) : g ∈ gs := by
  induction gs with
  | nil => simp [removeGrp] at h
  | cons a as ih =>
    simp only [removeGrp] at h
    split at h
    · exact List.mem_cons_of_mem _ h
    · rcases List.mem_cons.mp h with h | h
      · subst h; simp
      · exact List.mem_cons_of_mem _ (ih h)

theorem mem_addTo {q : Q} {gs : List Grp} {g : Grp} (h : g ∈ addTo q gs) :
    ∀ q' ∈ g.queue, q' = q ∨ ∃ g0 ∈ gs, q' ∈ g0.queue := by
  induction gs with
  | nil =>
    simp only [addTo, List.mem_singleton] at h
    subst h
    intro q' hq'
    simp [Grp.add] at hq'
    exact Or.inl hq'
  | cons a as ih =>
    simp only [addTo] at h
    split at h
    · rcases List.mem_cons.mp h with h | h
      · subst h
        intro q' hq'
        simp only [Grp.add, List.mem_append, List.mem_singleton] at hq'
        rcases hq' with hq' | hq'
        · exact Or.inr ⟨a, by simp, hq'⟩
        · exact Or.inl hq'
      · intro q' hq'; exact Or.inr ⟨g, List.mem_cons_of_mem _ h, hq'⟩
    · rcases List.mem_cons.mp h with h | h
      · subst h; intro q' hq'; exact Or.inr ⟨g, by simp, hq'⟩
      · intro q' hq'
        rcases ih h q' hq' with r | ⟨g0, hg0, r⟩
        · exact Or.inl r
        · exact Or.inr ⟨g0, List.mem_cons_of_mem _ hg0, r⟩

/-! ### one induction through the state machine, for any output invariant -/

/-- An output invariant `Φ lo hi out` (ids in `(lo, hi]`) that is closed under the ways the stage
produces output, given a predicate `P` on queued helper events and `Ok` on passed-through events. -/
structure OutInv (P : Q → Prop) (Ok : Ev → Prop) (Φ : Nat → Nat → List Ev → Prop) : Prop where
  nil : ∀ n, Φ n n []
  append : ∀ {a b c l1 l2}, a ≤ b → b ≤ c → Φ a b l1 → Φ b c l2 → Φ a c (l1 ++ l2)
  perm : ∀ {a b l1 l2}, List.Perm l1 l2 → Φ a b l1 → Φ a b l2
  pass : ∀ n e, phInF e.ph = false → Ok e → Φ n n [e]
  build : ∀ {queue seq seq' out}, (∀ q ∈ queue, P q) → buildFlows seq queue = .ok (seq', out) →
    seq ≤ seq' ∧ Φ seq seq' out

/-- every queued helper satisfies `P` -/
def QInv (P : Q → Prop) (gs : List Grp) : Prop := ∀ g ∈ gs, ∀ q ∈ g.queue, P q

theorem QInv.remove {P : Q → Prop} {gs : List Grp} (h : QInv P gs) (k : String) : QInv P (removeGrp k gs) :=
  fun g hg => h g (mem_removeGrp hg)

theorem QInv.add {P : Q → Prop} {gs : List Grp} (h : QInv P gs) {q : Q} (hq : P q) : QInv P (addTo q gs) := by
  intro g hg q' hq'
  rcases mem_addTo hg q' hq' with r | ⟨g0, hg0, r⟩
  · subst r; exact hq
  · exact h g0 hg0 q' r

section machine
variable {P : Q → Prop} {Ok : Ev → Prop} {Φ : Nat → Nat → List Ev → Prop}

theorem candLoop_inv (I : OutInv P Ok Φ) (ref : Rat) :
    ∀ (ks : List String) (st st' : St) (out : List Ev), QInv P st.groups →
      candLoop ref st ks = .ok (st', out) →
      st.seq ≤ st'.seq ∧ Φ st.seq st'.seq out ∧ QInv P st'.groups ∧ st'.thr = st.thr := by
  intro ks
  induction ks with
  | nil =>
    intro st st' out hq h
    simp only [candLoop, pure_ok, Prod.mk.injEq] at h
    obtain ⟨rfl, rfl⟩ := h
    exact ⟨Nat.le_refl _, I.nil _, hq, rfl⟩
  | cons k ks ih =>
    intro st st' out hq h
    simp only [candLoop] at h
    split at h
    · exact ih st st' out hq h
    · rename_i g hg
      split at h
      · obtain ⟨⟨seq', o⟩, hb, h⟩ := bind_ok.mp h
        simp only [pure_ok, Prod.mk.injEq] at h
        obtain ⟨rfl, rfl⟩ := h
        obtain ⟨hle, hΦ⟩ := I.build (hq g (findGrp_mem hg)) hb
        exact ⟨hle, I.perm (sortTs_perm o).symm hΦ, hq.remove k, rfl⟩
      · split at h
        · have := ih _ st' out (by exact hq.remove k) h
          simpa using this
        · exact ih st st' out hq h

theorem extractStep_inv (I : OutInv P Ok Φ) (st st' : St) (e : Ev) (out : List Ev)
    (hq : QInv P st.groups) (hP : ∀ q, phInF e.ph = true → toQ e = .ok q → P q)
    (hOk : phInF e.ph = false → Ok e) (h : extractStep st e = .ok (st', out)) :
    st.seq ≤ st'.seq ∧ Φ st.seq st'.seq out ∧ QInv P st'.groups ∧ st'.thr = st.thr := by
  simp only [extractStep] at h
  split at h
  · rename_i hF
    obtain ⟨q, hq1, h⟩ := bind_ok.mp h
    have := candLoop_inv I e.ts _ { st with groups := addTo q st.groups } st' out
      (by exact hq.add (hP q hF hq1)) h
    simpa using this
  · rename_i hF
    simp only [pure_ok, Prod.mk.injEq] at h
    obtain ⟨rfl, rfl⟩ := h
    exact ⟨Nat.le_refl _, I.pass _ e (by simpa using hF) (hOk (by simpa using hF)), hq, rfl⟩

theorem extractStream_inv (I : OutInv P Ok Φ) :
    ∀ (es : List Ev) (st st' : St) (out : List Ev), QInv P st.groups →
      (∀ e ∈ es, ∀ q, phInF e.ph = true → toQ e = .ok q → P q) →
      (∀ e ∈ es, phInF e.ph = false → Ok e) →
      extractStream st es = .ok (st', out) →
      st.seq ≤ st'.seq ∧ Φ st.seq st'.seq out ∧ QInv P st'.groups := by
  intro es
  induction es with
  | nil =>
    intro st st' out hq _ _ h
    simp only [extractStream, pure_ok, Prod.mk.injEq] at h
    obtain ⟨rfl, rfl⟩ := h
    exact ⟨Nat.le_refl _, I.nil _, hq⟩
  | cons e es ih =>
    intro st st' out hq hP hOk h
    simp only [extractStream] at h
    obtain ⟨⟨st1, o1⟩, h1, h⟩ := bind_ok.mp h
    obtain ⟨⟨st2, o2⟩, h2, h⟩ := bind_ok.mp h
    simp only [pure_ok, Prod.mk.injEq] at h
    obtain ⟨rfl, rfl⟩ := h
    obtain ⟨a1, b1, c1, _⟩ := extractStep_inv I st st1 e o1 hq (hP e (by simp)) (hOk e (by simp)) h1
    obtain ⟨a2, b2, c2⟩ := ih st1 st2 o2 c1 (fun x hx => hP x (List.mem_cons_of_mem _ hx))
      (fun x hx => hOk x (List.mem_cons_of_mem _ hx)) h2
    exact ⟨Nat.le_trans a1 a2, I.append a1 a2 b1 b2, c2⟩

theorem drainGroups_inv (I : OutInv P Ok Φ) :
    ∀ (gs : List Grp) (seq seq' : Nat) (out : List Ev), QInv P gs →
      drainGroups seq gs = .ok (seq', out) → seq ≤ seq' ∧ Φ seq seq' out := by
  intro gs
  induction gs with
  | nil =>
    intro seq seq' out _ h
    simp only [drainGroups, pure_ok, Prod.mk.injEq] at h
    obtain ⟨rfl, rfl⟩ := h
    exact ⟨Nat.le_refl _, I.nil _⟩
  | cons g gs ih =>
    intro seq seq' out hq h
    have hq' : QInv P gs := fun x hx => hq x (List.mem_cons_of_mem _ hx)
    simp only [drainGroups] at h
    split at h
    · obtain ⟨⟨s1, o1⟩, h1, h⟩ := bind_ok.mp h
      obtain ⟨⟨s2, o2⟩, h2, h⟩ := bind_ok.mp h
      simp only [pure_ok, Prod.mk.injEq] at h
      obtain ⟨rfl, rfl⟩ := h
      obtain ⟨a1, b1⟩ := I.build (hq g (by simp)) h1
      obtain ⟨a2, b2⟩ := ih s1 s2 o2 hq' h2
      exact ⟨Nat.le_trans a1 a2, I.append a1 a2 b1 b2⟩
    · split at h
      · exact ih seq seq' out hq' h
      · exact absurd h throw_ne_ok

/-- **Any** output invariant that is closed under the stage's ways of producing output holds of the
whole output of `flow_extraction` (stream + drain). -/
theorem extractAll_inv (I : OutInv P Ok Φ) (es out : List Ev)
    (hP : ∀ e ∈ es, ∀ q, phInF e.ph = true → toQ e = .ok q → P q)
    (hOk : ∀ e ∈ es, phInF e.ph = false → Ok e)
    (h : extractAll es = .ok out) : ∃ hi, 1000000 ≤ hi ∧ Φ 1000000 hi out := by
  simp only [extractAll] at h
  obtain ⟨⟨st, o1⟩, h1, h⟩ := bind_ok.mp h
  obtain ⟨⟨s2, o2⟩, h2, h⟩ := bind_ok.mp h
  simp only [pure_ok] at h
  subst h
  obtain ⟨a1, b1, c1⟩ := extractStream_inv I es {} st o1 (by intro g hg; simp at hg) hP hOk h1
  obtain ⟨a2, b2⟩ := drainGroups_inv I st.groups st.seq s2 o2 c1 h2
  exact ⟨s2, Nat.le_trans a1 a2, I.append a1 a2 b1 b2⟩

end machine

/-! ### closed form of `build_flows` -/

/-- the receive `find_recv_partner` returns for queue element `e` (none: not a send, or no DONE receive) -/
def partnerOf (queue : List Q) (e : Q) : Option Q :=
  if e.h.typ = TYPE_SEND then
    match e.h.peers with
    | [] => none
    | p :: _ => findPartner e.h.sync p queue
  else none

/-- the sends of `rest` that have a partner in `queue`, with that partner, in queue order -/
def matched (queue : List Q) : List Q → List (Q × Q)
  | [] => []
  | e :: rest =>
    match partnerOf queue e with
    | some r => (e, r) :: matched queue rest
    | none => matched queue rest

/-- one `s`/`f` pair per matched send, ids `seq+1, seq+2, …` -/
def emitPairs : Nat → List (Q × Q) → List Ev
  | _, [] => []
  | seq, (e, r) :: ps => mkS (seq + 1) e :: mkF (seq + 1) e r :: emitPairs (seq + 1) ps

theorem buildLoop_closed (queue : List Q) :
    ∀ (rest : List Q) (seq seq' : Nat) (out : List Ev), buildLoop queue seq rest = .ok (seq', out) →
      seq' = seq + (matched queue rest).length ∧ out = emitPairs seq (matched queue rest) := by
  intro rest
  induction rest with
  | nil =>
    intro seq seq' out h
    simp only [buildLoop, pure_ok, Prod.mk.injEq] at h
    obtain ⟨rfl, rfl⟩ := h
    simp [matched, emitPairs]
  | cons e rest ih =>
    intro seq seq' out h
    simp only [buildLoop] at h
    split at h
    · rename_i hs
      split at h
      · exact absurd h throw_ne_ok
      · rename_i p ps hp
        split at h
        · rename_i hf
          have : partnerOf queue e = none := by simp [partnerOf, hs, hp, hf]
          simp only [matched, this]
          exact ih seq seq' out h
        · rename_i r hf
          have : partnerOf queue e = some r := by simp [partnerOf, hs, hp, hf]
          obtain ⟨⟨s1, o1⟩, h1, h⟩ := bind_ok.mp h
          simp only [pure_ok, Prod.mk.injEq] at h
          obtain ⟨rfl, rfl⟩ := h
          obtain ⟨a, b⟩ := ih (seq + 1) s1 o1 h1
          simp only [matched, this, emitPairs, List.length_cons]
          exact ⟨by omega, by rw [b]⟩
    · rename_i hs
      have : partnerOf queue e = none := by simp [partnerOf, hs]
      simp only [matched, this]
      exact ih seq seq' out h

/-- a send and the receive it is paired with -/
def Match (e r : Q) : Prop :=
  e.h.typ = TYPE_SEND ∧ r.h.typ = TYPE_DONE ∧ r.h.sync = e.h.sync ∧ e.h.peers.head? = some r.ev.pid

theorem findPartner_spec {sync : String} {p : Int} {l : List Q} {r : Q} (h : findPartner sync p l = some r) :
    r ∈ l ∧ r.h.sync = sync ∧ r.h.typ = TYPE_DONE ∧ r.ev.pid = p := by
  induction l with
  | nil => simp [findPartner] at h
  | cons a as ih =>
    simp only [findPartner] at h
    split at h
    · rename_i hc
      cases h
      exact ⟨by simp, hc.1, hc.2.1, hc.2.2⟩
    · obtain ⟨a1, a2⟩ := ih h
      exact ⟨List.mem_cons_of_mem _ a1, a2⟩

theorem partnerOf_spec {queue : List Q} {e r : Q} (h : partnerOf queue e = some r) : r ∈ queue ∧ Match e r := by
  simp only [partnerOf] at h
  split at h
  · rename_i hs
    split at h
    · cases h
    · rename_i p ps hp
      obtain ⟨a, b, c, d⟩ := findPartner_spec h
      exact ⟨a, hs, c, b, by simp [hp, d]⟩
  · cases h

theorem matched_spec {queue : List Q} : ∀ {rest : List Q} {e r : Q}, (e, r) ∈ matched queue rest →
    e ∈ rest ∧ r ∈ queue ∧ Match e r := by
  intro rest
  induction rest with
  | nil => intro e r h; simp [matched] at h
  | cons a as ih =>
    intro e r h
    simp only [matched] at h
    split at h
    · rename_i r0 hr0
      rcases List.mem_cons.mp h with h | h
      · cases h
        obtain ⟨x, y⟩ := partnerOf_spec hr0
        exact ⟨by simp, x, y⟩
      · obtain ⟨x, y⟩ := ih h
        exact ⟨List.mem_cons_of_mem _ x, y⟩
    · obtain ⟨x, y⟩ := ih h
      exact ⟨List.mem_cons_of_mem _ x, y⟩

theorem mem_emitPairs : ∀ {ps : List (Q × Q)} {seq : Nat} {x : Ev}, x ∈ emitPairs seq ps →
    ∃ e r k, (e, r) ∈ ps ∧ seq < k ∧ k ≤ seq + ps.length ∧ mkS k e ∈ emitPairs seq ps ∧ mkF k e r ∈ emitPairs seq ps ∧
      (x = mkS k e ∨ x = mkF k e r) := by
  intro ps
  induction ps with
  | nil => intro seq x h; simp [emitPairs] at h
  | cons p ps ih =>
    intro seq x h
    obtain ⟨e, r⟩ := p
    simp only [emitPairs, List.mem_cons] at h
    rcases h with h | h | h
    · exact ⟨e, r, seq + 1, by simp, by omega, by simp, by simp [emitPairs], by simp [emitPairs], Or.inl h⟩
    · exact ⟨e, r, seq + 1, by simp, by omega, by simp, by simp [emitPairs], by simp [emitPairs], Or.inr h⟩
    · obtain ⟨e', r', k, a, b, c, d, f, g⟩ := ih h
      refine ⟨e', r', k, List.mem_cons_of_mem _ a, by omega, by simp only [List.length_cons]; omega, ?_, ?_, g⟩
      · simp only [emitPairs, List.mem_cons]; exact Or.inr (Or.inr d)
      · simp only [emitPairs, List.mem_cons]; exact Or.inr (Or.inr f)

theorem good_pair (k : Nat) (e r : Q) : Good k (k + 1) [mkS (k + 1) e, mkF (k + 1) e r] := by
  refine ⟨?_, ?_, ?_⟩
  · intro x hx _
    simp only [List.mem_cons, List.not_mem_nil, or_false] at hx
    rcases hx with rfl | rfl <;> exact ⟨k + 1, rfl, by omega, by omega⟩
  · intro j
    by_cases hj : j = k + 1
    · subst hj; simp [cS, cF, mkS, mkF]
    · have : ¬ (k + 1 = j) := fun h => hj h.symm
      simp [cS, cF, mkS, mkF, this]
  · intro a ha b hb _ _ _
    simp only [List.mem_cons, List.not_mem_nil, or_false] at ha hb
    rcases ha with rfl | rfl <;> rcases hb with rfl | rfl <;> rfl

theorem good_emitPairs : ∀ (ps : List (Q × Q)) (seq : Nat), Good seq (seq + ps.length) (emitPairs seq ps) := by
  intro ps
  induction ps with
  | nil => intro seq; exact Good.nil seq
  | cons p ps ih =>
    intro seq
    obtain ⟨e, r⟩ := p
    have h1 := good_pair seq e r
    have h2 := ih (seq + 1)
    have := Good.append h1 h2 (by omega) (by omega)
    simp only [emitPairs, List.length_cons]
    rw [show seq + (ps.length + 1) = seq + 1 + ps.length by omega]
    exact this

theorem buildFlows_good {queue : List Q} {seq seq' : Nat} {out : List Ev}
    (h : buildFlows seq queue = .ok (seq', out)) : seq ≤ seq' ∧ Good seq seq' out := by
  obtain ⟨a, b⟩ := buildLoop_closed queue queue seq seq' out h
  subst a; subst b
  exact ⟨by omega, good_emitPairs _ _⟩

/-- the id clause as an output invariant -/
theorem outInv_good : OutInv (fun _ => True) (fun e => ¬ isFlow e) Good where
  nil := Good.nil
  append := fun hab hbc h1 h2 => Good.append h1 h2 hab hbc
  perm := fun p h => Good.perm p h
  pass := fun _ _ _ h => Good.single h
  build := fun _ h => buildFlows_good h

/-- every `s` event of `l` is the `s` half of a pair made from two helpers satisfying `P`, whose `f` half is in `l` too -/
def Placed (P : Q → Prop) (l : List Ev) : Prop :=
  ∀ s ∈ l, s.ph = "s" → ∃ e r k, P e ∧ P r ∧ Match e r ∧ s = mkS k e ∧ mkF k e r ∈ l

theorem outInv_placed (P : Q → Prop) : OutInv P (fun e => e.ph ≠ "s") (fun _ _ l => Placed P l) where
  nil := by intro _ s hs; simp at hs
  append := by
    intro a b c l1 l2 _ _ h1 h2 s hs hph
    rcases List.mem_append.mp hs with hs | hs
    · obtain ⟨e, r, k, x1, x2, x3, x4, x5⟩ := h1 s hs hph
      exact ⟨e, r, k, x1, x2, x3, x4, List.mem_append_left _ x5⟩
    · obtain ⟨e, r, k, x1, x2, x3, x4, x5⟩ := h2 s hs hph
      exact ⟨e, r, k, x1, x2, x3, x4, List.mem_append_right _ x5⟩
  perm := by
    intro a b l1 l2 p h s hs hph
    obtain ⟨e, r, k, x1, x2, x3, x4, x5⟩ := h s (p.mem_iff.mpr hs) hph
    exact ⟨e, r, k, x1, x2, x3, x4, p.mem_iff.mp x5⟩
  pass := by
    intro n e _ hne s hs hph
    simp only [List.mem_singleton] at hs
    subst hs
    exact absurd hph hne
  build := by
    intro queue seq seq' out hq h
    refine ⟨(buildFlows_good h).1, ?_⟩
    obtain ⟨a, b⟩ := buildLoop_closed queue queue seq seq' out h
    subst b
    intro s hs hph
    obtain ⟨e, r, k, m, _, _, _, hf, hx⟩ := mem_emitPairs hs
    obtain ⟨m1, m2, m3⟩ := matched_spec m
    rcases hx with hx | hx
    · exact ⟨e, r, k, hq e m1, hq r m2, m3, hx, hf⟩
    · subst hx; simp [mkF] at hph

/-- no helper event in the output of `flow_extraction` -/
theorem outInv_noF : OutInv (fun _ => True) (fun _ => True) (fun _ _ l => ∀ e ∈ l, e.ph ≠ "F") where
  nil := by intro _ e he; simp at he
  append := by
    intro a b c l1 l2 _ _ h1 h2 e he
    rcases List.mem_append.mp he with he | he
    · exact h1 e he
    · exact h2 e he
  perm := by intro a b l1 l2 p h e he; exact h e (p.mem_iff.mpr he)
  pass := by
    intro n e hF _ x hx
    simp only [List.mem_singleton] at hx
    subst hx
    intro hc
    simp [phInF, hc] at hF
  build := by
    intro queue seq seq' out _ h
    refine ⟨(buildFlows_good h).1, ?_⟩
    obtain ⟨a, b⟩ := buildLoop_closed queue queue seq seq' out h
    subst b
    intro x hx
    obtain ⟨e, r, k, _, _, _, _, _, hx⟩ := mem_emitPairs hx
    rcases hx with rfl | rfl <;> simp [mkS, mkF]

/-! ### flow_prepare_event_data -/

/-- what `flow_prepare_event_data` derives for a slice: `none` = no helper is produced -/
def helperView (x : Ev) : Option Helper :=
  if phInXbe x.ph then
    match x.args with
    | none => none
    | some a =>
      match helperData x a with
      | .ok r => r
      | .error _ => none
  else none

theorem prepare_mem {x : Ev} {l : List Ev} (h : prepare x = .ok l) :
    ∀ y ∈ l, (y.ph = x.ph ∧ y.hlp = x.hlp ∧ y.id = x.id ∧ y.pid = x.pid ∧ y.tid = x.tid ∧ y.ts = x.ts ∧ y.dur = x.dur) ∨
      (∃ a hv, x.args = some a ∧ helperView x = some hv ∧ y = mkHelper (upd x a) hv) := by
  intro y hy
  simp only [prepare] at h
  split at h
  · simp only [pure_ok] at h; subst h
    simp only [List.mem_singleton] at hy; subst hy
    exact Or.inl ⟨rfl, rfl, rfl, rfl, rfl, rfl, rfl⟩
  · rename_i hph
    split at h
    · simp only [pure_ok] at h; subst h
      simp only [List.mem_singleton] at hy; subst hy
      exact Or.inl ⟨rfl, rfl, rfl, rfl, rfl, rfl, rfl⟩
    · rename_i a ha
      obtain ⟨r, hr, h⟩ := bind_ok.mp h
      split at h
      · simp only [pure_ok] at h; subst h
        simp only [List.mem_singleton] at hy; subst hy
        exact Or.inl ⟨rfl, rfl, rfl, rfl, rfl, rfl, rfl⟩
      · rename_i hv
        simp only [pure_ok] at h; subst h
        simp only [List.mem_cons, List.not_mem_nil, or_false] at hy
        rcases hy with rfl | rfl
        · exact Or.inl ⟨rfl, rfl, rfl, rfl, rfl, rfl, rfl⟩
        · refine Or.inr ⟨a, hv, ha, ?_, rfl⟩
          have : phInXbe x.ph = true := by simpa using hph
          simp [helperView, this, ha, hr]

theorem prepareAll_mem : ∀ {xs l : List Ev}, prepareAll xs = .ok l →
    ∀ y ∈ l, ∃ x ∈ xs, ∃ lx, prepare x = .ok lx ∧ y ∈ lx := by
  intro xs
  induction xs with
  | nil => intro l h y hy; simp only [prepareAll, pure_ok] at h; subst h; simp at hy
  | cons x xs ih =>
    intro l h y hy
    simp only [prepareAll] at h
    obtain ⟨a, ha, h⟩ := bind_ok.mp h
    obtain ⟨b, hb, h⟩ := bind_ok.mp h
    simp only [pure_ok] at h; subst h
    rcases List.mem_append.mp hy with hy | hy
    · exact ⟨x, by simp, a, ha, hy⟩
    · obtain ⟨x', hx', r⟩ := ih hb y hy
      exact ⟨x', List.mem_cons_of_mem _ hx', r⟩

theorem toQ_ok {e : Ev} {q : Q} (h : toQ e = .ok q) :
    q.ev = e ∧ e.hlp = some q.h ∧ e.dur = some q.dur ∧ 0 < q.dur := by
  simp only [toQ] at h
  split at h
  · split at h
    · exact absurd h throw_ne_ok
    · split at h
      · exact absurd h throw_ne_ok
      · split at h <;> exact absurd h throw_ne_ok
  · rename_i hv hh
    split at h
    · exact absurd h throw_ne_ok
    · rename_i d hd
      split at h
      · rename_i hpos
        simp only [pure_ok] at h; subst h
        exact ⟨rfl, hh, hd, hpos⟩
      · exact absurd h throw_ne_ok

theorem typeCode_send {t : String} : typeCode t = .ok TYPE_SEND ↔ t = "SingleCast" ∨ t = "MultiCast XSEG" := by
  unfold typeCode
  constructor
  · intro h
    repeat' split at h
    all_goals first
      | (rename_i h1; exact Or.inl ‹t = "SingleCast"›)
      | (exact Or.inr ‹t = "MultiCast XSEG"›)
      | (simp [pure, Except.pure, TYPE_SEND, TYPE_DONE, TYPE_MCAST, TYPE_BCLIST] at h)
      | exact absurd h throw_ne_ok
  · rintro (rfl | rfl) <;> simp [pure, Except.pure]

theorem typeCode_done {t : String} : typeCode t = .ok TYPE_DONE ↔ t = "WDone Barrier" := by
  unfold typeCode
  constructor
  · intro h
    repeat' split at h
    all_goals first
      | exact ‹t = "WDone Barrier"›
      | (simp [pure, Except.pure, TYPE_SEND, TYPE_DONE, TYPE_MCAST, TYPE_BCLIST] at h)
      | exact absurd h throw_ne_ok
  · rintro rfl; simp [pure, Except.pure]

/-- the helper keys in terms of the raw slice: sync tag of the (bytes-stripped) name, CollGroup, the peers
named by `args`, the type code of `args["Type"]` -/
theorem helperView_spec {x : Ev} {hv : Helper} (h : helperView x = some hv) :
    ∃ a, x.args = some a ∧ phInXbe x.ph = true ∧ syncTag (updName x a) = some hv.sync ∧
      hv.cat = a.collGroup.getD "" ∧ helperPeers (updName x a) (updArgs a) = .ok (some hv.peers) ∧
      typeOf a = .ok hv.typ := by
  simp only [helperView] at h
  split at h
  · rename_i hph
    split at h
    · cases h
    · rename_i a ha
      split at h
      · rename_i r hr
        subst h
        refine ⟨a, ha, hph, ?_⟩
        simp only [helperData] at hr
        obtain ⟨ps, hps, hr⟩ := bind_ok.mp hr
        split at hr
        · simp [pure_ok] at hr
        · rename_i sync hsync
          obtain ⟨ty, hty, hr⟩ := bind_ok.mp hr
          split at hr
          · exact absurd hr throw_ne_ok
          · split at hr
            · exact absurd hr throw_ne_ok
            · rename_i pl
              simp only [pure_ok, Option.some.injEq] at hr
              subst hr
              exact ⟨hsync, rfl, hps, hty⟩
      · cases h
  · cases h


/-- the queue of helper events that `flow_prepare_event_data` + `insert` build from a list of slices
(all of them, in arrival order; `[]` if a stage raises) -/
def helperQueue (input : List Ev) : List Q :=
  match prepareAll input with
  | .ok a => a.filterMap (fun e => if phInF e.ph then (match toQ e with | .ok q => some q | .error _ => none) else none)
  | .error _ => []

def okOf {α : Type} : Except Err α → Option α
  | .ok a => some a
  | .error _ => none

def errOf {α : Type} : Except Err α → Option Err
  | .ok _ => none
  | .error e => some e

/-- names of the `s` events of a run (`none`: the run raised) -/
def sNames (r : Except Err (List Ev)) : Option (List String) :=
  match r with
  | .ok out => some ((out.filter (fun e => e.ph = "s")).map (·.name))
  | .error _ => none


/-! ### tracking one group through the run (for `every_send_paired_partial`) -/

/-- the helpers of CollGroup `g` in a stream arriving at `flow_extraction`, in arrival order -/
def qsOf (g : String) : List Ev → List Q
  | [] => []
  | e :: es =>
    if phInF e.ph then
      match toQ e with
      | .ok q => if q.h.cat = g then q :: qsOf g es else qsOf g es
      | .error _ => qsOf g es
    else qsOf g es

/-- the queue of group `g` in the context (`[]` if the group does not exist) -/
def gq (g : String) (gs : List Grp) : List Q :=
  match findGrp g gs with
  | some G => G.queue
  | none => []

/-- the flow events of CollGroup `g` (flow events carry the CollGroup as `cat`) -/
def flowsOf (g : String) (l : List Ev) : List Ev :=
  l.filter (fun e => (decide (e.ph = "s") || decide (e.ph = "f")) && decide (e.cat = some g))

theorem flowsOf_append (g : String) (a b : List Ev) : flowsOf g (a ++ b) = flowsOf g a ++ flowsOf g b := by
  simp [flowsOf]

/-- well-formed context: distinct keys; queued helpers belong to their group and carry it as `cat`;
every group ends after `t0` -/
structure WF (t0 : Rat) (gs : List Grp) : Prop where
  nodup : (gs.map (·.key)).Nodup
  cat : ∀ G ∈ gs, ∀ q ∈ G.queue, q.h.cat = G.key ∧ q.ev.cat = some G.key
  late : ∀ G ∈ gs, t0 < G.latest

theorem findGrp_key {k : String} {gs : List Grp} {G : Grp} (h : findGrp k gs = some G) : G.key = k := by
  induction gs with
  | nil => simp [findGrp] at h
  | cons a as ih =>
    simp only [findGrp] at h
    split at h
    · cases h; assumption
    · exact ih h

theorem findGrp_none_of_not_mem {k : String} {gs : List Grp} (h : k ∉ gs.map (·.key)) : findGrp k gs = none := by
  induction gs with
  | nil => rfl
  | cons a as ih =>
    simp only [List.map_cons, List.mem_cons, not_or] at h
    simp only [findGrp]
    split
    · rename_i hk; exact absurd hk.symm h.1
    · exact ih h.2

theorem findGrp_of_mem {gs : List Grp} (hn : (gs.map (·.key)).Nodup) {G : Grp} (hG : G ∈ gs) :
    findGrp G.key gs = some G := by
  induction gs with
  | nil => simp at hG
  | cons a as ih =>
    simp only [List.map_cons, List.nodup_cons] at hn
    simp only [findGrp]
    rcases List.mem_cons.mp hG with rfl | hG
    · simp
    · split
      · rename_i hk
        exact absurd (hk ▸ List.mem_map_of_mem (f := (·.key)) hG) hn.1
      · exact ih hn.2 hG

theorem removeGrp_keys_sub (k : String) (gs : List Grp) : ∀ x ∈ (removeGrp k gs).map (·.key), x ∈ gs.map (·.key) := by
  intro x hx
  obtain ⟨G, hG, rfl⟩ := List.mem_map.mp hx
  exact List.mem_map_of_mem (mem_removeGrp hG)

theorem removeGrp_nodup {k : String} {gs : List Grp} (hn : (gs.map (·.key)).Nodup) :
    ((removeGrp k gs).map (·.key)).Nodup := by
  induction gs with
  | nil => simp [removeGrp]
  | cons a as ih =>
    simp only [List.map_cons, List.nodup_cons] at hn
    simp only [removeGrp]
    split
    · exact hn.2
    · simp only [List.map_cons, List.nodup_cons]
      exact ⟨fun h => hn.1 (removeGrp_keys_sub k as _ h), ih hn.2⟩

theorem findGrp_removeGrp_ne {k g : String} (hne : k ≠ g) (gs : List Grp) :
    findGrp g (removeGrp k gs) = findGrp g gs := by
  induction gs with
  | nil => rfl
  | cons a as ih =>
    simp only [removeGrp]
    split
    · rename_i hk
      simp only [findGrp]
      split
      · rename_i hg; exact absurd (hk.symm.trans hg) hne
      · rfl
    · simp only [findGrp]
      split
      · rfl
      · exact ih

theorem findGrp_removeGrp_self {g : String} {gs : List Grp} (hn : (gs.map (·.key)).Nodup) :
    findGrp g (removeGrp g gs) = none := by
  induction gs with
  | nil => rfl
  | cons a as ih =>
    simp only [List.map_cons, List.nodup_cons] at hn
    simp only [removeGrp]
    split
    · rename_i hk
      exact findGrp_none_of_not_mem (hk ▸ hn.1)
    · rename_i hk
      simp only [findGrp, hk, if_false]
      exact ih hn.2

theorem WF.remove {t0 : Rat} {gs : List Grp} (h : WF t0 gs) (k : String) : WF t0 (removeGrp k gs) :=
  ⟨removeGrp_nodup h.nodup, fun G hG => h.cat G (mem_removeGrp hG), fun G hG => h.late G (mem_removeGrp hG)⟩

theorem maxR_ge_right (a b : Rat) : b ≤ maxR a b := by unfold maxR; split <;> grind
theorem maxR_ge_left (a b : Rat) : a ≤ maxR a b := by unfold maxR; split <;> grind

theorem addTo_keys (q : Q) (gs : List Grp) :
    (addTo q gs).map (·.key) = if q.h.cat ∈ gs.map (·.key) then gs.map (·.key) else gs.map (·.key) ++ [q.h.cat] := by
  induction gs with
  | nil => simp [addTo, Grp.add]
  | cons a as ih =>
    simp only [addTo]
    split
    · rename_i hk; simp [Grp.add, hk]
    · rename_i hk
      simp only [List.map_cons, ih, List.mem_cons]
      have : ¬ q.h.cat = a.key := fun h => hk h.symm
      by_cases hm : q.h.cat ∈ as.map (·.key)
      · simp [hm]
      · simp [hm, this]

theorem findGrp_addTo (g : String) (q : Q) (gs : List Grp) :
    findGrp g (addTo q gs) =
      if q.h.cat = g then some (((findGrp g gs).getD { key := q.h.cat, queue := [], latest := 0, first := 0 }).add q)
      else findGrp g gs := by
  induction gs with
  | nil =>
    simp only [addTo, findGrp, Grp.add]
    split <;> simp_all
  | cons a as ih =>
    simp only [addTo]
    split
    · rename_i hk
      simp only [findGrp, Grp.add]
      by_cases hg : q.h.cat = g
      · simp [hg, hk.trans hg]
      · have : ¬ a.key = g := fun h => hg (hk.symm.trans h)
        simp [hg, this]
    · rename_i hk
      simp only [findGrp]
      by_cases hag : a.key = g
      · have : ¬ q.h.cat = g := fun h => hk (hag.trans h.symm)
        simp [hag, this]
      · simp only [hag, if_false]; exact ih

theorem WF.add {t0 : Rat} {gs : List Grp} (h : WF t0 gs) {q : Q} (hc : q.ev.cat = some q.h.cat)
    (ht : t0 ≤ q.ev.ts) (hd : 0 < q.dur) : WF t0 (addTo q gs) := by
  refine ⟨?_, ?_, ?_⟩
  · rw [addTo_keys]
    split
    · exact h.nodup
    · rename_i hm
      exact List.nodup_append.mpr ⟨h.nodup, by simp, by
        intro a ha b hb; simp only [List.mem_singleton] at hb; subst hb; intro hab; exact hm (hab ▸ ha)⟩
  · induction gs with
    | nil =>
      intro G hG q' hq'
      simp only [addTo, List.mem_singleton] at hG; subst hG
      simp only [Grp.add, List.nil_append, List.mem_singleton] at hq'; subst hq'
      exact ⟨rfl, hc⟩
    | cons a as ih =>
      have hwf' : WF t0 as := ⟨(List.nodup_cons.mp h.nodup).2, fun G hG => h.cat G (List.mem_cons_of_mem _ hG),
        fun G hG => h.late G (List.mem_cons_of_mem _ hG)⟩
      intro G hG q' hq'
      simp only [addTo] at hG
      split at hG
      · rename_i hk
        rcases List.mem_cons.mp hG with rfl | hG
        · simp only [Grp.add, List.mem_append, List.mem_singleton] at hq'
          rcases hq' with hq' | rfl
          · exact h.cat a (by simp) q' hq'
          · exact ⟨hk.symm, by simpa [Grp.add, hk] using hc⟩
        · exact h.cat G (List.mem_cons_of_mem _ hG) q' hq'
      · rcases List.mem_cons.mp hG with rfl | hG
        · exact h.cat G (by simp) q' hq'
        · exact ih hwf' G hG q' hq'
  · induction gs with
    | nil =>
      intro G hG
      simp only [addTo, List.mem_singleton] at hG; subst hG
      have := maxR_ge_right 0 (q.ev.ts + q.dur)
      simp only [Grp.add]; grind
    | cons a as ih =>
      have hwf' : WF t0 as := ⟨(List.nodup_cons.mp h.nodup).2, fun G hG => h.cat G (List.mem_cons_of_mem _ hG),
        fun G hG => h.late G (List.mem_cons_of_mem _ hG)⟩
      intro G hG
      simp only [addTo] at hG
      split at hG
      · rcases List.mem_cons.mp hG with rfl | hG
        · have := maxR_ge_left a.latest (q.ev.ts + q.dur)
          have := h.late a (by simp)
          simp only [Grp.add]; grind
        · exact h.late G (List.mem_cons_of_mem _ hG)
      · rcases List.mem_cons.mp hG with rfl | hG
        · exact h.late G (by simp)
        · exact ih hwf' G hG

/-- flow events built from a queue whose helpers carry `cat = k` are flow events with `cat = k` -/
theorem buildFlows_cat {queue : List Q} {seq seq' : Nat} {out : List Ev} {k : String}
    (h : buildFlows seq queue = .ok (seq', out)) (hc : ∀ q ∈ queue, q.ev.cat = some k) :
    ∀ x ∈ out, (x.ph = "s" ∨ x.ph = "f") ∧ x.cat = some k := by
  obtain ⟨_, b⟩ := buildLoop_closed queue queue seq seq' out h
  subst b
  intro x hx
  obtain ⟨e, r, j, m, _, _, _, _, hx⟩ := mem_emitPairs hx
  obtain ⟨m1, m2, _⟩ := matched_spec m
  rcases hx with rfl | rfl
  · exact ⟨Or.inl rfl, hc e m1⟩
  · exact ⟨Or.inr rfl, hc r m2⟩

theorem flowsOf_all {g : String} {l : List Ev} (h : ∀ x ∈ l, (x.ph = "s" ∨ x.ph = "f") ∧ x.cat = some g) :
    flowsOf g l = l := by
  simp only [flowsOf, List.filter_eq_self]
  intro x hx
  obtain ⟨a, b⟩ := h x hx
  rcases a with a | a <;> simp [a, b]

theorem flowsOf_none {g k : String} (hne : k ≠ g) {l : List Ev} (h : ∀ x ∈ l, (x.ph = "s" ∨ x.ph = "f") ∧ x.cat = some k) :
    flowsOf g l = [] := by
  simp only [flowsOf, List.filter_eq_nil_iff]
  intro x hx
  obtain ⟨_, b⟩ := h x hx
  simp [b, hne]

section track
variable (g : String) (E : List Q) (t0 : Rat)

/-- what can happen to group `g` in one `for g in groups_complete` loop -/
theorem candLoop_g (ref : Rat) (href : ref ≤ t0 + 20000000) :
    ∀ (ks : List String) (st st' : St) (out : List Ev), WF t0 st.groups → st.thr = 5000000 →
      candLoop ref st ks = .ok (st', out) →
      WF t0 st'.groups ∧ st'.thr = 5000000 ∧
      ((findGrp g st'.groups = findGrp g st.groups ∧ flowsOf g out = []) ∨
       (g ∈ ks ∧ ∃ G sq sq' f, findGrp g st.groups = some G ∧ detectFinal G.queue = true ∧ findGrp g st'.groups = none ∧
          buildFlows sq G.queue = .ok (sq', f) ∧ out = sortTs f)) := by
  intro ks
  induction ks with
  | nil =>
    intro st st' out hwf hthr h
    simp only [candLoop, pure_ok, Prod.mk.injEq] at h
    obtain ⟨rfl, rfl⟩ := h
    exact ⟨hwf, hthr, Or.inl ⟨rfl, rfl⟩⟩
  | cons k ks ih =>
    intro st st' out hwf hthr h
    have lift : ∀ {st2 : St}, (findGrp g st2.groups = findGrp g st.groups) →
        (WF t0 st'.groups ∧ st'.thr = 5000000 ∧
          ((findGrp g st'.groups = findGrp g st2.groups ∧ flowsOf g out = []) ∨
           (g ∈ ks ∧ ∃ G sq sq' f, findGrp g st2.groups = some G ∧ detectFinal G.queue = true ∧ findGrp g st'.groups = none ∧
              buildFlows sq G.queue = .ok (sq', f) ∧ out = sortTs f))) →
        (WF t0 st'.groups ∧ st'.thr = 5000000 ∧
          ((findGrp g st'.groups = findGrp g st.groups ∧ flowsOf g out = []) ∨
           (g ∈ k :: ks ∧ ∃ G sq sq' f, findGrp g st.groups = some G ∧ detectFinal G.queue = true ∧ findGrp g st'.groups = none ∧
              buildFlows sq G.queue = .ok (sq', f) ∧ out = sortTs f))) := by
      intro st2 heq r
      obtain ⟨a, b, c⟩ := r
      refine ⟨a, b, ?_⟩
      rcases c with ⟨c1, c2⟩ | ⟨c0, G, sq, sq', f, c1, c2⟩
      · exact Or.inl ⟨c1.trans heq, c2⟩
      · exact Or.inr ⟨List.mem_cons_of_mem _ c0, G, sq, sq', f, heq ▸ c1, c2⟩
    simp only [candLoop] at h
    split at h
    · exact lift rfl (ih st st' out hwf hthr h)
    · rename_i Gk hGk
      have hkey := findGrp_key hGk
      have hmem := findGrp_mem hGk
      split at h
      · rename_i hfin
        obtain ⟨⟨seq', o⟩, hb, h⟩ := bind_ok.mp h
        simp only [pure_ok, Prod.mk.injEq] at h
        obtain ⟨rfl, rfl⟩ := h
        refine ⟨hwf.remove k, hthr, ?_⟩
        by_cases hkg : k = g
        · subst hkg
          exact Or.inr ⟨by simp, Gk, st.seq, seq', o, hGk, hfin, findGrp_removeGrp_self hwf.nodup, hb, rfl⟩
        · refine Or.inl ⟨findGrp_removeGrp_ne hkg _, ?_⟩
          have hc := buildFlows_cat hb (k := k) (fun q hq => by rw [← hkey]; exact (hwf.cat Gk hmem q hq).2)
          have : flowsOf g o = [] := flowsOf_none hkg hc
          have hp : (flowsOf g (sortTs o)).Perm (flowsOf g o) := (sortTs_perm o).filter _
          rw [this] at hp
          exact hp.eq_nil
      · split at h
        · rename_i hstale
          by_cases hkg : k = g
          · exfalso
            have hl := hwf.late Gk hmem
            have := maxR_ge_right (Gk.latest - Gk.first) st.thr
            simp only [isStale, decide_eq_true_eq] at hstale
            rw [hthr] at this
            grind
          · have := ih { st with groups := removeGrp k st.groups, stale := st.stale + 1 } st' out (hwf.remove k) hthr h
            exact lift (findGrp_removeGrp_ne hkg _) this
        · exact lift rfl (ih st st' out hwf hthr h)

theorem mem_candidates {ts : Rat} {gs : List Grp} {k : String} (h : k ∈ candidates ts gs) :
    ∃ G ∈ gs, G.key = k ∧ G.latest < ts := by
  simp only [candidates, List.mem_map, List.mem_filter, decide_eq_true_eq] at h
  obtain ⟨G, ⟨a, b⟩, c⟩ := h
  exact ⟨G, a, c, b⟩

theorem qsOf_cons (e : Ev) (es : List Ev) : qsOf g (e :: es) = qsOf g [e] ++ qsOf g es := by
  simp only [qsOf]
  split
  · split
    · split <;> simp
    · simp
  · simp

theorem detectFinal_nil : detectFinal [] = false := by decide

theorem gq_of_none {gs : List Grp} (h : findGrp g gs = none) : gq g gs = [] := by simp [gq, h]

/-- one `flow_extraction` call, seen from group `g` -/
theorem extractStep_g (st st1 : St) (e : Ev) (out : List Ev) (hwf : WF t0 st.groups) (hthr : st.thr = 5000000)
    (hflow : phInF e.ph = false → ¬ isFlow e)
    (hq : ∀ q, phInF e.ph = true → toQ e = .ok q → e.cat = some q.h.cat ∧ t0 ≤ e.ts ∧ e.ts ≤ t0 + 20000000)
    (h : extractStep st e = .ok (st1, out)) :
    WF t0 st1.groups ∧ st1.thr = 5000000 ∧
    ((gq g st1.groups = gq g st.groups ++ qsOf g [e] ∧
        (findGrp g st.groups = none → qsOf g [e] = [] → findGrp g st1.groups = none) ∧ flowsOf g out = []) ∨
     (qsOf g [e] = [] ∧ findGrp g st1.groups = none ∧ ∃ sq sq' f, detectFinal (gq g st.groups) = true ∧
        buildFlows sq (gq g st.groups) = .ok (sq', f) ∧ out = sortTs f ∧ ∀ q ∈ gq g st.groups, q.ev.cat = some g)) := by
  simp only [extractStep] at h
  split at h
  · rename_i hF
    obtain ⟨q, hq1, h⟩ := bind_ok.mp h
    obtain ⟨hqe, _, _, hpos⟩ := toQ_ok hq1
    obtain ⟨hc, hlo, hhi⟩ := hq q hF hq1
    have hwf1 : WF t0 (addTo q st.groups) := hwf.add (by rw [hqe]; exact hc) (by rw [hqe]; exact hlo) hpos
    obtain ⟨w, t, r⟩ := candLoop_g g t0 e.ts hhi _ { st with groups := addTo q st.groups } st1 out hwf1 hthr h
    refine ⟨w, t, ?_⟩
    have hqs : qsOf g [e] = if q.h.cat = g then [q] else [] := by
      simp only [qsOf, hF, if_true, hq1]
    simp only at r
    by_cases hcg : q.h.cat = g
    · -- the event belongs to g: appended, never a candidate in this call
      have hfind := findGrp_addTo g q st.groups
      simp only [hcg, if_true] at hfind
      rcases r with ⟨r1, r2⟩ | ⟨r0, G, _, _, _, r1, _⟩
      · refine Or.inl ⟨?_, ?_, r2⟩
        · simp only [gq, r1, hfind, hqs, hcg, if_true]
          cases hfg : findGrp g st.groups <;> simp [Grp.add]
        · intro _ hnil; simp [hqs, hcg] at hnil
      · exfalso
        obtain ⟨G', hG', hk', hl'⟩ := mem_candidates r0
        have := findGrp_of_mem hwf1.nodup hG'
        rw [hk', r1] at this
        cases this
        rw [hfind] at r1
        cases r1
        have := maxR_ge_right ((findGrp g st.groups).getD { key := q.h.cat, queue := [], latest := 0, first := 0 }).latest (q.ev.ts + q.dur)
        simp only [Grp.add] at hl'
        rw [hqe] at this
        grind
    · have hfind := findGrp_addTo g q st.groups
      simp only [hcg, if_false] at hfind
      rcases r with ⟨r1, r2⟩ | ⟨_, G, sq, sq', f, r1, r2, r3, r4, r5⟩
      · refine Or.inl ⟨?_, ?_, r2⟩
        · simp [gq, r1, hfind, hqs, hcg]
        · intro hn _; rw [r1, hfind]; exact hn
      · rw [hfind] at r1
        have hgq : gq g st.groups = G.queue := by simp [gq, r1]
        refine Or.inr ⟨by simp [hqs, hcg], r3, sq, sq', f, hgq ▸ r2, hgq ▸ r4, r5, ?_⟩
        intro q' hq'
        rw [hgq] at hq'
        have := (hwf.cat G (findGrp_mem r1) q' hq').2
        rw [findGrp_key r1] at this
        exact this
  · rename_i hF
    simp only [pure_ok, Prod.mk.injEq] at h
    obtain ⟨rfl, rfl⟩ := h
    have hF' : phInF e.ph = false := by simpa using hF
    refine ⟨hwf, hthr, Or.inl ⟨?_, ?_, ?_⟩⟩
    · simp [qsOf, hF']
    · intro hn _; exact hn
    · have := hflow hF'
      simp only [flowsOf, List.filter_eq_nil_iff, List.mem_singleton]
      intro x hx; subst hx
      unfold isFlow at this
      simp only [not_or] at this
      simp [this.1, this.2]

/-- the hypotheses about the stream arriving at `flow_extraction` -/
structure Tame (es : List Ev) : Prop where
  flow : ∀ e ∈ es, phInF e.ph = false → ¬ isFlow e
  hq : ∀ e ∈ es, ∀ q, phInF e.ph = true → toQ e = .ok q → e.cat = some q.h.cat ∧ t0 ≤ e.ts ∧ e.ts ≤ t0 + 20000000

theorem Tame.tail {t0 : Rat} {e : Ev} {es : List Ev} (h : Tame t0 (e :: es)) : Tame t0 es :=
  ⟨fun x hx => h.flow x (List.mem_cons_of_mem _ hx), fun x hx => h.hq x (List.mem_cons_of_mem _ hx)⟩

/-- after the group is gone and none of its events is still to come, nothing of `g` happens -/
theorem stream_B : ∀ (es : List Ev) (st st' : St) (out : List Ev), WF t0 st.groups → st.thr = 5000000 → Tame t0 es →
    findGrp g st.groups = none → qsOf g es = [] → extractStream st es = .ok (st', out) →
    WF t0 st'.groups ∧ st'.thr = 5000000 ∧ findGrp g st'.groups = none ∧ flowsOf g out = [] := by
  intro es
  induction es with
  | nil =>
    intro st st' out hwf hthr _ hn _ h
    simp only [extractStream, pure_ok, Prod.mk.injEq] at h
    obtain ⟨rfl, rfl⟩ := h
    exact ⟨hwf, hthr, hn, rfl⟩
  | cons e es ih =>
    intro st st' out hwf hthr ht hn hqs h
    simp only [extractStream] at h
    obtain ⟨⟨st1, o1⟩, h1, h⟩ := bind_ok.mp h
    obtain ⟨⟨st2, o2⟩, h2, h⟩ := bind_ok.mp h
    simp only [pure_ok, Prod.mk.injEq] at h
    obtain ⟨rfl, rfl⟩ := h
    rw [qsOf_cons] at hqs
    obtain ⟨hq1, hq2⟩ := List.append_eq_nil_iff.mp hqs
    obtain ⟨w, t, r⟩ := extractStep_g g t0 st st1 e o1 hwf hthr (ht.flow e (by simp)) (ht.hq e (by simp)) h1
    rcases r with ⟨_, r2, r3⟩ | ⟨_, _, _, _, _, r4, _⟩
    · obtain ⟨a, b, c, d⟩ := ih st1 st2 o2 w t ht.tail (r2 hn hq1) hq2 h2
      exact ⟨a, b, c, by rw [flowsOf_append, r3, d]; rfl⟩
    · rw [gq_of_none g hn, detectFinal_nil] at r4
      cases r4

/-- **the group is only popped with all of its events**: while `g` is pending (`queue ++ still to come = E`) -/
theorem stream_A (hno : ∀ p s, p ++ s = E → detectFinal p = true → s = []) :
    ∀ (es : List Ev) (st st' : St) (out : List Ev), WF t0 st.groups → st.thr = 5000000 → Tame t0 es →
    gq g st.groups ++ qsOf g es = E → extractStream st es = .ok (st', out) →
    WF t0 st'.groups ∧ st'.thr = 5000000 ∧
    ((gq g st'.groups = E ∧ flowsOf g out = []) ∨
     (findGrp g st'.groups = none ∧ ∃ sq sq' f, buildFlows sq E = .ok (sq', f) ∧ (flowsOf g out).Perm f)) := by
  intro es
  induction es with
  | nil =>
    intro st st' out hwf hthr _ hE h
    simp only [extractStream, pure_ok, Prod.mk.injEq] at h
    obtain ⟨rfl, rfl⟩ := h
    exact ⟨hwf, hthr, Or.inl ⟨by simpa [qsOf] using hE, rfl⟩⟩
  | cons e es ih =>
    intro st st' out hwf hthr ht hE h
    simp only [extractStream] at h
    obtain ⟨⟨st1, o1⟩, h1, h⟩ := bind_ok.mp h
    obtain ⟨⟨st2, o2⟩, h2, h⟩ := bind_ok.mp h
    simp only [pure_ok, Prod.mk.injEq] at h
    obtain ⟨rfl, rfl⟩ := h
    rw [qsOf_cons, ← List.append_assoc] at hE
    obtain ⟨w, t, r⟩ := extractStep_g g t0 st st1 e o1 hwf hthr (ht.flow e (by simp)) (ht.hq e (by simp)) h1
    rcases r with ⟨r1, _, r3⟩ | ⟨r1, r2, sq, sq', f, r4, r5, r6, r7⟩
    · obtain ⟨a, b, c⟩ := ih st1 st2 o2 w t ht.tail (by rw [r1]; exact hE) h2
      refine ⟨a, b, ?_⟩
      rcases c with ⟨c1, c2⟩ | ⟨c1, x, y, z, c2, c3⟩
      · exact Or.inl ⟨c1, by rw [flowsOf_append, r3, c2]; rfl⟩
      · exact Or.inr ⟨c1, x, y, z, c2, by rw [flowsOf_append, r3]; simpa using c3⟩
    · rw [r1, List.append_nil] at hE
      have hs := hno _ _ hE r4
      rw [hs, List.append_nil] at hE
      obtain ⟨a, b, c, d⟩ := stream_B g t0 es st1 st2 o2 w t ht.tail r2 hs h2
      refine ⟨a, b, Or.inr ⟨c, sq, sq', f, hE ▸ r5, ?_⟩⟩
      rw [flowsOf_append, d, List.append_nil, r6]
      have hc := buildFlows_cat r5 r7
      have hp : (flowsOf g (sortTs f)).Perm (flowsOf g f) := (sortTs_perm f).filter _
      rw [flowsOf_all hc] at hp
      exact hp

theorem WF.tail {t0 : Rat} {G : Grp} {gs : List Grp} (h : WF t0 (G :: gs)) : WF t0 gs :=
  ⟨(List.nodup_cons.mp h.nodup).2, fun x hx => h.cat x (List.mem_cons_of_mem _ hx),
    fun x hx => h.late x (List.mem_cons_of_mem _ hx)⟩

theorem drain_B : ∀ (gs : List Grp) (seq seq' : Nat) (out : List Ev), WF t0 gs → findGrp g gs = none →
    drainGroups seq gs = .ok (seq', out) → flowsOf g out = [] := by
  intro gs
  induction gs with
  | nil =>
    intro seq seq' out _ _ h
    simp only [drainGroups, pure_ok, Prod.mk.injEq] at h
    obtain ⟨rfl, rfl⟩ := h
    rfl
  | cons G gs ih =>
    intro seq seq' out hwf hn h
    simp only [findGrp] at hn
    split at hn
    · cases hn
    · rename_i hk
      simp only [drainGroups] at h
      split at h
      · obtain ⟨⟨s1, o1⟩, h1, h⟩ := bind_ok.mp h
        obtain ⟨⟨s2, o2⟩, h2, h⟩ := bind_ok.mp h
        simp only [pure_ok, Prod.mk.injEq] at h
        obtain ⟨rfl, rfl⟩ := h
        have hc := buildFlows_cat h1 (k := G.key) (fun q hq => (hwf.cat G (by simp) q hq).2)
        rw [flowsOf_append, flowsOf_none hk hc, ih s1 s2 o2 hwf.tail hn h2]
        rfl
      · split at h
        · exact ih seq seq' out hwf.tail hn h
        · exact absurd h throw_ne_ok

theorem drain_A : ∀ (gs : List Grp) (seq seq' : Nat) (out : List Ev), WF t0 gs → gq g gs = E → detectFinal E = true →
    drainGroups seq gs = .ok (seq', out) → ∃ sq sq' f, buildFlows sq E = .ok (sq', f) ∧ (flowsOf g out).Perm f := by
  intro gs
  induction gs with
  | nil =>
    intro seq seq' out _ hE hfin _
    simp only [gq, findGrp] at hE
    rw [← hE, detectFinal_nil] at hfin
    cases hfin
  | cons G gs ih =>
    intro seq seq' out hwf hE hfin h
    by_cases hk : G.key = g
    · have hq : G.queue = E := by simpa [gq, findGrp, hk] using hE
      have hn : findGrp g gs = none :=
        findGrp_none_of_not_mem (hk ▸ (List.nodup_cons.mp hwf.nodup).1)
      simp only [drainGroups, hq, hfin, if_true] at h
      obtain ⟨⟨s1, o1⟩, h1, h⟩ := bind_ok.mp h
      obtain ⟨⟨s2, o2⟩, h2, h⟩ := bind_ok.mp h
      simp only [pure_ok, Prod.mk.injEq] at h
      obtain ⟨rfl, rfl⟩ := h
      have hc := buildFlows_cat h1 (k := g) (fun q hq' => by
        have := (hwf.cat G (by simp) q (hq ▸ hq')).2
        rw [hk] at this; exact this)
      refine ⟨seq, s1, o1, h1, ?_⟩
      rw [flowsOf_append, flowsOf_all hc, drain_B g t0 gs s1 s2 o2 hwf.tail hn h2, List.append_nil]
    · have hE' : gq g gs = E := by simpa [gq, findGrp, hk] using hE
      simp only [drainGroups] at h
      split at h
      · obtain ⟨⟨s1, o1⟩, h1, h⟩ := bind_ok.mp h
        obtain ⟨⟨s2, o2⟩, h2, h⟩ := bind_ok.mp h
        simp only [pure_ok, Prod.mk.injEq] at h
        obtain ⟨rfl, rfl⟩ := h
        have hc := buildFlows_cat h1 (k := G.key) (fun q hq => (hwf.cat G (by simp) q hq).2)
        obtain ⟨a, b, c, d, e⟩ := ih s1 s2 o2 hwf.tail hE' hfin h2
        exact ⟨a, b, c, d, by rw [flowsOf_append, flowsOf_none hk hc]; simpa using e⟩
      · split at h
        · exact ih seq seq' out hwf.tail hE' hfin h
        · exact absurd h throw_ne_ok

/-- **A group that is judged final as a whole, of which no strict prefix is judged final, in a trace
shorter than the stale threshold, is emitted exactly once, with all of its events.** -/
theorem group_emitted_whole (es out : List Ev) (ht : Tame t0 es) (hE : qsOf g es = E)
    (hfin : detectFinal E = true) (hno : ∀ p s, p ++ s = E → detectFinal p = true → s = [])
    (h : extractAll es = .ok out) :
    ∃ sq sq' f, buildFlows sq E = .ok (sq', f) ∧ (flowsOf g out).Perm f := by
  simp only [extractAll] at h
  obtain ⟨⟨st, o1⟩, h1, h⟩ := bind_ok.mp h
  obtain ⟨⟨s2, o2⟩, h2, h⟩ := bind_ok.mp h
  simp only [pure_ok] at h
  subst h
  have hwf0 : WF t0 ({} : St).groups := ⟨by simp, by intro G hG; simp at hG, by intro G hG; simp at hG⟩
  obtain ⟨w, _, r⟩ := stream_A g E t0 hno es {} st o1 hwf0 rfl ht (by simpa [gq, findGrp] using hE) h1
  rcases r with ⟨r1, r2⟩ | ⟨r1, sq, sq', f, r2, r3⟩
  · obtain ⟨a, b, c, d, e⟩ := drain_A g E t0 st.groups st.seq s2 o2 w r1 hfin h2
    exact ⟨a, b, c, d, by rw [flowsOf_append, r2]; simpa using e⟩
  · refine ⟨sq, sq', f, r2, ?_⟩
    rw [flowsOf_append, drain_B g t0 st.groups st.seq s2 o2 w r1 h2, List.append_nil]
    exact r3

end track


/-! ### `detect_final` as per-sync-group aggregates -/

def lookupSG (t : String) : List (String × SG) → Option SG
  | [] => none
  | (k, s) :: m => if k = t then some s else lookupSG t m

theorem lookup_sgUpdate (t : String) (q : Q) (m : List (String × SG)) :
    lookupSG t (sgUpdate q m) =
      if q.h.sync = t then some (sgStep ((lookupSG t m).getD {}) q) else lookupSG t m := by
  induction m with
  | nil =>
    simp only [sgUpdate, lookupSG]
    split <;> simp
  | cons a m ih =>
    obtain ⟨k, s⟩ := a
    simp only [sgUpdate]
    split
    · rename_i hk
      simp only [lookupSG]
      by_cases ht : q.h.sync = t
      · simp [ht, hk.trans ht]
      · have : ¬ k = t := fun h => ht (hk.symm.trans h)
        simp [ht, this]
    · rename_i hk
      simp only [lookupSG]
      by_cases hkt : k = t
      · have : ¬ q.h.sync = t := fun h => hk (hkt.trans h.symm)
        simp [hkt, this]
      · simp only [hkt, if_false]; exact ih

/-- fold of one sync group's events onto an optional previous state -/
def foldOpt (o : Option SG) (l : List Q) : Option SG :=
  match l with
  | [] => o
  | _ :: _ => some (l.foldl sgStep (o.getD {}))

theorem foldOpt_cons (o : Option SG) (q : Q) (l : List Q) :
    foldOpt o (q :: l) = foldOpt (some (sgStep (o.getD {}) q)) l := by
  cases l <;> simp [foldOpt]

theorem lookup_sgFold (t : String) : ∀ (qs : List Q) (m : List (String × SG)),
    lookupSG t (sgFold m qs) = foldOpt (lookupSG t m) (qs.filter (fun q => decide (q.h.sync = t))) := by
  intro qs
  induction qs with
  | nil => intro m; simp [sgFold, foldOpt]
  | cons q qs ih =>
    intro m
    simp only [sgFold, ih, lookup_sgUpdate]
    by_cases ht : q.h.sync = t
    · simp [ht, foldOpt_cons]
    · simp [ht]

theorem keys_sgUpdate (q : Q) (m : List (String × SG)) :
    (sgUpdate q m).map (·.1) = if q.h.sync ∈ m.map (·.1) then m.map (·.1) else m.map (·.1) ++ [q.h.sync] := by
  induction m with
  | nil => simp [sgUpdate]
  | cons a m ih =>
    obtain ⟨k, s⟩ := a
    simp only [sgUpdate]
    split
    · rename_i hk; simp [hk]
    · rename_i hk
      simp only [List.map_cons, ih, List.mem_cons]
      have : ¬ q.h.sync = k := fun h => hk h.symm
      by_cases hm : q.h.sync ∈ m.map (·.1)
      · simp [hm]
      · simp [hm, this]

theorem keys_sgFold : ∀ (qs : List Q) (m : List (String × SG)), (m.map (·.1)).Nodup →
    ((sgFold m qs).map (·.1)).Nodup ∧
    ∀ t, t ∈ (sgFold m qs).map (·.1) ↔ t ∈ m.map (·.1) ∨ ∃ q ∈ qs, q.h.sync = t := by
  intro qs
  induction qs with
  | nil => intro m hn; simp [sgFold, hn]
  | cons q qs ih =>
    intro m hn
    have hn' : ((sgUpdate q m).map (·.1)).Nodup := by
      rw [keys_sgUpdate]
      split
      · exact hn
      · rename_i hm
        exact List.nodup_append.mpr ⟨hn, by simp, by
          intro a ha b hb; simp only [List.mem_singleton] at hb; subst hb; intro hab; exact hm (hab ▸ ha)⟩
    obtain ⟨a, b⟩ := ih (sgUpdate q m) hn'
    refine ⟨a, ?_⟩
    intro t
    simp only [sgFold, b, keys_sgUpdate]
    split
    · rename_i hm
      constructor
      · rintro (h | ⟨x, hx, rfl⟩)
        · exact Or.inl h
        · exact Or.inr ⟨x, List.mem_cons_of_mem _ hx, rfl⟩
      · rintro (h | ⟨x, hx, rfl⟩)
        · exact Or.inl h
        · rcases List.mem_cons.mp hx with rfl | hx
          · exact Or.inl hm
          · exact Or.inr ⟨x, hx, rfl⟩
    · constructor
      · rintro (h | ⟨x, hx, rfl⟩)
        · rcases List.mem_append.mp h with h | h
          · exact Or.inl h
          · simp only [List.mem_singleton] at h; subst h; exact Or.inr ⟨q, by simp, rfl⟩
        · exact Or.inr ⟨x, List.mem_cons_of_mem _ hx, rfl⟩
      · rintro (h | ⟨x, hx, rfl⟩)
        · exact Or.inl (List.mem_append_left _ h)
        · rcases List.mem_cons.mp hx with rfl | hx
          · exact Or.inl (List.mem_append_right _ (by simp))
          · exact Or.inr ⟨x, hx, rfl⟩

theorem all_closed_of_lookup : ∀ (m : List (String × SG)), (m.map (·.1)).Nodup →
    (∀ t ∈ m.map (·.1), ∃ s, lookupSG t m = some s ∧ s.closed = true) → m.all (fun p => p.2.closed) = true := by
  intro m
  induction m with
  | nil => intro _ _; rfl
  | cons a m ih =>
    obtain ⟨k, s⟩ := a
    intro hn h
    simp only [List.map_cons, List.nodup_cons] at hn
    simp only [List.all_cons, Bool.and_eq_true]
    constructor
    · obtain ⟨s', hs', hc⟩ := h k (by simp)
      simp only [lookupSG, if_true, Option.some.injEq] at hs'
      subst hs'; exact hc
    · apply ih hn.2
      intro t ht
      obtain ⟨s', hs', hc⟩ := h t (by simp [ht])
      have : ¬ k = t := fun hk => hn.1 (hk ▸ ht)
      simp only [lookupSG, this, if_false] at hs'
      exact ⟨s', hs', hc⟩

theorem two_le_length {α : Type} {l : List α} (hn : l.Nodup) {a b : α} (ha : a ∈ l) (hb : b ∈ l) (hab : a ≠ b) :
    2 ≤ l.length := by
  match l, hn, ha, hb with
  | [], _, ha, _ => simp at ha
  | [x], _, ha, hb =>
    simp only [List.mem_singleton] at ha hb
    exact absurd (ha.trans hb.symm) hab
  | _ :: _ :: _, _, _, _ => simp

/-- `detect_final` holds as soon as two different sync tags occur and every sync group, folded on its own, is closed -/
theorem detectFinal_of_tags (q : List Q) (a b : Q) (ha : a ∈ q) (hb : b ∈ q) (hab : a.h.sync ≠ b.h.sync)
    (hcl : ∀ x ∈ q, ((q.filter (fun y => decide (y.h.sync = x.h.sync))).foldl sgStep {}).closed = true) :
    detectFinal q = true := by
  obtain ⟨hn, hk⟩ := keys_sgFold q [] (by simp)
  simp only [detectFinal, Bool.and_eq_true, decide_eq_true_eq]
  constructor
  · have h1 : a.h.sync ∈ (sgFold [] q).map (·.1) := (hk _).mpr (Or.inr ⟨a, ha, rfl⟩)
    have h2 : b.h.sync ∈ (sgFold [] q).map (·.1) := (hk _).mpr (Or.inr ⟨b, hb, rfl⟩)
    have := two_le_length hn h1 h2 hab
    simp only [List.length_map] at this
    omega
  · apply all_closed_of_lookup _ hn
    intro t ht
    rcases (hk t).mp ht with h | ⟨x, hx, rfl⟩
    · simp at h
    · rw [lookup_sgFold]
      have hne : x ∈ q.filter (fun y => decide (y.h.sync = x.h.sync)) := by simp [hx]
      cases hf : q.filter (fun y => decide (y.h.sync = x.h.sync)) with
      | nil => rw [hf] at hne; simp at hne
      | cons y ys =>
        refine ⟨_, rfl, ?_⟩
        have := hcl x hx
        rw [hf] at this
        simpa [lookupSG] using this

/-! ### aggregates of one sync group -/

def opnOf (q : Q) : Nat :=
  if q.h.typ = TYPE_BCLIST then q.h.peers.length
  else if q.h.typ = TYPE_MCAST then 1 else if q.h.typ = TYPE_SEND then 1 else 0

def clsOf (q : Q) : Nat := if q.h.typ = TYPE_DONE then 1 else 0

theorem sgStep_opn (s : SG) (q : Q) : (sgStep s q).opn = s.opn + opnOf q := by
  simp only [sgStep, opnOf]
  split
  · rfl
  · split
    · rfl
    · split <;> rfl

theorem sgStep_cls (s : SG) (q : Q) : (sgStep s q).cls = s.cls + clsOf q := by
  simp only [sgStep, clsOf]
  split <;> rfl

theorem fold_opn : ∀ (l : List Q) (s : SG), (l.foldl sgStep s).opn = s.opn + (l.map opnOf).sum := by
  intro l
  induction l with
  | nil => intro s; simp
  | cons a l ih => intro s; simp only [List.foldl_cons, ih, sgStep_opn, List.map_cons, List.sum_cons]; omega

theorem fold_cls : ∀ (l : List Q) (s : SG), (l.foldl sgStep s).cls = s.cls + (l.map clsOf).sum := by
  intro l
  induction l with
  | nil => intro s; simp
  | cons a l ih => intro s; simp only [List.foldl_cons, ih, sgStep_cls, List.map_cons, List.sum_cons]; omega

theorem mem_setAdd {s : List Int} {x y : Int} : x ∈ setAdd s y ↔ x ∈ s ∨ x = y := by
  unfold setAdd
  split
  · rename_i h
    constructor
    · exact Or.inl
    · rintro (h' | rfl)
      · exact h'
      · exact h
  · simp

theorem nodup_setAdd {s : List Int} {y : Int} (h : s.Nodup) : (setAdd s y).Nodup := by
  unfold setAdd
  split
  · exact h
  · rename_i hm
    exact List.nodup_append.mpr ⟨h, by simp, by
      intro a ha b hb; simp only [List.mem_singleton] at hb; subst hb; intro hab; exact hm (hab ▸ ha)⟩

theorem length_setAdd_le (s : List Int) (y : Int) : s.length ≤ (setAdd s y).length := by
  unfold setAdd; split <;> simp

theorem setAddAll_spec : ∀ (l s : List Int), (s.Nodup → (setAddAll s l).Nodup) ∧ s.length ≤ (setAddAll s l).length ∧
    ∀ x, x ∈ setAddAll s l ↔ x ∈ s ∨ x ∈ l := by
  intro l
  induction l with
  | nil => intro s; simp [setAddAll]
  | cons a l ih =>
    intro s
    obtain ⟨h1, h2, h3⟩ := ih (setAdd s a)
    refine ⟨fun hn => h1 (nodup_setAdd hn), Nat.le_trans (length_setAdd_le s a) h2, ?_⟩
    intro x
    simp only [setAddAll, h3, mem_setAdd, List.mem_cons]
    constructor
    · rintro ((h | h) | h)
      · exact Or.inl h
      · exact Or.inr (Or.inl h)
      · exact Or.inr (Or.inr h)
    · rintro (h | h | h)
      · exact Or.inl (Or.inl h)
      · exact Or.inl (Or.inr h)
      · exact Or.inr h

theorem sgStep_peers (s : SG) (q : Q) : (sgStep s q).peers = setAddAll (setAdd s.peers q.ev.pid) q.h.peers := rfl

theorem fold_peers : ∀ (l : List Q) (s : SG), (s.peers.Nodup → (l.foldl sgStep s).peers.Nodup) ∧
    s.peers.length ≤ (l.foldl sgStep s).peers.length ∧
    ∀ x, x ∈ (l.foldl sgStep s).peers ↔ x ∈ s.peers ∨ ∃ q ∈ l, x = q.ev.pid ∨ x ∈ q.h.peers := by
  intro l
  induction l with
  | nil => intro s; simp
  | cons a l ih =>
    intro s
    obtain ⟨h1, h2, h3⟩ := ih (sgStep s a)
    obtain ⟨g1, g2, g3⟩ := setAddAll_spec a.h.peers (setAdd s.peers a.ev.pid)
    refine ⟨?_, ?_, ?_⟩
    · intro hn
      exact h1 (by rw [sgStep_peers]; exact g1 (nodup_setAdd hn))
    · simp only [List.foldl_cons]
      refine Nat.le_trans ?_ h2
      rw [sgStep_peers]
      exact Nat.le_trans (length_setAdd_le _ _) g2
    · intro x
      simp only [List.foldl_cons, h3, sgStep_peers, g3, mem_setAdd, List.mem_cons]
      constructor
      · rintro (((h | h) | h) | ⟨q, hq, h⟩)
        · exact Or.inl h
        · exact Or.inr ⟨a, Or.inl rfl, Or.inl h⟩
        · exact Or.inr ⟨a, Or.inl rfl, Or.inr h⟩
        · exact Or.inr ⟨q, Or.inr hq, h⟩
      · rintro (h | ⟨q, (rfl | hq), h⟩)
        · exact Or.inl (Or.inl (Or.inl h))
        · rcases h with h | h
          · exact Or.inl (Or.inl (Or.inr h))
          · exact Or.inl (Or.inr h)
        · exact Or.inr ⟨q, hq, h⟩

theorem sgStep_mcast (s : SG) (q : Q) : (sgStep s q).mcast =
    (s.mcast || decide ((sgStep s q).peers.length > 2) || decide (q.h.typ = TYPE_BCLIST) || decide (q.h.typ = TYPE_MCAST)) := rfl

theorem fold_mcast_stick : ∀ (l : List Q) (s : SG), s.mcast = true → (l.foldl sgStep s).mcast = true := by
  intro l
  induction l with
  | nil => intro s h; exact h
  | cons a l ih => intro s h; exact ih _ (by rw [sgStep_mcast, h]; rfl)

theorem fold_mcast_true : ∀ (l : List Q) (s : SG), (∃ q ∈ l, q.h.typ = TYPE_BCLIST) → (l.foldl sgStep s).mcast = true := by
  intro l
  induction l with
  | nil => intro s h; obtain ⟨q, hq, _⟩ := h; simp at hq
  | cons a l ih =>
    intro s h
    obtain ⟨q, hq, ht⟩ := h
    rcases List.mem_cons.mp hq with rfl | hq
    · exact fold_mcast_stick l _ (by rw [sgStep_mcast]; simp [ht])
    · exact ih _ ⟨q, hq, ht⟩

theorem fold_mcast_false : ∀ (l : List Q) (s : SG), s.mcast = false → (l.foldl sgStep s).peers.length ≤ 2 →
    (∀ q ∈ l, q.h.typ ≠ TYPE_BCLIST ∧ q.h.typ ≠ TYPE_MCAST) → (l.foldl sgStep s).mcast = false := by
  intro l
  induction l with
  | nil => intro s h _ _; exact h
  | cons a l ih =>
    intro s h hlen hty
    apply ih (sgStep s a) ?_ hlen (fun q hq => hty q (List.mem_cons_of_mem _ hq))
    have hmono := (fold_peers l (sgStep s a)).2.1
    simp only [List.foldl_cons] at hlen
    have h1 : ¬ (sgStep s a).peers.length > 2 := by omega
    obtain ⟨t1, t2⟩ := hty a (by simp)
    rw [sgStep_mcast]
    simp [h, h1, t1, t2]

/-- `closed` as recomputed by every step from the state it has just produced -/
def closedFn (s : SG) : Bool :=
  decide (s.peers.length > 1) && decide (s.cls > 0) &&
    (if s.mcast then decide (2 * s.peers.length = s.opn + 1) && decide (s.cls + 1 = s.peers.length)
     else decide (s.opn > 0) && decide (s.cls + 1 = s.peers.length))

theorem sgStep_closed (s : SG) (q : Q) : (sgStep s q).closed = closedFn (sgStep s q) := rfl

theorem fold_closed : ∀ (l : List Q) (s : SG), l ≠ [] → (l.foldl sgStep s).closed = closedFn (l.foldl sgStep s) := by
  intro l
  induction l with
  | nil => intro s h; exact absurd rfl h
  | cons a l ih =>
    intro s _
    cases l with
    | nil => exact sgStep_closed s a
    | cons b l => exact ih (sgStep s a) (by simp)

/-! ### the complete chain all-reduce group -/

/-- the helper events of one chain all-reduce of `R` ranks (everything `detect_final` does not read —
timestamps, durations, tids, names — is arbitrary): `snd r`/`rcv r` the single cast `r → r+1` and its
receive (sync tag `tag r`), on the last rank the BC list naming ranks `0..R-2`, one segment send `xs p` per
other rank, the multicast `md`, and a receive `mr p` on every other rank (sync tag `mtag`) -/
structure ChainSpec where
  R : Nat
  tag : Nat → String
  mtag : String
  snd : Nat → Q
  rcv : Nat → Q
  bc : Q
  xs : Nat → Q
  md : Q
  mr : Nat → Q

namespace ChainSpec

def chain (c : ChainSpec) : List Q := (List.range (c.R - 1)).flatMap (fun r => [c.snd r, c.rcv r])
def mpart (c : ChainSpec) : List Q :=
  [c.bc] ++ (List.range (c.R - 1)).map c.xs ++ [c.md] ++ (List.range (c.R - 1)).map c.mr
/-- the group in its canonical order -/
def list (c : ChainSpec) : List Q := c.chain ++ c.mpart

structure OK (c : ChainSpec) : Prop where
  two : 2 ≤ c.R
  tag_inj : ∀ i j, i < c.R - 1 → j < c.R - 1 → c.tag i = c.tag j → i = j
  mtag_ne : ∀ i, i < c.R - 1 → c.tag i ≠ c.mtag
  snd : ∀ r, r < c.R - 1 → (c.snd r).h.sync = c.tag r ∧ (c.snd r).h.typ = TYPE_SEND ∧
    (c.snd r).h.peers = [((r + 1 : Nat) : Int)] ∧ (c.snd r).ev.pid = ((r : Nat) : Int)
  rcv : ∀ r, r < c.R - 1 → (c.rcv r).h.sync = c.tag r ∧ (c.rcv r).h.typ = TYPE_DONE ∧
    (c.rcv r).h.peers = [((r : Nat) : Int)] ∧ (c.rcv r).ev.pid = ((r + 1 : Nat) : Int)
  bc : c.bc.h.sync = c.mtag ∧ c.bc.h.typ = TYPE_BCLIST ∧
    c.bc.h.peers = (List.range (c.R - 1)).map (fun p => ((p : Nat) : Int)) ∧ c.bc.ev.pid = ((c.R - 1 : Nat) : Int)
  xs : ∀ p, p < c.R - 1 → (c.xs p).h.sync = c.mtag ∧ (c.xs p).h.typ = TYPE_SEND ∧
    (c.xs p).h.peers = [((p : Nat) : Int)] ∧ (c.xs p).ev.pid = ((c.R - 1 : Nat) : Int)
  md : c.md.h.sync = c.mtag ∧ c.md.h.typ = TYPE_MCAST ∧ c.md.h.peers = [] ∧ c.md.ev.pid = ((c.R - 1 : Nat) : Int)
  mr : ∀ p, p < c.R - 1 → (c.mr p).h.sync = c.mtag ∧ (c.mr p).h.typ = TYPE_DONE ∧
    (c.mr p).h.peers = [((c.R - 1 : Nat) : Int)] ∧ (c.mr p).ev.pid = ((p : Nat) : Int)

end ChainSpec

theorem flatMap_congr' {α β : Type} {l : List α} {f g : α → List β} (h : ∀ a ∈ l, f a = g a) :
    l.flatMap f = l.flatMap g := by
  induction l with
  | nil => rfl
  | cons a l ih =>
    simp only [List.flatMap_cons]
    rw [h a (by simp), ih (fun x hx => h x (List.mem_cons_of_mem _ hx))]

theorem flatMap_range_ite {β : Type} (g : Nat → List β) (r0 : Nat) : ∀ n,
    (List.range n).flatMap (fun r => if r = r0 then g r else []) = if r0 < n then g r0 else [] := by
  intro n
  induction n with
  | zero => simp
  | succ n ih =>
    rw [List.range_succ, List.flatMap_append, ih]
    by_cases h1 : r0 < n
    · have : ¬ n = r0 := by omega
      simp [h1, this, show r0 < n + 1 by omega]
    · by_cases h2 : n = r0
      · subst h2; simp
      · simp [h1, h2, show ¬ r0 < n + 1 by omega]

theorem sum_map_eq_length {α : Type} (f : α → Nat) : ∀ (l : List α), (∀ a ∈ l, f a = 1) → (l.map f).sum = l.length := by
  intro l
  induction l with
  | nil => intro _; rfl
  | cons a l ih =>
    intro h
    simp only [List.map_cons, List.sum_cons, List.length_cons, h a (by simp),
      ih (fun x hx => h x (List.mem_cons_of_mem _ hx))]
    omega

theorem sum_map_eq_zero {α : Type} (f : α → Nat) : ∀ (l : List α), (∀ a ∈ l, f a = 0) → (l.map f).sum = 0 := by
  intro l
  induction l with
  | nil => intro _; rfl
  | cons a l ih =>
    intro h
    simp only [List.map_cons, List.sum_cons, h a (by simp), ih (fun x hx => h x (List.mem_cons_of_mem _ hx))]

section chain
variable (c : ChainSpec) (ok : c.OK)
include ok

theorem chain_filter_tag (r0 : Nat) (h0 : r0 < c.R - 1) :
    c.list.filter (fun y => decide (y.h.sync = c.tag r0)) = [c.snd r0, c.rcv r0] := by
  have hA : c.chain.filter (fun y => decide (y.h.sync = c.tag r0)) = [c.snd r0, c.rcv r0] := by
    simp only [ChainSpec.chain, List.filter_flatMap]
    rw [flatMap_congr' (g := fun r => if r = r0 then [c.snd r, c.rcv r] else [])]
    · rw [flatMap_range_ite]; simp [h0]
    · intro r hr
      have hr' : r < c.R - 1 := List.mem_range.mp hr
      have e1 := (ok.snd r hr').1
      have e2 := (ok.rcv r hr').1
      by_cases hrr : r = r0
      · subst hrr; simp [e1, e2]
      · have : ¬ c.tag r = c.tag r0 := fun h => hrr (ok.tag_inj r r0 hr' h0 h)
        simp [e1, e2, this, hrr]
  have hM : c.mpart.filter (fun y => decide (y.h.sync = c.tag r0)) = [] := by
    simp only [List.filter_eq_nil_iff, ChainSpec.mpart, List.mem_append, List.mem_singleton, List.mem_map, List.mem_range]
    have hne : ¬ c.mtag = c.tag r0 := fun h => ok.mtag_ne r0 h0 h.symm
    rintro y (((rfl | ⟨p, hp, rfl⟩) | rfl) | ⟨p, hp, rfl⟩)
    · simp [ok.bc.1, hne]
    · simp [(ok.xs p hp).1, hne]
    · simp [ok.md.1, hne]
    · simp [(ok.mr p hp).1, hne]
  simp [ChainSpec.list, hA, hM]

theorem chain_filter_mtag : c.list.filter (fun y => decide (y.h.sync = c.mtag)) = c.mpart := by
  have hA : c.chain.filter (fun y => decide (y.h.sync = c.mtag)) = [] := by
    simp only [List.filter_eq_nil_iff, ChainSpec.chain, List.mem_flatMap, List.mem_range]
    rintro y ⟨r, hr, hy⟩
    simp only [List.mem_cons, List.not_mem_nil, or_false] at hy
    rcases hy with rfl | rfl
    · simp [(ok.snd r hr).1, ok.mtag_ne r hr]
    · simp [(ok.rcv r hr).1, ok.mtag_ne r hr]
  have hM : c.mpart.filter (fun y => decide (y.h.sync = c.mtag)) = c.mpart := by
    simp only [List.filter_eq_self, ChainSpec.mpart, List.mem_append, List.mem_singleton, List.mem_map, List.mem_range]
    rintro y (((rfl | ⟨p, hp, rfl⟩) | rfl) | ⟨p, hp, rfl⟩)
    · simp [ok.bc.1]
    · simp [(ok.xs p hp).1]
    · simp [ok.md.1]
    · simp [(ok.mr p hp).1]
  simp [ChainSpec.list, hA, hM]

theorem closed_chain_tag (r0 : Nat) (h0 : r0 < c.R - 1) (l : List Q) (hp : l.Perm [c.snd r0, c.rcv r0]) :
    (l.foldl sgStep {}).closed = true := by
  obtain ⟨s1, s2, s3, s4⟩ := ok.snd r0 h0
  obtain ⟨r1, r2, r3, r4⟩ := ok.rcv r0 h0
  have hne : l ≠ [] := by intro h; subst h; simpa using hp.length_eq
  rw [fold_closed l {} hne]
  have hopn : (l.foldl sgStep {}).opn = 1 := by
    rw [fold_opn, (hp.map opnOf).sum_nat]
    simp [opnOf, s2, r2, TYPE_SEND, TYPE_DONE, TYPE_BCLIST, TYPE_MCAST]
  have hcls : (l.foldl sgStep {}).cls = 1 := by
    rw [fold_cls, (hp.map clsOf).sum_nat]
    simp [clsOf, s2, r2, TYPE_SEND, TYPE_DONE]
  obtain ⟨pn, _, pm⟩ := fold_peers l {}
  have hperm : (l.foldl sgStep {}).peers.Perm [((r0 : Nat) : Int), ((r0 + 1 : Nat) : Int)] := by
    apply (List.perm_ext_iff_of_nodup (pn (by simp)) (by simp; omega)).mpr
    intro x
    rw [pm x]
    simp only [List.not_mem_nil, false_or, List.mem_cons, or_false]
    constructor
    · rintro ⟨q, hq, hx⟩
      have := hp.mem_iff.mp hq
      simp only [List.mem_cons, List.not_mem_nil, or_false] at this
      rcases this with rfl | rfl
      · rw [s3, s4] at hx; simpa using hx
      · rw [r3, r4] at hx; simpa [or_comm] using hx
    · rintro (rfl | rfl)
      · exact ⟨c.snd r0, hp.mem_iff.mpr (by simp), Or.inl s4.symm⟩
      · exact ⟨c.rcv r0, hp.mem_iff.mpr (by simp), Or.inl r4.symm⟩
  have hlen : (l.foldl sgStep {}).peers.length = 2 := by simpa using hperm.length_eq
  have hmc : (l.foldl sgStep {}).mcast = false := by
    apply fold_mcast_false l {} rfl (by omega)
    intro q hq
    have := hp.mem_iff.mp hq
    simp only [List.mem_cons, List.not_mem_nil, or_false] at this
    rcases this with rfl | rfl
    · simp [s2, TYPE_SEND, TYPE_BCLIST, TYPE_MCAST]
    · simp [r2, TYPE_DONE, TYPE_BCLIST, TYPE_MCAST]
  simp [closedFn, hopn, hcls, hlen, hmc]

theorem closed_mtag (l : List Q) (hp : l.Perm c.mpart) : (l.foldl sgStep {}).closed = true := by
  obtain ⟨b1, b2, b3, b4⟩ := ok.bc
  obtain ⟨d1, d2, d3, d4⟩ := ok.md
  have hbc : c.bc ∈ l := hp.mem_iff.mpr (by simp [ChainSpec.mpart])
  have hne : l ≠ [] := by intro h; subst h; simp at hbc
  rw [fold_closed l {} hne]
  have hopn : (l.foldl sgStep {}).opn = (c.R - 1) + (c.R - 1) + 1 := by
    rw [fold_opn, (hp.map opnOf).sum_nat]
    simp only [ChainSpec.mpart, List.map_append, List.sum_append, List.map_cons, List.map_nil, List.sum_cons, List.sum_nil]
    rw [sum_map_eq_length opnOf _ (by
        intro a ha
        obtain ⟨p, hp', rfl⟩ := List.mem_map.mp ha
        simp [opnOf, (ok.xs p (List.mem_range.mp hp')).2.1, TYPE_SEND, TYPE_BCLIST, TYPE_MCAST]),
      sum_map_eq_zero opnOf _ (by
        intro a ha
        obtain ⟨p, hp', rfl⟩ := List.mem_map.mp ha
        simp [opnOf, (ok.mr p (List.mem_range.mp hp')).2.1, TYPE_SEND, TYPE_DONE, TYPE_BCLIST, TYPE_MCAST])]
    simp [opnOf, b2, b3, d2, TYPE_BCLIST, TYPE_MCAST]
  have hcls : (l.foldl sgStep {}).cls = c.R - 1 := by
    rw [fold_cls, (hp.map clsOf).sum_nat]
    simp only [ChainSpec.mpart, List.map_append, List.sum_append, List.map_cons, List.map_nil, List.sum_cons, List.sum_nil]
    rw [sum_map_eq_zero clsOf ((List.range (c.R - 1)).map c.xs) (by
        intro a ha
        obtain ⟨p, hp', rfl⟩ := List.mem_map.mp ha
        simp [clsOf, (ok.xs p (List.mem_range.mp hp')).2.1, TYPE_SEND, TYPE_DONE]),
      sum_map_eq_length clsOf ((List.range (c.R - 1)).map c.mr) (by
        intro a ha
        obtain ⟨p, hp', rfl⟩ := List.mem_map.mp ha
        simp [clsOf, (ok.mr p (List.mem_range.mp hp')).2.1])]
    simp [clsOf, b2, d2, TYPE_BCLIST, TYPE_MCAST, TYPE_DONE]
  obtain ⟨pn, _, pm⟩ := fold_peers l {}
  have hR := ok.two
  have hperm : (l.foldl sgStep {}).peers.Perm ((List.range c.R).map (fun k => ((k : Nat) : Int))) := by
    have hnd : ((List.range c.R).map (fun k => ((k : Nat) : Int))).Nodup := by
      rw [List.Nodup, List.pairwise_map]
      exact (List.nodup_range (n := c.R)).imp (fun h hc => h (by omega))
    apply (List.perm_ext_iff_of_nodup (pn (by simp)) hnd).mpr
    intro x
    rw [pm x]
    simp only [List.not_mem_nil, false_or, List.mem_map, List.mem_range]
    constructor
    · rintro ⟨q, hq, hx⟩
      have := hp.mem_iff.mp hq
      simp only [ChainSpec.mpart, List.mem_append, List.mem_singleton, List.mem_map, List.mem_range] at this
      rcases this with ((rfl | ⟨p, hp', rfl⟩) | rfl) | ⟨p, hp', rfl⟩
      · rw [b3, b4] at hx
        rcases hx with rfl | hx
        · exact ⟨c.R - 1, by omega, rfl⟩
        · obtain ⟨k, hk, rfl⟩ := List.mem_map.mp hx
          exact ⟨k, by have := List.mem_range.mp hk; omega, rfl⟩
      · obtain ⟨_, _, x3, x4⟩ := ok.xs p hp'
        rw [x3, x4] at hx
        rcases hx with rfl | hx
        · exact ⟨c.R - 1, by omega, rfl⟩
        · simp only [List.mem_singleton] at hx; subst hx; exact ⟨p, by omega, rfl⟩
      · rw [d3, d4] at hx
        rcases hx with rfl | hx
        · exact ⟨c.R - 1, by omega, rfl⟩
        · simp at hx
      · obtain ⟨_, _, x3, x4⟩ := ok.mr p hp'
        rw [x3, x4] at hx
        rcases hx with rfl | hx
        · exact ⟨p, by omega, rfl⟩
        · simp only [List.mem_singleton] at hx; subst hx; exact ⟨c.R - 1, by omega, rfl⟩
    · rintro ⟨k, hk, rfl⟩
      by_cases hk' : k < c.R - 1
      · refine ⟨c.mr k, hp.mem_iff.mpr ?_, Or.inl (ok.mr k hk').2.2.2.symm⟩
        simp only [ChainSpec.mpart, List.mem_append, List.mem_map, List.mem_range]
        exact Or.inr ⟨k, hk', rfl⟩
      · have : k = c.R - 1 := by omega
        subst this
        exact ⟨c.bc, hbc, Or.inl b4.symm⟩
  have hlen : (l.foldl sgStep {}).peers.length = c.R := by simpa using hperm.length_eq
  have hmc : (l.foldl sgStep {}).mcast = true := fold_mcast_true l {} ⟨c.bc, hbc, b2⟩
  simp only [closedFn, hopn, hcls, hlen, hmc, if_true, Bool.and_eq_true, decide_eq_true_eq]
  omega

/-- **Complete group detected, for every arrival order.**  For every number of ranks `R ≥ 2`, every
decoration (timestamps, durations, tids, names) and every permutation `q` of the events of a complete
chain all-reduce group, `detect_final` holds of `q`. -/
theorem detectFinal_chain (q : List Q) (hp : q.Perm c.list) : detectFinal q = true := by
  have hR := ok.two
  have h0 : 0 < c.R - 1 := by omega
  have hs : c.snd 0 ∈ q := hp.mem_iff.mpr (by
    simp only [ChainSpec.list, ChainSpec.chain, List.mem_append, List.mem_flatMap, List.mem_range]
    exact Or.inl ⟨0, h0, by simp⟩)
  have hb : c.bc ∈ q := hp.mem_iff.mpr (by simp [ChainSpec.list, ChainSpec.mpart])
  apply detectFinal_of_tags q (c.snd 0) c.bc hs hb (by rw [(ok.snd 0 h0).1, ok.bc.1]; exact ok.mtag_ne 0 h0)
  intro x hx
  have hx' := hp.mem_iff.mp hx
  simp only [ChainSpec.list, ChainSpec.chain, ChainSpec.mpart, List.mem_append, List.mem_flatMap, List.mem_range,
    List.mem_singleton, List.mem_map] at hx'
  have chainCase : ∀ r, r < c.R - 1 → x.h.sync = c.tag r →
      ((q.filter (fun y => decide (y.h.sync = x.h.sync))).foldl sgStep {}).closed = true := by
    intro r hr hsync
    rw [hsync]
    apply closed_chain_tag c ok r hr
    rw [← chain_filter_tag c ok r hr]
    exact hp.filter _
  have mCase : x.h.sync = c.mtag →
      ((q.filter (fun y => decide (y.h.sync = x.h.sync))).foldl sgStep {}).closed = true := by
    intro hsync
    rw [hsync]
    apply closed_mtag c ok
    rw [← chain_filter_mtag c ok]
    exact hp.filter _
  rcases hx' with ⟨r, hr, hy⟩ | (((rfl | ⟨p, hp', rfl⟩) | rfl) | ⟨p, hp', rfl⟩)
  · simp only [List.mem_cons, List.not_mem_nil, or_false] at hy
    rcases hy with rfl | rfl
    · exact chainCase r hr (ok.snd r hr).1
    · exact chainCase r hr (ok.rcv r hr).1
  · exact mCase ok.bc.1
  · exact mCase (ok.xs p hp').1
  · exact mCase ok.md.1
  · exact mCase (ok.mr p hp').1

end chain

end AiuVerif.Flow
