/-
Helper lemmas for C05: ground truth of a device slice, what phase 1 does to a stream (`phase1_ok`),
the reference epoch after phase 1 (`epochFold_items`), and phase 2 on a locally fixed slice (`post_dev`).
-/
import AiuVerif.Model.Normalize
import Mathlib.Tactic.Linarith
import Mathlib.Tactic.FieldSimp
import Mathlib.Tactic.Ring
import Mathlib.Tactic.Positivity
import Mathlib.Algebra.Order.Field.Rat
import Mathlib.Data.Rat.Floor

namespace AiuVerif.Normalize
open AiuVerif.PhaseName

/-! ### ground truth -/

/-- a device slice as it really happened: true (unwrapped) counters `c1 ≤ … ` of TS1 and of TS2.. -/
structure TrueEv where
  uid : Nat
  pid : Int
  name : String
  dur : Rat
  c1 : Int
  rest : List Int

def TrueEv.C (t : TrueEv) : List Int := t.c1 :: t.rest

/-- five counters, non-decreasing, the slice lasts less than one counter period -/
structure TrueEv.Valid (t : TrueEv) : Prop where
  len : t.rest.length = 4
  mono : t.C.Pairwise (· ≤ ·)
  span : ∀ c ∈ t.rest, c < t.c1 + M32

/-- element of an input stream: a device slice (given by its ground truth) or any event without counters -/
inductive Item where
  | dev (t : TrueEv)
  | other (e : Ev)

def Item.Valid : Item → Prop
  | .dev t => t.Valid
  | .other e => e.tsx = none

/-- true counter of the phase start (the counter `_get_ref_ts` names); `c1` when out of range -/
def TrueEv.cref (t : TrueEv) : Int := (t.C[refIdx t.name]?).getD t.c1

/-- what the tracer records: counters modulo 2^32, host time of the phase-start counter `T0 pid + C_ref / f` -/
def observe (f : Rat) (T0 : Int → Rat) : Item → Ev
  | .other e => e
  | .dev t =>
    { uid := t.uid, ph := "X", pid := t.pid, name := t.name, dur := t.dur,
      ts := T0 t.pid + (t.cref : Rat) / f, tsx := some (t.C.map (· % M32)) }

/-- the claimed output: true counters minus `K pid` periods -/
def expected (f : Rat) (T0 : Int → Rat) (K : Int → Int) : Item → Ev
  | .other e => e
  | .dev t =>
    { observe f T0 (.dev t) with
      tsx := some (t.C.map (· - K t.pid * M32)),
      ovc := some (t.c1 / M32 - K t.pid),
      tsxof := firstWrap (t.C.map (· % M32)) }

/-! ### local fix -/

theorem localFixAux_true (C1 P : Int) (Cs : List Int) (hP : C1 ≤ P)
    (hch : (P :: Cs).Pairwise (· ≤ ·)) (hspan : ∀ c ∈ Cs, c < C1 + M32) :
    localFixAux (P - C1 / M32 * M32) (Cs.map (· % M32)) = Cs.map (· - C1 / M32 * M32) := by
  induction Cs generalizing P with
  | nil => rfl
  | cons c cs ih =>
    have hPc : P ≤ c := (List.pairwise_cons.mp hch).1 c (by simp)
    have hc : c < C1 + M32 := hspan c (by simp)
    have htl : (c :: cs).Pairwise (· ≤ ·) := (List.pairwise_cons.mp hch).2
    have key : (if c % M32 < P - C1 / M32 * M32 then c % M32 + M32 else c % M32) = c - C1 / M32 * M32 := by
      unfold M32 at *
      split <;> omega
    simp only [List.map_cons, localFixAux, key]
    congr 1
    exact ih c (by omega) htl (fun x hx => hspan x (by simp [hx]))

theorem localFix_trueEv (t : TrueEv) (h : t.Valid) :
    localFix (t.C.map (· % M32)) = t.C.map (· - t.c1 / M32 * M32) := by
  have key : (if t.c1 % M32 < prev0 then t.c1 % M32 + M32 else t.c1 % M32) = t.c1 - t.c1 / M32 * M32 := by
    unfold M32 prev0
    split <;> omega
  simp only [localFix, TrueEv.C, List.map_cons, localFixAux, key]
  congr 1
  exact localFixAux_true t.c1 t.c1 t.rest (Int.le_refl _) h.mono h.span

theorem refIdx_le (n : String) : refIdx n ≤ 3 := by
  unfold refIdx
  repeat' split
  all_goals omega

theorem TrueEv.cref_get (t : TrueEv) (h : t.Valid) : t.C[refIdx t.name]? = some t.cref := by
  have hl : refIdx t.name < t.C.length := by
    have := refIdx_le t.name
    simp [TrueEv.C, h.len]; omega
  simp [TrueEv.cref, List.getElem?_eq_getElem hl]

/-! ### phase 1 as a pure map plus a fold of the reference epoch -/

/-- what phase 1 does to one event that is within limits -/
def p1Ev (e : Ev) : Ev :=
  if e.ph != "X" then e
  else match e.tsx with
    | none => e
    | some raw => { e with tsx := some (localFix raw), tsxof := firstWrap raw }

/-- `(pid, epoch_start)` contributed by a device slice -/
def epochOf (f : Rat) (e : Ev) : Option (Int × Rat) :=
  if e.ph != "X" then none
  else match e.tsx with
    | none => none
    | some raw => ((localFix raw)[refIdx e.name]?).map (fun cyc => (e.pid, epochStart f e.ts cyc))

def epochFold (f : Rat) (m : Int → Option Rat) : List Ev → (Int → Option Rat)
  | [] => m
  | e :: es =>
    match epochOf f e with
    | none => epochFold f m es
    | some (p, v) => epochFold f (setAt m p (updEpoch (m p) v)) es

/-- the `ZeroDivisionError` of `frequency_stats`, as a predicate on the stream: a `Cmpt Exec` device slice of
zero host duration -/
def execCrash : List Ev → Bool
  | [] => false
  | e :: es =>
    (e.ph == "X" && e.tsx.isSome && hasSub e.name "Cmpt Exec" && decide (e.dur = 0)) || execCrash es

/-- device slices have a reference counter (no `KeyError` branch) -/
def RefOk (e : Ev) : Prop := ∀ raw, e.ph = "X" → e.tsx = some raw → refIdx e.name < raw.length

theorem localFixAux_length (p : Int) (cs : List Int) : (localFixAux p cs).length = cs.length := by
  induction cs generalizing p with
  | nil => rfl
  | cons c cs ih => simp [localFixAux, ih]

theorem localFix_length (cs : List Int) : (localFix cs).length = cs.length := localFixAux_length _ _

theorem phase1_ok (f : Rat) (evs : List Ev) (c : Ctx)
    (hkeep : ∀ e ∈ evs, withinLimits e = true) (href : ∀ e ∈ evs, RefOk e)
    (hexec : execCrash evs = false) :
    phase1 f c evs = .ok (⟨epochFold f c.epoch evs⟩, evs.map p1Ev) := by
  induction evs generalizing c with
  | nil => rfl
  | cons e es ih =>
    have hk : withinLimits e = true := hkeep e (by simp)
    have hr : RefOk e := href e (by simp)
    have hkeep' : ∀ e ∈ es, withinLimits e = true := fun x hx => hkeep x (by simp [hx])
    have href' : ∀ e ∈ es, RefOk e := fun x hx => href x (by simp [hx])
    have hexec2 : (e.ph == "X" && e.tsx.isSome && hasSub e.name "Cmpt Exec" && decide (e.dur = 0)) = false ∧
        execCrash es = false := by
      simpa only [execCrash, Bool.or_eq_false_iff] using hexec
    have hexec' : execCrash es = false := hexec2.2
    by_cases hph : e.ph = "X"
    · cases htsx : e.tsx with
      | none =>
        simp [phase1, step1, hk, hph, htsx, ih c hkeep' href' hexec', p1Ev, epochFold, epochOf]
      | some raw =>
        have hlt : refIdx e.name < (localFix raw).length := by
          rw [localFix_length]; exact hr raw hph htsx
        have hz : (hasSub e.name "Cmpt Exec" && decide (e.dur = 0)) = false := by
          simpa [hph, htsx] using hexec2.1
        have := ih ⟨setAt c.epoch e.pid (updEpoch (c.epoch e.pid) (epochStart f e.ts (localFix raw)[refIdx e.name]))⟩
          hkeep' href' hexec'
        simp [phase1, step1, hk, hph, htsx, List.getElem?_eq_getElem hlt, hz, this, p1Ev, epochFold, epochOf]
    · simp [phase1, step1, hk, hph, ih c hkeep' href' hexec', p1Ev, epochFold, epochOf]

/-- the excluded branch: a zero-length `Cmpt Exec` slice aborts phase 1 with `ZeroDivisionError` -/
theorem phase1_crash (f : Rat) (evs : List Ev) (c : Ctx)
    (hkeep : ∀ e ∈ evs, withinLimits e = true) (href : ∀ e ∈ evs, RefOk e)
    (hexec : execCrash evs = true) :
    phase1 f c evs = .error "zerodiv" := by
  induction evs generalizing c with
  | nil => simp [execCrash] at hexec
  | cons e es ih =>
    have hk : withinLimits e = true := hkeep e (by simp)
    have hr : RefOk e := href e (by simp)
    have hkeep' : ∀ e ∈ es, withinLimits e = true := fun x hx => hkeep x (by simp [hx])
    have href' : ∀ e ∈ es, RefOk e := fun x hx => href x (by simp [hx])
    by_cases hph : e.ph = "X"
    · cases htsx : e.tsx with
      | none =>
        have hexec' : execCrash es = true := by simpa [execCrash, htsx] using hexec
        simp [phase1, step1, hk, hph, htsx, ih c hkeep' href' hexec']
      | some raw =>
        have hlt : refIdx e.name < (localFix raw).length := by
          rw [localFix_length]; exact hr raw hph htsx
        by_cases hz : (hasSub e.name "Cmpt Exec" && decide (e.dur = 0)) = true
        · simp [phase1, step1, hk, hph, htsx, List.getElem?_eq_getElem hlt, hz]
        · have hz' : (hasSub e.name "Cmpt Exec" && decide (e.dur = 0)) = false := by simpa using hz
          have hexec' : execCrash es = true := by
            simpa [execCrash, hph, htsx, hz'] using hexec
          have := ih ⟨setAt c.epoch e.pid (updEpoch (c.epoch e.pid) (epochStart f e.ts (localFix raw)[refIdx e.name]))⟩
            hkeep' href' hexec'
          simp [phase1, step1, hk, hph, htsx, List.getElem?_eq_getElem hlt, hz', this]
    · have hexec' : execCrash es = true := by simpa [execCrash, hph] using hexec
      simp [phase1, step1, hk, hph, ih c hkeep' href' hexec']

/-! ### the reference epoch under ground truth -/

theorem M32_pos : (0 : Rat) < (M32 : Rat) := by unfold M32; norm_num

theorem p1Ev_observe_dev (f : Rat) (T0 : Int → Rat) (t : TrueEv) (h : t.Valid) :
    p1Ev (observe f T0 (.dev t)) =
      { observe f T0 (.dev t) with
        tsx := some (t.C.map (· - t.c1 / M32 * M32)), tsxof := firstWrap (t.C.map (· % M32)) } := by
  simp [p1Ev, observe, localFix_trueEv t h]

theorem p1Ev_other (e : Ev) (h : e.tsx = none) : p1Ev e = e := by
  unfold p1Ev; split
  · rfl
  · simp [h]

theorem epochOf_other (f : Rat) (e : Ev) (h : e.tsx = none) : epochOf f e = none := by
  unfold epochOf; split
  · rfl
  · simp [h]

theorem epochOf_observe_dev (f : Rat) (hf : 0 < f) (T0 : Int → Rat) (t : TrueEv) (h : t.Valid) :
    epochOf f (observe f T0 (.dev t)) =
      some (t.pid, T0 t.pid + ((t.c1 / M32 : Int) : Rat) * (M32 : Rat) / f) := by
  have hne : f ≠ 0 := ne_of_gt hf
  have hget : (t.C.map (· - t.c1 / M32 * M32))[refIdx t.name]? = some (t.cref - t.c1 / M32 * M32) := by
    simp [List.getElem?_map, t.cref_get h]
  simp only [epochOf, observe, localFix_trueEv t h, hget]
  simp only [bne_self_eq_false, Bool.false_eq_true, ↓reduceIte, Option.map_some, epochStart, Option.some.injEq,
    Prod.mk.injEq, true_and]
  push_cast
  field_simp
  ring

/-- `⌊C1 / 2^32⌋` of the device slices of pid `p`, in stream order -/
def qs (p : Int) : List Item → List Int
  | [] => []
  | .dev t :: r => if t.pid = p then (t.c1 / M32) :: qs p r else qs p r
  | .other _ :: r => qs p r

theorem mem_qs {p : Int} {items : List Item} {k : Int} :
    k ∈ qs p items ↔ ∃ t, Item.dev t ∈ items ∧ t.pid = p ∧ k = t.c1 / M32 := by
  induction items with
  | nil => simp [qs]
  | cons it r ih =>
    cases it with
    | other e => simp [qs, ih]
    | dev t =>
      by_cases hp : t.pid = p
      · simp only [qs, hp, ↓reduceIte, List.mem_cons, ih]
        constructor
        · rintro (rfl | ⟨u, hu, hup, hk⟩)
          · exact ⟨t, Or.inl rfl, hp, rfl⟩
          · exact ⟨u, Or.inr hu, hup, hk⟩
        · rintro ⟨u, hu | hu, hup, hk⟩
          · left; cases hu; exact hk
          · right; exact ⟨u, hu, hup, hk⟩
      · simp only [qs, hp, ↓reduceIte, ih, List.mem_cons]
        constructor
        · rintro ⟨u, hu, hup, hk⟩; exact ⟨u, Or.inr hu, hup, hk⟩
        · rintro ⟨u, hu | hu, hup, hk⟩
          · cases hu; exact absurd hup hp
          · exact ⟨u, hu, hup, hk⟩

theorem epochVal_lt {f : Rat} (hf : 0 < f) (T : Rat) (a b : Int) :
    T + (a : Rat) * (M32 : Rat) / f < T + (b : Rat) * (M32 : Rat) / f ↔ a < b := by
  rw [add_lt_add_iff_left, div_lt_div_iff_of_pos_right hf, mul_lt_mul_iff_of_pos_right M32_pos]
  exact Int.cast_lt

/-- the reference of pid `p` is the earliest epoch start among the `seen` epoch numbers -/
def EpochInv (f : Rat) (T0 : Int → Rat) (p : Int) (m : Int → Option Rat) (seen : List Int) : Prop :=
  (seen = [] ∧ m p = none) ∨
    ∃ K ∈ seen, (∀ k ∈ seen, K ≤ k) ∧ m p = some (T0 p + (K : Rat) * (M32 : Rat) / f)

theorem epochInv_step {f : Rat} (hf : 0 < f) (T0 : Int → Rat) (p : Int) (m : Int → Option Rat) (seen : List Int)
    (q : Int) (h : EpochInv f T0 p m seen) :
    EpochInv f T0 p (setAt m p (updEpoch (m p) (T0 p + (q : Rat) * (M32 : Rat) / f))) (seen ++ [q]) := by
  rcases h with ⟨hs, hm⟩ | ⟨K, hK, hmin, hm⟩
  · right
    refine ⟨q, by simp, ?_, ?_⟩
    · simp [hs]
    · simp [setAt, hm, updEpoch]
  · right
    by_cases hlt : q < K
    · refine ⟨q, by simp, ?_, ?_⟩
      · intro k hk
        rcases List.mem_append.mp hk with hk | hk
        · exact le_of_lt (lt_of_lt_of_le hlt (hmin k hk))
        · simp at hk; omega
      · simp [setAt, hm, updEpoch, (epochVal_lt hf (T0 p) q K).mpr hlt]
    · refine ⟨K, by simp [hK], ?_, ?_⟩
      · intro k hk
        rcases List.mem_append.mp hk with hk | hk
        · exact hmin k hk
        · simp at hk; omega
      · have : ¬ (T0 p + (q : Rat) * (M32 : Rat) / f < T0 p + (K : Rat) * (M32 : Rat) / f) :=
          fun h' => hlt ((epochVal_lt hf (T0 p) q K).mp h')
        simp [setAt, hm, updEpoch, this]

theorem epochFold_items {f : Rat} (hf : 0 < f) (T0 : Int → Rat) (p : Int) (items : List Item)
    (hv : ∀ it ∈ items, it.Valid) (m : Int → Option Rat) (seen : List Int) (h : EpochInv f T0 p m seen) :
    EpochInv f T0 p (epochFold f m (items.map (observe f T0))) (seen ++ qs p items) := by
  induction items generalizing m seen with
  | nil => simpa [epochFold, qs] using h
  | cons it r ih =>
    have hv' : ∀ it ∈ r, it.Valid := fun x hx => hv x (by simp [hx])
    cases it with
    | other e =>
      have he : e.tsx = none := hv (.other e) (by simp)
      simpa [epochFold, qs, observe, epochOf_other f e he] using ih hv' m seen h
    | dev t =>
      have ht : t.Valid := hv (.dev t) (by simp)
      simp only [List.map_cons, epochFold, epochOf_observe_dev f hf T0 t ht]
      by_cases hp : t.pid = p
      · have := ih hv' _ _ (epochInv_step hf T0 p m seen (t.c1 / M32) h)
        subst hp
        simpa [qs, List.append_assoc] using this
      · have hsame : EpochInv f T0 p
            (setAt m t.pid (updEpoch (m t.pid) (T0 t.pid + ((t.c1 / M32 : Int) : Rat) * (M32 : Rat) / f))) seen := by
          have hne : p ≠ t.pid := fun h' => hp h'.symm
          simpa [EpochInv, setAt, hne] using h
        simpa [qs, hp] using ih hv' _ _ hsame

/-! ### phase 2 and the sanity check on a locally fixed slice -/

theorem floor_int_div (a : Int) : (((a : Int) : Rat) / (M32 : Rat)).floor = a / M32 := by
  have h := Rat.floor_intCast_div_natCast a 4294967296
  unfold M32
  exact_mod_cast h

theorem overflowCount_true {f : Rat} (hf : 0 < f) (T : Rat) (K c1 cr q : Int) :
    overflowCount f (T + (K : Rat) * (M32 : Rat) / f)
        (T + (cr : Rat) / f - (((cr - q * M32) - (c1 - q * M32) : Int) : Rat) / f) = (c1 - K * M32) / M32 := by
  have hne : f ≠ 0 := ne_of_gt hf
  have hM : (M32 : Rat) ≠ 0 := ne_of_gt M32_pos
  rw [← floor_int_div]
  unfold overflowCount
  congr 1
  push_cast
  field_simp
  ring

theorem chainFrom_of_pairwise (last : Int) (cs : List Int) (h : (last :: cs).Pairwise (· ≤ ·)) :
    chainFrom last cs = true := by
  induction cs generalizing last with
  | nil => rfl
  | cons c cs ih =>
    have h1 := List.pairwise_cons.mp h
    simp [chainFrom, h1.1 c (by simp), ih c h1.2]

theorem pairwise_shift (cs : List Int) (d : Int) (h : cs.Pairwise (· ≤ ·)) :
    (cs.map (· - d)).Pairwise (· ≤ ·) := by
  rw [List.pairwise_map]
  exact h.imp (by intro a b hab; omega)

theorem TrueEv.ge_c1 (t : TrueEv) (h : t.Valid) : ∀ c ∈ t.C, t.c1 ≤ c := by
  intro c hc
  rcases List.mem_cons.mp hc with rfl | hc
  · exact Int.le_refl _
  · exact (List.pairwise_cons.mp h.mono).1 c hc

/-- the corrected counters pass both monotonicity asserts, whatever the start value `≤ 0` of the loop -/
theorem chain_out (t : TrueEv) (h : t.Valid) (K : Int) (hK : K ≤ t.c1 / M32) (last : Int) (hl : last ≤ 0) :
    chainFrom last (t.C.map (· - K * M32)) = true := by
  apply chainFrom_of_pairwise
  rw [List.pairwise_cons]
  refine ⟨?_, pairwise_shift _ _ h.mono⟩
  intro x hx
  obtain ⟨c, hc, rfl⟩ := List.mem_map.mp hx
  have := t.ge_c1 h c hc
  unfold M32 at *
  omega

theorem post_dev {f : Rat} (hf : 0 < f) (T0 : Int → Rat) (t : TrueEv) (h : t.Valid) (c : Ctx) (K : Int)
    (hK : K ≤ t.c1 / M32) (hc : c.epoch t.pid = some (T0 t.pid + (K : Rat) * (M32 : Rat) / f)) (ic : Bool) :
    post (step2 f ic) c (p1Ev (observe f T0 (.dev t))) =
      .ok { observe f T0 (.dev t) with
            tsx := some (t.C.map (· - K * M32)),
            ovc := some (t.c1 / M32 - K),
            tsxof := firstWrap (t.C.map (· % M32)) } := by
  have hget : (t.C.map (· - t.c1 / M32 * M32))[refIdx t.name]? = some (t.cref - t.c1 / M32 * M32) := by
    simp [List.getElem?_map, t.cref_get h]
  have hget0 : (t.C.map (· - t.c1 / M32 * M32))[0]? = some (t.c1 - t.c1 / M32 * M32) := by
    simp [TrueEv.C]
  have hovc : (t.c1 - K * M32) / M32 = t.c1 / M32 - K := by unfold M32; omega
  have hmap : (t.C.map (· - t.c1 / M32 * M32)).map (· + (t.c1 / M32 - K) * M32) = t.C.map (· - K * M32) := by
    rw [List.map_map]
    apply List.map_congr_left
    intro a _
    simp only [Function.comp]
    ring
  rw [p1Ev_observe_dev f T0 t h]
  simp only [post, step2, observe, hget, hget0, hc, overflowCount_true hf, hovc, hmap,
    chain_out t h K hK prev0 (by unfold prev0; omega)]
  simp [sanity, chain_out t h K hK sanity0 (by unfold sanity0; omega)]

theorem step2_other (f : Rat) (ic : Bool) (c : Ctx) (e : Ev) (h : e.tsx = none) : step2 f ic c e = .ok e := by
  by_cases hph : e.ph = "X" <;> simp [step2, hph, h]

theorem post_other (f : Rat) (ic : Bool) (c : Ctx) (e : Ev) (h : e.tsx = none) :
    post (step2 f ic) c (p1Ev e) = .ok e := by
  rw [p1Ev_other e h]
  simp [post, step2_other f ic c e h, sanity, h]

theorem mapE_map {α : Type} (g : Ev → Except String Ev) (h k : α → Ev) (l : List α)
    (hl : ∀ x ∈ l, g (h x) = .ok (k x)) : mapE g (l.map h) = .ok (l.map k) := by
  induction l with
  | nil => rfl
  | cons x xs ih =>
    have hx := hl x (by simp)
    have := ih (fun y hy => hl y (by simp [hy]))
    simp [mapE, hx, this]

theorem refOk_observe (f : Rat) (T0 : Int → Rat) (it : Item) (h : it.Valid) : RefOk (observe f T0 it) := by
  cases it with
  | other e =>
    intro raw _ htsx
    have : e.tsx = none := h
    simp [observe, this] at htsx
  | dev t =>
    intro raw _ htsx
    have ht : t.Valid := h
    have hraw : raw = t.C.map (· % M32) := by
      simp only [observe, Option.some.injEq] at htsx
      exact htsx.symm
    have := refIdx_le t.name
    simp [observe, hraw, TrueEv.C, ht.len]
    omega

end AiuVerif.Normalize
