/- Helper lemmas about the hidden-input model (core Lean only). -/
import AiuVerif.Model.Hidden
import AiuVerif.Lemmas.Engine

namespace AiuVerif
namespace Hid
variable {ε : Type}

/-! ### the run that also returns the final hold agrees with `BStage.run` on the output -/

theorem drainAllH_cons (hold : List ε) (st : BStage ε) (rest : List (BStage ε)) :
    drainAllH hold (st :: rest) =
      ((BStage.stream (BStage.drainOf hold st).2 rest (BStage.drainOf hold st).1).2.1 ++
        (drainAllH (BStage.stream (BStage.drainOf hold st).2 rest (BStage.drainOf hold st).1).2.2
          (BStage.stream (BStage.drainOf hold st).2 rest (BStage.drainOf hold st).1).1).1,
       (drainAllH (BStage.stream (BStage.drainOf hold st).2 rest (BStage.drainOf hold st).1).2.2
          (BStage.stream (BStage.drainOf hold st).2 rest (BStage.drainOf hold st).1).1).2) := by
  rw [drainAllH]

theorem drainAllH_fst (hold : List ε) (p : List (BStage ε)) :
    (drainAllH hold p).1 = BStage.drainAll hold p := by
  generalize hn : p.length = n
  induction n generalizing p hold with
  | zero =>
    have : p = [] := List.eq_nil_of_length_eq_zero hn
    subst this; simp [drainAllH, BStage.drainAll]
  | succ n ih =>
    match p, hn with
    | st :: rest, hn =>
      rw [drainAllH_cons, BStage.drainAll_cons]
      simp only []
      rw [ih]
      rw [BStage.stream_length]; simpa using hn

theorem runH_fst (hold : List ε) (p : List (BStage ε)) (input : List ε) :
    (runH hold p input).1 = BStage.run hold p input := by
  simp [runH, BStage.run, drainAllH_fst]

/-! ### the job map -/

theorem jmLookup_registerAll (fs : List File) (m : Jobmap) (k : Nat) :
    jmLookup k (registerAll fs m) =
      if k ∈ fs.map (·.key) then jmLookup k (registerAll fs []) else jmLookup k m := by
  induction fs generalizing m with
  | nil => simp [registerAll]
  | cons f fs ih =>
    simp only [registerAll, List.map_cons, List.mem_cons]
    rw [ih ((f.key, f.info) :: m), ih [(f.key, f.info)]]
    by_cases h1 : k ∈ fs.map (·.key)
    · simp [h1]
    · by_cases h2 : k = f.key
      · subst h2; simp [h1, jmLookup]
      · have h2' : ¬ f.key = k := fun h => h2 h.symm
        simp [h1, h2, h2', jmLookup]

/-- **a run only ever sees its own registrations at the keys it registers** -/
theorem jmLookup_jobmapAfter (r : Run ε) (m : Jobmap) (k : Nat)
    (hk : k = r.topKey ∨ k ∈ r.files.map (·.key)) :
    jmLookup k (r.jobmapAfter m) = jmLookup k (r.jobmapAfter []) := by
  unfold Run.jobmapAfter
  rw [jmLookup_registerAll, jmLookup_registerAll r.files [_]]
  by_cases h1 : k ∈ r.files.map (·.key)
  · simp [h1]
  · rcases hk with hk | hk
    · subst hk; simp [h1, jmLookup]
    · exact absurd hk h1

/-! ### batch semantics, one event at a time -/

theorem batch_nil (st : RS ε) : RS.batch st [] = st.drain st.s := by
  simp [RS.batch, RS.feed1]

theorem batch_cons (st : RS ε) (x : ε) (xs : List ε) :
    RS.batch st (x :: xs) = (st.step st.s x).2 ++ RS.batch { st with s := (st.step st.s x).1 } xs := by
  simp [RS.batch, RS.feed1, List.append_assoc]

theorem batch_annot_congr (jm jm' : Jobmap) (keyOf : ε → Nat) (f : ε → Option JobInfo → List ε)
    (xs : List ε) (h : ∀ e ∈ xs, jmLookup (keyOf e) jm = jmLookup (keyOf e) jm') :
    RS.batch (annotRS jm keyOf f) xs = RS.batch (annotRS jm' keyOf f) xs := by
  induction xs with
  | nil => simp [batch_nil, annotRS]
  | cons x xs ih =>
    rw [batch_cons, batch_cons]
    have hx := h x (List.mem_cons_self ..)
    have ih' := ih (fun e he => h e (List.mem_cons_of_mem _ he))
    simp only [annotRS] at ih' ⊢
    rw [hx, ih']

/-- `H` does not identify two different strings of `L` -/
def InjOn (H : String → Nat) (L : List String) : Prop :=
  ∀ a ∈ L, ∀ b ∈ L, H a = H b → a = b

/-- the hash-keyed state that corresponds to a string-keyed one -/
def liftG (H : String → Nat) (s : GroupsK ε) : GroupsH ε := s.map (fun g => (H g.1, g.1, g.2))

theorem addH_lift (H : String → Nat) (k : String) (e : ε) (s : GroupsK ε)
    (hinj : ∀ g ∈ s, H g.1 = H k → g.1 = k) :
    addH (H k) k e (liftG H s) = liftG H (addK k e s) := by
  induction s with
  | nil => simp [liftG, addH, addK]
  | cons g rest ih =>
    obtain ⟨k', ms⟩ := g
    have ih' := ih (fun g hg => hinj g (List.mem_cons_of_mem _ hg))
    simp only [liftG, List.map_cons, addH, addK] at ih' ⊢
    by_cases hk : k' = k
    · subst hk; simp
    · have hH : ¬ H k' = H k := fun h => hk (hinj (k', ms) (List.mem_cons_self ..) h)
      simp [hk, hH, ih']

theorem keys_addK (k : String) (e : ε) (s : GroupsK ε) :
    ∀ g ∈ addK k e s, g.1 = k ∨ ∃ g' ∈ s, g'.1 = g.1 := by
  induction s with
  | nil => intro g hg; simp [addK] at hg; exact Or.inl (by rw [hg])
  | cons g0 rest ih =>
    obtain ⟨k', ms⟩ := g0
    intro g hg
    simp only [addK] at hg
    by_cases hk : k' = k
    · simp only [hk, if_true, List.mem_cons] at hg
      rcases hg with hg | hg
      · exact Or.inl (by rw [hg])
      · exact Or.inr ⟨g, List.mem_cons_of_mem _ hg, rfl⟩
    · simp only [hk, if_false, List.mem_cons] at hg
      rcases hg with hg | hg
      · exact Or.inr ⟨(k', ms), List.mem_cons_self .., by rw [hg]⟩
      · rcases ih g hg with h | ⟨g', hg', h⟩
        · exact Or.inl h
        · exact Or.inr ⟨g', List.mem_cons_of_mem _ hg', h⟩

/-- **hash-keyed grouping = grouping by the key itself, as long as the hash does not identify two
    different keys that occur** -/
theorem batch_group_from (H : String → Nat) (key : ε → String) (emit : String → List ε → List ε)
    (xs : List ε) (s : GroupsK ε) (hinj : InjOn H (s.map (·.1) ++ xs.map key)) :
    RS.batch (groupRSFrom H key emit (liftG H s)) xs = RS.batch (groupSpecRSFrom key emit s) xs := by
  induction xs generalizing s with
  | nil =>
    simp only [batch_nil, groupRSFrom, groupSpecRSFrom, liftG, List.map_map]
    rfl
  | cons x xs ih =>
    rw [batch_cons, batch_cons]
    have hstep : addH (H (key x)) (key x) x (liftG H s) = liftG H (addK (key x) x s) := by
      apply addH_lift
      intro g hg hH
      exact hinj g.1 (List.mem_append_left _ (List.mem_map.2 ⟨g, hg, rfl⟩)) (key x)
        (List.mem_append_right _ (by simp)) hH
    have hinj' : InjOn H ((addK (key x) x s).map (·.1) ++ xs.map key) := by
      intro a ha b hb hab
      have mem : ∀ c, c ∈ (addK (key x) x s).map (·.1) ++ xs.map key →
          c ∈ s.map (·.1) ++ (x :: xs).map key := by
        intro c hc
        simp only [List.mem_append, List.mem_map, List.map_cons, List.mem_cons] at hc ⊢
        rcases hc with ⟨g, hg, rfl⟩ | ⟨y, hy, rfl⟩
        · rcases keys_addK (key x) x s g hg with h | ⟨g', hg', h⟩
          · exact Or.inr (Or.inl h)
          · exact Or.inl ⟨g', hg', h⟩
        · exact Or.inr (Or.inr ⟨y, hy, rfl⟩)
      exact hinj a (mem a ha) b (mem b hb) hab
    have := ih (addK (key x) x s) hinj'
    simp only [groupRSFrom, groupSpecRSFrom] at this ⊢
    rw [hstep, this]

theorem batch_group (H : String → Nat) (key : ε → String) (emit : String → List ε → List ε)
    (xs : List ε) (hinj : InjOn H (xs.map key)) :
    RS.batch (groupRS H key emit) xs = RS.batch (groupSpecRS key emit) xs := by
  have := batch_group_from H key emit xs [] (by simpa using hinj)
  simpa [groupRS, groupSpecRS, liftG] using this

/-! ### the shared barrier starts empty: every barrier is a private one -/

/-- the stage as a private-state stage, given what the run sees of the hidden inputs -/
def instRS (jm : Jobmap) (H : String → Nat) : Stage ε → RS ε
  | .priv st => st
  | .barrier => BStage.privBarrier []
  | .jobAnnot keyOf f => annotRS jm keyOf f
  | .hashGroup key emit => groupRS H key emit

theorem privOf_inst (jm : Jobmap) (H : String → Nat) (stages : List (Stage ε)) :
    BStage.privOf [] (stages.map (inst jm H)) = stages.map (instRS jm H) := by
  induction stages with
  | nil => rfl
  | cons s rest ih =>
    cases s <;> simp [inst, instRS, BStage.privOf, ih]

theorem batch_dah (xs : List ε) : RS.batch (dah (ε := ε)) xs = xs := by
  have h : ∀ (s : List ε), RS.batch ({ dah with s := s } : RS ε) xs = xs := by
    induction xs with
    | nil => intro s; simp [batch_nil, dah]
    | cons x xs ih =>
      intro s
      rw [batch_cons]
      simp only [dah] at ih ⊢
      rw [ih]
      rfl
  exact h []

end Hid
end AiuVerif
