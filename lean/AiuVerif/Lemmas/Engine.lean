/- Helper lemmas about the engine model (core Lean only). -/
import AiuVerif.Model.Engine

namespace AiuVerif
namespace RS
variable {ε : Type}

theorem feed1_nil (st : RS ε) : feed1 st [] = (st, []) := rfl

theorem feed1_append (st : RS ε) (xs ys : List ε) :
    feed1 st (xs ++ ys) =
      ((feed1 (feed1 st xs).1 ys).1, (feed1 st xs).2 ++ (feed1 (feed1 st xs).1 ys).2) := by
  induction xs generalizing st with
  | nil => simp [feed1]
  | cons x xs ih =>
    simp only [List.cons_append, feed1]
    rw [ih]
    simp [List.append_assoc]

/-- `if event_list == []: break` changes nothing: stages fed the empty list keep their state -/
theorem feed_nil (p : List (RS ε)) : feed p [] = (p, []) := by
  induction p with
  | nil => rfl
  | cons st rest ih => simp [feed, feed1, ih]

theorem feed_append (p : List (RS ε)) (xs ys : List ε) :
    feed p (xs ++ ys) =
      ((feed (feed p xs).1 ys).1, (feed p xs).2 ++ (feed (feed p xs).1 ys).2) := by
  induction p generalizing xs ys with
  | nil => simp [feed]
  | cons st rest ih =>
    simp only [feed]
    rw [feed1_append]
    simp only []
    rw [ih]

theorem stream_eq_feed (p : List (RS ε)) (xs : List ε) : stream p xs = feed p xs := by
  induction xs generalizing p with
  | nil => simp [stream, feed_nil]
  | cons x xs ih =>
    simp only [stream]
    rw [ih]
    have := feed_append p [x] xs
    simp only [List.singleton_append] at this
    rw [this]

theorem feed_cons (st : RS ε) (rest : List (RS ε)) (xs : List ε) :
    feed (st :: rest) xs =
      ((feed1 st xs).1 :: (feed rest (feed1 st xs).2).1, (feed rest (feed1 st xs).2).2) := rfl

theorem drainAll_cons (st : RS ε) (rest : List (RS ε)) :
    drainAll (st :: rest) =
      (stream rest (st.drain st.s)).2 ++ drainAll (stream rest (st.drain st.s)).1 := by
  rw [drainAll]

theorem drainLog_cons (k : Nat) (st : RS ε) (rest : List (RS ε)) :
    drainLog k (st :: rest) =
      streamLog (k + 1) rest (st.drain st.s) ++ drainLog (k + 1) (stream rest (st.drain st.s)).1 := by
  rw [drainLog]

/-! ### projection of the delivery log onto one stage -/

/-- the sequence of events delivered to stage `j`, in time order -/
def proj (j : Nat) (log : List (Nat × ε)) : List ε :=
  (log.filter (fun e => e.1 == j)).map (·.2)

@[simp] theorem proj_nil (j : Nat) : proj j ([] : List (Nat × ε)) = [] := rfl

@[simp] theorem proj_append (j : Nat) (a b : List (Nat × ε)) :
    proj j (a ++ b) = proj j a ++ proj j b := by
  simp [proj]

@[simp] theorem proj_map_same (j : Nat) (xs : List ε) :
    proj j (xs.map (fun x => (j, x))) = xs := by
  induction xs with
  | nil => rfl
  | cons x xs ih => simp_all [proj]

theorem proj_map_ne (j k : Nat) (h : k ≠ j) (xs : List ε) :
    proj j (xs.map (fun x => (k, x))) = [] := by
  induction xs with
  | nil => rfl
  | cons x xs ih => simp_all [proj]

theorem proj_of_ge (j k : Nat) (log : List (Nat × ε)) (h : ∀ e ∈ log, k ≤ e.1) (hj : j < k) :
    proj j log = [] := by
  induction log with
  | nil => rfl
  | cons e l ih =>
    have he : k ≤ e.1 := h e (List.mem_cons_self ..)
    have hne : (e.1 == j) = false := by
      simp only [beq_eq_false_iff_ne, ne_eq]; omega
    have := ih (fun e' he' => h e' (List.mem_cons_of_mem _ he'))
    simp only [proj] at this ⊢
    simp [hne, this]

/-! ### index bounds of the logs -/

theorem feedLog_nil (k : Nat) (p : List (RS ε)) : feedLog k p [] = [] := by
  induction p generalizing k with
  | nil => rfl
  | cons st rest ih => simp [feedLog, feed1, ih]

theorem feedLog_ge (k : Nat) (p : List (RS ε)) (xs : List ε) :
    ∀ e ∈ feedLog k p xs, k ≤ e.1 := by
  induction p generalizing k xs with
  | nil => simp [feedLog]
  | cons st rest ih =>
    intro e he
    simp only [feedLog, List.mem_append, List.mem_map] at he
    rcases he with ⟨x, _, rfl⟩ | he
    · exact Nat.le_refl _
    · exact Nat.le_of_succ_le (ih (k + 1) _ e he)

theorem streamLog_ge (k : Nat) (p : List (RS ε)) (xs : List ε) :
    ∀ e ∈ streamLog k p xs, k ≤ e.1 := by
  induction xs generalizing p with
  | nil => simp [streamLog]
  | cons x xs ih =>
    intro e he
    simp only [streamLog, List.mem_append] at he
    rcases he with he | he
    · exact feedLog_ge k p [x] e he
    · exact ih _ e he

theorem drainLog_gt (k : Nat) (p : List (RS ε)) :
    ∀ e ∈ drainLog k p, k < e.1 := by
  generalize hn : p.length = n
  induction n generalizing p k with
  | zero =>
    have : p = [] := List.eq_nil_of_length_eq_zero hn
    subst this; simp [drainLog]
  | succ n ih =>
    match p, hn with
    | st :: rest, hn =>
      intro e he
      rw [drainLog_cons] at he
      simp only [List.mem_append] at he
      rcases he with he | he
      · exact streamLog_ge (k + 1) rest _ e he
      · have hl : (stream rest (st.drain st.s)).1.length = n := by
          rw [stream_length]; simpa using hn
        exact Nat.lt_of_succ_lt (ih (k + 1) _ hl e he)

/-! ### per-stage view of the logs -/

theorem proj_feedLog_append (j k : Nat) (p : List (RS ε)) (xs ys : List ε) :
    proj j (feedLog k p (xs ++ ys)) =
      proj j (feedLog k p xs) ++ proj j (feedLog k (feed p xs).1 ys) := by
  induction p generalizing k xs ys with
  | nil => simp [feedLog, feed]
  | cons st rest ih =>
    simp only [feedLog, feed_cons, proj_append, List.map_append]
    rw [feed1_append]
    simp only []
    rw [ih]
    by_cases h : k = j
    · subst h
      have h1 : ∀ (q : List (RS ε)) (zs : List ε), proj k (feedLog (k + 1) q zs) = [] :=
        fun q zs => proj_of_ge k (k + 1) _ (feedLog_ge (k + 1) q zs) (Nat.lt_succ_self k)
      simp [h1]
    · simp [proj_map_ne j k h]

theorem proj_streamLog (j k : Nat) (p : List (RS ε)) (xs : List ε) :
    proj j (streamLog k p xs) = proj j (feedLog k p xs) := by
  induction xs generalizing p with
  | nil => simp [streamLog, feedLog_nil]
  | cons x xs ih =>
    simp only [streamLog, proj_append]
    rw [ih]
    have := proj_feedLog_append j k p [x] xs
    simp only [List.singleton_append] at this
    rw [this]

/-- the delivery log of a whole run whose head stage has registration index `k` -/
def runLogAt (k : Nat) (p : List (RS ε)) (input : List ε) : List (Nat × ε) :=
  streamLog k p input ++ drainLog k (stream p input).1

theorem runLog_eq (p : List (RS ε)) (input : List ε) : runLog p input = runLogAt 0 p input := rfl

/-- stage property: the callback never returns anything (barrier, hold-until-drain, sort, …) -/
def NonEmitting (st : RS ε) : Prop := ∀ s x, (st.step s x).2 = []

theorem NonEmitting.feed1 {st : RS ε} (h : NonEmitting st) (xs : List ε) :
    NonEmitting (feed1 st xs).1 ∧ (feed1 st xs).2 = [] := by
  induction xs generalizing st with
  | nil => exact ⟨h, rfl⟩
  | cons x xs ih =>
    simp only [RS.feed1]
    have h' : NonEmitting { st with s := (st.step st.s x).1 } := h
    obtain ⟨a, b⟩ := ih h'
    exact ⟨a, by simp [h st.s x, b]⟩

/-- "the stage at position `b` of `p` never emits from its callback" -/
def BarrierAt : Nat → List (RS ε) → Prop
  | _, [] => False
  | 0, st :: _ => NonEmitting st
  | b + 1, _ :: rest => BarrierAt b rest

theorem BarrierAt.feed {b : Nat} {p : List (RS ε)} (h : BarrierAt b p) (xs : List ε) :
    BarrierAt b (feed p xs).1 := by
  induction p generalizing b xs with
  | nil => exact h
  | cons st rest ih =>
    cases b with
    | zero => simpa [BarrierAt, feed_cons] using (NonEmitting.feed1 h xs).1
    | succ b => simpa [BarrierAt, feed_cons] using ih h _

theorem feedLog_le_barrier (k b : Nat) (p : List (RS ε)) (h : BarrierAt b p) (xs : List ε) :
    ∀ e ∈ feedLog k p xs, e.1 ≤ k + b := by
  induction p generalizing k b xs with
  | nil => simp [feedLog]
  | cons st rest ih =>
    intro e he
    simp only [feedLog, List.mem_append, List.mem_map] at he
    rcases he with ⟨x, _, rfl⟩ | he
    · exact Nat.le_add_right _ _
    · cases b with
      | zero =>
        rw [(NonEmitting.feed1 h xs).2, feedLog_nil] at he
        simp at he
      | succ b =>
        have := ih (k + 1) b h _ e he
        omega

theorem streamLog_le_barrier (k b : Nat) (p : List (RS ε)) (h : BarrierAt b p) (xs : List ε) :
    ∀ e ∈ streamLog k p xs, e.1 ≤ k + b := by
  induction xs generalizing p with
  | nil => simp [streamLog]
  | cons x xs ih =>
    intro e he
    simp only [streamLog, List.mem_append] at he
    rcases he with he | he
    · exact feedLog_le_barrier k b p h [x] e he
    · exact ih _ (h.feed [x]) e he

end RS
end AiuVerif

namespace AiuVerif
namespace BStage
variable {ε : Type}

theorem feed1_nil (hold : List ε) (st : BStage ε) : feed1 hold st [] = (st, [], hold) := by
  cases st <;> simp [feed1, RS.feed1]

theorem feed1_append (hold : List ε) (st : BStage ε) (xs ys : List ε) :
    feed1 hold st (xs ++ ys) =
      ((feed1 (feed1 hold st xs).2.2 (feed1 hold st xs).1 ys).1,
       (feed1 hold st xs).2.1 ++ (feed1 (feed1 hold st xs).2.2 (feed1 hold st xs).1 ys).2.1,
       (feed1 (feed1 hold st xs).2.2 (feed1 hold st xs).1 ys).2.2) := by
  cases st with
  | priv st => simp [feed1, RS.feed1_append]
  | barrier => simp [feed1, List.append_assoc]

theorem feed_nil (hold : List ε) (p : List (BStage ε)) : feed hold p [] = (p, [], hold) := by
  induction p generalizing hold with
  | nil => rfl
  | cons st rest ih => simp [feed, feed1_nil, ih]

theorem feed_cons (hold : List ε) (st : BStage ε) (rest : List (BStage ε)) (xs : List ε) :
    feed hold (st :: rest) xs =
      ((feed1 hold st xs).1 :: (feed (feed1 hold st xs).2.2 rest (feed1 hold st xs).2.1).1,
       (feed (feed1 hold st xs).2.2 rest (feed1 hold st xs).2.1).2.1,
       (feed (feed1 hold st xs).2.2 rest (feed1 hold st xs).2.1).2.2) := rfl

theorem feed_append (hold : List ε) (p : List (BStage ε)) (xs ys : List ε) :
    feed hold p (xs ++ ys) =
      ((feed (feed hold p xs).2.2 (feed hold p xs).1 ys).1,
       (feed hold p xs).2.1 ++ (feed (feed hold p xs).2.2 (feed hold p xs).1 ys).2.1,
       (feed (feed hold p xs).2.2 (feed hold p xs).1 ys).2.2) := by
  induction p generalizing hold xs ys with
  | nil => simp [feed]
  | cons st rest ih =>
    cases st with
    | priv st =>
      simp only [feed_cons, feed1]
      rw [RS.feed1_append]
      simp only []
      rw [ih]
    | barrier =>
      simp [feed_cons, feed1, feed_nil, List.append_assoc]

theorem stream_eq_feed (hold : List ε) (p : List (BStage ε)) (xs : List ε) :
    stream hold p xs = feed hold p xs := by
  induction xs generalizing p hold with
  | nil => simp [stream, feed_nil]
  | cons x xs ih =>
    simp only [stream]
    rw [ih]
    have := feed_append hold p [x] xs
    simp only [List.singleton_append] at this
    rw [this]

theorem drainAll_cons (hold : List ε) (st : BStage ε) (rest : List (BStage ε)) :
    drainAll hold (st :: rest) =
      (stream (drainOf hold st).2 rest (drainOf hold st).1).2.1 ++
        drainAll (stream (drainOf hold st).2 rest (drainOf hold st).1).2.2
          (stream (drainOf hold st).2 rest (drainOf hold st).1).1 := by
  rw [drainAll]

theorem privBarrier_feed1 (h xs : List ε) :
    (RS.feed1 (privBarrier h) xs).2 = [] ∧
    (RS.feed1 (privBarrier h) xs).1.drain (RS.feed1 (privBarrier h) xs).1.s = h ++ xs := by
  induction xs generalizing h with
  | nil => simp [RS.feed1, privBarrier]
  | cons x xs ih =>
    have := ih (h ++ [x])
    simp only [RS.feed1, privBarrier] at this ⊢
    simpa [List.append_assoc] using this

theorem privBarrier_batch (h xs : List ε) : RS.batch (privBarrier h) xs = h ++ xs := by
  have := privBarrier_feed1 h xs
  simp [RS.batch, this.1, this.2]

end BStage
end AiuVerif
