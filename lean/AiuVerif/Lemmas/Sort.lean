/- Helper lemmas for the sort model (core only). -/
import AiuVerif.Model.Sort

namespace AiuVerif.Sort

theorem lexLE_refl (a : List Rat) : lexLE a a = true := by
  induction a with
  | nil => rfl
  | cons x xs ih => simp [lexLE, Rat.lt_irrefl, ih]

theorem lexLE_total (a b : List Rat) (h : a.length = b.length) :
    (lexLE a b || lexLE b a) = true := by
  induction a generalizing b with
  | nil => simp [lexLE]
  | cons x xs ih =>
    cases b with
    | nil => simp at h
    | cons y ys =>
      simp only [List.length_cons, Nat.add_right_cancel_iff] at h
      simp only [lexLE]
      by_cases h1 : x < y
      · simp [h1]
      · by_cases h2 : y < x
        · simp [h2]
        · simp only [h1, h2, if_false]; exact ih ys h

theorem lexLE_trans (a b c : List Rat) (hab : a.length = b.length) (hbc : b.length = c.length)
    (h1 : lexLE a b = true) (h2 : lexLE b c = true) : lexLE a c = true := by
  induction a generalizing b c with
  | nil => simp [lexLE]
  | cons x xs ih =>
    cases b with
    | nil => simp at hab
    | cons y ys =>
      cases c with
      | nil => simp at hbc
      | cons z zs =>
        simp only [List.length_cons, Nat.add_right_cancel_iff] at hab hbc
        simp only [lexLE] at h1 h2 ⊢
        by_cases hxy : x < y
        · by_cases hyz : y < z
          · have : x < z := by grind
            simp [this]
          · by_cases hzy : z < y
            · simp [hyz, hzy] at h2
            · have : x < z := by grind
              simp [this]
        · by_cases hyx : y < x
          · simp [hxy, hyx] at h1
          · simp only [hxy, hyx, if_false] at h1
            have hxy' : x = y := by grind
            subst hxy'
            by_cases hyz : x < z
            · simp [hyz]
            · by_cases hzy : z < x
              · simp [hyz, hzy] at h2
              · simp only [hyz, hzy, if_false] at h2 ⊢
                exact ih ys zs hab hbc h1 h2

theorem keyOf_length (revs : List Int) (e : SEv) (h : e.vals.length = revs.length) :
    (keyOf revs e).length = revs.length := by
  simp [keyOf, List.length_zip, h]

end AiuVerif.Sort
