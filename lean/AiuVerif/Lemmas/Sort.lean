/- Helper lemmas for the sort model (core only). -/
import AiuVerif.Model.Sort

namespace AiuVerif.Sort

theorem lexLE_refl (a : List Rat) : lexLE a a = true := by
  induction a with
  | nil => rfl
  | cons x xs ih => simp [lexLE, Rat.lt_irrefl, ih]

theorem lexLE_total (a b : List Rat) (h : a.length = b.length) :
    (lexLE a b || lexLE b a) = true := by
  induction a generalizing b with
  | nil => simp [lexLE]
  | cons x xs ih =>
    cases b with
    | nil => simp at h
    | cons y ys =>
      simp only [List.length_cons, Nat.add_right_cancel_iff] at h
      simp only [lexLE]
      by_cases h1 : x < y
      · simp [h1]
      · by_cases h2 : y < x
        · simp [h2]
        · simp only [h1, h2, if_false]; exact ih ys h

theorem lexLE_trans (a b c : List Rat) (hab : a.length = b.length) (hbc : b.length = c.length)
    (h1 : lexLE a b = true) (h2 : lexLE b c = true) : lexLE a c = true := by
  induction a generalizing b c with
  | nil => simp [lexLE]
  | cons x xs ih =>
    cases b with
    | nil => simp at hab
    | cons y ys =>
      cases c with
      | nil => simp at hbc
      | cons z zs =>
        simp only [List.length_cons, Nat.add_right_cancel_iff] at hab hbc
        simp only [lexLE] at h1 h2 ⊢
        by_cases hxy : x < y
        · by_cases hyz : y < z
          · have : x < z := by grind
            simp [this]
          · by_cases hzy : z < y
            · simp [hyz, hzy] at h2
            · have : x < z := by grind
              simp [this]
        · by_cases hyx : y < x
          · simp [hxy, hyx] at h1
          · simp only [hxy, hyx, if_false] at h1
            have hxy' : x = y := by grind
            subst hxy'
            by_cases hyz : x < z
            · simp [hyz]
            · by_cases hzy : z < x
              · simp [hyz, hzy] at h2
              · simp only [hyz, hzy, if_false] at h2 ⊢
                exact ih ys zs hab hbc h1 h2

theorem keyOf_length (revs : List Int) (e : SEv) (h : e.vals.length = revs.length) :
    (keyOf revs e).length = revs.length := by
  simp [keyOf, List.length_zip, h]

end AiuVerif.Sort

namespace AiuVerif.Sort
open AiuVerif.RS

/-- everything the queues hold, lane after lane -/
def held (qs : List (Lane × List SEv)) : List SEv := (qs.map (·.2)).flatten

theorem held_insertQ (l : Lane) (e : SEv) (qs : List (Lane × List SEv)) :
    (held (insertQ l e qs)).Perm (held qs ++ [e]) := by
  induction qs with
  | nil => simp [insertQ, held]
  | cons q rest ih =>
    obtain ⟨l', q'⟩ := q
    simp only [insertQ]
    split
    · simp only [held, List.map_cons, List.flatten_cons, List.append_assoc]
      exact List.Perm.append_left q' List.perm_append_comm
    · simp only [held, List.map_cons, List.flatten_cons, List.append_assoc] at ih ⊢
      exact List.Perm.append_left q' ih

theorem drainQ_perm (revs : List Int) (qs : List (Lane × List SEv)) :
    (drainQ revs qs).Perm (held qs) := by
  induction qs with
  | nil => simp [drainQ, held]
  | cons q rest ih =>
    simp only [drainQ, held, List.map_cons, List.flatten_cons] at ih ⊢
    exact List.Perm.append (List.mergeSort_perm _ _) ih

/-- the sort stage in an arbitrary context state -/
def stageIn (revs : List Int) (g : Bool) (qs : List (Lane × List SEv)) : RS SEv :=
  { σ := List (Lane × List SEv), s := qs, step := stepQ g, drain := drainQ revs }

theorem feed1_stageIn_cons (revs : List Int) (g : Bool) (qs : List (Lane × List SEv)) (x : SEv)
    (xs : List SEv) :
    feed1 (stageIn revs g qs) (x :: xs) =
      ((feed1 (stageIn revs g (stepQ g qs x).1) xs).1,
        (stepQ g qs x).2 ++ (feed1 (stageIn revs g (stepQ g qs x).1) xs).2) := by
  simp only [feed1, stageIn]

/-- nothing is lost or duplicated by the sort stage, per-lane or global, whatever it already holds -/
theorem sort_perm_from (revs : List Int) (g : Bool) (qs : List (Lane × List SEv)) (xs : List SEv) :
    ((feed1 (stageIn revs g qs) xs).2 ++
      (feed1 (stageIn revs g qs) xs).1.drain (feed1 (stageIn revs g qs) xs).1.s).Perm
      (held qs ++ xs) := by
  induction xs generalizing qs with
  | nil =>
    simp only [feed1, List.nil_append, List.append_nil]
    exact drainQ_perm revs qs
  | cons x xs ih =>
    by_cases hq : queued x = true
    · have hstep : stepQ g qs x = (insertQ (laneOf g x) x qs, []) := by simp [stepQ, hq]
      rw [feed1_stageIn_cons, hstep]
      simp only [List.nil_append]
      refine (ih (insertQ (laneOf g x) x qs)).trans ?_
      have h1 := held_insertQ (laneOf g x) x qs
      have : (held qs ++ x :: xs) = (held qs ++ [x]) ++ xs := by simp
      rw [this]
      exact List.Perm.append_right xs h1
    · have hstep : stepQ g qs x = (qs, [x]) := by simp [stepQ, hq]
      rw [feed1_stageIn_cons, hstep]
      simp only [List.cons_append]
      have h2 := List.Perm.cons x (ih qs)
      have : (held qs ++ x :: xs).Perm (x :: (held qs ++ xs)) := List.perm_middle
      exact h2.trans this.symm

/-- **The sort stage is a permutation** (batch semantics), in both modes. -/
theorem sort_batch_perm (revs : List Int) (g : Bool) (xs : List SEv) :
    (batch (sortStage revs g) xs).Perm xs := by
  have := sort_perm_from revs g [] xs
  simpa [batch, stageIn, sortStage, held] using this

end AiuVerif.Sort
