/- Helper lemmas for C04: `find_next_tid` of a built tid space is strictly increasing, so the
re-detection recursion ends within `#entries` hops and the model's fuel guard (`Err.recursion`)
is never the result. Core Lean only. -/
import AiuVerif.Lemmas.OverlapSpace

namespace AiuVerif.Overlap

theorem createLoop_gt (excl : List Nat) :
    ∀ (fuel need cur x : Nat), x ∈ createLoop excl fuel need cur → cur < x := by
  intro fuel
  induction fuel with
  | zero => intro need cur x h; simp [createLoop] at h
  | succ fuel ih =>
    intro need cur x h
    cases need with
    | zero => simp [createLoop] at h
    | succ need =>
      unfold createLoop at h
      split at h
      · exact Nat.lt_of_succ_lt (ih _ _ _ h)
      · rcases List.mem_cons.mp h with h | h
        · subst h; exact Nat.lt_succ_self _
        · exact Nat.lt_of_succ_lt (ih _ _ _ h)

theorem createLoop_pairwise (excl : List Nat) :
    ∀ (fuel need cur : Nat), (createLoop excl fuel need cur).Pairwise (· < ·) := by
  intro fuel
  induction fuel with
  | zero => intro need cur; simp [createLoop]
  | succ fuel ih =>
    intro need cur
    cases need with
    | zero => simp [createLoop]
    | succ need =>
      unfold createLoop
      split
      · exact ih _ _
      · exact List.Pairwise.cons (fun x hx => createLoop_gt excl _ _ _ x hx) (ih _ _)

theorem chainWrites_lt : ∀ (l : List Nat) (m : List (Nat × Nat)) (p : Nat × Nat),
    l.Pairwise (· < ·) → p ∈ chainWrites m l → p ∈ m ∨ p.1 < p.2
  | [], m, p, _, h => by simp [chainWrites] at h; exact Or.inl h
  | [a], m, p, _, h => by simp [chainWrites] at h; exact Or.inl h
  | a :: b :: r, m, p, hl, h => by
    simp only [chainWrites] at h
    obtain ⟨h1, h2⟩ := List.pairwise_cons.mp hl
    rcases chainWrites_lt (b :: r) _ p h2 h with h3 | h3
    · rcases mem_amapSet h3 with h4 | h4
      · exact Or.inl h4
      · subst h4; exact Or.inr (h1 b (by simp))
    · exact Or.inr h3

theorem buildLoop_lt (n : Nat) : ∀ (seen excl : List Nat) (m : List (Nat × Nat)) (p : Nat × Nat),
    p ∈ buildLoop n seen excl m → p ∈ m ∨ p.1 < p.2 := by
  intro seen
  induction seen with
  | nil => intro excl m p h; simp [buildLoop] at h; exact Or.inl h
  | cons tid rest ih =>
    intro excl m p h
    simp only [buildLoop] at h
    rcases ih _ _ p h with h1 | h1
    · refine chainWrites_lt _ _ p ?_ h1
      exact List.Pairwise.cons (fun x hx => createLoop_gt excl _ _ _ x hx) (createLoop_pairwise excl _ _ _)
    · exact Or.inr h1

/-- the map of one pid, as `find_next_tid` sees it -/
def pidMap (sp : List (Nat × List (Nat × Nat))) (p : Nat) : List (Nat × Nat) := (amapGet sp p).getD []

theorem nextOf_eq (sp : List (Nat × List (Nat × Nat))) (p t : Nat) :
    nextOf sp p t = amapGet (pidMap sp p) t := by
  unfold nextOf pidMap
  cases amapGet sp p <;> simp [amapGet]

theorem pidMap_built_lt (n : Nat) (evs : List Ev) (p : Nat) :
    ∀ e ∈ pidMap (buildSpaces n evs) p, e.1 < e.2 := by
  intro e he
  unfold pidMap buildSpaces at he
  rw [amapGet_map] at he
  cases hg : amapGet (evs.foldl collect []) p with
  | none => rw [hg] at he; simp at he
  | some s =>
    rw [hg] at he
    simp only [Option.map_some, Option.getD_some, buildPid] at he
    rcases buildLoop_lt n s s [] e he with h | h
    · simp at h
    · exact h

/-- hops still possible from tid `t`: entries whose key is not below `t` -/
def hopsLeft (sp : List (Nat × List (Nat × Nat))) (p t : Nat) : Nat :=
  (pidMap sp p).countP (fun e => decide (t ≤ e.1))

theorem countP_lt_of_witness {α : Type} (P Q : α → Bool) :
    ∀ (l : List α), (∀ x, P x = true → Q x = true) → (∃ x ∈ l, Q x = true ∧ P x = false) →
      l.countP P < l.countP Q := by
  intro l
  induction l with
  | nil => intro _ h; obtain ⟨x, hx, _⟩ := h; simp at hx
  | cons y r ih =>
    intro himp hw
    obtain ⟨x, hx, hq, hp⟩ := hw
    have hle : r.countP P ≤ r.countP Q := List.countP_mono_left (fun x _ => himp x) 
    rcases List.mem_cons.mp hx with hx | hx
    · subst hx
      simp only [List.countP_cons, hq, hp]
      simp
      omega
    · have := ih himp ⟨x, hx, hq, hp⟩
      simp only [List.countP_cons]
      have : (if P y = true then 1 else 0) ≤ (if Q y = true then 1 else 0) := by
        by_cases hpy : P y = true
        · simp [hpy, himp y hpy]
        · simp [hpy]
      omega

theorem hopsLeft_decreases {sp : List (Nat × List (Nat × Nat))}
    (hlt : ∀ p, ∀ e ∈ pidMap sp p, e.1 < e.2) {p t t' : Nat} (h : nextOf sp p t = some t') :
    hopsLeft sp p t' < hopsLeft sp p t := by
  rw [nextOf_eq] at h
  have hm := amapGet_mem h
  have hl := hlt p _ hm
  unfold hopsLeft
  refine countP_lt_of_witness _ _ _ ?_ ⟨(t, t'), hm, by simp, by simp; exact hl⟩
  intro x hx
  simp only [decide_eq_true_eq] at hx ⊢
  simp only [] at hl
  omega

theorem length_le_spaceSize : ∀ (sp : List (Nat × List (Nat × Nat))) (x : Nat × List (Nat × Nat)),
    x ∈ sp → x.2.length ≤ spaceSize sp := by
  intro sp
  induction sp with
  | nil => intro x h; simp at h
  | cons y r ih =>
    intro x h
    simp only [spaceSize, List.map_cons, List.sum_cons]
    rcases List.mem_cons.mp h with h | h
    · subst h; omega
    · have := ih x h
      simp only [spaceSize] at this
      omega

theorem hopsLeft_le (sp : List (Nat × List (Nat × Nat))) (p t : Nat) : hopsLeft sp p t ≤ spaceSize sp := by
  unfold hopsLeft pidMap
  cases hg : amapGet sp p with
  | none => simp
  | some m =>
    simp only [Option.getD_some]
    exact Nat.le_trans List.countP_le_length (length_le_spaceSize sp (p, m) (amapGet_mem hg))

/-- with a strictly decreasing hop measure within the fuel, the fuel guard is never hit -/
theorem detect_no_recursion (mode : Mode) (next : Nat → Nat → Option Nat) (μ : Nat → Nat → Nat)
    (hμ : ∀ p t t', next p t = some t' → μ p t' < μ p t) :
    ∀ (fuel : Nat) (st : Lanes) (ev : Ev), μ ev.pid ev.tid ≤ fuel →
      detect mode next fuel st ev ≠ .error .recursion := by
  intro fuel
  induction fuel with
  | zero =>
    intro st ev hfuel h
    unfold detect at h
    simp only [] at h
    split at h
    · cases h
    split at h
    · cases h
    split at h
    · cases h
    split at h
    · split at h
      · cases h
      · split at h
        · cases h
        · rename_i t ht
          have := hμ _ _ _ ht
          omega
    · cases h
  | succ fuel ih =>
    intro st ev hfuel h
    unfold detect at h
    simp only [] at h
    split at h
    · cases h
    split at h
    · cases h
    split at h
    · cases h
    split at h
    · split at h
      · cases h
      · split at h
        · cases h
        · rename_i t ht
          have hlt := hμ _ _ _ ht
          split at h
          · rename_i e' he'
            injection h with h; subst h
            exact ih st { ev with tid := t } (by simp only []; omega) he'
          · cases h
    · cases h

theorem detectAll_no_recursion (mode : Mode) (next : Nat → Nat → Option Nat) (μ : Nat → Nat → Nat)
    (hμ : ∀ p t t', next p t = some t' → μ p t' < μ p t) (fuel : Nat) (hfuel : ∀ p t, μ p t ≤ fuel) :
    ∀ (evs : List Ev) (st : Lanes), detectAll mode next fuel st evs ≠ .error .recursion := by
  intro evs
  induction evs with
  | nil => intro st h; simp [detectAll] at h
  | cons ev rest ih =>
    intro st h
    simp only [detectAll] at h
    split at h
    · rename_i e' hstep
      injection h with h; subst h
      unfold step at hstep
      split at hstep
      · exact detect_no_recursion mode next μ hμ fuel st ev (hfuel _ _) hstep
      · cases hstep
    · split at h
      · rename_i e' hrest
        injection h with h; subst h
        exact ih _ hrest
      · cases h

/-! ### a lane owns one range of at most `max_tid_streams` extra lanes -/

theorem createLoop_length_le (excl : List Nat) :
    ∀ (fuel need cur : Nat), (createLoop excl fuel need cur).length ≤ need := by
  intro fuel
  induction fuel with
  | zero => intro need cur; cases need <;> simp [createLoop]
  | succ fuel ih =>
    intro need cur
    cases need with
    | zero => simp [createLoop]
    | succ need =>
      unfold createLoop
      split
      · exact ih _ _
      · simp only [List.length_cons]; exact Nat.succ_le_succ (ih _ _)

theorem ranges_length_le (n : Nat) : ∀ (seen excl : List Nat) (r : Nat × List Nat),
    r ∈ ranges n seen excl → r.2.length ≤ n := by
  intro seen
  induction seen with
  | nil => intro excl r h; simp [ranges] at h
  | cons tid rest ih =>
    intro excl r h
    simp only [ranges, List.mem_cons] at h
    rcases h with h | h
    · subst h; exact createLoop_length_le _ _ _ _
    · exact ih _ r h

theorem ranges_unique_key (n : Nat) : ∀ (seen excl : List Nat), seen.Nodup →
    ∀ (T : Nat) (c c' : List Nat), (T, c) ∈ ranges n seen excl → (T, c') ∈ ranges n seen excl → c = c' := by
  intro seen
  induction seen with
  | nil => intro excl _ T c c' h; simp [ranges] at h
  | cons tid rest ih =>
    intro excl hnd T c c' h h'
    obtain ⟨hnot, hnd'⟩ := List.nodup_cons.mp hnd
    simp only [ranges, List.mem_cons] at h h'
    rcases h with h | h <;> rcases h' with h' | h'
    · injection h with h1 h2; injection h' with h1' h2'; rw [h2, h2']
    · injection h with h1 h2; subst h1
      exact absurd (ranges_key_mem n _ _ _ h') hnot
    · injection h' with h1 h2; subst h1
      exact absurd (ranges_key_mem n _ _ _ h) hnot
    · exact ih _ hnd' T c c' h h'

theorem collectTid_nodup {seen : List Nat} (h : seen.Nodup) (t : Nat) : (collectTid seen t).Nodup := by
  unfold collectTid
  split
  · exact h
  · rename_i hn
    rw [List.nodup_append]
    refine ⟨h, by simp, ?_⟩
    intro a ha b hb
    simp at hb; subst hb
    intro hab; subst hab; exact hn ha

theorem seenOf_collect_nodup (m : List (Nat × List Nat)) (e : Ev)
    (h : ∀ p, (seenOf m p).Nodup) : ∀ p, (seenOf (collect m e) p).Nodup := by
  intro p
  unfold collect
  split
  · by_cases hp : p = e.pid
    · subst hp
      simp only [seenOf, amapGet_amapSet_same, Option.getD_some]
      exact collectTid_nodup (h _) _
    · simp only [seenOf, amapGet_amapSet_other _ _ hp]; exact h p
  · exact h p

theorem seenOf_foldl_nodup (evs : List Ev) : ∀ (m : List (Nat × List Nat)),
    (∀ p, (seenOf m p).Nodup) → ∀ p, (seenOf (evs.foldl collect m) p).Nodup := by
  induction evs with
  | nil => intro m h; exact h
  | cons e r ih => intro m h; exact ih _ (seenOf_collect_nodup m e h)

/-- all tids of the family of a seen tid `T` are `T` or in one list of at most `n` candidates -/
theorem owns_budget {n : Nat} {seen : List Nat} (hnd : seen.Nodup) {T : Nat} (hT : T ∈ seen) :
    ∃ c : List Nat, c.length ≤ n ∧ ∀ t, Owns n seen T t → t = T ∨ t ∈ c := by
  obtain ⟨c, hc⟩ := ranges_has_key n seen seen T hT
  refine ⟨c, ranges_length_le n _ _ _ hc, ?_⟩
  intro t ⟨c', hc', ht⟩
  rw [ranges_unique_key n seen seen hnd T c c' hc hc']
  exact ht

end AiuVerif.Overlap
