/- Lemmas for the epoch clause of C07: how every step of the calibration reacts when a constant is
added to all device counters of one rank. -/
import AiuVerif.Lemmas.MpSync

namespace AiuVerif
namespace MpSync

variable (r : Int) (c : Rat)

/-- the change of rank `pid`'s device clock -/
def dlt (pid : Int) : Rat := if pid = r then c else 0

@[simp] theorem shiftRank_pid (e : MEv) : (shiftRank r c e).pid = e.pid := by
  unfold shiftRank; split <;> rfl
@[simp] theorem shiftRank_uid (e : MEv) : (shiftRank r c e).uid = e.uid := by
  unfold shiftRank; split <;> rfl
@[simp] theorem shiftRank_ph (e : MEv) : (shiftRank r c e).ph = e.ph := by
  unfold shiftRank; split <;> rfl
@[simp] theorem shiftRank_name (e : MEv) : (shiftRank r c e).name = e.name := by
  unfold shiftRank; split <;> rfl
@[simp] theorem shiftRank_ts (e : MEv) : (shiftRank r c e).ts = e.ts := by
  unfold shiftRank; split <;> rfl
@[simp] theorem shiftRank_dur (e : MEv) : (shiftRank r c e).dur = e.dur := by
  unfold shiftRank; split <;> rfl

theorem shiftRank_args (e : MEv) :
    (shiftRank r c e).args = e.args.map (fun a => { a with tsDev := a.tsDev.map (fun l => l.map (· + dlt r c e.pid)) }) := by
  unfold shiftRank dlt
  split
  · rfl
  · cases e.args with
    | none => rfl
    | some a =>
      cases a with
      | mk cg h5 dev all =>
        cases dev with
        | none => simp
        | some l =>
          have : (fun x : Rat => x + 0) = id := by funext x; exact Rat.add_zero x
          simp [this]

@[simp] theorem collKey_shiftRank (e : MEv) : collKey (shiftRank r c e) = collKey e := by
  unfold collKey
  simp only [shiftRank_ph, shiftRank_pid, shiftRank_args]
  cases e.args <;> rfl

@[simp] theorem filterMap_collKey_shift (evs : List MEv) :
    (evs.map (shiftRank r c)).filterMap collKey = evs.filterMap collKey := by
  rw [List.filterMap_map]
  congr 1
  funext e
  simp

@[simp] theorem procIds_shift (evs : List MEv) : procIds (evs.map (shiftRank r c)) = procIds evs := by
  simp [procIds]
@[simp] theorem collGroups_shift (evs : List MEv) : collGroups (evs.map (shiftRank r c)) = collGroups evs := by
  simp [collGroups]
@[simp] theorem acts_shift (evs : List MEv) : acts (evs.map (shiftRank r c)) = acts evs := by
  simp [acts]

theorem queue_shift (evs : List MEv) (pid : Int) (cg : String) :
    queue (evs.map (shiftRank r c)) pid cg = (queue evs pid cg).map (shiftRank r c) := by
  simp only [queue, List.filter_map]
  congr 1
  apply List.filter_congr
  intro e _
  simp

@[simp] theorem treeReduce_shift (evs : List MEv) (cg : String) :
    treeReduce (evs.map (shiftRank r c)) cg = treeReduce evs cg := by
  simp [treeReduce, queue_shift, List.any_map, Function.comp_def]

theorem queue_pid {evs : List MEv} {pid : Int} {cg : String} {e : MEv} (h : e ∈ queue evs pid cg) : e.pid = pid := by
  simp only [queue, List.mem_filter, decide_eq_true_eq] at h
  have := collKey_pid h.2
  simpa using this.symm

theorem tsDevAt_shift (k : Nat) (e : MEv) :
    tsDevAt k (shiftRank r c e) = (tsDevAt k e).map (· + dlt r c e.pid) := by
  unfold tsDevAt
  rw [shiftRank_args]
  cases e.args with
  | none => rfl
  | some a =>
    cases h : a.tsDev with
    | none => simp [h, Except.map]
    | some l =>
      simp only [Option.map_some, h, List.getElem?_map]
      cases l[k]? <;> rfl

/-! ### `mapM` in `Except` under a pointwise change -/

theorem mapM_congr_map {α β : Type} {f f' : α → Except String β} (h : β → β) :
    ∀ (l : List α), (∀ x ∈ l, f' x = (f x).map h) → l.mapM f' = (l.mapM f).map (fun ys => ys.map h)
  | [], _ => by simp [pure, Except.pure, Except.map]
  | x :: xs, hx => by
    rw [List.mapM_cons, List.mapM_cons, hx x (by simp), mapM_congr_map h xs (fun y hy => hx y (by simp [hy]))]
    cases f x with
    | error e => rfl
    | ok b =>
      cases xs.mapM f with
      | error e => rfl
      | ok bs => rfl

theorem mapM_map_congr_map {α β : Type} {f : α → Except String β} (g : α → α) (h : β → β) :
    ∀ (l : List α), (∀ x ∈ l, f (g x) = (f x).map h) →
      (l.map g).mapM f = (l.mapM f).map (fun ys => ys.map h)
  | [], _ => by simp [pure, Except.pure, Except.map]
  | x :: xs, hx => by
    rw [List.map_cons, List.mapM_cons, List.mapM_cons, hx x (by simp),
      mapM_map_congr_map g h xs (fun y hy => hx y (by simp [hy]))]
    cases f x with
    | error e => rfl
    | ok b =>
      cases xs.mapM f with
      | error e => rfl
      | ok bs => rfl

/-! ### the reductions -/

theorem foldl_max_shift (d : Rat) : ∀ (xs : List Rat) (x : Rat),
    (xs.map (· + d)).foldl max (x + d) = xs.foldl max x + d
  | [], _ => rfl
  | y :: ys, x => by
    simp only [List.map_cons, List.foldl_cons]
    rw [show max (x + d) (y + d) = max x y + d by grind]
    exact foldl_max_shift d ys _

theorem maxL_shift (d : Rat) (l : List Rat) : maxL (l.map (· + d)) = (maxL l).map (· + d) := by
  cases l with
  | nil => rfl
  | cons x xs => simp [maxL, foldl_max_shift]

theorem dtsEnd_shift (evs : List MEv) (cgs : List String) (pid : Int) (k : Nat) :
    dtsEnd (evs.map (shiftRank r c)) cgs pid k =
      (dtsEnd evs cgs pid k).map (fun ys => ys.map (· + dlt r c pid)) := by
  unfold dtsEnd
  apply mapM_congr_map
  intro cg _
  rw [queue_shift]
  cases hq : queue evs pid cg with
  | nil => rfl
  | cons x xs =>
    have hm : ((x :: xs).map (shiftRank r c)).mapM (tsDevAt k) =
        ((x :: xs).mapM (tsDevAt k)).map (fun ys => ys.map (· + dlt r c pid)) := by
      apply mapM_map_congr_map
      intro e he
      rw [tsDevAt_shift, queue_pid (hq ▸ he)]
    simp only [List.map_cons] at hm ⊢
    rw [hm]
    cases (x :: xs).mapM (tsDevAt k) with
    | error e => rfl
    | ok l =>
      simp only [Except.map, bind, Except.bind, maxL_shift]
      cases maxL l <;> rfl

theorem mapM_congr_map_dep {α β : Type} {f f' : α → Except String β} (h : α → β → β) :
    ∀ (l : List α), (∀ x ∈ l, f' x = (f x).map (h x)) →
      l.mapM f' = (l.mapM f).map (fun ys => List.zipWith h l ys)
  | [], _ => by simp [pure, Except.pure, Except.map]
  | x :: xs, hx => by
    rw [List.mapM_cons, List.mapM_cons, hx x (by simp), mapM_congr_map_dep h xs (fun y hy => hx y (by simp [hy]))]
    cases f x with
    | error e => rfl
    | ok b =>
      cases xs.mapM f with
      | error e => rfl
      | ok bs => rfl

/-- how the three reductions move: row `k` (permuted position `k+1`) by that rank's change, the send
    list by the change of position 0, the receive list by the change of position 1 -/
def endsShift (tree : Bool) (np : Nat) (a : List Rat × List Rat × List Rat) : List Rat × List Rat × List Rat :=
  (List.zipWith (fun k x => x + dlt r c (pmap tree np (k + 1))) (List.range (np - 1)) a.1,
   a.2.1.map (· + dlt r c (pmap tree np 0)),
   a.2.2.map (· + dlt r c (pmap tree np 1)))

theorem col0At_shift (evs : List MEv) (cgs : List String) (tree : Bool) (np k : Nat) :
    col0At (evs.map (shiftRank r c)) cgs tree np k =
      (col0At evs cgs tree np k).map (· + dlt r c (pmap tree np (k + 1))) := by
  unfold col0At
  rw [dtsEnd_shift]
  cases dtsEnd evs cgs (pmap tree np (k + 1)) 1 with
  | error e => rfl
  | ok row =>
    cases row with
    | nil => rfl
    | cons x xs => rfl

theorem ends_shift (evs : List MEv) (cgs : List String) (tree : Bool) (np : Nat) :
    ends (evs.map (shiftRank r c)) cgs tree np = (ends evs cgs tree np).map (endsShift r c tree np) := by
  unfold ends
  have hcol : (List.range (np - 1)).mapM (col0At (evs.map (shiftRank r c)) cgs tree np) =
      ((List.range (np - 1)).mapM (col0At evs cgs tree np)).map
        (fun ys => List.zipWith (fun k x => x + dlt r c (pmap tree np (k + 1))) (List.range (np - 1)) ys) := by
    apply mapM_congr_map_dep
    intro k _
    rw [col0At_shift]
  rw [dtsEnd_shift, dtsEnd_shift]
  by_cases hnp : 2 < np
  · simp only [hnp, if_true]
    rw [hcol]
    cases (List.range (np - 1)).mapM (col0At evs cgs tree np) with
    | error e => rfl
    | ok col0 =>
      cases dtsEnd evs cgs (pmap tree np 0) 4 with
      | error e => rfl
      | ok send =>
        cases dtsEnd evs cgs (pmap tree np 1) 1 with
        | error e => rfl
        | ok recv => rfl
  · simp only [hnp, if_false]
    cases dtsEnd evs cgs (pmap tree np 0) 4 with
    | error e => rfl
    | ok send =>
      cases dtsEnd evs cgs (pmap tree np 1) 1 with
      | error e => rfl
      | ok recv => simp [endsShift, Except.map, bind, Except.bind, pure, Except.pure]

/-! ### the two selections -/

theorem argminBy_shift {α : Type} (d : Rat) (l : List (α × Rat)) :
    argminBy (l.map (fun p => (p.1, p.2 + d))) = (argminBy l).map (fun p => (p.1, p.2 + d)) := by
  cases l with
  | nil => rfl
  | cons x xs =>
    simp only [List.map_cons, argminBy, Option.map_some, Option.some.injEq]
    induction xs generalizing x with
    | nil => rfl
    | cons y ys ih =>
      simp only [List.map_cons, List.foldl_cons]
      by_cases h : y.2 < x.2
      · have h' : y.2 + d < x.2 + d := by grind
        simp only [h, h', if_true]
        exact ih y
      · have h' : ¬ (y.2 + d < x.2 + d) := by grind
        simp only [h, h', if_false]
        exact ih x

theorem lastMaxBy_shift {α : Type} (d : Rat) (g : α → α) (l : List (Rat × α)) :
    lastMaxBy (l.map (fun p => (p.1 + d, g p.2))) = (lastMaxBy l).map (fun p => (p.1 + d, g p.2)) := by
  cases l with
  | nil => rfl
  | cons x xs =>
    simp only [List.map_cons, lastMaxBy, Option.map_some, Option.some.injEq]
    induction xs generalizing x with
    | nil => rfl
    | cons y ys ih =>
      simp only [List.map_cons, List.foldl_cons]
      by_cases h : x.1 ≤ y.1
      · have h' : x.1 + d ≤ y.1 + d := by grind
        simp only [h, h', if_true]
        exact ih y
      · have h' : ¬ (x.1 + d ≤ y.1 + d) := by grind
        simp only [h, h', if_false]
        exact ih x

theorem zipWith_sub_shift (a b : Rat) : ∀ (recv send : List Rat),
    List.zipWith (fun x s => x - s) (recv.map (· + a)) (send.map (· + b)) =
      (List.zipWith (fun x s => x - s) recv send).map (· + (a - b))
  | [], _ => by simp
  | _ :: _, [] => by simp
  | x :: xs, s :: ss => by
    simp only [List.map_cons, List.zipWith_cons_cons, zipWith_sub_shift a b xs ss, List.cons.injEq, and_true]
    grind

theorem refPick_shift (evs : List MEv) (cg : String) (k : Nat) :
    refPick (evs.map (shiftRank r c)) cg k = (refPick evs cg k).map (fun p => (p.1, p.2 + dlt r c 0)) := by
  unfold refPick
  rw [queue_shift]
  have hm : ((queue evs 0 cg).map (shiftRank r c)).mapM (tsDevAt k) =
      ((queue evs 0 cg).mapM (tsDevAt k)).map (fun ys => ys.map (· + dlt r c 0)) := by
    apply mapM_map_congr_map
    intro e he
    rw [tsDevAt_shift, queue_pid he]
  simp only [hm]
  cases (queue evs 0 cg).mapM (tsDevAt k) with
  | error e => rfl
  | ok keys =>
    simp only [Except.map, bind, Except.bind]
    rw [List.zip_map, show (List.map (Prod.map (fun x => x + dlt r c 0) (shiftRank r c)) (List.zip keys (queue evs 0 cg))) =
      (List.zip keys (queue evs 0 cg)).map (fun p => (p.1 + dlt r c 0, shiftRank r c p.2)) from rfl,
      lastMaxBy_shift]
    cases lastMaxBy (List.zip keys (queue evs 0 cg)) with
    | none => rfl
    | some p =>
      obtain ⟨key, ev⟩ := p
      simp only [Option.map_some, shiftRank_dur, shiftRank_ts]
      cases ev.dur <;> rfl

/-! ### the shifts -/

theorem col0_shift_get (δ : Nat → Rat) (n : Nat) (col0 : List Rat) (j : Nat) (hj : j < n) (a : Rat)
    (ha : col0[j]? = some a) :
    (List.zipWith (fun k x => x + δ (k + 1)) (List.range n) col0)[j]? = some (a + δ (j + 1)) := by
  rw [List.getElem?_zipWith, List.getElem?_range hj, ha]

/-- **The crux of the epoch clause.**  When every rank's device clock changes by `δ (position)`, the
shift of the rank at permuted position `pp` changes by `-δ pp` plus one constant common to all ranks. -/
theorem shiftAt_shift (tree : Bool) (np : Nat) (δ : Nat → Rat) (col0 : List Rat) (d : Rat) (pp : Nat)
    (hlen : 2 < np → col0.length = np - 1) (hpp : pp < np) :
    shiftAt tree (List.zipWith (fun k x => x + δ (k + 1)) (List.range (np - 1)) col0) (d + (δ 1 - δ 0)) pp =
      shiftAt tree col0 d pp - δ pp + (if tree then δ 0 else δ 1) := by
  unfold shiftAt
  by_cases h2 : 2 ≤ pp
  · have hnp : 2 < np := by omega
    have hl := hlen hnp
    have h1 : pp - 1 < col0.length := by omega
    have h0 : 0 < col0.length := by omega
    have e1 := col0_shift_get δ (np - 1) col0 (pp - 1) (by omega) _ (List.getElem?_eq_getElem h1)
    have e0 := col0_shift_get δ (np - 1) col0 0 (by omega) _ (List.getElem?_eq_getElem h0)
    rw [show pp - 1 + 1 = pp by omega] at e1
    simp only [h2, if_true, e1, e0, List.getElem?_eq_getElem h1, List.getElem?_eq_getElem h0]
    have hpp1 : 1 ≤ pp := by omega
    have hpp0 : ¬ pp = 0 := by omega
    cases tree
    · simp only [Bool.false_eq_true, if_false, hpp0]; grind
    · simp only [if_true, hpp1]; grind
  · have hpp' : pp = 0 ∨ pp = 1 := by omega
    simp only [h2, if_false]
    rcases hpp' with rfl | rfl
    · cases tree
      · simp; grind
      · simp; grind
    · cases tree
      · simp; grind
      · simp; grind

/-! ### the calibration as a whole -/

theorem ends_col0_length {evs : List MEv} {cgs : List String} {tree : Bool} {np : Nat}
    {col0 send recv : List Rat} (h : ends evs cgs tree np = .ok (col0, send, recv)) (hnp : 2 < np) :
    col0.length = np - 1 := by
  unfold ends at h
  simp only [hnp, if_true] at h
  cases hm : (List.range (np - 1)).mapM (col0At evs cgs tree np) with
  | error e => simp [hm, bind, Except.bind] at h
  | ok col =>
    have hl := (mapM_ok_forall₂ hm).length_eq
    simp only [hm, bind, Except.bind] at h
    cases hs : dtsEnd evs cgs (pmap tree np 0) 4 with
    | error e => simp [hs] at h
    | ok send' =>
      cases hr : dtsEnd evs cgs (pmap tree np 1) 1 with
      | error e => simp [hs, hr] at h
      | ok recv' =>
        simp only [hs, hr, pure, Except.pure, Except.ok.injEq, Prod.mk.injEq] at h
        rw [← h.1, ← hl]; simp

theorem pmap_pp (tree : Bool) (np pid : Nat) (h : pid < np) :
    pmap tree np (if tree then pid else np - 1 - pid) = (pid : Int) := by
  unfold pmap
  cases tree
  · simp only [Bool.false_eq_true, if_false]; omega
  · simp

/-- two calibrations that give every rank the same absolute placement once its clock change is added -/
def CalibRel (c₁ c₂ : Calib) : Prop :=
  c₂.shifts.length = c₁.shifts.length ∧
  ∀ (pid : Nat) (s₁ : Rat), c₁.shifts[pid]? = some s₁ →
    ∃ s₂, c₂.shifts[pid]? = some s₂ ∧ s₂ + c₂.ref + dlt r c pid = s₁ + c₁.ref

theorem calibrate_shift (evs : List MEv) :
    match calibrate evs, calibrate (evs.map (shiftRank r c)) with
    | .error a, .error b => a = b
    | .ok c₁, .ok c₂ => CalibRel r c c₁ c₂
    | _, _ => False := by
  unfold calibrate calibrateG
  simp only [collGroups_shift, procIds_shift]
  cases keptGroups (collGroups evs) with
  | nil => simp
  | cons cg0 rest =>
    simp only [treeReduce_shift, ends_shift]
    generalize hnp : (procIds evs).length = np
    generalize htree : treeReduce evs cg0 = tree
    cases hE : ends evs (cg0 :: rest) tree np with
    | error e => simp [Except.map, bind, Except.bind]
    | ok a =>
      obtain ⟨col0, send, recv⟩ := a
      simp only [Except.map, bind, Except.bind, endsShift, zipWith_sub_shift, List.length_map]
      by_cases hlen' : send.length = recv.length
      case neg => simp [hlen']
      simp only [hlen', ne_eq, not_true_eq_false, if_false]
      rw [List.zip_map_right,
        show List.map (Prod.map id fun x => x + (dlt r c (pmap tree np 1) - dlt r c (pmap tree np 0)))
            (List.zip (cg0 :: rest) (List.zipWith (fun x s => x - s) recv send)) =
          (List.zip (cg0 :: rest) (List.zipWith (fun x s => x - s) recv send)).map
            (fun p => (p.1, p.2 + (dlt r c (pmap tree np 1) - dlt r c (pmap tree np 0)))) from rfl,
        argminBy_shift]
      cases argminBy (List.zip (cg0 :: rest) (List.zipWith (fun x s => x - s) recv send)) with
      | none => simp
      | some p =>
        obtain ⟨cgRef, d⟩ := p
        simp only [Option.map_some, refPick_shift]
        cases refPick evs cgRef (if tree = true then 4 else 1) with
        | error e => simp [Except.map]
        | ok q =>
          obtain ⟨hostEnd, key⟩ := q
          simp only [Except.map, pure, Except.pure]
          refine ⟨by simp, ?_⟩
          intro pid s₁ hs
          have hlen : 2 < np → col0.length = np - 1 := ends_col0_length hE
          simp only [List.getElem?_map] at hs ⊢
          have hpid : pid < np := by
            by_contra hge
            rw [List.getElem?_eq_none (by simpa using Nat.le_of_not_lt hge)] at hs
            simp at hs
          rw [List.getElem?_range hpid] at hs ⊢
          simp only [Option.map_some, Option.some.injEq] at hs
          refine ⟨_, rfl, ?_⟩
          have hp := shiftAt_shift tree np (fun j => dlt r c (pmap tree np j)) col0 d
            (if tree = true then pid else np - 1 - pid) hlen (by split <;> omega)
          have h0 := shiftAt_shift tree np (fun j => dlt r c (pmap tree np j)) col0 d
            (if tree = true then 0 else np - 1 - 0) hlen (by split <;> omega)
          simp only [pmap_pp tree np pid hpid] at hp
          have hz := pmap_pp tree np 0 (by omega)
          simp only [hz] at h0
          beta_reduce
          rw [hp, h0, ← hs]
          simp only [refOffset]
          have : ((0 : Nat) : Int) = 0 := rfl
          rw [this]
          grind

/-! ### placing the events -/

@[simp] theorem eraseDev_ts (e : MEv) : (eraseDev e).ts = e.ts := rfl

theorem eraseDev_shiftRank (e : MEv) : eraseDev (shiftRank r c e) = eraseDev e := by
  unfold shiftRank
  split
  · unfold eraseDev
    cases e.args <;> rfl
  · rfl

theorem pyIdx_rel {c₁ c₂ : Calib} (hrel : CalibRel r c c₁ c₂) (pid : Int) (hp : 0 ≤ pid) :
    (pyIdx c₁.shifts pid = none ∧ pyIdx c₂.shifts pid = none) ∨
    ∃ s₁ s₂, pyIdx c₁.shifts pid = some s₁ ∧ pyIdx c₂.shifts pid = some s₂ ∧
      s₂ + c₂.ref + dlt r c pid = s₁ + c₁.ref := by
  unfold pyIdx
  simp only [hp, if_true]
  cases h1 : c₁.shifts[pid.toNat]? with
  | none =>
    left
    refine ⟨rfl, ?_⟩
    rw [List.getElem?_eq_none_iff] at h1 ⊢
    rw [hrel.1]; exact h1
  | some s₁ =>
    right
    obtain ⟨s₂, h2, h3⟩ := hrel.2 pid.toNat s₁ h1
    refine ⟨s₁, s₂, rfl, h2, ?_⟩
    rw [Int.toNat_of_nonneg hp] at h3
    exact h3

theorem alter_shift {c₁ c₂ : Calib} (hrel : CalibRel r c c₁ c₂) (e : MEv) (hpid : isDev e = true → 0 ≤ e.pid) :
    (alter c₂ (shiftRank r c e)).map eraseDev = (alter c₁ e).map eraseDev := by
  unfold alter
  simp only [shiftRank_args, shiftRank_pid, shiftRank_name]
  cases ha : e.args with
  | none => rfl
  | some a =>
    simp only [Option.map_some]
    by_cases h5 : a.hasTS5 = true
    · simp only [h5, if_true]
      have hp : 0 ≤ e.pid := hpid (by simp [isDev, ha, h5])
      cases hl : a.tsDev with
      | none => rfl
      | some l =>
        simp only [Option.map_some]
        rcases pyIdx_rel r c hrel e.pid hp with ⟨h1, h2⟩ | ⟨s₁, s₂, h1, h2, h3⟩
        · simp only [h1, h2]
        · simp only [h1, h2]
          have hall : List.map (fun x => x + c₂.ref) (List.map (fun x => x + s₂) (List.map (fun x => x + dlt r c e.pid) l)) =
              List.map (fun x => x + c₁.ref) (List.map (fun x => x + s₁) l) := by
            simp only [List.map_map]
            apply List.map_congr_left
            intro x _
            simp only [Function.comp]
            grind
          rw [hall]
          cases (List.map (fun x => x + c₁.ref) (List.map (fun x => x + s₁) l))[opId e.name]? with
          | none => rfl
          | some t =>
            simp [Except.map, eraseDev]
    · have h5' : a.hasTS5 = false := by simpa using h5
      simp only [h5', Bool.false_eq_true, if_false, Except.map]
      rw [eraseDev_shiftRank]

theorem mapM_alter_shift {c₁ c₂ : Calib} (hrel : CalibRel r c c₁ c₂) :
    ∀ (evs : List MEv), (∀ e ∈ evs, isDev e = true → 0 ≤ e.pid) →
      ((evs.map (shiftRank r c)).mapM (alter c₂)).map (fun l => l.map eraseDev) =
        (evs.mapM (alter c₁)).map (fun l => l.map eraseDev)
  | [], _ => rfl
  | e :: es, h => by
    have h1 := alter_shift r c hrel e (h e (by simp))
    have ih := mapM_alter_shift hrel es (fun x hx => h x (by simp [hx]))
    rw [List.map_cons, List.mapM_cons, List.mapM_cons]
    cases ha : alter c₂ (shiftRank r c e) with
    | error a =>
      cases hb : alter c₁ e with
      | error b => simp [ha, hb, Except.map] at h1; simp [bind, Except.bind, Except.map, h1]
      | ok y => simp [ha, hb, Except.map] at h1
    | ok x =>
      cases hb : alter c₁ e with
      | error b => simp [ha, hb, Except.map] at h1
      | ok y =>
        simp only [ha, hb, Except.map, Except.ok.injEq] at h1
        cases hc : (es.map (shiftRank r c)).mapM (alter c₂) with
        | error a =>
          cases hd : es.mapM (alter c₁) with
          | error b => simp [hc, hd, Except.map] at ih; simp [bind, Except.bind, Except.map, ih]
          | ok ys => simp [hc, hd, Except.map] at ih
        | ok xs =>
          cases hd : es.mapM (alter c₁) with
          | error b => simp [hc, hd, Except.map] at ih
          | ok ys =>
            simp only [hc, hd, Except.map, Except.ok.injEq] at ih
            simp [bind, Except.bind, Except.map, pure, Except.pure, h1, ih]

/-- **Epoch clause on the model.**  Adding a constant to every device counter of one rank changes
nothing the stage emits except the scratch `ts_dev` copies: same error class, or the same events in
the same order with the same `ts`, `dur`, `ts_all`. -/
theorem mpSync_shift (evs : List MEv) (hpid : ∀ e ∈ evs, isDev e = true → 0 ≤ e.pid) :
    (mpSync (evs.map (shiftRank r c))).map (fun l => l.map eraseDev) =
      (mpSync evs).map (fun l => l.map eraseDev) := by
  have hcal := calibrate_shift r c evs
  have hsort : ∀ l₁ l₂ : List MEv, l₁.map eraseDev = l₂.map eraseDev →
      (sortOut l₁.reverse).map eraseDev = (sortOut l₂.reverse).map eraseDev := by
    intro l₁ l₂ h
    rw [← sortOut_map eraseDev eraseDev_ts, ← sortOut_map eraseDev eraseDev_ts, List.map_reverse, List.map_reverse, h]
  unfold mpSync mpSyncG
  simp only [acts_shift]
  cases hact : acts evs with
  | false =>
    simp only [Bool.false_eq_true, if_false, bind, Except.bind, pure, Except.pure, Except.map, Except.ok.injEq]
    apply hsort
    simp [List.map_map, Function.comp_def, eraseDev_shiftRank]
  | true =>
    simp only [if_true]
    change (match calibrate evs, calibrate (evs.map (shiftRank r c)) with
      | .error a, .error b => a = b
      | .ok c₁, .ok c₂ => CalibRel r c c₁ c₂
      | _, _ => False) at hcal
    unfold calibrate at hcal
    cases h1 : calibrateG refOffset evs with
    | error a =>
      cases h2 : calibrateG refOffset (evs.map (shiftRank r c)) with
      | error b => simp [h1, h2] at hcal; simp [bind, Except.bind, Except.map, hcal]
      | ok c₂ => simp [h1, h2] at hcal
    | ok c₁ =>
      cases h2 : calibrateG refOffset (evs.map (shiftRank r c)) with
      | error b => simp [h1, h2] at hcal
      | ok c₂ =>
        simp only [h1, h2] at hcal
        have hm := mapM_alter_shift r c hcal evs hpid
        simp only [bind, Except.bind]
        cases hc : (evs.map (shiftRank r c)).mapM (alter c₂) with
        | error a =>
          cases hd : evs.mapM (alter c₁) with
          | error b => simp [hc, hd, Except.map] at hm; simp [Except.map, hm]
          | ok ys => simp [hc, hd, Except.map] at hm
        | ok xs =>
          cases hd : evs.mapM (alter c₁) with
          | error b => simp [hc, hd, Except.map] at hm
          | ok ys =>
            simp only [hc, hd, Except.map, Except.ok.injEq] at hm
            simp only [pure, Except.pure, Except.map, Except.ok.injEq]
            exact hsort _ _ hm

end MpSync
end AiuVerif
