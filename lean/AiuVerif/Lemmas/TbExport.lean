/- Helper lemmas about the TensorBoard / DataFrame exporter model. -/
import AiuVerif.Model.TbExport
import Mathlib.Data.List.Nodup

namespace AiuVerif
namespace Tb
variable {α : Type}

namespace Groups

theorem get_add (g : Groups α) (k k' : Int) (e : α) :
    (g.add k e).get k' = if k = k' then g.get k' ++ [e] else g.get k' := by
  induction g with
  | nil =>
    by_cases h : k = k' <;> simp [add, get, h]
  | cons hd t ih =>
    obtain ⟨kh, l⟩ := hd
    by_cases h1 : kh = k
    · subst h1
      by_cases h2 : kh = k' <;> simp [add, get, h2]
    · by_cases h2 : kh = k'
      · subst h2
        have : ¬ k = kh := fun h => h1 h.symm
        simp [add, get, h1, this]
      · simp [add, get, h1, h2, ih]

theorem keys_add (g : Groups α) (k : Int) (e : α) :
    (g.add k e).keys = if k ∈ g.keys then g.keys else g.keys ++ [k] := by
  induction g with
  | nil => simp [add, keys]
  | cons hd t ih =>
    obtain ⟨kh, l⟩ := hd
    by_cases h1 : kh = k
    · subst h1; simp [add, keys]
    · have h1' : ¬ k = kh := fun h => h1 h.symm
      simp only [keys] at ih
      by_cases h2 : k ∈ t.map (·.1)
      · simp [add, keys, h1, h1', h2, ih]
      · simp [add, keys, h1, h1', h2, ih]

theorem mem_keys_add (g : Groups α) (k k' : Int) (e : α) :
    k' ∈ (g.add k e).keys ↔ k' ∈ g.keys ∨ k' = k := by
  rw [keys_add]
  by_cases h : k ∈ g.keys
  · simp only [h, if_true]
    constructor
    · exact Or.inl
    · rintro (h' | h')
      · exact h'
      · exact h' ▸ h
  · simp [h]

theorem nodup_keys_add (g : Groups α) (k : Int) (e : α) (h : g.keys.Nodup) :
    (g.add k e).keys.Nodup := by
  rw [keys_add]
  by_cases hk : k ∈ g.keys
  · simpa [hk] using h
  · simp only [hk, if_false]
    rw [List.nodup_append]
    refine ⟨h, by simp, ?_⟩
    intro a ha b hb
    simp at hb
    subst hb
    intro hab
    exact hk (hab ▸ ha)

theorem length_eq_keys (g : Groups α) : g.length = g.keys.length := by simp [keys]

end Groups

/-- the events of a list whose folded key is `k`, in order -/
def sel (pidOf : α → PidV) (k : Int) (es : List α) : List α :=
  es.filter (fun e => keyOf pidOf e == some k)

theorem parseFrom_error_iff (pidOf : α → PidV) (g : Groups α) (es : List α) :
    (∃ m, parseFrom pidOf g es = .error m) ↔ ∃ e ∈ es, pidOf e = .missing := by
  induction es generalizing g with
  | nil => simp [parseFrom]
  | cons e es ih =>
    cases h : pidOf e with
    | missing =>
      simp only [parseFrom, h]
      exact ⟨fun _ => ⟨e, List.mem_cons_self .., h⟩, fun _ => ⟨_, rfl⟩⟩
    | int i =>
      simp only [parseFrom, h, ih, List.mem_cons]
      constructor
      · rintro ⟨x, hx, hm⟩; exact ⟨x, Or.inr hx, hm⟩
      · rintro ⟨x, hx | hx, hm⟩
        · subst hx; rw [h] at hm; cases hm
        · exact ⟨x, hx, hm⟩
    | other =>
      simp only [parseFrom, h, ih, List.mem_cons]
      constructor
      · rintro ⟨x, hx, hm⟩; exact ⟨x, Or.inr hx, hm⟩
      · rintro ⟨x, hx | hx, hm⟩
        · subst hx; rw [h] at hm; cases hm
        · exact ⟨x, hx, hm⟩

theorem parseFrom_ok_of_no_missing (pidOf : α → PidV) (g : Groups α) (es : List α)
    (h : ∀ e ∈ es, pidOf e ≠ .missing) : ∃ g', parseFrom pidOf g es = .ok g' := by
  cases hp : parseFrom pidOf g es with
  | ok g' => exact ⟨g', rfl⟩
  | error m =>
    obtain ⟨e, he, hm⟩ := (parseFrom_error_iff pidOf g es).1 ⟨m, hp⟩
    exact absurd hm (h e he)

theorem get_parseFrom (pidOf : α → PidV) (g g' : Groups α) (es : List α)
    (h : parseFrom pidOf g es = .ok g') (k : Int) :
    g'.get k = g.get k ++ sel pidOf k es := by
  induction es generalizing g with
  | nil =>
    simp only [parseFrom, Except.ok.injEq] at h
    subst h; simp [sel]
  | cons e es ih =>
    cases hp : pidOf e with
    | missing => simp [parseFrom, hp] at h
    | int i =>
      simp only [parseFrom, hp] at h
      rw [ih _ h, Groups.get_add]
      by_cases hk : foldRank i = k
      · simp [sel, keyOf, hp, hk]
      · simp [sel, keyOf, hp, hk]
    | other =>
      simp only [parseFrom, hp] at h
      rw [ih _ h]
      simp [sel, keyOf, hp]

theorem keys_parseFrom (pidOf : α → PidV) (g g' : Groups α) (es : List α)
    (h : parseFrom pidOf g es = .ok g') :
    (g.keys.Nodup → g'.keys.Nodup) ∧
      ∀ k, k ∈ g'.keys ↔ k ∈ g.keys ∨ ∃ e ∈ es, keyOf pidOf e = some k := by
  induction es generalizing g with
  | nil =>
    simp only [parseFrom, Except.ok.injEq] at h
    subst h; simp
  | cons e es ih =>
    cases hp : pidOf e with
    | missing => simp [parseFrom, hp] at h
    | int i =>
      simp only [parseFrom, hp] at h
      obtain ⟨h1, h2⟩ := ih _ h
      refine ⟨fun hn => h1 (Groups.nodup_keys_add g _ e hn), fun k => ?_⟩
      rw [h2, Groups.mem_keys_add]
      simp only [List.mem_cons]
      constructor
      · rintro ((hk | hk) | ⟨x, hx, hkx⟩)
        · exact Or.inl hk
        · exact Or.inr ⟨e, Or.inl rfl, by simp [keyOf, hp, hk]⟩
        · exact Or.inr ⟨x, Or.inr hx, hkx⟩
      · rintro (hk | ⟨x, hx | hx, hkx⟩)
        · exact Or.inl (Or.inl hk)
        · subst hx
          simp only [keyOf, hp, Option.some.injEq] at hkx
          exact Or.inl (Or.inr hkx.symm)
        · exact Or.inr ⟨x, hx, hkx⟩
    | other =>
      simp only [parseFrom, hp] at h
      obtain ⟨h1, h2⟩ := ih _ h
      refine ⟨h1, fun k => ?_⟩
      rw [h2]
      simp only [List.mem_cons]
      constructor
      · rintro (hk | ⟨x, hx, hkx⟩)
        · exact Or.inl hk
        · exact Or.inr ⟨x, Or.inr hx, hkx⟩
      · rintro (hk | ⟨x, hx | hx, hkx⟩)
        · exact Or.inl hk
        · subst hx; simp [keyOf, hp] at hkx
        · exact Or.inr ⟨x, hx, hkx⟩

/-- what `_parse_by_rank_id` returns on data without a missing key -/
theorem parse_spec (pidOf : α → PidV) (es : List α) (g : Groups α)
    (h : parseByRankId pidOf es = .ok g) :
    g.keys.Nodup ∧ (∀ k, k ∈ g.keys ↔ ∃ e ∈ es, keyOf pidOf e = some k) ∧
      ∀ k, g.get k = sel pidOf k es := by
  obtain ⟨h1, h2⟩ := keys_parseFrom pidOf [] g es h
  refine ⟨h1 (by simp [Groups.keys]), fun k => by simpa [Groups.keys] using h2 k, fun k => ?_⟩
  have := get_parseFrom pidOf [] g es h k
  simpa [Groups.get] using this

theorem perRank_length (g : Groups α) (rc : Nat) : (perRank g rc).length = rc := by
  simp [perRank]

theorem perRank_get (g : Groups α) (rc r : Nat) (h : r < rc) :
    (perRank g rc)[r]'(by simpa [perRank] using h) = g.get (r : Int) := by
  simp [perRank]

/-- a duplicate-free list of integers whose members are exactly `0 … R-1` has length `R` -/
theorem length_of_nodup_range (l : List Int) (R : Nat) (hn : l.Nodup)
    (hm : ∀ k : Int, k ∈ l ↔ 0 ≤ k ∧ k < R) : l.length = R := by
  have hr : ((List.range R).map (fun n : Nat => (n : Int))).Nodup := by
    refine List.Nodup.map ?_ List.nodup_range
    intro a b hab; exact Int.ofNat.inj hab
  have hp : l.Perm ((List.range R).map (fun n : Nat => (n : Int))) := by
    rw [List.perm_ext_iff_of_nodup hn hr]
    intro k
    rw [hm]
    simp only [List.mem_map, List.mem_range]
    constructor
    · rintro ⟨h0, h1⟩
      refine ⟨k.toNat, ?_, ?_⟩ <;> omega
    · rintro ⟨n, hn, rfl⟩; omega
  simpa using hp.length_eq

/-- the same with the pseudo process −1 as an extra member -/
theorem length_of_nodup_range_neg (l : List Int) (R : Nat) (hn : l.Nodup)
    (hm : ∀ k : Int, k ∈ l ↔ k = -1 ∨ (0 ≤ k ∧ k < R)) : l.length = R + 1 := by
  have hmem : (-1 : Int) ∈ l := (hm (-1)).2 (Or.inl rfl)
  have hp := List.perm_cons_erase hmem
  have hn' : (l.erase (-1)).Nodup := hn.erase _
  have hlen : (l.erase (-1)).length = R := by
    apply length_of_nodup_range _ R hn'
    intro k
    rw [hn.mem_erase_iff, hm]
    constructor
    · rintro ⟨hne, h | h⟩
      · exact absurd h hne
      · exact h
    · rintro ⟨h0, h1⟩
      exact ⟨by omega, Or.inr ⟨h0, h1⟩⟩
  have := hp.length_eq
  simp only [List.length_cons] at this
  omega

/-- "the folded key of the event is one of `0 … R-1`" -/
def inRange (pidOf : α → PidV) (R : Nat) (e : α) : Bool :=
  match keyOf pidOf e with
  | some k => decide (0 ≤ k ∧ k < (R : Int))
  | none => false

/-- concatenating the per-key selections for keys `0 … R-1` is a permutation of the events whose
    key lies in that range -/
theorem flatten_sel_perm (pidOf : α → PidV) (es : List α) (R : Nat) :
    (((List.range R).map (fun r : Nat => sel pidOf (r : Int) es)).flatten).Perm
      (es.filter (inRange pidOf R)) := by
  induction R with
  | zero =>
    have : es.filter (inRange pidOf 0) = [] := by
      rw [List.filter_eq_nil_iff]
      intro e _
      unfold inRange
      cases keyOf pidOf e with
      | none => simp
      | some k => simp
    rw [this]; simp
  | succ R ih =>
    rw [List.range_succ, List.map_append, List.flatten_append]
    simp only [List.map_cons, List.map_nil, List.flatten_cons, List.flatten_nil, List.append_nil]
    -- split the target filter by `k < R`
    let P : α → Bool := inRange pidOf (R + 1)
    let Q : α → Bool := inRange pidOf R
    have hsplit := (List.filter_append_perm Q (es.filter P)).symm
    have h1 : (es.filter P).filter Q = es.filter Q := by
      rw [List.filter_filter]
      congr 1
      funext e
      simp only [P, Q, inRange]
      cases keyOf pidOf e with
      | none => simp
      | some k =>
        rw [Bool.eq_iff_iff]
        simp only [Bool.and_eq_true, decide_eq_true_eq]
        omega
    have h2 : (es.filter P).filter (fun x => !Q x) = sel pidOf (R : Int) es := by
      rw [List.filter_filter]
      unfold sel
      congr 1
      funext e
      simp only [P, Q, inRange]
      cases keyOf pidOf e with
      | none => simp
      | some k =>
        rw [Bool.eq_iff_iff]
        simp only [Bool.and_eq_true, Bool.not_eq_true', decide_eq_true_eq, decide_eq_false_iff_not,
          beq_iff_eq, Option.some.injEq]
        omega
    rw [h1, h2] at hsplit
    exact (List.Perm.append_right _ ih).trans hsplit.symm

end Tb

namespace Df

theorem dfExport_append (dm : List Col) (view : List (List J)) (es : List XEv) :
    dfExport dm view es = view ++ dfExport dm [] es := by
  induction es generalizing view with
  | nil => simp [dfExport]
  | cons e es ih =>
    simp only [dfExport]
    split
    · exact ih view
    · split
      · exact ih view
      · split
        · exact ih view
        · rw [ih (view ++ [rowOf dm e.json]), ih ([] ++ [rowOf dm e.json])]
          simp [List.append_assoc]

theorem jsonExport_eq (tv : List J) (es : List XEv) : jsonExport tv es = tv ++ es.map (·.json) := by
  induction es generalizing tv with
  | nil => simp [jsonExport]
  | cons e es ih => simp [jsonExport, ih, List.append_assoc]

end Df
end AiuVerif
