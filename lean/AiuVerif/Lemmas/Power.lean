/- Helper lemmas about the power sub-pipeline model (C10). -/
import AiuVerif.Model.Power
import Mathlib.Tactic.Linarith
import Mathlib.Tactic.Ring
import Mathlib.Tactic.FieldSimp
import Mathlib.Algebra.Order.Field.Rat

namespace AiuVerif
namespace Power

/-! ### vocabulary of the statements -/

/-- the charge reading is a 32-bit counter value -/
def InRange (c : Ctr) : Prop := 0 ≤ truncInt c.q ∧ truncInt c.q < 4294967296

/-- non-decreasing `TS_cycles` (what the counter sorter delivers per pid) -/
def TimeSorted (l : List Ctr) : Prop := l.Pairwise (fun a b => a.tsc ≤ b.tsc)

def nz (c : Ctr) : Bool := decide (truncInt c.q ≠ 0)

theorem valid_def (l : List Ctr) :
    valid l = match l.filter nz with
      | [] => []
      | a :: rest => dedupGo a rest := rfl

/-! ### `compute_delta` case by case -/

theorem cd_replace_zero (sk : Bool) (prev c : Ctr) (h : truncInt prev.q = 0) :
    computeDelta sk prev c = .replacePrev := by
  simp [computeDelta, h]

theorem cd_skip_zero (sk : Bool) (prev c : Ctr) (h : truncInt prev.q ≠ 0) (h2 : truncInt c.q = 0) :
    computeDelta sk prev c = .skipThis := by
  simp [computeDelta, h, h2]

theorem cd_skip_tie (sk : Bool) (prev c : Ctr) (h : truncInt prev.q ≠ 0) (h2 : truncInt c.q ≠ 0)
    (ht : prev.tsc = c.tsc) (hp : isPrep prev.cat = false) : computeDelta sk prev c = .skipThis := by
  simp [computeDelta, h, h2, ht, hp]

theorem cd_value (prev c : Ctr) (h : truncInt prev.q ≠ 0) (h2 : truncInt c.q ≠ 0)
    (ht : prev.tsc ≠ c.tsc) :
    computeDelta false prev c =
      .value (clamp (watts (rawDelta (truncInt prev.q) (truncInt c.q)) (c.tsc - prev.tsc))) := by
  simp [computeDelta, h, h2, ht]

/-- whatever branch is taken, a computed value has this form -/
theorem cd_value_form (sk : Bool) (prev c : Ctr) (w : Num) (h : computeDelta sk prev c = .value w) :
    w = clamp (watts (rawDelta (truncInt prev.q) (truncInt c.q)) (c.tsc - prev.tsc)) ∧
    truncInt prev.q ≠ 0 ∧ prev.tsc ≠ c.tsc := by
  unfold computeDelta at h
  simp only at h
  split at h
  · exact absurd h (by simp)
  · split at h
    · exact absurd h (by simp)
    · split at h
      · split at h <;> exact absurd h (by simp)
      · split at h
        · exact absurd h (by simp)
        · rename_i h1 _ h3 _
          exact ⟨(Delta.value.inj h).symm, h1, h3⟩

/-! ### arithmetic of one sample -/

theorem rawDelta_eq (a b : Ctr) (ha : InRange a) (hb : InRange b) :
    rawDelta (truncInt a.q) (truncInt b.q) = chargeDelta a b := by
  unfold rawDelta chargeDelta InRange at *
  split <;> omega

theorem rawDelta_nonneg (pa pb : Int) (ha : 0 ≤ pa ∧ pa < 4294967296) (hb : 0 ≤ pb ∧ pb < 4294967296) :
    0 ≤ rawDelta pa pb := by
  unfold rawDelta
  split <;> omega

theorem chargeDelta_nonneg (a b : Ctr) : 0 ≤ chargeDelta a b := by
  unfold chargeDelta; omega

theorem watts_eq (nv : Int) (dt : Num) : watts nv dt = 12 * (nv : Num) / 512 / dt := by
  unfold watts; ring

theorem watts_nonneg (nv : Int) (dt : Num) (h : 0 ≤ nv) (hdt : 0 < dt) : 0 ≤ watts nv dt := by
  rw [watts_eq]
  have : (0 : Num) ≤ (nv : Num) := by exact_mod_cast h
  exact div_nonneg (div_nonneg (mul_nonneg (by norm_num) this) (by norm_num)) (le_of_lt hdt)

theorem clamp_nonneg (w : Num) (h : 0 ≤ w) : 0 ≤ clamp w := by
  unfold clamp; split <;> simp [h]

theorem clamp_le (w : Num) : clamp w ≤ 100 := by
  unfold clamp
  split
  · norm_num
  · rename_i h; exact not_lt.mp h

theorem value_eq_spec (a b : Ctr) (ha : InRange a) (hb : InRange b) :
    clamp (watts (rawDelta (truncInt a.q) (truncInt b.q)) (b.tsc - a.tsc)) = specValue a b := by
  rw [rawDelta_eq a b ha hb, watts_eq]; rfl

theorem specValue_nonneg (a b : Ctr) (h : a.tsc < b.tsc) : 0 ≤ specValue a b := by
  unfold specValue
  apply clamp_nonneg
  have : (0 : Num) ≤ (chargeDelta a b : Num) := by exact_mod_cast chargeDelta_nonneg a b
  have hdt : 0 < b.tsc - a.tsc := by linarith
  exact div_nonneg (div_nonneg (mul_nonneg (by norm_num) this) (by norm_num)) (le_of_lt hdt)

/-! ### the spec functions -/

theorem dedupGo_head (c : Ctr) (l : List Ctr) : ∃ t, dedupGo c l = c :: t := by
  induction l with
  | nil => exact ⟨[], rfl⟩
  | cons b rest ih =>
    unfold dedupGo
    split
    · exact ih
    · exact ⟨_, rfl⟩

theorem specPairs_cons_dedup (a c : Ctr) (l : List Ctr) :
    specPairs (a :: dedupGo c l) = ⟨a.pid, a.ts, specValue a c⟩ :: specPairs (dedupGo c l) := by
  obtain ⟨t, ht⟩ := dedupGo_head c l
  rw [ht]
  rfl

/-! ### `go`: one pid through `compute_power` -/

theorem go_nil (sk : Bool) (st : Option Ctr) : go sk st [] = .ok [] := by
  cases st <;> rfl

theorem go_cons (sk : Bool) (st : Option Ctr) (c : Ctr) (rest : List Ctr) :
    go sk st (c :: rest) =
      match stepPower sk st c with
      | .error e => .error e
      | .ok (st', outs) =>
        match go sk st' rest with
        | .error e => .error e
        | .ok more => .ok (outs ++ more) := by
  cases st <;> rfl

theorem go_none_cons (sk : Bool) (c : Ctr) (rest : List Ctr) :
    go sk none (c :: rest) = go sk (some c) rest := by
  rw [go_cons]
  simp only [stepPower]
  cases go sk (some c) rest <;> simp

/-- a stored sample with a zero reading is forgotten at the next sample: same as a fresh context -/
theorem go_zero_prev (sk : Bool) (z : Ctr) (l : List Ctr) (hz : truncInt z.q = 0) :
    go sk (some z) l = go sk none l := by
  cases l with
  | nil => rw [go_nil, go_nil]
  | cons c rest =>
    rw [go_none_cons, go_cons]
    simp only [stepPower, cd_replace_zero sk z c hz]
    cases go sk (some c) rest <;> simp

theorem go_some (prev : Ctr) (l : List Ctr) (hnz : truncInt prev.q ≠ 0) (hr : InRange prev)
    (hrl : ∀ c ∈ l, InRange c) (hs : ∀ c ∈ l, prev.tsc ≤ c.tsc) (hsorted : TimeSorted l)
    (hp : isPrep prev.cat = false) (hpl : ∀ c ∈ l, isPrep c.cat = false) :
    go false (some prev) l = .ok (specPairs (dedupGo prev (l.filter nz))) := by
  induction l generalizing prev with
  | nil => rw [go_nil]; rfl
  | cons c rest ih =>
    have hrc := hrl c (List.mem_cons_self ..)
    have hrr : ∀ x ∈ rest, InRange x := fun x hx => hrl x (List.mem_cons_of_mem _ hx)
    have hpr : ∀ x ∈ rest, isPrep x.cat = false := fun x hx => hpl x (List.mem_cons_of_mem _ hx)
    have hsr : ∀ x ∈ rest, prev.tsc ≤ x.tsc := fun x hx => hs x (List.mem_cons_of_mem _ hx)
    have hsorted' := hsorted
    unfold TimeSorted at hsorted'
    rw [List.pairwise_cons] at hsorted'
    rw [go_cons]
    by_cases hc : truncInt c.q = 0
    · -- this reading 0: skipped
      have hf : (c :: rest).filter nz = rest.filter nz := by simp [nz, hc]
      simp only [stepPower, cd_skip_zero false prev c hnz hc, hf]
      rw [ih prev hnz hr hrr hsr hsorted'.2 hp hpr]
      simp
    · have hf : (c :: rest).filter nz = c :: rest.filter nz := by simp [nz, hc]
      by_cases ht : prev.tsc = c.tsc
      · -- same time stamp: this one skipped
        simp only [stepPower, cd_skip_tie false prev c hnz hc ht hp, hf]
        rw [ih prev hnz hr hrr hsr hsorted'.2 hp hpr]
        simp [dedupGo, ht]
      · have hlt : prev.tsc < c.tsc := lt_of_le_of_ne (hs c (List.mem_cons_self ..)) ht
        have hv := value_eq_spec prev c hr hrc
        have hnn : ¬ specValue prev c < 0 := not_lt.mpr (specValue_nonneg prev c hlt)
        simp only [stepPower, cd_value prev c hnz hc ht, hv, hnn, if_false, hf]
        rw [ih c hc hrc hrr (fun x hx => hsorted'.1 x hx) hsorted'.2
          (hpl c (List.mem_cons_self ..)) hpr]
        simp only [dedupGo, ht, if_false]
        rw [specPairs_cons_dedup]
        rfl

theorem go_none (l : List Ctr) (hrl : ∀ c ∈ l, InRange c) (hsorted : TimeSorted l)
    (hpl : ∀ c ∈ l, isPrep c.cat = false) :
    go false none l = .ok (specPairs (valid l)) := by
  induction l with
  | nil => rfl
  | cons c rest ih =>
    have hrr : ∀ x ∈ rest, InRange x := fun x hx => hrl x (List.mem_cons_of_mem _ hx)
    have hpr : ∀ x ∈ rest, isPrep x.cat = false := fun x hx => hpl x (List.mem_cons_of_mem _ hx)
    have hsorted' := hsorted
    unfold TimeSorted at hsorted'
    rw [List.pairwise_cons] at hsorted'
    rw [go_none_cons]
    by_cases hc : truncInt c.q = 0
    · rw [go_zero_prev false c rest hc, ih hrr hsorted'.2 hpr]
      have hf : (c :: rest).filter nz = rest.filter nz := by simp [nz, hc]
      rw [valid_def, valid_def, hf]
    · rw [go_some c rest hc (hrl c (List.mem_cons_self ..)) hrr (fun x hx => hsorted'.1 x hx)
        hsorted'.2 (hpl c (List.mem_cons_self ..)) hpr]
      have hf : (c :: rest).filter nz = c :: rest.filter nz := by simp [nz, hc]
      rw [valid_def, hf]

/-! ### every emitted value is in `[0, 100]`, whatever the input -/

theorem stepPower_out (sk : Bool) (st : Option Ctr) (c : Ctr) (st' : Option Ctr) (outs : List Out)
    (h : stepPower sk st c = .ok (st', outs)) : ∀ o ∈ outs, 0 ≤ o.watts ∧ o.watts ≤ 100 := by
  unfold stepPower at h
  split at h
  · simp only [Except.ok.injEq, Prod.mk.injEq] at h; obtain ⟨_, rfl⟩ := h; simp
  · rename_i prev
    split at h
    · simp only [Except.ok.injEq, Prod.mk.injEq] at h; obtain ⟨_, rfl⟩ := h; simp
    · simp only [Except.ok.injEq, Prod.mk.injEq] at h; obtain ⟨_, rfl⟩ := h; simp
    · rename_i w hw
      split at h
      · exact absurd h (by simp)
      · rename_i hneg
        simp only [Except.ok.injEq, Prod.mk.injEq] at h; obtain ⟨_, rfl⟩ := h
        intro o ho
        simp only [List.mem_singleton] at ho
        subst ho
        refine ⟨not_lt.mp hneg, ?_⟩
        rw [(cd_value_form sk prev c w hw).1]
        exact clamp_le _

theorem go_out (sk : Bool) (st : Option Ctr) (l : List Ctr) (outs : List Out)
    (h : go sk st l = .ok outs) : ∀ o ∈ outs, 0 ≤ o.watts ∧ o.watts ≤ 100 := by
  induction l generalizing st outs with
  | nil => rw [go_nil] at h; simp only [Except.ok.injEq] at h; subst h; simp
  | cons c rest ih =>
    rw [go_cons] at h
    split at h
    · exact absurd h (by simp)
    · rename_i st' o1 hstep
      split at h
      · exact absurd h (by simp)
      · rename_i more hmore
        simp only [Except.ok.injEq] at h; subst h
        intro o ho
        rcases List.mem_append.mp ho with ho | ho
        · exact stepPower_out sk st c st' o1 hstep o ho
        · exact ih st' more hmore o ho

theorem goAll_cons (sk : Bool) (m : Int → Option Ctr) (c : Ctr) (rest : List Ctr) :
    goAll sk m (c :: rest) =
      match stepPower sk (m c.pid) c with
      | .error e => .error e
      | .ok (st', outs) =>
        match goAll sk (fun p => if p = c.pid then st' else m p) rest with
        | .error e => .error e
        | .ok more => .ok (outs ++ more) := rfl

theorem goAll_out (sk : Bool) (m : Int → Option Ctr) (l : List Ctr) (outs : List Out)
    (h : goAll sk m l = .ok outs) : ∀ o ∈ outs, 0 ≤ o.watts ∧ o.watts ≤ 100 := by
  induction l generalizing m outs with
  | nil => simp only [goAll, Except.ok.injEq] at h; subst h; simp
  | cons c rest ih =>
    rw [goAll_cons] at h
    split at h
    · exact absurd h (by simp)
    · rename_i st' o1 hstep
      split at h
      · exact absurd h (by simp)
      · rename_i more hmore
        simp only [Except.ok.injEq] at h; subst h
        intro o ho
        rcases List.mem_append.mp ho with ho | ho
        · exact stepPower_out sk _ c st' o1 hstep o ho
        · exact ih _ more hmore o ho

/-! ### no `OverflowError` on time-sorted in-range input (any `--skip_events`, any `cat`) -/

theorem stepPower_ok (sk : Bool) (st : Option Ctr) (c : Ctr)
    (hst : ∀ p, st = some p → InRange p ∧ p.tsc ≤ c.tsc) (hc : InRange c) :
    ∃ st' outs, stepPower sk st c = .ok (st', outs) ∧ (st' = st ∨ st' = some c) := by
  unfold stepPower
  split
  · exact ⟨_, _, rfl, Or.inr rfl⟩
  · rename_i prev
    obtain ⟨hrp, hle⟩ := hst prev rfl
    split
    · exact ⟨_, _, rfl, Or.inr rfl⟩
    · exact ⟨_, _, rfl, Or.inl rfl⟩
    · rename_i w hw
      obtain ⟨hform, _, hne⟩ := cd_value_form sk prev c w hw
      have hlt : 0 < c.tsc - prev.tsc := by
        have := lt_of_le_of_ne hle hne; linarith
      have hnn : 0 ≤ w := by
        rw [hform]
        exact clamp_nonneg _ (watts_nonneg _ _ (rawDelta_nonneg _ _ hrp hc) hlt)
      rw [if_neg (not_lt.mpr hnn)]
      exact ⟨_, _, rfl, Or.inr rfl⟩

theorem go_ok (sk : Bool) (st : Option Ctr) (l : List Ctr) (hrl : ∀ c ∈ l, InRange c)
    (hsorted : TimeSorted l) (hst : ∀ p, st = some p → InRange p ∧ ∀ c ∈ l, p.tsc ≤ c.tsc) :
    ∃ outs, go sk st l = .ok outs := by
  induction l generalizing st with
  | nil => exact ⟨[], go_nil sk st⟩
  | cons c rest ih =>
    have hsorted' := hsorted
    unfold TimeSorted at hsorted'
    rw [List.pairwise_cons] at hsorted'
    have hc := hrl c (List.mem_cons_self ..)
    obtain ⟨st', o1, hstep, hor⟩ := stepPower_ok sk st c
      (fun p hp => ⟨(hst p hp).1, (hst p hp).2 c (List.mem_cons_self ..)⟩) hc
    have hst' : ∀ p, st' = some p → InRange p ∧ ∀ x ∈ rest, p.tsc ≤ x.tsc := by
      intro p hp
      rcases hor with h | h
      · rw [h] at hp
        exact ⟨(hst p hp).1, fun x hx => (hst p hp).2 x (List.mem_cons_of_mem _ hx)⟩
      · rw [h] at hp
        simp only [Option.some.injEq] at hp
        subst hp
        exact ⟨hc, fun x hx => hsorted'.1 x hx⟩
    obtain ⟨more, hmore⟩ := ih st' (fun x hx => hrl x (List.mem_cons_of_mem _ hx)) hsorted'.2 hst'
    refine ⟨o1 ++ more, ?_⟩
    rw [go_cons, hstep]
    simp only [hmore]

/-! ### energy -/

/-- `Σ P_i · (t_{i+1} − t_i)`: emitted values against the sample times they span -/
def energyOf : List Out → List Ctr → Num
  | o :: os, a :: b :: rest => o.watts * (b.tsc - a.tsc) + energyOf os (b :: rest)
  | _, _ => 0

/-- `Σ (Q_{i+1} − Q_i) mod 2^32` over consecutive samples -/
def chargeGo (a : Ctr) : List Ctr → Int
  | [] => 0
  | b :: rest => chargeDelta a b + chargeGo b rest

def chargeTotal : List Ctr → Int
  | [] => 0
  | a :: rest => chargeGo a rest

/-- no value of the series exceeds the 100 W plausibility limit (so nothing is replaced by 0) -/
def UnclampedGo (a : Ctr) : List Ctr → Prop
  | [] => True
  | b :: rest => 12 * (chargeDelta a b : Num) / 512 / (b.tsc - a.tsc) ≤ 100 ∧ UnclampedGo b rest

def Unclamped : List Ctr → Prop
  | [] => True
  | a :: rest => UnclampedGo a rest

theorem energy_go (a : Ctr) (rest : List Ctr)
    (hinc : (a :: rest).Pairwise (fun x y => x.tsc < y.tsc)) (hu : UnclampedGo a rest) :
    energyOf (specGo a rest) (a :: rest) = 12 / 512 * ((chargeGo a rest : Int) : Num) := by
  induction rest generalizing a with
  | nil => simp [specGo, energyOf, chargeGo]
  | cons b rest ih =>
    rw [List.pairwise_cons] at hinc
    obtain ⟨hu1, hu2⟩ := hu
    have hlt : a.tsc < b.tsc := hinc.1 b (List.mem_cons_self ..)
    have hne : b.tsc - a.tsc ≠ 0 := by
      have : 0 < b.tsc - a.tsc := by linarith
      exact ne_of_gt this
    simp only [specGo, energyOf, chargeGo]
    rw [ih b hinc.2 hu2]
    have : specValue a b = 12 * (chargeDelta a b : Num) / 512 / (b.tsc - a.tsc) := by
      unfold specValue clamp
      rw [if_neg (not_lt.mpr hu1)]
    rw [this]
    push_cast
    field_simp

/-- unwrapped ground truth: `l` pairs every sample with its true accumulated charge -/
def StepsFrom (u : Int) : List (Ctr × Int) → Prop
  | [] => True
  | x :: rest => 0 ≤ x.2 - u ∧ x.2 - u < 4294967296 ∧ StepsFrom x.2 rest

def lastU (u : Int) : List (Ctr × Int) → Int
  | [] => u
  | x :: rest => lastU x.2 rest

theorem charge_go_telescopes (a : Ctr) (u : Int) (rest : List (Ctr × Int))
    (ha : truncInt a.q = u % 4294967296)
    (hr : ∀ x ∈ rest, truncInt x.1.q = x.2 % 4294967296) (hs : StepsFrom u rest) :
    chargeGo a (rest.map (·.1)) = lastU u rest - u := by
  induction rest generalizing a u with
  | nil => simp [chargeGo, lastU]
  | cons x rest ih =>
    obtain ⟨h1, h2, h3⟩ := hs
    have hx := hr x (List.mem_cons_self ..)
    simp only [List.map_cons, chargeGo, lastU]
    rw [ih x.1 x.2 hx (fun y hy => hr y (List.mem_cons_of_mem _ hy)) h3]
    unfold chargeDelta
    rw [ha, hx]
    omega

/-! ### emission times -/

theorem dedupGo_strict (cur : Ctr) (l : List Ctr) (hs : TimeSorted (cur :: l)) :
    (dedupGo cur l).Pairwise (fun x y => x.tsc < y.tsc) ∧ ∀ x ∈ dedupGo cur l, x ∈ cur :: l := by
  induction l generalizing cur with
  | nil => simp [dedupGo]
  | cons b rest ih =>
    unfold TimeSorted at hs
    rw [List.pairwise_cons, List.pairwise_cons] at hs
    obtain ⟨h1, h2, h3⟩ := hs
    unfold dedupGo
    split
    · have hcr : TimeSorted (cur :: rest) := by
        unfold TimeSorted
        rw [List.pairwise_cons]
        exact ⟨fun x hx => h1 x (List.mem_cons_of_mem _ hx), h3⟩
      obtain ⟨i1, i2⟩ := ih cur hcr
      refine ⟨i1, fun x hx => ?_⟩
      rcases List.mem_cons.mp (i2 x hx) with h | h
      · exact h ▸ List.mem_cons_self ..
      · exact List.mem_cons_of_mem _ (List.mem_cons_of_mem _ h)
    · rename_i hne
      have hbr : TimeSorted (b :: rest) := by
        unfold TimeSorted
        rw [List.pairwise_cons]
        exact ⟨h2, h3⟩
      obtain ⟨i1, i2⟩ := ih b hbr
      have hlt : cur.tsc < b.tsc := lt_of_le_of_ne (h1 b (List.mem_cons_self ..)) hne
      refine ⟨?_, ?_⟩
      · rw [List.pairwise_cons]
        refine ⟨fun x hx => ?_, i1⟩
        rcases List.mem_cons.mp (i2 x hx) with h | h
        · exact h ▸ hlt
        · exact lt_of_lt_of_le hlt (h2 x h)
      · intro x hx
        rcases List.mem_cons.mp hx with h | h
        · exact h ▸ List.mem_cons_self ..
        · exact List.mem_cons_of_mem _ (i2 x h)

theorem timeSorted_filter (l : List Ctr) (f : Ctr → Bool) (h : TimeSorted l) : TimeSorted (l.filter f) :=
  List.Pairwise.sublist List.filter_sublist h

theorem valid_strict (l : List Ctr) (hs : TimeSorted l) :
    (valid l).Pairwise (fun x y => x.tsc < y.tsc) ∧ ∀ x ∈ valid l, x ∈ l := by
  rw [valid_def]
  have hf := timeSorted_filter l nz hs
  have hmem : ∀ x ∈ l.filter nz, x ∈ l := fun x hx => (List.mem_filter.mp hx).1
  generalize l.filter nz = fl at hf hmem
  cases fl with
  | nil => simp
  | cons a rest =>
    obtain ⟨h1, h2⟩ := dedupGo_strict a rest hf
    exact ⟨h1, fun x hx => hmem x (h2 x hx)⟩

theorem specGo_times (a : Ctr) (rest : List Ctr)
    (hinc : (a :: rest).Pairwise (fun x y => x.tsc < y.tsc)) (hts : ∀ c ∈ a :: rest, c.ts = c.tsc) :
    (specGo a rest).Pairwise (fun x y => x.ts < y.ts) ∧
    ∀ o ∈ specGo a rest, ∃ c ∈ a :: rest, o.ts = c.tsc := by
  induction rest generalizing a with
  | nil => simp [specGo]
  | cons b rest ih =>
    rw [List.pairwise_cons] at hinc
    obtain ⟨i1, i2⟩ := ih b hinc.2 (fun c hc => hts c (List.mem_cons_of_mem _ hc))
    simp only [specGo]
    refine ⟨?_, ?_⟩
    · rw [List.pairwise_cons]
      refine ⟨fun o ho => ?_, i1⟩
      obtain ⟨c, hc, he⟩ := i2 o ho
      show a.ts < o.ts
      rw [he, hts a (List.mem_cons_self ..)]
      exact hinc.1 c hc
    · intro o ho
      rcases List.mem_cons.mp ho with h | h
      · exact ⟨a, List.mem_cons_self .., by rw [h]; exact hts a (List.mem_cons_self ..)⟩
      · obtain ⟨c, hc, he⟩ := i2 o h
        exact ⟨c, List.mem_cons_of_mem _ hc, he⟩

/-! ### ranks are independent: `self.prev` is keyed by pid -/

theorem stepPower_state (sk : Bool) (st : Option Ctr) (c : Ctr) (st' : Option Ctr) (outs : List Out)
    (h : stepPower sk st c = .ok (st', outs)) :
    (st' = st ∨ st' = some c) ∧ ∀ o ∈ outs, ∃ prev, st = some prev ∧ o.pid = prev.pid := by
  unfold stepPower at h
  split at h
  · simp only [Except.ok.injEq, Prod.mk.injEq] at h; obtain ⟨rfl, rfl⟩ := h; simp
  · rename_i prev
    split at h
    · simp only [Except.ok.injEq, Prod.mk.injEq] at h; obtain ⟨rfl, rfl⟩ := h; simp
    · simp only [Except.ok.injEq, Prod.mk.injEq] at h; obtain ⟨rfl, rfl⟩ := h; simp
    · split at h
      · exact absurd h (by simp)
      · simp only [Except.ok.injEq, Prod.mk.injEq] at h; obtain ⟨rfl, rfl⟩ := h
        refine ⟨Or.inr rfl, ?_⟩
        intro o ho
        simp only [List.mem_singleton] at ho
        exact ⟨prev, rfl, by rw [ho]⟩

theorem rankOf_cons_self (c : Ctr) (rest : List Ctr) : rankOf c.pid (c :: rest) = c :: rankOf c.pid rest := by
  simp [rankOf]

theorem rankOf_cons_ne (p : Int) (c : Ctr) (rest : List Ctr) (h : p ≠ c.pid) :
    rankOf p (c :: rest) = rankOf p rest := by
  simp [rankOf, Ne.symm h]

theorem goAll_rank (sk : Bool) (m : Int → Option Ctr) (l : List Ctr) (outs : List Out)
    (hm : ∀ p c, m p = some c → c.pid = p) (h : goAll sk m l = .ok outs) (p : Int) :
    go sk (m p) (rankOf p l) = .ok (outs.filter (fun o => o.pid = p)) := by
  induction l generalizing m outs with
  | nil =>
    simp only [goAll, Except.ok.injEq] at h; subst h
    simp [rankOf, go_nil]
  | cons c rest ih =>
    rw [goAll_cons] at h
    split at h
    · exact absurd h (by simp)
    · rename_i st' o1 hstep
      split at h
      · exact absurd h (by simp)
      · rename_i more hmore
        simp only [Except.ok.injEq] at h; subst h
        obtain ⟨hst, hpid⟩ := stepPower_state sk _ c st' o1 hstep
        have hm' : ∀ q x, (fun q => if q = c.pid then st' else m q) q = some x → x.pid = q := by
          intro q x hx
          simp only at hx
          split at hx
          · rename_i hq
            rcases hst with h1 | h1
            · rw [h1] at hx; rw [hq]; exact hm _ _ hx
            · rw [h1] at hx; simp only [Option.some.injEq] at hx; rw [← hx, hq]
          · exact hm q x hx
        have hrec := ih _ more hm' hmore
        have ho1 : ∀ o ∈ o1, o.pid = c.pid := by
          intro o ho
          obtain ⟨prev, hp1, hp2⟩ := hpid o ho
          rw [hp2]; exact hm _ _ hp1
        by_cases hp : p = c.pid
        · subst hp
          rw [rankOf_cons_self, go_cons, hstep]
          simp only [if_true] at hrec
          simp only [hrec, List.filter_append]
          congr 1
          congr 1
          exact (List.filter_eq_self.mpr (fun o ho => by simpa using ho1 o ho)).symm
        · rw [rankOf_cons_ne p c rest hp]
          simp only [hp, if_false] at hrec
          rw [hrec, List.filter_append]
          have : o1.filter (fun o => o.pid = p) = [] := by
            rw [List.filter_eq_nil_iff]
            intro o ho
            simp only [decide_eq_true_eq]
            rw [ho1 o ho]; exact Ne.symm hp
          rw [this, List.nil_append]

theorem goAll_ok (sk : Bool) (m : Int → Option Ctr) (l : List Ctr)
    (h : ∀ p, ∃ o, go sk (m p) (rankOf p l) = .ok o) : ∃ outs, goAll sk m l = .ok outs := by
  induction l generalizing m with
  | nil => exact ⟨[], rfl⟩
  | cons c rest ih =>
    obtain ⟨o, ho⟩ := h c.pid
    rw [rankOf_cons_self, go_cons] at ho
    split at ho
    · exact absurd ho (by simp)
    · rename_i st' o1 hstep
      split at ho
      · exact absurd ho (by simp)
      · rename_i more hmore
        have : ∀ p, ∃ o, go sk ((fun q => if q = c.pid then st' else m q) p) (rankOf p rest) = .ok o := by
          intro p
          by_cases hp : p = c.pid
          · subst hp; simp only [if_true]; exact ⟨_, hmore⟩
          · simp only [hp, if_false]
            obtain ⟨o', ho'⟩ := h p
            rw [rankOf_cons_ne p c rest hp] at ho'
            exact ⟨o', ho'⟩
        obtain ⟨more', hmore'⟩ := ih _ this
        refine ⟨o1 ++ more', ?_⟩
        rw [goAll_cons, hstep]
        simp only [hmore']

/-! ### the counter sorter -/

theorem sortRank_sorted (l : List Ctr) : TimeSorted (sortRank l) := by
  unfold TimeSorted sortRank
  have := List.pairwise_mergeSort (le := fun a b : Ctr => decide (a.tsc ≤ b.tsc))
    (fun a b c h1 h2 => by
      simp only [decide_eq_true_eq] at *; exact le_trans h1 h2)
    (fun a b => by
      simp only [Bool.or_eq_true, decide_eq_true_eq]; exact le_total _ _) l
  exact this.imp (fun h => by simpa using h)

theorem sortRank_perm (l : List Ctr) : (sortRank l).Perm l := List.mergeSort_perm _ _

theorem sortRank_nil : sortRank [] = [] := by simp [sortRank]

theorem mem_pidsOf (l : List Ctr) (p : Int) : p ∈ pidsOf l ↔ ∃ c ∈ l, c.pid = p := by
  induction l with
  | nil => simp [pidsOf]
  | cons c rest ih =>
    simp only [pidsOf, List.mem_cons, List.mem_filter, ih, decide_eq_true_eq]
    constructor
    · rintro (h | ⟨⟨x, hx, hxp⟩, _⟩)
      · exact ⟨c, Or.inl rfl, h.symm⟩
      · exact ⟨x, Or.inr hx, hxp⟩
    · rintro ⟨x, hx | hx, hxp⟩
      · left; rw [← hxp, hx]
      · by_cases hp : p = c.pid
        · exact Or.inl hp
        · exact Or.inr ⟨⟨x, hx, hxp⟩, hp⟩

theorem pidsOf_nodup (l : List Ctr) : (pidsOf l).Nodup := by
  induction l with
  | nil => simp [pidsOf]
  | cons c rest ih =>
    simp only [pidsOf, List.nodup_cons, List.mem_filter, decide_eq_true_eq]
    exact ⟨fun h => h.2 rfl, ih.sublist List.filter_sublist⟩

theorem rankOf_flat (l : List Ctr) (p : Int) (ps : List Int) (hnd : ps.Nodup) :
    rankOf p (ps.flatMap (fun q => sortRank (rankOf q l))) =
      if p ∈ ps then sortRank (rankOf p l) else [] := by
  induction ps with
  | nil => simp [rankOf]
  | cons q ps ih =>
    rw [List.nodup_cons] at hnd
    have hblock : ∀ x ∈ sortRank (rankOf q l), x.pid = q := by
      intro x hx
      have := (sortRank_perm (rankOf q l)).mem_iff.mp hx
      simpa [rankOf] using (List.mem_filter.mp this).2
    rw [List.flatMap_cons]
    have happ : rankOf p (sortRank (rankOf q l) ++ ps.flatMap (fun q => sortRank (rankOf q l))) =
        rankOf p (sortRank (rankOf q l)) ++ rankOf p (ps.flatMap (fun q => sortRank (rankOf q l))) := by
      simp [rankOf]
    rw [happ, ih hnd.2]
    by_cases hp : p = q
    · subst hp
      have h1 : rankOf p (sortRank (rankOf p l)) = sortRank (rankOf p l) := by
        unfold rankOf
        rw [List.filter_eq_self]
        intro x hx; simpa [rankOf] using hblock x hx
      simp [h1, hnd.1]
    · have h1 : rankOf p (sortRank (rankOf q l)) = [] := by
        unfold rankOf
        rw [List.filter_eq_nil_iff]
        intro x hx
        simp only [decide_eq_true_eq]
        have := hblock x (by simpa [rankOf] using hx)
        rw [this]; exact Ne.symm hp
      simp [h1, hp]

/-- what the sorter hands to `compute_power` for rank `p` is the time-sorted sequence of that rank's
counters -/
theorem rankOf_sortStage (l : List Ctr) (p : Int) : rankOf p (sortStage l) = sortRank (rankOf p l) := by
  unfold sortStage
  rw [rankOf_flat l p _ (pidsOf_nodup l)]
  split
  · rfl
  · rename_i hp
    have : rankOf p l = [] := by
      unfold rankOf
      rw [List.filter_eq_nil_iff]
      intro x hx
      simp only [decide_eq_true_eq]
      intro hxp
      exact hp ((mem_pidsOf l p).mpr ⟨x, hx, hxp⟩)
    rw [this, sortRank_nil]

/-! ### `extract_power_event` -/

theorem extract1_facts (seen : List Int) (s : Slice) (seen' : List Int) (cs : List Ctr)
    (h : extract1 seen s = .ok (seen', cs)) :
    ∀ c ∈ cs, c.ts = c.tsc ∧ isPrep c.cat = false ∧ c.pid = s.pid ∧
      (c.q = 0 ∨ (s.power = some c.q ∧ c.tsc = s.ts4)) := by
  unfold extract1 at h
  split at h
  · rename_i hcond
    have hprep : isPrep s.name = false := by simpa using hcond.2
    split at h
    · simp only [Except.ok.injEq, Prod.mk.injEq] at h; obtain ⟨_, rfl⟩ := h; simp
    · rename_i q hq
      split at h
      · exact absurd h (by simp)
      · split at h
        · simp only [Except.ok.injEq, Prod.mk.injEq] at h; obtain ⟨_, rfl⟩ := h; simp
        · split at h
          · simp only [Except.ok.injEq, Prod.mk.injEq] at h; obtain ⟨_, rfl⟩ := h
            intro c hc
            simp only [List.mem_singleton] at hc
            subst hc
            exact ⟨rfl, hprep, rfl, Or.inr ⟨hq, rfl⟩⟩
          · simp only [Except.ok.injEq, Prod.mk.injEq] at h; obtain ⟨_, rfl⟩ := h
            intro c hc
            simp only [List.mem_cons, List.mem_nil_iff, or_false] at hc
            rcases hc with hc | hc
            · subst hc; exact ⟨rfl, hprep, rfl, Or.inl rfl⟩
            · subst hc; exact ⟨rfl, hprep, rfl, Or.inr ⟨hq, rfl⟩⟩
  · simp only [Except.ok.injEq, Prod.mk.injEq] at h; obtain ⟨_, rfl⟩ := h; simp

theorem extractGo_facts (seen : List Int) (slices : List Slice) (cs : List Ctr)
    (h : extractGo seen slices = .ok cs) :
    ∀ c ∈ cs, c.ts = c.tsc ∧ isPrep c.cat = false ∧
      (c.q = 0 ∨ ∃ s ∈ slices, s.power = some c.q ∧ s.pid = c.pid ∧ c.tsc = s.ts4) := by
  induction slices generalizing seen cs with
  | nil => simp only [extractGo, Except.ok.injEq] at h; subst h; simp
  | cons s rest ih =>
    unfold extractGo at h
    split at h
    · exact absurd h (by simp)
    · rename_i seen' c1 h1
      split at h
      · exact absurd h (by simp)
      · rename_i more hmore
        simp only [Except.ok.injEq] at h; subst h
        intro c hc
        rcases List.mem_append.mp hc with hc | hc
        · obtain ⟨a, b, d, e⟩ := extract1_facts seen s seen' c1 h1 c hc
          refine ⟨a, b, ?_⟩
          rcases e with e | ⟨e1, e2⟩
          · exact Or.inl e
          · exact Or.inr ⟨s, List.mem_cons_self .., e1, d.symm, e2⟩
        · obtain ⟨a, b, e⟩ := ih seen' more hmore c hc
          refine ⟨a, b, ?_⟩
          rcases e with e | ⟨s', hs', e'⟩
          · exact Or.inl e
          · exact Or.inr ⟨s', List.mem_cons_of_mem _ hs', e'⟩

theorem truncInt_zero : truncInt 0 = 0 := by decide +kernel

end Power
end AiuVerif
