/- Helper lemmas for C04: the per-lane sort stage is a permutation. Core Lean only. -/
import AiuVerif.Model.OverlapSort

namespace AiuVerif.Overlap

def flattenQ (qs : List (Lane × List Ev)) : List Ev := qs.flatMap (fun lq => lq.2)

theorem enqueue_perm (qs : List (Lane × List Ev)) (e : Ev) :
    (flattenQ (enqueue qs e)).Perm (flattenQ qs ++ [e]) := by
  induction qs with
  | nil => simp [enqueue, flattenQ]
  | cons lq r ih =>
    obtain ⟨l, q⟩ := lq
    unfold enqueue
    split
    · simp only [flattenQ, List.flatMap_cons, List.append_assoc]
      exact (List.perm_append_comm (l₁ := [e]) (l₂ := List.flatMap (fun lq => lq.2) r)).append_left q
    · simp only [flattenQ, List.flatMap_cons, List.append_assoc] at ih ⊢
      exact ih.append_left q

theorem foldl_enqueue_perm (evs : List Ev) :
    ∀ qs, (flattenQ (evs.foldl enqueue qs)).Perm (flattenQ qs ++ evs) := by
  induction evs with
  | nil => intro qs; simp
  | cons e r ih =>
    intro qs
    simp only [List.foldl_cons]
    refine (ih _).trans ?_
    refine ((enqueue_perm qs e).append_right r).trans ?_
    simp

theorem insertBy_perm (x : Ev) (l : List Ev) : (insertBy x l).Perm (x :: l) := by
  induction l with
  | nil => simp [insertBy]
  | cons y r ih =>
    unfold insertBy
    split
    · exact List.Perm.refl _
    · exact (ih.cons y).trans (List.Perm.swap x y r)

theorem isort_perm (l : List Ev) : (isort l).Perm l := by
  induction l with
  | nil => simp [isort]
  | cons x r ih => exact (insertBy_perm x _).trans (ih.cons x)

theorem drainQueues_perm (qs : List (Lane × List Ev)) : (drainQueues qs).Perm (flattenQ qs) := by
  induction qs with
  | nil => simp [drainQueues, flattenQ]
  | cons lq r ih =>
    simp only [drainQueues, flattenQ, List.flatMap_cons] at ih ⊢
    exact (isort_perm _).append ih

/-- the sort stage neither loses nor invents events -/
theorem sortStage_perm (evs : List Ev) : (sortStage evs).Perm evs := by
  unfold sortStage
  refine (drainQueues_perm _).trans ?_
  simpa [flattenQ] using foldl_enqueue_perm evs []

end AiuVerif.Overlap
