/- Helper lemmas for C04: the per-lane sort stage is a permutation. Core Lean only. -/
import AiuVerif.Model.OverlapSort
import AiuVerif.Lemmas.OverlapNoAssert

namespace AiuVerif.Overlap

def flattenQ (qs : List (Lane × List Ev)) : List Ev := qs.flatMap (fun lq => lq.2)

theorem enqueue_perm (qs : List (Lane × List Ev)) (e : Ev) :
    (flattenQ (enqueue qs e)).Perm (flattenQ qs ++ [e]) := by
  induction qs with
  | nil => simp [enqueue, flattenQ]
  | cons lq r ih =>
    obtain ⟨l, q⟩ := lq
    unfold enqueue
    split
    · simp only [flattenQ, List.flatMap_cons, List.append_assoc]
      exact (List.perm_append_comm (l₁ := [e]) (l₂ := List.flatMap (fun lq => lq.2) r)).append_left q
    · simp only [flattenQ, List.flatMap_cons, List.append_assoc] at ih ⊢
      exact ih.append_left q

theorem foldl_enqueue_perm (evs : List Ev) :
    ∀ qs, (flattenQ (evs.foldl enqueue qs)).Perm (flattenQ qs ++ evs) := by
  induction evs with
  | nil => intro qs; simp
  | cons e r ih =>
    intro qs
    simp only [List.foldl_cons]
    refine (ih _).trans ?_
    refine ((enqueue_perm qs e).append_right r).trans ?_
    simp

theorem insertBy_perm (x : Ev) (l : List Ev) : (insertBy x l).Perm (x :: l) := by
  induction l with
  | nil => simp [insertBy]
  | cons y r ih =>
    unfold insertBy
    split
    · exact List.Perm.refl _
    · exact (ih.cons y).trans (List.Perm.swap x y r)

theorem isort_perm (l : List Ev) : (isort l).Perm l := by
  induction l with
  | nil => simp [isort]
  | cons x r ih => exact (insertBy_perm x _).trans (ih.cons x)

theorem drainQueues_perm (qs : List (Lane × List Ev)) : (drainQueues qs).Perm (flattenQ qs) := by
  induction qs with
  | nil => simp [drainQueues, flattenQ]
  | cons lq r ih =>
    simp only [drainQueues, flattenQ, List.flatMap_cons] at ih ⊢
    exact (isort_perm _).append ih

/-- the sort stage neither loses nor invents events -/
theorem sortStage_perm (evs : List Ev) : (sortStage evs).Perm evs := by
  unfold sortStage
  refine (drainQueues_perm _).trans ?_
  simpa [flattenQ] using foldl_enqueue_perm evs []

/-! ### the sort stage leaves every lane start-sorted -/

theorem mem_insertBy {x y : Ev} {l : List Ev} : y ∈ insertBy x l ↔ y = x ∨ y ∈ l := by
  rw [(insertBy_perm x l).mem_iff]; simp

theorem mem_isort {y : Ev} {l : List Ev} : y ∈ isort l ↔ y ∈ l := (isort_perm l).mem_iff

theorem keyLe_ts {x y : Ev} (h : keyLe x y = true) : x.ts ≤ y.ts := by
  simp only [keyLe, Bool.or_eq_true, Bool.and_eq_true, decide_eq_true_eq] at h
  grind

theorem not_keyLe_ts {x y : Ev} (h : ¬ keyLe x y = true) : y.ts ≤ x.ts := by
  simp only [keyLe, Bool.or_eq_true, Bool.and_eq_true, decide_eq_true_eq] at h
  grind

theorem insertBy_sorted (x : Ev) (l : List Ev) (h : l.Pairwise (fun a b => a.ts ≤ b.ts)) :
    (insertBy x l).Pairwise (fun a b => a.ts ≤ b.ts) := by
  induction l with
  | nil => simp [insertBy]
  | cons y r ih =>
    obtain ⟨hy, hr⟩ := List.pairwise_cons.mp h
    unfold insertBy
    split
    · rename_i hk
      refine List.Pairwise.cons ?_ h
      intro z hz
      rcases List.mem_cons.mp hz with hz | hz
      · subst hz; exact keyLe_ts hk
      · exact Rat.le_trans (keyLe_ts hk) (hy z hz)
    · rename_i hk
      refine List.Pairwise.cons ?_ (ih hr)
      intro z hz
      rcases mem_insertBy.mp hz with hz | hz
      · subst hz; exact not_keyLe_ts hk
      · exact hy z hz

theorem isort_sorted (l : List Ev) : (isort l).Pairwise (fun a b => a.ts ≤ b.ts) := by
  induction l with
  | nil => simp [isort]
  | cons x r ih => exact insertBy_sorted x _ ih

/-- the dict of queues: every queue holds events of its own lane, keys are distinct -/
def QInv (qs : List (Lane × List Ev)) : Prop :=
  (∀ lq ∈ qs, ∀ e ∈ lq.2, e.lane = lq.1) ∧ qs.Pairwise (fun a b => a.1 ≠ b.1)

theorem enqueue_keys (qs : List (Lane × List Ev)) (e : Ev) :
    ∀ b ∈ enqueue qs e, b.1 = e.lane ∨ ∃ b' ∈ qs, b'.1 = b.1 := by
  induction qs with
  | nil => intro b hb; simp [enqueue] at hb; exact Or.inl (by rw [hb])
  | cons lq r ih =>
    obtain ⟨l, q⟩ := lq
    intro b hb
    unfold enqueue at hb
    split at hb
    · rcases List.mem_cons.mp hb with hb | hb
      · right; exact ⟨(l, q), by simp, by rw [hb]⟩
      · right; exact ⟨b, by simp [hb], rfl⟩
    · rcases List.mem_cons.mp hb with hb | hb
      · right; exact ⟨(l, q), by simp, by rw [hb]⟩
      · rcases ih b hb with h | ⟨b', hb', h⟩
        · exact Or.inl h
        · right; exact ⟨b', by simp [hb'], h⟩

theorem enqueue_QInv (qs : List (Lane × List Ev)) (e : Ev) (h : QInv qs) : QInv (enqueue qs e) := by
  induction qs with
  | nil =>
    refine ⟨?_, by simp [enqueue]⟩
    intro lq hlq e' he'
    simp [enqueue] at hlq
    subst hlq
    simp at he'
    rw [he']
  | cons lq r ih =>
    obtain ⟨l, q⟩ := lq
    obtain ⟨h1, h2⟩ := h
    obtain ⟨h2a, h2b⟩ := List.pairwise_cons.mp h2
    have hr : QInv r := ⟨fun lq hlq => h1 lq (List.mem_cons_of_mem _ hlq), h2b⟩
    unfold enqueue
    split
    · rename_i hl
      refine ⟨?_, List.Pairwise.cons (fun b hb => h2a b hb) h2b⟩
      intro lq hlq e' he'
      rcases List.mem_cons.mp hlq with hlq | hlq
      · subst hlq
        rcases List.mem_append.mp he' with he' | he'
        · exact h1 (l, q) (by simp) e' he'
        · simp at he'; rw [he']; exact hl.symm
      · exact h1 lq (List.mem_cons_of_mem _ hlq) e' he'
    · rename_i hl
      obtain ⟨i1, i2⟩ := ih hr
      refine ⟨?_, List.Pairwise.cons ?_ i2⟩
      · intro lq hlq e' he'
        rcases List.mem_cons.mp hlq with hlq | hlq
        · subst hlq; exact h1 (l, q) (by simp) e' he'
        · exact i1 lq hlq e' he'
      · intro b hb
        rcases enqueue_keys r e b hb with hb | ⟨b', hb', hb⟩
        · rw [hb]; exact hl
        · rw [← hb]; exact h2a b' hb'

theorem foldl_enqueue_QInv (evs : List Ev) : ∀ qs, QInv qs → QInv (evs.foldl enqueue qs) := by
  induction evs with
  | nil => intro qs h; exact h
  | cons e r ih => intro qs h; exact ih _ (enqueue_QInv qs e h)

theorem drainQueues_laneSorted (qs : List (Lane × List Ev)) (h : QInv qs) :
    LaneSorted (drainQueues qs) := by
  induction qs with
  | nil => simp [drainQueues, LaneSorted]
  | cons lq r ih =>
    obtain ⟨h1, h2⟩ := h
    obtain ⟨h2a, h2b⟩ := List.pairwise_cons.mp h2
    have hr : QInv r := ⟨fun lq hlq => h1 lq (List.mem_cons_of_mem _ hlq), h2b⟩
    have ih' := ih hr
    unfold LaneSorted at ih' ⊢
    simp only [drainQueues, List.flatMap_cons] at ih' ⊢
    rw [List.pairwise_append]
    refine ⟨List.Pairwise.imp (fun hab _ _ _ => hab) (isort_sorted lq.2), ih', ?_⟩
    intro a ha b hb _ _ hl
    exfalso
    have hla : a.lane = lq.1 := h1 lq (by simp) a (mem_isort.mp ha)
    obtain ⟨lq', hlq', hb'⟩ := List.mem_flatMap.mp hb
    have hlb : b.lane = lq'.1 := h1 lq' (List.mem_cons_of_mem _ hlq') b (mem_isort.mp hb')
    exact h2a lq' hlq' (by rw [← hla, ← hlb, hl])

/-- what `sort_events` establishes for `overlap_detection`: every lane is start-sorted -/
theorem sortStage_laneSorted (evs : List Ev) : LaneSorted (sortStage evs) :=
  drainQueues_laneSorted _ (foldl_enqueue_QInv evs [] ⟨by simp, by simp⟩)

/-! ### … and, within a lane, sorted by the full key `(ts, -dur)` -/

/-- the order of the sort key `"ts,dur:r"` -/
def KeyOrd (a b : Ev) : Prop := a.ts < b.ts ∨ (a.ts = b.ts ∧ b.dur ≤ a.dur)

theorem keyLe_iff {a b : Ev} : keyLe a b = true ↔ KeyOrd a b := by
  simp [keyLe, KeyOrd]

theorem insertBy_sortedK (x : Ev) (l : List Ev) (h : l.Pairwise KeyOrd) :
    (insertBy x l).Pairwise KeyOrd := by
  induction l with
  | nil => simp [insertBy]
  | cons y r ih =>
    obtain ⟨hy, hr⟩ := List.pairwise_cons.mp h
    unfold insertBy
    split
    · rename_i hk
      have hk := keyLe_iff.mp hk
      refine List.Pairwise.cons ?_ h
      intro z hz
      rcases List.mem_cons.mp hz with hz | hz
      · subst hz; exact hk
      · have := hy z hz
        unfold KeyOrd at *; grind
    · rename_i hk
      have hk : ¬ KeyOrd x y := fun h => hk (keyLe_iff.mpr h)
      refine List.Pairwise.cons ?_ (ih hr)
      intro z hz
      rcases mem_insertBy.mp hz with hz | hz
      · subst hz; unfold KeyOrd at *; grind
      · exact hy z hz

theorem isort_sortedK (l : List Ev) : (isort l).Pairwise KeyOrd := by
  induction l with
  | nil => simp [isort]
  | cons x r ih => exact insertBy_sortedK x _ ih

theorem drainQueues_pairwise (R : Ev → Ev → Prop) (hR : ∀ l, (isort l).Pairwise R)
    (qs : List (Lane × List Ev)) (h : QInv qs) :
    (drainQueues qs).Pairwise (fun a b => a.lane = b.lane → R a b) := by
  induction qs with
  | nil => simp [drainQueues]
  | cons lq r ih =>
    obtain ⟨h1, h2⟩ := h
    obtain ⟨h2a, h2b⟩ := List.pairwise_cons.mp h2
    have hr : QInv r := ⟨fun lq hlq => h1 lq (List.mem_cons_of_mem _ hlq), h2b⟩
    have ih' := ih hr
    simp only [drainQueues, List.flatMap_cons] at ih' ⊢
    rw [List.pairwise_append]
    refine ⟨List.Pairwise.imp (S := fun a b => a.lane = b.lane → R a b) (fun hab _ => hab) (hR lq.2), ih', ?_⟩
    intro a ha b hb hl
    exfalso
    have hla : a.lane = lq.1 := h1 lq (by simp) a (mem_isort.mp ha)
    obtain ⟨lq', hlq', hb'⟩ := List.mem_flatMap.mp hb
    have hlb : b.lane = lq'.1 := h1 lq' (List.mem_cons_of_mem _ hlq') b (mem_isort.mp hb')
    exact h2a lq' hlq' (by rw [← hla, ← hlb, hl])

/-- on one lane the sorted stream is ordered by `(ts, -dur)`: of two slices with equal start the
longer comes first -/
theorem sortStage_keySorted (evs : List Ev) :
    (sortStage evs).Pairwise (fun a b => a.lane = b.lane → KeyOrd a b) :=
  drainQueues_pairwise KeyOrd isort_sortedK _ (foldl_enqueue_QInv evs [] ⟨by simp, by simp⟩)

end AiuVerif.Overlap
