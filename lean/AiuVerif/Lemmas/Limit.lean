/- Helper lemmas and specification-level definitions for the limit/filter model (core Lean only). -/
import AiuVerif.Model.Limit

deriving instance DecidableEq for Except

namespace AiuVerif
namespace Limit
open List

/-! ### the limiter -/

/-- countable (not of an ignored type) and intersecting the window -/
def counted (c : Cfg) (e : Ev) : Bool := !ignored c e && inWin c e

/-- 1-based position of event `i` among the counted events so far (`cnt` counted before the stream) -/
def rankAt (c : Cfg) (cnt : Nat) (evs : List Ev) (i : Nat) : Nat :=
  cnt + ((evs.take (i + 1)).filter (counted c)).length

/-- the verdict the statement prescribes -/
def keptSpec (c : Cfg) (cnt : Nat) (evs : List Ev) (i : Nat) (e : Ev) : Bool :=
  ignored c e ||
    (inWin c e && decide (c.skip < (rankAt c cnt evs i : Int)) &&
      decide ((rankAt c cnt evs i : Int) ≤ c.count + c.skip))

theorem ewl_count (c : Cfg) (cnt : Nat) (e : Ev) :
    (eventWithinLimits c cnt e).2 = cnt + (if counted c e then 1 else 0) := by
  unfold eventWithinLimits counted withinLimits
  cases hi : ignored c e <;> cases hw : inWin c e <;> simp

theorem ewl_flag (c : Cfg) (cnt : Nat) (e : Ev) :
    (eventWithinLimits c cnt e).1 =
      (ignored c e ||
        (inWin c e && decide (c.skip < ((cnt + (if counted c e then 1 else 0) : Nat) : Int)) &&
          decide (((cnt + (if counted c e then 1 else 0) : Nat) : Int) ≤ c.count + c.skip))) := by
  unfold eventWithinLimits counted withinLimits
  cases hi : ignored c e <;> cases hw : inWin c e <;> simp

theorem length_limitFlags (c : Cfg) (cnt : Nat) (evs : List Ev) :
    (limitFlags c cnt evs).length = evs.length := by
  induction evs generalizing cnt with
  | nil => rfl
  | cons e es ih => simp [limitFlags, ih]

theorem limitFlags_getElem? (c : Cfg) (cnt : Nat) (evs : List Ev) (i : Nat) :
    (limitFlags c cnt evs)[i]? = (evs[i]?).map (keptSpec c cnt evs i) := by
  induction evs generalizing cnt i with
  | nil => simp [limitFlags]
  | cons e es ih =>
    cases i with
    | zero =>
      simp only [limitFlags, getElem?_cons_zero, Option.map_some, Option.some.injEq, keptSpec, rankAt,
        Nat.zero_add, take_succ_cons, take_zero]
      rw [ewl_flag]
      cases hc : counted c e <;> simp [hc]
    | succ j =>
      simp only [limitFlags, getElem?_cons_succ]
      rw [ih, ewl_count]
      have hr : rankAt c (cnt + (if counted c e then 1 else 0)) es j = rankAt c cnt (e :: es) (j + 1) := by
        simp only [rankAt, take_succ_cons, filter_cons]
        cases hc : counted c e <;> simp <;> omega
      congr 1
      funext x
      simp only [keptSpec, hr]

/-- when `skip = 0` and `count` cannot bind, the limiter is the window test -/
theorem limitFlags_window (c : Cfg) (cnt : Nat) (evs : List Ev) (hs : c.skip = 0)
    (hc : ((cnt + evs.length : Nat) : Int) ≤ c.count) :
    limitFlags c cnt evs = evs.map (fun e => ignored c e || inWin c e) := by
  induction evs generalizing cnt with
  | nil => rfl
  | cons e es ih =>
    simp only [limitFlags, map_cons, length_cons] at hc ⊢
    have hcnt := ewl_count c cnt e
    rw [ih (eventWithinLimits c cnt e).2 (by rw [hcnt]; split <;> omega)]
    congr 1
    rw [ewl_flag, hs]
    cases hcd : counted c e <;> cases hi : ignored c e <;> cases hw : inWin c e <;>
      simp_all [counted] <;> omega

theorem inWin_mono {c : Cfg} {s' t' : Rat} (hs : s' ≤ c.tsStart) (ht : c.tsEnd ≤ t') (e : Ev)
    (h : inWin c e = true) : inWin { c with tsStart := s', tsEnd := t' } e = true := by
  simp only [inWin, Bool.and_eq_true, decide_eq_true_eq] at h ⊢
  exact ⟨Rat.le_trans hs h.1, Rat.le_trans h.2 ht⟩

/-! ### filters -/

/-- the nested attribute a well-typed path names: `event[a]` (a scalar) or `event[a][b]` -/
def lookup (e : Ev) : List String → Option Leaf
  | [a] => match topGet e a with
    | some (.inl l) => some l
    | _ => none
  | [a, b] => match topGet e a with
    | some (.inr d) => Dict.get? d b
    | _ => none
  | _ => none

/-- the path does not run below a scalar (it may stop early at a missing key, or name a dict) -/
def wellTyped (e : Ev) : List String → Bool
  | [] => true
  | a :: rest =>
    match topGet e a with
    | none => true
    | some (.inl _) => rest.isEmpty
    | some (.inr d) =>
      match rest with
      | [] => true
      | b :: rest' =>
        match Dict.get? d b with
        | none => true
        | some _ => rest'.isEmpty

/-- one pair matches the event -/
def pairMatches {ρ : Type} (m : ρ → String → Bool) (e : Ev) (f : List String × ρ) : Bool :=
  match lookup e f.1 with
  | some l => m f.2 l.render
  | none => false

theorem walk_wellTyped (e : Ev) (p : List String) (h : wellTyped e p = true) :
    walk e p = .ok (match lookup e p with | some l => .leaf l | none => .dict) := by
  match p with
  | [] => rfl
  | [a] =>
    simp only [walk, lookup]
    cases topGet e a with
    | none => rfl
    | some v => cases v <;> rfl
  | [a, b] =>
    simp only [walk, lookup, wellTyped] at h ⊢
    cases hg : topGet e a with
    | none => rfl
    | some v =>
      cases v with
      | inl l => simp [hg] at h
      | inr d =>
        simp only []
        cases Dict.get? d b <;> rfl
  | a :: b :: c :: rest =>
    simp only [walk, lookup, wellTyped] at h ⊢
    cases hg : topGet e a with
    | none => rfl
    | some v =>
      cases v with
      | inl l => simp [hg] at h
      | inr d =>
        simp only [hg] at h ⊢
        cases hd : Dict.get? d b with
        | none => rfl
        | some l => simp [hd] at h

theorem eventFiltered_wellTyped {ρ : Type} (m : ρ → String → Bool) (fs : List (List String × ρ)) (e : Ev)
    (h : ∀ f ∈ fs, wellTyped e f.1 = true) :
    eventFiltered m fs e = .ok (fs.any (pairMatches m e)) := by
  induction fs with
  | nil => rfl
  | cons f fs ih =>
    obtain ⟨p, rx⟩ := f
    have hp := h (p, rx) (mem_cons_self ..)
    have ih' := ih (fun f hf => h f (mem_cons_of_mem _ hf))
    simp only [eventFiltered, walk_wellTyped e p hp, any_cons, pairMatches]
    cases hl : lookup e p with
    | none => simp [ih']
    | some l =>
      simp only []
      cases hm : m rx l.render <;> simp [ih']

theorem collect_eq {ρ : Type} (compile : String → ρ) (es : List (List String)) :
    collect compile es =
      es.filterMap (fun f => match f with | [k, r] => some (k, compile r) | _ => none) := by
  induction es with
  | nil => rfl
  | cons f fs ih =>
    match f with
    | [] => simp [collect, ih]
    | [_] => simp [collect, ih]
    | [k, r] => simp [collect, ih]
    | _ :: _ :: _ :: _ => simp [collect, ih]

/-! ### normalisation keeps identity and type -/

theorem normalize_uid {e e' : Ev} (h : normalize e = .ok e') : e'.uid = e.uid ∧ e'.ph = e.ph := by
  unfold normalize at h
  simp only at h
  split at h
  · cases h
  · cases h
    unfold attrToArgs
    split <;> exact ⟨rfl, rfl⟩

/-! ### the stage -/

/-- an `X` slice whose normalised form is matched by a filter -/
def dropsByFilter {ρ : Type} (m : ρ → String → Bool) (fs : List (List String × ρ)) (e : Ev) : Bool :=
  e.ph == "X" &&
    (match normalize e with
     | .ok e' => (match eventFiltered m fs e' with | .ok true => true | _ => false)
     | .error _ => false)

theorem run_cons {ρ : Type} (m : ρ → String → Bool) (c : Cfg) (fs : List (List String × ρ)) (cnt : Nat)
    (e : Ev) (es : List Ev) :
    run m c fs cnt (e :: es) =
      match step m c fs cnt e with
      | (_, .error x) => ([], some x)
      | (cnt', .ok none) => run m c fs cnt' es
      | (cnt', .ok (some e')) => ((e' :: (run m c fs cnt' es).1), (run m c fs cnt' es).2) := by
  simp only [run]
  rfl

theorem step_count {ρ : Type} (m : ρ → String → Bool) (c : Cfg) (fs : List (List String × ρ)) (cnt : Nat)
    (e : Ev) : (step m c fs cnt e).1 = (eventWithinLimits c cnt e).2 := by
  unfold step
  simp only
  split
  · rfl
  · split
    · rfl
    · split
      · rfl
      · split
        · rfl
        · rfl
        · split
          · rfl
          · split <;> rfl

/-- what one call of `normalize_phase1` returns, in terms of the limiter's verdict and the filter decision -/
theorem step_outcome {ρ : Type} (m : ρ → String → Bool) (c : Cfg) (fs : List (List String × ρ)) (cnt : Nat)
    (e : Ev) :
    match (step m c fs cnt e).2 with
    | .error _ => True
    | .ok none => ((eventWithinLimits c cnt e).1 && !dropsByFilter m fs e) = false
    | .ok (some e') => ((eventWithinLimits c cnt e).1 && !dropsByFilter m fs e) = true ∧ e'.uid = e.uid := by
  unfold step dropsByFilter
  generalize eventWithinLimits c cnt e = r
  obtain ⟨keep, cnt1⟩ := r
  cases keep with
  | false => simp
  | true =>
    by_cases hx : e.ph = "X"
    · cases hn : normalize e with
      | error x => simp [hx]
      | ok e' =>
        cases hf : eventFiltered m fs e' with
        | error x => simp [hx, hf]
        | ok b =>
          cases b with
          | true => simp [hx, hf]
          | false =>
            cases ha : e'.args with
            | none => simp [hx, hf, ha]
            | some a =>
              cases hj : Dict.get? a "jobhash" with
              | none => simp [hx, hf, ha, hj]
              | some v => simp [hx, hf, ha, hj, (normalize_uid hn).1]
    · simp [hx]

end Limit
end AiuVerif
