/- Helper lemmas for the registration model (core only). -/
import AiuVerif.Model.Registry

namespace AiuVerif.Registry

theorem scan_shift (stage : String) (p : Profile) (i : Nat) :
    scan stage p (i + 1) = (scan stage p i).map (fun x => (x.1 + 1, x.2)) := by
  induction p generalizing i with
  | nil => rfl
  | cons st rest ih =>
    simp only [scan]
    split
    · rfl
    · exact ih (i + 1)

/-- scanning over a block without the name finds the entry right behind it -/
theorem scan_skip (stage : String) (B : Profile) (x : String × Bool) (C : Profile) (i : Nat)
    (hB : ∀ b ∈ B, b.1 ≠ stage) (hx : x.1 = stage) :
    scan stage (B ++ x :: C) i = some (i + B.length, x.2) := by
  induction B generalizing i with
  | nil => simp [scan, hx]
  | cons b B ih =>
    have hb : b.1 ≠ stage := hB b (List.mem_cons_self ..)
    simp only [List.cons_append, scan, hb, if_false]
    rw [ih (i + 1) (fun b' hb' => hB b' (List.mem_cons_of_mem _ hb'))]
    simp [Nat.add_comm, Nat.add_left_comm]

theorem staticB_append_right (X Y : List (String × Bool)) (h : staticB (X ++ Y) = true) :
    staticB Y = true := by
  induction X with
  | nil => simpa using h
  | cons x X ih =>
    simp only [List.cons_append, staticB, Bool.and_eq_true] at h
    exact ih h.2

/-- walking over conditional sites only, `okFrom` forbids the name at the next site -/
theorem okFrom_skip (nm : String) (B : List (String × Bool)) (e : String × Bool)
    (rest : List (String × Bool)) (hB : ∀ b ∈ B, b.2 = true)
    (h : okFrom nm (B ++ e :: rest) = true) : e.1 ≠ nm := by
  induction B with
  | nil =>
    simp only [List.nil_append, okFrom, Bool.and_eq_true, bne_iff_ne, ne_eq] at h
    exact h.1
  | cons b B ih =>
    have hb : b.2 = true := hB b (List.mem_cons_self ..)
    simp only [List.cons_append, okFrom, hb, if_true, Bool.and_eq_true] at h
    exact ih (fun b' hb' => hB b' (List.mem_cons_of_mem _ hb')) h.2

end AiuVerif.Registry
