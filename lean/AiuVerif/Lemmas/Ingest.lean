/- Helper lemmas about the ingestion model (core Lean only). -/
import AiuVerif.Model.Ingest

namespace AiuVerif
namespace Ingest
open List

/-! ### the stable descending sort -/

theorem insDesc_perm (x : Entry) (l : List Entry) : insDesc x l ~ x :: l := by
  induction l with
  | nil => simp [insDesc]
  | cons y ys ih =>
    simp only [insDesc]
    split
    · exact Perm.refl _
    · exact (Perm.cons y ih).trans (Perm.swap x y ys)

theorem sortDesc_perm (l : List Entry) : sortDesc l ~ l := by
  induction l with
  | nil => simp [sortDesc]
  | cons a l ih =>
    have : sortDesc (a :: l) = insDesc a (sortDesc l) := rfl
    rw [this]
    exact (insDesc_perm a _).trans (Perm.cons a ih)

/-- descending by the sort key: `pop()` takes the smallest -/
def Desc (l : List Entry) : Prop := l.Pairwise (fun a b => key b.1 ≤ key a.1)

theorem insDesc_desc (x : Entry) (l : List Entry) (h : Desc l) : Desc (insDesc x l) := by
  induction l with
  | nil => simp [insDesc, Desc]
  | cons y ys ih =>
    have hy := List.pairwise_cons.mp h
    simp only [insDesc]
    split
    · rename_i hle
      refine List.pairwise_cons.mpr ⟨?_, h⟩
      intro z hz
      rcases List.mem_cons.mp hz with rfl | hz
      · exact hle
      · exact Rat.le_trans (hy.1 z hz) hle
    · rename_i hle
      refine List.pairwise_cons.mpr ⟨?_, ih hy.2⟩
      intro z hz
      rcases List.mem_cons.mp ((insDesc_perm x ys).mem_iff.mp hz) with rfl | hz
      · exact Rat.le_of_lt (Rat.not_le.mp hle)
      · exact hy.1 z hz

theorem sortDesc_desc (l : List Entry) : Desc (sortDesc l) := by
  induction l with
  | nil => simp [sortDesc, Desc]
  | cons a l ih => exact insDesc_desc a _ ih

/-! ### what the merge state still holds -/

/-- all events the state still holds: the front and what the file iterators have left -/
def content (st : MS) : List Ev := st.front.map Prod.fst ++ (st.rem.map (·.evs)).flatten

theorem flatten_set_cons {rem : List Src} {i : Nat} {e : Ev} {es : List Ev} {t : Option Err}
    (h : rem[i]? = some ⟨e :: es, t⟩) :
    e :: ((rem.set i ⟨es, t⟩).map (·.evs)).flatten ~ (rem.map (·.evs)).flatten := by
  induction rem generalizing i with
  | nil => simp at h
  | cons s ss ih =>
    cases i with
    | zero =>
      simp only [getElem?_cons_zero, Option.some.injEq] at h
      subst h
      simp
    | succ j =>
      simp only [getElem?_cons_succ] at h
      have := ih h
      simp only [set_cons_succ, map_cons, flatten_cons]
      exact perm_middle.symm.trans (Perm.append_left _ this)

theorem pull_content {st st' : MS} {i : Nat} (h : pull st i = .ok st') : content st' ~ content st := by
  unfold pull at h
  split at h
  · cases h
  · rename_i e es t heq
    cases h
    simp only [content]
    have h1 := flatten_set_cons heq
    have h2 : (sortDesc (st.front ++ [(e, i)])).map Prod.fst ~ st.front.map Prod.fst ++ [e] := by
      have := (sortDesc_perm (st.front ++ [(e, i)])).map Prod.fst
      simpa using this
    refine (Perm.append_right _ h2).trans ?_
    rw [List.append_assoc]
    refine Perm.append_left _ ?_
    simpa using h1
  · cases h
    simp [content]
  · cases h

theorem pull_terms {st st' : MS} {i : Nat} (h : pull st i = .ok st') :
    st'.rem.map (·.term) = st.rem.map (·.term) := by
  unfold pull at h
  split at h
  · cases h
  · rename_i e es t heq
    cases h
    simp only
    apply List.ext_getElem?
    intro j
    simp only [getElem?_map, getElem?_set]
    split
    · rename_i hij
      subst hij
      split
      · simp [heq]
      · rename_i hlt
        have : st.rem[i]? = none := getElem?_eq_none (by omega)
        simp [this] at heq
    · rfl
  · cases h; rfl
  · cases h

/-! ### the invariant of the event front -/

/-- `pend`: files that are live but whose next event has not been asked for yet (the not yet
visited files during `__iter__`; the file of the popped event inside `__next__`) -/
structure Inv (pend : List Nat) (st : MS) : Prop where
  len : st.live.length = st.rem.length
  frontLive : ∀ x ∈ st.front, st.live[x.2]? = some true
  nodup : (st.front.map Prod.snd ++ pend).Nodup
  pendLive : ∀ i : Nat, i ∈ pend → st.live[i]? = some true
  dead : ∀ i : Nat, st.live[i]? = some false → st.rem[i]? = some (Src.mk [] none)
  liveIn : ∀ i : Nat, st.live[i]? = some true → i ∈ st.front.map Prod.snd ∨ i ∈ pend

theorem pull_inv {st st' : MS} {i : Nat} {is : List Nat} (hinv : Inv (i :: is) st)
    (h : pull st i = .ok st') : Inv is st' := by
  have hnd := hinv.nodup
  have hnd' : (i :: (st.front.map Prod.snd ++ is)).Nodup := (perm_middle.nodup_iff).mp hnd
  have hi_front : i ∉ st.front.map Prod.snd := fun hm =>
    (nodup_cons.mp hnd').1 (mem_append_left _ hm)
  have hi_is : i ∉ is := fun hm => (nodup_cons.mp hnd').1 (mem_append_right _ hm)
  have hilive : st.live[i]? = some true := hinv.pendLive i (mem_cons_self ..)
  unfold pull at h
  split at h
  · cases h
  · rename_i e es t heq
    cases h
    have hp : (sortDesc (st.front ++ [(e, i)])).map Prod.snd ~ i :: st.front.map Prod.snd := by
      have := (sortDesc_perm (st.front ++ [(e, i)])).map Prod.snd
      simp only [map_append, map_cons, map_nil] at this
      exact this.trans (perm_append_comm)
    refine ⟨?_, ?_, ?_, ?_, ?_, ?_⟩
    · simpa using hinv.len
    · intro x hx
      have hx' := (sortDesc_perm _).mem_iff.mp hx
      rcases mem_append.mp hx' with hx' | hx'
      · exact hinv.frontLive x hx'
      · simp only [mem_singleton] at hx'; subst hx'; exact hilive
    · exact ((Perm.append_right is hp).nodup_iff).mpr hnd'
    · intro j hj; exact hinv.pendLive j (mem_cons_of_mem _ hj)
    · intro j hj
      have hne : i ≠ j := by intro hij; subst hij; simp [hilive] at hj
      simp only [getElem?_set, hne, if_false]
      exact hinv.dead j hj
    · intro j hj
      rcases hinv.liveIn j hj with hm | hm
      · exact Or.inl (hp.mem_iff.mpr (mem_cons_of_mem _ hm))
      · rcases mem_cons.mp hm with rfl | hm
        · exact Or.inl (hp.mem_iff.mpr (mem_cons_self ..))
        · exact Or.inr hm
  · rename_i heq
    cases h
    refine ⟨?_, ?_, ?_, ?_, ?_, ?_⟩
    · simpa using hinv.len
    · intro x hx
      have hne : i ≠ x.2 := fun hij => hi_front (hij ▸ mem_map_of_mem hx)
      simp only [getElem?_set, hne, if_false]
      exact hinv.frontLive x hx
    · exact (nodup_cons.mp hnd').2
    · intro j hj
      have hne : i ≠ j := fun hij => hi_is (hij ▸ hj)
      simp only [getElem?_set, hne, if_false]
      exact hinv.pendLive j (mem_cons_of_mem _ hj)
    · intro j hj
      simp only [getElem?_set] at hj
      split at hj
      · rename_i hij; subst hij; exact heq
      · exact hinv.dead j hj
    · intro j hj
      simp only [getElem?_set] at hj
      split at hj
      · rename_i hij
        split at hj <;> simp at hj
      · rcases hinv.liveIn j hj with hm | hm
        · exact Or.inl hm
        · rcases mem_cons.mp hm with rfl | hm
          · rename_i hne; exact absurd rfl hne
          · exact Or.inr hm
  · cases h

/-- a live pending file can always be asked: no `IndexError` -/
theorem pull_no_index {st : MS} {i : Nat} {is : List Nat} (hinv : Inv (i :: is) st) :
    pull st i ≠ .error .index ∨ ∃ s, st.rem[i]? = some s ∧ s.term = some .index := by
  have hilive : st.live[i]? = some true := hinv.pendLive i (mem_cons_self ..)
  have hlt : i < st.rem.length := by
    have := (List.getElem?_eq_some_iff.mp hilive).1
    rw [← hinv.len]; exact this
  have hs : st.rem[i]? = some st.rem[i] := getElem?_eq_getElem hlt
  unfold pull
  split
  · rename_i hn; rw [hs] at hn; cases hn
  · exact Or.inl (by simp)
  · exact Or.inl (by simp)
  · rename_i x heq
    by_cases hx : x = .index
    · subst hx; exact Or.inr ⟨_, heq, rfl⟩
    · left; intro hc; cases hc; exact hx rfl

theorem pop_inv {st : MS} {x : Entry} (hinv : Inv [] st) (hl : st.front.getLast? = some x) :
    Inv [x.2] { st with front := st.front.dropLast } := by
  obtain ⟨ys, hys⟩ := getLast?_eq_some_iff.mp hl
  have hd : st.front.dropLast = ys := by rw [hys]; simp
  have hnd : (ys.map Prod.snd ++ [x.2]).Nodup := by
    have := hinv.nodup
    simpa [hys] using this
  refine ⟨hinv.len, ?_, ?_, ?_, hinv.dead, ?_⟩
  · intro y hy
    simp only [hd] at hy
    exact hinv.frontLive y (by rw [hys]; exact mem_append_left _ hy)
  · simpa only [hd] using hnd
  · intro i hi
    simp only [mem_singleton] at hi
    subst hi
    exact hinv.frontLive x (by rw [hys]; simp)
  · intro i hi
    rcases hinv.liveIn i hi with hm | hm
    · simp only [hys, map_append, map_cons, map_nil, mem_append, mem_singleton] at hm
      simp only [hd, mem_singleton]
      exact hm
    · cases hm

/-- under the invariant `__next__` pops the last front entry and refills from its file; the
`while True` round that discards a popped event is never taken -/
theorem next_spec {st : MS} (hinv : Inv [] st) (fuel : Nat) :
    next (fuel + 1) st =
      match st.front.getLast? with
      | none => .ok none
      | some x =>
        match pull { st with front := st.front.dropLast } x.2 with
        | .error err => .error err
        | .ok st2 => .ok (some (x, st2)) := by
  rw [next]
  cases hl : st.front.getLast? with
  | none => rfl
  | some x =>
    have hx : x ∈ st.front := mem_of_getLast? hl
    simp only [hinv.frontLive x hx]
    rfl

theorem front_nil_rem {st : MS} (hinv : Inv [] st) (hf : st.front = []) :
    ∀ s ∈ st.rem, s = Src.mk [] none := by
  intro s hs
  obtain ⟨i, hi⟩ := mem_iff_getElem?.mp hs
  have hlt : i < st.live.length := by
    rw [hinv.len]; exact (List.getElem?_eq_some_iff.mp hi).1
  have hb : st.live[i]? = some st.live[i] := getElem?_eq_getElem hlt
  cases hbv : st.live[i] with
  | true =>
    rw [hbv] at hb
    rcases hinv.liveIn i hb with hm | hm
    · simp [hf] at hm
    · cases hm
  | false =>
    rw [hbv] at hb
    have := hinv.dead i hb
    rw [hi] at this
    exact Option.some.inj this

theorem front_nil_content {st : MS} (hinv : Inv [] st) (hf : st.front = []) : content st = [] := by
  simp only [content, hf, map_nil, nil_append, flatten_eq_nil_iff, mem_map]
  rintro l ⟨s, hs, rfl⟩
  rw [front_nil_rem hinv hf s hs]

theorem pop_content {st : MS} {x : Entry} (hl : st.front.getLast? = some x) :
    content st ~ x.1 :: content { st with front := st.front.dropLast } := by
  obtain ⟨ys, hys⟩ := getLast?_eq_some_iff.mp hl
  have hd : st.front.dropLast = ys := by rw [hys]; simp
  simp only [content, hd]
  rw [hys]
  simp only [map_append, map_cons, map_nil, append_assoc, singleton_append]
  exact perm_middle

/-- what `loop` yields, plus what it leaves behind, is what the state held; nothing is left behind
when the loop ends normally and the fuel was sufficient -/
theorem loop_split (fuel : Nat) (st : MS) (hinv : Inv [] st) :
    ∃ rest, (loop fuel st).1.map Prod.fst ++ rest ~ content st ∧
      ((loop fuel st).2 = none → (content st).length < fuel → rest = []) := by
  induction fuel generalizing st with
  | zero => exact ⟨content st, by simp [loop], by intro _ h; omega⟩
  | succ fuel ih =>
    simp only [loop, nextEv, next_spec hinv]
    cases hl : st.front.getLast? with
    | none =>
      refine ⟨content st, by simp, ?_⟩
      intro _ _
      exact front_nil_content hinv (getLast?_eq_none_iff.mp hl)
    | some x =>
      simp only []
      cases hp : pull { st with front := st.front.dropLast } x.2 with
      | error err => exact ⟨content st, by simp, by intro h; cases h⟩
      | ok st2 =>
        simp only []
        have hinv2 : Inv [] st2 := pull_inv (pop_inv hinv hl) hp
        obtain ⟨rest, hr1, hr2⟩ := ih st2 hinv2
        have hc : content st ~ x.1 :: content st2 :=
          (pop_content hl).trans (Perm.cons _ (pull_content hp).symm)
        refine ⟨rest, ?_, ?_⟩
        · simp only [map_cons, cons_append]
          exact (Perm.cons _ hr1).trans hc.symm
        · intro hn hlen
          have := hc.length_eq
          simp only [length_cons] at this
          exact hr2 hn (by omega)

/-- the file terminators never change, and a normal end means every file ended normally -/
theorem loop_terms (fuel : Nat) (st : MS) (hinv : Inv [] st)
    (hn : (loop fuel st).2 = none) (hlen : (content st).length < fuel) :
    ∀ s ∈ st.rem, s.term = none := by
  induction fuel generalizing st with
  | zero => omega
  | succ fuel ih =>
    simp only [loop, nextEv, next_spec hinv] at hn
    cases hl : st.front.getLast? with
    | none =>
      intro s hs
      rw [front_nil_rem hinv (getLast?_eq_none_iff.mp hl) s hs]
    | some x =>
      simp only [hl] at hn
      cases hp : pull { st with front := st.front.dropLast } x.2 with
      | error err => simp [hp] at hn
      | ok st2 =>
        simp only [hp] at hn
        have hinv2 : Inv [] st2 := pull_inv (pop_inv hinv hl) hp
        have hc : content st ~ x.1 :: content st2 :=
          (pop_content hl).trans (Perm.cons _ (pull_content hp).symm)
        have hlen2 := hc.length_eq
        simp only [length_cons] at hlen2
        have h2 := ih st2 hinv2 hn (by omega)
        have ht : st2.rem.map (·.term) = st.rem.map (·.term) := by
          have := pull_terms hp; simpa using this
        intro s hs
        have : s.term ∈ st.rem.map (·.term) := mem_map_of_mem hs
        rw [← ht] at this
        obtain ⟨s2, hs2, he⟩ := mem_map.mp this
        rw [← he]; exact h2 s2 hs2

/-- if no file iterator raises, the merge does not raise -/
theorem loop_ok (fuel : Nat) (st : MS) (hinv : Inv [] st) (ht : ∀ s ∈ st.rem, s.term = none) :
    (loop fuel st).2 = none := by
  induction fuel generalizing st with
  | zero => rfl
  | succ fuel ih =>
    simp only [loop, nextEv, next_spec hinv]
    cases hl : st.front.getLast? with
    | none => rfl
    | some x =>
      simp only []
      have hpi := pop_inv hinv hl
      cases hp : pull { st with front := st.front.dropLast } x.2 with
      | error err =>
        exfalso
        unfold pull at hp
        have hilive := hpi.pendLive x.2 (mem_cons_self ..)
        have hlt : x.2 < st.rem.length := by
          rw [← hinv.len]; exact (List.getElem?_eq_some_iff.mp hilive).1
        split at hp
        · rename_i hnone
          simp only at hnone
          rw [getElem?_eq_getElem hlt] at hnone; cases hnone
        · cases hp
        · cases hp
        · rename_i e heq
          simp only at heq
          have := ht _ (mem_of_getElem? heq)
          cases this
      | ok st2 =>
        simp only []
        have hinv2 : Inv [] st2 := pull_inv hpi hp
        apply ih st2 hinv2
        have htm : st2.rem.map (·.term) = st.rem.map (·.term) := by
          have := pull_terms hp; simpa using this
        intro s hs
        have : s.term ∈ st2.rem.map (·.term) := mem_map_of_mem hs
        rw [htm] at this
        obtain ⟨s0, hs0, he⟩ := mem_map.mp this
        rw [← he]; exact ht s0 hs0

/-! ### order -/

/-- ascending by the sort key -/
def SortedEvs (l : List Ev) : Prop := l.Pairwise (fun a b => key a ≤ key b)

structure SInv (st : MS) : Prop where
  desc : Desc st.front
  srt : ∀ s ∈ st.rem, SortedEvs s.evs
  lb : ∀ x ∈ st.front, ∀ s : Src, st.rem[x.2]? = some s → ∀ y ∈ s.evs, key x.1 ≤ key y

theorem pull_sinv {st st' : MS} {i : Nat} {is : List Nat} (hinv : Inv (i :: is) st) (hs : SInv st)
    (h : pull st i = .ok st') : SInv st' := by
  have hnd' : (i :: (st.front.map Prod.snd ++ is)).Nodup := (perm_middle.nodup_iff).mp hinv.nodup
  have hi_front : i ∉ st.front.map Prod.snd := fun hm =>
    (nodup_cons.mp hnd').1 (mem_append_left _ hm)
  unfold pull at h
  split at h
  · cases h
  · rename_i e es t heq
    cases h
    have hmem : Src.mk (e :: es) t ∈ st.rem := mem_of_getElem? heq
    have hsrt := hs.srt _ hmem
    simp only [SortedEvs] at hsrt
    have hsrt' := pairwise_cons.mp hsrt
    refine ⟨sortDesc_desc _, ?_, ?_⟩
    · intro s hsm
      rcases mem_or_eq_of_mem_set hsm with hsm | rfl
      · exact hs.srt s hsm
      · exact hsrt'.2
    · intro x hx s hxs y hy
      have hx' := (sortDesc_perm _).mem_iff.mp hx
      rcases mem_append.mp hx' with hx' | hx'
      · have hne : i ≠ x.2 := fun hij => hi_front (hij ▸ mem_map_of_mem hx')
        simp only [getElem?_set, hne, if_false] at hxs
        exact hs.lb x hx' s hxs y hy
      · simp only [mem_singleton] at hx'
        subst hx'
        simp only [getElem?_set, if_true] at hxs
        split at hxs
        · cases hxs; exact hsrt'.1 y hy
        · cases hxs
  · cases h
    exact ⟨hs.desc, hs.srt, hs.lb⟩
  · cases h

theorem pop_sinv {st : MS} (hs : SInv st) : SInv { st with front := st.front.dropLast } :=
  ⟨hs.desc.sublist (dropLast_sublist _), hs.srt,
   fun x hx => hs.lb x ((dropLast_sublist _).subset hx)⟩

/-- the popped event is a lower bound of everything the state still holds -/
theorem pop_lb {st : MS} {x : Entry} (hinv : Inv [] st) (hs : SInv st)
    (hl : st.front.getLast? = some x) :
    ∀ z ∈ content { st with front := st.front.dropLast }, key x.1 ≤ key z := by
  obtain ⟨ys, hys⟩ := getLast?_eq_some_iff.mp hl
  have hd : st.front.dropLast = ys := by rw [hys]; simp
  have hdesc := hs.desc
  rw [hys] at hdesc
  have hdesc' := (pairwise_append.mp hdesc).2.2
  have hfront : ∀ w ∈ st.front, key x.1 ≤ key w.1 := by
    intro w hw
    rw [hys] at hw
    rcases mem_append.mp hw with hw | hw
    · exact hdesc' w hw x (by simp)
    · simp only [mem_singleton] at hw; subst hw; exact Rat.le_refl
  intro z hz
  simp only [content, hd, mem_append, mem_map, mem_flatten] at hz
  rcases hz with ⟨w, hw, rfl⟩ | ⟨l, ⟨s, hsm, rfl⟩, hzl⟩
  · exact hfront w (by rw [hys]; exact mem_append_left _ hw)
  · obtain ⟨j, hj⟩ := mem_iff_getElem?.mp hsm
    have hlt : j < st.live.length := by
      rw [hinv.len]; exact (List.getElem?_eq_some_iff.mp hj).1
    have hb : st.live[j]? = some st.live[j] := getElem?_eq_getElem hlt
    cases hbv : st.live[j] with
    | true =>
      rw [hbv] at hb
      rcases hinv.liveIn j hb with hm | hm
      · obtain ⟨w, hw, hwj⟩ := mem_map.mp hm
        subst hwj
        exact Rat.le_trans (hfront w hw) (hs.lb w hw s hj z hzl)
      · cases hm
    | false =>
      rw [hbv] at hb
      have := hinv.dead j hb
      rw [hj] at this
      cases this
      cases hzl

theorem loop_sorted (fuel : Nat) (st : MS) (hinv : Inv [] st) (hs : SInv st) :
    (loop fuel st).1.Pairwise (fun a b => key a.1 ≤ key b.1) := by
  induction fuel generalizing st with
  | zero => simp [loop]
  | succ fuel ih =>
    simp only [loop, nextEv, next_spec hinv]
    cases hl : st.front.getLast? with
    | none => simp
    | some x =>
      simp only []
      cases hp : pull { st with front := st.front.dropLast } x.2 with
      | error err => simp
      | ok st2 =>
        simp only []
        have hpi := pop_inv hinv hl
        have hinv2 : Inv [] st2 := pull_inv hpi hp
        have hs2 : SInv st2 := pull_sinv hpi (pop_sinv hs) hp
        refine pairwise_cons.mpr ⟨?_, ih st2 hinv2 hs2⟩
        intro y hy
        obtain ⟨rest, hr, _⟩ := loop_split fuel st2 hinv2
        have h1 : y.1 ∈ content st2 :=
          hr.mem_iff.mp (mem_append_left _ (mem_map_of_mem hy))
        exact pop_lb hinv hs hl y.1 ((pull_content hp).mem_iff.mp h1)

/-! ### `__iter__` and the initial state -/

theorem prefill_inv {is : List Nat} {st st' : MS} (hinv : Inv is st) (h : prefill is st = .ok st') :
    Inv [] st' := by
  induction is generalizing st with
  | nil => simp only [prefill] at h; cases h; exact hinv
  | cons i is ih =>
    simp only [prefill] at h
    cases hp : pull st i with
    | error x => simp [hp] at h
    | ok st1 => simp only [hp] at h; exact ih (pull_inv hinv hp) h

theorem prefill_content {is : List Nat} {st st' : MS} (h : prefill is st = .ok st') :
    content st' ~ content st := by
  induction is generalizing st with
  | nil => simp only [prefill] at h; cases h; exact Perm.refl _
  | cons i is ih =>
    simp only [prefill] at h
    cases hp : pull st i with
    | error x => simp [hp] at h
    | ok st1 => simp only [hp] at h; exact (ih h).trans (pull_content hp)

theorem prefill_terms {is : List Nat} {st st' : MS} (h : prefill is st = .ok st') :
    st'.rem.map (·.term) = st.rem.map (·.term) := by
  induction is generalizing st with
  | nil => simp only [prefill] at h; cases h; rfl
  | cons i is ih =>
    simp only [prefill] at h
    cases hp : pull st i with
    | error x => simp [hp] at h
    | ok st1 => simp only [hp] at h; exact (ih h).trans (pull_terms hp)

theorem prefill_sinv {is : List Nat} {st st' : MS} (hinv : Inv is st) (hs : SInv st)
    (h : prefill is st = .ok st') : SInv st' := by
  induction is generalizing st with
  | nil => simp only [prefill] at h; cases h; exact hs
  | cons i is ih =>
    simp only [prefill] at h
    cases hp : pull st i with
    | error x => simp [hp] at h
    | ok st1 => simp only [hp] at h; exact ih (pull_inv hinv hp) (pull_sinv hinv hs hp) h

/-- `__iter__` does not raise if no file iterator raises -/
theorem prefill_ok {is : List Nat} {st : MS} (hinv : Inv is st) (ht : ∀ s ∈ st.rem, s.term = none) :
    ∃ st', prefill is st = .ok st' := by
  induction is generalizing st with
  | nil => exact ⟨st, rfl⟩
  | cons i is ih =>
    simp only [prefill]
    cases hp : pull st i with
    | error x =>
      exfalso
      unfold pull at hp
      have hilive := hinv.pendLive i (mem_cons_self ..)
      have hlt : i < st.rem.length := by
        rw [← hinv.len]; exact (List.getElem?_eq_some_iff.mp hilive).1
      split at hp
      · rename_i hnone
        rw [getElem?_eq_getElem hlt] at hnone; cases hnone
      · cases hp
      · cases hp
      · rename_i e heq
        have := ht _ (mem_of_getElem? heq)
        cases this
    | ok st1 =>
      simp only []
      apply ih (pull_inv hinv hp)
      have htm := pull_terms hp
      intro s hs
      have : s.term ∈ st1.rem.map (·.term) := mem_map_of_mem hs
      rw [htm] at this
      obtain ⟨s0, hs0, he⟩ := mem_map.mp this
      rw [← he]; exact ht s0 hs0

theorem init_inv (srcs : List Src) : Inv (List.range srcs.length) (init srcs) := by
  refine ⟨by simp [init], by simp [init], by simpa [init] using nodup_range, ?_, ?_, ?_⟩
  · intro i hi
    have hlt : i < srcs.length := mem_range.mp hi
    simp [init, getElem?_map, getElem?_eq_getElem hlt]
  · intro i hi
    simp only [init, getElem?_map] at hi
    cases hsi : srcs[i]? <;> simp [hsi] at hi
  · intro i hi
    right
    simp only [init, getElem?_map] at hi
    cases hsi : srcs[i]? with
    | none => simp [hsi] at hi
    | some s => exact mem_range.mpr (List.getElem?_eq_some_iff.mp hsi).1

theorem init_sinv (srcs : List Src) (h : ∀ s ∈ srcs, SortedEvs s.evs) : SInv (init srcs) :=
  ⟨by simp [init, Desc], h, by simp [init]⟩

theorem init_content (srcs : List Src) : content (init srcs) = (srcs.map (·.evs)).flatten := by
  simp [content, init]

theorem total_eq (srcs : List Src) : total srcs = ((srcs.map (·.evs)).flatten).length := by
  simp [total, length_flatten, Function.comp_def]

/-! ### per-file order -/

/-- what the state still holds of file `i`, in file order -/
def fileOf (i : Nat) (st : MS) : List Ev :=
  (st.front.filter (fun x => x.2 == i)).map Prod.fst ++ ((st.rem[i]?).map (·.evs)).getD []

theorem filter_idx_nil {l : List Entry} {i : Nat} (h : i ∉ l.map Prod.snd) :
    l.filter (fun x => x.2 == i) = [] := by
  apply filter_eq_nil_iff.mpr
  intro x hx hxi
  exact h (by simp only [beq_iff_eq] at hxi; exact hxi ▸ mem_map_of_mem hx)

theorem filter_idx_le_one {l : List Entry} {i : Nat} (h : (l.map Prod.snd).Nodup) :
    (l.filter (fun x => x.2 == i)).length ≤ 1 := by
  induction l with
  | nil => simp
  | cons y ys ih =>
    simp only [map_cons, nodup_cons] at h
    by_cases hy : y.2 = i
    · have : ys.filter (fun x => x.2 == i) = [] := filter_idx_nil (hy ▸ h.1)
      simp [hy, this]
    · simp only [filter_cons, beq_iff_eq, hy, if_false]
      exact ih h.2

theorem perm_short_eq {α : Type} {l₁ l₂ : List α} (h : l₁ ~ l₂) (hl : l₂.length ≤ 1) : l₁ = l₂ := by
  match l₂, hl with
  | [], _ => exact h.eq_nil
  | [a], _ => exact perm_singleton.mp h

theorem pull_fileOf {st st' : MS} {j : Nat} {is : List Nat} (i : Nat) (hinv : Inv (j :: is) st)
    (h : pull st j = .ok st') : fileOf i st' = fileOf i st := by
  have hnd' : (j :: (st.front.map Prod.snd ++ is)).Nodup := (perm_middle.nodup_iff).mp hinv.nodup
  have hj_front : j ∉ st.front.map Prod.snd := fun hm =>
    (nodup_cons.mp hnd').1 (mem_append_left _ hm)
  have hfn : (st.front.map Prod.snd).Nodup := (nodup_append.mp (nodup_cons.mp hnd').2).1
  unfold pull at h
  split at h
  · cases h
  · rename_i e es t heq
    cases h
    have hlt : j < st.rem.length := (List.getElem?_eq_some_iff.mp heq).1
    have hperm : (sortDesc (st.front ++ [(e, j)])).filter (fun x => x.2 == i) ~
        st.front.filter (fun x => x.2 == i) ++ [(e, j)].filter (fun x => x.2 == i) := by
      have := (sortDesc_perm (st.front ++ [(e, j)])).filter (fun x => x.2 == i)
      simpa only [filter_append] using this
    by_cases hij : j = i
    · subst hij
      have h0 : st.front.filter (fun x => x.2 == j) = [] := filter_idx_nil hj_front
      have h1 : (sortDesc (st.front ++ [(e, j)])).filter (fun x => x.2 == j) = [(e, j)] := by
        apply perm_short_eq _ (by simp)
        simpa [h0] using hperm
      have hget : st.rem[j] = ⟨e :: es, t⟩ := (List.getElem?_eq_some_iff.mp heq).2
      simp [fileOf, h0, h1, hlt, hget]
    · have hne : ([(e, j)] : List Entry).filter (fun x => x.2 == i) = [] := by
        simp [hij]
      have h1 : (sortDesc (st.front ++ [(e, j)])).filter (fun x => x.2 == i) =
          st.front.filter (fun x => x.2 == i) := by
        apply perm_short_eq _ (filter_idx_le_one hfn)
        simpa [hne] using hperm
      simp [fileOf, h1, hij]
  · cases h; rfl
  · cases h

theorem pop_fileOf {st : MS} {x : Entry} (i : Nat) (hinv : Inv [] st)
    (hl : st.front.getLast? = some x) :
    fileOf i st = (if x.2 = i then [x.1] else []) ++ fileOf i { st with front := st.front.dropLast } := by
  obtain ⟨ys, hys⟩ := getLast?_eq_some_iff.mp hl
  have hd : st.front.dropLast = ys := by rw [hys]; simp
  have hnd : (ys.map Prod.snd ++ [x.2]).Nodup := by
    have := hinv.nodup
    simpa [hys] using this
  simp only [fileOf, hd]
  rw [hys]
  by_cases hxi : x.2 = i
  · have hnot : i ∉ ys.map Prod.snd := by
      intro hm
      have := (nodup_append.mp hnd).2.2 i hm x.2 (by simp)
      exact this hxi.symm
    simp [filter_append, hxi, filter_idx_nil hnot]
  · simp [filter_append, hxi]

/-- restricted to one file, `loop` yields a prefix of what the state holds of that file, and all of
it when the loop ends normally with sufficient fuel -/
theorem loop_file (fuel : Nat) (st : MS) (i : Nat) (hinv : Inv [] st) :
    ∃ rest, ((loop fuel st).1.filter (fun x => x.2 == i)).map Prod.fst ++ rest = fileOf i st ∧
      ((loop fuel st).2 = none → (content st).length < fuel → rest = []) := by
  induction fuel generalizing st with
  | zero => exact ⟨fileOf i st, by simp [loop], by intro _ h; omega⟩
  | succ fuel ih =>
    simp only [loop, nextEv, next_spec hinv]
    cases hl : st.front.getLast? with
    | none =>
      refine ⟨fileOf i st, by simp, ?_⟩
      intro _ _
      have hf := getLast?_eq_none_iff.mp hl
      simp only [fileOf, hf, filter_nil, map_nil, nil_append]
      cases hr : st.rem[i]? with
      | none => rfl
      | some s => rw [front_nil_rem hinv hf s (mem_of_getElem? hr)]; rfl
    | some x =>
      simp only []
      cases hp : pull { st with front := st.front.dropLast } x.2 with
      | error err => exact ⟨fileOf i st, by simp, by intro h; cases h⟩
      | ok st2 =>
        simp only []
        have hpi := pop_inv hinv hl
        have hinv2 : Inv [] st2 := pull_inv hpi hp
        obtain ⟨rest, hr1, hr2⟩ := ih st2 hinv2
        have hf : fileOf i st = (if x.2 = i then [x.1] else []) ++ fileOf i st2 := by
          rw [pop_fileOf i hinv hl, pull_fileOf i hpi hp]
        have hc : content st ~ x.1 :: content st2 :=
          (pop_content hl).trans (Perm.cons _ (pull_content hp).symm)
        refine ⟨rest, ?_, ?_⟩
        · rw [hf, ← hr1]
          by_cases hxi : x.2 = i <;> simp [hxi]
        · intro hn hlen
          have := hc.length_eq
          simp only [length_cons] at this
          exact hr2 hn (by omega)

theorem prefill_fileOf {is : List Nat} {st st' : MS} (i : Nat) (hinv : Inv is st)
    (h : prefill is st = .ok st') : fileOf i st' = fileOf i st := by
  induction is generalizing st with
  | nil => simp only [prefill] at h; cases h; rfl
  | cons j is ih =>
    simp only [prefill] at h
    cases hp : pull st j with
    | error x => simp [hp] at h
    | ok st1 => simp only [hp] at h; exact (ih (pull_inv hinv hp) h).trans (pull_fileOf i hinv hp)

/-! ### the per-file iterator: well-formed files as item lists -/

/-- a well-formed file is a sequence of items: a single non-B/E event, or a `B` immediately
followed by its `E` (same name `n`, timestamps `t1`, `t2`) -/
inductive Item
  | single (e : Ev)
  | pair (b e : Ev) (n : String) (t1 t2 : Rat)

def Item.raws : Item → List Ev
  | .single e => [e]
  | .pair b e _ _ _ => [b, e]

def Item.WF : Item → Prop
  | .single e => inBE e.ph = false
  | .pair b e n t1 t2 =>
    b.ph = "B" ∧ e.ph = "E" ∧ b.name = some n ∧ e.name = some n ∧ b.ts = some t1 ∧ e.ts = some t2

instance (it : Item) : Decidable it.WF := by
  cases it <;> simp only [Item.WF] <;> infer_instance

/-- the event an item stands for: itself, or the `B` event turned into an `X` slice with
`dur = E.ts − B.ts` -/
def Item.slice : Item → Ev
  | .single e => e
  | .pair b _ _ t1 t2 => { b with ph := "X", dur := some (t2 - t1) }

/-- metadata is passed on unconditionally, everything else is subject to the duration check -/
def Item.fate : Item → Sane
  | .single e => if e.ph == "M" then .keep else sane e
  | it => sane it.slice

def applyFate (f : Sane) (x : Ev) (r : FileOut) : FileOut :=
  match f with
  | .keep => { r with evs := x :: r.evs }
  | .neg => { r with neg := r.neg + 1 }
  | .zero => { r with zero := r.zero + 1 }

theorem emitSane_eq (e : Ev) (r : FileOut) : emitSane e r = applyFate (sane e) e r := by
  unfold emitSane applyFate; cases sane e <;> rfl

theorem pairBE_item (t : Option Err) (it : Item) (h : it.WF) (rest : List Ev) :
    pairBE t (it.raws ++ rest) = applyFate it.fate it.slice (pairBE t rest) := by
  cases it with
  | single e =>
    simp only [Item.WF] at h
    simp only [Item.raws, singleton_append, Item.fate, Item.slice]
    rw [pairBE.eq_def]
    by_cases hm : e.ph = "M"
    · simp [hm, applyFate, show inBE "M" = false by decide]
    · simp [h, hm, emitSane_eq]
  | pair b e n t1 t2 =>
    obtain ⟨hb, he, hbn, hen, hbt, het⟩ := h
    have hin : (!inBE b.ph) = false := by rw [hb]; decide
    have hB : (b.ph == "B") = true := by rw [hb]; decide
    have hE : (e.ph == "E") = true := by rw [he]; decide
    simp only [Item.raws, cons_append, nil_append]
    rw [pairBE.eq_3]
    simp only [hin, hB, hE, hbn, hen, hbt, het, ne_eq, not_true_eq_false, if_false, if_true,
      Bool.false_eq_true, emitSane_eq, complete, Item.fate, Item.slice]

theorem pairBE_items (t : Option Err) (items : List Item) (h : ∀ it ∈ items, it.WF) :
    (pairBE t (items.flatMap Item.raws)).evs = (items.filter (fun it => it.fate = .keep)).map Item.slice ∧
    (pairBE t (items.flatMap Item.raws)).term = t ∧
    (pairBE t (items.flatMap Item.raws)).neg = items.countP (fun it => it.fate = .neg) ∧
    (pairBE t (items.flatMap Item.raws)).zero = items.countP (fun it => it.fate = .zero) := by
  induction items with
  | nil => simp [pairBE]
  | cons it its ih =>
    have hit := h it (mem_cons_self ..)
    obtain ⟨h1, h2, h3, h4⟩ := ih (fun x hx => h x (mem_cons_of_mem _ hx))
    simp only [flatMap_cons, pairBE_item t it hit]
    cases hf : it.fate <;> simp [applyFate, hf, h1, h2, h3, h4]

/-! ### rank annotation -/

/-- events that `updated_event` passes to `_rank_device_annotation` -/
def annotated (ph : String) : Bool := inXBE ph || inMbei ph

/-- the `rank` entry the annotation wrote: `attr.rank` for slice-like events that carry `attr`,
`args.rank` otherwise -/
def rankOf (x : Ev) : Option Int := if inXBE x.ph && x.hasAttr then x.rkAttr else x.rkArgs

/-- `annot` once the rank is known -/
def annotRes (r : Int) (e : Ev) (ua : Bool) : Except Err (Ev × Int) :=
  if (!ua && !e.hasArgs) = true then .error .key
  else .ok (if r ≥ 0 then { (if ua then { e with rkAttr := some r } else { e with rkArgs := some r }) with pid := some r }
            else (if ua then { e with rkAttr := some r } else { e with rkArgs := some r }), r)

theorem annot_of_ne {r : Int} (hr : r ≠ -1) (e : Ev) (ua : Bool) : annot r e ua = annotRes r e ua := by
  have hr' : (r == -1) = false := by simpa using hr
  simp only [annot, hr', annotRes]
  rfl

theorem annot_first {e : Ev} {p : Int} (hp : e.pid = some p) (ua : Bool) :
    annot (-1) e ua = annotRes p e ua := by
  simp only [annot, hp, annotRes]
  rfl

theorem upd_rank {r : Int} (hr : r ≠ -1) {e e' : Ev} {r' : Int} (h : upd r e = .ok (e', r')) :
    r' = r ∧ e'.ph = e.ph ∧
      (annotated e.ph = true → rankOf e' = some r ∧ (0 ≤ r → e'.pid = some r)) := by
  simp only [upd, annot_of_ne hr, annotRes] at h
  by_cases hx : inXBE e.ph = true <;> by_cases hm : inMbei e.ph = true <;>
    by_cases ha : e.hasAttr = true <;> by_cases hg : e.hasArgs = true <;> by_cases h0 : 0 ≤ r <;>
    cases hpid : e.pid <;>
    simp [hx, hm, ha, hg, h0, hpid] at h <;>
    (try (obtain ⟨rfl, rfl⟩ := h)) <;> simp_all [rankOf, annotated] <;> omega

theorem annotate_rank {r : Int} (hr : r ≠ -1) (l : List Ev) :
    ∀ x ∈ (annotate r l).1, annotated x.ph = true → rankOf x = some r ∧ (0 ≤ r → x.pid = some r) := by
  induction l with
  | nil => simp [annotate]
  | cons e es ih =>
    simp only [annotate]
    cases hu : upd r e with
    | error x => simp
    | ok p =>
      obtain ⟨e', r'⟩ := p
      obtain ⟨h1, h2, h3⟩ := upd_rank hr hu
      subst h1
      simp only [mem_cons]
      rintro x (rfl | hx) ha
      · exact h3 (h2 ▸ ha)
      · exact ih x hx ha

/-- the first annotated event with a non-negative pid fixes the rank -/
theorem upd_first {e e' : Ev} {p r' : Int} (hp : e.pid = some p) (h0 : 0 ≤ p)
    (ha : annotated e.ph = true) (h : upd (-1) e = .ok (e', r')) :
    r' = p ∧ e'.ph = e.ph ∧ rankOf e' = some p ∧ e'.pid = some p := by
  have hp' : (if (!e.hasAttr && !e.hasArgs) = true then { e with hasArgs := true } else e).pid = some p := by
    split <;> exact hp
  simp only [upd, annot_first hp, annot_first hp', annotRes] at h
  by_cases hx : inXBE e.ph = true <;> by_cases hm : inMbei e.ph = true <;>
    by_cases ha : e.hasAttr = true <;> by_cases hg : e.hasArgs = true <;>
    simp [hx, hm, ha, hg, h0] at h <;>
    (try (obtain ⟨rfl, rfl⟩ := h)) <;> simp_all [rankOf, annotated]

/-- pid, rank entries and slice-likeness of a yielded event are those of an updated item -/
def SameOwner (x y : Ev) : Prop :=
  x.pid = y.pid ∧ x.rkArgs = y.rkArgs ∧ x.rkAttr = y.rkAttr ∧ x.hasAttr = y.hasAttr ∧
    (x.ph = y.ph ∨ (y.ph = "B" ∧ x.ph = "X"))

theorem mem_emitSane {x e : Ev} {r : FileOut} (h : x ∈ (emitSane e r).evs) : x = e ∨ x ∈ r.evs := by
  unfold emitSane at h
  split at h
  · simpa using h
  · exact Or.inr h
  · exact Or.inr h

theorem pairBE_mem (t : Option Err) (l : List Ev) :
    ∀ x ∈ (pairBE t l).evs, ∃ y ∈ l, SameOwner x y := by
  induction hn : l.length using Nat.strongRecOn generalizing l with
  | _ n ih =>
    match l with
    | [] => simp [pairBE]
    | e :: rest =>
      have ihrest : ∀ x ∈ (pairBE t rest).evs, ∃ y ∈ e :: rest, SameOwner x y := by
        intro x hx
        obtain ⟨y, hy, hs⟩ := ih rest.length (by subst hn; simp) rest rfl x hx
        exact ⟨y, mem_cons_of_mem _ hy, hs⟩
      have hself : SameOwner e e := ⟨rfl, rfl, rfl, rfl, Or.inl rfl⟩
      intro x hx
      rw [pairBE.eq_def] at hx
      simp only at hx
      split at hx
      · split at hx
        · rcases mem_cons.mp hx with rfl | hx
          · exact ⟨_, mem_cons_self .., hself⟩
          · exact ihrest x hx
        · rcases mem_emitSane hx with rfl | hx
          · exact ⟨_, mem_cons_self .., hself⟩
          · exact ihrest x hx
      · split at hx
        · rename_i hB
          have hB' : e.ph = "B" := by simpa using hB
          match rest, hx with
          | [], hx => simp at hx
          | e2 :: rest', hx =>
            simp only at hx
            split at hx
            · split at hx
              · simp [FileOut.fail] at hx
              · split at hx
                · split at hx
                  · rcases mem_emitSane hx with rfl | hx
                    · exact ⟨e, mem_cons_self .., rfl, rfl, rfl, rfl, Or.inr ⟨hB', rfl⟩⟩
                    · obtain ⟨y, hy, hs⟩ := ih rest'.length (by subst hn; simp; omega) rest' rfl x hx
                      exact ⟨y, mem_cons_of_mem _ (mem_cons_of_mem _ hy), hs⟩
                  · simp [FileOut.fail] at hx
                · simp [FileOut.fail] at hx
            · simp [FileOut.fail] at hx
        · simp [FileOut.fail] at hx

end Ingest
end AiuVerif
