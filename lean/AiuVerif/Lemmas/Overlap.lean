/- Helper lemmas for C04: the lane-state invariant of the overlap detection. Core Lean only. -/
import AiuVerif.Model.Overlap

namespace AiuVerif.Overlap

/-- two slices are disjoint or nested w.r.t. the rounded ends `round(ts+dur, 4)` the code uses -/
def Lam (a b : Ev) : Prop :=
  a.endOf ≤ b.ts ∨ b.endOf ≤ a.ts ∨ (a.ts ≤ b.ts ∧ b.endOf ≤ a.endOf) ∨ (b.ts ≤ a.ts ∧ a.endOf ≤ b.endOf)

instance (a b : Ev) : Decidable (Lam a b) := by unfold Lam; exact inferInstance

theorem Lam.symm {a b : Ev} (h : Lam a b) : Lam b a := by
  unfold Lam at *; grind

/-- what may sit next to what on a lane: slices (`ph == "X"`) of one `(pid, tid)` are laminar -/
def LaneOK (a b : Ev) : Prop := a.isX = true → b.isX = true → a.lane = b.lane → Lam a b

/-- the invariant: for every slice emitted so far, its lane's head is not before its start, and its
rounded end is still on the lane's stack or strictly before the lane's head -/
def Inv (st : Lanes) (em : List Ev) : Prop :=
  ∀ a ∈ em, a.isX = true →
    a.ts ≤ (st a.lane).cur ∧ (a.endOf ∈ (st a.lane).ends ∨ a.endOf < (st a.lane).cur)

theorem Inv_init : Inv Lanes.init [] := by
  intro a ha; simp at ha

@[simp] theorem prune_cur (s : Rat) (q : LaneSt) : (prune s q).cur = s := rfl

theorem mem_prune_ends {s x : Rat} {q : LaneSt} : x ∈ (prune s q).ends ↔ x ∈ q.ends ∧ s ≤ x := by
  simp [prune]

@[simp] theorem set_same (st : Lanes) (l : Lane) (q : LaneSt) : (st.set l q) l = q := by
  simp [Lanes.set]

theorem set_other (st : Lanes) {l l' : Lane} (q : LaneSt) (h : l' ≠ l) : (st.set l q) l' = st l' := by
  simp [Lanes.set, h]

/-- every write to a lane (`update_queue_status` after any of the branches) keeps the invariant,
as long as the stack it prunes contains the old stack and the new head is not before the old -/
theorem Inv_set_prune {st : Lanes} {em : List Ev} {l : Lane} {q' : LaneSt} {s : Rat}
    (hinv : Inv st em) (hsub : ∀ x ∈ (st l).ends, x ∈ q'.ends) (hcur : (st l).cur ≤ s) :
    Inv (st.set l (prune s q')) em := by
  intro a ha hx
  have h := hinv a ha hx
  by_cases hl : a.lane = l
  · rw [hl] at h ⊢
    rw [set_same]
    refine ⟨by simp only [prune_cur]; grind, ?_⟩
    rcases h.2 with h2 | h2
    · by_cases hs : s ≤ a.endOf
      · exact Or.inl (mem_prune_ends.mpr ⟨hsub _ h2, hs⟩)
      · right; simp only [prune_cur]; grind
    · right; simp only [prune_cur]; grind
  · rw [set_other _ _ hl]; exact h

/-- … and the slice just placed on that lane satisfies it too -/
theorem Inv_set_prune_add {st : Lanes} {em : List Ev} {b : Ev} {q' : LaneSt}
    (hinv : Inv st em) (hsub : ∀ x ∈ (st b.lane).ends, x ∈ q'.ends) (hcur : (st b.lane).cur ≤ b.ts)
    (hE : b.endOf ∈ q'.ends) :
    Inv (st.set b.lane (prune b.ts q')) (em ++ [b]) := by
  intro a ha hx
  rcases List.mem_append.mp ha with ha | ha
  · exact Inv_set_prune hinv hsub hcur a ha hx
  · have : a = b := by simpa using ha
    subst this
    rw [set_same]
    refine ⟨by simp, ?_⟩
    by_cases hs : a.ts ≤ a.endOf
    · exact Or.inl (mem_prune_ends.mpr ⟨hE, hs⟩)
    · right; simp only [prune_cur]; grind

theorem not_overlaps {s E : Rat} {ends : List Rat} (h : overlaps s E ends = false) :
    ∀ e ∈ ends, e ≤ s ∨ E ≤ e := by
  intro e he
  simp only [overlaps, List.any_eq_false] at h
  have := h e he
  simp only [Bool.and_eq_true, decide_eq_true_eq, not_and] at this
  grind

/-- what one slice placed after `em` (under the invariant) looks like next to the earlier ones -/
def NewOK (em : List Ev) (b : Ev) : Prop :=
  ∀ a ∈ em, a.isX = true → a.lane = b.lane → a.ts ≤ b.ts ∧ (a.endOf ≤ b.ts ∨ b.endOf ≤ a.endOf)

theorem NewOK.laneOK {em : List Ev} {b : Ev} (h : NewOK em b) : ∀ a ∈ em, LaneOK a b := by
  intro a ha hxa _ hl
  have := h a ha hxa hl
  unfold Lam; grind

/-- the specification of one call of `overlap_detection` -/
def Spec (st : Lanes) (ev : Ev) (st' : Lanes) (out em : List Ev) : Prop :=
  (out = [] ∨ ∃ t, out = [{ ev with tid := t }]) ∧
  Inv st' (em ++ out) ∧
  (∀ b ∈ out, NewOK em b) ∧
  (∀ L c, (st L).cur ≤ c → ev.ts ≤ c → (st' L).cur ≤ c)

theorem bound_set {st st1 : Lanes} {ev : Ev} {q : LaneSt}
    (h : ∀ L c, (st L).cur ≤ c → ev.ts ≤ c → (st1 L).cur ≤ c) :
    ∀ L c, (st L).cur ≤ c → ev.ts ≤ c → ((st1.set ev.lane (prune ev.ts q)) L).cur ≤ c := by
  intro L c h1 h2
  by_cases hL : L = ev.lane
  · subst hL; simp; exact h2
  · rw [set_other _ _ hL]; exact h L c h1 h2

/-- branch `not blocked` -/
theorem spec_free {st : Lanes} {ev : Ev} {em : List Ev} (hinv : Inv st em)
    (hcur : (st ev.lane).cur ≤ ev.ts) (hends : (st ev.lane).ends = []) :
    Spec st ev (st.set ev.lane (prune ev.ts ⟨ev.ts, true, [ev.endOf]⟩)) [ev] em := by
  refine ⟨Or.inr ⟨ev.tid, rfl⟩, ?_, ?_, bound_set (fun L c h _ => h)⟩
  · exact Inv_set_prune_add hinv (by simp [hends]) hcur (by simp)
  · intro b hb' a ha hxa hl
    have hb' : b = ev := by simpa using hb'
    subst hb'
    have := hinv a ha hxa
    rw [hl, hends] at this
    simp at this
    grind

/-- branch `non-critical stacking` -/
theorem spec_stack {st : Lanes} {ev : Ev} {em : List Ev} (hinv : Inv st em)
    (hcur : (st ev.lane).cur ≤ ev.ts) (hov : overlaps ev.ts ev.endOf (st ev.lane).ends = false) :
    Spec st ev (st.set ev.lane (prune ev.ts { st ev.lane with ends := (st ev.lane).ends ++ [ev.endOf] }))
      [ev] em := by
  refine ⟨Or.inr ⟨ev.tid, rfl⟩, ?_, ?_, bound_set (fun L c h _ => h)⟩
  · exact Inv_set_prune_add hinv (by intro x hx; simp [hx]) hcur (by simp)
  · intro b hb' a ha hxa hl
    have hb' : b = ev := by simpa using hb'
    subst hb'
    have := hinv a ha hxa
    rw [hl] at this
    refine ⟨by grind, ?_⟩
    rcases this.2 with h2 | h2
    · exact not_overlaps hov _ h2
    · left; grind

/-- branch `handle_overlap`, DROP -/
theorem spec_drop {st : Lanes} {ev : Ev} {em : List Ev} (hinv : Inv st em)
    (hcur : (st ev.lane).cur ≤ ev.ts) :
    Spec st ev (st.set ev.lane (prune ev.ts (st ev.lane))) [] em := by
  refine ⟨Or.inl rfl, ?_, by simp, bound_set (fun L c h _ => h)⟩
  simpa using Inv_set_prune hinv (fun x hx => hx) hcur

/-- branch `handle_overlap`, TID: the re-detection on the next lane met its specification -/
theorem spec_hop {st st1 : Lanes} {ev : Ev} {t : Nat} {out em : List Ev}
    (hcur : (st ev.lane).cur ≤ ev.ts) (h : Spec st { ev with tid := t } st1 out em) :
    Spec st ev (st1.set ev.lane (prune ev.ts (st1 ev.lane))) out em := by
  obtain ⟨hshape, hinv1, hnew, hbound⟩ := h
  refine ⟨?_, ?_, hnew, bound_set hbound⟩
  · rcases hshape with h0 | ⟨t', h1⟩
    · exact Or.inl h0
    · exact Or.inr ⟨t', h1⟩
  · exact Inv_set_prune hinv1 (fun x hx => hx) (hbound _ _ hcur (Rat.le_refl))

theorem ends_nil_of_free {q : LaneSt} (hstate : ¬¬(q.blocked = !q.ends.isEmpty))
    (hb : q.blocked = false) : q.ends = [] := by
  have h := Decidable.not_not.mp hstate
  rw [hb] at h
  cases hq : q.ends with
  | nil => rfl
  | cons x r => rw [hq] at h; simp at h

theorem detect_spec (mode : Mode) (next : Nat → Nat → Option Nat) :
    ∀ (fuel : Nat) (st : Lanes) (ev : Ev) (st' : Lanes) (out em : List Ev),
      Inv st em → detect mode next fuel st ev = .ok (st', out) → Spec st ev st' out em := by
  intro fuel
  induction fuel with
  | zero =>
    intro st ev st' out em hinv h
    unfold detect at h
    simp only [] at h
    split at h
    · cases h
    split at h
    · cases h
    rename_i hcur hstate
    have hcur : (st ev.lane).cur ≤ ev.ts := Decidable.not_not.mp hcur
    split at h
    · rename_i hb
      injection h with h; injection h with h1 h2; subst h1; subst h2
      exact spec_free hinv hcur (ends_nil_of_free hstate hb)
    split at h
    · cases mode with
      | drop =>
        simp only [] at h
        injection h with h; injection h with h1 h2; subst h1; subst h2
        exact spec_drop hinv hcur
      | tid =>
        simp only [] at h
        split at h
        · cases h
        · cases h
    · rename_i hb hov
      injection h with h; injection h with h1 h2; subst h1; subst h2
      exact spec_stack hinv hcur (by simpa using hov)
  | succ fuel ih =>
    intro st ev st' out em hinv h
    unfold detect at h
    simp only [] at h
    split at h
    · cases h
    split at h
    · cases h
    rename_i hcur hstate
    have hcur : (st ev.lane).cur ≤ ev.ts := Decidable.not_not.mp hcur
    split at h
    · rename_i hb
      injection h with h; injection h with h1 h2; subst h1; subst h2
      exact spec_free hinv hcur (ends_nil_of_free hstate hb)
    split at h
    · cases mode with
      | drop =>
        simp only [] at h
        injection h with h; injection h with h1 h2; subst h1; subst h2
        exact spec_drop hinv hcur
      | tid =>
        simp only [] at h
        split at h
        · cases h
        split at h
        · cases h
        rename_i st1 out1 hrec
        injection h with h; injection h with h1 h2; subst h1; subst h2
        exact spec_hop hcur (ih st _ st1 _ em hinv hrec)
    · rename_i hb hov
      injection h with h; injection h with h1 h2; subst h1; subst h2
      exact spec_stack hinv hcur (by simpa using hov)

/-- slices of one lane are pairwise laminar in a stream -/
def LamList (l : List Ev) : Prop := l.Pairwise LaneOK

theorem step_spec (mode : Mode) (next : Nat → Nat → Option Nat) (fuel : Nat)
    {st : Lanes} {ev : Ev} {st' : Lanes} {out em : List Ev}
    (hinv : Inv st em) (hlam : LamList em) (h : step mode next fuel st ev = .ok (st', out)) :
    Inv st' (em ++ out) ∧ LamList (em ++ out) := by
  unfold step at h
  split at h
  · obtain ⟨hshape, hinv', hnew, _⟩ := detect_spec mode next fuel st ev st' out em hinv h
    refine ⟨hinv', ?_⟩
    unfold LamList
    rw [List.pairwise_append]
    refine ⟨hlam, ?_, fun a ha b hb => (hnew b hb).laneOK a ha⟩
    rcases hshape with h0 | ⟨t, h1⟩
    · rw [h0]; exact List.Pairwise.nil
    · rw [h1]; exact List.pairwise_singleton _ _
  · rename_i hx
    injection h with h; injection h with h1 h2; subst h1; subst h2
    refine ⟨?_, ?_⟩
    · intro a ha hxa
      rcases List.mem_append.mp ha with ha | ha
      · exact hinv a ha hxa
      · have : a = ev := by simpa using ha
        subst this; exact absurd hxa hx
    · unfold LamList
      rw [List.pairwise_append]
      refine ⟨hlam, List.pairwise_singleton _ _, ?_⟩
      intro a _ b hb _ hxb
      have : b = ev := by simpa using hb
      subst this; exact absurd hxb hx

theorem detectAll_spec (mode : Mode) (next : Nat → Nat → Option Nat) (fuel : Nat) :
    ∀ (evs : List Ev) (st : Lanes) (em : List Ev) (st' : Lanes) (out : List Ev),
      Inv st em → LamList em → detectAll mode next fuel st evs = .ok (st', out) →
      Inv st' (em ++ out) ∧ LamList (em ++ out) := by
  intro evs
  induction evs with
  | nil =>
    intro st em st' out hinv hlam h
    simp only [detectAll] at h
    injection h with h; injection h with h1 h2; subst h1; subst h2
    simpa using ⟨hinv, hlam⟩
  | cons ev rest ih =>
    intro st em st' out hinv hlam h
    simp only [detectAll] at h
    split at h
    · cases h
    rename_i st1 out1 hstep
    split at h
    · cases h
    rename_i st2 out2 hrest
    injection h with h; injection h with h1 h2; subst h1; subst h2
    obtain ⟨hi1, hl1⟩ := step_spec mode next fuel hinv hlam hstep
    have := ih st1 (em ++ out1) st2 out2 hi1 hl1 hrest
    simpa [List.append_assoc] using this

/-- the shape of what `-O tid` emits for one slice: the slice itself with some tid -/
theorem detect_tid_shape (next : Nat → Nat → Option Nat) :
    ∀ (fuel : Nat) (st : Lanes) (ev : Ev) (st' : Lanes) (out : List Ev),
      detect .tid next fuel st ev = .ok (st', out) → ∃ t, out = [{ ev with tid := t }] := by
  intro fuel
  induction fuel with
  | zero =>
    intro st ev st' out h
    unfold detect at h
    simp only [] at h
    split at h
    · cases h
    split at h
    · cases h
    split at h
    · injection h with h; injection h with h1 h2; subst h2; exact ⟨ev.tid, rfl⟩
    split at h
    · split at h
      · cases h
      · cases h
    · injection h with h; injection h with h1 h2; subst h2; exact ⟨ev.tid, rfl⟩
  | succ fuel ih =>
    intro st ev st' out h
    unfold detect at h
    simp only [] at h
    split at h
    · cases h
    split at h
    · cases h
    split at h
    · injection h with h; injection h with h1 h2; subst h2; exact ⟨ev.tid, rfl⟩
    split at h
    · split at h
      · cases h
      split at h
      · cases h
      rename_i st1 out1 hrec
      injection h with h; injection h with h1 h2; subst h2
      obtain ⟨t', ht'⟩ := ih st _ st1 _ hrec
      exact ⟨t', ht'⟩
    · injection h with h; injection h with h1 h2; subst h2; exact ⟨ev.tid, rfl⟩

/-- an event with its tid blanked: everything `-O tid` must leave alone -/
def Ev.noTid (e : Ev) : Ev := { e with tid := 0 }

theorem detectAll_tid_noTid (next : Nat → Nat → Option Nat) (fuel : Nat) :
    ∀ (evs : List Ev) (st st' : Lanes) (out : List Ev),
      detectAll .tid next fuel st evs = .ok (st', out) → out.map Ev.noTid = evs.map Ev.noTid := by
  intro evs
  induction evs with
  | nil =>
    intro st st' out h
    simp only [detectAll] at h
    injection h with h; injection h with h1 h2; subst h2
    rfl
  | cons ev rest ih =>
    intro st st' out h
    simp only [detectAll] at h
    split at h
    · cases h
    rename_i st1 out1 hstep
    split at h
    · cases h
    rename_i st2 out2 hrest
    injection h with h; injection h with h1 h2; subst h2
    have hr := ih st1 st2 out2 hrest
    unfold step at hstep
    split at hstep
    · obtain ⟨t, ht⟩ := detect_tid_shape next fuel st ev st1 out1 hstep
      subst ht
      simp [hr, Ev.noTid]
    · injection hstep with hstep; injection hstep with h1 h2; subst h2
      simp [hr]

/-- `-O drop` emits the slice unchanged or nothing -/
theorem detect_drop_shape (next : Nat → Nat → Option Nat) (fuel : Nat) (st : Lanes) (ev : Ev)
    (st' : Lanes) (out : List Ev) (h : detect .drop next fuel st ev = .ok (st', out)) :
    out = [] ∨ out = [ev] := by
  unfold detect at h
  simp only [] at h
  split at h
  · cases h
  split at h
  · cases h
  split at h
  · injection h with h; injection h with h1 h2; subst h2; exact Or.inr rfl
  split at h
  · injection h with h; injection h with h1 h2; subst h2; exact Or.inl rfl
  · injection h with h; injection h with h1 h2; subst h2; exact Or.inr rfl

theorem detectAll_drop_sublist (next : Nat → Nat → Option Nat) (fuel : Nat) :
    ∀ (evs : List Ev) (st st' : Lanes) (out : List Ev),
      detectAll .drop next fuel st evs = .ok (st', out) → out.Sublist evs := by
  intro evs
  induction evs with
  | nil =>
    intro st st' out h
    simp only [detectAll] at h
    injection h with h; injection h with h1 h2; subst h2
    exact List.Sublist.refl _
  | cons ev rest ih =>
    intro st st' out h
    simp only [detectAll] at h
    split at h
    · cases h
    rename_i st1 out1 hstep
    split at h
    · cases h
    rename_i st2 out2 hrest
    injection h with h; injection h with h1 h2; subst h2
    have hr := ih st1 st2 out2 hrest
    unfold step at hstep
    split at hstep
    · rcases detect_drop_shape next fuel st ev st1 out1 hstep with h0 | h0
      · subst h0; simpa using hr.cons ev
      · subst h0; simpa using hr.cons_cons ev
    · injection hstep with hstep; injection hstep with h1 h2; subst h2
      simpa using hr.cons_cons ev

end AiuVerif.Overlap
