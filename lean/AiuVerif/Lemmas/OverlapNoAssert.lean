/- Helper lemmas for C04: on a stream whose lanes are start-sorted and whose tid families are
disjoint, neither `assert` of `overlap_detection` can fire. Core Lean only. -/
import AiuVerif.Lemmas.OverlapSpace

namespace AiuVerif.Overlap

/-- the consistency the second `assert` checks -/
def StateOK (st : Lanes) : Prop := ∀ L, (st L).blocked = !(st L).ends.isEmpty

theorem StateOK_init : StateOK Lanes.init := by intro L; rfl

theorem StateOK_set_prune {st : Lanes} (h : StateOK st) (l : Lane) (s : Rat) (q : LaneSt) :
    StateOK (st.set l (prune s q)) := by
  intro L
  unfold Lanes.set
  split
  · rfl
  · exact h L

/-- how `overlap_detection` may have changed a lane head: not at all, or to the ts of the slice on
a lane of the slice's family -/
def CurStep (next : Nat → Nat → Option Nat) (st st' : Lanes) (ev : Ev) : Prop :=
  ∀ L, (st' L).cur = (st L).cur ∨
    ((st' L).cur = ev.ts ∧ ∃ t, L = (ev.pid, t) ∧ Reach (next ev.pid) ev.tid t)

theorem curStep_set {next : Nat → Nat → Option Nat} {st st1 : Lanes} {ev : Ev} {q : LaneSt}
    (h : ∀ L, (st1 L).cur = (st L).cur ∨
      ((st1 L).cur = ev.ts ∧ ∃ t, L = (ev.pid, t) ∧ Reach (next ev.pid) ev.tid t)) :
    CurStep next st (st1.set ev.lane (prune ev.ts q)) ev := by
  intro L
  by_cases hL : L = ev.lane
  · subst hL
    right
    exact ⟨by simp [Lanes.set, prune], ev.tid, rfl, Reach.refl _⟩
  · simp only [Lanes.set, hL, if_false]
    exact h L

def NotAssert (e : Err) : Prop := e = .keyError ∨ e = .recursion

theorem detect_no_assert (mode : Mode) (next : Nat → Nat → Option Nat) :
    ∀ (fuel : Nat) (st : Lanes) (ev : Ev), StateOK st →
      (∀ t, Reach (next ev.pid) ev.tid t → (st (ev.pid, t)).cur ≤ ev.ts) →
      (∀ e, detect mode next fuel st ev = .error e → NotAssert e) ∧
      (∀ st' out, detect mode next fuel st ev = .ok (st', out) → StateOK st' ∧ CurStep next st st' ev) := by
  intro fuel
  induction fuel with
  | zero =>
    intro st ev hok hcur
    constructor
    · intro e h
      unfold detect at h
      simp only [] at h
      split at h
      · rename_i hn; exact absurd (hcur ev.tid (Reach.refl _)) hn
      split at h
      · rename_i hn; exact absurd (hok ev.lane) hn
      split at h
      · cases h
      split at h
      · split at h
        · cases h
        · split at h
          · injection h with h; subst h; exact Or.inl rfl
          · injection h with h; subst h; exact Or.inr rfl
      · cases h
    · intro st' out h
      unfold detect at h
      simp only [] at h
      split at h
      · cases h
      split at h
      · cases h
      split at h
      · injection h with h; injection h with h1 h2; subst h1
        exact ⟨StateOK_set_prune hok _ _ _, curStep_set (fun L => Or.inl rfl)⟩
      split at h
      · split at h
        · injection h with h; injection h with h1 h2; subst h1
          exact ⟨StateOK_set_prune hok _ _ _, curStep_set (fun L => Or.inl rfl)⟩
        · split at h
          · cases h
          · cases h
      · injection h with h; injection h with h1 h2; subst h1
        exact ⟨StateOK_set_prune hok _ _ _, curStep_set (fun L => Or.inl rfl)⟩
  | succ fuel ih =>
    intro st ev hok hcur
    constructor
    · intro e h
      unfold detect at h
      simp only [] at h
      split at h
      · rename_i hn; exact absurd (hcur ev.tid (Reach.refl _)) hn
      split at h
      · rename_i hn; exact absurd (hok ev.lane) hn
      split at h
      · cases h
      split at h
      · split at h
        · cases h
        · split at h
          · injection h with h; subst h; exact Or.inl rfl
          · rename_i t ht
            have hrec := ih st { ev with tid := t } hok
              (fun t' hr => hcur t' (Reach.step ht hr))
            split at h
            · rename_i e' he'
              injection h with h; subst h
              exact hrec.1 _ he'
            · cases h
      · cases h
    · intro st' out h
      unfold detect at h
      simp only [] at h
      split at h
      · cases h
      split at h
      · cases h
      split at h
      · injection h with h; injection h with h1 h2; subst h1
        exact ⟨StateOK_set_prune hok _ _ _, curStep_set (fun L => Or.inl rfl)⟩
      split at h
      · split at h
        · injection h with h; injection h with h1 h2; subst h1
          exact ⟨StateOK_set_prune hok _ _ _, curStep_set (fun L => Or.inl rfl)⟩
        · split at h
          · cases h
          · rename_i t ht
            have hrec := ih st { ev with tid := t } hok
              (fun t' hr => hcur t' (Reach.step ht hr))
            split at h
            · cases h
            · rename_i st1 out1 hd
              injection h with h; injection h with h1 h2; subst h1
              obtain ⟨hok1, hstep1⟩ := hrec.2 _ _ hd
              refine ⟨StateOK_set_prune hok1 _ _ _, curStep_set ?_⟩
              intro L
              rcases hstep1 L with h0 | ⟨h0, t', hL, hr⟩
              · exact Or.inl h0
              · exact Or.inr ⟨h0, t', hL, Reach.step ht hr⟩
      · injection h with h; injection h with h1 h2; subst h1
        exact ⟨StateOK_set_prune hok _ _ _, curStep_set (fun L => Or.inl rfl)⟩

/-- every slice still to come finds the heads of all lanes of its family not after its start -/
def Future (next : Nat → Nat → Option Nat) (st : Lanes) (evs : List Ev) : Prop :=
  ∀ e ∈ evs, e.isX = true → ∀ t, Reach (next e.pid) e.tid t → (st (e.pid, t)).cur ≤ e.ts

/-- per lane, the stream is sorted by start (what `sort_events` establishes) -/
def LaneSorted (evs : List Ev) : Prop :=
  evs.Pairwise (fun a b => a.isX = true → b.isX = true → a.lane = b.lane → a.ts ≤ b.ts)

/-- the tid families of different lanes of a pid do not meet -/
def FamDisj (next : Nat → Nat → Option Nat) (evs : List Ev) : Prop :=
  ∀ a ∈ evs, ∀ b ∈ evs, a.isX = true → b.isX = true → a.pid = b.pid →
    ∀ t, Reach (next a.pid) a.tid t → Reach (next a.pid) b.tid t → a.tid = b.tid

theorem detectAll_no_assert (mode : Mode) (next : Nat → Nat → Option Nat) (fuel : Nat) :
    ∀ (evs : List Ev) (st : Lanes), StateOK st → Future next st evs → LaneSorted evs →
      FamDisj next evs → ∀ e, detectAll mode next fuel st evs = .error e → NotAssert e := by
  intro evs
  induction evs with
  | nil => intro st _ _ _ _ e h; simp [detectAll] at h
  | cons ev rest ih =>
    intro st hok hfut hsorted hdisj e h
    simp only [detectAll] at h
    have hsorted' := List.pairwise_cons.mp hsorted
    have hdisj' : FamDisj next rest := fun a ha b hb =>
      hdisj a (List.mem_cons_of_mem _ ha) b (List.mem_cons_of_mem _ hb)
    split at h
    · rename_i e' hstep
      injection h with h; subst h
      unfold step at hstep
      split at hstep
      · rename_i hx
        exact (detect_no_assert mode next fuel st ev hok
          (hfut ev List.mem_cons_self hx)).1 _ hstep
      · cases hstep
    · rename_i st1 out1 hstep
      split at h
      · rename_i e' hrest
        injection h with h; subst h
        unfold step at hstep
        split at hstep
        · rename_i hx
          obtain ⟨hok1, hcs⟩ := (detect_no_assert mode next fuel st ev hok
            (hfut ev List.mem_cons_self hx)).2 _ _ hstep
          refine ih st1 hok1 ?_ hsorted'.2 hdisj' _ hrest
          intro b hb hxb t hr
          rcases hcs (b.pid, t) with h0 | ⟨h0, t', hL, hr'⟩
          · rw [h0]; exact hfut b (List.mem_cons_of_mem _ hb) hxb t hr
          · rw [h0]
            have hp : b.pid = ev.pid := congrArg Prod.fst hL
            have ht : t = t' := congrArg Prod.snd hL
            subst ht
            have htid : ev.tid = b.tid :=
              hdisj ev List.mem_cons_self b (List.mem_cons_of_mem _ hb) hx hxb hp.symm t hr'
                (hp ▸ hr)
            exact hsorted'.1 b hb hx hxb (by simp [Ev.lane, hp, htid])
        · injection hstep with hstep; injection hstep with h1 h2; subst h1
          exact ih st hok (fun b hb => hfut b (List.mem_cons_of_mem _ hb)) hsorted'.2 hdisj' _ hrest
      · cases h

end AiuVerif.Overlap
