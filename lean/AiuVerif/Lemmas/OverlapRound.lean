/- Helper lemmas for C04: `round(x, 4)` moves a value by at most 0.05 ns (5·10⁻⁵ µs). Core only. -/
import AiuVerif.Model.Overlap

namespace AiuVerif.Overlap

theorem roundHalfEven_close (y : Rat) :
    ((roundHalfEven y : Int) : Rat) - y ≤ 1/2 ∧ y - ((roundHalfEven y : Int) : Rat) ≤ 1/2 := by
  have h1 := Rat.floor_le y
  have h2 := Rat.lt_floor_add_one y
  have hc : ((y.floor + 1 : Int) : Rat) = (y.floor : Rat) + 1 := by simp [Rat.intCast_add]
  rw [hc] at h2
  unfold roundHalfEven
  simp only []
  split
  · constructor <;> grind
  · split
    · rw [hc]; constructor <;> grind
    · split
      · constructor <;> grind
      · rw [hc]; constructor <;> grind

/-- `|round(q, 4) − q| ≤ 5·10⁻⁵` -/
theorem rnd4_close (q : Rat) : rnd4 q - q ≤ 1/20000 ∧ q - rnd4 q ≤ 1/20000 := by
  have h := roundHalfEven_close (q * 10000)
  unfold rnd4
  constructor <;> grind

theorem roundHalfEven_mono {x y : Rat} (h : x ≤ y) : roundHalfEven x ≤ roundHalfEven y := by
  have hx1 := Rat.floor_le x
  have hx2 := Rat.lt_floor_add_one x
  have hy1 := Rat.floor_le y
  have hy2 := Rat.lt_floor_add_one y
  have hm := Rat.floor_monotone h
  have hcx : ((x.floor + 1 : Int) : Rat) = (x.floor : Rat) + 1 := by simp [Rat.intCast_add]
  have hcy : ((y.floor + 1 : Int) : Rat) = (y.floor : Rat) + 1 := by simp [Rat.intCast_add]
  rw [hcx] at hx2
  rw [hcy] at hy2
  rcases Int.lt_or_eq_of_le hm with hlt | heq
  · -- different floors: round x ≤ ⌊x⌋ + 1 ≤ ⌊y⌋ ≤ round y
    have h1 : roundHalfEven x ≤ x.floor + 1 := by
      unfold roundHalfEven; simp only []; repeat' split
      all_goals omega
    have h2 : y.floor ≤ roundHalfEven y := by
      unfold roundHalfEven; simp only []; repeat' split
      all_goals omega
    omega
  · -- same floor: compare the fractional parts
    unfold roundHalfEven
    simp only []
    rw [← heq]
    have hc : ((y.floor : Int) : Rat) = (x.floor : Rat) := by rw [heq]
    repeat' split
    all_goals first
      | omega
      | (exfalso; grind)

/-- `round(·, 4)` is monotone -/
theorem rnd4_mono {x y : Rat} (h : x ≤ y) : rnd4 x ≤ rnd4 y := by
  have h1 : x * 10000 ≤ y * 10000 := by grind
  have h2 := roundHalfEven_mono h1
  have h3 : ((roundHalfEven (x * 10000) : Int) : Rat) ≤ ((roundHalfEven (y * 10000) : Int) : Rat) :=
    Rat.intCast_le_intCast.mpr h2
  unfold rnd4
  grind

end AiuVerif.Overlap
