/- Helper lemmas for C04: `round(x, 4)` moves a value by at most 0.05 ns (5·10⁻⁵ µs). Core only. -/
import AiuVerif.Model.Overlap

namespace AiuVerif.Overlap

theorem roundHalfEven_close (y : Rat) :
    ((roundHalfEven y : Int) : Rat) - y ≤ 1/2 ∧ y - ((roundHalfEven y : Int) : Rat) ≤ 1/2 := by
  have h1 := Rat.floor_le y
  have h2 := Rat.lt_floor_add_one y
  have hc : ((y.floor + 1 : Int) : Rat) = (y.floor : Rat) + 1 := by simp [Rat.intCast_add]
  rw [hc] at h2
  unfold roundHalfEven
  simp only []
  split
  · constructor <;> grind
  · split
    · rw [hc]; constructor <;> grind
    · split
      · constructor <;> grind
      · rw [hc]; constructor <;> grind

/-- `|round(q, 4) − q| ≤ 5·10⁻⁵` -/
theorem rnd4_close (q : Rat) : rnd4 q - q ≤ 1/20000 ∧ q - rnd4 q ≤ 1/20000 := by
  have h := roundHalfEven_close (q * 10000)
  unfold rnd4
  constructor <;> grind

end AiuVerif.Overlap
