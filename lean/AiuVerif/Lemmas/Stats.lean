/- Helper lemmas about the statistics model (`Model/Stats.lean`). -/
import AiuVerif.Model.Stats
import Mathlib.Algebra.Order.Field.Rat
import Mathlib.Algebra.BigOperators.Group.List.Basic
import Mathlib.Tactic.Linarith
import Mathlib.Tactic.FieldSimp
import Mathlib.Tactic.Positivity

namespace AiuVerif.Stats

/-! ### grouping: `insert` / `collect` -/

def keys (gs : List Grp) : List Key := gs.map (fun g => g.key)

/-- durations of the first group with key `k` -/
def dursOf (k : Key) : List Grp → List Rat
  | [] => []
  | g :: gs => if g.key = k then g.durs else dursOf k gs

theorem dursOf_insert (k : Key) (gs : List Grp) (s : Sl) :
    dursOf k (insert gs s) = if keyOf s = k then dursOf k gs ++ [s.dur] else dursOf k gs := by
  induction gs with
  | nil => simp [insert, dursOf]
  | cons g gs ih =>
    by_cases h : g.key = keyOf s
    · by_cases hk : keyOf s = k
      · have : g.key = k := h.trans hk
        simp [insert, dursOf, h, hk]
      · have : ¬ g.key = k := fun e => hk (h.symm.trans e)
        simp [insert, dursOf, h, hk]
    · by_cases hk : keyOf s = k
      · have : ¬ g.key = k := fun e => h (e.trans hk.symm)
        simp [insert, dursOf, hk, this, ih]
      · simp [insert, dursOf, h, hk, ih]

theorem dursOf_foldl (k : Key) (sl : List Sl) (gs : List Grp) :
    dursOf k (sl.foldl insert gs) =
      dursOf k gs ++ (sl.filter (fun s => keyOf s = k)).map (fun s => s.dur) := by
  induction sl generalizing gs with
  | nil => simp
  | cons s sl ih =>
    simp only [List.foldl_cons, ih, dursOf_insert]
    by_cases hk : keyOf s = k <;> simp [hk]

theorem keys_insert (gs : List Grp) (s : Sl) :
    keys (insert gs s) = if keyOf s ∈ keys gs then keys gs else keys gs ++ [keyOf s] := by
  induction gs with
  | nil => simp [insert, keys]
  | cons g gs ih =>
    by_cases h : g.key = keyOf s
    · simp [insert, keys, h]
    · have h' : ¬ keyOf s = g.key := fun e => h e.symm
      have e1 : keys (insert (g :: gs) s) = g.key :: keys (insert gs s) := by simp [insert, h, keys]
      have e2 : keys (g :: gs) = g.key :: keys gs := rfl
      rw [e1, ih, e2]
      by_cases hm : keyOf s ∈ keys gs
      · simp [hm]
      · simp [hm, h']

theorem mem_keys_insert (gs : List Grp) (s : Sl) (k : Key) :
    k ∈ keys (insert gs s) ↔ k = keyOf s ∨ k ∈ keys gs := by
  rw [keys_insert]
  split
  · constructor
    · exact Or.inr
    · rintro (h | h)
      · subst h; assumption
      · exact h
  · simp [or_comm]

theorem nodup_keys_insert (gs : List Grp) (s : Sl) (h : (keys gs).Nodup) :
    (keys (insert gs s)).Nodup := by
  rw [keys_insert]
  split
  · exact h
  · rename_i hn
    exact List.nodup_append.mpr ⟨h, by simp, by
      intro a ha b hb
      simp at hb
      subst hb
      exact fun e => hn (e ▸ ha)⟩

theorem nodup_keys_foldl (sl : List Sl) (gs : List Grp) (h : (keys gs).Nodup) :
    (keys (sl.foldl insert gs)).Nodup := by
  induction sl generalizing gs with
  | nil => exact h
  | cons s sl ih => exact ih _ (nodup_keys_insert gs s h)

theorem mem_keys_foldl (sl : List Sl) (gs : List Grp) (k : Key) :
    k ∈ keys (sl.foldl insert gs) ↔ k ∈ keys gs ∨ ∃ s ∈ sl, keyOf s = k := by
  induction sl generalizing gs with
  | nil => simp
  | cons s sl ih =>
    simp only [List.foldl_cons, ih, mem_keys_insert, List.mem_cons, exists_eq_or_imp]
    constructor
    · rintro ((h | h) | h)
      · exact Or.inr (Or.inl h.symm)
      · exact Or.inl h
      · exact Or.inr (Or.inr h)
    · rintro (h | h | h)
      · exact Or.inl (Or.inr h)
      · exact Or.inl (Or.inl h.symm)
      · exact Or.inr h

theorem dursOf_of_mem (gs : List Grp) (h : (keys gs).Nodup) (g : Grp) (hg : g ∈ gs) :
    dursOf g.key gs = g.durs := by
  induction gs with
  | nil => simp at hg
  | cons g' gs ih =>
    simp only [keys, List.map_cons, List.nodup_cons] at h
    rcases List.mem_cons.mp hg with rfl | hmem
    · simp [dursOf]
    · have hne : ¬ g'.key = g.key := by
        intro e
        exact h.1 (e ▸ List.mem_map_of_mem (f := fun g => g.key) hmem)
      simp only [dursOf, hne, if_false]
      exact ih h.2 hmem

/-- additive measures of the groups (`length`, `sum`) grow by exactly the new slice's contribution, in
the groups selected by any predicate on the pid -/
theorem measure_insert {β : Type} [AddCommMonoid β] (μ : List Rat → β) (ν : Rat → β)
    (h0 : μ [] = 0) (hμ : ∀ l x, μ (l ++ [x]) = μ l + ν x) (q : Int → Bool) (gs : List Grp) (s : Sl) :
    (((insert gs s).filter (fun g => q g.key.2)).map (fun g => μ g.durs)).sum =
      ((gs.filter (fun g => q g.key.2)).map (fun g => μ g.durs)).sum + (if q s.pid then ν s.dur else 0) := by
  have h1 : ∀ x, μ [x] = ν x := fun x => by simpa [h0] using hμ [] x
  induction gs with
  | nil =>
    by_cases hq : q s.pid <;> simp [insert, keyOf, hq, h1]
  | cons g gs ih =>
    by_cases h : g.key = keyOf s
    · have hp : g.key.2 = s.pid := by rw [h]; rfl
      by_cases hq : q s.pid
      · simp [insert, h, hq, hμ, keyOf, add_assoc, add_comm (ν s.dur)]
      · simp [insert, h, hq, keyOf]
    · by_cases hg : q g.key.2
      · simp [insert, h, hg, ih, add_assoc]
      · simp [insert, h, hg, ih]

theorem measure_foldl {β : Type} [AddCommMonoid β] (μ : List Rat → β) (ν : Rat → β)
    (h0 : μ [] = 0) (hμ : ∀ l x, μ (l ++ [x]) = μ l + ν x) (q : Int → Bool) (sl : List Sl) (gs : List Grp) :
    (((sl.foldl insert gs).filter (fun g => q g.key.2)).map (fun g => μ g.durs)).sum =
      ((gs.filter (fun g => q g.key.2)).map (fun g => μ g.durs)).sum +
        ((sl.filter (fun s => q s.pid)).map (fun s => ν s.dur)).sum := by
  induction sl generalizing gs with
  | nil => simp
  | cons s sl ih =>
    simp only [List.foldl_cons, ih, measure_insert μ ν h0 hμ]
    by_cases hq : q s.pid <;> simp [hq, add_assoc]

/-! ### pids: `sorted(stats_list)` -/

theorem mem_insPid (p x : Int) (l : List Int) : x ∈ insPid p l ↔ x = p ∨ x ∈ l := by
  induction l with
  | nil => simp [insPid]
  | cons q qs ih =>
    simp only [insPid]
    split
    · simp
    · split
      · rename_i h; subst h; simp
      · simp [ih]; tauto

theorem pairwise_insPid (p : Int) (l : List Int) (h : l.Pairwise (· < ·)) :
    (insPid p l).Pairwise (· < ·) := by
  induction l with
  | nil => simp [insPid]
  | cons q qs ih =>
    rw [List.pairwise_cons] at h
    simp only [insPid]
    split
    · rename_i hpq
      refine List.pairwise_cons.mpr ⟨?_, List.pairwise_cons.mpr h⟩
      intro y hy
      rcases List.mem_cons.mp hy with rfl | hy
      · exact hpq
      · exact lt_trans hpq (h.1 y hy)
    · split
      · exact List.pairwise_cons.mpr h
      · rename_i h1 h2
        refine List.pairwise_cons.mpr ⟨?_, ih h.2⟩
        intro y hy
        rcases (mem_insPid p y qs).mp hy with rfl | hy
        · omega
        · exact h.1 y hy

theorem mem_pidsOf (x : Int) (l : List Int) : x ∈ pidsOf l ↔ x ∈ l := by
  induction l with
  | nil => simp [pidsOf]
  | cons a l ih =>
    have : pidsOf (a :: l) = insPid a (pidsOf l) := rfl
    rw [this, mem_insPid, ih]; simp

theorem pairwise_pidsOf (l : List Int) : (pidsOf l).Pairwise (· < ·) := by
  induction l with
  | nil => simp [pidsOf]
  | cons a l ih => exact pairwise_insPid a _ ih

theorem nodup_pidsOf (l : List Int) : (pidsOf l).Nodup :=
  (pairwise_pidsOf l).imp (fun h => ne_of_lt h)

/-! ### the summary rows are the groups, regrouped by pid -/

theorem flatMap_filter_perm (ps : List Int) (hnd : ps.Nodup) (gs : List Grp)
    (hall : ∀ g ∈ gs, g.key.2 ∈ ps) :
    (ps.flatMap (fun p => gs.filter (fun g => g.key.2 = p))).Perm gs := by
  induction ps generalizing gs with
  | nil =>
    have : gs = [] := List.eq_nil_iff_forall_not_mem.mpr (fun g hg => by simpa using hall g hg)
    simp [this]
  | cons q qs ih =>
    rw [List.nodup_cons] at hnd
    let gs' := gs.filter (fun g => !decide (g.key.2 = q))
    have hcongr : qs.flatMap (fun p => gs.filter (fun g => g.key.2 = p)) =
        qs.flatMap (fun p => gs'.filter (fun g => g.key.2 = p)) := by
      apply List.flatMap_congr
      intro p hp
      have hpq : p ≠ q := fun e => hnd.1 (e ▸ hp)
      simp only [gs', List.filter_filter]
      apply List.filter_congr
      intro g _
      by_cases hg : g.key.2 = p
      · have : ¬ g.key.2 = q := fun e => hpq (hg.symm.trans e)
        simp [hg, hpq]
      · simp [hg]
    have hall' : ∀ g ∈ gs', g.key.2 ∈ qs := by
      intro g hg
      simp only [gs', List.mem_filter] at hg
      have := hall g hg.1
      rcases List.mem_cons.mp this with h | h
      · simp [h] at hg
      · exact h
    have h1 := ih hnd.2 gs' hall'
    simp only [List.flatMap_cons]
    rw [hcongr]
    exact (List.Perm.append_left _ h1).trans (List.filter_append_perm _ gs)

def rowOf (gs : List Grp) (g : Grp) : Row := mkRow (pidTotal gs g.key.2) g

theorem mem_pids_of_mem (gs : List Grp) (g : Grp) (hg : g ∈ gs) :
    g.key.2 ∈ pidsOf (gs.map (fun g => g.key.2)) :=
  (mem_pidsOf _ _).mpr (List.mem_map_of_mem (f := fun g => g.key.2) hg)

theorem rowsOfPid_perm (gs : List Grp) (p : Int) :
    (rowsOfPid gs p).Perm ((groupsOf gs p).map (rowOf gs)) := by
  have hc : rowsOfPid gs p = ((groupsOf gs p).mergeSort geTotal).map (rowOf gs) := by
    apply List.map_congr_left
    intro g hg
    have hg' : g ∈ groupsOf gs p := List.mem_mergeSort.mp hg
    have : g.key.2 = p := by simpa [groupsOf] using (List.mem_filter.mp hg').2
    simp [rowOf, this]
  rw [hc]
  exact (List.mergeSort_perm _ _).map _

theorem summaryRows_perm (gs : List Grp) : (summaryRows gs).Perm (gs.map (rowOf gs)) := by
  have h1 : (summaryRows gs).Perm
      ((pidsOf (gs.map (fun g => g.key.2))).flatMap (fun p => (groupsOf gs p).map (rowOf gs))) :=
    List.Perm.flatMap_left _ (fun p _ => rowsOfPid_perm gs p)
  have h2 : (pidsOf (gs.map (fun g => g.key.2))).flatMap (fun p => (groupsOf gs p).map (rowOf gs)) =
      ((pidsOf (gs.map (fun g => g.key.2))).flatMap (groupsOf gs)).map (rowOf gs) := by
    rw [List.map_flatMap]
  have h3 := flatMap_filter_perm _ (nodup_pidsOf (gs.map (fun g => g.key.2))) gs (mem_pids_of_mem gs)
  exact h1.trans (h2 ▸ (h3.map (rowOf gs)))

/-- `total_times[pid]` is the sum of the durations of the slices of that pid -/
theorem pidTotal_collect (sl : List Sl) (p : Int) :
    pidTotal (collect sl) p = ((sl.filter (fun s => s.pid = p)).map (fun s => s.dur)).sum := by
  have := measure_foldl (β := Rat) List.sum id rfl (fun l x => by simp) (fun x => decide (x = p)) sl []
  simpa [pidTotal, groupsOf, collect] using this

/-! ### min / max / mean -/

theorem foldl_min_le (l : List Rat) (a : Rat) : l.foldl min a ≤ a ∧ ∀ x ∈ l, l.foldl min a ≤ x := by
  induction l generalizing a with
  | nil => simp
  | cons y l ih =>
    obtain ⟨h1, h2⟩ := ih (min a y)
    refine ⟨le_trans h1 (min_le_left _ _), ?_⟩
    intro x hx
    rcases List.mem_cons.mp hx with rfl | hx
    · exact le_trans h1 (min_le_right _ _)
    · exact h2 x hx

theorem foldl_min_mem (l : List Rat) (a : Rat) : l.foldl min a = a ∨ l.foldl min a ∈ l := by
  induction l generalizing a with
  | nil => simp
  | cons y l ih =>
    rcases ih (min a y) with h | h
    · rcases min_choice a y with e | e
      · left; simpa [e] using h
      · right
        rw [e] at h
        simp [List.foldl_cons, e, h]
    · right; simp [h]

theorem le_foldl_max (l : List Rat) (a : Rat) : a ≤ l.foldl max a ∧ ∀ x ∈ l, x ≤ l.foldl max a := by
  induction l generalizing a with
  | nil => simp
  | cons y l ih =>
    obtain ⟨h1, h2⟩ := ih (max a y)
    refine ⟨le_trans (le_max_left _ _) h1, ?_⟩
    intro x hx
    rcases List.mem_cons.mp hx with rfl | hx
    · exact le_trans (le_max_right _ _) h1
    · exact h2 x hx

theorem foldl_max_mem (l : List Rat) (a : Rat) : l.foldl max a = a ∨ l.foldl max a ∈ l := by
  induction l generalizing a with
  | nil => simp
  | cons y l ih =>
    rcases ih (max a y) with h | h
    · rcases max_choice a y with e | e
      · left; simpa [e] using h
      · right
        rw [e] at h
        simp [List.foldl_cons, e, h]
    · right; simp [h]

theorem minL_le (l : List Rat) : ∀ x ∈ l, minL l ≤ x := by
  cases l with
  | nil => simp
  | cons a t =>
    intro x hx
    have := foldl_min_le (a :: t) a
    exact this.2 x hx

theorem minL_mem (l : List Rat) (h : l ≠ []) : minL l ∈ l := by
  cases l with
  | nil => exact absurd rfl h
  | cons a t =>
    rcases foldl_min_mem (a :: t) a with e | e
    · have h2 : minL (a :: t) = a := e
      rw [h2]; simp
    · exact e

theorem le_maxL (l : List Rat) : ∀ x ∈ l, x ≤ maxL l := by
  cases l with
  | nil => simp
  | cons a t =>
    intro x hx
    exact (le_foldl_max (a :: t) a).2 x hx

theorem maxL_mem (l : List Rat) (h : l ≠ []) : maxL l ∈ l := by
  cases l with
  | nil => exact absurd rfl h
  | cons a t =>
    rcases foldl_max_mem (a :: t) a with e | e
    · have h2 : maxL (a :: t) = a := e
      rw [h2]; simp
    · exact e

theorem sum_ge_of_forall_ge (l : List Rat) (m : Rat) (h : ∀ x ∈ l, m ≤ x) :
    (l.length : Rat) * m ≤ l.sum := by
  induction l with
  | nil => simp
  | cons a t ih =>
    have h1 := h a (by simp)
    have h2 := ih (fun x hx => h x (by simp [hx]))
    simp only [List.length_cons, List.sum_cons, Nat.cast_add, Nat.cast_one]
    linarith

theorem sum_le_of_forall_le (l : List Rat) (m : Rat) (h : ∀ x ∈ l, x ≤ m) :
    l.sum ≤ (l.length : Rat) * m := by
  induction l with
  | nil => simp
  | cons a t ih =>
    have h1 := h a (by simp)
    have h2 := ih (fun x hx => h x (by simp [hx]))
    simp only [List.length_cons, List.sum_cons, Nat.cast_add, Nat.cast_one]
    linarith

theorem length_pos_rat (l : List Rat) (h : l ≠ []) : (0 : Rat) < (l.length : Rat) := by
  have := List.length_pos_iff.mpr h
  exact_mod_cast this

/-! ### median -/

theorem leRat_trans (a b c : Rat) : leRat a b = true → leRat b c = true → leRat a c = true := by
  simp only [leRat, decide_eq_true_eq]; exact le_trans

theorem leRat_total (a b : Rat) : (leRat a b || leRat b a) = true := by
  simp only [leRat, Bool.or_eq_true, decide_eq_true_eq]; exact le_total a b

theorem sortAsc_perm (l : List Rat) : (sortAsc l).Perm l := List.mergeSort_perm _ _

theorem sortAsc_mono (l : List Rat) (i j : Nat) (hi : i < (sortAsc l).length) (hj : j < (sortAsc l).length)
    (hij : i ≤ j) : (sortAsc l)[i] ≤ (sortAsc l)[j] := by
  have hp : (sortAsc l).Pairwise (fun a b => a ≤ b) :=
    (List.pairwise_mergeSort leRat_trans leRat_total l).imp (by simp [leRat])
  rcases Nat.lt_or_eq_of_le hij with h | h
  · exact List.pairwise_iff_getElem.mp hp i j hi hj h
  · subst h; exact le_refl _

theorem getD_sort (s : List Rat) (i : Nat) (h : i < s.length) : s.getD i 0 = s[i] :=
  (List.getElem_eq_getD 0).symm

theorem countP_ge_prefix (s : List Rat) (p : Rat → Bool) (k : Nat) (hk : k ≤ s.length)
    (h : ∀ i (hi : i < s.length), i < k → p s[i] = true) : k ≤ s.countP p := by
  have e : s = s.take k ++ s.drop k := (List.take_append_drop k s).symm
  have h1 : (s.take k).countP p = (s.take k).length := by
    rw [List.countP_eq_length]
    intro x hx
    obtain ⟨i, hi, rfl⟩ := List.getElem_of_mem hx
    rw [List.getElem_take]
    have hi' : i < min k s.length := by simpa [List.length_take] using hi
    exact h i (by omega) (by omega)
  have h2 : (s.take k).length = k := by simp [List.length_take]; omega
  rw [e, List.countP_append, h1, h2]
  omega

theorem countP_ge_suffix (s : List Rat) (p : Rat → Bool) (k : Nat)
    (h : ∀ i (hi : i < s.length), k ≤ i → p s[i] = true) : s.length - k ≤ s.countP p := by
  have e : s = s.take k ++ s.drop k := (List.take_append_drop k s).symm
  have h1 : (s.drop k).countP p = (s.drop k).length := by
    rw [List.countP_eq_length]
    intro x hx
    obtain ⟨i, hi, rfl⟩ := List.getElem_of_mem hx
    rw [List.getElem_drop]
    have hi' : i < s.length - k := by simpa [List.length_drop] using hi
    exact h (k + i) (by omega) (by omega)
  have h2 : (s.drop k).length = s.length - k := List.length_drop
  have h3 : s.countP p = (s.take k).countP p + (s.drop k).countP p := by
    conv_lhs => rw [e]
    exact List.countP_append
  rw [h3, h1, h2]
  omega

theorem median_odd (l : List Rat) (h : (sortAsc l).length % 2 = 1) :
    median l = (sortAsc l).getD ((sortAsc l).length / 2) 0 := by
  simp [median, h]

theorem median_even (l : List Rat) (h : ¬ (sortAsc l).length % 2 = 1) :
    median l = ((sortAsc l).getD ((sortAsc l).length / 2 - 1) 0 + (sortAsc l).getD ((sortAsc l).length / 2) 0) / 2 := by
  simp [median, h]

/-- the median lies between the two middle elements of the sorted list (which coincide for odd length) -/
theorem median_mid (l : List Rat) (h : l ≠ []) :
    ∃ (a b : Nat) (ha : a < (sortAsc l).length) (hb : b < (sortAsc l).length),
      a ≤ b ∧ 2 * (a + 1) ≥ (sortAsc l).length ∧ 2 * ((sortAsc l).length - b) ≥ (sortAsc l).length ∧
      (sortAsc l)[a] ≤ median l ∧ median l ≤ (sortAsc l)[b] := by
  have hlen : (sortAsc l).length = l.length := (sortAsc_perm l).length_eq
  have hpos : 0 < (sortAsc l).length := by rw [hlen]; exact List.length_pos_iff.mpr h
  by_cases hodd : (sortAsc l).length % 2 = 1
  · have hm : (sortAsc l).length / 2 < (sortAsc l).length := by omega
    refine ⟨_, _, hm, hm, le_refl _, by omega, by omega, ?_, ?_⟩ <;>
      rw [median_odd l hodd, getD_sort _ _ hm]
  · have hb : (sortAsc l).length / 2 < (sortAsc l).length := by omega
    have ha : (sortAsc l).length / 2 - 1 < (sortAsc l).length := by omega
    have hab := sortAsc_mono l _ _ ha hb (by omega)
    refine ⟨_, _, ha, hb, by omega, by omega, by omega, ?_, ?_⟩ <;>
      rw [median_even l hodd, getD_sort _ _ ha, getD_sort _ _ hb] <;> linarith

end AiuVerif.Stats
