/- Helper lemmas about the mp_sync model (C07). -/
import AiuVerif.Model.MpSync
import Mathlib.Data.List.Forall2

namespace AiuVerif
namespace MpSync

/-! ### `Except` plumbing -/

theorem mapM_ok_forall₂ {α β : Type} {f : α → Except String β} :
    ∀ {l : List α} {l' : List β}, l.mapM f = .ok l' → List.Forall₂ (fun a b => f a = .ok b) l l'
  | [], l', h => by
    simp only [List.mapM_nil, pure, Except.pure] at h
    cases h; exact List.Forall₂.nil
  | a :: l, l', h => by
    rw [List.mapM_cons] at h
    cases hfa : f a with
    | error e => simp [hfa, bind, Except.bind] at h
    | ok b =>
      cases hl : l.mapM f with
      | error e => simp [hfa, hl, bind, Except.bind] at h
      | ok bs =>
        simp only [hfa, hl, bind, Except.bind, pure, Except.pure] at h
        cases h
        exact List.Forall₂.cons hfa (mapM_ok_forall₂ hl)

theorem forall₂_mapM_ok {α β : Type} {f : α → Except String β} :
    ∀ {l : List α} {l' : List β}, List.Forall₂ (fun a b => f a = .ok b) l l' → l.mapM f = .ok l'
  | _, _, .nil => by simp [pure, Except.pure]
  | _, _, .cons h t => by
    rw [List.mapM_cons, h, forall₂_mapM_ok t]; rfl

/-! ### `alter`: one event -/

/-- `args["ts_dev"]` when present -/
def tsDevOf (e : MEv) : Option (List Rat) := e.args.bind (·.tsDev)

theorem alter_host {c : Calib} {e e' : MEv} (h : alter c e = .ok e') (hd : isDev e = false) : e' = e := by
  unfold alter at h
  unfold isDev at hd
  cases ha : e.args with
  | none => simp [ha] at h
  | some a =>
    simp only [ha] at h hd
    simp only [hd] at h
    simpa using h.symm

theorem alter_dev {c : Calib} {e e' : MEv} (h : alter c e = .ok e') (hd : isDev e = true) :
    ∃ a l s t, e.args = some a ∧ a.tsDev = some l ∧ pyIdx c.shifts e.pid = some s ∧
      l[opId e.name]? = some t ∧
      e' = { e with ts := t + s + c.ref,
                    args := some { a with tsDev := some (l.map (· + s)),
                                          tsAll := some ((l.map (· + s)).map (· + c.ref)) } } := by
  unfold alter at h
  unfold isDev at hd
  cases ha : e.args with
  | none => simp [ha] at h
  | some a =>
    simp only [ha] at h hd
    simp only [hd, if_true] at h
    cases hl : a.tsDev with
    | none => simp [hl] at h
    | some l =>
      simp only [hl] at h
      cases hs : pyIdx c.shifts e.pid with
      | none => simp [hs] at h
      | some s =>
        simp only [hs] at h
        cases ht : l[opId e.name]? with
        | none => simp [List.getElem?_map, ht] at h
        | some t =>
          simp only [List.getElem?_map, ht, Option.map_some] at h
          refine ⟨a, l, s, t, rfl, hl, rfl, ht, ?_⟩
          cases h; simp [hd]

/-! ### `mpSyncG`: the two branches of `drain` -/

theorem mpSyncG_noact {rf : Rat → Rat → Rat → Rat} {evs : List MEv} (h : acts evs = false) :
    mpSyncG rf evs = .ok (sortOut evs.reverse) := by
  simp [mpSyncG, h, bind, Except.bind, pure, Except.pure]

theorem mpSyncG_act {rf : Rat → Rat → Rat → Rat} {evs out : List MEv} (hact : acts evs = true)
    (h : mpSyncG rf evs = .ok out) :
    ∃ c evs', calibrateG rf evs = .ok c ∧ evs.mapM (alter c) = .ok evs' ∧ out = sortOut evs'.reverse := by
  unfold mpSyncG at h
  simp only [hact, if_true] at h
  cases hc : calibrateG rf evs with
  | error e => simp [hc, bind, Except.bind] at h
  | ok c =>
    cases hm : evs.mapM (alter c) with
    | error e => simp [hc, hm, bind, Except.bind] at h
    | ok evs' =>
      simp only [hc, hm, bind, Except.bind, pure, Except.pure] at h
      cases h
      exact ⟨c, evs', rfl, hm, rfl⟩

theorem insertTs_perm (e : MEv) : ∀ l : List MEv, (insertTs e l).Perm (e :: l)
  | [] => by simp [insertTs]
  | x :: xs => by
    simp only [insertTs]
    split
    · exact List.Perm.refl _
    · exact ((insertTs_perm e xs).cons x).trans (List.Perm.swap e x xs)

theorem sortOut_perm : ∀ l : List MEv, (sortOut l).Perm l
  | [] => by simp [sortOut]
  | x :: xs => by
    have ih := sortOut_perm xs
    simp only [sortOut, List.foldr_cons] at ih ⊢
    exact (insertTs_perm x _).trans (ih.cons x)

theorem insertTs_sorted (e : MEv) : ∀ l : List MEv, l.Pairwise (fun a b => a.ts ≤ b.ts) →
    (insertTs e l).Pairwise (fun a b => a.ts ≤ b.ts)
  | [], _ => by simp [insertTs]
  | x :: xs, h => by
    simp only [insertTs]
    rw [List.pairwise_cons] at h
    split
    · rename_i hle
      refine List.Pairwise.cons ?_ (List.Pairwise.cons h.1 h.2)
      intro y hy
      rcases List.mem_cons.mp hy with rfl | hy
      · exact hle
      · exact Rat.le_trans hle (h.1 y hy)
    · rename_i hnle
      refine List.Pairwise.cons ?_ (insertTs_sorted e xs h.2)
      intro y hy
      rcases List.mem_cons.mp ((insertTs_perm e xs).subset hy) with rfl | hy
      · rcases Rat.le_total (a := x.ts) (b := y.ts) with h1 | h1
        · exact h1
        · exact absurd h1 hnle
      · exact h.1 y hy

theorem sortOut_sorted : ∀ l : List MEv, (sortOut l).Pairwise (fun a b => a.ts ≤ b.ts)
  | [] => by simp [sortOut]
  | x :: xs => by
    have ih := sortOut_sorted xs
    simp only [sortOut, List.foldr_cons] at ih ⊢
    exact insertTs_sorted x _ ih

/-- sorting commutes with any relabelling that keeps the keys -/
theorem insertTs_map (f : MEv → MEv) (hf : ∀ e, (f e).ts = e.ts) (e : MEv) :
    ∀ l : List MEv, insertTs (f e) (l.map f) = (insertTs e l).map f
  | [] => by simp [insertTs]
  | x :: xs => by
    simp only [List.map_cons, insertTs, hf]
    split
    · simp
    · simp [insertTs_map f hf e xs]

theorem sortOut_map (f : MEv → MEv) (hf : ∀ e, (f e).ts = e.ts) :
    ∀ l : List MEv, sortOut (l.map f) = (sortOut l).map f
  | [] => by simp [sortOut]
  | x :: xs => by
    have ih := sortOut_map f hf xs
    simp only [sortOut, List.map_cons, List.foldr_cons] at ih ⊢
    rw [ih, insertTs_map f hf]

/-! ### when `drain` takes no action -/

theorem distinct_foldl_all_eq {α : Type} [DecidableEq α] (p : α) :
    ∀ (l : List α) (acc : List α), (∀ x ∈ l, x = p) → (acc = [] ∨ acc = [p]) →
      (l.foldl (fun acc x => if x ∈ acc then acc else acc ++ [x]) acc = [] ∨
       l.foldl (fun acc x => if x ∈ acc then acc else acc ++ [x]) acc = [p])
  | [], acc, _, hacc => by simpa using hacc
  | x :: l, acc, h, hacc => by
    have hx : x = p := h x (by simp)
    subst hx
    simp only [List.foldl_cons]
    apply distinct_foldl_all_eq x l _ (fun y hy => h y (by simp [hy]))
    rcases hacc with h0 | h1
    · subst h0; simp
    · subst h1; simp

theorem distinct_all_eq_length {α : Type} [DecidableEq α] (l : List α) (p : α) (h : ∀ x ∈ l, x = p) :
    (distinct l).length ≤ 1 := by
  rcases distinct_foldl_all_eq p l [] h (Or.inl rfl) with h0 | h1
  · simp [distinct, h0]
  · simp [distinct, h1]

theorem collKey_pid {e : MEv} {k : Int × String} (h : collKey e = some k) : k.1 = e.pid := by
  unfold collKey at h
  split at h
  · cases ha : e.args with
    | none => simp [ha] at h
    | some a =>
      simp only [ha] at h
      cases hg : a.cg with
      | none => simp [hg] at h
      | some g => simp [hg] at h; rw [← h]
  · simp at h

/-- all events on one pid: fewer than two ranks, so `drain` does nothing -/
theorem acts_false_of_single_pid {evs : List MEv} (p : Int) (h : ∀ e ∈ evs, e.pid = p) : acts evs = false := by
  have hlen : (procIds evs).length ≤ 1 := by
    apply distinct_all_eq_length _ p
    intro x hx
    simp only [List.mem_map, List.mem_filterMap] at hx
    obtain ⟨k, ⟨e, he, hk⟩, rfl⟩ := hx
    rw [collKey_pid hk, h e he]
  simp only [acts, Bool.and_eq_false_iff, decide_eq_false_iff_not]
  right; omega

/-- no collective event at all: no group, so `drain` does nothing -/
theorem acts_false_of_collective_free {evs : List MEv} (h : ∀ e ∈ evs, collKey e = none) : acts evs = false := by
  have hnil : evs.filterMap collKey = [] := by
    rw [List.filterMap_eq_nil_iff]; exact h
  simp [acts, collGroups, hnil, distinct]

end MpSync
end AiuVerif
