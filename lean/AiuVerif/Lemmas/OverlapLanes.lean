/- Helper lemmas for C04: the tid a slice ends up on is reachable from its own tid through
`find_next_tid`, hence (with `Lemmas/OverlapSpace`) inside the family of its input lane. Core only. -/
import AiuVerif.Lemmas.Overlap
import AiuVerif.Lemmas.OverlapSpace
import AiuVerif.Model.OverlapSort
import AiuVerif.Lemmas.OverlapNoAssert

namespace AiuVerif.Overlap

theorem detect_tid_reach (next : Nat → Nat → Option Nat) :
    ∀ (fuel : Nat) (st : Lanes) (ev : Ev) (st' : Lanes) (out : List Ev),
      detect .tid next fuel st ev = .ok (st', out) →
        ∃ t, out = [{ ev with tid := t }] ∧ Reach (next ev.pid) ev.tid t := by
  intro fuel
  induction fuel with
  | zero =>
    intro st ev st' out h
    unfold detect at h
    simp only [] at h
    split at h
    · cases h
    split at h
    · cases h
    split at h
    · injection h with h; injection h with h1 h2; subst h2; exact ⟨ev.tid, rfl, Reach.refl _⟩
    split at h
    · split at h
      · cases h
      · cases h
    · injection h with h; injection h with h1 h2; subst h2; exact ⟨ev.tid, rfl, Reach.refl _⟩
  | succ fuel ih =>
    intro st ev st' out h
    unfold detect at h
    simp only [] at h
    split at h
    · cases h
    split at h
    · cases h
    split at h
    · injection h with h; injection h with h1 h2; subst h2; exact ⟨ev.tid, rfl, Reach.refl _⟩
    split at h
    · split at h
      · cases h
      rename_i t ht
      split at h
      · cases h
      rename_i st1 out1 hrec
      injection h with h; injection h with h1 h2; subst h2
      obtain ⟨t', ht', hreach⟩ := ih st _ st1 _ hrec
      exact ⟨t', ht', Reach.step ht hreach⟩
    · injection h with h; injection h with h1 h2; subst h2; exact ⟨ev.tid, rfl, Reach.refl _⟩

/-- input and output of the `-O tid` stage side by side -/
theorem detectAll_tid_zip (next : Nat → Nat → Option Nat) (fuel : Nat) :
    ∀ (evs : List Ev) (st st' : Lanes) (out : List Ev),
      detectAll .tid next fuel st evs = .ok (st', out) →
      ∀ p ∈ evs.zip out, p.2.pid = p.1.pid ∧ p.2.isX = p.1.isX ∧ Reach (next p.1.pid) p.1.tid p.2.tid ∧
        p.2 = { p.1 with tid := p.2.tid } := by
  intro evs
  induction evs with
  | nil => intro st st' out h p hp; simp at hp
  | cons ev rest ih =>
    intro st st' out h
    simp only [detectAll] at h
    split at h
    · cases h
    rename_i st1 out1 hstep
    split at h
    · cases h
    rename_i st2 out2 hrest
    injection h with h; injection h with h1 h2; subst h2
    have hr := ih st1 st2 out2 hrest
    unfold step at hstep
    split at hstep
    · obtain ⟨t, ht, hreach⟩ := detect_tid_reach next fuel st ev st1 out1 hstep
      subst ht
      intro p hp
      simp only [List.singleton_append, List.zip_cons_cons, List.mem_cons] at hp
      rcases hp with hp | hp
      · subst hp; exact ⟨rfl, rfl, hreach, rfl⟩
      · exact hr p hp
    · injection hstep with hstep; injection hstep with h1 h2; subst h2
      intro p hp
      simp only [List.singleton_append, List.zip_cons_cons, List.mem_cons] at hp
      rcases hp with hp | hp
      · subst hp; exact ⟨rfl, rfl, Reach.refl _, rfl⟩
      · exact hr p hp

/-- the families of the really built tid space are disjoint (`owns_unique`) -/
theorem famDisj_built (n : Nat) (evs : List Ev) : FamDisj (nextOf (buildSpaces n evs)) evs := by
  intro a ha b hb hxa hxb hp t hra hrb
  have hma := seenOf_foldl_mem evs [] a ha hxa
  have hmb := seenOf_foldl_mem evs [] b hb hxb
  rw [← hp] at hmb
  have hnx := nextOf_buildSpaces n evs a.pid
  exact owns_unique (owns_reach hnx (owns_self hma) hra) (owns_reach hnx (owns_self hmb) hrb)

theorem reach_none {nx : Nat → Option Nat} (h : ∀ t, nx t = none) {a t : Nat} (hr : Reach nx a t) :
    t = a := by
  cases hr with
  | refl => rfl
  | step hs _ => rw [h] at hs; cases hs

/-- with no tid space (-O drop) a family is the lane itself -/
theorem famDisj_nil (evs : List Ev) : FamDisj (nextOf []) evs := by
  intro a _ b _ _ _ _ t hra hrb
  have h0 : ∀ p t, nextOf [] p t = none := fun _ _ => rfl
  rw [← reach_none (h0 _) hra, ← reach_none (h0 _) hrb]

/-- -O drop never reaches `find_next_tid`: its only error results are the two asserts -/
theorem detect_drop_err (next : Nat → Nat → Option Nat) (fuel : Nat) (st : Lanes) (ev : Ev) (e : Err)
    (h : detect .drop next fuel st ev = .error e) : e = .assertOrder ∨ e = .assertState := by
  unfold detect at h
  simp only [] at h
  split at h
  · injection h with h; exact Or.inl h.symm
  split at h
  · injection h with h; exact Or.inr h.symm
  split at h
  · cases h
  split at h
  · cases h
  · cases h

theorem detectAll_drop_err (next : Nat → Nat → Option Nat) (fuel : Nat) :
    ∀ (evs : List Ev) (st : Lanes) (e : Err),
      detectAll .drop next fuel st evs = .error e → e = .assertOrder ∨ e = .assertState := by
  intro evs
  induction evs with
  | nil => intro st e h; simp [detectAll] at h
  | cons ev rest ih =>
    intro st e h
    simp only [detectAll] at h
    split at h
    · rename_i e' hstep
      injection h with h; subst h
      unfold step at hstep
      split at hstep
      · exact detect_drop_err next fuel st ev _ hstep
      · cases hstep
    · split at h
      · rename_i e' hrest
        injection h with h; subst h
        exact ih _ _ hrest
      · cases h

end AiuVerif.Overlap
