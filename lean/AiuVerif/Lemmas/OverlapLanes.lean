/- Helper lemmas for C04: the tid a slice ends up on is reachable from its own tid through
`find_next_tid`, hence (with `Lemmas/OverlapSpace`) inside the family of its input lane. Core only. -/
import AiuVerif.Lemmas.Overlap
import AiuVerif.Lemmas.OverlapSpace
import AiuVerif.Model.OverlapSort

namespace AiuVerif.Overlap

theorem detect_tid_reach (next : Nat → Nat → Option Nat) :
    ∀ (fuel : Nat) (st : Lanes) (ev : Ev) (st' : Lanes) (out : List Ev),
      detect .tid next fuel st ev = .ok (st', out) →
        ∃ t, out = [{ ev with tid := t }] ∧ Reach (next ev.pid) ev.tid t := by
  intro fuel
  induction fuel with
  | zero =>
    intro st ev st' out h
    unfold detect at h
    simp only [] at h
    split at h
    · cases h
    split at h
    · cases h
    split at h
    · injection h with h; injection h with h1 h2; subst h2; exact ⟨ev.tid, rfl, Reach.refl _⟩
    split at h
    · split at h
      · cases h
      · cases h
    · injection h with h; injection h with h1 h2; subst h2; exact ⟨ev.tid, rfl, Reach.refl _⟩
  | succ fuel ih =>
    intro st ev st' out h
    unfold detect at h
    simp only [] at h
    split at h
    · cases h
    split at h
    · cases h
    split at h
    · injection h with h; injection h with h1 h2; subst h2; exact ⟨ev.tid, rfl, Reach.refl _⟩
    split at h
    · split at h
      · cases h
      rename_i t ht
      split at h
      · cases h
      rename_i st1 out1 hrec
      injection h with h; injection h with h1 h2; subst h2
      obtain ⟨t', ht', hreach⟩ := ih st _ st1 _ hrec
      exact ⟨t', ht', Reach.step ht hreach⟩
    · injection h with h; injection h with h1 h2; subst h2; exact ⟨ev.tid, rfl, Reach.refl _⟩

/-- input and output of the `-O tid` stage side by side -/
theorem detectAll_tid_zip (next : Nat → Nat → Option Nat) (fuel : Nat) :
    ∀ (evs : List Ev) (st st' : Lanes) (out : List Ev),
      detectAll .tid next fuel st evs = .ok (st', out) →
      ∀ p ∈ evs.zip out, p.2.pid = p.1.pid ∧ p.2.isX = p.1.isX ∧ Reach (next p.1.pid) p.1.tid p.2.tid := by
  intro evs
  induction evs with
  | nil => intro st st' out h p hp; simp at hp
  | cons ev rest ih =>
    intro st st' out h
    simp only [detectAll] at h
    split at h
    · cases h
    rename_i st1 out1 hstep
    split at h
    · cases h
    rename_i st2 out2 hrest
    injection h with h; injection h with h1 h2; subst h2
    have hr := ih st1 st2 out2 hrest
    unfold step at hstep
    split at hstep
    · obtain ⟨t, ht, hreach⟩ := detect_tid_reach next fuel st ev st1 out1 hstep
      subst ht
      intro p hp
      simp only [List.singleton_append, List.zip_cons_cons, List.mem_cons] at hp
      rcases hp with hp | hp
      · subst hp; exact ⟨rfl, rfl, hreach⟩
      · exact hr p hp
    · injection hstep with hstep; injection hstep with h1 h2; subst h2
      intro p hp
      simp only [List.singleton_append, List.zip_cons_cons, List.mem_cons] at hp
      rcases hp with hp | hp
      · subst hp; exact ⟨rfl, rfl, Reach.refl _⟩
      · exact hr p hp

end AiuVerif.Overlap
