/- Helper lemmas for C04: the tid ranges built by `_collect_and_build_tid_space` are pairwise
disjoint and disjoint from every seen tid, so following `find_next_tid` never leaves the range
of the lane a slice started on. Core Lean only. -/
import AiuVerif.Model.Overlap

namespace AiuVerif.Overlap

/-! ### association lists (Python dicts) -/

theorem amapGet_amapSet_same {β : Type} (m : List (Nat × β)) (k : Nat) (v : β) :
    amapGet (amapSet m k v) k = some v := by
  induction m with
  | nil => simp [amapSet, amapGet]
  | cons p r ih =>
    obtain ⟨k', v'⟩ := p
    unfold amapSet
    split
    · simp [amapGet]
    · rename_i h; simp [amapGet, h, ih]

theorem amapGet_amapSet_other {β : Type} (m : List (Nat × β)) {k k' : Nat} (v : β) (h : k' ≠ k) :
    amapGet (amapSet m k v) k' = amapGet m k' := by
  induction m with
  | nil => simp [amapSet, amapGet, Ne.symm h]
  | cons p r ih =>
    obtain ⟨k2, v2⟩ := p
    unfold amapSet
    split
    · rename_i h2; subst h2; simp [amapGet, Ne.symm h]
    · simp [amapGet, ih]

theorem amapGet_mem {β : Type} {m : List (Nat × β)} {k : Nat} {v : β} (h : amapGet m k = some v) :
    (k, v) ∈ m := by
  induction m with
  | nil => simp [amapGet] at h
  | cons p r ih =>
    obtain ⟨k', v'⟩ := p
    unfold amapGet at h
    split at h
    · rename_i hk; subst hk; injection h with h; subst h; simp
    · exact List.mem_cons_of_mem _ (ih h)

theorem mem_amapSet {β : Type} {m : List (Nat × β)} {k : Nat} {v : β} {p : Nat × β}
    (h : p ∈ amapSet m k v) : p ∈ m ∨ p = (k, v) := by
  induction m with
  | nil => simp [amapSet] at h; exact Or.inr h
  | cons q r ih =>
    obtain ⟨k', v'⟩ := q
    unfold amapSet at h
    split at h
    · rcases List.mem_cons.mp h with h | h
      · exact Or.inr h
      · exact Or.inl (List.mem_cons_of_mem _ h)
    · rcases List.mem_cons.mp h with h | h
      · exact Or.inl (h ▸ List.mem_cons_self)
      · rcases ih h with h | h
        · exact Or.inl (List.mem_cons_of_mem _ h)
        · exact Or.inr h

theorem amapGet_map {β γ : Type} (f : β → γ) (m : List (Nat × β)) (k : Nat) :
    amapGet (m.map fun x => (x.1, f x.2)) k = (amapGet m k).map f := by
  induction m with
  | nil => simp [amapGet]
  | cons p r ih =>
    obtain ⟨k', v'⟩ := p
    simp only [List.map_cons, amapGet]
    split
    · simp
    · exact ih

/-! ### `_create_tid_space` only returns tids outside `exclude` -/

theorem createLoop_not_mem (excl : List Nat) :
    ∀ (fuel need cur x : Nat), x ∈ createLoop excl fuel need cur → x ∉ excl := by
  intro fuel
  induction fuel with
  | zero => intro need cur x h; simp [createLoop] at h
  | succ fuel ih =>
    intro need cur x h
    cases need with
    | zero => simp [createLoop] at h
    | succ need =>
      unfold createLoop at h
      split at h
      · exact ih _ _ _ h
      · rename_i hne
        rcases List.mem_cons.mp h with h | h
        · subst h; exact hne
        · exact ih _ _ _ h

theorem createSpace_not_mem {n tid : Nat} {excl : List Nat} {x : Nat}
    (h : x ∈ createSpace n tid excl) : x ∉ excl :=
  createLoop_not_mem excl _ _ _ _ h

/-! ### the ranges handed out in one pid -/

/-- the `(tid, tcandidates)` pairs of the build loop, in order -/
def ranges (n : Nat) : List Nat → List Nat → List (Nat × List Nat)
  | [], _ => []
  | tid :: rest, excl =>
    (tid, createSpace n tid excl) :: ranges n rest (excl ++ createSpace n tid excl)

theorem ranges_fresh (n : Nat) : ∀ (seen excl : List Nat) (r : Nat × List Nat),
    r ∈ ranges n seen excl → ∀ x ∈ r.2, x ∉ excl := by
  intro seen
  induction seen with
  | nil => intro excl r h; simp [ranges] at h
  | cons tid rest ih =>
    intro excl r h x hx
    simp only [ranges, List.mem_cons] at h
    rcases h with h | h
    · subst h; exact createSpace_not_mem hx
    · have := ih _ r h x hx
      intro hc; exact this (List.mem_append_left _ hc)

theorem ranges_key_mem (n : Nat) : ∀ (seen excl : List Nat) (r : Nat × List Nat),
    r ∈ ranges n seen excl → r.1 ∈ seen := by
  intro seen
  induction seen with
  | nil => intro excl r h; simp [ranges] at h
  | cons tid rest ih =>
    intro excl r h
    simp only [ranges, List.mem_cons] at h
    rcases h with h | h
    · subst h; simp
    · exact List.mem_cons_of_mem _ (ih _ r h)

theorem ranges_has_key (n : Nat) : ∀ (seen excl : List Nat) (T : Nat),
    T ∈ seen → ∃ c, (T, c) ∈ ranges n seen excl := by
  intro seen
  induction seen with
  | nil => intro excl T h; simp at h
  | cons tid rest ih =>
    intro excl T h
    rcases List.mem_cons.mp h with h | h
    · subst h; exact ⟨createSpace n T excl, by simp [ranges]⟩
    · obtain ⟨c, hc⟩ := ih (excl ++ createSpace n tid excl) T h
      exact ⟨c, by simp [ranges, hc]⟩

def RDisj (r1 r2 : Nat × List Nat) : Prop := ∀ x, x ∈ r1.2 → x ∈ r2.2 → False

theorem ranges_pairwise (n : Nat) : ∀ (seen excl : List Nat), (ranges n seen excl).Pairwise RDisj := by
  intro seen
  induction seen with
  | nil => intro excl; simp [ranges]
  | cons tid rest ih =>
    intro excl
    simp only [ranges]
    refine List.Pairwise.cons ?_ (ih _)
    intro r hr x hx1 hx2
    exact ranges_fresh n _ _ r hr x hx2 (List.mem_append_right _ hx1)

theorem pairwise_forall_ne {α : Type} {R : α → α → Prop} (hs : ∀ a b, R a b → R b a) :
    ∀ {l : List α}, l.Pairwise R → ∀ a ∈ l, ∀ b ∈ l, a ≠ b → R a b := by
  intro l h
  induction h with
  | nil => intro a ha; simp at ha
  | cons hhead _ ih =>
    intro a ha b hb hne
    rcases List.mem_cons.mp ha with ha1 | ha1 <;> rcases List.mem_cons.mp hb with hb1 | hb1
    · exact absurd (ha1.trans hb1.symm) hne
    · rw [ha1]; exact hhead b hb1
    · rw [hb1]; exact hs _ _ (hhead a ha1)
    · exact ih a ha1 b hb1 hne

/-- tid `t` belongs to the lane family of the seen tid `T`: it is `T` itself or one of the
candidates allocated for `T` -/
def Owns (n : Nat) (seen : List Nat) (T t : Nat) : Prop :=
  ∃ c, (T, c) ∈ ranges n seen seen ∧ (t = T ∨ t ∈ c)

theorem owns_self {n : Nat} {seen : List Nat} {T : Nat} (h : T ∈ seen) : Owns n seen T T := by
  obtain ⟨c, hc⟩ := ranges_has_key n seen seen T h
  exact ⟨c, hc, Or.inl rfl⟩

/-- `buildTidSpace_disjoint`: a tid belongs to at most one family -/
theorem owns_unique {n : Nat} {seen : List Nat} {T1 T2 t : Nat}
    (h1 : Owns n seen T1 t) (h2 : Owns n seen T2 t) : T1 = T2 := by
  obtain ⟨c1, hr1, ht1⟩ := h1
  obtain ⟨c2, hr2, ht2⟩ := h2
  rcases ht1 with ht1 | ht1 <;> rcases ht2 with ht2 | ht2
  · exact ht1.symm.trans ht2
  · exfalso
    have hm := ranges_key_mem n _ _ _ hr1
    exact ranges_fresh n _ _ _ hr2 t ht2 (ht1 ▸ hm)
  · exfalso
    have hm := ranges_key_mem n _ _ _ hr2
    exact ranges_fresh n _ _ _ hr1 t ht1 (ht2 ▸ hm)
  · by_cases he : (T1, c1) = (T2, c2)
    · exact congrArg Prod.fst he
    · exfalso
      exact pairwise_forall_ne (R := RDisj) (fun a b h x h1 h2 => h x h2 h1)
        (ranges_pairwise n seen seen) _ hr1 _ hr2 he t ht1 ht2

/-! ### the neighbour map only links tids of one family -/

theorem mem_chainWrites : ∀ (l : List Nat) (m : List (Nat × Nat)) (p : Nat × Nat),
    p ∈ chainWrites m l → p ∈ m ∨ (p.1 ∈ l ∧ p.2 ∈ l)
  | [], m, p, h => by simp [chainWrites] at h; exact Or.inl h
  | [a], m, p, h => by simp [chainWrites] at h; exact Or.inl h
  | a :: b :: r, m, p, h => by
    simp only [chainWrites] at h
    rcases mem_chainWrites (b :: r) _ p h with h1 | h1
    · rcases mem_amapSet h1 with h2 | h2
      · exact Or.inl h2
      · subst h2; right; simp
    · right; exact ⟨List.mem_cons_of_mem _ h1.1, List.mem_cons_of_mem _ h1.2⟩

theorem mem_buildLoop (n : Nat) : ∀ (seen excl : List Nat) (m : List (Nat × Nat)) (p : Nat × Nat),
    p ∈ buildLoop n seen excl m →
      p ∈ m ∨ ∃ r ∈ ranges n seen excl, p.1 ∈ r.1 :: r.2 ∧ p.2 ∈ r.1 :: r.2 := by
  intro seen
  induction seen with
  | nil => intro excl m p h; simp [buildLoop] at h; exact Or.inl h
  | cons tid rest ih =>
    intro excl m p h
    simp only [buildLoop] at h
    rcases ih _ _ p h with h1 | ⟨r, hr, h1⟩
    · rcases mem_chainWrites _ _ p h1 with h2 | h2
      · exact Or.inl h2
      · exact Or.inr ⟨(tid, createSpace n tid excl), by simp [ranges], h2⟩
    · exact Or.inr ⟨r, by simp [ranges, hr], h1⟩

/-- one `find_next_tid` hop stays in the family -/
theorem owns_step {n : Nat} {seen : List Nat} {T t t' : Nat}
    (h : Owns n seen T t) (hn : amapGet (buildPid n seen) t = some t') : Owns n seen T t' := by
  have hm := amapGet_mem hn
  unfold buildPid at hm
  rcases mem_buildLoop n seen seen [] _ hm with h0 | ⟨r, hr, h1, h2⟩
  · simp at h0
  · obtain ⟨T', c'⟩ := r
    have hT : T = T' := owns_unique h ⟨c', hr, by simpa using h1⟩
    subst hT
    exact ⟨c', hr, by simpa using h2⟩

/-- reflexive-transitive closure of a partial successor map -/
inductive Reach (nx : Nat → Option Nat) : Nat → Nat → Prop
  | refl (t : Nat) : Reach nx t t
  | step {t t' t'' : Nat} : nx t = some t' → Reach nx t' t'' → Reach nx t t''

theorem owns_reach {n : Nat} {seen : List Nat} {nx : Nat → Option Nat}
    (hnx : ∀ t t', nx t = some t' → amapGet (buildPid n seen) t = some t')
    {T t t' : Nat} (h : Owns n seen T t) (hr : Reach nx t t') : Owns n seen T t' := by
  induction hr with
  | refl => exact h
  | step hs _ ih => exact ih (owns_step h (hnx _ _ hs))

/-! ### collection -/

def seenOf (m : List (Nat × List Nat)) (p : Nat) : List Nat := (amapGet m p).getD []

theorem seenOf_collect_mono (m : List (Nat × List Nat)) (e : Ev) (p t : Nat)
    (h : t ∈ seenOf m p) : t ∈ seenOf (collect m e) p := by
  unfold collect
  split
  · by_cases hp : p = e.pid
    · subst hp
      simp only [seenOf, amapGet_amapSet_same, Option.getD_some, collectTid]
      split
      · exact h
      · exact List.mem_append_left _ h
    · simp only [seenOf, amapGet_amapSet_other _ _ hp]; exact h
  · exact h

theorem seenOf_collect_self (m : List (Nat × List Nat)) (e : Ev) (hx : e.isX = true) :
    e.tid ∈ seenOf (collect m e) e.pid := by
  unfold collect
  simp only [hx, if_true, seenOf, amapGet_amapSet_same, Option.getD_some, collectTid]
  split
  · assumption
  · simp

theorem seenOf_foldl_mono (evs : List Ev) : ∀ (m : List (Nat × List Nat)) (p t : Nat),
    t ∈ seenOf m p → t ∈ seenOf (evs.foldl collect m) p := by
  induction evs with
  | nil => intro m p t h; exact h
  | cons e r ih => intro m p t h; exact ih _ p t (seenOf_collect_mono m e p t h)

theorem seenOf_foldl_mem (evs : List Ev) : ∀ (m : List (Nat × List Nat)) (a : Ev),
    a ∈ evs → a.isX = true → a.tid ∈ seenOf (evs.foldl collect m) a.pid := by
  induction evs with
  | nil => intro m a h; simp at h
  | cons e r ih =>
    intro m a h hx
    rcases List.mem_cons.mp h with h | h
    · subst h; exact seenOf_foldl_mono r _ _ _ (seenOf_collect_self m a hx)
    · exact ih _ a h hx

/-- `find_next_tid` of the built space is the neighbour map of the pid's seen tids -/
theorem nextOf_buildSpaces (n : Nat) (evs : List Ev) (p t t' : Nat)
    (h : nextOf (buildSpaces n evs) p t = some t') :
    amapGet (buildPid n (seenOf (evs.foldl collect []) p)) t = some t' := by
  unfold nextOf buildSpaces at h
  rw [amapGet_map] at h
  unfold seenOf
  cases hg : amapGet (evs.foldl collect []) p with
  | none => rw [hg] at h; simp at h
  | some s => rw [hg] at h; simpa using h

end AiuVerif.Overlap
