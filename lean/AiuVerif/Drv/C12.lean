/- Line-protocol front end for the statistics model (C12 correspondence). Core only.

`c12 <ev>;<ev>;…`  with  `ev = ph,name,pid,ts,dur,ok`  (name percent-encoded as by `lib.core.enc`,
`ts`/`dur` exact rationals, `ok` ∈ {0,1}: args carry TS1..TS5); the empty stream is `-`.
Answer: `ok S=<row>;… A=<arow>;…` with `row = pid,name,calls,total,mean,median,min,max,share,var` and
`arow = pid,total,elapsed,start,end,active`, or `err:keyerror` / `err:assert`.
`c12mask <name>` answers the masked name and whether the name is a kernel name. -/
import AiuVerif.Basic
import AiuVerif.Model.Stats

namespace AiuVerif.Drv.C12
open AiuVerif AiuVerif.Stats

def hexVal (c : Char) : Option Nat :=
  if c.isDigit then some (c.toNat - '0'.toNat)
  else if 'A' ≤ c ∧ c ≤ 'F' then some (c.toNat - 'A'.toNat + 10)
  else if 'a' ≤ c ∧ c ≤ 'f' then some (c.toNat - 'a'.toNat + 10)
  else none

/-- inverse of `lib.core.enc` on code points < 256 -/
def decGo : List Char → Option (List Char)
  | [] => some []
  | '%' :: a :: b :: cs =>
    match hexVal a, hexVal b, decGo cs with
    | some x, some y, some r => some (Char.ofNat (16 * x + y) :: r)
    | _, _, _ => none
  | '%' :: _ => none
  | c :: cs => (decGo cs).map (c :: ·)

def dec (s : String) : Option String :=
  if s = "%00" then some "" else (decGo s.toList).map String.ofList

def hexDigit (n : Nat) : Char := if n < 10 then Char.ofNat (48 + n) else Char.ofNat (55 + n)

def keepChar (c : Char) : Bool := c.isAlphanum || "_-.:()[]=+<>".toList.contains c

def enc (s : String) : String :=
  if s = "" then "%00" else
  String.ofList (s.toList.flatMap fun c =>
    if keepChar c then [c] else ['%', hexDigit (c.toNat / 16), hexDigit (c.toNat % 16)])

def parseEv (s : String) : Option SEv :=
  match s.splitOn "," with
  | [ph, name, pid, ts, dur, ok] =>
    match dec name, parseInt? pid, parseRat? ts, parseRat? dur with
    | some n, some p, some t, some d => some ⟨ph, n, p, t, d, ok == "1"⟩
    | _, _, _, _ => none
  | _ => none

def showRow (r : Row) : String :=
  joinWith "," [toString r.pid, enc r.name, toString r.calls, showRat r.total, showRat r.mean,
    showRat r.median, showRat r.min, showRat r.max, showRat r.share, showRat r.var]

def showARow (r : ARow) : String :=
  joinWith "," [toString r.pid, showRat r.total, showRat r.elapsed, showRat r.start, showRat r.stop,
    showRat r.active]

def showOut (o : Out) : String :=
  "ok S=" ++ joinWith ";" (o.rows.map showRow) ++ " A=" ++ joinWith ";" (o.active.map showARow)

def handle (args : List String) : String :=
  match args with
  | [evs] =>
    match parseAll parseEv (if evs = "-" then [] else fields evs ";") with
    | some l =>
      match run l with
      | .ok o => showOut o
      | .error e => "err:" ++ e
    | none => "bad-op"
  | ["mask", name] =>
    match dec name with
    | some n => enc (mask n) ++ " " ++ (if isExecName n then "1" else "0")
    | none => "bad-op"
  | _ => "bad-op"

end AiuVerif.Drv.C12
