/- Line-protocol front end for the communication-summarization model (C20 correspondence). Core only. -/
import AiuVerif.Basic
import AiuVerif.Model.Comm
import AiuVerif.Drv.C13

namespace AiuVerif.Drv.C20
open AiuVerif AiuVerif.Comm

def hexDigit (n : Nat) : Char := if n < 10 then Char.ofNat (48 + n) else Char.ofNat (55 + n)

/-- `lib.core.enc` on ASCII strings -/
def encChar (c : Char) : List Char :=
  if c.isAlphanum || "_-.:()[]=+<>".toList.contains c then [c]
  else ['%', hexDigit (c.toNat / 16), hexDigit (c.toNat % 16)]

def enc (s : String) : String :=
  if s.isEmpty then "%00" else String.ofList (s.toList.flatMap encChar)

/-- `uid,ph,name,job|~,ts,dur,peer|~` -/
def parseEv (s : String) : Option CEv :=
  match s.splitOn "," with
  | [uid, ph, name, job, ts, dur, peer] => do
    let uid ← parseNat? uid
    let ph ← Drv.C13.dec ph
    let name ← Drv.C13.dec name
    let jobhash ← if job == "~" then some none else (parseNat? job).map some
    let ts ← parseRat? ts
    let dur ← parseRat? dur
    let peer ← if peer == "~" then some none else (parseInt? peer).map some
    pure { uid, ph, name, jobhash, ts, dur, peer }
  | _ => none

def showOut : COut → String
  | .pass ev => "p" ++ toString ev.uid
  | .merged ev peers =>
    "m" ++ toString ev.uid ++ "," ++ enc ev.name ++ "," ++ showRat ev.ts ++ "," ++ showRat ev.dur ++ "," ++
      joinWith ":" (peers.map toString)

/-- `c20 <ev;ev;…>`  →  `ok <sequences left> <out;out;…>` | `err:<kind>` -/
def handle (args : List String) : String :=
  match args with
  | [evs] =>
    match parseAll parseEv (fields evs ";") with
    | some l =>
      match summarize l with
      | .ok (outs, left) => "ok " ++ toString left ++ " " ++ joinWith ";" (outs.map showOut)
      | .error e => "err:" ++ e
    | none => "bad-op"
  | _ => "bad-op"

end AiuVerif.Drv.C20
