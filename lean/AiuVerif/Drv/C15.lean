/- Line-protocol front end for the ingestion model (C15 correspondence). Core only.

request : `c15 <file> <file> …`   file = `rank0;processed;ev,ev,…`   ev = `u:ph:ts:dur:pid:name:args:attr`
          (`-` = key absent, `%00` = empty string, `args`/`attr` = 0/1)
answer  : `out=<u:file:ph:ts:dur:pid:name:args:attr:rkArgs:rkAttr>,… err=<none|assert|key|index> warn=<neg:zero>,…`
-/
import AiuVerif.Basic
import AiuVerif.Model.Ingest

namespace AiuVerif.Drv.C15
open AiuVerif AiuVerif.Ingest

def opt {α : Type} (f : String → Option α) (s : String) : Option (Option α) :=
  if s = "-" then some none else (f s).map some

def str (s : String) : String := if s = "%00" then "" else s

def bool? (s : String) : Option Bool :=
  if s = "1" then some true else if s = "0" then some false else none

def parseEv (s : String) : Option Ev :=
  match s.splitOn ":" with
  | [u, ph, ts, dur, pid, name, a, t] => do
    let u ← parseNat? u
    let ts ← opt parseRat? ts
    let dur ← opt parseRat? dur
    let pid ← opt parseInt? pid
    let name ← opt (fun x => some (str x)) name
    let a ← bool? a
    let t ← bool? t
    pure { u := u, ph := str ph, ts := ts, dur := dur, pid := pid, name := name, hasArgs := a, hasAttr := t }
  | _ => none

def parseFile (s : String) : Option FileOut :=
  match s.splitOn ";" with
  | [r, p, evs] => do
    let r ← parseInt? r
    let p ← bool? p
    let evs ← parseAll parseEv (fields evs ",")
    pure (fileStream r p evs)
  | _ => none

def showOptInt : Option Int → String
  | none => "-"
  | some i => toString i

def showOptR : Option Rat → String
  | none => "-"
  | some q => showRat q

def showB (b : Bool) : String := if b then "1" else "0"

def showStr (s : String) : String := if s = "" then "%00" else s

def showEntry (x : Entry) : String :=
  let e := x.1
  joinWith ":" [toString e.u, toString x.2, showStr e.ph, showOptR e.ts, showOptR e.dur, showOptInt e.pid,
    (match e.name with | none => "-" | some n => showStr n), showB e.hasArgs, showB e.hasAttr,
    showOptInt e.rkArgs, showOptInt e.rkAttr]

def showErr : Option Err → String
  | none => "none"
  | some .assert => "assert"
  | some .key => "key"
  | some .index => "index"

def handle (args : List String) : String :=
  match parseAll parseFile args with
  | none => "bad-op"
  | some files =>
    let r := merge (files.map srcOf)
    "out=" ++ joinWith "," (r.1.map showEntry) ++ " err=" ++ showErr r.2 ++
      " warn=" ++ joinWith "," (files.map fun f => toString f.neg ++ ":" ++ toString f.zero)

end AiuVerif.Drv.C15
