/- Line-protocol front end for the export / scratch-key model (C02). Core only. -/
import AiuVerif.Basic
import AiuVerif.Model.Export

namespace AiuVerif.Drv.C02
open AiuVerif AiuVerif.Export

def parseScratch : String → Option Scratch
  | "ts_all" => some .tsAll
  | "ts_dev" => some .tsDev
  | "jobhash" => some .jobhash
  | "TS_cycles" => some .tsCycles
  | "helperF" => some .helperF
  | "counterDur" => some .counterDur
  | "nonSliceDur" => some .nonSliceDur
  | _ => none

def handle (args : List String) : String :=
  match args with
  | ["export", ph, keys, t, b] =>
    match fromDict { ph := ph, keys := fields keys ",", tidTruthy := t == "1", bpTruthy := b == "1" } with
    | .ok ks => "ok " ++ joinWith "," ks
    | .error (.keyError k) => "err:KeyError:" ++ k
    | .error .invalidPh => "err:Exception"
  | ["effect", k, stage] =>
    match parseScratch k with
    | some k => (match effect k stage with
      | .adds => "adds"
      | .cleans => "cleans"
      | .none => "none")
    | none => "bad-op"
  | _ => "bad-op"

end AiuVerif.Drv.C02
