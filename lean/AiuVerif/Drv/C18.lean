/- Line-protocol front end for the TensorBoard / DataFrame exporter model (C18 correspondence).
   Core only. -/
import AiuVerif.Basic
import AiuVerif.Model.TbExport

namespace AiuVerif.Drv.C18
open AiuVerif Tb Df

/-- `m` (key absent) | `o` (None / float / str) | an integer -/
def parsePid (s : String) : Option PidV :=
  if s = "m" then some .missing
  else if s = "o" then some .other
  else (parseInt? s).map .int

def indexed (l : List PidV) : List (Nat × PidV) := (List.range l.length).zip l

def showIdx (l : List (Nat × PidV)) : String := joinWith "," (l.map (fun e => toString e.1))

def showWorkers (ws : List (List (Nat × PidV))) : String :=
  if ws.isEmpty then "none" else joinWith "|" (ws.map showIdx)

/-- `tb <pid,pid,…> <id,id,…>` → `rc=<rank_cnt> w=<worker|worker|…> d=<…> all=<n>` | `err:keyerror` -/
def handleTb (pids devs : String) : String :=
  match parseAll parsePid (fields pids ","), parseAll parsePid (fields devs ",") with
  | some ps, some ds =>
    match flush (·.2) (·.2) (indexed ps) (indexed ds) with
    | .error m => "err:" ++ m
    | .ok out =>
      "rc=" ++ toString out.rankCnt ++ " w=" ++ showWorkers out.workers ++ " d=" ++
        showWorkers out.workerDevs ++ " all=" ++ showIdx out.combined
  | _, _ => "bad-op"

/-- atoms: `i<int>` `q<n/d>` `s<enc>` `n` `d` (empty dict) -/
def parseAtom (s : String) : Option J :=
  if s = "n" then some .null
  else if s = "d" then some (.obj [])
  else if s.startsWith "i" then (parseInt? (s.drop 1).toString).map (fun i => .num (i : Rat))
  else if s.startsWith "q" then (parseRat? (s.drop 1).toString).map .num
  else if s.startsWith "s" then some (.str (s.drop 1).toString)
  else none

def showCell : J → String
  | .null => "n"
  | .num q => "#" ++ showRat q
  | .str s => "s" ++ s
  | .obj _ => "D"

/-- `a.b.c=atom`: a leaf of the (arbitrarily nested) dict -/
def parseKV (s : String) : Option (List String × J) :=
  match s.splitOn "=" with
  | [k, v] => (parseAtom v).map (fun a => (k.splitOn ".", a))
  | _ => none

def setKey (k : String) (f : Option J → J) : List (String × J) → List (String × J)
  | [] => [(k, f none)]
  | (k', v) :: rest => if k' = k then (k', f (some v)) :: rest else (k', v) :: setKey k f rest

/-- put a leaf into a nested dict, creating the intermediate dicts -/
def insertPath : List String → J → J → J
  | [], v, _ => v
  | k :: ks, v, .obj kv => .obj (setKey k (fun old => insertPath ks v (old.getD (.obj []))) kv)
  | k :: ks, v, _ => .obj [(k, insertPath ks v (.obj []))]

def buildJson (kvs : List (List String × J)) : J :=
  kvs.foldl (fun acc kv => insertPath kv.1 kv.2 acc) (.obj [])

/-- `<c|o>~key=atom~key=atom…` -/
def parseEv (s : String) : Option XEv :=
  match s.splitOn "~" with
  | cls :: rest =>
    if cls = "c" ∨ cls = "o" then
      (parseAll parseKV (rest.filter (· ≠ ""))).map (fun kvs => { complete := cls = "c", json := buildJson kvs })
    else none
  | [] => none

/-- a column `path:default-atom` -/
def parseCol (s : String) : Option Col :=
  match s.splitOn ":" with
  | [p, d] => (parseAtom d).map (fun a => { path := p.splitOn ".", title := p, dflt := a })
  | _ => none

def parseMap (s : String) : Option (List Col) :=
  if s = "default" then some defaultMap
  else if s = "empty" then some []
  else parseAll parseCol (fields s ";")

/-- `df <map> <ev;ev;…>` → `rows=<cell,cell,…;…> slices=<n>` -/
def handleDf (m evs : String) : String :=
  match parseMap m, parseAll parseEv (fields evs ";") with
  | some dm, some es =>
    let rows := dfExport dm [] es
    let slices := (jsonExport [] es).filter (fun j => isX (phOf j))
    "rows=" ++ joinWith ";" (rows.map (fun r => joinWith "," (r.map showCell))) ++
      " slices=" ++ toString slices.length
  | _, _ => "bad-op"

def handle (args : List String) : String :=
  match args with
  | ["tb", pids, devs] => handleTb pids devs
  | ["df", m, evs] => handleDf m evs
  | _ => "bad-op"

end AiuVerif.Drv.C18
