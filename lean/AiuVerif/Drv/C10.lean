/- Line-protocol front end for the power sub-pipeline model (C10 correspondence). Core only.

Requests (after the word `c10`); lists use `;` between items and `,` between fields, `_` is the
empty list, numbers are `n` or `n/d`, strings are percent-encoded behind a `=`, `~` is an absent key:
* `extract <ph,name,pid,dur|~,ts3,ts4,power|~;…>` → `err:<kind>` | `pid,cat,ts,tsc,q;…`
* `sort <pid,cat,ts,tsc,q;…>`                     → `pid,cat,ts,tsc,q;…`
* `compute <0|1> <pid,cat,ts,tsc,q;…>`            → `err:<kind>` | `pid,ts,watts;…`
* `pipe <0|1> <slices>`                           → `err:<kind>` | `pid,ts,watts;…`
-/
import AiuVerif.Basic
import AiuVerif.Model.Power

namespace AiuVerif.Drv.C10
open AiuVerif AiuVerif.Power

def items (s : String) : List String := if s = "_" then [] else fields s ";"

def hexVal (c : Char) : Option Nat :=
  if '0' ≤ c ∧ c ≤ '9' then some (c.toNat - '0'.toNat)
  else if 'A' ≤ c ∧ c ≤ 'F' then some (c.toNat - 'A'.toNat + 10)
  else if 'a' ≤ c ∧ c ≤ 'f' then some (c.toNat - 'a'.toNat + 10)
  else none

def decChars : List Char → List Char
  | '%' :: a :: b :: rest =>
    match hexVal a, hexVal b with
    | some x, some y => Char.ofNat (16 * x + y) :: decChars rest
    | _, _ => '%' :: decChars (a :: b :: rest)
  | c :: rest => c :: decChars rest
  | [] => []

def encChars : List Char → List Char
  | [] => []
  | c :: rest =>
    if c.isAlphanum then c :: encChars rest
    else
      let n := c.toNat
      let hex := fun (k : Nat) => if k < 10 then Char.ofNat (48 + k) else Char.ofNat (55 + k)
      '%' :: hex (n / 16 % 16) :: hex (n % 16) :: encChars rest

def parseStr (s : String) : Option String :=
  match s.toList with
  | '=' :: rest => some (String.ofList (decChars rest))
  | _ => none

def showStr (s : String) : String := "=" ++ String.ofList (encChars s.toList)

def parseOptRat (s : String) : Option (Option Num) :=
  if s = "~" then some none else (parseRat? s).map some

def parseSlice (s : String) : Option Slice :=
  match s.splitOn "," with
  | [ph, name, pid, dur, ts3, ts4, power] => do
    pure { ph := (← parseStr ph), name := (← parseStr name), pid := (← parseInt? pid),
           dur := (← parseOptRat dur), ts3 := (← parseRat? ts3), ts4 := (← parseRat? ts4),
           power := (← parseOptRat power) }
  | _ => none

def parseCtr (s : String) : Option Ctr :=
  match s.splitOn "," with
  | [pid, cat, ts, tsc, q] => do
    pure { pid := (← parseInt? pid), cat := (← parseStr cat), ts := (← parseRat? ts),
           tsc := (← parseRat? tsc), q := (← parseRat? q) }
  | _ => none

def showList (f : α → String) (l : List α) : String :=
  if l.isEmpty then "_" else joinWith ";" (l.map f)

def showCtr (c : Ctr) : String :=
  joinWith "," [toString c.pid, showStr c.cat, showRat c.ts, showRat c.tsc, showRat c.q]

def showOut (o : Out) : String := joinWith "," [toString o.pid, showRat o.ts, showRat o.watts]

def showRes (f : α → String) : Except String (List α) → String
  | .error e => "err:" ++ e
  | .ok l => showList f l

def parseFlag : String → Option Bool
  | "0" => some false
  | "1" => some true
  | _ => none

def handle (args : List String) : String :=
  match args with
  | ["extract", sl] =>
    match parseAll parseSlice (items sl) with
    | some l => showRes showCtr (extractAll l)
    | none => "bad-op"
  | ["sort", cs] =>
    match parseAll parseCtr (items cs) with
    | some l => showList showCtr (sortStage l)
    | none => "bad-op"
  | ["compute", fl, cs] =>
    match parseFlag fl, parseAll parseCtr (items cs) with
    | some fl, some l => showRes showOut (computeStage fl l)
    | _, _ => "bad-op"
  | ["pipe", fl, sl] =>
    match parseFlag fl, parseAll parseSlice (items sl) with
    | some fl, some l => showRes showOut (pipeline fl l)
    | _, _ => "bad-op"
  | _ => "bad-op"

end AiuVerif.Drv.C10
