/- Line-protocol front end for the ConcurrentPreps model (C13 correspondence). Core only. -/
import AiuVerif.Basic
import AiuVerif.Model.Preps

namespace AiuVerif.Drv.C13
open AiuVerif AiuVerif.Preps

def hexVal (c : Char) : Option Nat :=
  if '0' ≤ c ∧ c ≤ '9' then some (c.toNat - '0'.toNat)
  else if 'A' ≤ c ∧ c ≤ 'F' then some (c.toNat - 'A'.toNat + 10)
  else if 'a' ≤ c ∧ c ≤ 'f' then some (c.toNat - 'a'.toNat + 10)
  else none

/-- inverse of `lib.core.enc` (`%XX`, `%uXXXX`; the lone `%00` is the empty string) -/
def decChars : List Char → Option (List Char)
  | [] => some []
  | '%' :: 'u' :: a :: b :: c :: d :: rest => do
    let va ← hexVal a; let vb ← hexVal b; let vc ← hexVal c; let vd ← hexVal d
    let r ← decChars rest
    pure (Char.ofNat (((va * 16 + vb) * 16 + vc) * 16 + vd) :: r)
  | '%' :: a :: b :: rest => do
    let va ← hexVal a; let vb ← hexVal b
    let r ← decChars rest
    pure (Char.ofNat (va * 16 + vb) :: r)
  | '%' :: _ => none
  | c :: rest => do
    let r ← decChars rest
    pure (c :: r)

def dec (s : String) : Option String :=
  if s == "%00" then some "" else (decChars s.toList).map String.ofList

def parseDial : String → Option Dial
  | "na" => some .noArgs
  | "nj" => some .noJobhash
  | "uj" => some .unknownJob
  | "nd" => some .noDialect
  | "fx" => some .flex
  | "to" => some .torch
  | _ => none

/-- `uid,ph,name,pid,ts,dur|~,dial` -/
def parseEv (s : String) : Option PEv :=
  match s.splitOn "," with
  | [uid, ph, name, pid, ts, dur, dial] => do
    let uid ← parseNat? uid
    let ph ← dec ph
    let name ← dec name
    let pid ← parseInt? pid
    let ts ← parseRat? ts
    let dur ← if dur == "~" then some none else (parseRat? dur).map some
    let dial ← parseDial dial
    pure { uid, ph, name, pid, ts, dur, dial }
  | _ => none

def showOut : Out → String
  | .pass u => "p" ++ toString u
  | .counter pid t c => "c" ++ toString pid ++ ":" ++ showRat t ++ ":" ++ toString c

/-- `c13 <keep 0|1> <ev;ev;…>`  →  `ok <out;out;…>` | `err:<kind>` -/
def handle (args : List String) : String :=
  match args with
  | [keep, evs] =>
    match (if keep == "1" then some true else if keep == "0" then some false else none),
          parseAll parseEv (fields evs ";") with
    | some k, some l =>
      match runStage k l with
      | .ok outs => "ok " ++ joinWith ";" (outs.map showOut)
      | .error e => "err:" ++ e
    | _, _ => "bad-op"
  | _ => "bad-op"

end AiuVerif.Drv.C13
