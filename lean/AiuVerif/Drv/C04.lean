/- Line-protocol front end for the overlap model (C04 correspondence). Core only. -/
import AiuVerif.Basic
import AiuVerif.Model.Overlap
import AiuVerif.Model.OverlapSort
import AiuVerif.Model.LaneLabel

namespace AiuVerif.Drv.C04
open AiuVerif AiuVerif.Overlap

/-- `uid:x:pid:tid:ts:dur` -/
def parseEv (s : String) : Option Ev :=
  match s.splitOn ":" with
  | [u, x, p, t, ts, d] =>
    match parseNat? u, parseNat? x, parseNat? p, parseNat? t, parseRat? ts, parseRat? d with
    | some u, some x, some p, some t, some ts, some d =>
      some { uid := u, isX := x != 0, pid := p, tid := t, ts := ts, dur := d }
    | _, _, _, _, _, _ => none
  | _ => none

def parseMode : String → Option Mode
  | "tid" => some .tid
  | "drop" => some .drop
  | _ => none

def showErr : Err → String
  | .assertOrder => "err:assert"
  | .assertState => "err:assert"
  | .keyError => "err:keyerror"
  | .recursion => "err:recursion"

def showOut (l : List Ev) : String :=
  joinWith "," (l.map fun e => toString e.uid ++ ":" ++ toString e.tid)

/-- requests:
  `run <tid|drop> <ev;ev;…|->`  → `ok uid:tid,…` (events leaving the last stage, in order) or `err:<class>`
  `sort <ev;…|->`               → `ok uid:tid,…` after the sort stage only
  `rnd4 <rat>`                  → the rational `round(x, 4)` -/
def handle (args : List String) : String :=
  match args with
  | ["run", mode, evs] =>
    match parseMode mode, parseAll parseEv (fields evs ";" |>.filter (· ≠ "-")) with
    | some m, some l =>
      match pipeline m l with
      | .ok out => "ok " ++ showOut out
      | .error e => showErr e
    | _, _ => "bad-op"
  | ["sort", evs] =>
    match parseAll parseEv (fields evs ";" |>.filter (· ≠ "-")) with
    | some l => "ok " ++ showOut (sortStage l)
    | none => "bad-op"
  | ["label", o, k] =>
    -- lane name of a torch slice with string tid `o` (blanks written `~`) that sits `k` tids above hash(o)
    match parseNat? k with
    | some k => (LaneLabel.laneLabel (o.replace "~" " ") k).replace " " "~"
    | none => "bad-op"
  | ["rnd4", q] =>
    match parseRat? q with
    | some q => showRat (rnd4 q)
    | none => "bad-op"
  | _ => "bad-op"

end AiuVerif.Drv.C04
