/- Line-protocol front end for the mp_sync model (C07 correspondence). Core only.

  c07 sync <ev> <ev> ...     ev = uid,ph,pid,name,ts,dur,hasArgs,cg,hasTS5,dev,all
                             (strings percent-encoded, `~` = absent, `!` = empty list, lists `|`-separated)
      → `ok act=<0|1> tree=<0|1|-> np=<n> ng=<n> # uid:ts:dur:dev:all ...`   or   `err:<class>`
  c07 conv <freq> <c1|c2|...>   → `r|r|...`   (`_conv_DTS_to_array_in_us`)
  c07 opid <name>               → `<n>`        (`get_opIds_from_event`)
-/
import AiuVerif.Basic
import AiuVerif.Model.MpSync

namespace AiuVerif.Drv.C07
open AiuVerif AiuVerif.MpSync

def hexVal (c : Char) : Option Nat :=
  if '0' ≤ c ∧ c ≤ '9' then some (c.toNat - '0'.toNat)
  else if 'A' ≤ c ∧ c ≤ 'F' then some (c.toNat - 'A'.toNat + 10)
  else if 'a' ≤ c ∧ c ≤ 'f' then some (c.toNat - 'a'.toNat + 10)
  else none

def decChars : List Char → Option (List Char)
  | [] => some []
  | '%' :: a :: b :: rest =>
    match hexVal a, hexVal b, decChars rest with
    | some x, some y, some r => some (Char.ofNat (16 * x + y) :: r)
    | _, _, _ => none
  | '%' :: _ => none
  | c :: rest => (decChars rest).map (c :: ·)

/-- inverse of `lib.core.enc` (latin range) -/
def dec (s : String) : Option String :=
  if s = "%00" then some "" else (decChars s.toList).map String.ofList

def parseOpt {α : Type} (f : String → Option α) (s : String) : Option (Option α) :=
  if s = "~" then some none else (f s).map some

def parseRats (s : String) : Option (List Rat) :=
  if s = "!" then some [] else parseAll parseRat? (fields s "|")

def parseBool (s : String) : Option Bool :=
  if s = "1" then some true else if s = "0" then some false else none

def parseEv (s : String) : Option MEv :=
  match s.splitOn "," with
  | [uid, ph, pid, name, ts, dur, hasArgs, cg, hasTS5, dev, all] => do
    let uid ← parseNat? uid
    let ph ← dec ph
    let pid ← parseInt? pid
    let name ← dec name
    let ts ← parseRat? ts
    let dur ← parseOpt parseRat? dur
    let hasArgs ← parseBool hasArgs
    let cg ← parseOpt dec cg
    let hasTS5 ← parseBool hasTS5
    let dev ← parseOpt parseRats dev
    let all ← parseOpt parseRats all
    pure { uid := uid, ph := ph, pid := pid, name := name, ts := ts, dur := dur,
           args := if hasArgs then some { cg := cg, hasTS5 := hasTS5, tsDev := dev, tsAll := all } else none }
  | _ => none

def showRats : Option (List Rat) → String
  | none => "~"
  | some [] => "!"
  | some l => joinWith "|" (l.map showRat)

def showOpt : Option Rat → String
  | none => "~"
  | some q => showRat q

def showEv (e : MEv) : String :=
  let dev := match e.args with | some a => showRats a.tsDev | none => "~"
  let all := match e.args with | some a => showRats a.tsAll | none => "~"
  joinWith ":" [toString e.uid, showRat e.ts, showOpt e.dur, dev, all]

def b01 (b : Bool) : String := if b then "1" else "0"

def info (evs : List MEv) : String :=
  let cgs := keptGroups (collGroups evs)
  let tree := match cgs with | [] => "-" | cg0 :: _ => b01 (treeReduce evs cg0)
  "act=" ++ b01 (acts evs) ++ " tree=" ++ tree ++ " np=" ++ toString (procIds evs).length ++
    " ng=" ++ toString cgs.length

def handle (args : List String) : String :=
  match args with
  | "sync" :: evs =>
    match parseAll parseEv evs with
    | none => "bad-op"
    | some evs =>
      match mpSync evs with
      | .error e => "err:" ++ e
      | .ok out => "ok " ++ info evs ++ " # " ++ joinWith " " (out.map showEv)
  | ["conv", f, cs] =>
    match parseRat? f, parseAll parseInt? (fields cs "|") with
    | some f, some cs => if f = 0 then "err:zerodivision" else showRats (some (convDev f cs))
    | _, _ => "bad-op"
  | ["opid", name] =>
    match dec name with
    | some n => toString (opId n)
    | none => "bad-op"
  | _ => "bad-op"

end AiuVerif.Drv.C07
