/- Line-protocol front end for the timesync model (C06 correspondence). Core only.

`c06 <freq> <ev>;<ev>;…` with `<ev> = uid,ph,name,ts,dur,tsx` (`ph`/`name` percent-encoded, rationals `n/d`,
`tsx` = `-` or `c1:…:c5`).
Answer: `ok uid,ts,dur,ts_all,ts_dev,time_adjust;…` (lists `:`-separated, `-` = absent, time_adjust = `dts:ddur`)
or `err:<assert|keyerror>`.
Extra request `c06 tables <name>` → `refIdx,cvtRefIdx,opIds(:),flexMap(a:b|-)` of a percent-encoded name.
-/
import AiuVerif.Basic
import AiuVerif.Model.TimeSync

namespace AiuVerif.Drv.C06
open AiuVerif AiuVerif.TimeSync AiuVerif.PhaseName

def parseTsx (s : String) : Option (Option (List Int)) :=
  if s = "-" then some none else (parseAll parseInt? (s.splitOn ":")).map some

def parseEv (s : String) : Option Ev :=
  match s.splitOn "," with
  | [uid, ph, name, ts, dur, tsx] =>
    match parseNat? uid, parseRat? ts, parseRat? dur, parseTsx tsx with
    | some uid, some ts, some dur, some tsx =>
      some { uid := uid, ph := decode ph, name := decode name, ts := ts, dur := dur, tsx := tsx }
    | _, _, _, _ => none
  | _ => none

def showOpt {α : Type} (f : α → String) : Option α → String
  | none => "-"
  | some a => f a

def showRats (l : List Rat) : String := joinWith ":" (l.map showRat)

def showEv (e : Ev) : String :=
  joinWith "," [toString e.uid, showRat e.ts, showRat e.dur, showOpt showRats e.tsAll, showOpt showRats e.tsDev,
    showOpt (fun p => showRat p.1 ++ ":" ++ showRat p.2) e.adjust]

def handle (args : List String) : String :=
  match args with
  | ["tables", name] =>
    let n := decode name
    joinWith "," [toString (refIdx n), toString (cvtRefIdx n), joinWith ":" ((opIds n).map toString),
      showOpt (fun p => toString p.1 ++ ":" ++ toString p.2) (flexMap n)]
  | f :: rest =>
    let evs := match rest with
      | [] => some []
      | [s] => parseAll parseEv (fields s ";")
      | _ => none
    match parseRat? f, evs with
    | some f, some evs =>
      if f ≤ 0 then "bad-op" else
      match run f evs with
      | .error m => "err:" ++ m
      | .ok out => "ok " ++ joinWith ";" (out.map showEv)
    | _, _ => "bad-op"
  | _ => "bad-op"

end AiuVerif.Drv.C06
