/- Line-protocol front end for the limit/filter model (C17 correspondence). Core only.

request : `c17 <skip;count;ts_start;ts_end> <no_count_types> <filter string> <ev|ev|…>`
          ev   = `uid;ph;ts;dur;name;top;args;attr`   dict = `k~T~v&k~T~v` (T = s: str, n: other scalar with its
          `str()` rendering);  `-` = absent, `%00` = empty string / empty dict / no events, `%20` = blank
answer  : `out=<uid;ph;name;args>|… err=<none|key|type>`
        | `flags=<0/1…>`  for `c17 flags <limits> <nct> <events>` (the limiter alone)
-/
import AiuVerif.Basic
import AiuVerif.Model.Limit

namespace AiuVerif.Drv.C17
open AiuVerif AiuVerif.Limit

def str (s : String) : String := if s = "%00" then "" else s.replace "%20" " "
def showStr (s : String) : String := if s = "" then "%00" else s.replace " " "%20"

def opt {α : Type} (f : String → Option α) (s : String) : Option (Option α) :=
  if s = "-" then some none else (f s).map some

def parseLeaf (t v : String) : Option Leaf :=
  if t = "s" then some (.str (str v)) else if t = "n" then some (.num (str v)) else none

def parseKV (s : String) : Option (String × Leaf) :=
  match s.splitOn "~" with
  | [k, t, v] => (parseLeaf t v).map fun l => (str k, l)
  | _ => none

def parseDict (s : String) : Option Dict :=
  if s = "%00" then some [] else parseAll parseKV (s.splitOn "&")

def parseEv (s : String) : Option Ev :=
  match s.splitOn ";" with
  | [uid, ph, ts, dur, name, top, args, attr] => do
    let uid ← parseNat? uid
    let ts ← opt parseRat? ts
    let dur ← opt parseRat? dur
    let name ← opt (fun x => some (str x)) name
    let top ← parseDict top
    let args ← opt parseDict args
    let attr ← opt parseDict attr
    pure { uid := uid, ph := str ph, ts := ts, dur := dur, name := name, top := top, args := args, attr := attr }
  | _ => none

def parseEvs (s : String) : Option (List Ev) :=
  if s = "%00" then some [] else parseAll parseEv (s.splitOn "|")

def parseCfg (lim nct : String) : Option Cfg :=
  match lim.splitOn ";" with
  | [a, b, c, d] => do
    let a ← opt parseInt? a
    let b ← opt parseInt? b
    let c ← opt parseRat? c
    let d ← opt parseRat? d
    pure (mkCfg a b c d (if nct = "-" then none else some (str nct)))
  | _ => none

def showLeaf : Leaf → String
  | .str s => "s~" ++ showStr s
  | .num r => "n~" ++ showStr r

def showDict : Option Dict → String
  | none => "-"
  | some [] => "%00"
  | some d => joinWith "&" (d.map fun p => showStr p.1 ++ "~" ++ showLeaf p.2)

def showEv (e : Ev) : String :=
  joinWith ";" [toString e.uid, showStr e.ph, (match e.name with | none => "-" | some n => showStr n),
    showDict e.args]

def showErr : Option Err → String
  | none => "none"
  | some .key => "key"
  | some .type => "type"

def handle (args : List String) : String :=
  match args with
  | ["flags", lim, nct, evs] =>
    match parseCfg lim nct, parseEvs evs with
    | some c, some evs =>
      "flags=" ++ String.join ((limitFlags c 0 evs).map fun b => if b then "1" else "0")
    | _, _ => "bad-op"
  | [lim, nct, flt, evs] =>
    match parseCfg lim nct, parseEvs evs with
    | some c, some evs =>
      let r := run rxMatch c (parseFilters parseRx ((str flt).replace "%20" " ")) 0 evs
      "out=" ++ joinWith "|" (r.1.map showEv) ++ " err=" ++ showErr r.2
    | _, _ => "bad-op"
  | _ => "bad-op"

end AiuVerif.Drv.C17
