/- Line-protocol front end for the hidden-input model (C14 correspondence). Core only. -/
import AiuVerif.Basic
import AiuVerif.Model.Hidden

namespace AiuVerif.Drv.C14
open AiuVerif Hid

/-- the event of the stage-level experiment: identity, job id (`args.jobhash`), grouping key
    (`name`), and what the job lookup wrote (`args.tag`) -/
structure Ev where
  id : Nat
  key : Nat
  name : String
  tag : String

def unitS (f : Ev → List Ev) : RS Ev :=
  { σ := Unit, s := (), step := fun _ x => ((), f x), drain := fun _ => [] }
def holdS : RS Ev :=
  { σ := List Ev, s := [], step := fun s x => (s ++ [x], []), drain := fun s => s }
def revS : RS Ev :=
  { σ := List Ev, s := [], step := fun s x => (x :: s, []), drain := fun s => s }
def optList : Option Ev → List Ev
  | none => []
  | some y => [y]
def delayS : RS Ev :=
  { σ := Option Ev, s := none, step := fun s x => (some x, optList s), drain := optList }

def dialectName (d : Nat) : String := if d = dTORCH then "TORCH" else "FLEX"

/-- `get_job` / `get_dialect` on the event's job id -/
def annot (e : Ev) : Option JobInfo → List Ev
  | some (n, d) => [{ e with tag := n ++ "/" ++ dialectName d }]
  | none => [{ e with tag := "Not%20Available/NA" }]

/-- an injective stand-in for a collision-free `hash(str)` -/
def injHash (s : String) : Nat := s.foldl (fun a c => a * 1114112 + c.toNat + 1) 0

/-- one row per group: id 5000 + number of members, named after the group -/
def emitRow (k : String) (ms : List Ev) : List Ev :=
  [{ id := 5000 + ms.length, key := 0, name := k, tag := "row" }]

def stageOf : String → Option (Stage Ev)
  | "pass" => some (.priv (unitS fun x => [x]))
  | "drop" => some (.priv (unitS fun x => if x.id % 2 == 0 then [] else [x]))
  | "dup" => some (.priv (unitS fun x => [x, { x with id := x.id + 1000 }]))
  | "hold" => some (.priv holdS)
  | "rev" => some (.priv revS)
  | "delay" => some (.priv delayS)
  | "barrier" => some .barrier
  | "annot" => some (.jobAnnot (·.key) annot)
  | "group" => some (.hashGroup (·.name) emitRow)
  | _ => none

/-- `id:key:name` -/
def parseEv (s : String) : Option Ev :=
  match s.splitOn ":" with
  | [i, k, n] =>
    match parseNat? i, parseNat? k with
    | some i, some k => some { id := i, key := k, name := n, tag := "-" }
    | _, _ => none
  | _ => none

/-- `key:name:dialect` -/
def parseFile (s : String) : Option File :=
  match s.splitOn ":" with
  | [k, n, d] =>
    match parseNat? k, parseNat? d with
    | some k, some d => some { key := k, info := (n, d) }
    | _, _ => none
  | _ => none

def parseAbort (s : String) : Option (Option Nat) :=
  if s = "none" then some none else (parseNat? s).map some

/-- one run: `topKey/files/kinds/events/abortAt/I` with `,`-separated lists (`-` = empty list) -/
def parseRun (s : String) : Option (Run Ev) :=
  match s.splitOn "/" with
  | [tk, fs, ks, es, ab, im] =>
    match parseNat? tk, parseAll parseFile (fields fs ","), parseAll stageOf (fields ks ","),
        parseAll parseEv (fields es ","), parseAbort ab with
    | some tk, some fs, some ks, some es, some ab =>
      some { topKey := tk, files := fs, stages := ks, input := es, abortAt := ab, intermediate := im = "1" }
    | _, _, _, _, _ => none
  | _ => none

def showEv (e : Ev) : String := toString e.id ++ ":" ++ e.name ++ ":" ++ e.tag

def showRes : Result Ev → String
  | .ok l => "out=" ++ joinWith "," (l.map showEv)
  | .aborted => "ABORT"

/-- run a history; per run: result and the ids the shared barrier holds afterwards -/
def history (step : Hidden Ev → Run Ev → Result Ev × Hidden Ev) : Hidden Ev → List (Run Ev) → List String
  | _, [] => []
  | h, r :: rs =>
    let o := step h r
    (showRes o.1 ++ " hold=" ++ joinWith "," (o.2.barrierHold.map (fun e => toString e.id))) ::
      history step o.2 rs

/-- `hist <reset|noreset> <run>|<run>|…`  →  `<result hold=…>|<result hold=…>|…` -/
def handle (args : List String) : String :=
  match args with
  | ["hist", mode, runs] =>
    match parseAll parseRun ((runs.splitOn "|").filter (· ≠ "")) with
    | some rs =>
      let step := if mode = "reset" then runProc else runProcNoReset
      joinWith "|" (history step (Hidden.init injHash) rs)
    | none => "bad-op"
  | _ => "bad-op"

end AiuVerif.Drv.C14
