/- Line-protocol front end for the conservation specification (C01). Core only. -/
import AiuVerif.Basic
import AiuVerif.Model.Conserve

namespace AiuVerif.Drv.C01
open AiuVerif AiuVerif.Conserve

def b (s : String) : Bool := s == "1"

/-- `uid:durPos:inLimit:filtered:isPrep:isGlobal:dropped` -/
def parseSlice (s : String) : Option Slice :=
  match s.splitOn ":" with
  | [u, a, l, f, p, g, d] => (parseNat? u).map fun uid =>
      { uid := uid, durPos := b a, inLimit := b l, filtered := b f, isPrep := b p, isGlobal := b g,
        dropped := b d }
  | _ => none

/-- `pq:kp:dg:F` with F = `-` when -F is absent -/
def parseOpts (s : String) : Option Opts :=
  match s.splitOn ":" with
  | [pq, kp, dg, f] => some { prepQueue := b pq, keepPrep := b kp, dropGlobals := b dg,
                              keepPh := if f == "-" then none else some f }
  | _ => none

def showCls : Option Cls → String
  | none => "none"
  | some .pass => "pass"
  | some .filter => "filter"
  | some .merge => "merge"
  | some .outOfDomain => "outOfDomain"

def handle (args : List String) : String :=
  match args with
  | ["spec", o, sl] =>
    match parseOpts o, parseAll parseSlice (fields sl ",") with
    | some o, some ss => joinWith "," ((specKept o ss).map toString)
    | _, _ => "bad-op"
  | ["class", name] => showCls (classOf name)
  | _ => "bad-op"

end AiuVerif.Drv.C01
