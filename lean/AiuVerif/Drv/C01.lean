/- Line-protocol front end for the conservation specification (C01). Core only. -/
import AiuVerif.Basic
import AiuVerif.Model.Conserve
import AiuVerif.Model.ExportArgs

namespace AiuVerif.Drv.C01
open AiuVerif AiuVerif.Conserve

def b (s : String) : Bool := s == "1"

/-- `uid:durPos:inLimit:filtered:isPrep:isGlobal:dropped` -/
def parseSlice (s : String) : Option Slice :=
  match s.splitOn ":" with
  | [u, a, l, f, p, g, d] => (parseNat? u).map fun uid =>
      { uid := uid, durPos := b a, inLimit := b l, filtered := b f, isPrep := b p, isGlobal := b g,
        dropped := b d }
  | _ => none

/-- `pq:kp:dg:F` with F = `-` when -F is absent -/
def parseOpts (s : String) : Option Opts :=
  match s.splitOn ":" with
  | [pq, kp, dg, f] => some { prepQueue := b pq, keepPrep := b kp, dropGlobals := b dg,
                              keepPh := if f == "-" then none else some f }
  | _ => none

def showCls : Option Cls → String
  | none => "none"
  | some .pass => "pass"
  | some .filter => "filter"
  | some .merge => "merge"
  | some .outOfDomain => "outOfDomain"

/-- `k:v,k:v` (keys plain, values opaque tokens), `%` = empty dictionary -/
def parseKV (s : String) : Option (ExportArgs.KV String) :=
  if s = "%" then some []
  else parseAll (fun w => match w.splitOn ":" with
    | [k, v] => some (k, v)
    | _ => none) (s.splitOn ",")

def showKV (d : ExportArgs.KV String) : String :=
  if d.isEmpty then "%" else joinWith "," (d.map (fun p => p.1 ++ ":" ++ p.2))

def handle (args : List String) : String :=
  match args with
  | ["spec", o, sl] =>
    match parseOpts o, parseAll parseSlice (fields sl ",") with
    | some o, some ss => joinWith "," ((specKept o ss).map toString)
    | _, _ => "bad-op"
  | ["class", name] => showCls (classOf name)
  | ["xargs", top, a] =>
    -- the args dictionary of the exported event: top-level dictionary, `args` (`-` = absent)
    match parseKV top, (if a = "-" then some none else (parseKV a).map some) with
    | some t, some a => showKV (ExportArgs.exportArgs t a)
    | _, _ => "bad-op"
  | _ => "bad-op"

end AiuVerif.Drv.C01
