/- Line-protocol front end for the conservation specification (C01). Core only. -/
import AiuVerif.Basic
import AiuVerif.Model.Conserve
import AiuVerif.Model.ExportArgs
import AiuVerif.Model.CalcBw
import AiuVerif.Model.SmallStages
import AiuVerif.Gen.Tables

namespace AiuVerif.Drv.C01
open AiuVerif AiuVerif.Conserve

def b (s : String) : Bool := s == "1"

/-- `uid:durPos:inLimit:filtered:isPrep:isGlobal:dropped` -/
def parseSlice (s : String) : Option Slice :=
  match s.splitOn ":" with
  | [u, a, l, f, p, g, d] => (parseNat? u).map fun uid =>
      { uid := uid, durPos := b a, inLimit := b l, filtered := b f, isPrep := b p, isGlobal := b g,
        dropped := b d }
  | _ => none

/-- `pq:kp:dg:F` with F = `-` when -F is absent -/
def parseOpts (s : String) : Option Opts :=
  match s.splitOn ":" with
  | [pq, kp, dg, f] => some { prepQueue := b pq, keepPrep := b kp, dropGlobals := b dg,
                              keepPh := if f == "-" then none else some f }
  | _ => none

def showCls : Option Cls → String
  | none => "none"
  | some .pass => "pass"
  | some .filter => "filter"
  | some .merge => "merge"
  | some .outOfDomain => "outOfDomain"

/-- `k:v,k:v` (keys plain, values opaque tokens), `%` = empty dictionary -/
def parseKV (s : String) : Option (ExportArgs.KV String) :=
  if s = "%" then some []
  else parseAll (fun w => match w.splitOn ":" with
    | [k, v] => some (k, v)
    | _ => none) (s.splitOn ",")

def showKV (d : ExportArgs.KV String) : String :=
  if d.isEmpty then "%" else joinWith "," (d.map (fun p => p.1 ++ ":" ++ p.2))

def optStr (s : String) : Option String := if s = "-" then none else some (PhaseName.decode s)

/-- `uid,ph,pid,ts,dur,hasArgs,collGroup|-,bytes|-,name` (strings percent-encoded) -/
def parseBEv (s : String) : Option CalcBw.BEv :=
  match s.splitOn "," with
  | [u, ph, pid, ts, dur, ha, cg, by_, nm] =>
    match parseNat? u, parseInt? pid, parseRat? ts, parseRat? dur,
        (if by_ = "-" then some none else (parseInt? by_).map some) with
    | some u, some pid, some ts, some dur, some by_ =>
      some { uid := some u, ph := PhaseName.decode ph, pid := pid, ts := ts, dur := dur, hasArgs := b ha,
             collGroup := optStr cg, bytes := by_, name := PhaseName.decode nm }
    | _, _, _, _, _ => none
  | _ => none

def showBEv (e : CalcBw.BEv) : String :=
  match e.uid with
  | some u => "u" ++ toString u
  | none => joinWith "," ["c", e.name.replace " " "_", toString e.pid, showRat e.ts, showOptRat e.value]

/-- `uid,isX,tid|-,flex,pid` -/
def parseTEv (s : String) : Option Small.TEv :=
  match s.splitOn "," with
  | [u, x, t, f, p] =>
    match parseNat? u, (if t = "-" then some none else (parseInt? t).map some), parseInt? p with
    | some u, some t, some p => some { uid := u, isX := b x, tid := t, flex := b f, pid := p }
    | _, _, _ => none
  | _ => none

def showOptInt : Option Int → String
  | none => "-"
  | some i => toString i

def showInts (l : List Int) : String := if l.isEmpty then "%" else joinWith "," (l.map toString)

def parseList {α : Type} (f : String → Option α) (s : String) : Option (List α) :=
  if s = "%" then some [] else parseAll f (s.splitOn ";")

def handle (args : List String) : String :=
  match args with
  | ["spec", o, sl] =>
    match parseOpts o, parseAll parseSlice (fields sl ",") with
    | some o, some ss => joinWith "," ((specKept o ss).map toString)
    | _, _ => "bad-op"
  | ["class", name] => showCls (classOf name)
  | ["xargs", top, a] =>
    -- the args dictionary of the exported event: top-level dictionary, `args` (`-` = absent)
    match parseKV top, (if a = "-" then some none else (parseKV a).map some) with
    | some t, some a => showKV (ExportArgs.exportArgs t a)
    | _, _ => "bad-op"
  | ["bw", evs] =>
    -- mp_calc_bw: what drain() hands on (input events by uid, synthesized counters in full)
    match parseList parseBEv evs with
    | some es =>
      match CalcBw.drain es with
      | .error m => "err:" ++ m
      | .ok out => if out.isEmpty then "%" else joinWith ";" (out.map showBEv)
    | none => "bad-op"
  | ["tidmap", evs] =>
    -- map_tid_to_range from the context the CLI registers (Gen/Tables): new tids | tid_original | tid_remap
    match parseList parseTEv evs with
    | some es =>
      match Small.mapAll ⟨[], Gen.tidRemap, Gen.tidStep⟩ es with
      | .error m => "err:" ++ m
      | .ok (c, out) =>
        (if out.isEmpty then "%" else joinWith "," (out.map (fun e => toString e.uid ++ ":" ++ showOptInt e.tid)))
          ++ "|" ++ showInts c.orig ++ "|" ++ showInts c.remap
    | none => "bad-op"
  | ["tidmap0", size, start, step, evs] =>
    -- the same from a freshly constructed TIDMappingContext(size, start, step)
    match parseNat? size, parseInt? start, parseInt? step, parseList parseTEv evs with
    | some n, some st, some sp, some es =>
      match Small.mapAll (Small.TidCtx.init n st sp) es with
      | .error m => "err:" ++ m
      | .ok (c, out) =>
        (if out.isEmpty then "%" else joinWith "," (out.map (fun e => toString e.uid ++ ":" ++ showOptInt e.tid)))
          ++ "|" ++ showInts c.orig ++ "|" ++ showInts c.remap
    | _, _, _, _ => "bad-op"
  | ["dropg", names] =>
    -- drop_global_events: 1 = kept, 0 = removed, per name
    match parseList (fun w => some (PhaseName.decode w)) names with
    | some ns => if ns.isEmpty then "%" else
        joinWith "," (ns.map (fun n => if Small.isGlobal Gen.glbNames n then "0" else "1"))
    | none => "bad-op"
  | ["recomb", cpuTid, evs] =>
    -- recombine_cpu_events: `uid,ph,flex,hasTS1,name,pid,tid|-` per event; answer `uid:tid|-`
    match parseInt? cpuTid, parseList (fun w => match w.splitOn "," with
        | [u, ph, f, t1, nm, p, t] =>
          match parseNat? u, parseInt? p, (if t = "-" then some none else (parseInt? t).map some) with
          | some u, some p, some t => some ({ uid := u, ph := PhaseName.decode ph, flex := b f, hasTS1 := b t1,
                                               name := PhaseName.decode nm, pid := p, tid := t } : Small.REv)
          | _, _, _ => none
        | _ => none) evs with
    | some c, some es => if es.isEmpty then "%" else
        joinWith "," ((es.map (Small.recombine c)).map (fun e => toString e.uid ++ ":" ++ showOptInt e.tid))
    | _, _ => "bad-op"
  | ["pfilter", pat, phs] =>
    match parseList (fun w => some (PhaseName.decode w)) phs with
    | some ps => if ps.isEmpty then "%" else
        joinWith "," (ps.map (fun p => if Small.keepPh (optStr pat) p then "1" else "0"))
    | none => "bad-op"
  | _ => "bad-op"

end AiuVerif.Drv.C01
