/- Line-protocol front end for the registration model (C16 correspondence). Core only. -/
import AiuVerif.Basic
import AiuVerif.Model.Registry
import AiuVerif.Gen.Sites
import AiuVerif.Gen.Profiles

namespace AiuVerif.Drv.C16
open AiuVerif AiuVerif.Registry

/-- `name:1,name:0,…`; `!` = empty list -/
def parseProfile (s : String) : Option Profile :=
  if s = "!" then some [] else
  parseAll (fun (w : String) =>
    match w.splitOn ":" with
    | [n, "1"] => some (n, true)
    | [n, "0"] => some (n, false)
    | _ => none) (fields s ",")

def showProfile (p : Profile) : String :=
  if p.isEmpty then "!" else joinWith "," (p.map fun x => x.1 ++ ":" ++ (if x.2 then "1" else "0"))

def showBools (l : List Bool) : String := String.ofList (l.map fun b => if b then '1' else '0')

def showExcept : Except String Profile → String
  | .ok p => "ok " ++ showProfile p
  | .error e => "err:" ++ e

def handle (args : List String) : String :=
  match args with
  | ["ingest", req, all] =>
    match (if req = "-" then some none else (parseProfile req).map some), parseProfile all with
    | some r, some a => showExcept (fromJson r a)
    | _, _ => "bad-op"
  | ["reg", prof, names] =>
    match parseProfile prof with
    | some p => showBools (registerAll p (if names = "!" then [] else fields names ",") 0)
    | none => "bad-op"
  | ["static", sites] =>
    match parseProfile sites with
    | some p => if staticB p then "1" else "0"
    | none => "bad-op"
  | ["gensites"] => showProfile (Gen.sites.map fun s => (s.name, s.cond))
  | ["genprofile", which] =>
    let p := match which with
      | "everything" => Gen.everything
      | "torch_minimal" => Gen.torchMinimal
      | _ => Gen.defaultProfile
    match p with
    | none => "-"
    | some l => showProfile l
  | _ => "bad-op"

end AiuVerif.Drv.C16
