/- Line-protocol front end for the PT-utilization model (C11 correspondence). Core only.

`c11 <core> <stats:0|1> <rows> <events>` with `rows = kernel,tag,cycles;…` (`tag` = `o:<cat>` | `na` |
`none`), `events = name,pid,ts,dur,hasTS,fn;…` (`fn` = `-` | `i:<int>` | `s:<str>`: args.fn_idx) (all X slices in pipeline order); strings percent-encoded,
`-` for an empty list.  Answer: `A=<ann>;… R=<row>;…` with `ann = pt,cat,ts:val~ts:val` (one per kernel
slice) and `row = pid,cat,time,fracTime,calls,ideal,idealCyc,fracIdeal,ptUtil`. -/
import AiuVerif.Basic
import AiuVerif.Model.Util
import AiuVerif.Model.LogParse
import AiuVerif.Model.PhaseName
import AiuVerif.Drv.C12

namespace AiuVerif.Drv.C11
open AiuVerif AiuVerif.Util

def parseTag (s : String) : Option CatTag :=
  if s = "na" then some .na
  else if s = "none" then some .none
  else match s.splitOn ":" with
    | ["o", c] => (C12.dec c).map .opcat
    | _ => none

def parseRow (s : String) : Option LogRow :=
  match s.splitOn "," with
  | [k, t, c] =>
    match C12.dec k, parseTag t, parseNat? c with
    | some k, some t, some c => some ⟨k, t, c⟩
    | _, _, _ => none
  | _ => none

/-- `-` (key absent) | `i:<int>` | `s:<percent-encoded string>` -/
def parseFn (s : String) : Option (Option FnIdx) :=
  if s = "-" then some none
  else match s.splitOn ":" with
    | ["i", v] => (parseInt? v).map (fun i => some (.int i))
    | ["s", v] => (C12.dec v).map (fun x => some (.str x))
    | _ => none

def parseEv (s : String) : Option UEv :=
  match s.splitOn "," with
  | [name, pid, ts, dur, h, fn] =>
    match C12.dec name, parseInt? pid, parseRat? ts, parseRat? dur, parseFn fn with
    | some n, some p, some t, some d, some f => some ⟨n, p, t, d, h == "1", f⟩
    | _, _, _, _, _ => none
  | _ => none

def showAnn (a : Ann) : String :=
  joinWith "," [showOptRat a.pt, C12.enc a.cat,
    if a.ctrs.isEmpty then "-" else joinWith "~" (a.ctrs.map fun c => showRat c.1 ++ ":" ++ showRat c.2)]

def showCRow (r : CRow) : String :=
  joinWith "," [toString r.pid, C12.enc r.cat, showRat r.time, showRat r.fracTime, toString r.calls,
    showRat r.ideal, toString r.idealCyc, showRat r.fracIdeal, showRat r.ptUtil]

def listOf (s : String) : List String := if s = "-" then [] else fields s ";"

def encSp (s : String) : String := s.replace " " "%20"

def showTable (t : LogParse.Table) : String :=
  joinWith "," (t.cycles.map (fun p => encSp p.1 ++ "=" ++ toString p.2)) ++ "|" ++
  joinWith "," (t.cats.map (fun p => encSp p.1 ++ "=" ++ encSp p.2))

def handle (args : List String) : String :=
  match args with
  | ["parse", text] =>
    -- the compiler-log parser on the percent-encoded TEXT of the file -> finished tables (cycles | categories), `#`-joined
    let st := LogParse.parseText (if text = "%" then [] else (PhaseName.decode text).toList)
    "n=" ++ toString st.done.length ++ " " ++ (if st.done.isEmpty then "%" else joinWith "#" (st.done.map showTable))
  | [core, stats, rows, evs] =>
    match parseRat? core, parseAll parseRow (listOf rows), parseAll parseEv (listOf evs) with
    | some c, some rs, some es =>
      if c ≤ 0 then "bad-op" else
      let o := run ⟨c, stats == "1"⟩ rs es
      "A=" ++ joinWith ";" (o.anns.map showAnn) ++ " R=" ++ joinWith ";" (o.rows.map showCRow)
    | _, _, _ => "bad-op"
  | _ => "bad-op"

end AiuVerif.Drv.C11
