/- Line-protocol front end for the power-statistics model (C19 correspondence). Core only.

Requests (after the word `c19`); lists use `;` between items and `,` between fields, `_` is the
empty list, numbers are `n` or `n/d`:
* `merge <s,e;…>`                      → `s,e;…`
* `split <ps> <pe> <v> <s,e;…>`        → `dur,v,0|1;…`
* `msplit <ps> <pe> <v> <s,e;…>`       → the same over `mergePeriods` of the intervals
* `stats <dur,p;…>`                    → `none` | `minNz,max,meanNz,medianNz,avgTotal,durTotal,durNz`
* `drain <s,e,w;…> <s,e;…>`            → `insufficient` | `W=<stats> WO=<stats>`
* `pipe <ph,name,ts,watts,dur;…>`      → `P=<s,e,w;…> K=<s,e;…> ` ++ the `drain` answer
  (`name`: `~` absent, else `=` ++ percent-encoded text; `ts`/`watts`/`dur`: `~` absent)
-/
import AiuVerif.Basic
import AiuVerif.Model.PowerStats

namespace AiuVerif.Drv.C19
open AiuVerif AiuVerif.PowerStats

def items (s : String) : List String := if s = "_" then [] else fields s ";"

def parsePeriod (s : String) : Option Period :=
  match s.splitOn "," with
  | [a, b] => do pure ((← parseRat? a), (← parseRat? b))
  | _ => none

def parseTriple (s : String) : Option PPeriod :=
  match s.splitOn "," with
  | [a, b, c] => do pure ((← parseRat? a), (← parseRat? b), (← parseRat? c))
  | _ => none

def hexVal (c : Char) : Option Nat :=
  if '0' ≤ c ∧ c ≤ '9' then some (c.toNat - '0'.toNat)
  else if 'A' ≤ c ∧ c ≤ 'F' then some (c.toNat - 'A'.toNat + 10)
  else if 'a' ≤ c ∧ c ≤ 'f' then some (c.toNat - 'a'.toNat + 10)
  else none

/-- `%XX` → the character with that code; anything else verbatim -/
def decChars : List Char → List Char
  | '%' :: a :: b :: rest =>
    match hexVal a, hexVal b with
    | some x, some y => Char.ofNat (16 * x + y) :: decChars rest
    | _, _ => '%' :: decChars (a :: b :: rest)
  | c :: rest => c :: decChars rest
  | [] => []

def dec (s : String) : String := String.ofList (decChars s.toList)

def parseOptRat (s : String) : Option (Option Num) :=
  if s = "~" then some none else (parseRat? s).map some

def parseName (s : String) : Option (Option String) :=
  if s = "~" then some none
  else match s.toList with
    | '=' :: rest => some (some (String.ofList (decChars rest)))
    | _ => none

def parseEv (s : String) : Option REv :=
  match s.splitOn "," with
  | [ph, name, ts, w, d] => do
    pure { ph := dec ph, name := (← parseName name), ts := (← parseOptRat ts),
           watts := (← parseOptRat w), dur := (← parseOptRat d) }
  | _ => none

def showList (f : α → String) (l : List α) : String :=
  if l.isEmpty then "_" else joinWith ";" (l.map f)

def showPeriod (p : Period) : String := showRat p.1 ++ "," ++ showRat p.2
def showPP (p : PPeriod) : String := showRat p.1 ++ "," ++ showRat p.2.1 ++ "," ++ showRat p.2.2
def showSeg (s : Seg) : String :=
  showRat s.1 ++ "," ++ showRat s.2.1 ++ "," ++ (if s.2.2 then "1" else "0")

def showStats : Option Stats → String
  | none => "none"
  | some s => joinWith "," ([s.minNz, s.max, s.meanNz, s.medianNz, s.avgTotal, s.durTotal, s.durNz].map showRat)

def showDrain : Option (Option Stats × Option Stats) → String
  | none => "insufficient"
  | some (w, wo) => "W=" ++ showStats w ++ " WO=" ++ showStats wo

def handle (args : List String) : String :=
  match args with
  | ["merge", ps] =>
    match parseAll parsePeriod (items ps) with
    | some l => showList showPeriod (mergePeriods l)
    | none => "bad-op"
  | ["split", ps, pe, v, tl] =>
    match parseRat? ps, parseRat? pe, parseRat? v, parseAll parsePeriod (items tl) with
    | some ps, some pe, some v, some tl => showList showSeg (split ps pe v tl)
    | _, _, _, _ => "bad-op"
  | ["msplit", ps, pe, v, kp] =>
    match parseRat? ps, parseRat? pe, parseRat? v, parseAll parsePeriod (items kp) with
    | some ps, some pe, some v, some kp => showList showSeg (split ps pe v (mergePeriods kp))
    | _, _, _, _ => "bad-op"
  | ["stats", segs] =>
    match parseAll parsePeriod (items segs) with
    | some l => showStats (computeStats l)
    | none => "bad-op"
  | ["drain", pp, kp] =>
    match parseAll parseTriple (items pp), parseAll parsePeriod (items kp) with
    | some pp, some kp => showDrain (drainStats pp kp)
    | _, _ => "bad-op"
  | ["pipe", evs] =>
    match parseAll parseEv (items evs) with
    | some evs =>
      let c := collect evs
      "P=" ++ showList showPP c.periods ++ " K=" ++ showList showPeriod c.kernels ++ " " ++
        showDrain (drainStats c.periods c.kernels)
    | none => "bad-op"
  | _ => "bad-op"

end AiuVerif.Drv.C19
