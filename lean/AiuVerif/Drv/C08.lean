/- Line-protocol front end for the sort model (C08 correspondence). Core only. -/
import AiuVerif.Basic
import AiuVerif.Model.Sort

namespace AiuVerif.Drv.C08
open AiuVerif AiuVerif.Sort

def parseOptRat (s : String) : Option (Option Rat) :=
  if s = "_" then some none else (parseRat? s).map some

/-- the part of an event that only the export step reads -/
structure Ex where
  ph : String
  ts : Option Rat
  dur : Option Rat

/-- `uid:acc:pid:tid:ph:ts:dur:v1;v2;…` -/
def parseEv (s : String) : Option (SEv × Ex) :=
  match s.splitOn ":" with
  | [u, a, p, t, ph, ts, dur, vs] => do
    let uid ← parseNat? u
    let pid ← parseInt? p
    let tid ← parseInt? t
    let ts ← parseOptRat ts
    let dur ← parseOptRat dur
    let vals ← parseAll parseOptRat (fields vs ";")
    pure ({ uid := uid, accepted := a == "1", pid := pid, tid := tid, vals := vals },
          { ph := ph, ts := ts, dur := dur })
  | _ => none

/-- what `convert_events` + `AbstractEventType.from_dict` export of ts/dur: ts unchanged; dur only
    survives on complete events (ph X) -/
def exported (e : SEv × Ex) : String :=
  toString e.1.uid ++ ":" ++ showOptRat e.2.ts ++ ":" ++
    (if e.2.ph == "X" then showOptRat e.2.dur else "none")

/-- `c08 sort <global 0|1> <rev,rev,…> <ev,ev,…>` → uids with exported ts/dur, in output order -/
def handle (args : List String) : String :=
  match args with
  | ["sort", g, revs, evs] =>
    match parseAll parseInt? (fields revs ","), parseAll parseEv (fields evs ",") with
    | some r, some es =>
      let out := RS.batch (sortStage r (g == "1")) (es.map (·.1))
      -- recover the export data of each output event by uid (uids are unique in a request)
      let exOf := fun (e : SEv) =>
        ((es.find? fun x => x.1.uid == e.uid).map (·.2)).getD { ph := "?", ts := none, dur := none }
      joinWith "," (out.map fun e => exported (e, exOf e))
    | _, _ => "bad-op"
  | _ => "bad-op"

end AiuVerif.Drv.C08
