/- Line-protocol front end for the flow model (C09 correspondence). Core only.

  c09 run  <ev>|<ev>|…     → `ok stale=<n> drained=<n> ids=<n> <ev>|<ev>|…`  or  `err:<kind>`
  c09 prep <ev>            → `ok <ev>[|<ev>;cat;sync;peers;typ]` or `err:<kind>` (flow_prepare_event_data on one event)
  c09 name <enc name>      → `strip=<enc>;sync=<n|s:enc>;sd=<0|1>;rp=<n|int>;bt=<0|1>`
  c09 int  <enc str>       → `n` | `<int>`
  c09 final <ev>|…         → `final=<0|1>` for the queue made of the helper copies of the events

  input  ev : ph;pid;tid;ts;dur;name;cat;uid;args     (dur: n|rat, cat: n|s:enc,
              args: n | peer~peers~typ~cg~bytes~jobhash ; peer: n | s:enc | i:int | l:item,item…)
  output ev : ph;pid;tid;ts;dur;name;cat;uid;id;bp;pk  (pk: - | <Peer?><Peers?>)
-/
import AiuVerif.Basic
import AiuVerif.Model.Flow

namespace AiuVerif.Drv.C09
open AiuVerif AiuVerif.Flow

def hexVal (c : Char) : Option Nat :=
  if '0' ≤ c && c ≤ '9' then some (c.toNat - '0'.toNat)
  else if 'A' ≤ c && c ≤ 'F' then some (c.toNat - 'A'.toNat + 10)
  else if 'a' ≤ c && c ≤ 'f' then some (c.toNat - 'a'.toNat + 10)
  else none

def decL : List Char → List Char
  | '%' :: a :: b :: l =>
    match hexVal a, hexVal b with
    | some x, some y => Char.ofNat (16 * x + y) :: decL l
    | _, _ => '%' :: decL (a :: b :: l)
  | c :: l => c :: decL l
  | [] => []

def dec (s : String) : String := if s = "%00" then "" else String.ofList (decL s.toList)

def hexDigit (n : Nat) : Char :=
  if n < 10 then Char.ofNat ('0'.toNat + n) else Char.ofNat ('A'.toNat + n - 10)

def encC (c : Char) : List Char :=
  if c.isAlphanum || "_-.:()[]=+<>".toList.contains c then [c]
  else ['%', hexDigit (c.toNat / 16 % 16), hexDigit (c.toNat % 16)]

def enc (s : String) : String :=
  if s = "" then "%00" else String.ofList (s.toList.flatMap encC)

def optS (s : String) : Option (Option String) :=
  if s = "n" then some none
  else match s.toList with
    | 's' :: ':' :: r => some (some (dec (String.ofList r)))
    | _ => none

def parseItem (s : String) : Option PeerItem :=
  match s.toList with
  | 's' :: ':' :: r => some (.s (dec (String.ofList r)))
  | 'i' :: ':' :: r => (parseInt? (String.ofList r)).map .i
  | _ => none

def parsePeerVal (s : String) : Option (Option PeerVal) :=
  if s = "n" then some none
  else match s.toList with
    | 's' :: ':' :: r => some (some (.str (dec (String.ofList r))))
    | 'i' :: ':' :: r => (parseInt? (String.ofList r)).map (fun v => some (.int v))
    | 'l' :: ':' :: r => (parseAll parseItem (fields (String.ofList r) ",")).map (fun l => some (.list l))
    | _ => none

def parseArgs (s : String) : Option (Option Args) :=
  if s = "n" then some none
  else match s.splitOn "~" with
    | [p, ps, t, cg, b, jh] => do
      let peer ← parsePeerVal p
      let peers ← parsePeerVal ps
      let typ ← optS t
      let cg ← optS cg
      let jobhash ← if jh = "n" then some none else (parseInt? jh).map some
      pure (some { peer := peer, peers := peers, typ := typ, collGroup := cg, hasBytes := b = "1", jobhash := jobhash })
    | _ => none

def parseEv (s : String) : Option Ev :=
  match s.splitOn ";" with
  | [ph, pid, tid, ts, dur, name, cat, uid, args] => do
    let pid ← parseInt? pid
    let tid ← parseInt? tid
    let ts ← parseRat? ts
    let dur ← if dur = "n" then some none else (parseRat? dur).map some
    let cat ← optS cat
    let uid ← parseNat? uid
    let args ← parseArgs args
    pure { ph := dec ph, pid := pid, tid := tid, ts := ts, dur := dur, name := dec name, cat := cat,
           uid := uid, args := args }
  | _ => none

def showOptS : Option String → String
  | none => "n"
  | some s => "s:" ++ enc s

def showEv (e : Ev) : String :=
  let pk := match e.args with
    | none => "-"
    | some a => (if a.peer.isSome then "1" else "0") ++ (if a.peers.isSome then "1" else "0")
  joinWith ";" [enc e.ph, toString e.pid, toString e.tid, showRat e.ts,
    (match e.dur with | none => "n" | some d => showRat d), enc e.name, showOptS e.cat,
    (if e.ph = "s" || e.ph = "f" then "-" else toString e.uid),
    (match e.id with | none => "n" | some i => toString i), showOptS e.bp, pk]

def parseEvs (s : String) : Option (List Ev) :=
  if s = "-" then some [] else parseAll parseEv (fields s "|")

def runStats (input : List Ev) : String :=
  match prepareAll input with
  | .error _ => ""
  | .ok a =>
    match extractStream {} a with
    | .error _ => ""
    | .ok (st, _) =>
      let dropped := (st.groups.filter (fun g => !detectFinal g.queue)).length
      match drainGroups st.seq st.groups with
      | .error _ => ""
      | .ok (seq, _) =>
        "stale=" ++ toString st.stale ++ " drained=" ++ toString dropped ++ " ids=" ++ toString (seq - 1000000)

def helperQueue (input : List Ev) : Except Err (List Q) := do
  let a ← prepareAll input
  let hs := a.filter (fun e => e.ph = "F")
  hs.mapM toQ

def handle (args : List String) : String :=
  match args with
  | ["run", evs] =>
    match parseEvs evs with
    | none => "bad-op"
    | some input =>
      match runFlow input with
      | .error e => e.show
      | .ok out => "ok " ++ runStats input ++ " " ++ (if out.isEmpty then "-" else joinWith "|" (out.map showEv))
  | ["final", evs] =>
    match parseEvs evs with
    | none => "bad-op"
    | some input =>
      match helperQueue input with
      | .error e => e.show
      | .ok q => "final=" ++ (if detectFinal q then "1" else "0")
  | ["prep", ev] =>
    match parseEv ev with
    | none => "bad-op"
    | some e =>
      match prepare e with
      | .error er => er.show
      | .ok out => "ok " ++ joinWith "|" (out.map fun x => showEv x ++ (match x.hlp with
          | none => ""
          | some h => ";" ++ enc h.cat ++ ";" ++ enc h.sync ++ ";" ++
              (if h.peers.isEmpty then "-" else joinWith "," (h.peers.map toString)) ++ ";" ++ toString h.typ))
  | ["name", n] =>
    let name := dec n
    "strip=" ++ enc (stripBytes name) ++ ";sync=" ++ showOptS (syncTag name) ++ ";sd=" ++
      (if isSendData name then "1" else "0") ++ ";rp=" ++
      (match recvPeer name with | none => "n" | some k => toString k) ++ ";bt=" ++
      (if hasBytesTag name.toList then "1" else "0")
  | ["int", s] =>
    match pyInt? (dec s) with
    | none => "n"
    | some v => toString v
  | _ => "bad-op"

end AiuVerif.Drv.C09
