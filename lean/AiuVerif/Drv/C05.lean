/- Line-protocol front end for the normalize model (C05 correspondence). Core only.

`c05 <new|old> <freq> <ignore_crit 0|1> <ev>;<ev>;…` with
`<ev> = uid,ph,pid,name,ts,dur,tsx`, `ph`/`name` percent-encoded, `ts`/`dur`/`freq` rationals `n/d`,
`tsx` = `-` or `c1:c2:…` (integers).
Answer: `ok uid,ovc,tsxof,c1:…:c5;…` (one item per event leaving `event_sanity_checks`, in order; `-` = absent)
or `err:<assert|zerodiv|keyerror>`.
-/
import AiuVerif.Basic
import AiuVerif.Model.Normalize

namespace AiuVerif.Drv.C05
open AiuVerif AiuVerif.Normalize AiuVerif.PhaseName

def parseTsx (s : String) : Option (Option (List Int)) :=
  if s = "-" then some none else (parseAll parseInt? (s.splitOn ":")).map some

def parseEv (s : String) : Option Ev :=
  match s.splitOn "," with
  | [uid, ph, pid, name, ts, dur, tsx] =>
    match parseNat? uid, parseInt? pid, parseRat? ts, parseRat? dur, parseTsx tsx with
    | some uid, some pid, some ts, some dur, some tsx =>
      some { uid := uid, ph := decode ph, pid := pid, name := decode name, ts := ts, dur := dur, tsx := tsx }
    | _, _, _, _, _ => none
  | _ => none

def showOpt {α : Type} (f : α → String) : Option α → String
  | none => "-"
  | some a => f a

def showEv (e : Ev) : String :=
  joinWith "," [toString e.uid, showOpt toString e.ovc, showOpt toString e.tsxof,
    showOpt (fun cs => joinWith ":" (cs.map toString)) e.tsx]

def handle (args : List String) : String :=
  match args with
  | op :: f :: ic :: rest =>
    let evs := match rest with
      | [] => some []
      | [s] => parseAll parseEv (fields s ";")
      | _ => none
    match parseRat? f, evs with
    | some f, some evs =>
      if f ≤ 0 then "bad-op" else
      let r := match op with
        | "new" => some (pipeline f (ic == "1") evs)
        | "old" => some (pipelineOld f (ic == "1") evs)
        | _ => none
      match r with
      | none => "bad-op"
      | some (.error m) => "err:" ++ m
      | some (.ok out) => "ok " ++ joinWith ";" (out.map showEv)
    | _, _ => "bad-op"
  | _ => "bad-op"

end AiuVerif.Drv.C05
