/- Line-protocol front end for the global-store engine model (C03, shared contexts). Core only. -/
import AiuVerif.Basic
import AiuVerif.Model.EngineG

namespace AiuVerif.Drv.C03G
open AiuVerif

/-- the heap of context objects of one run: private hold lists by stage index, the module-level
    barrier hold, and ONE two-phase context shared by every `collect` / `apply` stage -/
structure Store where
  priv : List (Nat × List Nat) := []
  barrier : List Nat := []
  phase : Bool := false
  count : Nat := 0
  held : List Nat := []

def getP (s : Store) (i : Nat) : List Nat := ((s.priv.find? (·.1 == i)).map (·.2)).getD []
def setP (s : Store) (i : Nat) (l : List Nat) : Store :=
  { s with priv := (i, l) :: s.priv.filter (·.1 != i) }

def noDrain : Store → Store × List Nat := fun s => (s, [])
def unitS (f : Nat → List Nat) : GStage Store Nat := { step := fun s x => (s, f x), drain := noDrain }

/-- the drain of the shared two-phase context: the first call ends the collection phase, later
    calls release what the applying stages hold -/
def tpDrain (s : Store) : Store × List Nat :=
  if s.phase then ({ s with held := [] }, s.held) else ({ s with phase := true }, [])

def stageOf (i : Nat) : String → Option (GStage Store Nat)
  | "pass" => some (unitS fun x => [x])
  | "drop" => some (unitS fun x => if x % 2 == 0 then [] else [x])
  | "dup" => some (unitS fun x => [x, x + 1000])
  | "twice" => some (unitS fun x => [x, x])      -- the README template: the event and an equal copy
  | "expand" => some (unitS fun x => [x + 2000, x, x + 3000])
  | "dropall" => some (unitS fun _ => [])
  | "hold" => some { step := fun s x => (setP s i (getP s i ++ [x]), []),
                     drain := fun s => (setP s i [], getP s i) }
  | "rev" => some { step := fun s x => (setP s i (x :: getP s i), []),
                    drain := fun s => (setP s i [], getP s i) }
  | "delay" => some { step := fun s x => (setP s i [x], getP s i),
                      drain := fun s => (setP s i [], getP s i) }
  | "gen" => some { step := fun s x => (s, [x]), drain := fun s => (s, [9000]) }
  | "barrier" => some { step := fun s x => ({ s with barrier := s.barrier ++ [x] }, []),
                        drain := fun s => ({ s with barrier := [] }, s.barrier) }
  | "collect" => some { step := fun s x => ({ s with count := s.count + 1 }, [x]), drain := tpDrain }
  | "apply" => some { step := fun s x => ({ s with held := s.held ++ [x + s.count] }, []), drain := tpDrain }
  | _ => none

def stagesOf : Nat → List String → Option (List (GStage Store Nat))
  | _, [] => some []
  | i, k :: ks => do
    let st ← stageOf i k
    let rest ← stagesOf (i + 1) ks
    pure (st :: rest)

def showNats (l : List Nat) : String := joinWith "," (l.map toString)

def showDels : List (GLog Nat) → List String
  | [] => []
  | .del k x :: l => (toString k ++ ":" ++ toString x) :: showDels l
  | .emit _ _ :: l => showDels l

/-- `c03g <kind,kind,…> <id,id,…>`  →  `out=<ids> log=<stage:id,…>` (deliveries only) -/
def handle (args : List String) : String :=
  match args with
  | [kinds, ids] =>
    match stagesOf 0 (fields kinds ","), parseAll parseNat? (fields ids ",") with
    | some p, some input =>
      "out=" ++ showNats (GStage.run p {} input) ++ " log=" ++
        joinWith "," (showDels (GStage.runLog p {} input))
    | _, _ => "bad-op"
  | _ => "bad-op"

end AiuVerif.Drv.C03G
