/- Line-protocol front end for the engine model (C03 correspondence). Core only. -/
import AiuVerif.Basic
import AiuVerif.Model.Engine

namespace AiuVerif.Drv.C03
open AiuVerif

def unitS (f : Nat → List Nat) : RS Nat :=
  { σ := Unit, s := (), step := fun _ x => ((), f x), drain := fun _ => [] }

def holdS : RS Nat :=
  { σ := List Nat, s := [], step := fun s x => (s ++ [x], []), drain := fun s => s }
def revS : RS Nat :=
  { σ := List Nat, s := [], step := fun s x => (x :: s, []), drain := fun s => s }
def optList : Option Nat → List Nat
  | none => []
  | some y => [y]
def delayS : RS Nat :=
  { σ := Option Nat, s := none, step := fun s x => (some x, optList s), drain := optList }

/-- passes everything on and synthesizes one new event when its context is drained (as the real
    counter / flow stages do) -/
def genS : RS Nat :=
  { σ := Unit, s := (), step := fun _ x => ((), [x]), drain := fun _ => [9000] }

/-- the behaviours the Python harness registers as real callbacks + contexts -/
def stageOf : String → Option (BStage Nat)
  | "pass" => some (.priv (unitS fun x => [x]))
  | "drop" => some (.priv (unitS fun x => if x % 2 == 0 then [] else [x]))
  | "dup" => some (.priv (unitS fun x => [x, x + 1000]))
  | "twice" => some (.priv (unitS fun x => [x, x]))      -- the README template: the event and an equal copy
  | "expand" => some (.priv (unitS fun x => [x + 2000, x, x + 3000]))
  | "dropall" => some (.priv (unitS fun _ => []))
  | "hold" => some (.priv holdS)
  | "rev" => some (.priv revS)
  | "delay" => some (.priv delayS)
  | "gen" => some (.priv genS)
  | "barrier" => some .barrier
  | _ => none

/-! delivery log of the shared-barrier engine (executable mirror of `RS.runLog`; the theorems
about logs are stated on the private-state engine, `shared_barrier_ok` relates the two) -/

def feedLog (k : Nat) (hold : List Nat) : List (BStage Nat) → List Nat → List (Nat × Nat)
  | [], _ => []
  | st :: rest, xs =>
    let r := BStage.feed1 hold st xs
    xs.map (fun x => (k, x)) ++ feedLog (k + 1) r.2.2 rest r.2.1

def streamLog (k : Nat) : List Nat → List (BStage Nat) → List Nat → List (Nat × Nat)
  | _, _, [] => []
  | hold, p, x :: xs =>
    let r := BStage.feed hold p [x]
    feedLog k hold p [x] ++ streamLog k r.2.2 r.1 xs

def drainLog (fuel k : Nat) (hold : List Nat) : List (BStage Nat) → List (Nat × Nat)
  | [] => []
  | st :: rest =>
    match fuel with
    | 0 => []
    | fuel + 1 =>
      let d := BStage.drainOf hold st
      let r := BStage.stream d.2 rest d.1
      streamLog (k + 1) d.2 rest d.1 ++ drainLog fuel (k + 1) r.2.2 r.1

def runLog (p : List (BStage Nat)) (input : List Nat) : List (Nat × Nat) :=
  let r := BStage.stream [] p input
  streamLog 0 [] p input ++ drainLog (p.length + 1) 0 r.2.2 r.1

def showNats (l : List Nat) : String := joinWith "," (l.map toString)

/-- `c03 <kind,kind,…> <id,id,…>`  →  `out=<ids> log=<stage:id,…>` -/
def handle (args : List String) : String :=
  match args with
  | [kinds, ids] =>
    match parseAll stageOf (fields kinds ","), parseAll parseNat? (fields ids ",") with
    | some p, some input =>
      let out := BStage.run [] p input
      let log := runLog p input
      "out=" ++ showNats out ++ " log=" ++ joinWith "," (log.map fun e => toString e.1 ++ ":" ++ toString e.2)
    | _, _ => "bad-op"
  | _ => "bad-op"

end AiuVerif.Drv.C03
