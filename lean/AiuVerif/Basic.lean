/-
Shared helpers of the executable models: the line protocol used by the correspondence
driver (ints, exact rationals `n/d`, `;`/`|` separated lists).  Core Lean only.
-/
universe u
namespace AiuVerif

abbrev Num := Rat

def parseInt? (s : String) : Option Int := s.toInt?

def parseNat? (s : String) : Option Nat := s.toNat?

/-- `n` or `n/d` (d > 0) -/
def parseRat? (s : String) : Option Rat :=
  match s.splitOn "/" with
  | [n] => (parseInt? n).map (fun i => (i : Rat))
  | [n, d] =>
    match parseInt? n, parseNat? d with
    | some i, some k => if k = 0 then none else some (mkRat i k)
    | _, _ => none
  | _ => none

def showRat (q : Rat) : String :=
  if q.den = 1 then toString q.num else toString q.num ++ "/" ++ toString q.den

def showOptRat : Option Rat → String
  | none => "none"
  | some q => showRat q

/-- split on a separator and drop empty pieces -/
def fields (s : String) (sep : String) : List String :=
  (s.splitOn sep).filter (· ≠ "")

def words (s : String) : List String := fields s " "

def parseAll {α : Type u} (f : String → Option α) : List String → Option (List α)
  | [] => some []
  | x :: xs => do
    let a ← f x
    let as ← parseAll f xs
    pure (a :: as)

def joinWith (sep : String) (l : List String) : String := sep.intercalate l

end AiuVerif
