/-
C14 — inventory of process-level mutable state.

`Model/Hidden.lean` makes the hidden inputs explicit and `Props/C14.lean` proves the output
independent of them; what no theorem can establish is that the LIST of hidden inputs is complete.
This module pins that list to the source: the translator enumerates every module-level and
class-level mutable object of the package (dict / list / set, instances, attributes assigned
through `cls.`), and `hidden_inventory` demands that every enumerated object is on the reviewed list
below.  A new cache, registry or class-level accumulator anywhere in the package changes the
generated inventory and breaks the obligation — before any differential run has to get lucky.

Review of every entry (why it cannot carry information from one run into the next):
  read-only tables      TS_KEYS_LIST, _MINREQKEYS, logcolor_codes, _transfer_classes, _event_type_map,
                        OPENING_EVENTS, CLOSING_EVENTS, MATCHKEYS, _non_kernel_names,
                        _SUPPORTED_STAT_CLASS, _FLEX_DIALECT, _TORCH_DIALECT,
                        InputDialect.categories / dialect_map (filled once by the dialect singletons
                        with constants), the dialect singleton attributes
  option defaults       Acelyzer.defaults (read; parsed values are merged into a COPY —
                        C14.option_defaults_invisible, witness option_defaults_in_place_leak)
  modelled hidden state _main_barrier_context (barrierHold; emptied at registration),
                        GlobalIngestData._instance / _jobmap and normalize._jobinfo (jobmap; every
                        run re-registers the jobs it reads — history_invisible)
  never used by the CLI NormalizationContext._default_limits (the CLI always passes its own EventLimiter)
-/
import AiuVerif.Gen.Globals

namespace AiuVerif.C14

def reviewedInventory : List (String × String × String) := [
  ("constants", "TS_KEYS_LIST", "list"),
  ("core.acelyzer", "Acelyzer.defaults", "dict"),
  ("core.processing", "_MINREQKEYS", "list"),
  ("logger", "logcolor_codes", "list"),
  ("pipeline.barrier", "_main_barrier_context", "instance:_BarrierContext"),
  ("pipeline.categorize", "EventCategorizerContext._transfer_classes", "list"),
  ("pipeline.coll_group", "_event_type_map", "dict"),
  ("pipeline.context", "AbstractContext.CLOSING_EVENTS", "list"),
  ("pipeline.context", "AbstractContext.OPENING_EVENTS", "list"),
  ("pipeline.inverse_ts", "InversedTSDetectionContext.MATCHKEYS", "list"),
  ("pipeline.normalize", "NormalizationContext._default_limits", "instance:EventLimiter"),
  ("pipeline.normalize", "_jobinfo", "instance:GlobalIngestData"),
  ("pipeline.rcu_utilization", "RCUUtilizationContext._non_kernel_names", "list"),
  ("pipeline.stats_v2", "_SUPPORTED_STAT_CLASS", "dict"),
  ("types", "GlobalIngestData._instance", "cls-attr"),
  ("types", "GlobalIngestData._jobmap", "cls-attr"),
  ("types", "InputDialect.categories", "set"),
  ("types", "InputDialect.dialect_map", "dict"),
  ("types", "InputDialectFLEX._FLEX_DIALECT", "dict"),
  ("types", "InputDialectFLEX._flex_dialect_instance", "cls-attr"),
  ("types", "InputDialectTORCH._TORCH_DIALECT", "dict"),
  ("types", "InputDialectTORCH._torch_dialect_instance", "cls-attr")
]

/-- **Every piece of process-level mutable state of the package is on the reviewed list** (re-decided
on the inventory generated from the current source on every run).  State that disappears (a list
turned into a tuple, a registry removed) needs no review; anything new does. -/
theorem hidden_inventory : ∀ g ∈ Gen.globals, g ∈ reviewedInventory := by decide +kernel

/-- the reviewed list is not padded: on the current tree every reviewed entry exists
(an `example`, not an obligation: a harmless removal must not raise an alarm) -/
example : reviewedInventory.length = 22 := rfl

/-! ### mutable default argument values

A parameter that defaults to a list / dict / set display is ONE object per process, shared by every call that omits
the argument: the classic place for state to survive between runs.  Review of every entry of the current tree:
  copied before use      IterationStatus.__init__ collected_ts (deepcopy), TraceView.__init__ trace_events / other_data /
                         stack_frames / samples (list(..) / dict(..)), TraceWarning.__init__ update_fn (comprehension)
  only read              AbstractContext.issue_warning data (len, handed to update), TraceWarning.update data (items())
  stored but never used  DurationEvents.__init__ / CounterEvents.__init__ args (stored as `self.args`; every construction
                         of the package goes through `AbstractEventType.from_dict`, which always passes `args`) -/

def reviewedDefaults : List (String × String × String) := [
  ("pipeline.context", "AbstractContext.issue_warning", "data"),
  ("pipeline.iteration_detect", "IterationStatus.__init__", "collected_ts"),
  ("trace_view", "TraceView.__init__", "trace_events"),
  ("trace_view", "TraceView.__init__", "other_data"),
  ("trace_view", "TraceView.__init__", "stack_frames"),
  ("trace_view", "TraceView.__init__", "samples"),
  ("trace_view", "DurationEvents.__init__", "args"),
  ("trace_view", "CounterEvents.__init__", "args"),
  ("types", "TraceWarning.__init__", "update_fn"),
  ("types", "TraceWarning.update", "data")
]

/-- **Every mutable default argument value of the package is on the reviewed list** (re-decided on the list the
translator extracts from the current source on every run): a new `def f(x, cache={})` anywhere breaks the obligation. -/
theorem mutable_defaults_reviewed : ∀ d ∈ Gen.mutableDefaults, d ∈ reviewedDefaults := by decide +kernel

example : Gen.mutableDefaults.length = 10 := rfl

end AiuVerif.C14
