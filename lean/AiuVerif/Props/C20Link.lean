/-
C20, pipeline level: `summarize` (collection over the WHOLE stream, then application over the
whole stream) is what the streaming engine computes for the registered block

    communication_event_collection (ctx) → pipeline_barrier (shared hold) → communication_event_apply (ctx)

Collection and application share ONE context object and the barrier appends to the module-level
hold list, so the block is modelled on the global-store engine (`Model/EngineG.lean`): the store
holds the context's sequence table, its phase flag and the barrier's hold list.  `Order.comm_order`
shows on the generated site list that the three registrations are contiguous, the barrier is
unconditional and both callbacks receive the same context object.

An exception raised inside a callback aborts the real run; the theorem therefore speaks about the
inputs on which `summarize` returns (`C20.summarize_total` says which those are).
-/
import AiuVerif.Model.EngineG
import AiuVerif.Props.C20

namespace AiuVerif.C20
open AiuVerif AiuVerif.Comm

/-- the part of the heap the block touches -/
structure Heap where
  /-- `CommunicationGroupContext.queues` -/
  st : Comm.St
  /-- `TwoPhaseWithBarrierContext.phase` is the application phase -/
  applying : Bool
  /-- `_main_barrier_context.hold` -/
  hold : List COut
  /-- an exception was raised (the real run has aborted; nothing more is emitted) -/
  failed : Bool

/-- `communication_event_collection` with context `ctx` -/
def collectStage : GStage Heap COut where
  step := fun h x =>
    if h.failed then (h, []) else
    match x with
    | .pass ev =>
      match collectStep h.st ev with
      | .error _ => ({ h with failed := true }, [])
      | .ok st' => ({ h with st := st' }, [x])
    | .merged .. => (h, [x])
  drain := fun h => ({ h with applying := true }, [])

/-- `pipeline_barrier` with `_main_barrier_context` -/
def barrierStage : GStage Heap COut where
  step := fun h x => ({ h with hold := h.hold ++ [x] }, [])
  drain := fun h => ({ h with hold := [] }, h.hold)

/-- `communication_event_apply` with the same context `ctx` -/
def applyStage : GStage Heap COut where
  step := fun h x =>
    if h.failed then (h, []) else
    match x with
    | .pass ev =>
      match applyStep h.st ev with
      | .error _ => ({ h with failed := true }, [])
      | .ok r => ({ h with st := r.1 }, r.2)
    | .merged .. => (h, [x])
  drain := fun h => ({ h with applying := true }, [])

def block : List (GStage Heap COut) := [collectStage, barrierStage, applyStage]

def heap0 : Heap := { st := [], applying := false, hold := [], failed := false }

/-! ### streaming phase: everything is collected and held, nothing reaches `apply` -/

theorem feed_collect (ev : CEv) (h : Heap) (st1 : Comm.St) (hf : h.failed = false)
    (hs : collectStep h.st ev = .ok st1) :
    GStage.feed block h [COut.pass ev]
      = ({ h with st := st1, hold := h.hold ++ [COut.pass ev] }, []) := by
  simp [block, GStage.feed, GStage.feed1, collectStage, barrierStage, applyStage, hf, hs]

theorem stream_collect (evs : List CEv) (h : Heap) (st' : Comm.St) (hf : h.failed = false)
    (hc : collectFrom h.st evs = .ok st') :
    GStage.stream block h (evs.map COut.pass)
      = ({ h with st := st', hold := h.hold ++ evs.map COut.pass }, []) := by
  induction evs generalizing h with
  | nil =>
    simp only [collectFrom, Except.ok.injEq] at hc
    subst hc
    simp [GStage.stream]
  | cons ev rest ih =>
    simp only [collectFrom] at hc
    cases hs : collectStep h.st ev with
    | error e => rw [hs] at hc; cases hc
    | ok st1 =>
      rw [hs] at hc
      have IH := ih { h with st := st1, hold := h.hold ++ [COut.pass ev] } hf hc
      simp only [List.map_cons, GStage.stream, feed_collect ev h st1 hf hs, IH]
      simp

/-! ### drain phase: the held stream is applied in order -/

theorem feed_apply (ev : CEv) (h : Heap) (r1 : Comm.St × List COut) (hf : h.failed = false)
    (hs : applyStep h.st ev = .ok r1) :
    GStage.feed [applyStage] h [COut.pass ev] = ({ h with st := r1.1 }, r1.2) := by
  simp [GStage.feed, GStage.feed1, applyStage, hf, hs]

theorem stream_apply (evs : List CEv) (h : Heap) (r : Comm.St × List COut) (hf : h.failed = false)
    (ha : applyFrom h.st evs = .ok r) :
    GStage.stream [applyStage] h (evs.map COut.pass) = ({ h with st := r.1 }, r.2) := by
  induction evs generalizing h r with
  | nil =>
    simp only [applyFrom, Except.ok.injEq] at ha
    subst ha
    simp [GStage.stream]
  | cons ev rest ih =>
    simp only [applyFrom] at ha
    cases hs : applyStep h.st ev with
    | error e => rw [hs] at ha; cases ha
    | ok r1 =>
      rw [hs] at ha
      cases hr : applyFrom r1.1 rest with
      | error e => simp only [hr] at ha; cases ha
      | ok r2 =>
        simp only [hr, Except.ok.injEq] at ha
        subst ha
        have IH := ih { h with st := r1.1 } r2 hf hr
        simp only [List.map_cons, GStage.stream, feed_apply ev h r1 hf hs, IH]

theorem collect_drain (h : Heap) : collectStage.drain h = ({ h with applying := true }, []) := rfl
theorem barrier_drain (h : Heap) : barrierStage.drain h = ({ h with hold := [] }, h.hold) := rfl
theorem apply_drain (h : Heap) : applyStage.drain h = ({ h with applying := true }, []) := rfl

/-- `EventProcessor.drain` over the block: the context switches to the application phase, the
barrier releases the held stream, and that stream goes through `apply` element by element -/
theorem drain_block (h : Heap) :
    GStage.drainAll block h =
      ({ (GStage.stream [applyStage] { h with applying := true, hold := [] } h.hold).1 with applying := true },
       (GStage.stream [applyStage] { h with applying := true, hold := [] } h.hold).2) := by
  simp only [block, GStage.drainAll, collect_drain, barrier_drain, apply_drain, GStage.stream,
    List.append_nil, List.nil_append]

/-- **The registered block computes `summarize`.**  For every input stream on which `summarize`
returns, the streaming engine run over collection → shared barrier → application (one context
object for both callbacks) hands on exactly the events `summarize` lists, in that order, and leaves
exactly `left` sequences in the context — `count_balanced` at pipeline level, with no assumption
about how the stream was cut into `process()` calls. -/
theorem block_computes_summarize (evs : List CEv) (outs : List COut) (left : Nat)
    (h : summarize evs = .ok (outs, left)) :
    GStage.run block heap0 (evs.map COut.pass) = outs ∧
    (GStage.drainAll block (GStage.stream block heap0 (evs.map COut.pass)).1).1.st.length = left := by
  unfold summarize at h
  cases hc : collectFrom [] evs with
  | error e => rw [hc] at h; cases h
  | ok st' =>
    rw [hc] at h
    cases ha : applyFrom st' evs with
    | error e => simp only [ha] at h; cases h
    | ok r =>
      simp only [ha, Except.ok.injEq, Prod.mk.injEq] at h
      obtain ⟨h1, h2⟩ := h
      have S := stream_collect evs heap0 st' rfl hc
      have A := stream_apply evs { heap0 with st := st', applying := true } r rfl ha
      simp only [heap0, List.nil_append] at S A
      simp only [GStage.run, heap0, S, List.nil_append, drain_block, A]
      exact ⟨h1, h2⟩

/-- the block never delivers anything to `apply` before the whole stream has been collected:
during the streaming phase nothing leaves the block -/
theorem nothing_applied_while_streaming (evs : List CEv) (st' : Comm.St)
    (hc : collectFrom [] evs = .ok st') :
    (GStage.stream block heap0 (evs.map COut.pass)).2 = [] := by
  rw [stream_collect evs heap0 st' rfl hc]

/-- non-vacuity: the sample stream of `Props/C20.lean` goes through the block and comes out merged -/
example : (summarize sample).toOption.isSome = true ∧
    (GStage.run block heap0 (sample.map COut.pass)).length = 4 := by
  decide +kernel

end AiuVerif.C20
