/-
C14 — same inputs and options give identical results across runs and environments.

Property theorems only; the model of the hidden inputs is `Model/Hidden.lean`, helper lemmas are in
`Lemmas/Hidden.lean`, the engine facts come from C03 (`run_eq_runSpec`, `shared_barrier_ok`).

Scope, stated plainly: the theorems say that the *modelled* hidden inputs (salted string hash,
leftover content of the shared barrier, the process-wide job map — after any history of complete
and aborted runs) cannot reach the output of a run.  They cannot say that the list of hidden inputs
is complete; that is what the differential experiment of `harness/props/c14.py` is for.
All statements hold for arbitrary stage callbacks / contexts, pipeline lengths, inputs and histories.
-/
import AiuVerif.Lemmas.Hidden
import AiuVerif.Props.C03

namespace AiuVerif
namespace C14
open Hid
variable {ε : Type}

/-! ### `-I`: intermediate dumps are invisible -/

/-- **`intermediate_invisible` (engine level).**  Following every registered stage by a
`duplicate_and_hold` stage changes nothing of what the engine exports — for every pipeline (shared
barriers included), every input and every initial content of the shared barrier. -/
theorem intermediate_invisible (hold : List ε) (p : List (BStage ε)) (input : List ε) :
    BStage.run hold (withDah p) input = BStage.run hold p input := by
  induction p generalizing hold input with
  | nil => rfl
  | cons st rest ih =>
    cases st with
    | priv st =>
      simp only [withDah]
      rw [C03.brun_priv, C03.brun_priv, batch_dah, ih, C03.brun_priv]
    | barrier =>
      simp only [withDah]
      rw [C03.brun_barrier, C03.brun_priv, batch_dah, ih, C03.brun_barrier]

/-- the same for a whole run of the analyzer: `-I` does not change the result (complete or aborted),
    whatever the hidden state -/
theorem intermediate_invisible_run (h : Hidden ε) (r : Run ε) :
    (runProc h { r with intermediate := true }).1 = (runProc h { r with intermediate := false }).1 := by
  cases ha : r.abortAt with
  | some n => simp [runProc]
  | none =>
    simp only [runProc, runH_fst, Run.pipeline, Run.jobmapAfter, if_true]
    rw [intermediate_invisible]
    simp

/-! ### the conditions under which the two lookups of hidden inputs are benign -/

/-- what the property needs of the events that reach a stage which touches a hidden input -/
def GoodAt (regKeys : List Nat) (H : String → Nat) : Stage ε → List ε → Prop
  | .jobAnnot keyOf _, xs => ∀ e ∈ xs, keyOf e ∈ regKeys
  | .hashGroup key _, xs => InjOn H (xs.map key)
  | .priv _, _ => True
  | .barrier, _ => True

/-- … along the specification run (which mentions no hidden input) -/
def GoodFrom (regKeys : List Nat) (H : String → Nat) (jmS : Jobmap) : List (Stage ε) → List ε → Prop
  | [], _ => True
  | s :: rest, xs => GoodAt regKeys H s xs ∧ GoodFrom regKeys H jmS rest (RS.batch (specRS jmS s) xs)

/-- the job ids this run registers itself -/
def regKeys (r : Run ε) : List Nat := r.topKey :: r.files.map (·.key)

/-- **Well-formedness of a run with respect to a string hash `H`:** every event that reaches a job
lookup carries the id of one of this run's own sources, and `H` does not collide on the grouping
keys that actually occur.  (Python: ids are only ever copied from ingested events; a collision of the
64-bit `hash` on a handful of kernel names is the excluded case — see `hash_collision_merges`.) -/
def GoodRun (H : String → Nat) (r : Run ε) : Prop :=
  GoodFrom (regKeys r) H (r.jobmapAfter []) r.stages r.input

theorem stage_batch_eq (keys : List Nat) (H : String → Nat) (jm jmS : Jobmap)
    (hjm : ∀ k ∈ keys, jmLookup k jm = jmLookup k jmS) (s : Stage ε) (xs : List ε)
    (hg : GoodAt keys H s xs) :
    RS.batch (instRS jm H s) xs = RS.batch (specRS jmS s) xs := by
  cases s with
  | priv st => rfl
  | barrier => rfl
  | jobAnnot keyOf f =>
    exact batch_annot_congr jm jmS keyOf f xs (fun e he => hjm _ (hg e he))
  | hashGroup key emit =>
    exact batch_group H key emit xs hg

theorem runSpec_inst_eq_spec (keys : List Nat) (H : String → Nat) (jm jmS : Jobmap)
    (hjm : ∀ k ∈ keys, jmLookup k jm = jmLookup k jmS) (stages : List (Stage ε)) (input : List ε)
    (hg : GoodFrom keys H jmS stages input) :
    RS.runSpec (stages.map (instRS jm H)) input = RS.runSpec (stages.map (specRS jmS)) input := by
  induction stages generalizing input with
  | nil => rfl
  | cons s rest ih =>
    obtain ⟨h1, h2⟩ := hg
    simp only [List.map_cons, RS.runSpec, List.foldl_cons] at ih ⊢
    rw [stage_batch_eq keys H jm jmS hjm s input h1]
    exact ih _ h2

/-- **A run computes the hidden-input-free specification.**  For every hidden state `h` (any
leftover in the shared barrier, any job map, any string hash that is collision-free on this run's
keys) the result of `Acelyzer.run` is `specResult r`, which mentions none of them. -/
theorem runProc_eq_spec (h : Hidden ε) (r : Run ε) (hg : GoodRun h.strHash r) :
    (runProc h r).1 = specResult r := by
  cases ha : r.abortAt with
  | some n => simp [runProc, specResult, ha]
  | none =>
    have hp : BStage.run [] (r.pipeline (r.jobmapAfter h.jobmap) h.strHash) r.input =
        BStage.run [] (r.stages.map (inst (r.jobmapAfter h.jobmap) h.strHash)) r.input := by
      unfold Run.pipeline
      cases r.intermediate with
      | true => simp only [if_true]; rw [intermediate_invisible]
      | false => simp
    simp only [runProc, specResult, ha, runH_fst, specOutput]
    rw [hp, C03.shared_barrier_batch, privOf_inst]
    congr 1
    apply runSpec_inst_eq_spec (regKeys r)
    · intro k hk
      apply jmLookup_jobmapAfter
      simpa [regKeys] using hk
    · exact hg

/-- **C14 (`output_independent_of_hidden`).**  Two executions of the same run — same files, options
(stages, `-I` or not), input events — from *any* two hidden states (different `PYTHONHASHSEED`,
different leftovers in the shared barrier, different process-wide job maps) give the same result. -/
theorem output_independent_of_hidden (h h' : Hidden ε) (r : Run ε)
    (hg : GoodRun h.strHash r) (hg' : GoodRun h'.strHash r) :
    (runProc h r).1 = (runProc h' r).1 := by
  rw [runProc_eq_spec h r hg, runProc_eq_spec h' r hg']

theorem strHash_runProc (h : Hidden ε) (r : Run ε) : (runProc h r).2.strHash = h.strHash := by
  unfold runProc
  cases r.abortAt <;> rfl

theorem strHash_runHistory (h : Hidden ε) (past : List (Run ε)) :
    (runHistory runProc h past).strHash = h.strHash := by
  induction past generalizing h with
  | nil => rfl
  | cons r rs ih => simp [runHistory, ih, strHash_runProc]

/-- **Histories (`A; B` vs `B`, `abort(A); B` vs `B`).**  After any sequence of earlier runs in the
same process — complete or aborted at any point, with any options — started from any state, a run
gives what it gives in a fresh interpreter with any other collision-free hash seed. -/
theorem history_invisible (h0 : Hidden ε) (past : List (Run ε)) (r : Run ε) (H' : String → Nat)
    (hg : GoodRun h0.strHash r) (hg' : GoodRun H' r) :
    (runProc (runHistory runProc h0 past) r).1 = (runProc (Hidden.init H') r).1 := by
  apply output_independent_of_hidden
  · rw [strHash_runHistory]; exact hg
  · exact hg'

/-- with or without `-I`, after any history, from any seed: one and the same result -/
theorem history_and_intermediate_invisible (h0 : Hidden ε) (past : List (Run ε)) (r : Run ε)
    (H' : String → Nat) (hg : GoodRun h0.strHash r) (hg' : GoodRun H' r) :
    (runProc (runHistory runProc h0 past) { r with intermediate := true }).1 =
      (runProc (Hidden.init H') { r with intermediate := false }).1 := by
  rw [intermediate_invisible_run]
  exact history_invisible h0 past { r with intermediate := false } H' hg hg'

/-! ### what the hypotheses and the two resets are needed for (variants / excluded branches) -/

def passS : RS Nat := { σ := Unit, s := (), step := fun _ x => ((), [x]), drain := fun _ => [] }

/-- a run that aborts after two events leaves them in the shared barrier … -/
def abortedRun : Run Nat :=
  { topKey := 3943, files := [⟨7356, ("trace_rank_0.json", dFLEX)⟩],
    stages := [.priv passS, .barrier, .priv passS], input := [1, 2, 3], abortAt := some 2,
    intermediate := false }

example : (runProc (Hidden.init (fun _ => 0)) abortedRun).2.barrierHold = [1, 2] := by decide

/-- … and **without** the reset in `register_processing_functions` the next run exports them
    (the defect repaired in /repo; `runProcNoReset` is the code before the repair) -/
theorem leftover_leaks_without_reset :
    ∃ (h : Hidden Nat) (r : Run Nat),
      (runProcNoReset h r).1.toList ≠ (runProcNoReset (Hidden.init h.strHash) r).1.toList := by
  refine ⟨{ strHash := fun _ => 0, barrierHold := [1, 2], jobmap := [] },
    { topKey := 0, files := [], stages := [.barrier], input := [5], abortAt := none,
      intermediate := false }, ?_⟩
  simp only [runProcNoReset, runH_fst, Run.pipeline, Run.jobmapAfter, registerAll, Hidden.init,
    List.map_cons, List.map_nil, inst, Result.toList]
  rw [C03.shared_barrier_ok, C03.shared_barrier_ok, C03.run_eq_runSpec, C03.run_eq_runSpec]
  decide

def parity (n : Nat) : String := if n % 2 = 0 then "even" else "odd"

/-- the excluded branch of `GoodRun`: a hash that identifies two different keys merges their groups
    (here: one row of 2 instead of two rows of 1) — the output then *does* depend on the seed -/
theorem hash_collision_merges :
    RS.batch (groupRS (fun _ => 0) parity (fun _ ms => [ms.length])) [1, 2] ≠
      RS.batch (groupSpecRS parity (fun _ ms => [ms.length])) [1, 2] := by decide

/-- the other excluded branch: an event whose job id no source of this run registered sees whatever
    an earlier run left in the process-wide job map -/
theorem unregistered_key_sees_history :
    RS.batch (annotRS [(5, ("old.json", dFLEX))] (fun (_ : Nat) => 5)
        (fun e j => [e + (match j with | some _ => 100 | none => 0)])) [1] ≠
      RS.batch (annotRS [] (fun (_ : Nat) => 5)
        (fun e j => [e + (match j with | some _ => 100 | none => 0)])) [1] := by decide

/-! ### process-level memo tables: harmless exactly when the key determines the cached value -/

/-- every cached value is what a fresh computation would give for any event with that key -/
def MemoConsistent {ν : Type} (ckey : ε → String) (val : ε → ν) (m : Memo ν) : Prop :=
  ∀ k v, memoLookup k m = some v → ∀ e, ckey e = k → val e = v

/-- the cache key determines the cached value -/
def KeyDetermines {ν : Type} (ckey : ε → String) (val : ε → ν) : Prop :=
  ∀ a b, ckey a = ckey b → val a = val b

theorem memoStep_spec {ν : Type} (ckey : ε → String) (val : ε → ν) (g : ε → ν → List ε)
    (hk : KeyDetermines ckey val) (m : Memo ν) (hm : MemoConsistent ckey val m) (e : ε) :
    (memoStep ckey val g m e).2 = g e (val e) ∧ MemoConsistent ckey val (memoStep ckey val g m e).1 := by
  unfold memoStep
  cases hl : memoLookup (ckey e) m with
  | some v =>
    have := hm (ckey e) v hl e rfl
    exact ⟨by simp [this], hm⟩
  | none =>
    refine ⟨rfl, ?_⟩
    intro k v hkv e' he'
    simp only [memoLookup] at hkv
    by_cases h : ckey e = k
    · simp only [h, if_true, Option.some.injEq] at hkv
      rw [← hkv]
      exact hk e' e (by rw [he', h])
    · simp only [h, if_false] at hkv
      exact hm k v hkv e' he'

/-- **A process-level cache whose key determines the cached value is invisible:** started from any
consistent table (in particular from whatever earlier runs left), a run outputs exactly what it
outputs without any cache, and leaves a consistent table. -/
theorem memo_invisible {ν : Type} (ckey : ε → String) (val : ε → ν) (g : ε → ν → List ε)
    (hk : KeyDetermines ckey val) (m : Memo ν) (hm : MemoConsistent ckey val m) (xs : List ε) :
    (memoRun ckey val g m xs).2 = xs.flatMap (fun e => g e (val e)) ∧
      MemoConsistent ckey val (memoRun ckey val g m xs).1 := by
  induction xs generalizing m with
  | nil => exact ⟨rfl, hm⟩
  | cons e es ih =>
    obtain ⟨h1, h2⟩ := memoStep_spec ckey val g hk m hm e
    obtain ⟨h3, h4⟩ := ih _ h2
    exact ⟨by simp [memoRun, h1, h3], h4⟩

/-- … hence after any history of runs in the process, starting from the empty table -/
theorem memo_history_invisible {ν : Type} (ckey : ε → String) (val : ε → ν) (g : ε → ν → List ε)
    (hk : KeyDetermines ckey val) (past : List (List ε)) (xs : List ε) :
    (memoRun ckey val g (memoHistory ckey val g [] past) xs).2 = (memoRun ckey val g [] xs).2 := by
  have hcons : ∀ (m : Memo ν), MemoConsistent ckey val m →
      MemoConsistent ckey val (memoHistory ckey val g m past) := by
    induction past with
    | nil => intro m hm; exact hm
    | cons ys rest ih => intro m hm; exact ih _ (memo_invisible ckey val g hk m hm ys).2
  have h0 : MemoConsistent ckey val ([] : Memo ν) := by
    intro k v h; simp [memoLookup] at h
  rw [(memo_invisible ckey val g hk _ (hcons [] h0) xs).1, (memo_invisible ckey val g hk [] h0 xs).1]

/-- an event of the classification experiment: (dialect, name) -/
abbrev CEv := Nat × String

/-- `acc_kernel`: FLEX `is.name;Cmpt Exec$` vs TORCH `is.cat;kernel` — the expression depends on the dialect -/
def kernelExpr (e : CEv) : String := if e.1 = dFLEX then "name:Cmpt Exec$" else "cat:kernel"

/-- **The excluded case, as a witness:** a table keyed by the category name only (the key does not
determine the value: the expression also depends on the dialect).  The FLEX event is classified
with the TORCH expression after a TORCH run, and with its own in a fresh interpreter. -/
theorem memo_keyed_by_category_only_leaks :
    (memoRun (fun (_ : CEv) => "acc_kernel") kernelExpr (fun e v => [(e.1, v)])
        (memoHistory (fun (_ : CEv) => "acc_kernel") kernelExpr (fun e v => [(e.1, v)]) []
          [[(dTORCH, "mm_kernel")]])
        [(dFLEX, "mm Cmpt Exec")]).2 ≠
      (memoRun (fun (_ : CEv) => "acc_kernel") kernelExpr (fun e v => [(e.1, v)]) []
        [(dFLEX, "mm Cmpt Exec")]).2 := by decide

/-- keyed by (dialect, category) the key determines the value -/
def dialectKey (e : CEv) : String := if e.1 = dFLEX then "FLEX/acc_kernel" else "TORCH/acc_kernel"

example : KeyDetermines dialectKey kernelExpr := by
  intro a b h
  unfold dialectKey at h
  unfold kernelExpr
  by_cases ha : a.1 = dFLEX <;> by_cases hb : b.1 = dFLEX <;> simp [ha, hb] at h ⊢

/-! ### process-level state that no run changes (class-level option defaults) -/

/-- **Frame rule.**  A piece of process-level state that every run leaves as it found it is
invisible: after any history the run sees the initial state, so its result is the fresh one. -/
theorem preserved_state_invisible {σ ι ο : Type} (step : σ → ι → ο × σ)
    (hp : ∀ s i, (step s i).2 = s) (s0 : σ) (past : List ι) (i : ι) :
    (step (stateAfter step s0 past) i).1 = (step s0 i).1 := by
  have : stateAfter step s0 past = s0 := by
    induction past with
    | nil => rfl
    | cons j rest ih => simp [stateAfter, hp, ih]
  rw [this]

/-- the option defaults are such a state in the current code (`.copy()` before `.update()`) -/
theorem option_defaults_invisible (d0 : Opts) (past : List Opts) (cmd : Opts) :
    (parseCopy (stateAfter parseCopy d0 past) cmd).1 = (parseCopy d0 cmd).1 :=
  preserved_state_invisible parseCopy (fun _ _ => rfl) d0 past cmd

/-- merging in place is not: a run WITHOUT `--event_limit` after one with `count = 3` is limited to 3 -/
theorem option_defaults_in_place_leak :
    optGet "count" (parseInPlace (stateAfter parseInPlace [("count", 1000)] [[("count", 3)]]) []).1 ≠
      optGet "count" (parseInPlace [("count", 1000)] []).1 := by decide

/-! ### non-vacuity: a run with a job lookup, a hash grouping, two barriers and `-I` -/

def demoRun : Run Nat :=
  { topKey := 3943,
    files := [⟨7356, ("trace_rank_0.json", dFLEX)⟩, ⟨4313, ("trace_rank_1.json", dFLEX)⟩],
    stages := [.priv passS, .barrier,
               .jobAnnot (fun e => if e % 2 = 0 then 7356 else 4313)
                 (fun e j => [e + (match j with | some (_, d) => 10 * d | none => 1000)]),
               .hashGroup parity (fun _ ms => [100 + ms.length]), .barrier, .priv passS],
    input := [1, 2, 3], abortAt := none, intermediate := true }

/-- two collision-free "seeds" -/
def seedA (s : String) : Nat := s.length
def seedB (s : String) : Nat := 7 - s.length

theorem demo_good (H : String → Nat) (hH : H "even" ≠ H "odd") : GoodRun H demoRun := by
  refine ⟨trivial, trivial, ?_, ?_, trivial, trivial, trivial⟩
  · intro e _
    show (if e % 2 = 0 then 7356 else 4313) ∈ regKeys demoRun
    by_cases h : e % 2 = 0 <;> simp [h, regKeys, demoRun]
  · have hb : RS.batch (specRS (demoRun.jobmapAfter [])
        (.jobAnnot (fun e => if e % 2 = 0 then 7356 else 4313)
          (fun e j => [e + (match j with | some (_, d) => 10 * d | none => 1000)])))
        (RS.batch (specRS (demoRun.jobmapAfter []) .barrier)
          (RS.batch (specRS (demoRun.jobmapAfter []) (.priv passS)) [1, 2, 3])) = [11, 12, 13] := by
      decide
    show InjOn H (List.map parity (RS.batch _ (RS.batch _ (RS.batch _ demoRun.input))))
    show InjOn H (List.map parity (RS.batch _ (RS.batch _ (RS.batch _ [1, 2, 3]))))
    rw [hb]
    intro a ha b hb' hab
    simp only [List.map_cons, List.map_nil, List.mem_cons, List.not_mem_nil, or_false] at ha hb'
    have pa : a = "odd" ∨ a = "even" := by
      rcases ha with rfl | rfl | rfl <;> decide
    have pb : b = "odd" ∨ b = "even" := by
      rcases hb' with rfl | rfl | rfl <;> decide
    rcases pa with rfl | rfl <;> rcases pb with rfl | rfl
    · rfl
    · exact absurd hab.symm hH
    · exact absurd hab hH
    · rfl

/-- after an aborted run that left two events in the barrier and a stale job map, under another
    seed and with `-I`, the run exports exactly what a fresh interpreter exports -/
example :
    (runProc (runHistory runProc
        { strHash := seedA, barrierHold := [9], jobmap := [(4313, ("stale.json", dTORCH))] }
        [abortedRun]) demoRun).1 = (runProc (Hidden.init seedB) demoRun).1 :=
  history_invisible _ _ _ _ (demo_good seedA (by decide)) (demo_good seedB (by decide))

example : specOutput demoRun = [11, 12, 13, 102, 101] := by decide

end C14
end AiuVerif
