/-
C02 — well-formed input yields a complete, viewer-loadable trace and exit code 0.

PARTIAL by design (DESIGN.md section 8): proved here are
  * `schema_ok`      : whatever `from_dict` returns satisfies the Trace Event Format requirements
                       of the statement per phase, and carries `dur` only on complete events;
  * `export_total`   : `from_dict` raises exactly when a phase-specific required key is missing or
                       the phase is unknown (the guard under which the export cannot crash);
  * `no_scratch_*`   : for the registration order GENERATED from the source, for every truth
                       assignment to the guard conditions (hence every switch combination), no
                       event can leave the pipeline with ts_all / ts_dev / jobhash / TS_cycles /
                       a helper 'F' phase / a duration on a counter.
"No uncaught exception anywhere in the un-modelled stage code" (`pipeline_total`) is NOT proved;
it is sampled by the end-to-end runs of the check and says so in the evidence.
-/
import AiuVerif.Model.Export
import AiuVerif.Gen.Sites

namespace AiuVerif.C02
open AiuVerif.Export

theorem need_ok (r : Raw) (ks : List String) :
    need r ks = .ok () ↔ ∀ k ∈ ks, r.keys.contains k = true := by
  unfold need
  split
  · rename_i k hk
    have := List.find?_some hk
    have hm := List.mem_of_find?_eq_some hk
    constructor
    · intro h; cases h
    · intro h; have h2 := h k hm; simp at h2; exact absurd h2 (by simpa using this)
  · rename_i hk
    simp only [List.find?_eq_none] at hk
    constructor
    · intro _ k hk'; simpa using hk k hk'
    · intro _; rfl

theorem need_cases (r : Raw) (ks : List String) :
    need r ks = .ok () ∨ ∃ k ∈ ks, need r ks = .error (.keyError k) := by
  unfold need
  split
  · rename_i k hk; exact Or.inr ⟨k, List.mem_of_find?_eq_some hk, rfl⟩
  · exact Or.inl rfl

/-- **Schema.**  Every exported object has the keys the statement requires for its phase, and a
`dur` key exactly when it is a complete event. -/
theorem schema_ok (r : Raw) (ks : List String) (h : fromDict r = .ok ks) :
    (∀ k ∈ required r.ph, k ∈ ks) ∧ ("dur" ∈ ks ↔ r.ph = "X") := by
  unfold fromDict at h
  split at h
  · rename_i hph
    rcases need_cases r ["ts", "pid", "tid", "name"] with hn | ⟨k, _, hn⟩ <;> simp [hn, bind, Except.bind, pure, Except.pure] at h
    subst h
    rcases hph with hph | hph <;> simp [required, hph] <;> decide
  · split at h
    · rename_i hph
      rcases need_cases r ["name", "ts", "dur", "pid", "tid"] with hn | ⟨k, _, hn⟩ <;> simp [hn, bind, Except.bind, pure, Except.pure] at h
      subst h
      simp [required, hph]
    · split at h
      · rename_i hph
        rcases need_cases r ["name", "ts", "pid"] with hn | ⟨k, _, hn⟩ <;> simp [hn, bind, Except.bind, pure, Except.pure] at h
        subst h
        simp [required, hph]
      · split at h
        · rename_i hph
          rcases need_cases r ["ts", "pid", "tid", "name", "id"] with hn | ⟨k, _, hn⟩ <;> simp [hn, bind, Except.bind, pure, Except.pure] at h
          subst h
          rcases hph with hph | hph <;> simp [required, hph] <;> decide
        · split at h
          · rename_i hph
            rcases need_cases r ["ts", "id", "pid", "tid", "name", "cat"] with hn | ⟨k, _, hn⟩ <;> simp [hn, bind, Except.bind, pure, Except.pure] at h
            subst h
            rcases hph with hph | hph <;> simp [required, hph] <;> (try split) <;> (try simp) <;> (try decide)
          · split at h
            · rename_i hph
              rcases need_cases r ["name", "ts", "pid"] with hn | ⟨k, _, hn⟩ <;> simp [hn, bind, Except.bind, pure, Except.pure] at h
              subst h
              simp [required, hph] <;> (try split) <;> (try simp)
            · split at h
              · rename_i hph
                rcases need_cases r ["name", "ts", "pid", "tid", "s"] with hn | ⟨k, _, hn⟩ <;> simp [hn, bind, Except.bind, pure, Except.pure] at h
                subst h
                simp [required, hph]
              · cases h


/-- keys `from_dict` reads unconditionally for a phase (`none`: the phase is rejected) -/
def neededOf (ph : String) : Option (List String) :=
  if ph = "B" ∨ ph = "E" then some ["ts", "pid", "tid", "name"]
  else if ph = "X" then some ["name", "ts", "dur", "pid", "tid"]
  else if ph = "C" then some ["name", "ts", "pid"]
  else if ph = "b" ∨ ph = "e" then some ["ts", "pid", "tid", "name", "id"]
  else if ph = "s" ∨ ph = "f" then some ["ts", "id", "pid", "tid", "name", "cat"]
  else if ph = "M" then some ["name", "ts", "pid"]
  else if ph = "i" then some ["name", "ts", "pid", "tid", "s"]
  else none

theorem bind_need (r : Raw) (L K : List String) :
    (∃ ks, (do need r L; pure K : Except Err (List String)) = .ok ks) ↔
      ∀ k ∈ L, r.keys.contains k = true := by
  rw [← need_ok]
  rcases need_cases r L with hn | ⟨k, _, hn⟩ <;> simp [hn, bind, Except.bind, pure, Except.pure]

/-- **The export step cannot crash on events that carry the keys of their phase** — and crashes
exactly otherwise (`KeyError` / unknown phase are the only failures of `from_dict`). -/
theorem export_total (r : Raw) :
    (∃ ks, fromDict r = .ok ks) ↔ ∃ L, neededOf r.ph = some L ∧ ∀ k ∈ L, r.keys.contains k = true := by
  unfold fromDict neededOf
  split
  · rw [bind_need]; simp
  · split
    · rw [bind_need]; simp
    · split
      · rw [bind_need]; simp
      · split
        · rw [bind_need]; simp
        · split
          · rw [bind_need]; simp
          · split
            · rw [bind_need]; simp
            · split
              · rw [bind_need]; simp
              · simp

/-! ### scratch keys never leave the pipeline -/

theorem mayCarry_no_adds (k : Scratch) (v : String → Bool) (B : List St)
    (h : ∀ s ∈ B, effect k s.name ≠ .adds) : mayCarry k v B false = false := by
  induction B with
  | nil => rfl
  | cons s rest ih =>
    have hs := h s (List.mem_cons_self ..)
    have hr := ih (fun t ht => h t (List.mem_cons_of_mem _ ht))
    simp only [mayCarry]
    split
    · split
      · rename_i he; exact absurd he hs
      · exact hr
      · exact hr
    · exact hr

theorem mayCarry_no_selected_adds (k : Scratch) (v : String → Bool) (L : List St)
    (h : ∀ s ∈ L, effect k s.name = .adds → selected v s = false) : mayCarry k v L false = false := by
  induction L with
  | nil => rfl
  | cons s rest ih =>
    have hr := ih (fun t ht => h t (List.mem_cons_of_mem _ ht))
    simp only [mayCarry]
    split
    · rename_i hsel
      split
      · rename_i he
        have := h s (List.mem_cons_self ..) he
        rw [this] at hsel; cases hsel
      · exact hr
      · exact hr
    · exact hr

/-- there is an unconditional cleaner with no adder behind it -/
def okUncond (k : Scratch) : List St → Bool
  | [] => false
  | s :: rest => okUncond k rest ||
      (effect k s.name == .cleans && !s.cond && rest.all (fun t => effect k t.name != .adds))

theorem okUncond_sound (k : Scratch) (L : List St) (h : okUncond k L = true)
    (v : String → Bool) (f : Bool) : mayCarry k v L f = false := by
  induction L generalizing f with
  | nil => cases h
  | cons s rest ih =>
    simp only [okUncond, Bool.or_eq_true, Bool.and_eq_true, beq_iff_eq, Bool.not_eq_true',
      List.all_eq_true, bne_iff_ne, ne_eq] at h
    rcases h with h | ⟨⟨h1, h2⟩, h3⟩
    · simp only [mayCarry]
      split
      · split <;> exact ih h _
      · exact ih h _
    · have hsel : selected v s = true := by simp [selected, h2]
      simp only [mayCarry, hsel, if_true, h1]
      exact mayCarry_no_adds k v rest h3

/-- a cleaner that is unconditional or guarded by `g`, with no adder behind it -/
def okCleanG (k : Scratch) (g : String) : List St → Bool
  | [] => false
  | s :: rest => okCleanG k g rest ||
      (effect k s.name == .cleans && (!s.cond || s.guard == g) &&
        rest.all (fun t => effect k t.name != .adds))

/-- every adder sits under the guard `g`, and so does (at most) the final cleaner -/
def okGuarded (k : Scratch) (g : String) (L : List St) : Bool :=
  L.all (fun s => effect k s.name != .adds || (s.cond && s.guard == g)) && okCleanG k g L

theorem okCleanG_sound (k : Scratch) (g : String) (L : List St) (h : okCleanG k g L = true)
    (v : String → Bool) (hv : v g = true) (f : Bool) : mayCarry k v L f = false := by
  induction L generalizing f with
  | nil => cases h
  | cons s rest ih =>
    simp only [okCleanG, Bool.or_eq_true, Bool.and_eq_true, beq_iff_eq, Bool.not_eq_true',
      List.all_eq_true, bne_iff_ne, ne_eq] at h
    rcases h with h | ⟨⟨h1, h2⟩, h3⟩
    · simp only [mayCarry]
      split
      · split <;> exact ih h _
      · exact ih h _
    · have hsel : selected v s = true := by
        rcases h2 with h2 | h2
        · simp [selected, h2]
        · simp [selected, h2, hv]
      simp only [mayCarry, hsel, if_true, h1]
      exact mayCarry_no_adds k v rest h3

theorem okGuarded_sound (k : Scratch) (g : String) (L : List St) (h : okGuarded k g L = true)
    (v : String → Bool) : mayCarry k v L false = false := by
  simp only [okGuarded, Bool.and_eq_true, List.all_eq_true, Bool.or_eq_true, bne_iff_ne, ne_eq,
    beq_iff_eq] at h
  by_cases hv : v g = true
  · exact okCleanG_sound k g L h.2 v hv false
  · apply mayCarry_no_selected_adds
    intro s hs he
    rcases h.1 s hs with h1 | ⟨h1, h2⟩
    · exact absurd he h1
    · have : v g = false := by simpa using hv
      simp [selected, h1, h2, this]

/-- the generated registration sites, as the analysis sees them -/
def genSt : List St := Gen.sites.map fun s => ⟨s.name, s.cond, s.guard⟩

/-- guard text of the (first) site registering `name` -/
def guardOf (name : String) : String :=
  match Gen.sites.find? (fun s => s.name == name) with
  | some s => s.guard
  | none => ""

/-- **No `ts_all` in the export**, for every switch combination. -/
theorem no_scratch_ts_all (v : String → Bool) (f : Bool) : mayCarry .tsAll v genSt f = false :=
  okUncond_sound _ _ (by decide +kernel) v f
/-- **No `ts_dev` in the export.** -/
theorem no_scratch_ts_dev (v : String → Bool) (f : Bool) : mayCarry .tsDev v genSt f = false :=
  okUncond_sound _ _ (by decide +kernel) v f
/-- **No `jobhash` in the export** (every ingested event carries it: `f` may be true). -/
theorem no_scratch_jobhash (v : String → Bool) (f : Bool) : mayCarry .jobhash v genSt f = false :=
  okUncond_sound _ _ (by decide +kernel) v f
/-- **No helper event of phase 'F' in the export.** -/
theorem no_scratch_helperF (v : String → Bool) (f : Bool) : mayCarry .helperF v genSt f = false :=
  okUncond_sound _ _ (by decide +kernel) v f
/-- **No duration on counters in the export** (this is the obligation the `-c … -t` defect broke). -/
theorem no_scratch_counter_dur (v : String → Bool) (f : Bool) :
    mayCarry .counterDur v genSt f = false :=
  okUncond_sound _ _ (by decide +kernel) v f
/-- **No duration on ANY non-slice event** (counters, flow arrows, metadata, instants) behind the
stages — in particular at the final sort, which is the last site (`C08.final_sort_last`). -/
theorem no_nonslice_dur (v : String → Bool) (f : Bool) :
    mayCarry .nonSliceDur v genSt f = false :=
  okUncond_sound _ _ (by decide +kernel) v f
/-- **No `TS_cycles` in the export**: its producer and its consumer are registered under the same
condition (input events never carry the key). -/
theorem no_scratch_ts_cycles (v : String → Bool) : mayCarry .tsCycles v genSt false = false :=
  okGuarded_sound _ (guardOf "extract_power_event") _ (by decide +kernel) v

/-! ### non-vacuity -/
example : fromDict ⟨"X", ["ph", "ts", "pid", "name", "dur", "tid", "args"], true, false⟩
    = .ok ["name", "cat", "ph", "ts", "dur", "pid", "tid", "args"] := by rfl
example : fromDict ⟨"X", ["ph", "ts", "pid", "name", "tid"], true, false⟩ = .error (.keyError "dur") := by
  rfl
example : fromDict ⟨"F", ["ph", "ts", "pid", "name"], true, false⟩ = .error .invalidPh := by rfl
/-- the analysis is not trivially false: without the cleanup stage the key would survive -/
example : mayCarry .tsAll (fun _ => true)
    [⟨"cycle_count_to_wallclock", false, ""⟩, ⟨"sort_events", false, ""⟩] false = true := by decide

end AiuVerif.C02
