/-
C02, exception freedom of the MODELLED stages (the part of `pipeline_total` that can be stated
today).  Each theorem re-exports, in C02's vocabulary, a totality result proved with the model of
the stage family that owns the assertion; the models are tied to the code by the correspondence
runs of C04, C05, C06 and C10.  Stages without a model are covered by end-to-end sampling only.
-/
import AiuVerif.Props.C04
import AiuVerif.Props.C05
import AiuVerif.Props.C06
import AiuVerif.Props.C10
import AiuVerif.Props.C01Bw
import AiuVerif.Props.C01Stages

namespace AiuVerif.C02

/-- **Overlap resolution (-O tid)**: on non-negative timestamps neither `assert` of
`overlap_detection` can fire; the only possible failure is the documented lane budget
(`KeyError` in `find_next_tid`, more than five extra lanes). -/
theorem overlap_tid_only_budget_error (evs : List Overlap.Ev) (hnn : ∀ e ∈ evs, 0 ≤ e.ts)
    (e : Overlap.Err) (h : Overlap.pipeline .tid evs = .error e) : e = .keyError :=
  C04.error_is_budget evs hnn e h

/-- **Overlap resolution (-O drop)** never fails on non-negative timestamps. -/
theorem overlap_drop_total (evs : List Overlap.Ev) (hnn : ∀ e ∈ evs, 0 ≤ e.ts) :
    ∃ out, Overlap.pipeline .drop evs = .ok out :=
  C04.drop_total evs hnn

/-- **Wrap correction** (`normalize_phase1 → barrier → normalize_phase2 → event_sanity_checks`):
for counters consistent with host time at the given frequency, inside the default event window,
no assertion fires ("local_correction of TS-sequence incomplete", the TS monotonicity checks). -/
theorem normalize_total {f : Rat} (hf : 0 < f) (T0 : Int → Rat) (ic : Bool)
    (items : List Normalize.Item) (hv : ∀ it ∈ items, it.Valid)
    (hkeep : ∀ it ∈ items, Normalize.withinLimits (Normalize.observe f T0 it) = true)
    (hexec : Normalize.execCrash (items.map (Normalize.observe f T0)) = false) :
    ∃ out, Normalize.pipeline f ic (items.map (Normalize.observe f T0)) = .ok out := by
  obtain ⟨K, _, h⟩ := C05.wrap_consistent hf T0 ic items hv hkeep hexec
  exact ⟨_, h⟩

/-- **Time conversion** (`cycle_count_to_wallclock → tighten_hts_by_instr_type`): for a device
slice with non-decreasing counters whose counter span fits in front of its host end (in
particular `0 ≤ ts` after conversion), neither stage's assertions fire. -/
theorem timesync_total {f : Rat} {e : TimeSync.Ev} {c1 c2 c3 c4 c5 : Int} (hf : 0 < f)
    (hph : e.ph = "X") (htsx : e.tsx = some [c1, c2, c3, c4, c5])
    (h12 : c1 ≤ c2) (h23 : c2 ≤ c3) (h34 : c3 ≤ c4) (h45 : c4 ≤ c5)
    (hroom : ((c5 - c1 : Int) : Rat) / f ≤ e.ts + e.dur) :
    ∃ o, TimeSync.both f e = .ok o :=
  C06.asserts_hold hf hph htsx h12 h23 h34 h45 hroom

/-- **Power counter** (`compute_power`): time-sorted 32-bit charge readings never raise the
negative-power `OverflowError`, with or without `--skip_events`. -/
theorem power_total (skip : Bool) (l : List Power.Ctr) (hr : ∀ c ∈ l, Power.InRange c)
    (hs : Power.TimeSorted l) : ∃ outs, Power.computeRank skip l = .ok outs :=
  C10.never_raises skip l hr hs

/-- **The bandwidth stage of the default counter set never raises behind the normalization**: `normalize_phase2`
renames `args.Bytes` on every slice, so no `X`/`b` event reaches `mp_calc_bw` with a `Bytes` entry, and then `drain()`
returns for every stream (the one exception of the stage, the division by an empty window, needs `Bytes`). -/
theorem bandwidth_total (evs : List CalcBw.BEv) (h : ∀ e ∈ evs, e.isXb = true → e.bytes = none) :
    ∃ out, CalcBw.drain evs = .ok out :=
  ⟨_, C01.bw_no_bytes_total evs h⟩

/-- **`map_tid_to_range` as the CLI registers it never raises**, however many distinct tids a trace has (its
`IndexError` needs an empty table; the registered one is not - `Gen/Tables.lean`). -/
theorem tid_mapping_total (es : List Small.TEv) :
    ∃ r, Small.mapAll ⟨[], Gen.tidRemap, Gen.tidStep⟩ es = .ok r :=
  C01.tidmap_total _ es _ C01.registered_tid_ctx_inv C01.registered_tid_ctx_ok.2.2

end AiuVerif.C02
