/-
C01 — the clause "no matter how many events are still buffered by ... bandwidth stages when the
input ends", for the bandwidth stage the default counter set registers (`mp_calc_bw`,
Model/CalcBw.lean, tied to the real callback + context by C01's correspondence).

The stage buffers every event and releases the buffer at `drain()`.  The theorems say for EVERY
input stream: the callback never emits; whenever `drain()` returns, its output is the synthesized
counters followed by the whole input back to front, so every input event leaves exactly once and
nothing else carries a uid; the only exception the sweep can raise is the division by an empty
all-reduce window; and in the situation of the real pipeline (`normalize_phase2` has renamed
`args.Bytes` of every slice, so no `X`/`b` event carries `Bytes`) `drain()` returns the input back
to front with no counter at all, for every stream.
-/
import AiuVerif.Model.CalcBw

namespace AiuVerif.C01
open AiuVerif.CalcBw

/-- the callback holds every event back (hold-all stage: it is a barrier for the stages behind it) -/
theorem bw_step_holds (buf : List BEv) (e : BEv) : (step buf e).2 = [] ∧ (step buf e).1 = buf ++ [e] :=
  ⟨rfl, rfl⟩

/-- counters are the only thing the sweep creates -/
def IsCounter (c : BEv) : Prop := c.uid = none ∧ c.ph = "C" ∧ c.pid = -1

theorem genCounters_counters (a b r c : Rat) : ∀ x ∈ genCounters a b r c, IsCounter x := by
  intro x hx
  simp only [genCounters, List.mem_cons, List.mem_nil_iff, or_false] at hx
  rcases hx with rfl | rfl | rfl | rfl <;> exact ⟨rfl, rfl, rfl⟩

theorem sweep1_counters (n : Nat) (prev : Rat) (e : BEv) (s s' : Sw)
    (hs : ∀ x ∈ s.out, IsCounter x) (h : sweep1 n prev e s = .ok s') : ∀ x ∈ s'.out, IsCounter x := by
  unfold sweep1 at h
  split at h
  · cases h; exact hs
  · split at h
    · injection h with h; subst h
      intro x hx
      apply hs
      revert hx
      split <;> split <;> split <;> simp_all
    · split at h
      · split at h
        · cases h
        · injection h with h; subst h
          intro x hx
          simp only [List.mem_append] at hx
          rcases hx with hx | hx
          · exact hs x hx
          · exact genCounters_counters _ _ _ _ x hx
      · split at h <;> (injection h with h; subst h; exact hs)

theorem sweep_counters (n : Nat) : ∀ (l : List (Rat × BEv)) (prev : Rat) (s s' : Sw),
    (∀ x ∈ s.out, IsCounter x) → sweep n prev l s = .ok s' → ∀ x ∈ s'.out, IsCounter x
  | [], _, s, s', hs, h => by simp only [sweep] at h; cases h; exact hs
  | (k, e) :: rest, prev, s, s', hs, h => by
    simp only [sweep] at h
    split at h
    · cases h
    · rename_i s1 h1
      exact sweep_counters n rest k s1 s' (sweep1_counters n prev e s s1 hs h1) h

/-- **every event `calc_bw` appends is a synthesized counter** (ph `C`, pid −1, no input identity) -/
theorem bw_counters_synth (evs cs : List BEv) (h : calcBw evs = .ok cs) : ∀ c ∈ cs, IsCounter c := by
  unfold calcBw at h
  simp only at h
  split at h
  · cases h
  · rename_i s hs
    cases h
    exact sweep_counters _ _ _ _ s (by intro x hx; cases hx) hs

/-- **shape of `drain()`**: the counters back to front, then the whole buffer back to front -/
theorem bw_drain_shape (evs out : List BEv) (h : drain evs = .ok out) :
    ∃ cs, calcBw evs = .ok cs ∧ out = cs.reverse ++ evs.reverse := by
  unfold drain at h
  split at h
  · cases h
  · rename_i cs hcs
    cases h
    exact ⟨cs, hcs, by simp⟩

theorem filterMap_uid_counters (cs : List BEv) (h : ∀ c ∈ cs, IsCounter c) :
    cs.filterMap (·.uid) = [] := by
  induction cs with
  | nil => rfl
  | cons c cs ih =>
    have hc := (h c (List.mem_cons_self)).1
    simp only [List.filterMap_cons, hc]
    exact ih (fun x hx => h x (List.mem_cons_of_mem _ hx))

/-- **the bandwidth stage loses and duplicates nothing**: whenever `drain()` returns, the events
with an input identity in its output are exactly the input events, each once (back to front),
however many were buffered. -/
theorem bw_conserves (evs out : List BEv) (h : drain evs = .ok out) :
    out.filterMap (·.uid) = (evs.filterMap (·.uid)).reverse := by
  obtain ⟨cs, hcs, rfl⟩ := bw_drain_shape evs out h
  have hc := bw_counters_synth evs cs hcs
  rw [List.filterMap_append, List.filterMap_reverse, List.filterMap_reverse,
    filterMap_uid_counters cs hc]
  simp

/-- pass-class form used by `pipeline_conserves` -/
theorem bw_conserves_perm (evs out : List BEv) (h : drain evs = .ok out) :
    (out.filterMap (·.uid)).Perm (evs.filterMap (·.uid)) := by
  rw [bw_conserves evs out h]
  exact List.reverse_perm _

/-! ### exceptions -/

theorem sweep1_error (n : Nat) (prev : Rat) (e : BEv) (s : Sw) (m : String)
    (h : sweep1 n prev e s = .error m) : m = "zerodiv" := by
  unfold sweep1 at h
  split at h
  · cases h
  · split at h
    · cases h
    · split at h
      · split at h
        · injection h with h; exact h.symm
        · cases h
      · split at h <;> cases h

theorem sweep_error (n : Nat) : ∀ (l : List (Rat × BEv)) (prev : Rat) (s : Sw) (m : String),
    sweep n prev l s = .error m → m = "zerodiv"
  | [], _, _, _, h => by simp [sweep] at h
  | (k, e) :: rest, prev, s, m, h => by
    simp only [sweep] at h
    split at h
    · rename_i m' h1
      injection h with h; subst h
      exact sweep1_error n prev e s _ h1
    · rename_i s1 _
      exact sweep_error n rest k s1 m h

/-- **the only exception of `drain()` is the division by an empty all-reduce window** -/
theorem bw_error_only_zerodiv (evs : List BEv) (m : String) (h : drain evs = .error m) :
    m = "zerodiv" := by
  unfold drain at h
  split at h
  · rename_i m' h1
    injection h with h; subst h
    unfold calcBw at h1
    simp only at h1
    split at h1
    · rename_i m'' h2
      injection h1 with h1; subst h1
      exact sweep_error _ _ _ _ _ h2
    · cases h1
  · cases h

/-! ### the situation of the real pipeline: no slice carries `Bytes` -/

theorem mem_ins (x y : Rat × BEv) : ∀ l : List (Rat × BEv), y ∈ ins x l → y = x ∨ y ∈ l
  | [], h => by simp only [ins, List.mem_cons, List.mem_nil_iff, or_false] at h; exact Or.inl h
  | z :: zs, h => by
    simp only [ins] at h
    split at h
    · simp only [List.mem_cons] at h ⊢
      exact h
    · simp only [List.mem_cons] at h ⊢
      rcases h with h | h
      · exact Or.inr (Or.inl h)
      · rcases mem_ins x y zs h with h | h
        · exact Or.inl h
        · exact Or.inr (Or.inr h)

theorem mem_foldl_ins (y : Rat × BEv) : ∀ (l acc : List (Rat × BEv)),
    y ∈ l.foldl (fun acc x => ins x acc) acc → y ∈ l ∨ y ∈ acc
  | [], acc, h => Or.inr h
  | x :: xs, acc, h => by
    simp only [List.foldl_cons] at h
    rcases mem_foldl_ins y xs _ h with h | h
    · exact Or.inl (List.mem_cons_of_mem _ h)
    · rcases mem_ins x y acc h with h | h
      · exact Or.inl (h ▸ List.mem_cons_self)
      · exact Or.inr h

theorem mem_sortEnd (y : Rat × BEv) (l : List (Rat × BEv)) (h : y ∈ sortEnd l) : y ∈ l := by
  rcases mem_foldl_ins y l [] h with h | h
  · exact h
  · cases h

/-- the sweep state in which nothing can be generated -/
def Quiet (s : Sw) : Prop := s.gotBytes = false ∧ s.out = []

theorem sweep1_quiet (n : Nat) (prev : Rat) (e : BEv) (s : Sw) (hb : e.bytes = none) (hq : Quiet s) :
    ∃ s', sweep1 n prev e s = .ok s' ∧ Quiet s' := by
  obtain ⟨hg, ho⟩ := hq
  unfold sweep1
  split
  · exact ⟨s, rfl, hg, ho⟩
  · split
    · refine ⟨_, rfl, ?_⟩
      simp only [hb]
      unfold Quiet
      cases hi : s.inColl <;> split <;> split <;> simp_all
    · simp only [hg, Bool.and_false, Bool.false_and, Bool.false_eq_true, if_false]
      exact ⟨s, rfl, hg, ho⟩

theorem sweep_quiet (n : Nat) : ∀ (l : List (Rat × BEv)) (prev : Rat) (s : Sw),
    (∀ y ∈ l, y.2.bytes = none) → Quiet s → ∃ s', sweep n prev l s = .ok s' ∧ Quiet s'
  | [], _, s, _, hq => ⟨s, rfl, hq⟩
  | (k, e) :: rest, prev, s, hl, hq => by
    obtain ⟨s1, h1, hq1⟩ := sweep1_quiet n prev e s (hl (k, e) List.mem_cons_self) hq
    obtain ⟨s2, h2, hq2⟩ := sweep_quiet n rest k s1 (fun y hy => hl y (List.mem_cons_of_mem _ hy)) hq1
    exact ⟨s2, by simp only [sweep, h1, h2], hq2⟩

/-- **Behind `normalize_phase2` the stage is total and adds nothing**: when no `X`/`b` event carries
an `args.Bytes` entry (the normalisation renames it to `bytes` on every slice), `drain()` returns,
for every stream, exactly the buffer back to front. -/
theorem bw_no_bytes_total (evs : List BEv) (h : ∀ e ∈ evs, e.isXb = true → e.bytes = none) :
    drain evs = .ok evs.reverse := by
  have hl : ∀ y ∈ sortEnd (withEnd evs), y.2.bytes = none := by
    intro y hy
    have := mem_sortEnd y _ hy
    simp only [withEnd, List.mem_map, List.mem_filter] at this
    obtain ⟨e, ⟨he, hx⟩, rfl⟩ := this
    exact h e he hx
  obtain ⟨s, hs, _, ho⟩ := sweep_quiet (np evs) _ (lastKey (sortEnd (withEnd evs))) {} hl ⟨rfl, rfl⟩
  unfold drain calcBw
  simp only [hs, ho, List.append_nil]

/-! ### non-vacuity: a window that produces counters, and one that divides by zero -/

def xe (uid : Nat) (pid : Int) (ts dur : Rat) (name : String) (cg : Option String) (b : Option Int) : BEv :=
  { uid := some uid, ph := "X", pid := pid, ts := ts, dur := dur, hasArgs := true, collGroup := cg,
    bytes := b, name := name }

/-- two ranks, one all-reduce window [1, 5] with 8000 bytes, closed by a kernel: four counters -/
def exWindow : List BEv :=
  [xe 0 0 0 1 "k Cmpt Exec" none none,
   xe 1 0 2 1 "AllReduce SenRdmaSend" (some "AllReduce_all_reduce_1") (some 8000),
   xe 2 1 2 2 "AllReduce SenRdmaRecv" (some "AllReduce_all_reduce_1") none,
   xe 3 0 3 2 "AllReduce SenRdmaRecv" (some "AllReduce_all_reduce_1") none,
   xe 4 1 5 1 "k Cmpt Exec" none none]

example : (calcBw exWindow).toOption.map (·.map (fun c => (c.name, c.ts, c.value))) =
    some [("BW allreduce", 1, some 2), ("BW allreduce", 5, some 0),
          ("BW all-pcie", 1, some 4), ("BW all-pcie", 5, some 0)] := by decide +kernel

example : (drain exWindow).toOption.map (·.filterMap (·.uid)) = some [4, 3, 2, 1, 0] := by
  decide +kernel

/-- a window whose first event is the first slice of the stream: `L[i-1]` is the LAST end time,
and a closing kernel directly behind makes the window empty — ZeroDivisionError in the real code -/
def exZero : List BEv :=
  [xe 1 0 0 2 "AllReduce SenRdmaSend SenRdmaRecv" (some "AllReduce_all_reduce_1") (some 8),
   xe 2 0 0 2 "k Cmpt Exec" none none]

example : (match drain exZero with | .error m => m | .ok _ => "ok") = "zerodiv" := by decide +kernel

end AiuVerif.C01
