/-
C15 — multi-file ingestion is a loss-free time-ordered merge with correct B/E pairing.

Property theorems only; the invariant of the event front and the helper lemmas live in
`Lemmas/Ingest.lean`.  `merge srcs` is `list(MultifileIngest(...))` over files whose per-file iterators
yield `srcs[i].evs` and then end with `StopIteration` (`term = none`) or raise (`term = some err`);
`fileStream` computes exactly that pair from the raw items of a file.  All statements are for any number
of files of any length.
-/
import AiuVerif.Lemmas.Ingest

namespace AiuVerif
namespace C15
open AiuVerif.Ingest List

/-- **Loss-free, whatever happens.**  What the merged iteration yields is, up to order, a part of what
the file iterators yield: nothing is invented, nothing is yielded twice — also when a file raises. -/
theorem merge_subperm (srcs : List Src) :
    ∃ rest, (Ingest.merge srcs).1.map Prod.fst ++ rest ~ (srcs.map (·.evs)).flatten := by
  unfold Ingest.merge
  cases hp : prefill (range srcs.length) (init srcs) with
  | error x => exact ⟨(srcs.map (·.evs)).flatten, by simp⟩
  | ok st =>
    simp only []
    have hinv := prefill_inv (init_inv srcs) hp
    have hc : content st ~ (srcs.map (·.evs)).flatten := by
      have := prefill_content hp; rwa [init_content] at this
    obtain ⟨rest, hr1, _⟩ := loop_split (total srcs + 1) st hinv
    exact ⟨rest, hr1.trans hc⟩

/-- **Every event of every file exactly once.**  If the iteration ends without an exception, the yielded
events are a permutation of the concatenated per-file yield sequences. -/
theorem merge_perm (srcs : List Src) (h : (Ingest.merge srcs).2 = none) :
    (Ingest.merge srcs).1.map Prod.fst ~ (srcs.map (·.evs)).flatten := by
  unfold Ingest.merge at h ⊢
  cases hp : prefill (range srcs.length) (init srcs) with
  | error x => simp [hp] at h
  | ok st =>
    simp only [hp] at h ⊢
    have hinv := prefill_inv (init_inv srcs) hp
    have hc : content st ~ (srcs.map (·.evs)).flatten := by
      have := prefill_content hp; rwa [init_content] at this
    obtain ⟨rest, hr1, hr2⟩ := loop_split (total srcs + 1) st hinv
    have : rest = [] := hr2 h (by rw [hc.length_eq, ← total_eq]; omega)
    subst this
    simpa using hr1.trans hc

/-- **It is a merge.**  If the iteration ends without an exception, the yielded events that came from
file `i` are exactly file `i`'s yield sequence, in file order. -/
theorem merge_file_order (srcs : List Src) (h : (Ingest.merge srcs).2 = none) (i : Nat) :
    ((Ingest.merge srcs).1.filter (fun x => x.2 == i)).map Prod.fst = ((srcs[i]?).map (·.evs)).getD [] := by
  unfold Ingest.merge at h ⊢
  cases hp : prefill (range srcs.length) (init srcs) with
  | error x => simp [hp] at h
  | ok st =>
    simp only [hp] at h ⊢
    have hinv := prefill_inv (init_inv srcs) hp
    have hc : content st ~ (srcs.map (·.evs)).flatten := by
      have := prefill_content hp; rwa [init_content] at this
    obtain ⟨rest, hr1, hr2⟩ := loop_file (total srcs + 1) st i hinv
    have : rest = [] := hr2 h (by rw [hc.length_eq, ← total_eq]; omega)
    subst this
    rw [append_nil] at hr1
    rw [hr1, prefill_fileOf i (init_inv srcs) hp]
    simp [fileOf, init]

/-- **Time order.**  If every file's yield sequence is ordered by the sort key (`ts`, absent = 0), the
merged stream is ordered by it — for every outcome, also up to the point where a file raises. -/
theorem merge_sorted (srcs : List Src) (h : ∀ s ∈ srcs, s.evs.Pairwise (fun a b => key a ≤ key b)) :
    (Ingest.merge srcs).1.Pairwise (fun a b => key a.1 ≤ key b.1) := by
  unfold Ingest.merge
  cases hp : prefill (range srcs.length) (init srcs) with
  | error x => simp
  | ok st =>
    simp only []
    have hinv := prefill_inv (init_inv srcs) hp
    exact loop_sorted _ st hinv (prefill_sinv (init_inv srcs) (init_sinv srcs h) hp)

/-- **The merge itself never fails.**  The iteration ends with an exception iff some file iterator raises
(malformed B/E structure, missing keys); in particular no `IndexError`, and no silent normal end that
would leave a raising file unread. -/
theorem merge_ok_iff (srcs : List Src) : (Ingest.merge srcs).2 = none ↔ ∀ s ∈ srcs, s.term = none := by
  constructor
  · intro h
    unfold Ingest.merge at h
    cases hp : prefill (range srcs.length) (init srcs) with
    | error x => simp [hp] at h
    | ok st =>
      simp only [hp] at h
      have hinv := prefill_inv (init_inv srcs) hp
      have hc : content st ~ (srcs.map (·.evs)).flatten := by
        have := prefill_content hp; rwa [init_content] at this
      have h2 := loop_terms (total srcs + 1) st hinv h (by rw [hc.length_eq, ← total_eq]; omega)
      have ht : st.rem.map (·.term) = srcs.map (·.term) := prefill_terms hp
      intro s hs
      have : s.term ∈ srcs.map (·.term) := mem_map_of_mem hs
      rw [← ht] at this
      obtain ⟨s2, hs2, he⟩ := mem_map.mp this
      rw [← he]; exact h2 s2 hs2
  · intro h
    unfold Ingest.merge
    obtain ⟨st, hp⟩ := prefill_ok (init_inv srcs) (st := init srcs) h
    simp only [hp]
    apply loop_ok _ st (prefill_inv (init_inv srcs) hp)
    have ht : st.rem.map (·.term) = srcs.map (·.term) := prefill_terms hp
    intro s hs
    have : s.term ∈ st.rem.map (·.term) := mem_map_of_mem hs
    rw [ht] at this
    obtain ⟨s0, hs0, he⟩ := mem_map.mp this
    rw [← he]; exact h s0 hs0

/-- states the public iterator can be in between two calls: after `__iter__`, and after each `__next__` -/
inductive Reach (srcs : List Src) : MS → Prop
  | iter {st : MS} : prefill (range srcs.length) (init srcs) = .ok st → Reach srcs st
  | next {st st' : MS} {x : Entry} : Reach srcs st → nextEv st = .ok (some (x, st')) → Reach srcs st'

theorem reach_inv {srcs : List Src} {st : MS} (h : Reach srcs st) : Inv [] st := by
  induction h with
  | iter hp => exact prefill_inv (init_inv srcs) hp
  | next _ hn ih =>
    rename_i st st' x
    have hn' := hn
    rw [nextEv, next_spec ih] at hn'
    split at hn'
    · cases hn'
    · rename_i y hl
      split at hn'
      · cases hn'
      · rename_i st2 hp
        simp only [Except.ok.injEq, Option.some.injEq, Prod.mk.injEq] at hn'
        obtain ⟨rfl, rfl⟩ := hn'
        exact pull_inv (pop_inv ih hl) hp

/-- **The discarding path of `__next__` is dead code.**  In every reachable state the front holds only
entries of live files (each file at most once), so the `while True` round that would drop a popped event
whose file is disabled is never taken: `__next__` returns exactly the popped (earliest) entry after
refilling from its file. -/
theorem unreachable_discard {srcs : List Src} {st : MS} (h : Reach srcs st) :
    (∀ x ∈ st.front, st.live[x.2]? = some true) ∧ (st.front.map Prod.snd).Nodup ∧
    ∀ x, st.front.getLast? = some x →
      nextEv st = (match pull { st with front := st.front.dropLast } x.2 with
                   | .error err => .error err
                   | .ok st2 => .ok (some (x, st2))) := by
  have hinv := reach_inv h
  refine ⟨hinv.frontLive, by simpa using hinv.nodup, ?_⟩
  intro x hl
  rw [nextEv, next_spec hinv, hl]
  rfl

/-- **B/E pairing, skipping, metadata.**  For a file that is a sequence of well-formed items — single
non-B/E events, and `B` immediately followed by an `E` of the same name, both with `ts` — the per-file
iterator yields exactly the items whose fate is `keep`, in order, where a pair is yielded as the `B`
event turned into `ph = X` with `dur = E.ts − B.ts`, metadata (`M`) is always kept, and every other
item is kept iff its duration is absent or `> 1e-9`; it ends the way the item list ends; and the two
warning counters count exactly the items with negative resp. zero (`0 ≤ dur ≤ 1e-9`) duration. -/
theorem pairing_spec (t : Option Err) (items : List Item) (h : ∀ it ∈ items, it.WF) :
    (pairBE t (items.flatMap Item.raws)).evs = (items.filter (fun it => it.fate = .keep)).map Item.slice ∧
    (pairBE t (items.flatMap Item.raws)).term = t ∧
    (pairBE t (items.flatMap Item.raws)).neg = items.countP (fun it => it.fate = .neg) ∧
    (pairBE t (items.flatMap Item.raws)).zero = items.countP (fun it => it.fate = .zero) :=
  pairBE_items t items h

/-- **Skipped slices are counted.**  Every item of a well-formed file is either yielded or counted in one
of the two warnings. -/
theorem skipped_counted (t : Option Err) (items : List Item) (h : ∀ it ∈ items, it.WF) :
    (pairBE t (items.flatMap Item.raws)).evs.length + (pairBE t (items.flatMap Item.raws)).neg +
      (pairBE t (items.flatMap Item.raws)).zero = items.length := by
  have hcount : ∀ l : List Item, (l.filter (fun it => it.fate = .keep)).length +
      l.countP (fun it => it.fate = .neg) + l.countP (fun it => it.fate = .zero) = l.length := by
    intro l
    induction l with
    | nil => rfl
    | cons it its ih => cases hf : it.fate <;> simp [hf] at ih ⊢ <;> omega
  obtain ⟨h1, _, h3, h4⟩ := pairBE_items t items h
  rw [h1, h3, h4, length_map]
  exact hcount items

/-- `updated_event` changes only `pid`, the `rank` entries and the presence of `args`: identity, phase,
timestamps, duration and name of the items that `pairBE` works on are those of the raw file -/
theorem annotate_keeps (r : Int) (l : List Ev) :
    (annotate r l).1.map (fun e => (e.u, e.ph, e.ts, e.dur, e.name)) =
      (l.take (annotate r l).1.length).map (fun e => (e.u, e.ph, e.ts, e.dur, e.name)) ∧
    ((annotate r l).2 = none → (annotate r l).1.length = l.length) := by
  induction l generalizing r with
  | nil => simp [annotate]
  | cons e es ih =>
    simp only [annotate]
    cases hu : upd r e with
    | error x => simp
    | ok p =>
      obtain ⟨e', r'⟩ := p
      have hb : (e'.u, e'.ph, e'.ts, e'.dur, e'.name) = (e.u, e.ph, e.ts, e.dur, e.name) := by
        simp only [upd, annot] at hu
        by_cases hx : inXBE e.ph = true <;> by_cases hm : inMbei e.ph = true <;>
          by_cases ha : e.hasAttr = true <;> by_cases hg : e.hasArgs = true <;>
          by_cases hr : r = -1 <;> cases hpid : e.pid <;>
          simp [hx, hm, ha, hg, hr, hpid] at hu <;>
          (try split at hu) <;> (try split at hu) <;>
          (try (simp at hu)) <;> (try (obtain ⟨rfl, rfl⟩ := hu)) <;> (try rfl) <;> simp_all
      obtain ⟨ih1, ih2⟩ := ih r'
      simp only [map_cons, length_cons, take_succ_cons, hb]
      exact ⟨by rw [← ih1], fun h => by rw [ih2 h]⟩

/-- **Rank attribution.**  In a FLEX file without `distributedInfo` whose first event is rank-annotated
(slice-like or `M`/`b`/`e`/`i`) and has pid `p ≥ 0`, every yielded rank-annotated event carries
`rank = p` (in `attr` for slice-like events that have `attr`, else in `args`) and `pid = p` — including
the slices built from B/E pairs, and whatever pids the later events had. -/
theorem rank_is_first_pid (e : Ev) (es : List Ev) (p : Int) (hp : e.pid = some p) (h0 : 0 ≤ p)
    (ha : annotated e.ph = true) :
    ∀ x ∈ (fileStream (-1) false (e :: es)).evs, annotated x.ph = true →
      rankOf x = some p ∧ x.pid = some p := by
  intro x hx hax
  simp only [fileStream, Bool.false_eq_true, if_false] at hx
  obtain ⟨y, hy, hpid, hrka, hrkt, hattr, hph⟩ := pairBE_mem _ _ x hx
  have hyfacts : annotated y.ph = true → rankOf y = some p ∧ y.pid = some p := by
    simp only [annotate] at hy
    cases hu : upd (-1) e with
    | error err => simp [hu] at hy
    | ok q =>
      obtain ⟨e', r'⟩ := q
      simp only [hu, mem_cons] at hy
      obtain ⟨h1, h2, h3, h4⟩ := upd_first hp h0 ha hu
      rcases hy with rfl | hy
      · intro _; exact ⟨h3, h4⟩
      · subst h1
        intro hay
        have hne : r' ≠ -1 := by omega
        have := annotate_rank hne es y hy hay
        exact ⟨this.1, this.2 h0⟩
  have hxb : inXBE x.ph = inXBE y.ph ∧ annotated y.ph = true := by
    rcases hph with h | ⟨hB, hX⟩
    · rw [h] at hax; exact ⟨by rw [h], hax⟩
    · rw [hB, hX]; decide
  obtain ⟨hr, hpy⟩ := hyfacts hxb.2
  refine ⟨?_, by rw [hpid, hpy]⟩
  simp only [rankOf, hxb.1, hattr, hrka, hrkt] at hr ⊢
  exact hr

/-! ### non-vacuity -/

private def x (u : Nat) (ts : Rat) (pid : Int) : Ev :=
  { u := u, ph := "X", ts := some ts, dur := some 1, pid := some pid, name := some "a",
    hasArgs := true, hasAttr := false }

/-- three files with ties across files, an empty file and refills: the merge takes the most recently
inserted entry among equal timestamps -/
example : (Ingest.merge [⟨[x 1 0 0, x 2 2 0, x 3 2 0], none⟩, ⟨[], none⟩, ⟨[x 4 0 1, x 5 1 1, x 6 2 1], none⟩]).1.map
    (fun y => (y.1.u, y.2)) = [(4, 2), (1, 0), (5, 2), (6, 2), (2, 0), (3, 0)] := by decide +kernel
example : (Ingest.merge [⟨[x 1 0 0, x 2 2 0, x 3 2 0], none⟩, ⟨[], none⟩, ⟨[x 4 0 1, x 5 1 1, x 6 2 1], none⟩]).2 = none :=
  (merge_ok_iff _).mpr (by decide)
/-- a raising file ends the merge with its exception, after the events that precede the failing pull -/
example : (Ingest.merge [⟨[x 1 0 0], some .assert⟩, ⟨[x 4 1 1, x 5 3 1], none⟩]).2 = some .assert := by decide +kernel
/-- the hypothesis of `merge_sorted` on a concrete file set -/
example : ∀ s ∈ [Src.mk [x 1 0 0, x 2 2 0, x 3 2 0] none, ⟨[], none⟩, ⟨[x 4 0 1, x 5 1 1, x 6 2 1], none⟩],
    s.evs.Pairwise (fun a b => key a ≤ key b) := by decide +kernel

private def b (u : Nat) (ph : String) (ts : Rat) (pid : Int) : Ev :=
  { u := u, ph := ph, ts := some ts, dur := none, pid := some pid, name := some "k",
    hasArgs := false, hasAttr := true }

/-- a well-formed item list: a pair of positive duration, a pair of zero duration, a metadata event with
negative `dur`, an `X` with negative duration -/
private def items : List Item :=
  [.pair (b 1 "B" 1 3) (b 2 "E" 4 3) "k" 1 4, .pair (b 3 "B" 5 3) (b 4 "E" 5 3) "k" 5 5,
   .single { x 5 6 3 with ph := "M", dur := some (-1) }, .single { x 6 7 3 with dur := some (-2) }]

example : ∀ it ∈ items, it.WF := by decide +kernel
example : ((pairBE none (items.flatMap Item.raws)).evs.map (fun e => (e.u, e.ph, e.dur)),
    (pairBE none (items.flatMap Item.raws)).neg, (pairBE none (items.flatMap Item.raws)).zero) =
    ([(1, "X", some 3), (5, "M", some (-1))], 1, 1) := by decide +kernel
/-- rank: later events with other pids, and a pair whose `B` has `attr`, all end up on rank 3 -/
example : (fileStream (-1) false [b 1 "B" 1 3, b 2 "E" 4 7, x 3 5 9]).evs.map
    (fun e => (e.u, e.pid, rankOf e)) = [(1, some 3, some 3), (3, some 3, some 3)] := by decide +kernel

end C15
end AiuVerif
