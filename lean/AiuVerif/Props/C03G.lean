/-
C03 for ARBITRARILY SHARED contexts.

`Props/C03.lean` proves the delivery, order and barrier clauses for stages with private state
(plus the shared module-level barrier).  Here every callback and every context `drain` may read
and write one global store — any number of registrations may share any context object, a context
may be drained several times (as `EventProcessor.drain` does for a context registered with two
stages), and a stage's behaviour may depend on what other stages did before.  The plumbing of
the engine is still exact:

  * stage 0 is handed exactly the input, in order;
  * every later stage is handed exactly what its predecessor emitted — from its callback or
    from its context's drain — in emission order, nothing lost, duplicated or reordered
    (hence held-back events traverse every later stage);
  * the exporter receives exactly what the last stage emitted.
-/
import AiuVerif.Lemmas.EngineG

namespace AiuVerif.C03
open GStage
variable {St ε : Type}

/-- **Exactly once, in emission order, for arbitrarily shared contexts.** -/
theorem delivery_exact_global (p : List (GStage St ε)) (s : St) (input : List ε) :
    (0 < p.length → dels 0 (runLog p s input) = input) ∧
    (∀ j, j + 1 < p.length → dels (j + 1) (runLog p s input) = emits j (runLog p s input)) ∧
    (0 < p.length → run p s input = emits (p.length - 1) (runLog p s input)) ∧
    (p = [] → run p s input = input) := by
  have A := streamLog_linked 0 p s input
  have B := drainLog_linked 0 p (stream p s input).1
  refine ⟨fun hn => ?_, fun j hj => ?_, fun hn => ?_, fun hp => ?_⟩
  · simp [runLog, A.first hn, B.first]
  · simp only [runLog, dels_append, emits_append]
    rw [A.link j (Nat.zero_le _) (by omega), B.link j (Nat.zero_le _) (by omega)]
  · have a := A.last hn
    have b := B.last hn
    simp only [Nat.zero_add] at a b
    simp [run, runLog, a, b]
  · subst hp
    have : ∀ (s' : St) (ys : List ε), (stream ([] : List (GStage St ε)) s' ys).2 = ys := by
      intro s' ys
      induction ys generalizing s' with
      | nil => rfl
      | cons y ys ih => simp [stream, feed, ih]
    simp [run, this, drainAll]

/-! ### non-vacuity: a two-phase context shared by a collecting and an applying stage, drained
twice — the second drain (at the applying stage's position) releases what that stage held -/

/-- store: (phase flipped?, count seen by `collect`, events held by `apply`) -/
abbrev TP := Bool × Nat × List Nat

def collectS : GStage TP Nat :=
  { step := fun s x => ((s.1, s.2.1 + 1, s.2.2), [x]),
    drain := fun s => if s.1 then (s, s.2.2) else ((true, s.2.1, s.2.2), []) }
def applyS : GStage TP Nat :=
  { step := fun s x => ((s.1, s.2.1, s.2.2 ++ [x + s.2.1]), []),
    drain := fun s => if s.1 then ((s.1, s.2.1, []), s.2.2) else ((true, s.2.1, s.2.2), []) }
def holdG : GStage TP Nat :=
  { step := fun s x => (s, [x]), drain := fun s => (s, []) }

example : run [collectS, holdG, applyS] (false, 0, []) [1, 2, 3] = [2, 4, 6] := by decide
example : dels 2 (runLog [collectS, holdG, applyS] (false, 0, []) [1, 2]) = [1, 2] := by decide

end AiuVerif.C03
