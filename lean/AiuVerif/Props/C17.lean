/-
C17 — event limits and filters select exactly the documented subset of events.

Property theorems only; helper lemmas and the specification-level definitions (`counted`, `rankAt`, `lookup`,
`wellTyped`, `pairMatches`, `dropsByFilter`) live in `Lemmas/Limit.lean`.  All statements are for arbitrary
streams, limit tuples, filter lists and an arbitrary regex matcher `m`.
-/
import AiuVerif.Lemmas.Limit

namespace AiuVerif
namespace C17
open AiuVerif.Limit List

/-- **`--event_limit`: which events the limiter keeps.**  For a context that has counted `cnt` events so far
(`0` for a fresh run), event `i` of the stream is kept iff its type is ignored, or its interval intersects the
window and its 1-based position among the countable intersecting events up to and including itself
(`rankAt` = `cnt` + the number of such events among `evs[0..i]`) lies in `(skip, skip + count]`. -/
theorem limit_spec (c : Cfg) (cnt : Nat) (evs : List Ev) (i : Nat) (e : Ev) (h : evs[i]? = some e) :
    (limitFlags c cnt evs)[i]? = some true ↔
      (ignored c e = true ∨
        (inWin c e = true ∧ c.skip < (rankAt c cnt evs i : Int) ∧
          (rankAt c cnt evs i : Int) ≤ c.count + c.skip)) := by
  rw [limitFlags_getElem?, h]
  simp [keptSpec, and_assoc]

/-- the window test is interval intersection: for an event of non-negative duration and a non-empty window,
`[ts, ts+dur]` and `[ts_start, ts_end]` share a point iff the limiter's two comparisons hold -/
theorem window_is_intersection (c : Cfg) (e : Ev) (hd : evTs e ≤ evEnd e) (hw : c.tsStart ≤ c.tsEnd) :
    inWin c e = true ↔ ∃ t : Rat, evTs e ≤ t ∧ t ≤ evEnd e ∧ c.tsStart ≤ t ∧ t ≤ c.tsEnd := by
  simp only [inWin, Bool.and_eq_true, decide_eq_true_eq]
  constructor
  · rintro ⟨h1, h2⟩
    by_cases h : evTs e ≤ c.tsStart
    · exact ⟨c.tsStart, h, h1, Rat.le_refl, hw⟩
    · exact ⟨evTs e, Rat.le_refl, hd, Rat.le_of_lt (Rat.not_le.mp h), h2⟩
  · rintro ⟨t, h1, h2, h3, h4⟩
    exact ⟨Rat.le_trans h3 h2, Rat.le_trans h1 h4⟩

/-- **Metadata is never counted or dropped.**  An event whose type is in `no_count_types` (and is not an `X`
slice) leaves `normalize_phase1` unchanged and leaves the counter unchanged — whatever the limits, the filters
and the counter; by `limit_spec` it also does not contribute to the rank of any other event. -/
theorem meta_never_counted_or_dropped {ρ : Type} (m : ρ → String → Bool) (c : Cfg)
    (fs : List (List String × ρ)) (cnt : Nat) (e : Ev) (hi : ignored c e = true) (hx : e.ph ≠ "X") :
    step m c fs cnt e = (cnt, .ok (some e)) ∧ eventWithinLimits c cnt e = (true, cnt) := by
  have h1 : eventWithinLimits c cnt e = (true, cnt) := by simp [eventWithinLimits, hi]
  refine ⟨?_, h1⟩
  simp [step, h1, hx]

/-- **The stage selects exactly: limiter ∧ not filtered.**  If `normalize_phase1` runs over the stream without
raising, the events that leave it are, in order, those that the limiter keeps (`limitFlags`, characterised by
`limit_spec`) and that are not `X` slices whose *normalised* form is matched by a filter; every other event is
passed on.  Slices removed by a filter still count for the limiter (the flags do not depend on the filters). -/
theorem stage_selects {ρ : Type} (m : ρ → String → Bool) (c : Cfg) (fs : List (List String × ρ)) (cnt : Nat)
    (evs : List Ev) (h : (run m c fs cnt evs).2 = none) :
    (run m c fs cnt evs).1.map (·.uid) =
      ((evs.zip (limitFlags c cnt evs)).filter (fun p => p.2 && !dropsByFilter m fs p.1)).map (·.1.uid) := by
  induction evs generalizing cnt with
  | nil => simp [run, limitFlags]
  | cons e es ih =>
    rw [run_cons] at h ⊢
    have hc := step_count m c fs cnt e
    have ho := step_outcome m c fs cnt e
    simp only [limitFlags, zip_cons_cons, filter_cons]
    generalize step m c fs cnt e = r at h hc ho ⊢
    obtain ⟨cnt', res⟩ := r
    simp only at hc ho h ⊢
    subst hc
    cases res with
    | error x => simp at h
    | ok o =>
      cases o with
      | none =>
        simp only at ho h ⊢
        simp only [ho, Bool.false_eq_true, if_false]
        exact ih _ h
      | some e' =>
        simp only at ho h ⊢
        simp only [ho.1, if_true, map_cons, ho.2, ih _ h]

/-- **`--event_filter` on well-typed paths.**  If no attribute path runs below a scalar of the event, the event
is matched iff for some pair the nested attribute it names (`event[a]`, or `event[a][b]`) exists, is a scalar,
and its `str()` matches the regex; a missing key and a dict-valued target never match. -/
theorem filter_spec {ρ : Type} (m : ρ → String → Bool) (fs : List (List String × ρ)) (e : Ev)
    (h : ∀ f ∈ fs, wellTyped e f.1 = true) :
    eventFiltered m fs e = .ok (fs.any (pairMatches m e)) :=
  eventFiltered_wellTyped m fs e h

/-- every `attribute:regex` entry of the command line is active, in order (also several for one attribute);
entries that do not have exactly two `:`-separated parts are skipped -/
theorem parse_spec {ρ : Type} (compile : String → ρ) (es : List (List String)) :
    collect compile es =
      es.filterMap (fun f => match f with | [k, r] => some (k, compile r) | _ => none) :=
  collect_eq compile es

/-- **Dropped iff a pair matches the normalised slice.**  For an `X` slice that normalises to `e'` on which all
paths are well-typed, the stage's filter decision is: some pair matches the nested attribute of `e'` — i.e. of
the event after `attr`→`args`, hex→decimal, name unification and `Bytes`→`bytes`. -/
theorem stage_filter_spec {ρ : Type} (m : ρ → String → Bool) (fs : List (List String × ρ)) (e e' : Ev)
    (hx : e.ph = "X") (hn : normalize e = .ok e') (h : ∀ f ∈ fs, wellTyped e' f.1 = true) :
    dropsByFilter m fs e = fs.any (pairMatches m e') := by
  simp only [dropsByFilter, hx, beq_self_eq_true, Bool.true_and, hn, filter_spec m fs e' h]
  cases fs.any (pairMatches m e') <;> rfl

/-- **The ill-typed branch.**  A path that continues below a scalar: below a number it raises `TypeError`; below
a string it raises `TypeError` if the next component is a substring of it, and otherwise the walk stops and the
regex is matched against that string. -/
theorem filter_past_leaf (e : Ev) (a b x : String) (rest : List String) (l : Leaf) (d : Dict) :
    (topGet e a = some (.inl l) → walk e (a :: x :: rest) = belowLeaf l (x :: rest)) ∧
    (topGet e a = some (.inr d) → Dict.get? d b = some l →
      walk e (a :: b :: x :: rest) = belowLeaf l (x :: rest)) ∧
    belowLeaf l (x :: rest) =
      (match l with
       | .str s => if isInfix x s then .error .type else .ok (.leaf l)
       | .num _ => .error .type) := by
  refine ⟨fun h => by simp [walk, h], fun h1 h2 => by simp [walk, h1, h2], ?_⟩
  cases l <;> rfl

/-- **Enlarging `count` never removes a kept event.** -/
theorem count_monotone (c : Cfg) (k' : Int) (hk : c.count ≤ k') (cnt : Nat) (evs : List Ev) (i : Nat)
    (h : (limitFlags c cnt evs)[i]? = some true) :
    (limitFlags { c with count := k' } cnt evs)[i]? = some true := by
  rw [limitFlags_getElem?] at h ⊢
  cases he : evs[i]? with
  | none => simp [he] at h
  | some e =>
    have hr : rankAt { c with count := k' } cnt evs i = rankAt c cnt evs i := rfl
    have hi : ignored { c with count := k' } e = ignored c e := rfl
    have hw : inWin { c with count := k' } e = inWin c e := rfl
    simp only [he, Option.map_some, Option.some.injEq, keptSpec, hr, hi, hw,
      Bool.or_eq_true, Bool.and_eq_true, decide_eq_true_eq] at h ⊢
    rcases h with h | ⟨⟨h1, h2⟩, h3⟩
    · exact Or.inl h
    · exact Or.inr ⟨⟨h1, h2⟩, by omega⟩

/-- **Enlarging the window never removes a kept event — where `skip`/`count` do not bind** (`skip = 0`, and
`count` at least the number of events, in particular the default `1 << 60` for any stream shorter than that). -/
theorem window_monotone (c : Cfg) (s' t' : Rat) (hs' : s' ≤ c.tsStart) (ht' : c.tsEnd ≤ t') (cnt : Nat)
    (evs : List Ev) (hs : c.skip = 0) (hc : ((cnt + evs.length : Nat) : Int) ≤ c.count) (i : Nat)
    (h : (limitFlags c cnt evs)[i]? = some true) :
    (limitFlags { c with tsStart := s', tsEnd := t' } cnt evs)[i]? = some true := by
  rw [limitFlags_window c cnt evs hs hc] at h
  rw [limitFlags_window { c with tsStart := s', tsEnd := t' } cnt evs hs hc]
  simp only [getElem?_map] at h ⊢
  cases he : evs[i]? with
  | none => simp [he] at h
  | some e =>
    simp only [he, Option.map_some, Option.some.injEq, Bool.or_eq_true] at h ⊢
    rcases h with h | h
    · exact Or.inl h
    · exact Or.inr (inWin_mono hs' ht' e h)

private def sl (u : Nat) (ts dur : Rat) : Ev :=
  { uid := u, ph := "X", ts := some ts, dur := some dur, name := some "a", top := [], args := some [("jobhash", .num "1")],
    attr := none }

/-- **The unrestricted window clause is inconsistent with the rank clause.**  With `count = 1`, the window
`[2, 5]` keeps the slice `[2,3]` (rank 1); the larger window `[0, 5]` gives rank 1 to the slice `[0,1]` and
drops `[2,3]` (rank 2) — exactly as the first sentence of the statement prescribes.  So "enlarging the window
never removes a kept slice" cannot hold when `count` binds; the check demands it only under `window_monotone`. -/
theorem window_monotone_general_false :
    ∃ (c : Cfg) (s' t' : Rat) (evs : List Ev) (i : Nat), s' ≤ c.tsStart ∧ c.tsEnd ≤ t' ∧
      (limitFlags c 0 evs)[i]? = some true ∧
      (limitFlags { c with tsStart := s', tsEnd := t' } 0 evs)[i]? = some false :=
  ⟨⟨0, 1, 2, 5, "M"⟩, 0, 5, [sl 1 0 1, sl 2 2 1, sl 3 4 1], 1, by decide +kernel, by decide +kernel,
    by decide +kernel, by decide +kernel⟩

/-- **Regression witness for the OLD filter table (before /repo d1d4f97).**  When the filters were a `dict`
keyed by the attribute (`collectOld`), `name:foo,name:bar` kept only `name:bar`, so a slice named `foo` was
not dropped; with the list of pairs (`collect`, the current code) it is. -/
theorem filter_dup_attr_loses_first :
    collectOld parseRx [["name", "foo"], ["name", "bar"]] = [("name", parseRx "bar")] ∧
    eventFiltered rxMatch ((collectOld parseRx [["name", "foo"], ["name", "bar"]]).map fun p => ([p.1], p.2))
      { sl 1 0 1 with name := some "foo" } = .ok false ∧
    eventFiltered rxMatch ((collect parseRx [["name", "foo"], ["name", "bar"]]).map fun p => ([p.1], p.2))
      { sl 1 0 1 with name := some "foo" } = .ok true := by
  refine ⟨by decide +kernel, by decide +kernel, by decide +kernel⟩

/-! ### non-vacuity -/

private def md : Ev :=
  { uid := 9, ph := "M", ts := some 0, dur := none, name := some "process_name", top := [], args := none, attr := none }

/-- a stream with a metadata event in the window, skip 1 / count 1: the metadata does not consume the count -/
example : limitFlags ⟨1, 1, 0, 10, "M"⟩ 0 [sl 1 0 1, md, md, sl 2 2 1, sl 3 4 1] = [false, true, true, true, false] := by
  decide +kernel
example : ignored ⟨1, 1, 0, 10, "M"⟩ md = true ∧ md.ph ≠ "X" := by decide +kernel
/-- the stage: hex → decimal and name unification are visible to the filters; the filtered slice still counts -/
example : ((run rxMatch ⟨0, 2, 0, 10, "M"⟩ [(["args", "Power"], parseRx "^16$"), (["name"], parseRx "Recv")] 0
    [{ sl 1 0 1 with args := some [("jobhash", .num "1"), ("Power", .str "0x10")] },
     { sl 2 1 1 with name := some "x_Receive" }, sl 3 2 1, sl 4 3 1]).1.map (·.uid),
    (run rxMatch ⟨0, 2, 0, 10, "M"⟩ [(["args", "Power"], parseRx "^16$"), (["name"], parseRx "Recv")] 0
    [{ sl 1 0 1 with args := some [("jobhash", .num "1"), ("Power", .str "0x10")] },
     { sl 2 1 1 with name := some "x_Receive" }, sl 3 2 1, sl 4 3 1]).2) = ([], none) := by decide +kernel
example : (run rxMatch ⟨0, 3, 0, 10, "M"⟩ [(["args", "Power"], parseRx "^16$"), (["name"], parseRx "Recv")] 0
    [{ sl 1 0 1 with args := some [("jobhash", .num "1"), ("Power", .str "0x10")] },
     { sl 2 1 1 with name := some "x_Receive" }, sl 3 2 1, sl 4 3 1]).1.map (·.uid) = [3] := by decide +kernel
/-- well-typedness of the paths used above, and an ill-typed one -/
example : wellTyped (sl 1 0 1) ["args", "Power"] = true ∧ wellTyped (sl 1 0 1) ["name"] = true ∧
    wellTyped (sl 1 0 1) ["name", "x"] = false := by decide +kernel
example : walk (sl 1 0 1) ["name", "a"] = .error .type ∧ walk (sl 1 0 1) ["name", "z"] = .ok (.leaf (.str "a")) := by
  decide +kernel
/-- the hypotheses of `window_monotone` hold at the default limits for any stream below 2^60 events -/
example : (mkCfg none none none none none).skip = 0 ∧
    ((0 + [sl 1 0 1, sl 2 2 1].length : Nat) : Int) ≤ (mkCfg none none none none none).count := by decide +kernel

end C17
end AiuVerif
