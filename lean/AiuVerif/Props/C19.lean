/-
C19 — time-weighted power statistics partition time correctly and respect bounds.

Property theorems only; helper lemmas live in `Lemmas/PowerStats.lean`.  All statements hold for
arbitrary rational inputs and arbitrary list lengths.  The side conditions are exactly the guards of
the code: `ps < pe` for a power period (`if ts > last_ts`) and `s < e` for a kernel interval
(`if dur > 0`); `collect_guards` proves that the callback establishes them for *every* event
stream, and `analyze_partitions_time` is the hypothesis-free end-to-end form.  The bounds clause needs
non-negative powers (what `compute_power` delivers, C10): `bounds_fail_negative_power` shows it is
false otherwise.
-/
import AiuVerif.Lemmas.PowerStats

namespace AiuVerif
namespace C19
open PowerStats

/-! ### `_merge_periods` -/

/-- **Merged timeline is sorted and disjoint.**  For kernel intervals of positive length the result
of `_merge_periods` consists of proper intervals, each ending strictly before the next begins. -/
theorem merge_sorted_disjoint (l : List Period) (h : ∀ p ∈ l, p.1 < p.2) : Merged (mergePeriods l) := by
  unfold mergePeriods
  have hs := sorted_starts l
  have hperm := List.mergeSort_perm l leLex
  generalize l.mergeSort leLex = sl at hs hperm
  cases sl with
  | nil => exact ⟨by simp, List.Pairwise.nil⟩
  | cons first rest =>
    rw [List.pairwise_cons] at hs
    have hmem : ∀ p ∈ first :: rest, p.1 < p.2 := fun p hp => h p (hperm.mem_iff.mp hp)
    exact (mergeGo_spec first rest (hmem first (List.mem_cons_self ..))
      (fun p hp => hmem p (List.mem_cons_of_mem _ hp)) hs.2 hs.1).1

/-- **Merging neither adds nor loses kernel time** (pointwise, no hypothesis): a time `t` lies in
some interval `[s, e)` of the merged timeline iff it lies in some input interval. -/
theorem merge_covers (l : List Period) (t : Num) : Covers (mergePeriods l) t ↔ Covers l t := by
  unfold mergePeriods
  have hs := sorted_starts l
  have hperm := List.mergeSort_perm l leLex
  generalize l.mergeSort leLex = sl at hs hperm
  cases sl with
  | nil =>
    have : l = [] := by simpa using hperm.symm
    subst this; rfl
  | cons first rest =>
    rw [List.pairwise_cons] at hs
    rw [mergeGo_covers first rest t hs.2 hs.1]
    exact covers_perm hperm t

/-! ### `_split_power_period` -/

/-- **One power period is partitioned.**  Over a merged timeline and for `ps < pe`, the durations of
the emitted segments are all positive and add up to exactly `pe − ps`: no time lost, none counted
twice. -/
theorem split_partitions (ps pe v : Num) (tl : List Period) (hpe : ps < pe) (hm : Merged tl) :
    total (split ps pe v tl) = pe - ps ∧ ∀ s ∈ split ps pe v tl, 0 < s.1 :=
  ⟨splitFrom_total ps pe v hpe tl ps hm le_rfl (le_of_lt hpe) (fun _ _ => le_max_left _ _),
   splitFrom_pos ps pe v hpe tl ps hm.1⟩

/-- **The kernel-tagged part is the kernel-covered part.**  The durations tagged `has_kernel` add up
to `Σ_k max 0 (min pe k.e − max ps k.s)`, the length of `[ps, pe) ∩ ⋃ timeline` (the timeline being
pairwise disjoint); with `split_partitions` the untagged durations add up to the rest. -/
theorem split_kernel_measure (ps pe v : Num) (tl : List Period) (hpe : ps < pe) (hm : Merged tl) :
    sumDur (withK (split ps pe v tl)) = overlap ps pe tl ∧
    sumDur (withoutK (split ps pe v tl)) = (pe - ps) - overlap ps pe tl := by
  have h1 := (splitFrom_withK ps pe v hpe tl ps hm.1).1
  have h2 := (split_partitions ps pe v tl hpe hm).1
  rw [total_eq_with_add_without] at h2
  simp only [split] at h1 h2 ⊢
  refine ⟨h1, ?_⟩
  linarith

/-- every segment carries the power value of its period -/
theorem split_power_tag (ps pe v : Num) (tl : List Period) : ∀ s ∈ split ps pe v tl, s.2.1 = v :=
  splitFrom_tag ps pe v tl ps

/-! ### `drain` -/

/-- **With + without = total sampled time.**  Whatever `drain` reports (a `none` scenario is the
"No data" line and counts 0), the two `dur_total` values add up to `Σ (end − start)` over the power
periods.  Includes the `if not kernel_periods and not without_kernels` fallback. -/
theorem with_plus_without_eq_total (pp : List PPeriod) (kp : List Period)
    (hpp : ∀ p ∈ pp, p.1 < p.2.1) (hk : ∀ k ∈ kp, k.1 < k.2) (w wo : Option Stats)
    (h : drainStats pp kp = some (w, wo)) : durTot w + durTot wo = sampled pp := by
  unfold drainStats at h
  split at h
  · exact absurd h (by simp)
  · simp only [Option.some.injEq, Prod.mk.injEq] at h
    obtain ⟨rfl, rfl⟩ := h
    rw [scenarios_eq, durTot_computeStats, durTot_computeStats, ← total_eq_with_add_without]
    exact (allSegments_sums pp _ hpp (merge_sorted_disjoint kp hk)).1

/-- **The "with kernels" duration is the kernel-covered sampled time** — time is not shifted between
the two scenarios. -/
theorem with_dur_eq_kernel_measure (pp : List PPeriod) (kp : List Period)
    (hpp : ∀ p ∈ pp, p.1 < p.2.1) (hk : ∀ k ∈ kp, k.1 < k.2) (w wo : Option Stats)
    (h : drainStats pp kp = some (w, wo)) :
    durTot w = kernelTime pp (mergePeriods kp) ∧
    durTot wo = sampled pp - kernelTime pp (mergePeriods kp) := by
  have hsum := with_plus_without_eq_total pp kp hpp hk w wo h
  unfold drainStats at h
  split at h
  · exact absurd h (by simp)
  · simp only [Option.some.injEq, Prod.mk.injEq] at h
    obtain ⟨rfl, rfl⟩ := h
    have hw : durTot (computeStats (scenarios pp kp).1) = kernelTime pp (mergePeriods kp) := by
      rw [scenarios_eq, durTot_computeStats]
      exact (allSegments_sums pp _ hpp (merge_sorted_disjoint kp hk)).2.1
    refine ⟨hw, ?_⟩
    linarith

/-- **Each time-weighted average is `Σ P·dt / Σ dt` over its segments**, and the reported
durations are those sums (`dur_total` over all, `dur_non_zero`/`mean_non_zero` over the segments
with `P > 0`). -/
theorem weighted_mean_def (segs : List WSeg) (st : Stats) (hd : ∀ s ∈ segs, 0 < s.1)
    (h : computeStats segs = some st) :
    st.durTotal = sumDur segs ∧ st.avgTotal = wSum segs / sumDur segs ∧
    st.durNz = sumDur (nonZero segs) ∧
    (nonZero segs ≠ [] → st.meanNz = wSum (nonZero segs) / sumDur (nonZero segs)) := by
  obtain ⟨hne, h1, h2, h3, h4, _⟩ := computeStats_eq_some h
  have hpos := sumDur_pos hne hd
  refine ⟨h1, by rw [h3, if_pos hpos], h2, ?_⟩
  intro hnz
  have : 0 < sumDur (nonZero segs) :=
    sumDur_pos hnz (fun s hs => hd s (List.mem_filter.mp hs).1)
  rw [h4, if_pos this]

/-- **The averages are power-time integrals of the inputs.**  For the scenarios of `drain`:
`avg_total × dur_total` of "with kernels" is `Σ P × |period ∩ kernels|`, and of "without kernels"
it is the remaining energy `Σ P × (end − start) − Σ P × |period ∩ kernels|`. -/
theorem scenario_energy (pp : List PPeriod) (kp : List Period)
    (hpp : ∀ p ∈ pp, p.1 < p.2.1) (hk : ∀ k ∈ kp, k.1 < k.2) (w wo : Option Stats)
    (h : drainStats pp kp = some (w, wo)) :
    (∀ s, w = some s → s.avgTotal * s.durTotal = kernelEnergy pp (mergePeriods kp)) ∧
    (∀ s, wo = some s → s.avgTotal * s.durTotal = energy pp - kernelEnergy pp (mergePeriods kp)) := by
  unfold drainStats at h
  split at h
  · exact absurd h (by simp)
  · simp only [Option.some.injEq, Prod.mk.injEq] at h
    obtain ⟨rfl, rfl⟩ := h
    have hm := merge_sorted_disjoint kp hk
    obtain ⟨_, _, a3, a4⟩ := allSegments_sums pp _ hpp hm
    have hposall := allSegments_pos pp _ hpp hm.1
    rw [scenarios_eq]
    constructor
    · intro s hs
      have hd : ∀ x ∈ withK (allSegments pp (mergePeriods kp)), 0 < x.1 := by
        intro x hx; obtain ⟨t, ht, h1, _⟩ := mem_withK hx; rw [← h1]; exact hposall t ht
      obtain ⟨e1, e2, _, _⟩ := weighted_mean_def _ s hd hs
      have hne := (computeStats_eq_some hs).1
      have hpos := sumDur_pos hne hd
      rw [e2, e1, div_mul_cancel₀ _ (ne_of_gt hpos), a3]
    · intro s hs
      have hd : ∀ x ∈ withoutK (allSegments pp (mergePeriods kp)), 0 < x.1 := by
        intro x hx; obtain ⟨t, ht, h1, _⟩ := mem_withoutK hx; rw [← h1]; exact hposall t ht
      obtain ⟨e1, e2, _, _⟩ := weighted_mean_def _ s hd hs
      have hne := (computeStats_eq_some hs).1
      have hpos := sumDur_pos hne hd
      rw [e2, e1, div_mul_cancel₀ _ (ne_of_gt hpos)]
      have := wSum_untag_eq (allSegments pp (mergePeriods kp))
      rw [a4, a3] at this
      linarith

/-! ### bounds -/

/-- the ordering relations the property demands of one reported statistics record -/
structure Bounds (st : Stats) : Prop where
  min_le_median : st.minNz ≤ st.medianNz
  median_le_max : st.medianNz ≤ st.max
  min_le_mean : st.minNz ≤ st.meanNz
  mean_le_max : st.meanNz ≤ st.max
  durNz_le_durTotal : st.durNz ≤ st.durTotal

/-- **Bounds.**  For segments of positive duration and non-negative power,
`min_nz ≤ median_nz ≤ max`, `min_nz ≤ mean_nz ≤ max` and `dur_nz ≤ dur_total`. -/
theorem bounds (segs : List WSeg) (st : Stats) (hd : ∀ s ∈ segs, 0 < s.1) (hp : ∀ s ∈ segs, 0 ≤ s.2)
    (h : computeStats segs = some st) : Bounds st := by
  obtain ⟨hne, h1, h2, _, h4, h5, h6, h7⟩ := computeStats_eq_some h
  have hsub : ∀ s ∈ nonZero segs, s ∈ segs := fun s hs => (List.mem_filter.mp hs).1
  have hdn : ∀ s ∈ nonZero segs, 0 ≤ s.1 := fun s hs => le_of_lt (hd s (hsub s hs))
  have hdur : st.durNz ≤ st.durTotal := by
    rw [h1, h2]; exact sumDur_filter_le _ (fun s hs => le_of_lt (hd s hs))
  by_cases hnz : nonZero segs = []
  · -- no sample with P > 0: min, median, mean are 0 and max ≥ 0
    have hmax : 0 ≤ st.max := by
      obtain ⟨x, hx⟩ := List.exists_mem_of_ne_nil _ hne
      rw [h6]
      exact le_trans (hp x hx) (le_maxOr0 (List.mem_map_of_mem hx))
    have e5 : st.minNz = 0 := by rw [h5, hnz]; rfl
    have e7 : st.medianNz = 0 := by rw [h7, hnz]; rfl
    have e4 : st.meanNz = 0 := by rw [h4, hnz]; simp
    exact ⟨by rw [e5, e7], by rw [e7]; exact hmax, by rw [e5, e4], by rw [e4]; exact hmax, hdur⟩
  · have hpos : 0 < sumDur (nonZero segs) := sumDur_pos hnz (fun s hs => hd s (hsub s hs))
    have hminle : ∀ s ∈ nonZero segs, st.minNz ≤ s.2 := fun s hs => by
      rw [h5]; exact minOr0_le (List.mem_map_of_mem hs)
    have hlemax : ∀ s ∈ nonZero segs, s.2 ≤ st.max := fun s hs => by
      rw [h6]; exact le_maxOr0 (List.mem_map_of_mem (hsub s hs))
    -- the median is the power of one of the non-zero segments
    have hperm : (sortByPower (nonZero segs)).Perm (nonZero segs) := List.mergeSort_perm _ _
    have hmed : st.medianNz ∈ (nonZero segs).map (·.2) := by
      have hne' : sortByPower (nonZero segs) ≠ [] := fun hh => hnz (by simpa [hh] using hperm.symm)
      have := medianGo_mem (sumDur (nonZero segs) / 2) 0 (sortByPower (nonZero segs)) hne'
        (by rw [sumDur_perm hperm]; linarith)
      rw [h7, if_neg (by simpa using hnz)]
      exact (hperm.map _).mem_iff.mp this
    obtain ⟨sm, hsm, hsme⟩ := List.mem_map.mp hmed
    have hmean : st.meanNz = wSum (nonZero segs) / sumDur (nonZero segs) := by rw [h4, if_pos hpos]
    refine ⟨?_, ?_, ?_, ?_, hdur⟩
    · rw [← hsme]; exact hminle sm hsm
    · rw [← hsme]; exact hlemax sm hsm
    · rw [hmean, le_div_iff₀ hpos]; exact wSum_ge _ hdn hminle
    · rw [hmean, div_le_iff₀ hpos]; exact wSum_le _ hdn hlemax

/-- **Bounds hold for both lines `drain` reports**, for power periods with `ps < pe`, kernels with
`s < e` and non-negative power samples. -/
theorem drain_bounds (pp : List PPeriod) (kp : List Period)
    (hpp : ∀ p ∈ pp, p.1 < p.2.1) (hk : ∀ k ∈ kp, k.1 < k.2) (hw : ∀ p ∈ pp, 0 ≤ p.2.2)
    (w wo : Option Stats) (h : drainStats pp kp = some (w, wo)) :
    (∀ s, w = some s → Bounds s) ∧ (∀ s, wo = some s → Bounds s) := by
  unfold drainStats at h
  split at h
  · exact absurd h (by simp)
  · simp only [Option.some.injEq, Prod.mk.injEq] at h
    obtain ⟨rfl, rfl⟩ := h
    have hm := merge_sorted_disjoint kp hk
    have hposall := allSegments_pos pp _ hpp hm.1
    have hpow : ∀ t ∈ allSegments pp (mergePeriods kp), 0 ≤ t.2.1 := fun t ht => by
      obtain ⟨p, hp, e⟩ := allSegments_power pp _ t ht
      rw [e]; exact hw p hp
    rw [scenarios_eq]
    constructor
    · intro s hs
      refine bounds _ s ?_ ?_ hs
      · intro x hx; obtain ⟨t, ht, h1, _⟩ := mem_withK hx; rw [← h1]; exact hposall t ht
      · intro x hx; obtain ⟨t, ht, _, h2⟩ := mem_withK hx; rw [← h2]; exact hpow t ht
    · intro s hs
      refine bounds _ s ?_ ?_ hs
      · intro x hx; obtain ⟨t, ht, h1, _⟩ := mem_withoutK hx; rw [← h1]; exact hposall t ht
      · intro x hx; obtain ⟨t, ht, _, h2⟩ := mem_withoutK hx; rw [← h2]; exact hpow t ht

/-! ### `analyze_power_statistics` establishes the side conditions -/

theorem collect1_guards (c : Coll) (e : REv)
    (h : (∀ p ∈ c.periods, p.1 < p.2.1) ∧ (∀ k ∈ c.kernels, k.1 < k.2)) :
    (∀ p ∈ (collect1 c e).periods, p.1 < p.2.1) ∧ (∀ k ∈ (collect1 c e).kernels, k.1 < k.2) := by
  unfold collect1
  split
  · exact h
  · rename_i ts _
    split
    · exact h
    · split
      · split
        · exact h
        · refine ⟨?_, h.2⟩
          intro p hp
          simp only at hp
          split at hp
          · split at hp
            · rcases List.mem_append.mp hp with hp | hp
              · exact h.1 p hp
              · simp only [List.mem_singleton] at hp; subst hp; assumption
            · exact h.1 p hp
          · exact h.1 p hp
      · split
        · split
          · refine ⟨h.1, ?_⟩
            intro k hk
            rcases List.mem_append.mp hk with hk | hk
            · exact h.2 k hk
            · simp only [List.mem_singleton] at hk; subst hk
              show ts < ts + _
              linarith
          · exact h
        · exact h

/-- **The guards of the callback give the side conditions, for every event stream**: every collected
power period has `start < end` (`if ts > last_ts`) and every kernel interval positive length
(`if dur > 0`). -/
theorem collect_guards (evs : List REv) :
    (∀ p ∈ (collect evs).periods, p.1 < p.2.1) ∧ (∀ k ∈ (collect evs).kernels, k.1 < k.2) := by
  unfold collect
  suffices H : ∀ c : Coll, ((∀ p ∈ c.periods, p.1 < p.2.1) ∧ (∀ k ∈ c.kernels, k.1 < k.2)) →
      ((∀ p ∈ (evs.foldl collect1 c).periods, p.1 < p.2.1) ∧
       (∀ k ∈ (evs.foldl collect1 c).kernels, k.1 < k.2)) by
    exact H {} ⟨by simp, by simp⟩
  induction evs with
  | nil => intro c h; exact h
  | cons e evs ih => intro c h; exact ih _ (collect1_guards c e h)

/-- **End to end, no hypothesis.**  For every stream of events handed to the stage, the two reported
`dur_total` values add up to the total sampled time, and "with kernels" gets exactly the
kernel-covered part of it. -/
theorem analyze_partitions_time (evs : List REv) (w wo : Option Stats)
    (h : analyze evs = some (w, wo)) :
    durTot w + durTot wo = sampled (collect evs).periods ∧
    durTot w = kernelTime (collect evs).periods (mergePeriods (collect evs).kernels) := by
  obtain ⟨g1, g2⟩ := collect_guards evs
  exact ⟨with_plus_without_eq_total _ _ g1 g2 w wo h,
    (with_dur_eq_kernel_measure _ _ g1 g2 w wo h).1⟩

theorem collect1_power_nonneg (c : Coll) (e : REv) (he : ∀ w, e.watts = some w → 0 ≤ w)
    (h : (∀ p ∈ c.periods, 0 ≤ p.2.2) ∧ (∀ l, c.last = some l → 0 ≤ l.2)) :
    (∀ p ∈ (collect1 c e).periods, 0 ≤ p.2.2) ∧ (∀ l, (collect1 c e).last = some l → 0 ≤ l.2) := by
  unfold collect1
  split
  · exact h
  · split
    · exact h
    · split
      · split
        · exact h
        · rename_i w hw
          refine ⟨?_, ?_⟩
          · intro p hp
            simp only at hp
            split at hp
            · rename_i lts lw hl
              split at hp
              · rcases List.mem_append.mp hp with hp | hp
                · exact h.1 p hp
                · simp only [List.mem_singleton] at hp; subst hp
                  exact h.2 (lts, lw) hl
              · exact h.1 p hp
            · exact h.1 p hp
          · intro l hl
            simp only [Option.some.injEq] at hl
            subst hl
            exact he w hw
      · split
        · split
          · exact h
          · exact h
        · exact h

theorem collect_power_nonneg (evs : List REv) (hw : ∀ e ∈ evs, ∀ w, e.watts = some w → 0 ≤ w) :
    ∀ p ∈ (collect evs).periods, 0 ≤ p.2.2 := by
  unfold collect
  suffices H : ∀ c : Coll, ((∀ p ∈ c.periods, 0 ≤ p.2.2) ∧ (∀ l, c.last = some l → 0 ≤ l.2)) →
      ((∀ p ∈ (evs.foldl collect1 c).periods, 0 ≤ p.2.2) ∧
       (∀ l, (evs.foldl collect1 c).last = some l → 0 ≤ l.2)) by
    exact (H {} ⟨by simp, by simp⟩).1
  induction evs with
  | nil => intro c h; exact h
  | cons e evs ih =>
    intro c hc
    exact ih (fun e' he' => hw e' (List.mem_cons_of_mem _ he')) _
      (collect1_power_nonneg c e (hw e (List.mem_cons_self ..)) hc)

/-- **Bounds, end to end.**  If every power sample handed to the stage is non-negative (what
`compute_power` guarantees, C10), both reported statistics records satisfy the bounds — for every
event stream, with no further side condition. -/
theorem analyze_bounds (evs : List REv) (hw : ∀ e ∈ evs, ∀ w, e.watts = some w → 0 ≤ w)
    (w wo : Option Stats) (h : analyze evs = some (w, wo)) :
    (∀ s, w = some s → Bounds s) ∧ (∀ s, wo = some s → Bounds s) := by
  obtain ⟨g1, g2⟩ := collect_guards evs
  exact drain_bounds _ _ g1 g2 (collect_power_nonneg evs hw) w wo h

/-! ### non-vacuity and the excluded branches -/

/-- `drain` reports two scenarios whenever there is at least one power period, so the hypothesis
`drainStats pp kp = some (w, wo)` of the theorems above is met by every such input -/
theorem drain_reports (pp : List PPeriod) (kp : List Period) (hne : pp ≠ []) :
    ∃ w wo, drainStats pp kp = some (w, wo) := by
  unfold drainStats
  cases pp with
  | nil => exact absurd rfl hne
  | cons p pp => exact ⟨_, _, rfl⟩

/-- the sweep of `_merge_periods` on a sorted family with a nested, a touching and a separate
interval -/
example : mergeGo (1, 3) [(2, 3), (3, 4), (6, 7)] = [(1, 4), (6, 7)] := by decide +kernel
example : Merged [((1 : Num), (4 : Num)), (6, 7)] :=
  ⟨by decide +kernel, by decide +kernel⟩
example : split 0 10 (5/2) [(1, 4), (6, 7), (9, 12)] =
    [(1, 5/2, false), (3, 5/2, true), (2, 5/2, false), (1, 5/2, true), (2, 5/2, false), (1, 5/2, true)] := by
  decide +kernel
/-- two power periods, two overlapping kernels: the hypotheses are met and the reported durations
add up to the 12 time units sampled -/
example : ∃ w wo, drainStats [(0, 10, 5), (10, 12, 0)] [(1, 3), (2, 4)] = some (w, wo) ∧
    durTot w + durTot wo = 12 := by
  obtain ⟨w, wo, h⟩ := drain_reports [(0, 10, 5), (10, 12, 0)] [(1, 3), (2, 4)] (by simp)
  refine ⟨w, wo, h, ?_⟩
  rw [with_plus_without_eq_total _ _ (by decide +kernel) (by decide +kernel) w wo h]
  decide +kernel
example : computeStats [(2, 1), (1, 0)] = some ⟨1, 1, 1, 1, 2/3, 3, 2⟩ := by decide +kernel
/-- a stream as the stage sees it: two kernels, then three power samples (one tie in time) -/
example : (collect [⟨"X", some "fn Cmpt Exec", some 2, none, some 3⟩, ⟨"C", some "Power", some 1, some 5, none⟩,
    ⟨"C", some "Power", some 7, some 0, none⟩, ⟨"C", some "Power", some 7, some 2, none⟩,
    ⟨"C", some "Power", some 9, some 1, none⟩]) =
    { periods := [(1, 7, 5), (7, 9, 2)], last := some (9, 1), kernels := [(2, 5)] } := by decide +kernel

/-- without `ps < pe` the partition clause is false: a zero-length period inside a kernel yields a
zero-length tagged segment (this is why the callback's `ts > last_ts` guard matters) -/
theorem split_zero_length_period : split 2 2 1 [(1, 3)] = [(0, 1, true)] := by decide +kernel

/-- with a negative power sample the bounds clause is false (`min_non_zero = 0 > max`) -/
theorem bounds_fail_negative_power :
    ∃ st, computeStats [(1, -1)] = some st ∧ ¬ st.minNz ≤ st.max := by
  refine ⟨⟨0, -1, 0, 0, -1, 1, 0⟩, by decide +kernel, by decide +kernel⟩

/-- the callback treats `ts == 0` like a missing time stamp: a kernel slice starting at 0 is not
collected (observation reported with the property; outside the oracle's domain) -/
theorem ts_zero_is_ignored :
    (collect [⟨"X", some "fn Cmpt Exec", some 0, none, some 5⟩]).kernels = [] := by decide +kernel

end C19
end AiuVerif
