/-
C04, the last step for torch-profiler inputs with string tids: the lane names that
`_restore_pid_tid` hands out keep apart what the overlap resolution has separated.

Before the repair `0dd91ce` the function put the ORIGINAL tid back on every slice, i.e. it computed
`laneLabel otid 0` whatever `moved` was: a slice that `-O tid` had moved off its lane returned to it
and the exported lane showed the partial overlap again (known_findings.json, fixed).  The two
theorems say what the repaired function guarantees for the slices that come from ONE original lane
`otid` (the case of the defect):

* `moved_never_returns`: a moved slice (`k ≠ 0`) is never exported on the lane it left;
* `same_origin_lanes_distinct`: slices moved to different spare tids are exported on different lanes.

Slices of DIFFERENT original lanes keep different names as long as no original tid string is itself
of the form `"<other tid> (<k>)"` - a naming coincidence outside the model (trusted base of C04).
-/
import AiuVerif.Model.LaneLabel
import Std.Data.String.ToNat

namespace AiuVerif.C04
open AiuVerif.LaneLabel

theorem label_length (otid : String) (k : Nat) (hk : k ≠ 0) :
    otid.length < (laneLabel otid k).length := by
  unfold laneLabel
  simp only [hk, if_false, String.length_append]
  have : (" (" : String).length = 2 := by decide
  omega

/-- **A moved slice never returns to the lane it left.** -/
theorem moved_never_returns (otid : String) (k : Nat) (hk : k ≠ 0) :
    laneLabel otid k ≠ laneLabel otid 0 := by
  intro h
  have hl := label_length otid k hk
  rw [h] at hl
  simp [laneLabel] at hl

/-- **Slices of one original lane that sit on different tids are exported on different lanes.** -/
theorem same_origin_lanes_distinct (otid : String) (k k' : Nat)
    (h : laneLabel otid k = laneLabel otid k') : k = k' := by
  by_cases hk : k = 0
  · by_cases hk' : k' = 0
    · omega
    · exact absurd (by rw [hk] at h; exact h.symm) (moved_never_returns otid k' hk')
  · by_cases hk' : k' = 0
    · exact absurd (by rw [hk'] at h; exact h) (moved_never_returns otid k hk)
    · unfold laneLabel at h
      simp only [hk, hk', if_false] at h
      have h1 := congrArg String.toList h
      simp only [String.toList_append, List.append_assoc] at h1
      have h2 := List.append_cancel_left h1
      have h3 := List.append_cancel_left h2
      have h4 := List.append_cancel_right h3
      exact Nat.repr_injective (String.toList_inj.mp h4)

/-- non-vacuity / the shape of the names: the lane `"stream 11"` and its first two spare lanes -/
example : laneLabel "stream 11" 0 = "stream 11" ∧ laneLabel "stream 11" 1 = "stream 11 (1)" ∧
    laneLabel "stream 11" 2 = "stream 11 (2)" := by decide

end AiuVerif.C04
