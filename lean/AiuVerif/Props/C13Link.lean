/-
C13, pipeline level: the hypothesis "the Prep stage receives a ts-sorted stream" of
`C13.concurrent_preps_correct_of_sorted_stream` is discharged by C07: whatever
`mp_sync_tight_v1` hands on is sorted by ts (`C07.sorted_out`), and `Order.preps_order` shows on
the generated site list that `queueing_counter` is registered right behind the clock alignment.
The two models use their own event records; `ofMEv` is the view of an alignment output event
as the Prep sweep reads it (same uid, ph, name, pid, ts, dur; the dialect is looked up by the
stage through the job registry, here an arbitrary function of the event).
-/
import AiuVerif.Props.C07
import AiuVerif.Props.C13

namespace AiuVerif.C13
open AiuVerif AiuVerif.Preps

def ofMEv (d : MpSync.MEv → Dial) (e : MpSync.MEv) : PEv :=
  { uid := e.uid, ph := e.ph, name := e.name, pid := e.pid, ts := e.ts, dur := e.dur, dial := d e }

/-- **ConcurrentPreps behind the clock alignment.**  For every input of `mp_sync_tight_v1` on which
it returns, the Prep sweep run on its output (both `keep_prep` values, any interleaving of ranks)
yields per rank a strictly increasing series that samples every change instant, equals the number
of in-flight Prep slices at every sample and ends at 0 — no sortedness assumption left. -/
theorem concurrent_preps_behind_mp_sync (d : MpSync.MEv → Dial) (keep : Bool)
    (evs out : List MpSync.MEv) (hsync : MpSync.mpSync evs = .ok out)
    (outs : List Out) (h : runStage keep (out.map (ofMEv d)) = .ok outs)
    (hd : ∀ ev ∈ out.map (ofMEv d), isPrepEv ev = true → ∀ x, ev.dur = some x → 0 < x) (p : Int) :
    (countersOf p outs).Pairwise (fun a b => a.1 < b.1) ∧
    (∀ t, inFlight (prepIvs p (out.map (ofMEv d))) t ≠ inFlightBefore (prepIvs p (out.map (ofMEv d))) t →
        ∃ x ∈ countersOf p outs, x.1 = t) ∧
    (∀ x ∈ countersOf p outs, x.2 = inFlight (prepIvs p (out.map (ofMEv d))) x.1) ∧
    (prepIvs p (out.map (ofMEv d)) ≠ [] → ∃ x, (countersOf p outs).getLast? = some x ∧ x.2 = 0) := by
  have hs : (out.map (ofMEv d)).Pairwise (fun a b => a.ts ≤ b.ts) := by
    rw [List.pairwise_map]
    exact (C07.sorted_out evs out hsync).imp (fun h => h)
  exact concurrent_preps_correct_of_sorted_stream keep _ outs h hs hd p

end AiuVerif.C13
