/-
C16 — every stage the command line requests is registered, for all flag combinations.

`greedy_identity` is about an arbitrary site list; the remaining theorems instantiate it with the
site list and the profiles GENERATED from the current /repo tree (Gen/Sites.lean, Gen/Profiles.lean),
so they are re-proved against what the source says on every run.
-/
import AiuVerif.Lemmas.Registry
import AiuVerif.Gen.Sites
import AiuVerif.Gen.Profiles

namespace AiuVerif.C16
open AiuVerif.Registry

def profOf (L : List Entry) : Profile := L.map fun e => (e.name, e.en)
def sitesOf (L : List Entry) : List (String × Bool) := L.map fun e => (e.name, e.cond)
/-- the names handed to `register_stage`, in source order, by a run that reaches the sites with `sel` -/
def requested (L : List Entry) : List String := (L.filter (·.sel)).map (·.name)
/-- the profile flags of exactly those sites -/
def ownFlags (L : List Entry) : List Bool := (L.filter (·.sel)).map (·.en)

theorem greedy_core (A B suf : List Entry)
    (hstatic : staticB (sitesOf (A ++ B ++ suf)) = true)
    (hsel : ∀ e ∈ A ++ B ++ suf, e.cond = false → e.sel = true)
    (hB : ∀ b ∈ B, b.sel = false) :
    registerAll (profOf (A ++ B ++ suf)) (requested suf) A.length = ownFlags suf := by
  induction suf generalizing A B with
  | nil => simp [requested, ownFlags, registerAll]
  | cons e suf ih =>
    by_cases he : e.sel = true
    · -- the scan starts at |A|, walks over B (unselected, hence conditional) and must stop at e
      have hBcond : ∀ b ∈ B, b.cond = true := by
        intro b hb
        cases hc : b.cond with
        | true => rfl
        | false =>
          have := hsel b (by simp [hb]) hc
          rw [hB b hb] at this; cases this
      have hBname : ∀ b ∈ profOf B, b.1 ≠ e.name := by
        intro b hb
        simp only [profOf, List.mem_map] at hb
        obtain ⟨b0, hb0, rfl⟩ := hb
        obtain ⟨B1, B2, rfl⟩ := List.append_of_mem hb0
        have h1 : staticB (sitesOf (b0 :: B2 ++ e :: suf)) = true := by
          have : sitesOf (A ++ (B1 ++ b0 :: B2) ++ e :: suf)
              = sitesOf (A ++ B1) ++ sitesOf (b0 :: B2 ++ e :: suf) := by
            simp [sitesOf, List.append_assoc]
          rw [this] at hstatic
          exact staticB_append_right _ _ hstatic
        have hb0c : b0.cond = true := hBcond b0 hb0
        simp only [sitesOf, List.map_cons, List.cons_append, staticB, hb0c, if_true,
          Bool.and_eq_true, List.map_append] at h1
        have := okFrom_skip b0.name (B2.map fun e => (e.name, e.cond)) (e.name, e.cond)
          (suf.map fun e => (e.name, e.cond))
          (by
            intro b hb
            simp only [List.mem_map] at hb
            obtain ⟨b1, hb1, rfl⟩ := hb
            exact hBcond b1 (by simp [hb1]))
          h1.1
        exact fun h => this h.symm
      have hfind : fwdFind (profOf (A ++ B ++ e :: suf)) A.length e.name
          = (e.en, (A ++ B ++ [e]).length) := by
        have hdrop : (profOf (A ++ B ++ e :: suf)).drop A.length
            = profOf B ++ (e.name, e.en) :: profOf suf := by
          simp [profOf, List.append_assoc]
        simp only [fwdFind, hdrop]
        rw [scan_skip e.name (profOf B) (e.name, e.en) (profOf suf) 0 hBname rfl]
        simp [profOf, Nat.add_assoc]
      have hreq : requested (e :: suf) = e.name :: requested suf := by simp [requested, he]
      have hown : ownFlags (e :: suf) = e.en :: ownFlags suf := by simp [ownFlags, he]
      rw [hreq, hown, registerAll, hfind]
      have := ih (A ++ B ++ [e]) []
        (by simpa [List.append_assoc] using hstatic)
        (by simpa [List.append_assoc] using hsel)
        (by simp)
      simpa [List.append_assoc] using this
    · have he' : e.sel = false := by simpa using he
      have hreq : requested (e :: suf) = requested suf := by simp [requested, he']
      have hown : ownFlags (e :: suf) = ownFlags suf := by simp [ownFlags, he']
      rw [hreq, hown]
      have := ih A (B ++ [e])
        (by simpa [List.append_assoc] using hstatic)
        (by simpa [List.append_assoc] using hsel)
        (by
          intro b hb
          simp only [List.mem_append, List.mem_singleton] at hb
          rcases hb with hb | rfl
          · exact hB b hb
          · exact he')
      simpa [List.append_assoc] using this

/-- **Greedy forward matching is the identity.**  For *any* list of registration sites whose
(name, conditional?) sequence satisfies the static condition, *any* profile flags laid over the
same names, and *any* subset of the conditional sites being reached (all unconditional ones
always are): each `register_stage` call is matched with the profile entry of its own site, so
the accept/skip decisions are exactly the flags of the reached sites' own entries, in order. -/
theorem greedy_identity (L : List Entry)
    (hstatic : staticB (sitesOf L) = true)
    (hsel : ∀ e ∈ L, e.cond = false → e.sel = true) :
    registerAll (profOf L) (requested L) 0 = ownFlags L := by
  simpa using greedy_core [] [] L (by simpa using hstatic) (by simpa using hsel) (by simp)

/-! ### instantiation with the generated data -/

def genSites : List (String × Bool) := Gen.sites.map fun s => (s.name, s.cond)

/-- lay profile flags and a reach-selection over the generated sites -/
def entries (flags sel : List Bool) : List Entry :=
  (Gen.sites.zip (flags.zip sel)).map fun x => ⟨x.1.name, x.1.cond, x.2.1, x.2.2⟩

/-- the source order satisfies the static condition (re-decided on the generated list every run) -/
theorem static_condition_holds : staticB genSites = true := by decide +kernel

theorem entries_sites (flags sel : List Bool) (h1 : flags.length = Gen.sites.length)
    (h2 : sel.length = Gen.sites.length) : sitesOf (entries flags sel) = genSites := by
  simp only [sitesOf, entries, genSites, List.map_map]
  have hz : (Gen.sites.zip (flags.zip sel)).map (·.1) = Gen.sites := by
    apply List.map_fst_zip
    simp [List.length_zip, h1, h2]
  conv => rhs; rw [← hz]
  simp [List.map_map, Function.comp_def]

/-- the all-stages profile names the registration sites, in order -/
theorem names_match :
    Gen.everything.map (·.map (·.1)) = some (Gen.sites.map (·.name)) := by decide +kernel

/-- every entry of the all-stages profile is enabled -/
theorem everything_all_enabled : Gen.everything.map (·.all (·.2)) = some true := by decide +kernel


/-- the all-stages profile as a plain list (`names_match` shows the generated value is `some`) -/
def allStages : Profile := match Gen.everything with
  | some l => l
  | none => []

theorem allStages_names : allStages.map (·.1) = Gen.sites.map (·.name) := by decide +kernel

/-- a profile file that lists every stage of the all-stages profile, in order, with arbitrary
flags is ingested unchanged (this is the shape of `everything.json`, `torch_minimal.json` and of
every single-entry-disabled profile) -/
theorem ingestGo_same (r : String × Bool) (req all : Profile)
    (h : (r :: req).map (·.1) = all.map (·.1)) : ingestGo (some r) req all = r :: req := by
  induction all generalizing r req with
  | nil => simp at h
  | cons a all ih =>
    obtain ⟨an, ae⟩ := a
    obtain ⟨rn, re⟩ := r
    simp only [List.map_cons, List.cons.injEq] at h
    obtain ⟨h1, h2⟩ := h
    subst h1
    simp only [ingestGo, if_true]
    cases req with
    | nil =>
      cases all with
      | nil => simp [ingestGo]
      | cons _ _ => simp at h2
    | cons r' req' =>
      simp only []
      rw [ih r' req' h2]

theorem ingest_same_names (P all : Profile) (h : P.map (·.1) = all.map (·.1)) (hne : P ≠ []) :
    ingestProfile P all = .ok P := by
  cases P with
  | nil => exact absurd rfl hne
  | cons r req => simp [ingestProfile, ingestGo_same r req all h]

theorem entries_prof (P : Profile) (sel : List Bool)
    (hP : P.map (·.1) = Gen.sites.map (·.name)) (h2 : sel.length = Gen.sites.length) :
    profOf (entries (P.map (·.2)) sel) = P := by
  have hlen : P.length = Gen.sites.length := by simpa using congrArg List.length hP
  apply List.ext_getElem
  · simp [profOf, entries, List.length_zip, hlen, h2]
  · intro i h1 h2'
    have hi : i < Gen.sites.length := by
      simp [profOf, entries, List.length_zip, hlen, h2] at h1; omega
    have hn : (P.map (·.1))[i]'(by simp; omega) = (Gen.sites.map (·.name))[i]'(by simp; omega) := by
      simp only [hP]
    simp only [List.getElem_map] at hn
    simp only [profOf, entries, List.getElem_map, List.getElem_zip]
    rw [← hn]

/-- **Registration decisions under any profile that names the sites.**  For every selection `sel`
of reached sites that contains all unconditional ones — i.e. for every combination of command
line switches, and more — the accept/skip decision of each `register_stage` call is the flag of
the profile entry at the call site's own position. -/
theorem registration_own_flags (P : Profile) (sel : List Bool)
    (hP : P.map (·.1) = Gen.sites.map (·.name)) (hlen : sel.length = Gen.sites.length)
    (hsel : ∀ e ∈ entries (P.map (·.2)) sel, e.cond = false → e.sel = true) :
    registerAll P (requested (entries (P.map (·.2)) sel)) 0 = ownFlags (entries (P.map (·.2)) sel) := by
  have hl : (P.map (·.2)).length = Gen.sites.length := by
    simpa using congrArg List.length hP
  have := greedy_identity (entries (P.map (·.2)) sel)
    (by rw [entries_sites _ _ hl hlen]; exact static_condition_holds) hsel
  rwa [entries_prof P sel hP hlen] at this

/-- the shipped default profile (`default.json`) is ingested as the all-stages profile -/
theorem default_is_everything : fromJson Gen.defaultProfile allStages = .ok allStages := by
  have h : Gen.defaultProfile = none ∨ Gen.defaultProfile = some allStages := by decide +kernel
  have hne : allStages ≠ [] := by decide +kernel
  rcases h with h | h <;> rw [h] <;> exact ingest_same_names _ _ rfl hne

/-- **Default profile: nothing is skipped.**  Every requested stage is registered, once, in order. -/
theorem default_registers_all (sel : List Bool) (hlen : sel.length = Gen.sites.length)
    (hsel : ∀ e ∈ entries (allStages.map (·.2)) sel, e.cond = false → e.sel = true) :
    registerAll allStages (requested (entries (allStages.map (·.2)) sel)) 0
      = (requested (entries (allStages.map (·.2)) sel)).map fun _ => true := by
  rw [registration_own_flags allStages sel allStages_names hlen hsel]
  have hall : ∀ e ∈ entries (allStages.map (·.2)) sel, e.en = true := by
    intro e he
    simp only [entries, List.mem_map] at he
    obtain ⟨x, hx, rfl⟩ := he
    have h1 := (List.of_mem_zip hx).2
    have h2 := (List.of_mem_zip h1).1
    have : ∀ b ∈ allStages.map (·.2), b = true := by decide +kernel
    exact this _ h2
  simp only [ownFlags, requested, List.map_map]
  apply List.map_congr_left
  intro e he
  exact hall e (List.mem_filter.mp he).1

/-- the profile obtained from the all-stages profile by disabling entry `k` -/
def disableAt (k : Nat) (P : Profile) : Profile :=
  P.zipIdx.map fun x => (x.1.1, if x.2 = k then false else x.1.2)

theorem zipIdx_names (P : Profile) (n : Nat) :
    (P.zipIdx n).map (fun x => x.1.1) = P.map (·.1) := by
  induction P generalizing n with
  | nil => rfl
  | cons a P ih => simp [List.zipIdx_cons, ih]

theorem disableAt_names (k : Nat) (P : Profile) : (disableAt k P).map (·.1) = P.map (·.1) := by
  simp only [disableAt, List.map_map, Function.comp_def]
  exact zipIdx_names P 0

/-- **Single-entry-disabled profiles.**  For every `k`: the profile is ingested as written, and
every requested stage gets the flag of its own entry — so exactly the registration at site `k` is
skipped (if it is requested at all) and all others still run. -/
theorem single_disabled (k : Nat) (sel : List Bool) (hlen : sel.length = Gen.sites.length)
    (hsel : ∀ e ∈ entries ((disableAt k allStages).map (·.2)) sel, e.cond = false → e.sel = true) :
    ingestProfile (disableAt k allStages) allStages = .ok (disableAt k allStages) ∧
    registerAll (disableAt k allStages) (requested (entries ((disableAt k allStages).map (·.2)) sel)) 0
      = ownFlags (entries ((disableAt k allStages).map (·.2)) sel) := by
  have hn : (disableAt k allStages).map (·.1) = Gen.sites.map (·.name) := by
    rw [disableAt_names, allStages_names]
  refine ⟨ingest_same_names _ _ (by rw [disableAt_names]) ?_, registration_own_flags _ sel hn hlen hsel⟩
  intro h
  have := congrArg List.length hn
  rw [h] at this
  revert this
  decide +kernel

/-- flags of the disabled profile: everything stays enabled except position `k` -/
theorem disableAt_flags (k i : Nat) (h : i < allStages.length) :
    ((disableAt k allStages).map (·.2))[i]'(by simp [disableAt]; exact h) = decide (i ≠ k) := by
  have hall : ∀ b ∈ allStages.map (·.2), b = true := by decide +kernel
  have : (allStages[i]).2 = true := hall _ (List.mem_map.mpr ⟨allStages[i], List.getElem_mem h, rfl⟩)
  simp only [disableAt, List.map_map, List.getElem_map, List.getElem_zipIdx, Function.comp_apply]
  by_cases hk : i = k
  · simp [hk]
  · simp [hk, this]

/-- the shipped `torch_minimal.json` names every site, so each requested stage gets its own flag -/
theorem torch_minimal_names :
    Gen.torchMinimal.map (·.map (·.1)) = some (Gen.sites.map (·.name)) := by decide +kernel

theorem torch_minimal_own_flags (P : Profile) (hP : Gen.torchMinimal = some P) (sel : List Bool)
    (hlen : sel.length = Gen.sites.length)
    (hsel : ∀ e ∈ entries (P.map (·.2)) sel, e.cond = false → e.sel = true) :
    fromJson Gen.torchMinimal allStages = .ok P ∧
    registerAll P (requested (entries (P.map (·.2)) sel)) 0 = ownFlags (entries (P.map (·.2)) sel) := by
  have hn : P.map (·.1) = Gen.sites.map (·.name) := by
    have := torch_minimal_names
    rw [hP] at this
    simpa using this
  refine ⟨?_, registration_own_flags P sel hn hlen hsel⟩
  rw [hP]
  simp only [fromJson]
  apply ingest_same_names
  · rw [hn, allStages_names]
  · intro h
    subst h
    revert hn
    decide +kernel

/-! ### non-vacuity -/

/-- the selection "only the unconditional sites" satisfies the hypotheses -/
example : let sel := Gen.sites.map (fun s => !s.cond)
    sel.length = Gen.sites.length ∧
    ∀ e ∈ entries (allStages.map (·.2)) sel, e.cond = false → e.sel = true := by
  decide +kernel

/-- a site list that violates the static condition, and a selection on which greedy matching
goes wrong: the conditional `a` is skipped by the run, the later unconditional `a` then consumes
the earlier entry and inherits its (disabled) flag -/
example : staticB [("a", true), ("a", false)] = false := by decide
example : registerAll [("a", false), ("a", true)] ["a"] 0 = [false] := by decide

end AiuVerif.C16
