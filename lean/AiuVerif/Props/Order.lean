/-
Order facts about the registration sites GENERATED from the current source (Gen/Sites.lean).

The stage-family models of C04, C05, C10, C13 and C20 describe a *sub-pipeline* as the batch
composition of its stages (justified for the streaming engine by C03.run_eq_runSpec and, for
two-phase contexts, by C03.barrier_separates).  Which stages form the sub-pipeline, in which order,
under which common condition and with which shared context object is read off the source here and
re-decided by the kernel on every run: moving, removing or re-guarding one of these registrations
breaks the corresponding obligation.
-/
import AiuVerif.Gen.Sites

namespace AiuVerif.Order

def names : List String := Gen.sites.map (·.name)

/-- contiguous occurrence -/
def infixB : List String → List String → Bool
  | pat, [] => pat.isEmpty
  | pat, x :: xs => (pat.isPrefixOf (x :: xs)) || infixB pat xs

/-- the sites whose names form the given contiguous block: (name, cond, guard, ctx) -/
def block (pat : List String) : List Gen.Site → Option (List Gen.Site)
  | [] => if pat.isEmpty then some [] else none
  | s :: rest =>
    if pat.isPrefixOf ((s :: rest).map (·.name)) then some ((s :: rest).take pat.length)
    else block pat rest

/-- **C05**: `normalize_phase1 → [flex_ts_fix collect] → pipeline_barrier → [flex_ts_fix apply] →
normalize_phase2 → event_sanity_checks`; the four unconditional stages are consecutive among the
unconditional sites and the two normalisation phases share one context object. -/
theorem normalize_order :
    infixB ["normalize_phase1", "pipeline_barrier", "normalize_phase2", "event_sanity_checks"]
      ((Gen.sites.filter (fun s => !s.cond)).map (·.name)) = true ∧
    ((Gen.sites.filter (fun s => s.name == "normalize_phase1" || s.name == "normalize_phase2")).map
      (·.cond) = [false, false] ∧
     ((Gen.sites.filter (fun s => s.name == "normalize_phase1" || s.name == "normalize_phase2")).map
      (·.ctx)).eraseDups.length = 1) := by
  decide +kernel

/-- **C04**: `sort_events → assert_ts_sequence → detect_partial_overlap_tids → pipeline_barrier →
detect_partial_overlap_events` is one contiguous block; the tid collection and its barrier sit
under one common condition, the others are unconditional, and collection and detection share the
same context object (identical context expression). -/
theorem overlap_order :
    (block ["sort_events", "assert_ts_sequence", "detect_partial_overlap_tids", "pipeline_barrier",
        "detect_partial_overlap_events"] Gen.sites).map
      (fun b => (b.map (·.cond), (b.map (·.guard)).eraseDups.length,
                 ((b.filter (fun s => s.name.startsWith "detect_")).map (·.ctx)).eraseDups.length))
      = some ([false, false, true, true, false], 2, 1) := by
  decide +kernel

/-- **C20**: `communication_event_collection → pipeline_barrier → communication_event_apply` is one
contiguous block, the barrier is unconditional, collection and application sit under the same
condition and share one context object: nothing between collection and application can
drop or reorder a slice. -/
theorem comm_order :
    (block ["communication_event_collection", "pipeline_barrier", "communication_event_apply"]
        Gen.sites).map
      (fun b => (b.map (·.cond), ((b.filter (·.cond)).map (·.ctx)).eraseDups.length,
                 (b.filter (·.cond)).map (·.guard) |>.eraseDups |>.length))
      = some ([true, false, true], 1, 1) := by
  decide +kernel

/-- **C10**: `extract_power_event → sort_events → compute_power` is one contiguous block under one
common condition. -/
theorem power_order :
    (block ["extract_power_event", "sort_events", "compute_power"] Gen.sites).map
      (fun b => (b.map (·.cond), (b.map (·.guard)).eraseDups.length))
      = some ([true, true, true], 1) := by
  decide +kernel

/-- **C06**: the two time-conversion stages are adjacent and unconditional. -/
theorem timesync_order :
    (block ["cycle_count_to_wallclock", "tighten_hts_by_instr_type"] Gen.sites).map
      (fun b => b.map (·.cond)) = some [false, false] := by
  decide +kernel

/-- **C13**: the Prep sweep runs behind the clock alignment (whose drain sorts the stream by ts),
with only the alternative alignment stage between them. -/
theorem preps_order :
    (block ["mp_sync_tight_v1", "mp_ts_calibration_v2", "queueing_counter"] Gen.sites).map
      (fun b => b.map (·.cond)) = some [true, true, true] := by
  decide +kernel

/-- **C09**: `flow_prepare_event_data → flow_extraction` are adjacent under one condition and the
helper cleanup `flow_data_cleanup` is an unconditional later site. -/
theorem flow_order :
    (block ["flow_prepare_event_data", "flow_extraction"] Gen.sites).map
      (fun b => (b.map (·.cond), (b.map (·.guard)).eraseDups.length)) = some ([true, true], 1) ∧
    infixB ["flow_data_cleanup"] ((Gen.sites.filter (fun s => !s.cond)).map (·.name)) = true := by
  decide +kernel

end AiuVerif.Order
