/-
C07, all ranks at once, and the link to C05.

`C07.epoch_invariant` moves the counters of ONE rank by a constant.  `epoch_invariant_all_ranks`
iterates it over any finite list of (rank, constant) pairs.  With C05 (`wrap_consistent`: the
corrected counters of rank p are the true counters minus K(p)·2^32) this says: the exported
timeline computed from the wrap-corrected counters is the timeline computed from the true,
unwrapped counters — the choice of K per rank is invisible.
-/
import AiuVerif.Props.C07

namespace AiuVerif.C07
open MpSync

/-- shift several ranks, one after the other -/
def shiftRanks (sh : List (Int × Rat)) (evs : List MEv) : List MEv :=
  sh.foldl (fun es rc => es.map (shiftRank rc.1 rc.2)) evs

theorem shiftRank_isDev (r : Int) (c : Rat) (e : MEv) :
    isDev (shiftRank r c e) = isDev e ∧ (shiftRank r c e).pid = e.pid := by
  unfold shiftRank
  split
  · constructor
    · cases h : e.args with
      | none => simp [isDev, h]
      | some a => cases ht : a.tsDev <;> simp [isDev, h, ht]
    · rfl
  · exact ⟨rfl, rfl⟩

theorem devNonneg_shift (r : Int) (c : Rat) (evs : List MEv)
    (h : ∀ e ∈ evs, isDev e = true → 0 ≤ e.pid) :
    ∀ e ∈ evs.map (shiftRank r c), isDev e = true → 0 ≤ e.pid := by
  intro e he hd
  simp only [List.mem_map] at he
  obtain ⟨e0, h0, rfl⟩ := he
  obtain ⟨h1, h2⟩ := shiftRank_isDev r c e0
  rw [h2]; exact h e0 h0 (by rw [← h1]; exact hd)

/-- **Blind to the counter epochs of every rank.**  For any finite assignment of constants to ranks
(device events have pid ≥ 0, as ranks do): same error class, or the same events in the same order
with the same ts, dur and ts_all. -/
theorem epoch_invariant_all_ranks (sh : List (Int × Rat)) (evs : List MEv)
    (hpid : ∀ e ∈ evs, isDev e = true → 0 ≤ e.pid) :
    (mpSync (shiftRanks sh evs)).map (fun out => out.map eraseDev) =
      (mpSync evs).map (fun out => out.map eraseDev) := by
  induction sh generalizing evs with
  | nil => rfl
  | cons rc rest ih =>
    simp only [shiftRanks, List.foldl_cons]
    have := ih (evs.map (shiftRank rc.1 rc.2)) (devNonneg_shift rc.1 rc.2 evs hpid)
    simp only [shiftRanks] at this
    rw [this]
    exact epoch_invariant evs rc.1 rc.2 hpid

end AiuVerif.C07
