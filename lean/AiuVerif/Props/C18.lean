/-
C18 — TensorBoard per-rank files and DataFrame export are lossless views of the trace.

Property theorems only; helper lemmas live in `Lemmas/TbExport.lean`.
The TensorBoard statements hold for an arbitrary event type `α` and key reader `pidOf`
(the exporter reads nothing else of an event), arbitrary event lists and any rank count
`2 ≤ R ≤ 1000` (above 1000 the two pid families `r` and `1000+r` of the statement overlap).
-/
import AiuVerif.Lemmas.TbExport

namespace AiuVerif
namespace C18
open Tb
variable {α δ : Type}

/-- the pid domain of the statement: `{r, 1000+r | r < R} ∪ {−1}` -/
def InDomain (R : Nat) (p : PidV) : Prop :=
  ∃ i : Int, p = .int i ∧ (i = -1 ∨ (0 ≤ i ∧ i < R) ∨ (1000 ≤ i ∧ i < 1000 + R))

/-- "the pid is `r` or `1000+r`" -/
def isRankPid (r : Nat) (p : PidV) : Bool := p == .int (r : Int) || p == .int (1000 + (r : Int))

/-- **The exporter raises exactly when a key is absent** (`event["pid"]` / `device["id"]`
KeyError): the only error branch of `flush`. -/
theorem flush_error_iff (pidOf : α → PidV) (idOf : δ → PidV) (evs : List α) (devs : List δ) :
    (∃ m, flush pidOf idOf evs devs = .error m) ↔
      (∃ e ∈ evs, pidOf e = .missing) ∨ (∃ d ∈ devs, idOf d = .missing) := by
  constructor
  · rintro ⟨m, hm⟩
    by_cases h1 : ∃ e ∈ evs, pidOf e = .missing
    · exact Or.inl h1
    · by_cases h2 : ∃ d ∈ devs, idOf d = .missing
      · exact Or.inr h2
      · exfalso
        obtain ⟨g, hg⟩ := parseFrom_ok_of_no_missing pidOf [] evs
          (fun e he hm => h1 ⟨e, he, hm⟩)
        obtain ⟨dg, hdg⟩ := parseFrom_ok_of_no_missing idOf [] devs
          (fun e he hm => h2 ⟨e, he, hm⟩)
        simp only [flush, parseByRankId, hg, hdg, bind, Except.bind] at hm
        split at hm <;> cases hm
  · rintro (h | h)
    · obtain ⟨m, hm⟩ := (parseFrom_error_iff pidOf [] evs).2 h
      exact ⟨m, by simp [flush, parseByRankId, hm, bind, Except.bind]⟩
    · obtain ⟨m, hm⟩ := (parseFrom_error_iff idOf [] devs).2 h
      cases hg : parseFrom pidOf [] evs with
      | error m' => exact ⟨m', by simp [flush, parseByRankId, hg, bind, Except.bind]⟩
      | ok g => exact ⟨m, by simp [flush, parseByRankId, hg, hm, bind, Except.bind]⟩

/-- **What every worker file holds, for any input at all** (no assumption on the pids): when no
key is absent `flush` succeeds, the combined file holds every event, a single-rank trace writes
no worker file, and otherwise there is one worker file per index below `rank_cnt`, worker `r`
holding, in export order, exactly the events (and device entries) whose folded key is `r`. -/
theorem worker_spec (pidOf : α → PidV) (idOf : δ → PidV) (evs : List α) (devs : List δ)
    (h1 : ∀ e ∈ evs, pidOf e ≠ .missing) (h2 : ∀ d ∈ devs, idOf d ≠ .missing) :
    ∃ out, flush pidOf idOf evs devs = .ok out ∧ out.combined = evs ∧
      (out.rankCnt = 1 → out.workers = []) ∧
      (out.rankCnt ≠ 1 → out.workers.length = out.rankCnt ∧ out.workerDevs.length = out.rankCnt ∧
        ∀ r : Nat, r < out.rankCnt →
          out.workers[r]? = some (sel pidOf (r : Int) evs) ∧
          out.workerDevs[r]? = some (sel idOf (r : Int) devs)) := by
  obtain ⟨g, hg⟩ := parseFrom_ok_of_no_missing pidOf [] evs h1
  obtain ⟨dg, hdg⟩ := parseFrom_ok_of_no_missing idOf [] devs h2
  have hgs := (parse_spec pidOf evs g hg).2.2
  have hdgs := (parse_spec idOf devs dg hdg).2.2
  by_cases hrc : rankCnt g = 1
  · refine ⟨_, by simp only [flush, parseByRankId, hg, hdg, bind, Except.bind, hrc, if_true]; rfl,
      rfl, fun _ => rfl, fun h => absurd rfl h⟩
  · refine ⟨{ rankCnt := rankCnt g, workers := perRank g (rankCnt g),
              workerDevs := perRank dg (rankCnt g), combined := evs }, ?_, rfl,
      fun h => absurd h hrc, fun _ => ⟨perRank_length _ _, perRank_length _ _, fun r hr => ?_⟩⟩
    · simp only [flush, parseByRankId, hg, hdg, bind, Except.bind, hrc, if_false]; rfl
    · have hr1 : r < (perRank g (rankCnt g)).length := by rw [perRank_length]; exact hr
      have hr2 : r < (perRank dg (rankCnt g)).length := by rw [perRank_length]; exact hr
      refine ⟨?_, ?_⟩
      · show (perRank g (rankCnt g))[r]? = _
        rw [List.getElem?_eq_getElem hr1, perRank_get g _ r hr, hgs]
      · show (perRank dg (rankCnt g))[r]? = _
        rw [List.getElem?_eq_getElem hr2, perRank_get dg _ r hr, hdgs]

/-- on the domain of the statement the folded key of an event is determined by its pid -/
theorem key_on_domain (R : Nat) (hR : R ≤ 1000) (pidOf : α → PidV) (e : α)
    (hd : InDomain R (pidOf e)) :
    (keyOf pidOf e = some (-1) ↔ pidOf e = .int (-1)) ∧
    (∀ k : Int, keyOf pidOf e = some k → k = -1 ∨ (0 ≤ k ∧ k < R)) ∧
    (∀ r : Nat, r < R → ((keyOf pidOf e == some (r : Int)) = isRankPid r (pidOf e))) := by
  obtain ⟨i, hi, hcase⟩ := hd
  have hkey : keyOf pidOf e = some (foldRank i) := by simp [keyOf, hi]
  refine ⟨?_, ?_, ?_⟩
  · rw [hkey, hi]
    simp only [Option.some.injEq, PidV.int.injEq, foldRank]
    split <;> omega
  · intro k hk
    rw [hkey] at hk
    simp only [Option.some.injEq, foldRank] at hk
    split at hk <;> omega
  · intro r hr
    rw [hkey, hi, Bool.eq_iff_iff]
    simp only [isRankPid, beq_iff_eq, Option.some.injEq, Bool.or_eq_true, PidV.int.injEq, foldRank]
    split <;> omega

/-- **Rank count.**  On a trace whose pids lie in `{r, 1000+r | r < R} ∪ {−1}` with every rank
`r < R` present, `rank_cnt = R` — with or without the pseudo process −1. -/
theorem rank_count (pidOf : α → PidV) (evs : List α) (R : Nat) (hR2 : 2 ≤ R) (hR : R ≤ 1000)
    (hdom : ∀ e ∈ evs, InDomain R (pidOf e))
    (hall : ∀ r : Nat, r < R → ∃ e ∈ evs, isRankPid r (pidOf e) = true)
    (g : Groups α) (hg : parseByRankId pidOf evs = .ok g) : rankCnt g = R := by
  obtain ⟨hnd, hmem, _⟩ := parse_spec pidOf evs g hg
  have hin : ∀ k : Int, (0 ≤ k ∧ k < R) → k ∈ g.keys := by
    intro k ⟨h0, h1⟩
    obtain ⟨e, he, hp⟩ := hall k.toNat (by omega)
    rw [hmem]
    refine ⟨e, he, ?_⟩
    have := (key_on_domain R hR pidOf e (hdom e he)).2.2 k.toNat (by omega)
    rw [hp] at this
    have hk : ((k.toNat : Nat) : Int) = k := by omega
    rw [hk] at this
    simpa using this
  have hout : ∀ k : Int, k ∈ g.keys → k = -1 ∨ (0 ≤ k ∧ k < R) := by
    intro k hk
    obtain ⟨e, he, hke⟩ := (hmem k).1 hk
    exact (key_on_domain R hR pidOf e (hdom e he)).2.1 k hke
  unfold rankCnt
  by_cases hneg : (-1 : Int) ∈ g.keys
  · have hlen : g.keys.length = R + 1 := by
      apply length_of_nodup_range_neg _ R hnd
      intro k
      constructor
      · exact hout k
      · rintro (h | h)
        · exact h ▸ hneg
        · exact hin k h
    have hc : g.keys.contains (-1) = true := by simpa using hneg
    rw [Groups.length_eq_keys, hlen, hc]
    have : R + 1 > 1 := by omega
    simp [this]
  · have hlen : g.keys.length = R := by
      apply length_of_nodup_range _ R hnd
      intro k
      constructor
      · intro hk
        rcases hout k hk with h | h
        · exact absurd (h ▸ hk) hneg
        · exact h
      · exact hin k
    have hc : g.keys.contains (-1) = false := by simpa using hneg
    rw [Groups.length_eq_keys, hlen, hc]
    have : R > 1 := by omega
    simp [this]

/-- **C18, TensorBoard clause (`workers_partition`).**  For every event list whose pids lie in
`{r, 1000+r | r < R} ∪ {−1}` (`2 ≤ R ≤ 1000`, every rank present; device entries arbitrary but
with an `id`), `flush` succeeds and
* writes exactly `R` worker files (`rank_cnt = R`, whether or not pid −1 occurs),
* worker `r` holds exactly the events whose pid is `r` or `1000+r`, in export order,
* an event is in at most one worker file,
* all worker files together are a permutation of the events of all ranks (everything but the
  pseudo process −1) — every exported event of every rank exactly once,
* the combined file holds every event. -/
theorem workers_partition (pidOf : α → PidV) (idOf : δ → PidV) (evs : List α) (devs : List δ)
    (R : Nat) (hR2 : 2 ≤ R) (hR : R ≤ 1000)
    (hdom : ∀ e ∈ evs, InDomain R (pidOf e))
    (hall : ∀ r : Nat, r < R → ∃ e ∈ evs, isRankPid r (pidOf e) = true)
    (hdev : ∀ d ∈ devs, idOf d ≠ .missing) :
    ∃ out, flush pidOf idOf evs devs = .ok out ∧
      out.rankCnt = R ∧ out.workers.length = R ∧
      (∀ r : Nat, r < R →
        out.workers[r]? = some (evs.filter (fun e => isRankPid r (pidOf e)))) ∧
      (∀ (r s : Nat) (wr ws : List α) (e : α), out.workers[r]? = some wr → out.workers[s]? = some ws →
        e ∈ wr → e ∈ ws → r = s) ∧
      out.workers.flatten.Perm (evs.filter (fun e => pidOf e != .int (-1))) ∧
      out.combined = evs := by
  have hnm : ∀ e ∈ evs, pidOf e ≠ .missing := by
    intro e he hm
    obtain ⟨i, hi, _⟩ := hdom e he
    rw [hi] at hm; cases hm
  obtain ⟨out, hflush, hcomb, _, hmulti⟩ := worker_spec pidOf idOf evs devs hnm hdev
  -- rank_cnt
  obtain ⟨g, hg⟩ := parseFrom_ok_of_no_missing pidOf [] evs hnm
  obtain ⟨dg, hdg⟩ := parseFrom_ok_of_no_missing idOf [] devs hdev
  have hrcg : rankCnt g = R := rank_count pidOf evs R hR2 hR hdom hall g hg
  have hrc : out.rankCnt = R := by
    have hne : ¬ rankCnt g = 1 := by omega
    simp only [flush, parseByRankId, hg, hdg, bind, Except.bind, hne, if_false, pure, Except.pure,
      Except.ok.injEq] at hflush
    rw [← hflush]; exact hrcg
  have hne1 : out.rankCnt ≠ 1 := by omega
  obtain ⟨hlen, _, hw⟩ := hmulti hne1
  rw [hrc] at hlen hw
  -- worker r = filter (pid is r or 1000+r)
  have hsel : ∀ r : Nat, r < R →
      sel pidOf (r : Int) evs = evs.filter (fun e => isRankPid r (pidOf e)) := by
    intro r hr
    unfold sel
    apply List.filter_congr
    intro e he
    exact (key_on_domain R hR pidOf e (hdom e he)).2.2 r hr
  have hwork : ∀ r : Nat, r < R →
      out.workers[r]? = some (evs.filter (fun e => isRankPid r (pidOf e))) := by
    intro r hr
    rw [(hw r hr).1, hsel r hr]
  refine ⟨out, hflush, hrc, hlen, hwork, ?_, ?_, hcomb⟩
  · -- pairwise disjoint
    intro r s wr ws e hr hs her hes
    have hrR : r < R := by
      have := (List.getElem?_eq_some_iff.1 hr).1; omega
    have hsR : s < R := by
      have := (List.getElem?_eq_some_iff.1 hs).1; omega
    rw [hwork r hrR] at hr
    rw [hwork s hsR] at hs
    simp only [Option.some.injEq] at hr hs
    subst hr hs
    simp only [List.mem_filter, isRankPid, Bool.or_eq_true, beq_iff_eq] at her hes
    obtain ⟨_, h1⟩ := her
    obtain ⟨_, h2⟩ := hes
    rcases h1 with h1 | h1 <;> rcases h2 with h2 | h2 <;> rw [h1] at h2 <;>
      simp only [PidV.int.injEq] at h2 <;> omega
  · -- together: a permutation of everything but pid −1
    have hflat : out.workers = (List.range R).map (fun r : Nat => sel pidOf (r : Int) evs) := by
      apply List.ext_getElem?
      intro r
      by_cases hr : r < R
      · rw [(hw r hr).1]
        simp [hr]
      · have h1 : out.workers.length ≤ r := by omega
        rw [List.getElem?_eq_none h1]
        simp [hr]
    rw [hflat]
    refine (flatten_sel_perm pidOf evs R).trans ?_
    have : evs.filter (inRange pidOf R) = evs.filter (fun e => pidOf e != .int (-1)) := by
      apply List.filter_congr
      intro e he
      unfold inRange
      obtain ⟨hneg, hrange, _⟩ := key_on_domain R hR pidOf e (hdom e he)
      obtain ⟨i, hi, _⟩ := hdom e he
      have hkey : keyOf pidOf e = some (foldRank i) := by simp [keyOf, hi]
      rw [hkey] at hneg hrange ⊢
      rw [Bool.eq_iff_iff]
      simp only [decide_eq_true_eq, bne_iff_ne, ne_eq]
      have hr := hrange _ rfl
      constructor
      · intro h hp
        have := hneg.2 hp
        simp only [Option.some.injEq] at this
        omega
      · intro h
        rcases hr with hr | hr
        · exact absurd (hneg.1 (by rw [hr])) h
        · exact hr
    rw [this]

/-- **Single-AIU traces** (one rank, with or without pid −1) write the combined file only. -/
theorem single_rank (pidOf : α → PidV) (idOf : δ → PidV) (evs : List α) (devs : List δ)
    (out : TbOut α δ) (h : flush pidOf idOf evs devs = .ok out) (h1 : out.rankCnt = 1) :
    out.workers = [] ∧ out.combined = evs := by
  simp only [flush, bind, Except.bind] at h
  split at h
  · cases h
  · split at h
    · cases h
    · split at h
      · simp only [pure, Except.pure, Except.ok.injEq] at h
        subst h; exact ⟨rfl, rfl⟩
      · simp only [pure, Except.pure, Except.ok.injEq] at h
        subst h
        rename_i hne
        exact absurd h1 hne

/-! ### DataFrame clause -/
open Df

/-- the events `from_dict` produces are `CompleteEvents` exactly when their `ph` is `"X"` -/
def WellFormed (e : XEv) : Prop := e.complete = isX (phOf e.json)

/-- **C18, DataFrame clause (`df_rows`).**  For every exported event list built by `from_dict`
and every non-empty column map, the DataFrame rows are — in order, one each — the rows of the
slices (`ph == "X"`) of the JSON export of the same events; nothing else yields a row. -/
theorem df_rows (dm : List Col) (hdm : dm ≠ []) (evs : List XEv) (hwf : ∀ e ∈ evs, WellFormed e) :
    dfExport dm [] evs = ((jsonExport [] evs).filter (fun j => isX (phOf j))).map (rowOf dm) := by
  rw [jsonExport_eq]
  simp only [List.nil_append]
  induction evs with
  | nil => simp [dfExport]
  | cons e es ih =>
    have hwe := hwf e (List.mem_cons_self ..)
    have ih' := ih (fun x hx => hwf x (List.mem_cons_of_mem _ hx))
    have hne : dm.isEmpty = false := by
      cases dm with
      | nil => exact absurd rfl hdm
      | cons _ _ => rfl
    unfold WellFormed at hwe
    by_cases hx : isX (phOf e.json) = true
    · rw [hx] at hwe
      have : dfExport dm [] (e :: es) = dfExport dm ([] ++ [rowOf dm e.json]) es := by
        simp [dfExport, hne, hwe, hx]
      rw [this, dfExport_append, ih']
      simp [hx]
    · have hx' : isX (phOf e.json) = false := by simpa using hx
      rw [hx'] at hwe
      have : dfExport dm [] (e :: es) = dfExport dm [] es := by
        simp [dfExport, hwe]
      rw [this, ih']
      simp [hx']

/-- one row per exported slice -/
theorem df_row_count (dm : List Col) (hdm : dm ≠ []) (evs : List XEv) (hwf : ∀ e ∈ evs, WellFormed e) :
    (dfExport dm [] evs).length = ((jsonExport [] evs).filter (fun j => isX (phOf j))).length := by
  rw [df_rows dm hdm evs hwf]; simp

/-- **Row content under the built-in column map.**  A slice that carries `args.rank`, `ts`, `dur`
and `name` (every slice the pipeline exports does) yields a row whose Rank / Timestamp / Duration
/ Event Name cells are exactly those values; the other cells are the value or the column default. -/
theorem df_row_fields (top args : List (String × J)) (rank ts dur name : J)
    (hargs : lookup "args" top = some (.obj args)) (hrank : lookup "rank" args = some rank)
    (hts : lookup "ts" top = some ts) (hdur : lookup "dur" top = some dur)
    (hname : lookup "name" top = some name) :
    ∃ cat cls job size pt,
      rowOf defaultMap (.obj top) = [rank, ts, dur, cat, name, cls, job, size, pt] := by
  refine ⟨extract ["cat"] (.obj top) (.str "other"), extract ["args", "class"] (.obj top) (.str "UNKNOWN"),
    extract ["args", "jobname"] (.obj top) (.str "Unknown"), extract ["args", "bytes"] (.obj top) (.num 0),
    extract ["args", "pt_active"] (.obj top) (.num 0), ?_⟩
  simp only [rowOf, defaultMap, List.map_cons, List.map_nil, extract, hargs, hrank, hts, hdur, hname]

/-- a missing `args.rank` (or an `args` that is not a dict) gives the default rank 0, never a crash -/
theorem df_rank_default (top : List (String × J)) (h : lookup "args" top = none) :
    (rowOf defaultMap (.obj top)).head? = some (.num 0) := by
  simp [rowOf, defaultMap, extract, h]

/-! ### non-vacuity and the limits of the statement -/

/-- 3 ranks, host pids 1000+r, pseudo process −1, one non-int pid -/
def demo : List (Nat × PidV) :=
  [(0, .int 0), (1, .int 1001), (2, .int (-1)), (3, .int 2), (4, .int 1), (5, .int 1000),
   (6, .int 1002), (7, .int (-1)), (8, .int 0)]

example : ∀ e ∈ demo, InDomain 3 e.2 := by
  intro e he
  simp only [demo, List.mem_cons, List.not_mem_nil, or_false] at he
  rcases he with rfl | rfl | rfl | rfl | rfl | rfl | rfl | rfl | rfl <;>
    exact ⟨_, rfl, by omega⟩

example : ∀ r : Nat, r < 3 → ∃ e ∈ demo, isRankPid r e.2 = true := by
  intro r hr
  match r, hr with
  | 0, _ => exact ⟨(0, .int 0), by simp [demo], by decide⟩
  | 1, _ => exact ⟨(4, .int 1), by simp [demo], by decide⟩
  | 2, _ => exact ⟨(3, .int 2), by simp [demo], by decide⟩

example : (match flush (δ := Nat × PidV) (·.2) (·.2) demo [] with
    | .ok out => (out.rankCnt, out.workers.map (·.map (·.1)))
    | .error _ => (0, [])) = (3, [[0, 5, 8], [1, 4], [3, 6]]) := by decide

/-- the same trace without the pseudo process: still three worker files (the repaired line) -/
example : (match flush (δ := Nat × PidV) (·.2) (·.2) (demo.filter (fun e => e.2 != .int (-1))) [] with
    | .ok out => (out.rankCnt, out.workers.map (·.map (·.1)))
    | .error _ => (0, [])) = (3, [[0, 5, 8], [1, 4], [3, 6]]) := by decide

/-- the hypothesis "every rank below R is present" is needed: ranks {0, 2} give `rank_cnt = 2`
    and the events of rank 2 are in no worker file -/
example : (match flush (δ := Nat × PidV) (·.2) (·.2) [(0, .int 0), (1, .int 2), (2, .int 1000)] [] with
    | .ok out => (out.rankCnt, out.workers.map (·.map (·.1)))
    | .error _ => (0, [])) = (2, [[0, 2], []]) := by decide

/-- a negative pid other than −1 is counted as a rank but never written -/
example : (match flush (δ := Nat × PidV) (·.2) (·.2) [(0, .int 0), (1, .int (-2)), (2, .int 1)] [] with
    | .ok out => (out.rankCnt, out.workers.map (·.map (·.1)))
    | .error _ => (0, [])) = (3, [[0], [2], []]) := by decide

def demoX : XEv :=
  { complete := true,
    json := .obj [("name", .str "mm"), ("cat", .str "kernel"), ("ph", .str "X"), ("ts", .num 5),
                  ("dur", .num 2), ("pid", .num 1), ("tid", .num 3),
                  ("args", .obj [("rank", .num 1), ("jobname", .str "j")])] }
def demoC : XEv :=
  { complete := false, json := .obj [("name", .str "Power"), ("ph", .str "C"), ("ts", .num 5),
                                     ("pid", .num 1), ("args", .obj [])] }

example : WellFormed demoX ∧ WellFormed demoC := by
  constructor <;> rfl

example : (dfExport defaultMap [] [demoC, demoX, demoC]).length = 1 := by
  rw [df_row_count defaultMap (by simp [defaultMap]) _ (by
    intro e he
    simp only [List.mem_cons, List.not_mem_nil, or_false] at he
    rcases he with rfl | rfl | rfl <;> rfl)]
  rfl

end C18
end AiuVerif
