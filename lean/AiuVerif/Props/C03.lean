/-
C03 — the stage pipeline delivers every event exactly once, in order, honouring barriers.

Property theorems only; helper lemmas live in `Lemmas/Engine.lean`.
All statements hold for *arbitrary* stage callbacks, context states, pipeline lengths and inputs.
-/
import AiuVerif.Lemmas.Engine

namespace AiuVerif
namespace C03
open RS
variable {ε : Type}

/-- **The streaming engine with mid-stream buffering and front-to-back draining equals plain
sequential batch composition of the stages.** -/
theorem run_eq_runSpec (p : List (RS ε)) (input : List ε) : run p input = runSpec p input := by
  induction p generalizing input with
  | nil => simp [run, runSpec, stream_eq_feed, feed, drainAll]
  | cons st rest ih =>
    have h := ih (batch st input)
    simp only [run, runSpec, List.foldl_cons, stream_eq_feed, feed_cons, batch] at *
    rw [drainAll_cons, stream_eq_feed]
    rw [← h, feed_append]
    simp [List.append_assoc]

/-- generalisation of `received_eq_emitted` to a pipeline whose head has registration index `k` -/
theorem received_at (k i : Nat) (p : List (RS ε)) (input : List ε) (hi : i < p.length) :
    proj (k + i) (runLogAt k p input) = runSpec (p.take i) input := by
  induction p generalizing k i input with
  | nil => simp at hi
  | cons st rest ih =>
    have hdrain0 : ∀ q : List (RS ε), proj k (drainLog k q) = [] := fun q =>
      proj_of_ge k (k + 1) _ (fun e he => drainLog_gt k q e he) (Nat.lt_succ_self k)
    have hfl0 : ∀ (q : List (RS ε)) (zs : List ε), proj k (feedLog (k + 1) q zs) = [] :=
      fun q zs => proj_of_ge k (k + 1) _ (feedLog_ge (k + 1) q zs) (Nat.lt_succ_self k)
    cases i with
    | zero =>
      simp only [runLogAt, proj_append, proj_streamLog, feedLog, Nat.add_zero, hdrain0,
        proj_map_same, hfl0, List.take_zero, runSpec, List.foldl_nil, List.append_nil]
    | succ i =>
      have hi' : i < rest.length := by simpa using hi
      have h := ih (k + 1) i (batch st input) hi'
      have hne : k ≠ k + (i + 1) := by omega
      simp only [runLogAt, proj_append, proj_streamLog, stream_eq_feed, feed_cons, feedLog,
        proj_map_ne _ _ hne, List.nil_append, List.take_succ_cons, runSpec, List.foldl_cons] at h ⊢
      rw [drainLog_cons]
      simp only [proj_append, proj_streamLog, stream_eq_feed]
      rw [show k + (i + 1) = k + 1 + i by omega, ← h, batch, proj_feedLog_append, feed_append]
      simp [List.append_assoc]

/-- **Exactly once, in emission order.**  The sequence of events delivered to the stage with
registration index `i` over the whole run (streaming and draining) is exactly the batch output
of the stages before it: everything stage `i-1` returned from its callback, in order, followed
by what its context returned from `drain` — nothing lost, duplicated or reordered, and held-back
events traverse every later stage. -/
theorem received_eq_emitted (i : Nat) (p : List (RS ε)) (input : List ε) (hi : i < p.length) :
    proj i (runLog p input) = runSpec (p.take i) input := by
  have := received_at 0 i p input hi
  simpa [runLog_eq] using this

/-- successor form: what stage `i+1` receives is the batch output of stage `i` on what stage `i`
received -/
theorem received_succ (i : Nat) (p : List (RS ε)) (input : List ε) (hi : i + 1 < p.length) :
    proj (i + 1) (runLog p input) = batch (p[i]'(by omega)) (proj i (runLog p input)) := by
  rw [received_eq_emitted (i + 1) p input hi, received_eq_emitted i p input (by omega)]
  have hlt : i < p.length := by omega
  simp only [runSpec]
  rw [List.take_add_one, List.getElem?_eq_getElem hlt, List.foldl_append]
  simp

theorem barrier_separates_at (k b : Nat) (p : List (RS ε)) (input : List ε) (h : BarrierAt b p) :
    ∃ L₁ L₂, runLogAt k p input = L₁ ++ L₂ ∧ (∀ e ∈ L₁, e.1 ≤ k + b) ∧ (∀ e ∈ L₂, k + b < e.1) := by
  induction b generalizing k p input with
  | zero =>
    match p, h with
    | st :: rest, h =>
      refine ⟨streamLog k (st :: rest) input, drainLog k (stream (st :: rest) input).1, rfl, ?_, ?_⟩
      · exact streamLog_le_barrier k 0 _ h input
      · intro e he; simpa using drainLog_gt k _ e he
  | succ b ih =>
    match p, h with
    | st :: rest, h =>
      have hb : BarrierAt b rest := h
      have hb' : BarrierAt b (feed rest (feed1 st input).2).1 := hb.feed _
      obtain ⟨L₁, L₂, heq, h1, h2⟩ :=
        ih (k + 1) (feed rest (feed1 st input).2).1
          ((feed1 st input).1.drain (feed1 st input).1.s) hb'
      refine ⟨streamLog k (st :: rest) input ++ L₁, L₂, ?_, ?_, ?_⟩
      · simp only [runLogAt, stream_eq_feed, feed_cons] at heq ⊢
        rw [drainLog_cons, List.append_assoc, ← heq, stream_eq_feed]
      · intro e he
        simp only [List.mem_append] at he
        rcases he with he | he
        · exact streamLog_le_barrier k (b + 1) _ h input e he
        · have := h1 e he; omega
      · intro e he; have := h2 e he; omega

/-- **Barriers.**  If the stage at registration index `b` never emits from its callback (a
pipeline barrier, or any hold-until-drain stage), the global delivery log splits into a first
part that only touches stages `≤ b` and a second part that only touches stages `> b`: a later
stage receives its first event only after every earlier stage has received all of its input. -/
theorem barrier_separates (b : Nat) (p : List (RS ε)) (input : List ε) (h : BarrierAt b p) :
    ∃ L₁ L₂, runLog p input = L₁ ++ L₂ ∧ (∀ e ∈ L₁, e.1 ≤ b) ∧ (∀ e ∈ L₂, b < e.1) := by
  simpa [runLog_eq] using barrier_separates_at 0 b p input h

end C03
end AiuVerif

namespace AiuVerif
namespace C03
open BStage
variable {ε : Type}

/-- run of the shared-barrier engine decomposes at an ordinary head stage -/
theorem brun_priv (h : List ε) (st : RS ε) (rest : List (BStage ε)) (input : List ε) :
    BStage.run h (priv st :: rest) input = BStage.run h rest (RS.batch st input) := by
  simp only [BStage.run, BStage.stream_eq_feed, BStage.feed_cons, BStage.feed1, RS.batch]
  rw [BStage.drainAll_cons]
  simp only [BStage.drainOf, BStage.stream_eq_feed]
  rw [BStage.feed_append]
  simp [List.append_assoc]

theorem brun_barrier (h : List ε) (rest : List (BStage ε)) (input : List ε) :
    BStage.run h (barrier :: rest) input = BStage.run [] rest (h ++ input) := by
  simp only [BStage.run, BStage.stream_eq_feed, BStage.feed_cons, BStage.feed1, BStage.feed_nil]
  rw [BStage.drainAll_cons]
  simp [BStage.drainOf, BStage.stream_eq_feed]

/-- **Several barriers sharing one hold list.**  The real `pipeline_barrier` ignores its context
and collects into one module-level list that every barrier registration drains.  For every
pipeline, every input and every initial content `h` of that list, this behaves exactly like a
pipeline in which each barrier has a *private* hold list (the first one starting with `h`). -/
theorem shared_barrier_ok (h : List ε) (p : List (BStage ε)) (input : List ε) :
    BStage.run h p input = RS.run (privOf h p) input := by
  induction p generalizing h input with
  | nil => simp [BStage.run, BStage.stream_eq_feed, BStage.feed, BStage.drainAll, privOf,
      RS.run, RS.stream_eq_feed, RS.feed, RS.drainAll]
  | cons st rest ih =>
    cases st with
    | priv st =>
      rw [brun_priv, ih, privOf, run_eq_runSpec, run_eq_runSpec]
      simp [RS.runSpec]
    | barrier =>
      rw [brun_barrier, ih, privOf, run_eq_runSpec, run_eq_runSpec]
      simp [RS.runSpec, privBarrier_batch]

/-- corollary: with an initially empty shared list the built-in pipeline equals batch composition -/
theorem shared_barrier_batch (p : List (BStage ε)) (input : List ε) :
    BStage.run [] p input = RS.runSpec (privOf [] p) input := by
  rw [shared_barrier_ok, run_eq_runSpec]

/-! ### non-vacuity: a 6-stage graph with a duplicator, a holder and two shared barriers -/

def passS : RS Nat := { σ := Unit, s := (), step := fun _ x => ((), [x]), drain := fun _ => [] }
def dupS : RS Nat := { σ := Unit, s := (), step := fun _ x => ((), [x, x + 1000]), drain := fun _ => [] }
def holdS : RS Nat := { σ := List Nat, s := [], step := fun s x => (s ++ [x], []), drain := fun s => s }

example : BStage.run [] [priv passS, barrier, priv dupS, priv holdS, barrier, priv passS] [1, 2]
    = [1, 1001, 2, 1002] := by rw [shared_barrier_batch]; decide
example : RS.BarrierAt 1 [passS, privBarrier [], dupS] := by
  intro s x; rfl
example : RS.proj 2 (RS.runLog [passS, privBarrier [], dupS] [1, 2]) = [1, 2] := by
  rw [received_eq_emitted 2 _ _ (by decide)]; decide

end C03
end AiuVerif
