/-
C11 — from the TEXT of the compiler log to the tables the utilization model works with.

`Model/Util.lean` starts from a list of `LogRow`s (kernel, category tag, cycles) and builds the cycle table and the
kernel→category map with `buildTable` / `buildCatMap`; `Model/LogParse.lean` reads the log text.  This file closes the
gap between the two for a log with one table section:

* `fold_rows_eq_util` - adding the rows one by one as the parser does (`addKernel`) yields exactly
  `buildTable rows` and `buildCatMap rows`;
* `single_table_parse` - for a log `head ++ [start] ++ body ++ [end] ++ tail` in which `head` holds no start marker,
  no line is the autopilot line, and no body line is a marker, an `Ideal Clock Scaling` line or an iteration-mode line,
  the parser finishes exactly one table: the rows of the body lines (`rowOf`) folded with `addKernel`.
-/
import AiuVerif.Model.LogParse
import AiuVerif.Model.Util
import AiuVerif.Props.C11Parse

namespace AiuVerif.C11
open AiuVerif.LogParse AiuVerif.PhaseName

/-- the parser's row of a `LogRow` of the utilization model -/
def rowKey (r : Util.LogRow) : String × Nat × String := (Util.keyOfRow r, r.cycles, Util.handleCategory r.tag)

def addRow (t : Table) (r : String × Nat × String) : Table := addKernel t r.1 r.2.1 r.2.2

theorem addRow_eq_util (t : Table) (r : Util.LogRow) :
    (addRow t (rowKey r)).cycles = Util.addCycles t.cycles r ∧ (addRow t (rowKey r)).cats = Util.addCat t.cats r := by
  unfold addRow addKernel rowKey Util.addCycles Util.addCat Util.hasKey
  constructor
  · by_cases h1 : (t.cycles.any fun p => p.1 == Util.keyOfRow r) = true
    · simp [h1]
    · by_cases h2 : r.cycles = 0 <;> simp [h1, h2]
  · by_cases h1 : (t.cats.any fun p => p.1 == Util.keyOfRow r) = true <;> simp [h1]

/-- **Adding the rows as the parser does gives the tables of the utilization model.** -/
theorem fold_rows_eq_util : ∀ (rows : List Util.LogRow) (t : Table),
    ((rows.map rowKey).foldl addRow t).cycles = rows.foldl Util.addCycles t.cycles ∧
    ((rows.map rowKey).foldl addRow t).cats = rows.foldl Util.addCat t.cats
  | [], _ => ⟨rfl, rfl⟩
  | r :: rs, t => by
    simp only [List.map_cons, List.foldl_cons]
    have h := fold_rows_eq_util rs (addRow t (rowKey r))
    rw [(addRow_eq_util t r).1, (addRow_eq_util t r).2] at h
    exact h

theorem rows_from_empty (rows : List Util.LogRow) :
    ((rows.map rowKey).foldl addRow Table.empty).cycles = Util.buildTable rows ∧
    ((rows.map rowKey).foldl addRow Table.empty).cats = Util.buildCatMap rows :=
  fold_rows_eq_util rows Table.empty

/-- a line that is none of the special lines tested in front of the row patterns -/
def Plain (l : List Char) : Prop :=
  hasSubL patAuto l = false ∧ hasSubL patScale l = false ∧ iterMode l = false ∧ hasSubL patStart l = false ∧
  hasSubL patEnd l = false

theorem step_plain_active (s : St) (l : List Char) (hp : Plain l) (hs : s.stop = false) (ha : s.active = true) :
    step s l = match rowOf l with
      | none => s
      | some r => { s with cur := addRow s.cur r } := by
  obtain ⟨h1, h2, h3, h4, h5⟩ := hp
  unfold step
  rw [if_neg (by rw [hs]; exact Bool.false_ne_true), if_neg (by rw [h1]; exact Bool.false_ne_true),
    if_neg (by rw [h2]; exact Bool.false_ne_true), if_neg (by rw [h3]; exact Bool.false_ne_true),
    if_neg (by rw [h4]; exact Bool.false_ne_true), if_neg (by rw [ha]; decide),
    if_neg (by rw [h5]; exact Bool.false_ne_true)]
  cases rowOf l with
  | none => rfl
  | some r => obtain ⟨k, c, cat⟩ := r; rfl

theorem body_fold : ∀ (body : List (List Char)) (s : St), (∀ l ∈ body, Plain l) → s.stop = false → s.active = true →
    body.foldl step s = { s with cur := (body.filterMap rowOf).foldl addRow s.cur }
  | [], _, _, _, _ => rfl
  | l :: ls, s, hp, hs, ha => by
    simp only [List.foldl_cons]
    rw [step_plain_active s l (hp l List.mem_cons_self) hs ha]
    cases hr : rowOf l with
    | none =>
      simp only [List.filterMap_cons, hr]
      exact body_fold ls s (fun x hx => hp x (List.mem_cons_of_mem _ hx)) hs ha
    | some r =>
      simp only [List.filterMap_cons, hr, List.foldl_cons]
      exact body_fold ls _ (fun x hx => hp x (List.mem_cons_of_mem _ hx)) hs ha

theorem head_fold : ∀ (head : List (List Char)) (s : St), s.active = false →
    (∀ l ∈ head, hasSubL patAuto l = false ∧ hasSubL patStart l = false) → head.foldl step s = s
  | [], _, _, _ => rfl
  | l :: ls, s, ha, h => by
    simp only [List.foldl_cons]
    rw [outside_table_ignored s l ha (h l List.mem_cons_self).1 (h l List.mem_cons_self).2]
    exact head_fold ls s ha (fun x hx => h x (List.mem_cons_of_mem _ hx))

/-- **A log with one table section yields exactly the rows of its body**, whatever text stands in front of and behind
the section (no start marker, no autopilot line there). -/
theorem single_table_parse (head body tail : List (List Char)) (st en : List Char)
    (hhead : ∀ l ∈ head, hasSubL patAuto l = false ∧ hasSubL patStart l = false)
    (htail : ∀ l ∈ tail, hasSubL patAuto l = false ∧ hasSubL patStart l = false)
    (hst : hasSubL patAuto st = false ∧ hasSubL patScale st = false ∧ iterMode st = false ∧ hasSubL patStart st = true)
    (hen : hasSubL patAuto en = false ∧ hasSubL patScale en = false ∧ iterMode en = false ∧ hasSubL patStart en = false ∧
      hasSubL patEnd en = true)
    (hbody : ∀ l ∈ body, Plain l) :
    (parse (head ++ st :: body ++ en :: tail)).done = [(body.filterMap rowOf).foldl addRow Table.empty] := by
  unfold parse
  rw [List.append_assoc, List.foldl_append, head_fold head {} rfl hhead, List.cons_append, List.foldl_cons]
  have hs1 : step {} st = { active := true, cur := Table.empty, done := [], stop := false } := by
    unfold step
    rw [if_neg (by decide), if_neg (by rw [hst.1]; exact Bool.false_ne_true),
      if_neg (by rw [hst.2.1]; exact Bool.false_ne_true), if_neg (by rw [hst.2.2.1]; exact Bool.false_ne_true),
      if_pos hst.2.2.2]
  rw [hs1, List.foldl_append, body_fold body _ hbody rfl rfl, List.foldl_cons]
  have hs2 : ∀ c : Table, step { active := true, cur := c, done := [], stop := false } en =
      { active := false, cur := c, done := [c], stop := false } := by
    intro c
    unfold step
    rw [if_neg (by simp), if_neg (by rw [hen.1]; exact Bool.false_ne_true),
      if_neg (by rw [hen.2.1]; exact Bool.false_ne_true), if_neg (by rw [hen.2.2.1]; exact Bool.false_ne_true),
      if_neg (by rw [hen.2.2.2.1]; exact Bool.false_ne_true), if_neg (by simp), if_pos hen.2.2.2.2]
    rfl
  rw [hs2, head_fold tail _ rfl htail]

/-- non-vacuity: the sample shape meets the hypotheses -/
example : Plain "bmm-opCatBmm_fp16      12288   \n".toList := by
  refine ⟨?_, ?_, ?_, ?_, ?_⟩ <;> decide +kernel

example : rowOf "bmm-opCatBmm_fp16      12288   \n".toList = some ("bmm Cmpt Exec", 12288, "Bmm_fp16") := by
  decide +kernel

example : rowOf "bmm-opCatBmm_fp16      12288   \n".toList =
    some (rowKey ⟨"bmm", .opcat "Bmm_fp16", 12288⟩) := by decide +kernel

end AiuVerif.C11

namespace AiuVerif.C11
open AiuVerif.LogParse

/-! ### the first column of a row: kernel name and category -/

theorem catSplit_plain : ∀ (cs : List Char) (n : Nat) (cur : List Char), (∀ c ∈ cs, c ≠ '-') → cs.length ≤ n →
    catSplit n cur cs = [cur.reverse ++ cs]
  | [], 0, cur, _, _ => by simp [catSplit]
  | [], _ + 1, cur, _, _ => by simp [catSplit]
  | c :: cs, 0, _, _, hn => by simp at hn
  | c :: cs, n + 1, cur, h, hn => by
    have hc : c ≠ '-' := h c List.mem_cons_self
    have hc' : ('-' == c) = false := by simp [Ne.symm hc]
    have h1 : sepOpCat.isPrefixOf (c :: cs) = false := by simp [sepOpCat, List.isPrefixOf, hc']
    have h2 : ((c :: cs) == sepNA) = false := by
      simp only [sepNA, List.cons_beq_cons, Bool.and_eq_false_imp]
      intro h0; exact absurd (by simpa using h0) hc
    unfold catSplit
    rw [if_neg (by rw [h1]; exact Bool.false_ne_true), if_neg (by rw [h2]; exact Bool.false_ne_true)]
    rw [catSplit_plain cs n (c :: cur) (fun x hx => h x (List.mem_cons_of_mem _ hx)) (by simpa using hn)]
    simp

/-- **`kernel-opCat<category>`**: a first column made of a kernel name and a category that contain no further `-` is
split into exactly kernel, separator, category - so the row's key is `kernel Cmpt Exec` and its category `<category>`. -/
theorem catSplit_opcat : ∀ (k : List Char) (c : List Char) (n : Nat) (cur : List Char), (∀ x ∈ k, x ≠ '-') →
    (∀ x ∈ c, x ≠ '-') → k.length + 6 + c.length ≤ n →
    catSplit n cur (k ++ sepOpCat ++ c) = [cur.reverse ++ k, sepOpCat, c]
  | [], c, 0, _, _, _, hn => by simp at hn
  | [], c, n + 1, cur, _, hc, hn => by
    have hp : sepOpCat.isPrefixOf ([] ++ sepOpCat ++ c) = true := by simp [sepOpCat, List.isPrefixOf]
    have hd : ([] ++ sepOpCat ++ c).drop 6 = c := by simp [sepOpCat]
    have hs : ([] : List Char) ++ sepOpCat ++ c = '-' :: ('o' :: 'p' :: 'C' :: 'a' :: 't' :: c) := by simp [sepOpCat]
    rw [hs] at hp hd ⊢
    unfold catSplit
    rw [if_pos hp, hd, catSplit_plain c n [] hc (by simp at hn; omega)]
    simp
  | x :: k, c, 0, _, _, _, hn => by simp at hn
  | x :: k, c, n + 1, cur, hk, hc, hn => by
    have hx : x ≠ '-' := hk x List.mem_cons_self
    have hx' : ('-' == x) = false := by simp [Ne.symm hx]
    have h1 : sepOpCat.isPrefixOf (x :: (k ++ sepOpCat ++ c)) = false := by simp [sepOpCat, List.isPrefixOf, hx']
    have h2 : ((x :: (k ++ sepOpCat ++ c)) == sepNA) = false := by
      simp only [sepNA, List.cons_beq_cons, Bool.and_eq_false_imp]
      intro h0; exact absurd (by simpa using h0) hx
    have hs : (x :: k) ++ sepOpCat ++ c = x :: (k ++ sepOpCat ++ c) := by simp
    rw [hs]
    unfold catSplit
    rw [if_neg (by rw [h1]; exact Bool.false_ne_true), if_neg (by rw [h2]; exact Bool.false_ne_true)]
    rw [catSplit_opcat k c n (x :: cur) (fun y hy => hk y (List.mem_cons_of_mem _ hy)) hc (by simp at hn ⊢; omega)]
    simp

theorem category_opcat (k c : List Char) : category [k, sepOpCat, c] = String.ofList c := by
  simp [category]

example : catSplit 17 [] "bmm-opCatBmm_fp16".toList = ["bmm".toList, sepOpCat, "Bmm_fp16".toList] := by decide +kernel

end AiuVerif.C11

namespace AiuVerif.C11
open AiuVerif.LogParse AiuVerif.PhaseName

/-! ### a row as it is written into the log: `<first column><blanks><digits><blanks>\n` -/

theorem tw_app {p : Char → Bool} : ∀ (a b : List Char), (∀ x ∈ a, p x = true) →
    (∀ y ys, b = y :: ys → p y = false) → (a ++ b).takeWhile p = a ∧ (a ++ b).dropWhile p = b
  | [], [], _, _ => ⟨rfl, rfl⟩
  | [], y :: ys, _, hb => by
    have := hb y ys rfl
    simp [List.takeWhile, List.dropWhile, this]
  | x :: a, b, ha, hb => by
    have hx := ha x List.mem_cons_self
    obtain ⟨h1, h2⟩ := tw_app a b (fun z hz => ha z (List.mem_cons_of_mem _ hz)) hb
    simp only [List.cons_append, List.takeWhile_cons, List.dropWhile_cons, hx, if_true]
    exact ⟨by rw [h1], h2⟩

theorem chopNl_nl (l : List Char) : chopNl (l ++ ['\n']) = l := by
  unfold chopNl
  have : (l ++ ['\n']).getLast? = some '\n' := by simp
  rw [this]
  simp

theorem digit_not_blank (c : Char) (h : c.isDigit = true) : (c == ' ') = false := by
  by_cases hc : c = ' '
  · subst hc; revert h; decide
  · simpa using hc

theorem nameCh_blank : isNameCh ' ' = false := by decide
theorem digit_blank : Char.isDigit ' ' = false := by decide

/-- **a written row is read back**: first column `name` (name characters only), `k+1` blanks, the decimal digits `dg`,
`j` blanks and the newline - `dataRow` returns exactly `(name, dg)`. -/
theorem dataRow_written (name dg : List Char) (k j : Nat) (hn : name ≠ []) (hd : dg ≠ [])
    (hname : ∀ x ∈ name, isNameCh x = true) (hdg : ∀ x ∈ dg, x.isDigit = true) :
    dataRow (name ++ (List.replicate (k + 1) ' ' ++ (dg ++ List.replicate j ' ')) ++ ['\n']) = some (name, dg) := by
  unfold dataRow
  simp only [chopNl_nl]
  obtain ⟨d0, ds, rfl⟩ := List.exists_cons_of_ne_nil hd
  have hd0 : d0.isDigit = true := hdg d0 List.mem_cons_self
  -- the name ends at the first blank
  obtain ⟨a1, a2⟩ := tw_app (p := isNameCh) name (List.replicate (k + 1) ' ' ++ (d0 :: ds ++ List.replicate j ' ')) hname
    (by intro y ys h; rw [List.replicate_succ, List.cons_append] at h; injection h with h _; subst h; exact nameCh_blank)
  -- the blanks end at the first digit
  obtain ⟨b1, b2⟩ := tw_app (p := (· == ' ')) (List.replicate (k + 1) ' ') (d0 :: ds ++ List.replicate j ' ')
    (by intro x hx; rw [List.eq_of_mem_replicate hx]; rfl)
    (by intro y ys h; rw [List.cons_append] at h; injection h with h _; subst h; exact digit_not_blank _ hd0)
  -- the digits end at the first blank (or the end)
  obtain ⟨c1, c2⟩ := tw_app (p := Char.isDigit) (d0 :: ds) (List.replicate j ' ') hdg
    (by intro y ys h
        cases j with
        | zero => simp at h
        | succ j => rw [List.replicate_succ] at h; injection h with h _; subst h; exact digit_blank)
  rw [a1, a2, b1, b2, c1, c2]
  have hall : (List.replicate j ' ').all (· == ' ') = true := by
    rw [List.all_eq_true]; intro x hx; rw [List.eq_of_mem_replicate hx]; rfl
  have hn' : name.isEmpty = false := by cases name <;> simp_all
  simp [hn', hall, List.replicate_succ]

/-- **the whole chain for a `kernel-opCat<category>` row**: written with any blanks, not an ignored row and not the
`Total` row, it contributes exactly the key `kernel Cmpt Exec`, its cycle count and its category. -/
theorem rowOf_written (kn cat dg : List Char) (k j : Nat) (hk : kn ≠ []) (hd : dg ≠ [])
    (hkn : ∀ x ∈ kn, isNameCh x = true ∧ x ≠ '-') (hcat : ∀ x ∈ cat, isNameCh x = true ∧ x ≠ '-')
    (hdg : ∀ x ∈ dg, x.isDigit = true)
    (hign : hasSubL patPre ((kn ++ sepOpCat ++ cat) ++ (List.replicate (k + 1) ' ' ++ (dg ++ List.replicate j ' ')) ++ ['\n']) = false ∧
            hasSubL patLx ((kn ++ sepOpCat ++ cat) ++ (List.replicate (k + 1) ' ' ++ (dg ++ List.replicate j ' ')) ++ ['\n']) = false)
    (htot : (String.ofList kn == "Total") = false) :
    rowOf ((kn ++ sepOpCat ++ cat) ++ (List.replicate (k + 1) ' ' ++ (dg ++ List.replicate j ' ')) ++ ['\n']) =
      some (String.ofList kn ++ " Cmpt Exec", digitsVal dg, String.ofList cat) := by
  have hname : ∀ x ∈ kn ++ sepOpCat ++ cat, isNameCh x = true := by
    intro x hx
    simp only [List.mem_append] at hx
    rcases hx with (hx | hx) | hx
    · exact (hkn x hx).1
    · simp only [sepOpCat, List.mem_cons, List.mem_nil_iff, or_false] at hx
      rcases hx with rfl | rfl | rfl | rfl | rfl | rfl <;> decide
    · exact (hcat x hx).1
  have hne : kn ++ sepOpCat ++ cat ≠ [] := by simp [sepOpCat]
  unfold rowOf
  rw [dataRow_written _ dg k j hne hd hname hdg]
  simp only [hign.1, hign.2, Bool.or_self, Bool.false_eq_true, if_false]
  rw [catSplit_opcat kn cat _ [] (fun x hx => (hkn x hx).2) (fun x hx => (hcat x hx).2)
    (by simp [sepOpCat]; omega)]
  simp only [List.reverse_nil, List.nil_append, List.headD_cons, htot, Bool.false_eq_true, if_false, category_opcat]

example : rowOf "bmm-opCatBmm_fp16      12288   \n".toList = some ("bmm Cmpt Exec", 12288, "Bmm_fp16") := by decide +kernel

end AiuVerif.C11

namespace AiuVerif.C11
open AiuVerif.LogParse AiuVerif.PhaseName

/-! ### the other two row shapes: no suffix, and `-NA` -/

theorem category_single (k : List Char) : category [k] = "NotAvailable" := by simp [category]

/-- a row without a category suffix: key `kernel Cmpt Exec`, category `NotAvailable` -/
theorem rowOf_written_plain (kn dg : List Char) (k j : Nat) (hk : kn ≠ []) (hd : dg ≠ [])
    (hkn : ∀ x ∈ kn, isNameCh x = true ∧ x ≠ '-') (hdg : ∀ x ∈ dg, x.isDigit = true)
    (hign : hasSubL patPre (kn ++ (List.replicate (k + 1) ' ' ++ (dg ++ List.replicate j ' ')) ++ ['\n']) = false ∧
            hasSubL patLx (kn ++ (List.replicate (k + 1) ' ' ++ (dg ++ List.replicate j ' ')) ++ ['\n']) = false)
    (htot : (String.ofList kn == "Total") = false) :
    rowOf (kn ++ (List.replicate (k + 1) ' ' ++ (dg ++ List.replicate j ' ')) ++ ['\n']) =
      some (String.ofList kn ++ " Cmpt Exec", digitsVal dg, "NotAvailable") := by
  unfold rowOf
  rw [dataRow_written kn dg k j hk hd (fun x hx => (hkn x hx).1) hdg]
  simp only [hign.1, hign.2, Bool.or_self, Bool.false_eq_true, if_false]
  rw [catSplit_plain kn _ [] (fun x hx => (hkn x hx).2) (Nat.le_refl _)]
  simp only [List.reverse_nil, List.nil_append, List.headD_cons, htot, Bool.false_eq_true, if_false, category_single]

theorem catSplit_na : ∀ (k : List Char) (n : Nat) (cur : List Char), (∀ x ∈ k, x ≠ '-') → k.length + 3 ≤ n →
    catSplit n cur (k ++ sepNA) = [cur.reverse ++ k, sepNA, []]
  | [], 0, _, _, hn => by simp at hn
  | [], n + 1, cur, _, _ => by
    have hs : ([] : List Char) ++ sepNA = '-' :: ['N', 'A'] := rfl
    rw [hs]
    unfold catSplit
    have h1 : sepOpCat.isPrefixOf ('-' :: ['N', 'A']) = false := by decide
    have h2 : (('-' :: ['N', 'A']) == sepNA) = true := by decide
    rw [if_neg (by rw [h1]; exact Bool.false_ne_true), if_pos h2]
    simp [sepNA]
  | x :: k, 0, _, _, hn => by simp at hn
  | x :: k, n + 1, cur, hk, hn => by
    have hx : x ≠ '-' := hk x List.mem_cons_self
    have hx' : ('-' == x) = false := by simp [Ne.symm hx]
    have h1 : sepOpCat.isPrefixOf (x :: (k ++ sepNA)) = false := by simp [sepOpCat, List.isPrefixOf, hx']
    have h2 : ((x :: (k ++ sepNA)) == sepNA) = false := by
      simp only [sepNA, List.cons_beq_cons, Bool.and_eq_false_imp]
      intro h0; exact absurd (by simpa using h0) hx
    have hs : (x :: k) ++ sepNA = x :: (k ++ sepNA) := rfl
    rw [hs]
    unfold catSplit
    rw [if_neg (by rw [h1]; exact Bool.false_ne_true), if_neg (by rw [h2]; exact Bool.false_ne_true)]
    rw [catSplit_na k n (x :: cur) (fun y hy => hk y (List.mem_cons_of_mem _ hy)) (by simp at hn ⊢; omega)]
    simp

theorem category_na (k : List Char) : category [k, sepNA, []] = "NotAvailable" := by
  simp [category, sepNA, sepOpCat]

/-- a `kernel-NA` row: key `kernel Cmpt Exec`, category `NotAvailable` -/
theorem rowOf_written_na (kn dg : List Char) (k j : Nat) (hd : dg ≠ [])
    (hkn : ∀ x ∈ kn, isNameCh x = true ∧ x ≠ '-') (hdg : ∀ x ∈ dg, x.isDigit = true)
    (hign : hasSubL patPre ((kn ++ sepNA) ++ (List.replicate (k + 1) ' ' ++ (dg ++ List.replicate j ' ')) ++ ['\n']) = false ∧
            hasSubL patLx ((kn ++ sepNA) ++ (List.replicate (k + 1) ' ' ++ (dg ++ List.replicate j ' ')) ++ ['\n']) = false)
    (htot : (String.ofList kn == "Total") = false) :
    rowOf ((kn ++ sepNA) ++ (List.replicate (k + 1) ' ' ++ (dg ++ List.replicate j ' ')) ++ ['\n']) =
      some (String.ofList kn ++ " Cmpt Exec", digitsVal dg, "NotAvailable") := by
  have hname : ∀ x ∈ kn ++ sepNA, isNameCh x = true := by
    intro x hx
    rcases List.mem_append.mp hx with hx | hx
    · exact (hkn x hx).1
    · simp only [sepNA, List.mem_cons, List.mem_nil_iff, or_false] at hx
      rcases hx with rfl | rfl | rfl <;> decide
  have hne : kn ++ sepNA ≠ [] := by simp [sepNA]
  unfold rowOf
  rw [dataRow_written _ dg k j hne hd hname hdg]
  simp only [hign.1, hign.2, Bool.or_self, Bool.false_eq_true, if_false]
  rw [catSplit_na kn _ [] (fun x hx => (hkn x hx).2) (by simp [sepNA])]
  simp only [List.reverse_nil, List.nil_append, List.headD_cons, htot, Bool.false_eq_true, if_false, category_na]

end AiuVerif.C11
