/-
C19, pipeline level: the hypothesis "Watts ≥ 0" of `C19.analyze_bounds` is discharged by C10:
everything `compute_power` emits is non-negative (`C10.nonneg`), and `analyze_power_statistics` is
registered behind it under the same counter condition (nested guard, see Gen/Sites).
`ofOut` is the 'Power' counter event as the statistics stage reads it.
-/
import AiuVerif.Props.C10
import AiuVerif.Props.C19

namespace AiuVerif.C19
open AiuVerif AiuVerif.PowerStats

/-- a 'Power' counter emitted by `compute_power`, as `analyze_power_statistics` sees it -/
def ofOut (o : Power.Out) : REv :=
  { ph := "C", name := some "Power", ts := some o.ts, watts := some o.watts, dur := none }

/-- **Reported bounds hold for the power series the tool itself computes.**  For any input of
`compute_power` on which it returns, and any other events `others` (kernel slices, other counters
without a Watts value) interleaved in any order `evs` with the emitted Power counters, both
reported records satisfy `min_nz ≤ median_nz ≤ max`, `min_nz ≤ mean_nz ≤ max`, `dur_nz ≤ dur_total`. -/
theorem bounds_behind_compute_power (skip : Bool) (cs : List Power.Ctr) (outs : List Power.Out)
    (hp : Power.computeStage skip cs = .ok outs)
    (evs : List REv)
    (hev : ∀ e ∈ evs, e.watts = none ∨ ∃ o ∈ outs, e = ofOut o)
    (w wo : Option Stats) (h : analyze evs = some (w, wo)) :
    (∀ s, w = some s → Bounds s) ∧ (∀ s, wo = some s → Bounds s) := by
  apply analyze_bounds evs ?_ w wo h
  intro e he x hx
  rcases hev e he with hn | ⟨o, ho, rfl⟩
  · rw [hn] at hx; cases hx
  · simp only [ofOut, Option.some.injEq] at hx
    subst hx
    exact C10.nonneg skip cs outs hp o ho

end AiuVerif.C19
