/-
C09 — flow arrows connect each matched send to its receive, with unique paired ids.

Property theorems only; helper lemmas live in `Lemmas/Flow.lean`, the model in `Model/Flow.lean`.
`runFlow input` is the output of the three registered stages
`flow_prepare_event_data → flow_extraction (+ drain) → flow_data_cleanup` on an arbitrary input stream
(any length, any arrival order, any number of ranks / groups; all statements are about error-free runs,
`runFlow input = .ok out` — an `assert`/`KeyError`/… aborts the real run and exports nothing).
-/
import AiuVerif.Lemmas.Flow

namespace AiuVerif
namespace C09
open Flow

/-- the input carries no flow events of its own (FLEX traces have none; the `--flow` stages create them) -/
def NoFlowIn (input : List Ev) : Prop := ∀ x ∈ input, ¬ isFlow x

/-- … and no event carries the helper keys `sync`/`Peers`/`Type` at top level: only
`flow_prepare_event_data` adds them -/
def NoHelperKeysIn (input : List Ev) : Prop := ∀ x ∈ input, x.hlp = none

theorem runFlow_ok {input out : List Ev} (h : runFlow input = .ok out) :
    ∃ a b, prepareAll input = .ok a ∧ extractAll a = .ok b ∧ out = cleanup b := by
  simp only [runFlow] at h
  obtain ⟨a, ha, h⟩ := bind_ok.mp h
  obtain ⟨b, hb, h⟩ := bind_ok.mp h
  simp only [pure_ok] at h
  exact ⟨a, b, ha, hb, h.symm⟩

/-- **Ids (whole run).**  For every input stream without flow events of its own: every `s`/`f` event
that leaves the flow stages — during streaming or from the final drain, of whichever group — carries an
id that occurs on exactly one `s` and exactly one `f` event of the whole output, and all flow events
with that id have the same name.  (Invariant: the id counter strictly increases; each
`create_flow_events_from_pair` uses a fresh value for exactly one `s` and one `f`.) -/
theorem ids_paired (input out : List Ev) (hin : NoFlowIn input) (h : runFlow input = .ok out) :
    PairedIds out := by
  obtain ⟨a, b, ha, hb, rfl⟩ := runFlow_ok h
  have hOk : ∀ e ∈ a, phInF e.ph = false → ¬ isFlow e := by
    intro e he hF
    obtain ⟨x, hx, lx, hlx, hel⟩ := prepareAll_mem ha e he
    rcases prepare_mem hlx e hel with ⟨hph, _⟩ | ⟨_, _, _, _, rfl⟩
    · intro hf; exact hin x hx (by unfold isFlow at *; rw [← hph]; exact hf)
    · simp [mkHelper, phInF] at hF
  obtain ⟨hi, _, hg⟩ := extractAll_inv outInv_good a b (fun _ _ _ _ _ => trivial) hOk hb
  refine (Good.filter _ ?_ hg).paired
  intro e hf
  rcases hf with hf | hf <;> simp [hf]

/-- corollary of `ids_paired`: every `f` event of the output has its `s` event (same id) in the output — so
`placement`, stated from the `s` side, covers every flow event -/
theorem f_has_s (input out : List Ev) (hin : NoFlowIn input) (h : runFlow input = .ok out) :
    ∀ f ∈ out, f.ph = "f" → ∃ s ∈ out, s.ph = "s" ∧ s.id = f.id := by
  intro f hf hph
  obtain ⟨k, hk, hs, _, _⟩ := ids_paired input out hin h f hf (Or.inr hph)
  obtain ⟨s, hs1, hs2, hs3⟩ := cS_pos.mp (by omega : 0 < cS k out)
  exact ⟨s, hs1, hs2, by rw [hs3, hk]⟩

/-- where a queued helper comes from: a slice `x` of the input whose derived keys are `q.h`, at `x`'s
position, with `x`'s (positive) duration -/
def SrcOf (input : List Ev) (q : Q) : Prop :=
  ∃ x ∈ input, helperView x = some q.h ∧ q.ev.pid = x.pid ∧ q.ev.tid = x.tid ∧ q.ev.ts = x.ts ∧
    x.dur = some q.dur ∧ 0 < q.dur

/-- **Placement.**  For every input stream (no flow events, no helper keys of its own) and every `s`
event of the output there are a *send* slice `snd` and a *receive* slice `rcv` in the input such that:
`snd` has type code SEND (`SingleCast` / `MultiCast XSEG`, see `typeCode_send`), `rcv` has type code DONE
(`WDone Barrier`), both have the same sync tag, `rcv` is on the first peer the send names;
the `s` event sits at `snd`'s `(pid, tid, ts)` and is named by the send's sync tag; and the output contains an
`f` event with the same id and name, `bp = e`, on `rcv`'s `(pid, tid)` at `rcv.ts + rcv.dur − 1/1000` —
inside the receive slice whenever that slice is at least 1 ns long. -/
theorem placement (input out : List Ev) (hin : NoFlowIn input) (hk : NoHelperKeysIn input)
    (h : runFlow input = .ok out) :
    ∀ s ∈ out, s.ph = "s" →
      ∃ snd ∈ input, ∃ rcv ∈ input, ∃ (hs hr : Helper) (d : Rat) (f : Ev),
        helperView snd = some hs ∧ helperView rcv = some hr ∧
        hs.typ = TYPE_SEND ∧ hr.typ = TYPE_DONE ∧ hr.sync = hs.sync ∧ hs.peers.head? = some rcv.pid ∧
        s.pid = snd.pid ∧ s.tid = snd.tid ∧ s.ts = snd.ts ∧ s.name = hs.sync ∧
        rcv.dur = some d ∧ 0 < d ∧
        f ∈ out ∧ f.ph = "f" ∧ f.id = s.id ∧ s.id ≠ none ∧ f.name = hs.sync ∧ f.bp = some "e" ∧
        f.pid = rcv.pid ∧ f.tid = rcv.tid ∧ f.ts = rcv.ts + d - 1 / 1000 ∧
        (1 / 1000 ≤ d → rcv.ts ≤ f.ts ∧ f.ts < rcv.ts + d) := by
  obtain ⟨a, b, ha, hb, rfl⟩ := runFlow_ok h
  have hP : ∀ e ∈ a, ∀ q, phInF e.ph = true → toQ e = .ok q → SrcOf input q := by
    intro e he q _ hq
    obtain ⟨hqe, hh, hd, hpos⟩ := toQ_ok hq
    obtain ⟨x, hx, lx, hlx, hel⟩ := prepareAll_mem ha e he
    rcases prepare_mem hlx e hel with ⟨_, hhlp, _⟩ | ⟨ar, hv, _, hview, rfl⟩
    · rw [hk x hx] at hhlp; rw [hhlp] at hh; cases hh
    · refine ⟨x, hx, ?_, ?_, ?_, ?_, ?_, hpos⟩
      · simp only [mkHelper, Option.some.injEq] at hh; rw [← hh]; exact hview
      · rw [hqe]; rfl
      · rw [hqe]; rfl
      · rw [hqe]; rfl
      · simpa [mkHelper, upd] using hd
  have hOk : ∀ e ∈ a, phInF e.ph = false → e.ph ≠ "s" := by
    intro e he hF
    obtain ⟨x, hx, lx, hlx, hel⟩ := prepareAll_mem ha e he
    rcases prepare_mem hlx e hel with ⟨hph, _⟩ | ⟨_, _, _, _, rfl⟩
    · intro hf; exact hin x hx (Or.inl (by rw [← hph]; exact hf))
    · simp [mkHelper, phInF] at hF
  obtain ⟨_, _, hpl⟩ := extractAll_inv (outInv_placed (SrcOf input)) a b hP hOk hb
  intro s hs hph
  have hsb : s ∈ b := (List.mem_filter.mp hs).1
  obtain ⟨e, r, k, ⟨snd, hsnd, v1, p1, t1, ts1, _, _⟩, ⟨rcv, hrcv, v2, p2, t2, ts2, d2, pos2⟩, hm, rfl, hf⟩ :=
    hpl s hsb hph
  obtain ⟨m1, m2, m3, m4⟩ := hm
  refine ⟨snd, hsnd, rcv, hrcv, e.h, r.h, r.dur, mkF k e r, v1, v2, m1, m2, m3, ?_, p1, t1, ts1, rfl, d2, pos2, ?_,
    rfl, rfl, by simp [mkS], rfl, rfl, p2, t2, ?_, ?_⟩
  · rw [m4, p2]
  · exact List.mem_filter.mpr ⟨hf, by simp [mkF]⟩
  · simp only [mkF]; rw [ts2]
  · intro hd
    simp only [mkF]; rw [ts2]
    constructor <;> grind

/-- **No helper in the output.**  Whatever the input, no `ph = "F"` event leaves `flow_data_cleanup`
(stream and drain outputs alike). -/
theorem no_helper_out (input out : List Ev) (h : runFlow input = .ok out) : ∀ e ∈ out, e.ph ≠ "F" := by
  obtain ⟨a, b, _, _, rfl⟩ := runFlow_ok h
  intro e he
  simpa using (List.mem_filter.mp he).2

/-- … and already `flow_extraction` passes no helper on: every `F` event it receives is queued and
consumed, what it emits are pass-through events and `s`/`f` events (so the clause does not hinge on the
cleanup stage alone). -/
theorem extraction_consumes_helpers (es out : List Ev) (h : extractAll es = .ok out) : ∀ e ∈ out, e.ph ≠ "F" := by
  obtain ⟨_, _, r⟩ := extractAll_inv outInv_noF es out (fun _ _ _ _ _ => trivial) (fun _ _ _ => trivial) h
  exact r

/-! ### group completion is detected -/

/-- **Complete group detected, for every arrival order.**  `c : ChainSpec` describes the helper events of one
complete chain all-reduce of `c.R ≥ 2` ranks (`c.OK`): for `r < R−1` the single cast `r → r+1` and its DONE
receive on rank `r+1` (sync tag `tag r`), and with sync tag `mtag` the BC list on the last rank naming the
ranks `0..R−2`, one segment send per other rank, the multicast, and a DONE receive on every other rank;
timestamps, durations, tids and names are arbitrary.  Then `detect_final` holds of **every permutation** of
these `4R − 2` events: the per-sync-group counters are order-independent folds. -/
theorem complete_group_detected (c : ChainSpec) (ok : c.OK) (q : List Q) (hp : q.Perm c.list) :
    detectFinal q = true :=
  detectFinal_chain c ok q hp

/-! ### completeness, under the two hypotheses that the current code needs -/

/-- all helper events of CollGroup `g`, in arrival order: the queue the group holds once everything has arrived -/
def groupQueue (g : String) (input : List Ev) : List Q :=
  match prepareAll input with
  | .ok a => qsOf g a
  | .error _ => []

/-- `detect_final` holds of no *strict* prefix of the group's events (false e.g. of a ≥ 3-rank chain group
whose receives are posted just in time: see `prefix_final_loses_multicast`) -/
def NoPrefixFinal (E : List Q) : Prop := ∀ p s, p ++ s = E → detectFinal p = true → s = []

/-- a sufficient condition for "no stale drop": the trace is shorter than `4 · drop_threshold` = 20 s -/
def WithinStaleWindow (input : List Ev) : Prop := ∃ t0 : Rat, ∀ x ∈ input, t0 ≤ x.ts ∧ x.ts ≤ t0 + 20000000

/-- **Every matched send of a detected group gets exactly one pair (partial: two hypotheses).**
Let `E` be all helper events of CollGroup `g` in arrival order (any interleaving with other groups, any
number of groups).  If `detect_final` holds of `E` (see `complete_group_detected` for chain groups), of no
strict prefix of `E` (`NoPrefixFinal`), and no group can go stale (`WithinStaleWindow`), then the flow
events of `g` in the output are — as a multiset — exactly one `s`/`f` pair (ids consecutive from some
`sq + 1`) for each send of `E` that has a DONE receive with the same sync tag on the peer it names
(`matched E E`, in queue order), and nothing else: no send is missed, none is paired twice, and the group
is emitted once.  Without `NoPrefixFinal` the statement is false of the current code
(`prefix_final_loses_multicast`). -/
theorem every_send_paired_partial (input out : List Ev) (g : String)
    (hin : NoFlowIn input) (hk : NoHelperKeysIn input) (hwin : WithinStaleWindow input)
    (hfin : detectFinal (groupQueue g input) = true) (hno : NoPrefixFinal (groupQueue g input))
    (h : runFlow input = .ok out) :
    ∃ sq, (flowsOf g out).Perm (emitPairs sq (matched (groupQueue g input) (groupQueue g input))) := by
  obtain ⟨a, b, ha, hb, rfl⟩ := runFlow_ok h
  obtain ⟨t0, hw⟩ := hwin
  have hgq : groupQueue g input = qsOf g a := by simp [groupQueue, ha]
  rw [hgq] at hfin hno ⊢
  have ht : Tame t0 a := by
    refine ⟨?_, ?_⟩
    · intro e he hF
      obtain ⟨x, hx, lx, hlx, hel⟩ := prepareAll_mem ha e he
      rcases prepare_mem hlx e hel with ⟨hph, _⟩ | ⟨_, _, _, _, rfl⟩
      · intro hf; exact hin x hx (by unfold isFlow at *; rw [← hph]; exact hf)
      · simp [mkHelper, phInF] at hF
    · intro e he q _ hq
      obtain ⟨_, hh, _, _⟩ := toQ_ok hq
      obtain ⟨x, hx, lx, hlx, hel⟩ := prepareAll_mem ha e he
      rcases prepare_mem hlx e hel with ⟨_, hhlp, _⟩ | ⟨ar, hv, _, _, rfl⟩
      · rw [hk x hx] at hhlp; rw [hhlp] at hh; cases hh
      · simp only [mkHelper, Option.some.injEq] at hh
        refine ⟨by simp [mkHelper, hh], ?_, ?_⟩
        · exact (hw x hx).1
        · exact (hw x hx).2
  obtain ⟨sq, sq', f, hf, hp⟩ := group_emitted_whole g (qsOf g a) t0 a b ht rfl hfin hno hb
  obtain ⟨_, hcl⟩ := buildLoop_closed _ _ _ _ _ hf
  refine ⟨sq, ?_⟩
  rw [← hcl]
  have : flowsOf g (cleanup b) = flowsOf g b := by
    simp only [flowsOf, cleanup, List.filter_filter]
    apply List.filter_congr
    intro x _
    by_cases h1 : x.ph = "s"
    · simp [h1]
    · by_cases h2 : x.ph = "f"
      · simp [h2]
      · simp [h1, h2]
  rw [this]
  exact hp

/-! ### the open finding: a strict prefix of a group is judged final

Three ranks, receives posted just in time.  `g1chain` is the chain part of group `G1` (two single casts with
their receives), `g1mcast` its multicast part (BC list, two XSEG sends, the multicast, two receives), starting
after the chain part has ended.  `foreign` is one send of another group `G2` that starts in the gap. -/

def mk (uid : Nat) (pid : Int) (tid : Int) (ts dur : Rat) (name : String) (cg : String) (typ : String)
    (peer : Option String) : Ev :=
  { ph := "X", pid := pid, tid := tid, ts := ts, dur := some dur, name := name, uid := uid,
    args := some { peer := peer.map PeerVal.str, typ := some typ, collGroup := some cg, jobhash := some 7 } }

def g1chain : List Ev := [
  mk 1 0 1300 10 5 "SenRdmaSend_1 [sync=G1_a] DmaO" "G1" "SingleCast" (some "1"),
  mk 2 1 1400 10 6 "SenRdmaReceive_2 [64B] [sync=G1_a] DmaI" "G1" "WDone Barrier" (some "0"),
  mk 3 1 1300 20 5 "SenRdmaSend_3 [sync=G1_b] DmaO" "G1" "SingleCast" (some "2"),
  mk 4 2 1400 20 6 "SenRdmaReceive_4 [64B] [sync=G1_b] DmaI" "G1" "WDone Barrier" (some "1")]

def g1mcast : List Ev := [
  mk 5 2 1300 40 2 "SenRdmaSend_5 - Set BcList [sync=G1_m] DmaO" "G1" "Set BCList" (some "0,1"),
  mk 6 2 1301 41 2 "SenRdmaSend_5 - Xseg to rank 0 [sync=G1_m] DmaO" "G1" "MultiCast XSEG" (some "0"),
  mk 7 2 1302 42 2 "SenRdmaSend_5 - Xseg to rank 1 [sync=G1_m] DmaO" "G1" "MultiCast XSEG" (some "1"),
  mk 8 2 1300 43 6 "SenRdmaSend_5 Data [sync=G1_m] DmaO" "G1" "MultiCast" none,
  mk 9 0 1400 40 10 "SenRdmaReceive_6 [64B] [sync=G1_m] DmaI" "G1" "WDone Barrier" (some "2"),
  mk 10 1 1400 40 11 "SenRdmaReceive_7 [64B] [sync=G1_m] DmaI" "G1" "WDone Barrier" (some "2")]

def foreign : List Ev := [
  mk 11 0 1300 30 2 "SenRdmaSend_8 [sync=G2_a] DmaO" "G2" "SingleCast" (some "1")]

def g2rest : List Ev := [
  mk 12 1 1400 60 2 "SenRdmaReceive_9 [64B] [sync=G2_a] DmaI" "G2" "WDone Barrier" (some "0")]

/-- the twelve-event history, in global `ts` order: chain part of G1, one event of G2, multicast part of G1, rest of G2 -/
def interleaved : List Ev := g1chain ++ foreign ++ g1mcast ++ g2rest
/-- the same twelve events with G2 entirely after G1 -/
def backToBack : List Ev := g1chain ++ g1mcast ++ foreign ++ g2rest

/-- **Witness of the open finding `flow-prefix-final` (the unrestricted completeness clause is false of
the current code).**  The ten events of `G1` are a complete chain group — judged final as a whole, four sends
each with a DONE receive on its peer; back to back with `G2` all four arrows are produced.  But the chain
part alone, a *strict prefix*, is judged final as well (≥ 2 closed sync groups), so when the single event of
`G2` arrives in the gap before the multicast part, the prefix is emitted and popped; the multicast part
then forms a group with one sync group, which can never be final, and is dropped at drain: both
multicast-segment arrows are lost, while the run itself succeeds. -/
theorem prefix_final_loses_multicast :
    detectFinal (helperQueue (g1chain ++ g1mcast)) = true ∧
    (matched (helperQueue (g1chain ++ g1mcast)) (helperQueue (g1chain ++ g1mcast))).length = 4 ∧
    detectFinal (helperQueue g1chain) = true ∧
    sNames (runFlow backToBack) = some ["G1_a", "G1_b", "G1_m", "G1_m"] ∧
    sNames (runFlow interleaved) = some ["G1_a", "G1_b"] := by
  decide +kernel

/-! ### non-vacuity: the hypotheses of the theorems hold on a history that produces arrows -/

example : NoFlowIn backToBack := by unfold NoFlowIn; decide +kernel
example : NoHelperKeysIn backToBack := by unfold NoHelperKeysIn; decide +kernel
/-- the run succeeds and exports the 12 slices, 4 `s` and 4 `f` events -/
example : (okOf (runFlow backToBack)).map (fun out =>
    ((out.filter (fun e => e.ph = "s")).length, (out.filter (fun e => e.ph = "f")).length, out.length)) =
    some (4, 4, 20) := by decide +kernel
/-- the hypotheses of `every_send_paired_partial` hold for both groups of the back-to-back history … -/
example : WithinStaleWindow backToBack := ⟨0, by decide +kernel⟩
example : detectFinal (groupQueue "G1" backToBack) = true := by decide +kernel
/-- … `NoPrefixFinal` holds for the 2-rank group … -/
def g3 : List Ev := [
  mk 1 0 1300 10 5 "SenRdmaSend_1 [sync=G3_a] DmaO" "G3" "SingleCast" (some "1"),
  mk 2 1 1400 10 6 "SenRdmaReceive_2 [sync=G3_a] DmaI" "G3" "WDone Barrier" (some "0"),
  mk 3 1 1300 20 2 "SenRdmaSend_5 - Set BcList [sync=G3_m] DmaO" "G3" "Set BCList" (some "0"),
  mk 4 1 1301 21 2 "SenRdmaSend_5 - Xseg to rank 0 [sync=G3_m] DmaO" "G3" "MultiCast XSEG" (some "0"),
  mk 5 1 1300 22 6 "SenRdmaSend_5 Data [sync=G3_m] DmaO" "G3" "MultiCast" none,
  mk 6 0 1400 20 10 "SenRdmaReceive_6 [sync=G3_m] DmaI" "G3" "WDone Barrier" (some "1")]
example : detectFinal (groupQueue "G3" g3) = true ∧
    (List.range 6).all (fun n => !detectFinal ((groupQueue "G3" g3).take n)) = true ∧
    (matched (groupQueue "G3" g3) (groupQueue "G3" g3)).length = 2 := by decide +kernel
/-- … and fails for the 3-rank group with just-in-time receives (the finding) -/
example : ¬ NoPrefixFinal (groupQueue "G1" backToBack) := by
  intro h
  have := h ((groupQueue "G1" backToBack).take 4) ((groupQueue "G1" backToBack).drop 4)
    (List.take_append_drop 4 _) (by decide +kernel)
  revert this
  decide +kernel
/-- `complete_group_detected` applies to the ten helper events of `G1` (R = 3) -/
def wq : List Q := helperQueue (g1chain ++ g1mcast)
def wd : Q := ⟨mk 0 0 0 0 1 "" "" "" none, ⟨"", "", [], 0⟩, 1⟩
def wspec : ChainSpec :=
  { R := 3, tag := fun r => if r = 0 then "G1_a" else "G1_b", mtag := "G1_m",
    snd := fun r => wq.getD (2 * r) wd, rcv := fun r => wq.getD (2 * r + 1) wd, bc := wq.getD 4 wd,
    xs := fun p => wq.getD (5 + p) wd, md := wq.getD 7 wd, mr := fun p => wq.getD (8 + p) wd }
example : wspec.list = wq ∧ wq.length = 10 := by decide +kernel
example : wspec.OK where
  two := by decide
  tag_inj := by
    intro i j hi hj h
    have hi' : i = 0 ∨ i = 1 := by simp only [wspec] at hi; omega
    have hj' : j = 0 ∨ j = 1 := by simp only [wspec] at hj; omega
    rcases hi' with rfl | rfl <;> rcases hj' with rfl | rfl <;> first | rfl | (revert h; decide)
  mtag_ne := by
    intro i hi
    have hi' : i = 0 ∨ i = 1 := by simp only [wspec] at hi; omega
    rcases hi' with rfl | rfl <;> decide
  snd := by
    intro r hr
    have hr' : r = 0 ∨ r = 1 := by simp only [wspec] at hr; omega
    rcases hr' with rfl | rfl <;> decide +kernel
  rcv := by
    intro r hr
    have hr' : r = 0 ∨ r = 1 := by simp only [wspec] at hr; omega
    rcases hr' with rfl | rfl <;> decide +kernel
  bc := by decide +kernel
  xs := by
    intro r hr
    have hr' : r = 0 ∨ r = 1 := by simp only [wspec] at hr; omega
    rcases hr' with rfl | rfl <;> decide +kernel
  md := by decide +kernel
  mr := by
    intro r hr
    have hr' : r = 0 ∨ r = 1 := by simp only [wspec] at hr; omega
    rcases hr' with rfl | rfl <;> decide +kernel
/-- a run that raises: a sync-tagged slice without `jobhash` (KeyError) — the theorems speak about `.ok` runs only -/
example : errOf (runFlow [{ (mk 1 0 1 10 5 "S_1 [sync=a] DmaO" "G" "SingleCast" (some "1")) with
    args := some { peer := some (.str "1"), typ := some "SingleCast" } }]) = some .key := by decide +kernel

end C09
end AiuVerif
