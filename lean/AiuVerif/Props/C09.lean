/-
C09 — flow arrows connect each matched send to its receive, with unique paired ids.

Property theorems only; helper lemmas live in `Lemmas/Flow.lean`, the model in `Model/Flow.lean`.
`runFlow input` is the output of the three registered stages
`flow_prepare_event_data → flow_extraction (+ drain) → flow_data_cleanup` on an arbitrary input stream
(any length, any arrival order, any number of ranks / groups; all statements are about error-free runs,
`runFlow input = .ok out` — an `assert`/`KeyError`/… aborts the real run and exports nothing).
-/
import AiuVerif.Lemmas.Flow

namespace AiuVerif
namespace C09
open Flow

/-- the input carries no flow events of its own (FLEX traces have none; the `--flow` stages create them) -/
def NoFlowIn (input : List Ev) : Prop := ∀ x ∈ input, ¬ isFlow x

/-- … and no event carries the helper keys `sync`/`Peers`/`Type` at top level: only
`flow_prepare_event_data` adds them -/
def NoHelperKeysIn (input : List Ev) : Prop := ∀ x ∈ input, x.hlp = none

theorem runFlow_ok {input out : List Ev} (h : runFlow input = .ok out) :
    ∃ a b, prepareAll input = .ok a ∧ extractAll a = .ok b ∧ out = cleanup b := by
  simp only [runFlow] at h
  obtain ⟨a, ha, h⟩ := bind_ok.mp h
  obtain ⟨b, hb, h⟩ := bind_ok.mp h
  simp only [pure_ok] at h
  exact ⟨a, b, ha, hb, h.symm⟩

/-- **Ids (whole run).**  For every input stream without flow events of its own: every `s`/`f` event
that leaves the flow stages — during streaming or from the final drain, of whichever group — carries an
id that occurs on exactly one `s` and exactly one `f` event of the whole output, and all flow events
with that id have the same name.  (Invariant: the id counter strictly increases; each
`create_flow_events_from_pair` uses a fresh value for exactly one `s` and one `f`.) -/
theorem ids_paired (input out : List Ev) (hin : NoFlowIn input) (h : runFlow input = .ok out) :
    PairedIds out := by
  obtain ⟨a, b, ha, hb, rfl⟩ := runFlow_ok h
  have hOk : ∀ e ∈ a, phInF e.ph = false → ¬ isFlow e := by
    intro e he hF
    obtain ⟨x, hx, lx, hlx, hel⟩ := prepareAll_mem ha e he
    rcases prepare_mem hlx e hel with ⟨hph, _⟩ | ⟨_, _, _, _, rfl⟩
    · intro hf; exact hin x hx (by unfold isFlow at *; rw [← hph]; exact hf)
    · simp [mkHelper, phInF] at hF
  obtain ⟨hi, _, hg⟩ := extractAll_inv outInv_good a b (fun _ _ _ _ _ => trivial) hOk hb
  refine (Good.filter _ ?_ hg).paired
  intro e hf
  rcases hf with hf | hf <;> simp [hf]

/-- where a queued helper comes from: a slice `x` of the input whose derived keys are `q.h`, at `x`'s
position, with `x`'s (positive) duration -/
def SrcOf (input : List Ev) (q : Q) : Prop :=
  ∃ x ∈ input, helperView x = some q.h ∧ q.ev.pid = x.pid ∧ q.ev.tid = x.tid ∧ q.ev.ts = x.ts ∧
    x.dur = some q.dur ∧ 0 < q.dur

/-- **Placement.**  For every input stream (no flow events, no helper keys of its own) and every `s`
event of the output there are a *send* slice `snd` and a *receive* slice `rcv` in the input such that:
`snd` has type code SEND (`SingleCast` / `MultiCast XSEG`, see `typeCode_send`), `rcv` has type code DONE
(`WDone Barrier`), both have the same sync tag, `rcv` is on the first peer the send names;
the `s` event sits at `snd`'s `(pid, tid, ts)` and is named by the send's sync tag; and the output contains an
`f` event with the same id and name, `bp = e`, on `rcv`'s `(pid, tid)` at `rcv.ts + rcv.dur − 1/1000` —
inside the receive slice whenever that slice is at least 1 ns long. -/
theorem placement (input out : List Ev) (hin : NoFlowIn input) (hk : NoHelperKeysIn input)
    (h : runFlow input = .ok out) :
    ∀ s ∈ out, s.ph = "s" →
      ∃ snd ∈ input, ∃ rcv ∈ input, ∃ (hs hr : Helper) (d : Rat) (f : Ev),
        helperView snd = some hs ∧ helperView rcv = some hr ∧
        hs.typ = TYPE_SEND ∧ hr.typ = TYPE_DONE ∧ hr.sync = hs.sync ∧ hs.peers.head? = some rcv.pid ∧
        s.pid = snd.pid ∧ s.tid = snd.tid ∧ s.ts = snd.ts ∧ s.name = hs.sync ∧
        rcv.dur = some d ∧ 0 < d ∧
        f ∈ out ∧ f.ph = "f" ∧ f.id = s.id ∧ s.id ≠ none ∧ f.name = hs.sync ∧ f.bp = some "e" ∧
        f.pid = rcv.pid ∧ f.tid = rcv.tid ∧ f.ts = rcv.ts + d - 1 / 1000 ∧
        (1 / 1000 ≤ d → rcv.ts ≤ f.ts ∧ f.ts < rcv.ts + d) := by
  obtain ⟨a, b, ha, hb, rfl⟩ := runFlow_ok h
  have hP : ∀ e ∈ a, ∀ q, phInF e.ph = true → toQ e = .ok q → SrcOf input q := by
    intro e he q _ hq
    obtain ⟨hqe, hh, hd, hpos⟩ := toQ_ok hq
    obtain ⟨x, hx, lx, hlx, hel⟩ := prepareAll_mem ha e he
    rcases prepare_mem hlx e hel with ⟨_, hhlp, _⟩ | ⟨ar, hv, _, hview, rfl⟩
    · rw [hk x hx] at hhlp; rw [hhlp] at hh; cases hh
    · refine ⟨x, hx, ?_, ?_, ?_, ?_, ?_, hpos⟩
      · simp only [mkHelper, Option.some.injEq] at hh; rw [← hh]; exact hview
      · rw [hqe]; rfl
      · rw [hqe]; rfl
      · rw [hqe]; rfl
      · simpa [mkHelper, upd] using hd
  have hOk : ∀ e ∈ a, phInF e.ph = false → e.ph ≠ "s" := by
    intro e he hF
    obtain ⟨x, hx, lx, hlx, hel⟩ := prepareAll_mem ha e he
    rcases prepare_mem hlx e hel with ⟨hph, _⟩ | ⟨_, _, _, _, rfl⟩
    · intro hf; exact hin x hx (Or.inl (by rw [← hph]; exact hf))
    · simp [mkHelper, phInF] at hF
  obtain ⟨_, _, hpl⟩ := extractAll_inv (outInv_placed (SrcOf input)) a b hP hOk hb
  intro s hs hph
  have hsb : s ∈ b := (List.mem_filter.mp hs).1
  obtain ⟨e, r, k, ⟨snd, hsnd, v1, p1, t1, ts1, _, _⟩, ⟨rcv, hrcv, v2, p2, t2, ts2, d2, pos2⟩, hm, rfl, hf⟩ :=
    hpl s hsb hph
  obtain ⟨m1, m2, m3, m4⟩ := hm
  refine ⟨snd, hsnd, rcv, hrcv, e.h, r.h, r.dur, mkF k e r, v1, v2, m1, m2, m3, ?_, p1, t1, ts1, rfl, d2, pos2, ?_,
    rfl, rfl, by simp [mkS], rfl, rfl, p2, t2, ?_, ?_⟩
  · rw [m4, p2]
  · exact List.mem_filter.mpr ⟨hf, by simp [mkF]⟩
  · simp only [mkF]; rw [ts2]
  · intro hd
    simp only [mkF]; rw [ts2]
    constructor <;> grind

/-- **No helper in the output.**  Whatever the input, no `ph = "F"` event leaves `flow_data_cleanup`
(stream and drain outputs alike). -/
theorem no_helper_out (input out : List Ev) (h : runFlow input = .ok out) : ∀ e ∈ out, e.ph ≠ "F" := by
  obtain ⟨a, b, _, _, rfl⟩ := runFlow_ok h
  intro e he
  simpa using (List.mem_filter.mp he).2

/-- … and already `flow_extraction` passes no helper on: every `F` event it receives is queued and
consumed, what it emits are pass-through events and `s`/`f` events (so the clause does not hinge on the
cleanup stage alone). -/
theorem extraction_consumes_helpers (es out : List Ev) (h : extractAll es = .ok out) : ∀ e ∈ out, e.ph ≠ "F" := by
  obtain ⟨_, _, r⟩ := extractAll_inv outInv_noF es out (fun _ _ _ _ _ => trivial) (fun _ _ _ => trivial) h
  exact r

end C09
end AiuVerif
