/-
C06 — device slice durations equal cycle deltas divided by the SoC frequency.

Property theorems only; model in `Model/TimeSync.lean` + `Model/PhaseName.lean`, helper lemmas in
`Lemmas/TimeSync.lean` + `Lemmas/PhaseName.lean`.

Setting: an arbitrary event `e`, an arbitrary frequency `f` (positivity is assumed only where an order statement
needs it), a device slice is an `X` event with the five counters `[c1,…,c5]` (arbitrary integers, arbitrary gaps,
equal counters allowed).  `both f e = .ok o` says that `cycle_count_to_wallclock` followed by
`tighten_hts_by_instr_type` (the two adjacent registrations of the CLI) return `o` without raising.
`nth5 c1 … c5 i` is the counter with 0-based index `i`; `durPair name` is the pair selected by the code
(`(op, op+1)` for the first blank-led keyword contained in the name, `(0,4)` without keyword), which by
`phase_tables_agree` is the pair of the statement's table on every canonical name.
-/
import AiuVerif.Lemmas.TimeSync

namespace AiuVerif
namespace C06
open AiuVerif.TimeSync AiuVerif.PhaseName

variable {f k : Rat} {e o o' : Ev} {c1 c2 c3 c4 c5 : Int}

/-- both stages on a device slice: the duration and (under the end condition) the end -/
theorem both_dev (hph : e.ph = "X") (htsx : e.tsx = some [c1, c2, c3, c4, c5]) (h : both f e = .ok o) :
    o.dur = ((nth5 c1 c2 c3 c4 c5 (durPair e.name).2 - nth5 c1 c2 c3 c4 c5 (durPair e.name).1 : Int) : Rat) / f ∧
      ((opIds e.name ≠ [] ∨ cvtRefIdx e.name = 4) → o.ts + o.dur = e.ts + e.dur) := by
  unfold both at h
  cases hs : stage1 f e with
  | error m => simp [hs] at h
  | ok e1 =>
    simp only [hs] at h
    obtain ⟨h1ph, h1name, h1tsx, h1end, h1ts⟩ := stage1_dev hph htsx hs
    rw [hph] at h1ph
    rw [htsx] at h1tsx
    rcases opIds_head e.name with hop | ⟨op, rest, hop, hop4⟩
    · have hop1 : opIds e1.name = [] := by rw [h1name]; exact hop
      obtain ⟨hts, hdur⟩ := stage2_dev_beg h1ph h1tsx hop1 h
      refine ⟨by simp [durPair, hop, nth5, hdur], ?_⟩
      rintro (hne | h4)
      · exact absurd hop hne
      · rw [hts, hdur, h1ts, h4]
        simp only [nth5]
        ring
    · have hop1 : opIds e1.name = op :: rest := by rw [h1name]; exact hop
      obtain ⟨hend, hdur⟩ := stage2_dev_type h1ph h1tsx hop1 hop4 h
      refine ⟨by simp [durPair, hop, hdur], ?_⟩
      intro _
      rw [hend, h1end]

/-- **Duration clause.** After both stages the duration of a device slice is the counter interval selected by its
name divided by the frequency — whatever the host-recorded `ts`/`dur` were, whatever the other gaps are — and it is
strictly positive exactly when the interval is. -/
theorem dur_eq_delta (hph : e.ph = "X") (htsx : e.tsx = some [c1, c2, c3, c4, c5]) (h : both f e = .ok o) :
    o.dur = ((nth5 c1 c2 c3 c4 c5 (durPair e.name).2 - nth5 c1 c2 c3 c4 c5 (durPair e.name).1 : Int) : Rat) / f ∧
      (0 < f → (0 < o.dur ↔ nth5 c1 c2 c3 c4 c5 (durPair e.name).1 < nth5 c1 c2 c3 c4 c5 (durPair e.name).2)) := by
  obtain ⟨hd, _⟩ := both_dev hph htsx h
  refine ⟨hd, ?_⟩
  intro hf
  rw [hd, div_pos_iff_of_pos_right hf]
  constructor
  · intro hpos
    have : ((0 : Int) : Rat) < ((nth5 c1 c2 c3 c4 c5 (durPair e.name).2 - nth5 c1 c2 c3 c4 c5 (durPair e.name).1 : Int) : Rat) := by
      simpa using hpos
    have := Int.cast_lt.mp this
    omega
  · intro hlt
    have : (0 : Int) < nth5 c1 c2 c3 c4 c5 (durPair e.name).2 - nth5 c1 c2 c3 c4 c5 (durPair e.name).1 := by omega
    exact_mod_cast this

/-- **End clause.** The end of a device slice stays at the host-recorded end `ts + dur`, provided the name
contains a blank-led phase keyword or `_convert_cycle_timestamps` anchored TS5 — true for every canonical and
every keyword-free name (`phase_tables_agree`, `phase_tables_agree_other`). -/
theorem end_preserved (hph : e.ph = "X") (htsx : e.tsx = some [c1, c2, c3, c4, c5]) (h : both f e = .ok o)
    (hname : opIds e.name ≠ [] ∨ cvtRefIdx e.name = 4) :
    o.ts + o.dur = e.ts + e.dur :=
  (both_dev hph htsx h).2 hname

/-- **Frequency scaling.** Running the same slice with `k·f` divides the duration by `k`, leaves the end where
it was and moves the start by `dur − dur/k`. -/
theorem freq_scaling (hf : f ≠ 0) (hk : k ≠ 0) (hph : e.ph = "X") (htsx : e.tsx = some [c1, c2, c3, c4, c5])
    (hname : opIds e.name ≠ [] ∨ cvtRefIdx e.name = 4)
    (h : both f e = .ok o) (h' : both (k * f) e = .ok o') :
    o'.dur = o.dur / k ∧ o'.ts + o'.dur = o.ts + o.dur ∧ o'.ts = o.ts + (o.dur - o.dur / k) := by
  obtain ⟨hd, he⟩ := both_dev hph htsx h
  obtain ⟨hd', he'⟩ := both_dev hph htsx h'
  have hend := he hname
  have hend' := he' hname
  have hdk : o'.dur = o.dur / k := by
    rw [hd', hd]
    field_simp
  refine ⟨hdk, by rw [hend', hend], ?_⟩
  have : o'.ts = e.ts + e.dur - o'.dur := by linarith
  rw [this, hdk]
  linarith

/-- **Host-only clause.** Events without counters, and events that are not complete slices, leave both stages
exactly as they came (same `ts`, same `dur`, no scratch keys). -/
theorem host_only_untouched (f : Rat) (e : Ev) (h : e.ph ≠ "X" ∨ e.tsx = none) : both f e = .ok e := by
  unfold both
  rw [stage1_host h]
  exact stage2_host h

/-- **The keyword tables agree on canonical names.** If a name ends in the blank-led keyword `i` and contains no
other phase keyword, then `_get_ref_ts` names TS(i+1), `_convert_cycle_timestamps` anchors TS(i+2),
`_match_opIds_from_event` yields exactly `[i]`, `FlexEventMapToTS` yields `(TS(i+1), TS(i+2))` and the exported
duration is TS(i+2) − TS(i+1): the pair of the statement's table.  For all strings. -/
theorem phase_tables_agree (n : String) (i : Nat) (hi : i < 4) (h : Canonical n i) :
    refIdx n = i ∧ cvtRefIdx n = i + 1 ∧ opIds n = [i] ∧ flexMap n = some (i, i + 1) ∧ durPair n = (i, i + 1) := by
  obtain ⟨h1, h2, h3, h4, hoth⟩ := canonical_facts h
  have hi4 : i = 0 ∨ i = 1 ∨ i = 2 ∨ i = 3 := by omega
  rcases hi4 with rfl | rfl | rfl | rfl
  · obtain ⟨a1, a2, a3, a4⟩ := hoth 1 (by omega) (by omega)
    obtain ⟨b1, b2, b3, b4⟩ := hoth 2 (by omega) (by omega)
    obtain ⟨d1, d2, d3, d4⟩ := hoth 3 (by omega) (by omega)
    simp only [kwB, kwNB] at *
    simp [refIdx, cvtRefIdx, opIds, flexMap, durPair, *]
  · obtain ⟨a1, a2, a3, a4⟩ := hoth 0 (by omega) (by omega)
    obtain ⟨b1, b2, b3, b4⟩ := hoth 2 (by omega) (by omega)
    obtain ⟨d1, d2, d3, d4⟩ := hoth 3 (by omega) (by omega)
    simp only [kwB, kwNB] at *
    simp [refIdx, cvtRefIdx, opIds, flexMap, durPair, *]
  · obtain ⟨a1, a2, a3, a4⟩ := hoth 0 (by omega) (by omega)
    obtain ⟨b1, b2, b3, b4⟩ := hoth 1 (by omega) (by omega)
    obtain ⟨d1, d2, d3, d4⟩ := hoth 3 (by omega) (by omega)
    simp only [kwB, kwNB] at *
    simp [refIdx, cvtRefIdx, opIds, flexMap, durPair, *]
  · obtain ⟨a1, a2, a3, a4⟩ := hoth 0 (by omega) (by omega)
    obtain ⟨b1, b2, b3, b4⟩ := hoth 1 (by omega) (by omega)
    obtain ⟨d1, d2, d3, d4⟩ := hoth 2 (by omega) (by omega)
    simp only [kwB, kwNB] at *
    simp [refIdx, cvtRefIdx, opIds, flexMap, durPair, *]

/-- **… and on keyword-free names**: reference TS1, anchor TS5, no op id, no map entry, duration TS5 − TS1. -/
theorem phase_tables_agree_other (n : String) (h : KeywordFree n) :
    refIdx n = 0 ∧ cvtRefIdx n = 4 ∧ opIds n = [] ∧ flexMap n = none ∧ durPair n = (0, 4) := by
  obtain ⟨a1, a2, a3, a4⟩ := keywordFree_facts h 0 (by omega)
  obtain ⟨b1, b2, b3, b4⟩ := keywordFree_facts h 1 (by omega)
  obtain ⟨d1, d2, d3, d4⟩ := keywordFree_facts h 2 (by omega)
  obtain ⟨g1, g2, g3, g4⟩ := keywordFree_facts h 3 (by omega)
  simp only [kwB, kwNB] at *
  simp [refIdx, cvtRefIdx, opIds, flexMap, durPair, *]

/-- **The statement on canonical names.** A device slice whose name ends in the blank-led keyword `i`
(0 = DmaI, 1 = Cmpt Prep, 2 = Cmpt Exec, 3 = DmaO) and contains no other phase keyword leaves the two stages with
`dur = (TS(i+2) − TS(i+1)) / f` and its end at the host-recorded end. -/
theorem statement_canonical (i : Nat) (hi : i < 4) (hc : Canonical e.name i)
    (hph : e.ph = "X") (htsx : e.tsx = some [c1, c2, c3, c4, c5]) (h : both f e = .ok o) :
    o.dur = ((nth5 c1 c2 c3 c4 c5 (i + 1) - nth5 c1 c2 c3 c4 c5 i : Int) : Rat) / f ∧
      o.ts + o.dur = e.ts + e.dur := by
  obtain ⟨_, _, hop, _, hpair⟩ := phase_tables_agree e.name i hi hc
  obtain ⟨hd, he⟩ := both_dev hph htsx h
  rw [hpair] at hd
  exact ⟨hd, he (Or.inl (by rw [hop]; simp))⟩

/-- **The statement on any other device event** (no phase keyword in the name): `dur = (TS5 − TS1) / f`, end at
the host-recorded end. -/
theorem statement_other (hc : KeywordFree e.name)
    (hph : e.ph = "X") (htsx : e.tsx = some [c1, c2, c3, c4, c5]) (h : both f e = .ok o) :
    o.dur = ((c5 - c1 : Int) : Rat) / f ∧ o.ts + o.dur = e.ts + e.dur := by
  obtain ⟨_, hcvt, _, _, hpair⟩ := phase_tables_agree_other e.name hc
  obtain ⟨hd, he⟩ := both_dev hph htsx h
  rw [hpair] at hd
  exact ⟨by simpa [nth5] using hd, he (Or.inr hcvt)⟩

/-- **The statement on DMA slices whose keyword is not a suffix.** The FLEX dialect classifies DmaI / DmaO slices
with unanchored patterns (`is.name; DmaI`, `is.name; DmaO`), e.g. `Host DMA Wdone DmaI [to rank 0]`.  For such a
name — the blank-led keyword `i ∈ {0 = DmaI, 3 = DmaO}` anywhere, no keyword of another phase — stage 1 and stage 2
may classify differently (`endswith` versus `in`), still `_match_opIds_from_event` yields `[i]`, the duration is
`(TS(i+2) − TS(i+1)) / f` and the end stays at the host-recorded end. -/
theorem statement_midname_dma (i : Nat) (hc : MidnameDma e.name i)
    (hph : e.ph = "X") (htsx : e.tsx = some [c1, c2, c3, c4, c5]) (h : both f e = .ok o) :
    opIds e.name = [i] ∧
      o.dur = ((nth5 c1 c2 c3 c4 c5 (i + 1) - nth5 c1 c2 c3 c4 c5 i : Int) : Rat) / f ∧
      o.ts + o.dur = e.ts + e.dur := by
  obtain ⟨hin, hoth⟩ := midnameDma_facts hc
  have hop : opIds e.name = [i] := by
    rcases hc.1 with rfl | rfl
    · have a := (hoth 1 (by omega) (by omega)).1
      have b := (hoth 2 (by omega) (by omega)).1
      have d := (hoth 3 (by omega) (by omega)).1
      simp only [kwB] at *
      simp [opIds, *]
    · have a := (hoth 0 (by omega) (by omega)).1
      have b := (hoth 1 (by omega) (by omega)).1
      have d := (hoth 2 (by omega) (by omega)).1
      simp only [kwB] at *
      simp [opIds, *]
  obtain ⟨hd, he⟩ := both_dev hph htsx h
  have hpair : durPair e.name = (i, i + 1) := by simp [durPair, hop]
  rw [hpair] at hd
  exact ⟨hop, hd, he (Or.inl (by rw [hop]; simp))⟩

/-- **The asserts do not fire** (for every name): with a positive frequency, non-decreasing counters and a host
end that leaves room for the whole device interval (`(TS5−TS1)/f ≤ ts+dur`, i.e. every projected start is
non-negative) both stages return. -/
theorem asserts_hold (hf : 0 < f) (hph : e.ph = "X") (htsx : e.tsx = some [c1, c2, c3, c4, c5])
    (h12 : c1 ≤ c2) (h23 : c2 ≤ c3) (h34 : c3 ≤ c4) (h45 : c4 ≤ c5)
    (hroom : ((c5 - c1 : Int) : Rat) / f ≤ e.ts + e.dur) :
    ∃ o, both f e = .ok o := by
  have d12 := cdiv_le hf h12
  have d23 := cdiv_le hf h23
  have d34 := cdiv_le hf h34
  have d45 := cdiv_le hf h45
  have hroom' : (c5 : Rat) / f - (c1 : Rat) / f ≤ e.ts + e.dur := by
    have : ((c5 - c1 : Int) : Rat) / f = (c5 : Rat) / f - (c1 : Rat) / f := by push_cast; ring
    rw [← this]; exact hroom
  cases hs : stage1 f e with
  | error m =>
    exfalso
    unfold stage1 at hs
    simp only [hph, htsx, conv5, bne_self_eq_false, Bool.false_eq_true, ↓reduceIte] at hs
    rcases cvtRefIdx_mem e.name with hr | hr | hr | hr <;>
    · simp only [hr, List.map_cons, List.map_nil, List.getElem?_cons_succ, List.getElem?_cons_zero, monotone,
        Bool.not_eq_true', Bool.and_eq_false_iff, decide_eq_false_iff_not, Bool.and_true] at hs
      split_ifs at hs with g1 g2 g3 g4
      all_goals first
        | (rcases g4 with g | g | g | g <;> linarith)
        | linarith
  | ok e1 =>
    obtain ⟨h1ph, h1name, h1tsx, h1end, h1ts⟩ := stage1_dev hph htsx hs
    rw [hph] at h1ph
    rw [htsx] at h1tsx
    cases hs2 : stage2 f e1 with
    | ok o => exact ⟨o, by simp [both, hs, hs2]⟩
    | error m =>
      exfalso
      unfold stage2 at hs2
      rcases opIds_head e1.name with hop | ⟨op, rest, hop, hop4⟩
      · simp [h1ph, h1tsx, conv5, hop] at hs2
      · simp only [h1ph, h1tsx, conv5, hop, bne_self_eq_false, Bool.false_eq_true, ↓reduceIte, List.map_cons,
          List.map_nil] at hs2
        rcases hop4 with rfl | rfl | rfl | rfl <;>
        · simp only [List.getElem?_cons_succ, List.getElem?_cons_zero, Nat.reduceAdd] at hs2
          split_ifs at hs2 with g1
          rw [h1end] at g1
          linarith

/-! ### the excluded branch: a keyword without its leading blank -/

/-- a slice named `xCmpt Prep`: `_convert_cycle_timestamps` (suffix test without blank) anchors TS3, but
`_match_opIds_from_event` (substring test with blank) finds no keyword, so the start is kept and the duration
becomes TS5−TS1 — the end moves from 1000050 to 1000082 -/
def oddSlice : Ev :=
  { uid := 1, ph := "X", name := "xCmpt Prep", ts := 1000000, dur := 50, tsx := some [0, 1024, 4096, 10240, 20480] }

theorem end_not_preserved_noncanonical :
    (both 512 oddSlice).toOption.map (fun o => (o.ts, o.dur)) = some (1000042, 40) ∧
      opIds oddSlice.name = [] ∧ cvtRefIdx oddSlice.name = 2 := by
  decide +kernel

/-! ### non-vacuity -/

/-- the five canonical names are canonical / keyword free -/
example : Canonical "mm_1 DmaI" 0 ∧ Canonical "mm_1 Cmpt Prep" 1 ∧ Canonical "mm_1 Cmpt Exec" 2 ∧
    Canonical "SenRdmaSend_3 [sync=g_s0_r1_0] DmaO" 3 ∧ KeywordFree "kernel_7" := by
  refine ⟨⟨by decide, ?_⟩, ⟨by decide, ?_⟩, ⟨by decide, ?_⟩, ⟨by decide, ?_⟩, ?_⟩
  all_goals
    intro j hj
    have : j = 0 ∨ j = 1 ∨ j = 2 ∨ j = 3 := by omega
    rcases this with rfl | rfl | rfl | rfl <;> decide

/-- the slice name of the coordinator's counterexample is a mid-name DmaI slice: stage 1 anchors TS5, stage 2 TS2 -/
example : MidnameDma "Host DMA Wdone DmaI [to rank 0]" 0 ∧ cvtRefIdx "Host DMA Wdone DmaI [to rank 0]" = 4 ∧
    ¬ Canonical "Host DMA Wdone DmaI [to rank 0]" 0 := by
  refine ⟨⟨Or.inl rfl, by decide, ?_⟩, by decide, ?_⟩
  · intro j hj
    have : j = 0 ∨ j = 1 ∨ j = 2 ∨ j = 3 := by omega
    rcases this with rfl | rfl | rfl | rfl <;> decide
  · intro hcan
    exact absurd hcan.1 (by decide)

/-- a concrete Exec slice passes both stages at 512 and at 1024 MHz: dur 60 → 30, end 1060 kept -/
def demo : Ev :=
  { uid := 1, ph := "X", name := "mm Cmpt Exec", ts := 1000, dur := 60, tsx := some [100, 100, 20580, 51300, 52324] }

example : (both 512 demo).toOption.map (fun o => (o.ts, o.dur)) = some (1000, 60) ∧
    (both (2 * 512) demo).toOption.map (fun o => (o.ts, o.dur)) = some (1030, 30) := by
  decide +kernel

example : ((52324 - 100 : Int) : Rat) / 512 ≤ demo.ts + demo.dur := by decide +kernel

end C06
end AiuVerif
