/-
C10 — the Power counter is the energy-conserving derivative of the charge counter.

Property theorems only; helper lemmas live in `Lemmas/Power.lean`.  All statements hold for arbitrary
sequence lengths, rational times and readings.  Side conditions: `TimeSorted` (what the counter sorter
delivers — `sort_stage_rank`), `InRange` (the reading is a 32-bit counter value; an out-of-range
reading is the `OverflowError` branch, `raises_on_out_of_range_reading`), no `" Prep"` in `cat` and
`ts = TS_cycles` (what `extract_power_event` delivers — `extract_establishes`).
`pipeline_refines_spec` composes the three stages and needs `InRange` of the slice readings only.
/repo carries the `pa <= pb` repair, so the full statement holds (`equal_readings_zero_power`).
-/
import AiuVerif.Lemmas.Power

namespace AiuVerif
namespace C10
open Power

/-- **The emitted series is the spec of the valid samples.**  For one rank's counters in time
order, with 32-bit readings: `compute_power` does not raise and emits, for consecutive *valid*
samples (non-zero reading; of several samples at one time stamp the first), at time `t_i` the value
`clamp (12 · ((Q_{i+1} − Q_i) mod 2^32) / 512 / (t_{i+1} − t_i))`, `clamp x = 0` for `x > 100`. -/
theorem power_refines_spec (l : List Ctr) (hr : ∀ c ∈ l, InRange c) (hs : TimeSorted l)
    (hp : ∀ c ∈ l, isPrep c.cat = false) :
    computeRank false l = .ok (specPairs (valid l)) :=
  go_none l hr hs hp

/-- **Values are never negative** — for every input of the stage (any pids, any order, any
`--skip_events` setting): whatever is emitted is `≥ 0` (the code raises instead). -/
theorem nonneg (skip : Bool) (l : List Ctr) (outs : List Out) (h : computeStage skip l = .ok outs) :
    ∀ o ∈ outs, 0 ≤ o.watts :=
  fun o ho => (goAll_out skip _ l outs h o ho).1

/-- **Implausible values are reported as 0**: nothing above 100 W is ever emitted. -/
theorem at_most_100 (skip : Bool) (l : List Ctr) (outs : List Out) (h : computeStage skip l = .ok outs) :
    ∀ o ∈ outs, o.watts ≤ 100 :=
  fun o ho => (goAll_out skip _ l outs h o ho).2

/-- **No `OverflowError` on time-sorted 32-bit readings**, for any `cat` strings and either
`--skip_events` setting. -/
theorem never_raises (skip : Bool) (l : List Ctr) (hr : ∀ c ∈ l, InRange c) (hs : TimeSorted l) :
    ∃ outs, computeRank skip l = .ok outs :=
  go_ok skip none l hr hs (fun _ h => absurd h (by simp))

/-- **Energy conservation.**  For strictly increasing sample times and no clamped value, the emitted
series integrates to the charge: `Σ P_i · (t_{i+1} − t_i) = 12/512 · Σ ((Q_{i+1} − Q_i) mod 2^32)`. -/
theorem energy_conserved (v : List Ctr) (hinc : v.Pairwise (fun x y => x.tsc < y.tsc))
    (hu : Unclamped v) :
    energyOf (specPairs v) v = 12 / 512 * ((chargeTotal v : Int) : Num) := by
  cases v with
  | nil => simp [specPairs, energyOf, chargeTotal]
  | cons a rest => exact energy_go a rest hinc hu

/-- **… even across a wrap of the 32-bit charge counter.**  If the readings are the true accumulated
charge `U_i` modulo `2^32` and fewer than `2^32` units flow between consecutive samples, the sum of the
modular deltas is the charge really delivered, `U_last − U_first`. -/
theorem charge_telescopes (a : Ctr) (u : Int) (rest : List (Ctr × Int))
    (ha : truncInt a.q = u % 4294967296) (hr : ∀ x ∈ rest, truncInt x.1.q = x.2 % 4294967296)
    (hs : StepsFrom u rest) :
    chargeTotal (a :: rest.map (·.1)) = lastU u rest - u :=
  charge_go_telescopes a u rest ha hr hs

/-- **Samples of a rank are emitted in time order**: for time-sorted counters with `ts = TS_cycles`
the emitted time stamps strictly increase, and the valid samples have pairwise distinct times (so
`energy_conserved` applies to them). -/
theorem emitted_in_time_order (l : List Ctr) (hs : TimeSorted l) (hts : ∀ c ∈ l, c.ts = c.tsc) :
    (specPairs (valid l)).Pairwise (fun x y => x.ts < y.ts) ∧
    (valid l).Pairwise (fun x y => x.tsc < y.tsc) := by
  obtain ⟨h1, h2⟩ := valid_strict l hs
  refine ⟨?_, h1⟩
  generalize valid l = v at h1 h2
  cases v with
  | nil => simp [specPairs]
  | cons a rest => exact (specGo_times a rest h1 (fun c hc => hts c (h2 c hc))).1

/-! ### the three stages together -/

/-- **Ranks do not disturb each other.**  On any interleaving of the counters of several pids the
stage emits, for each pid, exactly what it would emit for that pid's counters alone. -/
theorem rank_projection (skip : Bool) (l : List Ctr) (outs : List Out)
    (h : computeStage skip l = .ok outs) (p : Int) :
    computeRank skip (rankOf p l) = .ok (outs.filter (fun o => o.pid = p)) :=
  goAll_rank skip _ l outs (fun _ _ h => absurd h (by simp)) h p

/-- **Counters are sorted by `TS_cycles` before differencing**: what the sorter hands on for rank `p`
is a time-sorted permutation of that rank's counters. -/
theorem sort_stage_rank (l : List Ctr) (p : Int) :
    TimeSorted (rankOf p (sortStage l)) ∧ (rankOf p (sortStage l)).Perm (rankOf p l) := by
  rw [rankOf_sortStage]
  exact ⟨sortRank_sorted _, sortRank_perm _⟩

/-- **`extract_power_event` establishes the remaining side conditions**: every helper counter has
`ts = TS_cycles`, a `cat` without `" Prep"`, and carries either the initial 0 or the `Power` reading of
a slice of the same pid at that slice's TS4 time. -/
theorem extract_establishes (slices : List Slice) (cs : List Ctr) (h : extractAll slices = .ok cs) :
    ∀ c ∈ cs, c.ts = c.tsc ∧ isPrep c.cat = false ∧
      (c.q = 0 ∨ ∃ s ∈ slices, s.power = some c.q ∧ s.pid = c.pid ∧ c.tsc = s.ts4) :=
  extractGo_facts [] slices cs h

/-- **The sub-pipeline refines the spec, rank by rank.**  For any stream of slices (ranks interleaved
arbitrarily) whose `Power` readings are 32-bit values and that carry a `dur` (`extractAll` succeeds):
the pipeline does not raise, and the `Power` counters of rank `p` are exactly the spec of the valid
samples of `p`'s counters in time order. -/
theorem pipeline_refines_spec (slices : List Slice) (cs : List Ctr)
    (hx : extractAll slices = .ok cs)
    (hr : ∀ s ∈ slices, ∀ q, s.power = some q → 0 ≤ truncInt q ∧ truncInt q < 4294967296) :
    ∃ outs, pipeline false slices = .ok outs ∧
      ∀ p, outs.filter (fun o => o.pid = p) = specPairs (valid (sortRank (rankOf p cs))) := by
  have hfacts := extract_establishes slices cs hx
  have hrange : ∀ c ∈ cs, InRange c := by
    intro c hc
    rcases (hfacts c hc).2.2 with h0 | ⟨s, hs, hq, _, _⟩
    · unfold InRange; rw [h0, truncInt_zero]; omega
    · exact hr s hs c.q hq
  have hrank : ∀ p, ∀ c ∈ sortRank (rankOf p cs), c ∈ cs := fun p c hc =>
    (List.mem_filter.mp ((sortRank_perm _).mem_iff.mp hc)).1
  have hspec : ∀ p, go false none (sortRank (rankOf p cs)) =
      .ok (specPairs (valid (sortRank (rankOf p cs)))) := fun p =>
    go_none _ (fun c hc => hrange c (hrank p c hc)) (sortRank_sorted _)
      (fun c hc => (hfacts c (hrank p c hc)).2.1)
  have hok : ∃ outs, goAll false (fun _ => none) (sortStage cs) = .ok outs :=
    goAll_ok false _ _ (fun p => ⟨_, by rw [rankOf_sortStage]; exact hspec p⟩)
  obtain ⟨outs, houts⟩ := hok
  refine ⟨outs, ?_, ?_⟩
  · unfold pipeline computeStage
    rw [hx]
    exact houts
  · intro p
    have := goAll_rank false _ _ outs (fun _ _ h => absurd h (by simp)) houts p
    rw [rankOf_sortStage, hspec p] at this
    exact (Except.ok.inj this).symm

/-! ### the repaired comparison, the excluded branch, non-vacuity -/

def ctr (t q : Num) : Ctr := ⟨0, "fn Cmpt Exec", t, t, q⟩

/-- **Equal consecutive readings give 0 W** (the `pa <= pb` repair: before it this was a full wrap,
`12·2^32/512/2000000 ≈ 50.3 W`) -/
theorem equal_readings_zero_power :
    computeRank false [ctr 10 777, ctr 2000010 777, ctr 2000020 800] =
      .ok [⟨0, 10, 0⟩, ⟨0, 2000010, 69 / 1280⟩] := by decide +kernel

/-- outside `InRange` the stage can raise: a reading above `2^32` followed by a small one makes
`2^32 + pb − pa` negative -/
theorem raises_on_out_of_range_reading :
    computeRank false [ctr 10 8589934592, ctr 20 1] = .error "overflow" := by decide +kernel

/-- a wrap between two samples: 500 charge units in 1 µs across `2^32` give `12·500/512 W` -/
example : computeRank false [ctr 10 4294966796, ctr 11 0, ctr 11 4294967000, ctr 12 0, ctr 12 204, ctr 12 999] =
    .ok [⟨0, 10, 153 / 32⟩, ⟨0, 11, 375 / 32⟩] := by decide +kernel

/-- the hypotheses of `power_refines_spec` / `energy_conserved` are met by that sequence -/
example : (∀ c ∈ [ctr 10 4294966796, ctr 11 0, ctr 11 4294967000, ctr 12 204], InRange c) ∧
    TimeSorted [ctr 10 4294966796, ctr 11 0, ctr 11 4294967000, ctr 12 204] ∧
    (∀ c ∈ [ctr 10 4294966796, ctr 11 0, ctr 11 4294967000, ctr 12 204], isPrep c.cat = false) := by
  refine ⟨?_, ?_, ?_⟩
  · intro c hc
    simp only [List.mem_cons, List.mem_nil_iff, or_false] at hc
    rcases hc with rfl | rfl | rfl | rfl <;> exact ⟨by decide +kernel, by decide +kernel⟩
  · unfold TimeSorted; decide +kernel
  · decide +kernel

example : valid [ctr 10 4294966796, ctr 11 0, ctr 11 4294967000, ctr 12 204] =
    [ctr 10 4294966796, ctr 11 4294967000, ctr 12 204] := by decide +kernel
example : Unclamped [ctr 10 4294966796, ctr 11 4294967000, ctr 12 204] := by
  refine ⟨?_, ?_, trivial⟩ <;> decide +kernel
example : chargeTotal [ctr 10 4294966796, ctr 11 4294967000, ctr 12 204] = 704 := by decide +kernel

/-- extract on two interleaved ranks: per-pid initial zero counter, Prep and short slices dropped -/
example : extractAll [⟨"X", "a Cmpt Exec", 0, some 2, 9, 10, some 1000⟩, ⟨"X", "a Cmpt Prep", 0, some 2, 9, 10, some 1001⟩,
      ⟨"X", "b DmaI", 1, some 2, 4, 5, some 50⟩, ⟨"X", "c DmaO", 0, some (1/16), 11, 12, some 1200⟩,
      ⟨"X", "d Cmpt Exec", 0, some 2, 11, 13, some 1500⟩] =
    .ok [⟨0, "a Cmpt Exec", 9, 9, 0⟩, ⟨0, "a Cmpt Exec", 10, 10, 1000⟩, ⟨1, "b DmaI", 4, 4, 0⟩,
         ⟨1, "b DmaI", 5, 5, 50⟩, ⟨0, "d Cmpt Exec", 13, 13, 1500⟩] := by decide +kernel

/-- **The plausibility bound is exclusive**: a value of exactly 100 W is reported as it is, only values ABOVE
100 W are reported as 0 (`if new_val > 100`), and everything up to the bound passes unchanged. -/
theorem clamp_spec (w : Num) : clamp w = if w ≤ 100 then w else 0 := by
  unfold clamp
  by_cases h : (100 : Num) < w
  · have : ¬ w ≤ 100 := by grind
    simp [h, this]
  · have : w ≤ 100 := by grind
    simp [h, this]

theorem clamp_at_bound : clamp 100 = 100 := by decide +kernel

end C10
end AiuVerif
