/-
C12 — the kernel summary CSVs agree with the exported trace.

Property theorems only; helper lemmas live in `Lemmas/Stats.lean`, the model in `Model/Stats.lean`.
All statements are for arbitrary event streams / slice lists (any number of ranks, names, calls).
The values are the exact ones; the 3- and 2-decimal printing of the files is a tolerance of the
correspondence; the (irrational) StDev column is covered through its square, the sample variance
(`variance_spec`, `variance_sumsq`; the correspondence compares the printed StDev with the square root
of the model's exact variance, see `harness/props/c12.py`).
-/
import AiuVerif.Lemmas.Stats
import Mathlib.Tactic.Ring

namespace AiuVerif.C12
open AiuVerif.Stats

/-- the kernel slices of a stream, as the statement counts them: every `X` event whose name contains
`Cmpt Exec`, in stream order -/
def kernelsOf (evs : List SEv) : List Sl :=
  (evs.filter isKernel).map (fun e => ⟨e.name, e.pid, e.ts, e.dur⟩)

/-- durations, in arrival order, of the slices with masked name / pid `k` -/
def dursWith (sl : List Sl) (k : Key) : List Rat :=
  (sl.filter (fun s => keyOf s = k)).map (fun s => s.dur)

/-- durations of the slices of rank `p` -/
def dursOfPid (sl : List Sl) (p : Int) : List Rat :=
  (sl.filter (fun s => s.pid = p)).map (fun s => s.dur)

theorem select_ok_of (evs : List SEv) (h : ∀ e ∈ evs, isKernel e = true → e.tsOk = true ∧ 0 < e.dur) :
    select evs = .ok (kernelsOf evs) := by
  induction evs with
  | nil => rfl
  | cons e es ih =>
    have ih' := ih (fun x hx => h x (List.mem_cons_of_mem _ hx))
    by_cases hk : isKernel e = true
    · obtain ⟨hok, hd⟩ := h e (by simp) hk
      simp [select, hk, hok, not_le.mpr hd, ih', kernelsOf]
    · have hk' : isKernel e = false := by simpa using hk
      simp [select, hk', ih', kernelsOf]

theorem select_ok_only (evs : List SEv) (sl : List Sl) (h : select evs = .ok sl) :
    ∀ e ∈ evs, isKernel e = true → e.tsOk = true ∧ 0 < e.dur := by
  induction evs generalizing sl with
  | nil => simp
  | cons e es ih =>
    by_cases hk : isKernel e = true
    · by_cases hok : e.tsOk = true
      · by_cases hd : e.dur ≤ 0
        · simp [select, hk, hok, hd] at h
        · cases hs : select es with
          | error x => simp [select, hk, hok, hd, hs] at h
          | ok sl' =>
            intro x hx
            rcases List.mem_cons.mp hx with rfl | hx
            · exact fun _ => ⟨hok, not_le.mp hd⟩
            · exact ih sl' hs x hx
      · simp [select, hk, hok] at h
    · have hk' : isKernel e = false := by simpa using hk
      simp only [select, hk', Bool.false_eq_true, if_false] at h
      intro x hx
      rcases List.mem_cons.mp hx with rfl | hx
      · intro hx'; exact absurd hx' hk
      · exact ih sl h x hx

theorem select_ok_iff (evs : List SEv) (sl : List Sl) :
    select evs = .ok sl ↔
      (∀ e ∈ evs, isKernel e = true → e.tsOk = true ∧ 0 < e.dur) ∧ sl = kernelsOf evs := by
  constructor
  · intro h
    have h1 := select_ok_only evs sl h
    have h2 := select_ok_of evs h1
    rw [h] at h2
    exact ⟨h1, by injection h2⟩
  · rintro ⟨h1, rfl⟩
    exact select_ok_of evs h1

/-- **The stage succeeds exactly when every kernel slice carries its counters and a positive duration,
and then the two files are a function of the kernel slices of the stream — no `Cmpt Exec` slice is left
out of the statistics and nothing else enters them.** -/
theorem run_ok_iff (evs : List SEv) (out : Out) :
    run evs = .ok out ↔
      (∀ e ∈ evs, isKernel e = true → e.tsOk = true ∧ 0 < e.dur) ∧ out = outOf (kernelsOf evs) := by
  unfold run
  cases hs : select evs with
  | error x =>
    have := (select_ok_iff evs (kernelsOf evs)).not.mp (by simp [hs])
    constructor
    · intro h; cases h
    · rintro ⟨h1, _⟩; exact absurd ⟨h1, rfl⟩ this
  | ok sl =>
    obtain ⟨h1, h2⟩ := (select_ok_iff evs sl).mp hs
    subst h2
    simp only [Except.ok.injEq]
    exact ⟨fun h => ⟨h1, h.symm⟩, fun h => h.2.symm⟩

/-- **Grouping is a partition of the kernel slices** (clause "no kernel slice is omitted from or counted
twice"): the group keys are pairwise distinct, every slice's (masked name, pid) key has a group, the
calls of all groups add up to the number of slices and their totals to the sum of all durations. -/
theorem groups_partition (sl : List Sl) :
    (keys (collect sl)).Nodup ∧ (∀ s ∈ sl, keyOf s ∈ keys (collect sl)) ∧
    ((collect sl).map (fun g => g.durs.length)).sum = sl.length ∧
    ((collect sl).map (fun g => g.durs.sum)).sum = (sl.map (fun s => s.dur)).sum := by
  refine ⟨nodup_keys_foldl sl [] (by simp [keys]), ?_, ?_, ?_⟩
  · intro s hs
    exact (mem_keys_foldl sl [] _).mpr (Or.inr ⟨s, hs, rfl⟩)
  · have := measure_foldl (β := Nat) List.length (fun _ => 1) rfl (fun l x => by simp) (fun _ => true) sl []
    simpa [collect] using this
  · have := measure_foldl (β := Rat) List.sum id rfl (fun l x => by simp) (fun _ => true) sl []
    simpa [collect] using this

/-- each group holds exactly the durations of the slices with its key, in arrival order, and is
non-empty (so `min`, `max`, `statistics.mean/median` never see an empty list) -/
theorem group_durs_spec (sl : List Sl) (g : Grp) (hg : g ∈ collect sl) :
    g.durs = dursWith sl g.key ∧ g.durs ≠ [] := by
  have hnd : (keys (collect sl)).Nodup := nodup_keys_foldl sl [] (by simp [keys])
  have h1 : g.durs = dursWith sl g.key := by
    rw [← dursOf_of_mem _ hnd g hg]
    simp [collect, dursOf_foldl, dursOf, dursWith]
  refine ⟨h1, ?_⟩
  have hk : g.key ∈ keys (collect sl) := List.mem_map_of_mem (f := fun g => g.key) hg
  rcases (mem_keys_foldl sl [] g.key).mp hk with h | ⟨s, hs, hks⟩
  · simp [keys] at h
  · rw [h1]
    intro hnil
    have : s.dur ∈ dursWith sl g.key :=
      List.mem_map_of_mem (f := fun s => s.dur) (List.mem_filter.mpr ⟨hs, by simpa using hks⟩)
    rw [hnil] at this
    simp at this

/-- **Summary file: the rows are the groups** — the Calls column adds up to the number of kernel slices and
the Total column to the sum of their durations. -/
theorem rows_partition (sl : List Sl) :
    ((outOf sl).rows.map (fun r => r.calls)).sum = sl.length ∧
    ((outOf sl).rows.map (fun r => r.total)).sum = (sl.map (fun s => s.dur)).sum := by
  have hp := summaryRows_perm (collect sl)
  obtain ⟨_, _, h3, h4⟩ := groups_partition sl
  constructor
  · rw [← h3]
    have := (hp.map (fun r => r.calls)).sum_nat
    simpa [outOf, List.map_map, Function.comp_def, rowOf, mkRow] using this
  · rw [← h4]
    have := (hp.map (fun r => r.total)).sum_eq
    simpa [outOf, List.map_map, Function.comp_def, rowOf, mkRow] using this

/-- **Every row is recomputable from the trace**: its Calls, Total, Mean, Median, Min, Max are those of the
durations of the slices with the row's masked name and pid, and its share is that total over the total
of the rank, times 100. -/
theorem row_spec (sl : List Sl) (r : Row) (hr : r ∈ (outOf sl).rows) :
    dursWith sl (r.name, r.pid) ≠ [] ∧
    r.calls = (dursWith sl (r.name, r.pid)).length ∧
    r.total = (dursWith sl (r.name, r.pid)).sum ∧
    r.mean = mean (dursWith sl (r.name, r.pid)) ∧
    r.median = median (dursWith sl (r.name, r.pid)) ∧
    r.min = minL (dursWith sl (r.name, r.pid)) ∧
    r.max = maxL (dursWith sl (r.name, r.pid)) ∧
    r.share = r.total / (dursOfPid sl r.pid).sum * 100 ∧
    r.var = variance (dursWith sl (r.name, r.pid)) := by
  have hp := summaryRows_perm (collect sl)
  have hr' : r ∈ (collect sl).map (rowOf (collect sl)) := hp.mem_iff.mp hr
  obtain ⟨g, hg, rfl⟩ := List.mem_map.mp hr'
  obtain ⟨h1, h2⟩ := group_durs_spec sl g hg
  have hk : ((rowOf (collect sl) g).name, (rowOf (collect sl) g).pid) = g.key := rfl
  rw [hk, ← h1]
  refine ⟨h2, rfl, rfl, rfl, rfl, rfl, rfl, ?_, rfl⟩
  simp [rowOf, mkRow, pidTotal_collect, dursOfPid]

/-- **Each (masked name, pid) has exactly one row**: row keys are pairwise distinct and every kernel
slice's key occurs. -/
theorem rows_cover (sl : List Sl) :
    ((outOf sl).rows.map (fun r => (r.name, r.pid))).Nodup ∧
    ∀ s ∈ sl, keyOf s ∈ (outOf sl).rows.map (fun r => (r.name, r.pid)) := by
  have hp := (summaryRows_perm (collect sl)).map (fun r => (r.name, r.pid))
  have he : ((collect sl).map (rowOf (collect sl))).map (fun r => (r.name, r.pid)) = keys (collect sl) := by
    simp [List.map_map, Function.comp_def, rowOf, mkRow, keys]
  rw [he] at hp
  obtain ⟨h1, h2, _, _⟩ := groups_partition sl
  exact ⟨hp.nodup_iff.mpr h1, fun s hs => hp.mem_iff.mpr (h2 s hs)⟩

/-- Mean × Calls = Total -/
theorem mean_mul_calls (l : List Rat) (h : l ≠ []) : mean l * (l.length : Rat) = l.sum := by
  have := length_pos_rat l h
  unfold mean
  field_simp

/-- Min and Max are attained and bound every duration; Min ≤ Mean ≤ Max -/
theorem min_le_mean_le_max (l : List Rat) (h : l ≠ []) :
    minL l ∈ l ∧ maxL l ∈ l ∧ (∀ x ∈ l, minL l ≤ x ∧ x ≤ maxL l) ∧ minL l ≤ mean l ∧ mean l ≤ maxL l := by
  have hn := length_pos_rat l h
  refine ⟨minL_mem l h, maxL_mem l h, fun x hx => ⟨minL_le l x hx, le_maxL l x hx⟩, ?_, ?_⟩
  · unfold mean
    rw [le_div_iff₀ hn]
    have := sum_ge_of_forall_ge l (minL l) (minL_le l)
    linarith
  · unfold mean
    rw [div_le_iff₀ hn]
    have := sum_le_of_forall_le l (maxL l) (le_maxL l)
    linarith

/-! ### StDev² (the sample variance; `statistics.stdev` itself is irrational) -/

theorem sum_sq_nonneg (l : List Rat) (m : Rat) : 0 ≤ (l.map (fun x => (x - m) * (x - m))).sum := by
  induction l with
  | nil => simp
  | cons x xs ih =>
    simp only [List.map_cons, List.sum_cons]
    have := mul_self_nonneg (x - m)
    linarith

theorem sum_sq_eq_zero (l : List Rat) (m : Rat) (h : (l.map (fun x => (x - m) * (x - m))).sum = 0) :
    ∀ x ∈ l, x = m := by
  induction l with
  | nil => simp
  | cons y ys ih =>
    simp only [List.map_cons, List.sum_cons] at h
    have h1 := mul_self_nonneg (y - m)
    have h2 := sum_sq_nonneg ys m
    have hy : (y - m) * (y - m) = 0 := by linarith
    have hys : (ys.map (fun x => (x - m) * (x - m))).sum = 0 := by linarith
    intro x hx
    rcases List.mem_cons.mp hx with rfl | hx
    · have := mul_self_eq_zero.mp hy
      linarith
    · exact ih hys x hx

/-- **StDev² of a single call is 0** (the code's `else: stdev = 0.0` branch), **never negative**, and
**0 exactly when all calls of the kernel took the same time**. -/
theorem variance_spec (l : List Rat) :
    (l.length ≤ 1 → variance l = 0) ∧ 0 ≤ variance l ∧
    (2 ≤ l.length → (variance l = 0 ↔ ∀ x ∈ l, x = mean l)) := by
  refine ⟨fun h => by simp [variance, h], ?_, fun h2 => ?_⟩
  · unfold variance
    split
    · exact le_refl 0
    · rename_i hlen
      have hn : (0 : Rat) < (l.length : Rat) - 1 := by
        have : (2 : Rat) ≤ (l.length : Rat) := by exact_mod_cast (by omega : 2 ≤ l.length)
        linarith
      exact div_nonneg (sum_sq_nonneg l (mean l)) (le_of_lt hn)
  · have hlen : ¬ l.length ≤ 1 := by omega
    have hn : (0 : Rat) < (l.length : Rat) - 1 := by
      have : (2 : Rat) ≤ (l.length : Rat) := by exact_mod_cast h2
      linarith
    simp only [variance, hlen, if_false]
    constructor
    · intro h
      have : (l.map (fun x => (x - mean l) * (x - mean l))).sum = 0 := by
        rcases div_eq_zero_iff.mp h with h | h
        · exact h
        · linarith
      exact sum_sq_eq_zero l (mean l) this
    · intro h
      have : (l.map (fun x => (x - mean l) * (x - mean l))).sum = 0 := by
        have : l.map (fun x => (x - mean l) * (x - mean l)) = l.map (fun _ => (0 : Rat)) := by
          apply List.map_congr_left
          intro x hx
          rw [h x hx]; ring
        rw [this]; simp
      rw [this]; simp

/-- **StDev² from the printed columns**: `(n − 1) · StDev² = Σ dᵢ² − Calls · Mean²` -/
theorem variance_sumsq (l : List Rat) (h2 : 2 ≤ l.length) :
    ((l.length : Rat) - 1) * variance l = (l.map (fun x => x * x)).sum - (l.length : Rat) * (mean l * mean l) := by
  have hlen : ¬ l.length ≤ 1 := by omega
  have hn : ((l.length : Rat) - 1) ≠ 0 := by
    have : (2 : Rat) ≤ (l.length : Rat) := by exact_mod_cast h2
    intro h; linarith
  have hne : l ≠ [] := by intro h; simp [h] at h2
  simp only [variance, hlen, if_false]
  rw [mul_div_cancel₀ _ hn]
  have hm := mean_mul_calls l hne
  have key : ∀ (xs : List Rat) (m : Rat), (xs.map (fun x => (x - m) * (x - m))).sum
      = (xs.map (fun x => x * x)).sum - 2 * m * xs.sum + (xs.length : Rat) * (m * m) := by
    intro xs m
    induction xs with
    | nil => simp
    | cons x xs ih =>
      simp only [List.map_cons, List.sum_cons, List.length_cons, ih]
      push_cast
      ring
  rw [key l (mean l), ← hm]
  ring

/-- **Median, characterised by counting**: at least half of the durations are ≤ the median and at least
half are ≥ it. -/
theorem median_spec (l : List Rat) (h : l ≠ []) :
    l.length ≤ 2 * l.countP (fun x => decide (x ≤ median l)) ∧
    l.length ≤ 2 * l.countP (fun x => decide (median l ≤ x)) := by
  obtain ⟨a, b, ha, hb, hab, h1, h2, h3, h4⟩ := median_mid l h
  have hperm := sortAsc_perm l
  have hlen : (sortAsc l).length = l.length := hperm.length_eq
  constructor
  · rw [← hperm.countP_eq, ← hlen]
    have := countP_ge_prefix (sortAsc l) (fun x => decide (x ≤ median l)) (a + 1) (by omega)
      (fun i hi hia => by
        have := sortAsc_mono l i a hi ha (by omega)
        simpa using le_trans this h3)
    omega
  · rw [← hperm.countP_eq, ← hlen]
    have := countP_ge_suffix (sortAsc l) (fun x => decide (median l ≤ x)) b
      (fun i hi hbi => by
        have := sortAsc_mono l b i hb hi hbi
        simpa using le_trans h4 this)
    omega

/-- Min ≤ Median ≤ Max -/
theorem median_between (l : List Rat) (h : l ≠ []) : minL l ≤ median l ∧ median l ≤ maxL l := by
  obtain ⟨a, b, ha, hb, _, _, _, h3, h4⟩ := median_mid l h
  have hperm := sortAsc_perm l
  have hma : (sortAsc l)[a] ∈ l := hperm.mem_iff.mp (List.getElem_mem ha)
  have hmb : (sortAsc l)[b] ∈ l := hperm.mem_iff.mp (List.getElem_mem hb)
  exact ⟨le_trans (minL_le l _ hma) h3, le_trans h4 (le_maxL l _ hmb)⟩

theorem sum_map_div_mul {α : Type} (l : List α) (f : α → Rat) (T c : Rat) :
    (l.map (fun x => f x / T * c)).sum = (l.map f).sum / T * c := by
  induction l with
  | nil => simp
  | cons a t ih => simp only [List.map_cons, List.sum_cons, ih]; ring

theorem sum_pos_of_pos (l : List Rat) (h : l ≠ []) (hp : ∀ x ∈ l, 0 < x) : 0 < l.sum := by
  have h1 := sum_ge_of_forall_ge l (minL l) (minL_le l)
  have h2 := hp _ (minL_mem l h)
  have h3 := length_pos_rat l h
  have : 0 < (l.length : Rat) * minL l := mul_pos h3 h2
  linarith

/-- **The Time column of a rank sums to 100 %** (before the 2-decimal rounding), for every rank that has a
kernel slice; the rank total it divides by is positive, so the division is never by zero. -/
theorem shares_sum_100 (sl : List Sl) (hpos : ∀ s ∈ sl, 0 < s.dur) (p : Int) (hp : ∃ s ∈ sl, s.pid = p) :
    0 < (dursOfPid sl p).sum ∧
    (((outOf sl).rows.filter (fun r => r.pid = p)).map (fun r => r.share)).sum = 100 := by
  obtain ⟨s0, hs0, hps0⟩ := hp
  have hT : 0 < (dursOfPid sl p).sum := by
    apply sum_pos_of_pos
    · intro hnil
      have : s0.dur ∈ dursOfPid sl p :=
        List.mem_map_of_mem (f := fun s => s.dur) (List.mem_filter.mpr ⟨hs0, by simpa using hps0⟩)
      rw [hnil] at this; simp at this
    · intro x hx
      obtain ⟨s, hs, rfl⟩ := List.mem_map.mp hx
      exact hpos s (List.mem_filter.mp hs).1
  refine ⟨hT, ?_⟩
  have hperm := ((summaryRows_perm (collect sl)).filter (fun r => decide (r.pid = p))).map (fun r => r.share)
  have hsum := hperm.sum_eq
  have he : (((collect sl).map (rowOf (collect sl))).filter (fun r => decide (r.pid = p))).map (fun r => r.share) =
      (groupsOf (collect sl) p).map (fun g => g.durs.sum / pidTotal (collect sl) p * 100) := by
    rw [List.filter_map, List.map_map]
    apply List.map_congr_left
    intro g hg
    have : g.key.2 = p := by
      have h := (List.mem_filter.mp hg).2
      exact of_decide_eq_true h
    simp [rowOf, mkRow, this]
  have hout : (outOf sl).rows = summaryRows (collect sl) := rfl
  rw [hout, hsum, he, sum_map_div_mul]
  have hTT : ((groupsOf (collect sl) p).map (fun g => g.durs.sum)).sum = pidTotal (collect sl) p := rfl
  rw [hTT, pidTotal_collect]
  have hT' : ((sl.filter (fun s => s.pid = p)).map (fun s => s.dur)).sum ≠ 0 := ne_of_gt hT
  field_simp

theorem pid_mem_iff (sl : List Sl) (p : Int) :
    p ∈ pidsOf ((collect sl).map (fun g => g.key.2)) ↔ ∃ s ∈ sl, s.pid = p := by
  rw [mem_pidsOf]
  constructor
  · intro h
    obtain ⟨g, hg, rfl⟩ := List.mem_map.mp h
    have hk : g.key ∈ keys (collect sl) := List.mem_map_of_mem (f := fun g => g.key) hg
    rcases (mem_keys_foldl sl [] g.key).mp hk with h | ⟨s, hs, hks⟩
    · simp [keys] at h
    · exact ⟨s, hs, by rw [← hks]; rfl⟩
  · rintro ⟨s, hs, rfl⟩
    have := (groups_partition sl).2.1 s hs
    obtain ⟨g, hg, hgk⟩ := List.mem_map.mp this
    exact List.mem_map.mpr ⟨g, hg, by rw [hgk]; rfl⟩

/-- **Active file**: one row per rank that has a kernel slice, ranks ascending; the row reports the sum of
the rank's kernel durations, `elapsed = end - start > 0` (never a division by zero), `active = total /
elapsed · 100`; `start` is a lower bound of the rank's slice starts and `end` an upper bound of their
ends, and they are the earliest start / latest end whenever `start ≤ 1e30` resp. some end is `≥ 0`
(the initial values of `update_min_ts` / `update_max_ts`). -/
theorem elapsed_active_spec (sl : List Sl) (hpos : ∀ s ∈ sl, 0 < s.dur) :
    ((outOf sl).active.map (fun a => a.pid)).Pairwise (· < ·) ∧
    (∀ p, p ∈ (outOf sl).active.map (fun a => a.pid) ↔ ∃ s ∈ sl, s.pid = p) ∧
    ∀ a ∈ (outOf sl).active,
      a.total = (dursOfPid sl a.pid).sum ∧ a.elapsed = a.stop - a.start ∧ 0 < a.elapsed ∧
      a.active = a.total / a.elapsed * 100 ∧
      (∀ s ∈ sl, s.pid = a.pid → a.start ≤ s.ts ∧ s.ts + s.dur ≤ a.stop) ∧
      ((∀ s ∈ sl, s.pid = a.pid → s.ts ≤ (10 : Rat) ^ 30) → ∃ s ∈ sl, s.pid = a.pid ∧ a.start = s.ts) ∧
      ((∃ s ∈ sl, s.pid = a.pid ∧ 0 ≤ s.ts + s.dur) → ∃ s ∈ sl, s.pid = a.pid ∧ a.stop = s.ts + s.dur) := by
  have hpids : (outOf sl).active.map (fun a => a.pid) = pidsOf ((collect sl).map (fun g => g.key.2)) := by
    simp [outOf, activeRows, List.map_map, Function.comp_def, mkARow]
  refine ⟨hpids ▸ pairwise_pidsOf _, fun p => by rw [hpids]; exact pid_mem_iff sl p, ?_⟩
  intro a ha
  obtain ⟨p, hp, rfl⟩ := List.mem_map.mp (show a ∈ (pidsOf ((collect sl).map (fun g => g.key.2))).map
    (mkARow sl (collect sl)) from ha)
  obtain ⟨s0, hs0, hps0⟩ := (pid_mem_iff sl p).mp hp
  have hpid : (mkARow sl (collect sl) p).pid = p := rfl
  have hmin := foldl_min_le ((sl.filter (fun s => s.pid = p)).map (fun s => s.ts)) ((10 : Rat) ^ 30)
  have hmax := le_foldl_max ((sl.filter (fun s => s.pid = p)).map (fun s => s.ts + s.dur)) 0
  have hlo : ∀ s ∈ sl, s.pid = p → minTs sl p ≤ s.ts := fun s hs hsp =>
    hmin.2 _ (List.mem_map_of_mem (f := fun s => s.ts) (List.mem_filter.mpr ⟨hs, by simpa using hsp⟩))
  have hhi : ∀ s ∈ sl, s.pid = p → s.ts + s.dur ≤ maxTs sl p := fun s hs hsp =>
    hmax.2 _ (List.mem_map_of_mem (f := fun s => s.ts + s.dur) (List.mem_filter.mpr ⟨hs, by simpa using hsp⟩))
  have htot : (mkARow sl (collect sl) p).total = (dursOfPid sl p).sum := by
    have h1 := ((rowsOfPid_perm (collect sl) p).map (fun r => r.total)).sum_eq
    have h2 : ((groupsOf (collect sl) p).map (rowOf (collect sl))).map (fun r => r.total) =
        (groupsOf (collect sl) p).map (fun g => g.durs.sum) := by
      simp [List.map_map, Function.comp_def, rowOf, mkRow]
    show ((rowsOfPid (collect sl) p).map (fun r => r.total)).sum = _
    rw [h1, h2]
    exact pidTotal_collect sl p
  rw [hpid]
  refine ⟨htot, rfl, ?_, rfl, fun s hs hsp => ⟨hlo s hs hsp, hhi s hs hsp⟩, ?_, ?_⟩
  · show 0 < maxTs sl p - minTs sl p
    have := hlo s0 hs0 hps0
    have := hhi s0 hs0 hps0
    have := hpos s0 hs0
    linarith
  · intro hb
    rcases foldl_min_mem ((sl.filter (fun s => s.pid = p)).map (fun s => s.ts)) ((10 : Rat) ^ 30) with e | e
    · refine ⟨s0, hs0, hps0, ?_⟩
      have h1 := hlo s0 hs0 hps0
      have h2 := hb s0 hs0 hps0
      have h3 : minTs sl p = (10 : Rat) ^ 30 := e
      show minTs sl p = s0.ts
      linarith
    · obtain ⟨s, hs, hse⟩ := List.mem_map.mp e
      obtain ⟨hs1, hs2⟩ := List.mem_filter.mp hs
      exact ⟨s, hs1, by simpa using hs2, hse.symm⟩
  · rintro ⟨s1, hs1, hps1, h0⟩
    rcases foldl_max_mem ((sl.filter (fun s => s.pid = p)).map (fun s => s.ts + s.dur)) 0 with e | e
    · refine ⟨s1, hs1, hps1, ?_⟩
      have h1 := hhi s1 hs1 hps1
      have h3 : maxTs sl p = 0 := e
      show maxTs sl p = s1.ts + s1.dur
      linarith
    · obtain ⟨s, hs, hse⟩ := List.mem_map.mp e
      obtain ⟨hs1', hs2⟩ := List.mem_filter.mp hs
      exact ⟨s, hs1', by simpa using hs2, hse.symm⟩

/-- **Row order of the summary file**: ranks ascending, and within a rank totals non-increasing. -/
theorem rows_ordered (sl : List Sl) :
    (outOf sl).rows.Pairwise (fun r1 r2 => r1.pid < r2.pid ∨ (r1.pid = r2.pid ∧ r2.total ≤ r1.total)) := by
  show (summaryRows (collect sl)).Pairwise _
  unfold summaryRows
  rw [List.pairwise_flatMap]
  have hpidrow : ∀ p, ∀ r ∈ rowsOfPid (collect sl) p, r.pid = p := by
    intro p r hr
    obtain ⟨g, hg, rfl⟩ := List.mem_map.mp hr
    have hg' : g ∈ groupsOf (collect sl) p := List.mem_mergeSort.mp hg
    simpa [groupsOf, mkRow] using (List.mem_filter.mp hg').2
  constructor
  · intro p _
    have hs : ((groupsOf (collect sl) p).mergeSort geTotal).Pairwise (fun a b => geTotal a b = true) :=
      List.pairwise_mergeSort
        (fun a b c h1 h2 => by simp only [geTotal, decide_eq_true_eq] at *; exact le_trans h2 h1)
        (fun a b => by simp only [geTotal, Bool.or_eq_true, decide_eq_true_eq]; exact le_total _ _) _
    unfold rowsOfPid
    rw [List.pairwise_map]
    refine hs.imp_of_mem ?_
    intro a b ha hb hab
    right
    have hga : a.key.2 = p := by
      simpa [groupsOf] using (List.mem_filter.mp (List.mem_mergeSort.mp ha)).2
    have hgb : b.key.2 = p := by
      simpa [groupsOf] using (List.mem_filter.mp (List.mem_mergeSort.mp hb)).2
    exact ⟨by simp [mkRow, hga, hgb], by simpa [geTotal, mkRow] using hab⟩
  · refine (pairwise_pidsOf _).imp ?_
    intro p q hpq x hx y hy
    left
    rw [hpidrow p x hx, hpidrow q y hy]
    exact hpq

/-! ### non-vacuity: a concrete stream with two spellings of one kernel, a second kernel and a second rank -/

def exEvs : List SEv :=
  [⟨"X", "mm_0 Cmpt Exec", 0, 100, 60, true⟩, ⟨"X", "mm-17 Cmpt Exec", 0, 200, 30, true⟩,
   ⟨"X", "conv2d Cmpt Exec", 0, 300, 10, true⟩, ⟨"X", "mm_0 Cmpt Prep", 0, 90, 5, false⟩,
   ⟨"C", "Power", 0, 90, 0, false⟩, ⟨"X", "mm_3 Cmpt Exec", 1, 50, 8, true⟩]

example : (∀ e ∈ exEvs, isKernel e = true → e.tsOk = true ∧ 0 < e.dur) := by decide
example : (kernelsOf exEvs).length = 4 := by decide
example : keys (collect (kernelsOf exEvs)) =
    [("mm_[N] Cmpt Exec", 0), ("conv2d Cmpt Exec", 0), ("mm_[N] Cmpt Exec", 1)] := by decide
example : ∀ s ∈ kernelsOf exEvs, 0 < s.dur := by decide
example : ∃ s ∈ kernelsOf exEvs, s.pid = 0 := by decide
example : dursWith (kernelsOf exEvs) ("mm_[N] Cmpt Exec", 0) = [60, 30] := by decide
example : ∀ s ∈ kernelsOf exEvs, s.ts ≤ (10 : Rat) ^ 30 := by decide
def errOf (r : Except String Out) : String :=
  match r with
  | .error e => e
  | .ok _ => "ok"
/-- the error branches are reachable -/
example : errOf (run [⟨"X", "a Cmpt Exec", 0, 1, 0, true⟩]) = "assert" := by decide
example : errOf (run [⟨"X", "a Cmpt Exec", 0, 1, 0, false⟩]) = "keyerror" := by decide
example : errOf (run exEvs) = "ok" := by decide

end AiuVerif.C12
