/-
C05 — the 32-bit cycle-counter wrap correction is consistent across all events of a rank.

Property theorems only; model in `Model/Normalize.lean`, helper lemmas and the ground-truth vocabulary
(`TrueEv`, `Item`, `observe`, `expected`) in `Lemmas/Normalize.lean`.

Setting of every theorem: an arbitrary input stream `items` (any length, any number of ranks, device slices and
host events interleaved in any order), an arbitrary frequency `f > 0`, an arbitrary host/device offset `T0 pid`
per rank.  A device slice is given by its *true* unwrapped counters `c1 ≤ c2 ≤ … ≤ c5`, `c5 - c1 < 2^32`
(`TrueEv.Valid`); the tracer records `c mod 2^32` and the host time `T0 pid + C_ref / f` of the counter
`_get_ref_ts` names (`observe`).  Guards of the code on this path (stated as hypotheses, the excluded branch is
`zerodiv_branch`): every event intersects the default event window (`withinLimits`), `frequency_stats` does not
divide by zero (`execCrash = false`: no `Cmpt Exec` slice of zero host duration).
-/
import AiuVerif.Lemmas.Normalize

namespace AiuVerif
namespace C05
open AiuVerif.Normalize AiuVerif.PhaseName

/-- `K` is the smallest epoch number `⌊C1 / 2^32⌋` among the device slices of pid `p` in the stream -/
def IsKmin (items : List Item) (p : Int) (K : Int) : Prop :=
  (∃ t, Item.dev t ∈ items ∧ t.pid = p ∧ K = t.c1 / M32) ∧
    ∀ t, Item.dev t ∈ items → t.pid = p → K ≤ t.c1 / M32

/-- **Phase 1, intra-event clause.** Wherever the wrap falls inside a slice, the local fix returns the true
counters minus exactly `⌊C1/2^32⌋` periods (hence non-decreasing and congruent to the input). -/
theorem localFix_true (t : TrueEv) (h : t.Valid) :
    localFix (t.C.map (· % M32)) = t.C.map (· - t.c1 / M32 * M32) :=
  localFix_trueEv t h

/-- **Phase 1, reference epoch.** After phase 1 has seen the whole stream (which is what the barrier guarantees
before the first phase-2 call) the reference of every rank that has a device slice is the host time at which the
earliest epoch of that rank started: `T0 + Kmin · 2^32 / f`; input order is irrelevant. -/
theorem epoch_final {f : Rat} (hf : 0 < f) (T0 : Int → Rat) (items : List Item)
    (hv : ∀ it ∈ items, it.Valid)
    (hkeep : ∀ it ∈ items, withinLimits (observe f T0 it) = true)
    (hexec : execCrash (items.map (observe f T0)) = false) :
    ∃ c held, phase1 f Ctx.empty (items.map (observe f T0)) = .ok (c, held) ∧
      ∀ t, Item.dev t ∈ items →
        ∃ K, IsKmin items t.pid K ∧ c.epoch t.pid = some (T0 t.pid + (K : Rat) * (M32 : Rat) / f) := by
  have h1 := phase1_ok f (items.map (observe f T0)) Ctx.empty
    (by intro e he; obtain ⟨it, hit, rfl⟩ := List.mem_map.mp he; exact hkeep it hit)
    (by intro e he; obtain ⟨it, hit, rfl⟩ := List.mem_map.mp he; exact refOk_observe f T0 it (hv it hit))
    hexec
  refine ⟨_, _, h1, ?_⟩
  intro t ht
  have hinv := epochFold_items hf T0 t.pid items hv (fun _ => none) [] (Or.inl ⟨rfl, rfl⟩)
  simp only [List.nil_append] at hinv
  rcases hinv with ⟨hnil, _⟩ | ⟨K, hK, hmin, hm⟩
  · have : t.c1 / M32 ∈ qs t.pid items := mem_qs.mpr ⟨t, ht, rfl, rfl⟩
    simp [hnil] at this
  · refine ⟨K, ⟨mem_qs.mp hK, ?_⟩, hm⟩
    intro u hu hup
    exact hmin _ (mem_qs.mpr ⟨u, hu, hup, rfl⟩)

/-- **Headline (`wrap_consistent`).** For every stream the four-stage pipeline does not raise and its output is,
event by event and in input order, the input with the counters of every device slice replaced by
*true counter − K(pid)·2^32*, for one `K(pid)` per rank — the smallest epoch number of that rank — wherever a
wrap falls (between events, between TS1 and the phase start, inside the phase); `OVC = ⌊C1/2^32⌋ − K(pid)`;
host events are returned unchanged. -/
theorem wrap_consistent {f : Rat} (hf : 0 < f) (T0 : Int → Rat) (ic : Bool) (items : List Item)
    (hv : ∀ it ∈ items, it.Valid)
    (hkeep : ∀ it ∈ items, withinLimits (observe f T0 it) = true)
    (hexec : execCrash (items.map (observe f T0)) = false) :
    ∃ K : Int → Int,
      (∀ t, Item.dev t ∈ items → IsKmin items t.pid (K t.pid)) ∧
      pipeline f ic (items.map (observe f T0)) = .ok (items.map (expected f T0 K)) := by
  have h1 := phase1_ok f (items.map (observe f T0)) Ctx.empty
    (by intro e he; obtain ⟨it, hit, rfl⟩ := List.mem_map.mp he; exact hkeep it hit)
    (by intro e he; obtain ⟨it, hit, rfl⟩ := List.mem_map.mp he; exact refOk_observe f T0 it (hv it hit))
    hexec
  have hall : ∀ p : Int, ∃ K : Int, qs p items ≠ [] →
      (K ∈ qs p items ∧ (∀ k ∈ qs p items, K ≤ k) ∧
        epochFold f (fun _ => none) (items.map (observe f T0)) p = some (T0 p + (K : Rat) * (M32 : Rat) / f)) := by
    intro p
    have hinv := epochFold_items hf T0 p items hv (fun _ => none) [] (Or.inl ⟨rfl, rfl⟩)
    simp only [List.nil_append] at hinv
    rcases hinv with ⟨hnil, _⟩ | ⟨K, hK, hmin, hm⟩
    · exact ⟨0, fun h => absurd hnil h⟩
    · exact ⟨K, fun _ => ⟨hK, hmin, hm⟩⟩
  choose K hKspec using hall
  have hdev : ∀ t, Item.dev t ∈ items → qs t.pid items ≠ [] := by
    intro t ht hnil
    have : t.c1 / M32 ∈ qs t.pid items := mem_qs.mpr ⟨t, ht, rfl, rfl⟩
    simp [hnil] at this
  refine ⟨K, ?_, ?_⟩
  · intro t ht
    obtain ⟨hK, hmin, _⟩ := hKspec t.pid (hdev t ht)
    exact ⟨mem_qs.mp hK, fun u hu hup => hmin _ (mem_qs.mpr ⟨u, hu, hup, rfl⟩)⟩
  · rw [pipeline, pipelineWith, h1]
    simp only [List.map_map]
    apply mapE_map
    intro it hit
    cases it with
    | other e =>
      have he : e.tsx = none := hv _ hit
      simpa [observe, expected] using post_other f ic _ e he
    | dev t =>
      obtain ⟨hK, hmin, hm⟩ := hKspec t.pid (hdev t hit)
      have hle : K t.pid ≤ t.c1 / M32 := hmin _ (mem_qs.mpr ⟨t, hit, rfl, rfl⟩)
      have := post_dev hf T0 t (hv _ hit) ⟨_⟩ (K t.pid) hle hm ic
      simpa [expected, Ctx.empty] using this

/-- **The clauses of the statement, read off the output.** Under the hypotheses of `wrap_consistent` the run
succeeds, keeps every event at its position, and for every device slice the exported counters are
(a) non-decreasing, (b) congruent to the recorded 32-bit values modulo 2^32, (c) the true counters minus
`K(pid)·2^32` with `K` depending on the rank only. -/
theorem wrap_consistent_props {f : Rat} (hf : 0 < f) (T0 : Int → Rat) (ic : Bool) (items : List Item)
    (hv : ∀ it ∈ items, it.Valid)
    (hkeep : ∀ it ∈ items, withinLimits (observe f T0 it) = true)
    (hexec : execCrash (items.map (observe f T0)) = false) :
    ∃ (K : Int → Int) (out : List Ev),
      pipeline f ic (items.map (observe f T0)) = .ok out ∧ out.length = items.length ∧
      ∀ (i : Nat) (t : TrueEv), items[i]? = some (.dev t) →
        ∃ o cs, out[i]? = some o ∧ o.uid = t.uid ∧ o.tsx = some cs ∧
          cs.Pairwise (· ≤ ·) ∧
          cs.map (· % M32) = t.C.map (· % M32) ∧
          cs = t.C.map (· - K t.pid * M32) := by
  obtain ⟨K, _, hp⟩ := wrap_consistent hf T0 ic items hv hkeep hexec
  refine ⟨K, _, hp, by simp, ?_⟩
  intro i t hi
  have hmem : Item.dev t ∈ items := List.mem_of_getElem? hi
  refine ⟨expected f T0 K (.dev t), t.C.map (· - K t.pid * M32), by simp [hi], rfl, rfl, ?_, ?_, rfl⟩
  · exact pairwise_shift _ _ (hv _ hmem).mono
  · rw [List.map_map]
    apply List.map_congr_left
    intro a _
    simp only [Function.comp]
    unfold M32
    omega

/-- **Consequence: ordering.** For two device slices of the same rank, comparing any two exported counters gives
the same answer as comparing the true counters — sorting a rank's events by corrected counters is sorting them by
true device time. -/
theorem order_by_corrected_eq_order_by_true {f : Rat} (hf : 0 < f) (T0 : Int → Rat) (ic : Bool)
    (items : List Item)
    (hv : ∀ it ∈ items, it.Valid)
    (hkeep : ∀ it ∈ items, withinLimits (observe f T0 it) = true)
    (hexec : execCrash (items.map (observe f T0)) = false) :
    ∃ out : List Ev, pipeline f ic (items.map (observe f T0)) = .ok out ∧
      ∀ (i j : Nat) (t u : TrueEv), items[i]? = some (.dev t) → items[j]? = some (.dev u) → t.pid = u.pid →
        ∃ ct cu, (out[i]?.bind (·.tsx)) = some ct ∧ (out[j]?.bind (·.tsx)) = some cu ∧
          ∀ (k l : Nat) (x y : Int), t.C[k]? = some x → u.C[l]? = some y →
            ∃ x' y', ct[k]? = some x' ∧ cu[l]? = some y' ∧ (x' ≤ y' ↔ x ≤ y) := by
  obtain ⟨K, _, hp⟩ := wrap_consistent hf T0 ic items hv hkeep hexec
  refine ⟨_, hp, ?_⟩
  intro i j t u hi hj hpid
  refine ⟨t.C.map (· - K t.pid * M32), u.C.map (· - K u.pid * M32), by simp [hi, expected], by simp [hj, expected], ?_⟩
  intro k l x y hx hy
  refine ⟨x - K t.pid * M32, y - K u.pid * M32, by simp [hx], by simp [hy], ?_⟩
  rw [hpid]
  omega

/-- **The excluded branch.** A `Cmpt Exec` slice of zero host duration makes `frequency_stats` divide by zero:
the run aborts in phase 1. -/
theorem zerodiv_branch (f : Rat) (T0 : Int → Rat) (ic : Bool) (items : List Item)
    (hv : ∀ it ∈ items, it.Valid)
    (hkeep : ∀ it ∈ items, withinLimits (observe f T0 it) = true)
    (hexec : execCrash (items.map (observe f T0)) = true) :
    pipeline f ic (items.map (observe f T0)) = .error "zerodiv" := by
  have h1 := phase1_crash f (items.map (observe f T0)) Ctx.empty
    (by intro e he; obtain ⟨it, hit, rfl⟩ := List.mem_map.mp he; exact hkeep it hit)
    (by intro e he; obtain ⟨it, hit, rfl⟩ := List.mem_map.mp he; exact refOk_observe f T0 it (hv it hit))
    hexec
  simp [pipeline, pipelineWith, h1]

/-! ### regression sentinel: the formula before repair d452497 -/

/-- offsets `exported − true` of all counters of all slices -/
def offsets (trueCs : List (List Int)) (out : List Ev) : List Int :=
  (List.zip trueCs out).flatMap fun p =>
    match p.2.tsx with
    | none => []
    | some cs => List.zipWith (· - ·) cs p.1

/-- the run succeeded and all offsets are one multiple of 2^32 -/
def consistentB (trueCs : List (List Int)) : Except String (List Ev) → Bool
  | .error _ => false
  | .ok out =>
    match offsets trueCs out with
    | [] => true
    | d :: ds => d % M32 == 0 && ds.all (· == d)

/-- Prep and Exec slice of one kernel; the wrap lies between TS2 and TS3, i.e. for the Exec slice between TS1
and its phase-start counter TS3 (`harness/props/c05.py: SENTINEL`) -/
def witnessTrue : List (List Int) :=
  [[4294962176, 4294962176, 4294982656, 4295013376, 4295014400],
   [4294962176, 4294962176, 4294982656, 4295013376, 4295014400]]

def witnessIn : List Ev :=
  [{ uid := 1, ph := "X", pid := 0, name := "mm Cmpt Prep", ts := 1000, dur := 40,
     tsx := some [4294962176, 4294962176, 15360, 46080, 47104] },
   { uid := 2, ph := "X", pid := 0, name := "mm Cmpt Exec", ts := 1040, dur := 60,
     tsx := some [4294962176, 4294962176, 15360, 46080, 47104] }]

/-- counting the epochs at the host time of the phase-start counter (the code before the repair) corrects the
Exec slice by one period more than the Prep slice of the same kernel -/
theorem old_formula_wrong : consistentB witnessTrue (pipelineOld 512 false witnessIn) = false := by
  decide +kernel

theorem new_formula_right_on_witness : consistentB witnessTrue (pipeline 512 false witnessIn) = true := by
  decide +kernel

/-! ### non-vacuity: a concrete stream meets every hypothesis of `wrap_consistent` -/

/-- two ranks; rank 0 has a Prep and an Exec slice with the wrap between TS2 and TS3 and an earlier-epoch DmaO
slice arriving last (out of order); a host event in between -/
def demoItems : List Item :=
  [.dev { uid := 1, pid := 0, name := "mm Cmpt Prep", dur := 40, c1 := 4294962176,
          rest := [4294962176, 4294982656, 4295013376, 4295014400] },
   .other { uid := 2, ph := "X", pid := 0, name := "AIU Roundtrip", ts := 5, dur := 7, tsx := none },
   .dev { uid := 3, pid := 0, name := "mm Cmpt Exec", dur := 60, c1 := 4294962176,
          rest := [4294962176, 4294982656, 4295013376, 4295014400] },
   .dev { uid := 4, pid := 1, name := "x DmaI", dur := 1, c1 := 3 * 4294967296 + 5,
          rest := [3 * 4294967296 + 6, 3 * 4294967296 + 6, 3 * 4294967296 + 7, 3 * 4294967296 + 9] },
   .dev { uid := 5, pid := 0, name := "y DmaO", dur := 2, c1 := 100,
          rest := [200, 300, 400, 500] }]

example : ∀ it ∈ demoItems, it.Valid := by
  intro it hit
  simp only [demoItems, List.mem_cons, List.not_mem_nil, or_false] at hit
  rcases hit with rfl | rfl | rfl | rfl | rfl
  all_goals first
    | exact ⟨rfl, by decide, by decide⟩
    | rfl

example : ∀ it ∈ demoItems, withinLimits (observe 512 (fun _ => 1000) it) = true := by
  intro it hit
  simp only [demoItems, List.mem_cons, List.not_mem_nil, or_false] at hit
  rcases hit with rfl | rfl | rfl | rfl | rfl <;> decide +kernel

example : execCrash (demoItems.map (observe 512 (fun _ => 1000))) = false := by
  decide +kernel

/-- on the demo stream the offsets are `K 0 = 0` (the late DmaO slice is in epoch 0) and `K 1 = 3` -/
example : (pipeline 512 false (demoItems.map (observe 512 (fun _ => 1000)))).toOption.map
      (fun out => out.map (fun o => (o.uid, o.ovc))) =
    some [(1, some 0), (2, none), (3, some 0), (4, some 0), (5, some 0)] := by
  decide +kernel

/-- the `zerodiv_branch` hypothesis is satisfiable: a zero-length Exec slice -/
example : execCrash
    ([Item.dev { uid := 1, pid := 0, name := "z Cmpt Exec", dur := 0, c1 := 5, rest := [5, 5, 5, 5] }].map
      (observe 512 (fun _ => 0))) = true := by
  decide +kernel

end C05
end AiuVerif
