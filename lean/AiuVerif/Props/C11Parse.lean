/-
C11 — "given a compiler log with one ideal-cycle table": the table the utilization stage works with is what
`extract_tables` reads out of the log text.  The parser had been outside the model (the harness handed the model
the rows it had written into the generated log); `Model/LogParse.lean` models it character by character and C11's
correspondence compares it with the real `RCUUtilizationContext` on generated log texts.  Theorems, for EVERY
sequence of lines:

* `parsed_tables_wellformed` - no finished table holds a zero cycle count or two rows of one kernel (so the
  hypothesis "listed with non-zero ideal cycles" of the statement is exactly "has a row", and `get_cycles` is a
  function of the kernel name);
* `first_row_wins` - a later row of a listed kernel changes nothing;
* `stops_at_autopilot` - nothing behind a `DSM-AutoPilot BEGIN` line is read;
* `outside_table_ignored` - a line outside a table section that is neither a start marker nor the autopilot line
  leaves the parser state unchanged (free text around the table cannot inject rows).
-/
import AiuVerif.Model.LogParse

namespace AiuVerif.C11
open AiuVerif.LogParse AiuVerif.PhaseName

def TInv (t : Table) : Prop := (∀ p ∈ t.cycles, p.2 ≠ 0) ∧ (t.cycles.map (·.1)).Nodup

theorem empty_inv : TInv Table.empty := ⟨by simp [Table.empty], by simp [Table.empty]⟩

theorem addKernel_inv (t : Table) (k : String) (c : Nat) (cat : String) (h : TInv t) :
    TInv (addKernel t k c cat) := by
  obtain ⟨hz, hn⟩ := h
  unfold addKernel TInv
  by_cases hc : (t.cycles.any (·.1 == k) || c == 0) = true
  · simp only [hc, if_true]; exact ⟨hz, hn⟩
  · simp only [hc]
    simp only [Bool.or_eq_true, not_or, Bool.not_eq_true, List.any_eq_false, beq_iff_eq, beq_eq_false_iff_ne] at hc
    obtain ⟨hk, hc0⟩ := hc
    constructor
    · intro p hp
      rcases List.mem_append.mp hp with hp | hp
      · exact hz p hp
      · simp only [List.mem_cons, List.mem_nil_iff, or_false] at hp; subst hp; simpa using hc0
    · simp only [Bool.false_eq_true, if_false]
      rw [List.map_append, List.nodup_append]
      refine ⟨hn, by simp, ?_⟩
      intro a ha b hb
      simp only [List.map_cons, List.map_nil, List.mem_cons, List.mem_nil_iff, or_false] at hb
      subst hb
      obtain ⟨p, hp, rfl⟩ := List.mem_map.mp ha
      exact fun e => (hk p hp) (by simpa using e)

/-- **a later row of a kernel that is already listed changes nothing of the cycle table** -/
theorem first_row_wins (t : Table) (k : String) (c c' : Nat) (cat : String) (h : (k, c) ∈ t.cycles) :
    (addKernel t k c' cat).cycles = t.cycles := by
  unfold addKernel
  have : t.cycles.any (·.1 == k) = true := List.any_eq_true.mpr ⟨(k, c), h, by simp⟩
  simp [this]

def SInv (s : St) : Prop := TInv s.cur ∧ ∀ t ∈ s.done, TInv t

theorem step_inv (s : St) (line : List Char) (h : SInv s) : SInv (step s line) := by
  obtain ⟨hc, hd⟩ := h
  unfold step
  split
  · exact ⟨hc, hd⟩
  · split
    · exact ⟨hc, hd⟩
    · split
      · exact ⟨hc, hd⟩
      · split
        · exact ⟨hc, hd⟩
        · split
          · exact ⟨empty_inv, hd⟩
          · split
            · exact ⟨hc, hd⟩
            · split
              · refine ⟨hc, ?_⟩
                intro t ht
                rcases List.mem_append.mp ht with ht | ht
                · exact hd t ht
                · simp only [List.mem_cons, List.mem_nil_iff, or_false] at ht; subst ht; exact hc
              · split
                · exact ⟨hc, hd⟩
                · exact ⟨addKernel_inv _ _ _ _ hc, hd⟩

theorem foldl_inv : ∀ (lines : List (List Char)) (s : St), SInv s → SInv (lines.foldl step s)
  | [], s, h => h
  | l :: ls, s, h => foldl_inv ls (step s l) (step_inv s l h)

/-- **Every table the parser finishes is well formed**: no zero cycle count, no kernel twice - for every log text. -/
theorem parsed_tables_wellformed (lines : List (List Char)) : ∀ t ∈ (parse lines).done, TInv t :=
  (foldl_inv lines {} ⟨empty_inv, by simp⟩).2

theorem foldl_stopped : ∀ (lines : List (List Char)) (s : St), s.stop = true → lines.foldl step s = s
  | [], _, _ => rfl
  | l :: ls, s, h => by
    have : step s l = s := by unfold step; rw [if_pos h]
    simp only [List.foldl_cons, this]
    exact foldl_stopped ls s h

theorem step_stop_of_auto (s : St) (a : List Char) (ha : hasSubL patAuto a = true) :
    (step s a).stop = true := by
  unfold step
  by_cases hs : s.stop = true
  · rw [if_pos hs]; exact hs
  · rw [if_neg hs, if_pos ha]

/-- **Nothing behind a `DSM-AutoPilot BEGIN` line is read.** -/
theorem stops_at_autopilot (pre post : List (List Char)) (a : List Char)
    (ha : hasSubL patAuto a = true) :
    parse (pre ++ a :: post) = parse (pre ++ [a]) := by
  unfold parse
  rw [List.foldl_append, List.foldl_append, List.foldl_cons, List.foldl_cons, List.foldl_nil]
  exact foldl_stopped post _ (step_stop_of_auto _ a ha)

/-- **Free text outside a table section cannot inject rows**: while no table is open, a line that is neither the start
marker nor the autopilot line leaves the parser state as it is. -/
theorem outside_table_ignored (s : St) (line : List Char) (hact : s.active = false)
    (h1 : hasSubL patAuto line = false) (h2 : hasSubL patStart line = false) :
    step s line = s := by
  unfold step
  by_cases hs : s.stop = true
  · rw [if_pos hs]
  · rw [if_neg hs, if_neg (by rw [h1]; exact Bool.false_ne_true)]
    split
    · rfl
    · split
      · rfl
      · rw [if_neg (by rw [h2]; exact Bool.false_ne_true), if_pos (by rw [hact]; rfl)]

/-! ### non-vacuity: the shape of the sample log -/

def exLog : List (List Char) := [
  "some text Total 5\n".toList,
  "------  Ideal/Total Cycles ------\n".toList,
  "bmm-opCatBmm_fp16      12288   \n".toList,
  "addmm_MatMul-opCatMatMul 27648\n".toList,
  "bmm-opCatOther 1\n".toList,
  "zero-NA 0\n".toList,
  "x-LxPreload 7\n".toList,
  "Total 39936\n".toList,
  "====== Perf Summary End ======\n".toList,
  "late 9\n".toList]

example : (parse exLog).done.map (·.cycles) =
    [[("bmm Cmpt Exec", 12288), ("addmm_MatMul Cmpt Exec", 27648)]] := by decide +kernel

example : (parse exLog).done.map (·.cats) =
    [[("other", "other"), ("bmm Cmpt Exec", "Bmm_fp16"), ("addmm_MatMul Cmpt Exec", "MatMul"),
      ("zero Cmpt Exec", "NotAvailable")]] := by decide +kernel

end AiuVerif.C11
