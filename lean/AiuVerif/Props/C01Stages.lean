/-
C01 (and the "never merges lanes" clause of C04 in front of the overlap stage) — the class
contracts of three small stages of the default pipeline as theorems over their models
(Model/SmallStages.lean, compared with the real callbacks + the context objects the CLI registers
by C01's correspondence; the parameters come from the source through Gen/Tables.lean):

* `map_tid_to_range` is pass class and changes nothing but the tid; the new tid is a FUNCTION of
  the old one that never changes during a run, and it is INJECTIVE — two FLEX slices with different
  tids never end up on one tid, however many distinct tids arrive (also beyond the pre-computed table);
* `drop_global_events` removes exactly the events whose name contains one of the documented parts;
* `processing_filter` keeps exactly the events whose `ph` occurs in the `-F` string.
-/
import AiuVerif.Model.SmallStages
import AiuVerif.Gen.Tables

namespace AiuVerif.C01
open AiuVerif.Small

/-! ### map_tid_to_range -/

/-- the k-th slot of the table is `start + k * step` -/
def Arith (start step : Int) (l : List Int) : Prop :=
  ∀ i (h : i < l.length), l[i] = start + (i : Int) * step

/-- invariant of the context: distinct original tids, a slot for each, slots in arithmetic progression -/
def TidInv (start : Int) (c : TidCtx) : Prop :=
  c.orig.Nodup ∧ c.orig.length ≤ c.remap.length ∧ Arith start c.step c.remap

/-- the tid the context assigns to an original tid -/
def lookup (c : TidCtx) (t : Int) : Option Int := (indexOf? t c.orig).bind (fun i => c.remap[i]?)

theorem indexOf?_spec (t : Int) : ∀ (l : List Int) (i : Nat), indexOf? t l = some i →
    ∃ h : i < l.length, l[i] = t
  | [], i, h => by simp [indexOf?] at h
  | x :: xs, i, h => by
    simp only [indexOf?] at h
    split at h
    · rename_i hx
      cases h
      exact ⟨by simp, by simp [hx]⟩
    · cases hr : indexOf? t xs with
      | none => simp [hr] at h
      | some j =>
        simp only [hr, Option.map_some, Option.some.injEq] at h
        subst h
        obtain ⟨hj, hv⟩ := indexOf?_spec t xs j hr
        exact ⟨by simp; omega, by simp [hv]⟩

theorem indexOf?_of_mem (t : Int) : ∀ (l : List Int), t ∈ l → ∃ i, indexOf? t l = some i
  | [], h => by cases h
  | x :: xs, h => by
    simp only [indexOf?]
    split
    · exact ⟨0, rfl⟩
    · rename_i hx
      have : t ∈ xs := by
        rcases List.mem_cons.mp h with h | h
        · exact absurd h hx
        · exact h
      obtain ⟨i, hi⟩ := indexOf?_of_mem t xs this
      exact ⟨i + 1, by simp [hi]⟩

theorem indexOf?_append (t : Int) (m : List Int) : ∀ (l : List Int) (i : Nat),
    indexOf? t l = some i → indexOf? t (l ++ m) = some i
  | [], i, h => by simp [indexOf?] at h
  | x :: xs, i, h => by
    simp only [indexOf?, List.cons_append] at h ⊢
    split
    · rename_i hx
      simpa [hx] using h
    · rename_i hx
      simp only [hx, if_false] at h
      cases hr : indexOf? t xs with
      | none => simp [hr] at h
      | some j =>
        simp only [hr, Option.map_some, Option.some.injEq] at h
        simp [indexOf?_append t m xs j hr, h]

theorem indexOf?_none_of_not_mem (t : Int) : ∀ (l : List Int), t ∉ l → indexOf? t l = none
  | [], _ => rfl
  | x :: xs, h => by
    have h1 : ¬ t = x := fun e => h (e ▸ List.mem_cons_self)
    have h2 : t ∉ xs := fun e => h (List.mem_cons_of_mem _ e)
    simp [indexOf?, h1, indexOf?_none_of_not_mem t xs h2]

theorem indexOf?_append_new (t : Int) (l : List Int) (h : t ∉ l) :
    indexOf? t (l ++ [t]) = some l.length := by
  induction l with
  | nil => simp [indexOf?]
  | cons x xs ih =>
    have h1 : ¬ t = x := fun e => h (e ▸ List.mem_cons_self)
    have h2 : t ∉ xs := fun e => h (List.mem_cons_of_mem _ e)
    simp [indexOf?, h1, ih h2]

/-- **the assignment is injective**: under the invariant, with a non-zero step, two original tids
with the same new tid are equal -/
theorem lookup_injective (start : Int) (c : TidCtx) (hinv : TidInv start c) (hstep : c.step ≠ 0)
    (t1 t2 v : Int) (h1 : lookup c t1 = some v) (h2 : lookup c t2 = some v) : t1 = t2 := by
  obtain ⟨_, _, har⟩ := hinv
  unfold lookup at h1 h2
  cases hi : indexOf? t1 c.orig with
  | none => simp [hi] at h1
  | some i =>
    cases hj : indexOf? t2 c.orig with
    | none => simp [hj] at h2
    | some j =>
      simp only [hi, hj, Option.bind_some] at h1 h2
      obtain ⟨hil, hiv⟩ := List.getElem?_eq_some_iff.mp h1
      obtain ⟨hjl, hjv⟩ := List.getElem?_eq_some_iff.mp h2
      have e1 := har i hil
      have e2 := har j hjl
      have : (i : Int) * c.step = (j : Int) * c.step := by omega
      have hij : (i : Int) = j := Int.eq_of_mul_eq_mul_right hstep this
      have hij' : i = j := by omega
      subst hij'
      obtain ⟨_, a⟩ := indexOf?_spec t1 c.orig i hi
      obtain ⟨_, b⟩ := indexOf?_spec t2 c.orig i hj
      exact a.symm.trans b

/-- assignments made so far are never changed -/
def Extends (c c' : TidCtx) : Prop := ∀ u v, lookup c u = some v → lookup c' u = some v

theorem Extends.refl (c : TidCtx) : Extends c c := fun _ _ h => h
theorem Extends.trans {a b c : TidCtx} (h1 : Extends a b) (h2 : Extends b c) : Extends a c :=
  fun u v h => h2 u v (h1 u v h)

theorem lookup_append (c : TidCtx) (o r : List Int) (u v : Int) (h : lookup c u = some v) :
    lookup { c with orig := c.orig ++ o, remap := c.remap ++ r } u = some v := by
  unfold lookup at h ⊢
  cases hi : indexOf? u c.orig with
  | none => simp [hi] at h
  | some i =>
    simp only [hi, Option.bind_some] at h
    simp only [indexOf?_append u o c.orig i hi, Option.bind_some]
    obtain ⟨hl, hv⟩ := List.getElem?_eq_some_iff.mp h
    rw [List.getElem?_append_left hl]
    exact h

theorem arith_append (start step : Int) (l : List Int) (h : Arith start step l) (x : Int)
    (hx : x = start + (l.length : Int) * step) : Arith start step (l ++ [x]) := by
  intro i hi
  simp only [List.length_append, List.length_cons, List.length_nil] at hi
  by_cases hlt : i < l.length
  · rw [List.getElem_append_left hlt]; exact h i hlt
  · have : i = l.length := by omega
    subst this
    simp [hx]

/-- one registration keeps the invariant, keeps every earlier assignment and knows the tid afterwards -/
theorem register_spec (start : Int) (c c' : TidCtx) (t : Int) (hinv : TidInv start c)
    (h : register c t = .ok c') :
    TidInv start c' ∧ Extends c c' ∧ t ∈ c'.orig ∧ c'.step = c.step := by
  obtain ⟨hnd, hlen, har⟩ := hinv
  unfold register at h
  split at h
  · rename_i hm
    cases h
    exact ⟨⟨hnd, hlen, har⟩, Extends.refl _, hm, rfl⟩
  · rename_i hm
    simp only at h
    split at h
    · rename_i hlt
      split at h
      · cases h
      · rename_i l hl
        cases h
        have hlen' : c.remap.length = c.orig.length := by
          simp only [List.length_append, List.length_cons, List.length_nil] at hlt; omega
        refine ⟨⟨?_, ?_, ?_⟩, ?_, by simp, rfl⟩
        · exact List.nodup_append.mpr ⟨hnd, by simp, by
            intro a ha b hb; simp only [List.mem_cons, List.mem_nil_iff, or_false] at hb; subst hb
            exact fun e => hm (e ▸ ha)⟩
        · simp; omega
        · apply arith_append start c.step c.remap har
          -- the last slot is `start + (n-1) * step`
          have hne : c.remap ≠ [] := by intro e; simp [e] at hl
          have hpos : 0 < c.remap.length := List.length_pos_iff.mpr hne
          have hlast : l = c.remap[c.remap.length - 1]'(by omega) := by
            rw [List.getLast?_eq_getElem?] at hl
            have := List.getElem?_eq_some_iff.mp hl
            obtain ⟨_, hv⟩ := this
            exact hv.symm
          rw [hlast, har (c.remap.length - 1) (by omega)]
          have : ((c.remap.length - 1 : Nat) : Int) = (c.remap.length : Int) - 1 := by omega
          rw [this]
          simp [Int.sub_mul]; omega
        · intro u v huv
          exact lookup_append c [t] [l + c.step] u v huv
    · rename_i hge
      cases h
      refine ⟨⟨?_, ?_, har⟩, ?_, by simp, rfl⟩
      · exact List.nodup_append.mpr ⟨hnd, by simp, by
          intro a ha b hb; simp only [List.mem_cons, List.mem_nil_iff, or_false] at hb; subst hb
          exact fun e => hm (e ▸ ha)⟩
      · simp only [List.length_append, List.length_cons, List.length_nil] at hge ⊢; omega
      · intro u v huv
        have := lookup_append c [t] [] u v huv
        simpa using this

/-- with a non-empty table the registration never raises -/
theorem register_total (c : TidCtx) (t : Int) (h : c.remap ≠ []) : ∃ c', register c t = .ok c' := by
  unfold register
  split
  · exact ⟨_, rfl⟩
  · simp only
    split
    · cases hl : c.remap.getLast? with
      | none => exact absurd (List.getLast?_eq_none_iff.mp hl) h
      | some l => exact ⟨_, rfl⟩
    · exact ⟨_, rfl⟩

/-- the events the stage rewrites: FLEX slices that carry a tid -/
def Mapped (e : TEv) : Prop := e.isX = true ∧ e.flex = true ∧ e.tid.isSome = true

/-- what one call does to its event, in terms of the context it leaves behind -/
def Rel (c : TidCtx) (e e' : TEv) : Prop :=
  e'.uid = e.uid ∧ e'.pid = e.pid ∧ e'.isX = e.isX ∧ e'.flex = e.flex ∧
  (Mapped e → ∃ t, e.tid = some t ∧ e'.tid.isSome = true ∧ lookup c t = e'.tid) ∧ (¬ Mapped e → e' = e)

theorem mapTid_spec (start : Int) (c c' : TidCtx) (e e' : TEv) (hinv : TidInv start c)
    (h : mapTid c e = .ok (c', e')) :
    TidInv start c' ∧ Extends c c' ∧ c'.step = c.step ∧ Rel c' e e' := by
  unfold mapTid at h
  split at h
  · rename_i t hx ht hf
    split at h
    · cases h
    · rename_i c1 hr
      injection h with h
      injection h with hc he
      subst hc
      obtain ⟨hinv1, hext, hmem, hstep⟩ := register_spec start c c1 t hinv hr
      refine ⟨hinv1, hext, hstep, ?_⟩
      subst he
      refine ⟨rfl, rfl, rfl, rfl, ?_, ?_⟩
      · intro _
        refine ⟨t, ht, rfl, ?_⟩
        obtain ⟨i, hi⟩ := indexOf?_of_mem t c1.orig hmem
        obtain ⟨hil, _⟩ := indexOf?_spec t c1.orig i hi
        have hir : i < c1.remap.length := Nat.lt_of_lt_of_le hil hinv1.2.1
        simp only [lookup, hi, Option.bind_some]
        rw [List.getElem?_eq_getElem hir]
        simp [List.getD_eq_getElem?_getD, List.getElem?_eq_getElem hir]
      · intro hn
        exact absurd ⟨hx, hf, by simp [ht]⟩ hn
  · rename_i hnot
    injection h with h
    injection h with hc he
    subst hc; subst he
    refine ⟨hinv, Extends.refl _, rfl, rfl, rfl, rfl, rfl, ?_, fun _ => rfl⟩
    intro ⟨hx, hf, ht⟩
    cases hti : e.tid with
    | none => simp [hti] at ht
    | some t => exact (hnot t hx hti hf).elim

/-- pointwise relation of two lists of equal length -/
inductive All2 (R : TEv → TEv → Prop) : List TEv → List TEv → Prop
  | nil : All2 R [] []
  | cons {a b : TEv} {as bs : List TEv} : R a b → All2 R as bs → All2 R (a :: as) (b :: bs)

theorem Rel.mono {c c' : TidCtx} (hext : Extends c c') {e e' : TEv} (h : Rel c e e') : Rel c' e e' := by
  obtain ⟨a, b, c1, d, hm, hn⟩ := h
  refine ⟨a, b, c1, d, ?_, hn⟩
  intro hme
  obtain ⟨t, ht, hs, hl⟩ := hm hme
  refine ⟨t, ht, hs, ?_⟩
  cases hv : e'.tid with
  | none => simp [hv] at hs
  | some v => exact hext t v (hv ▸ hl)

/-- **the whole stream**: one output event per input event, in order, related to it by the FINAL
context; the invariant holds at the end -/
theorem mapAll_spec (start : Int) : ∀ (es : List TEv) (c cF : TidCtx) (out : List TEv),
    TidInv start c → mapAll c es = .ok (cF, out) →
    TidInv start cF ∧ Extends c cF ∧ cF.step = c.step ∧ All2 (Rel cF) es out
  | [], c, cF, out, hinv, h => by
    simp only [mapAll] at h
    injection h with h; injection h with h1 h2
    subst h1; subst h2
    exact ⟨hinv, Extends.refl _, rfl, All2.nil⟩
  | e :: es, c, cF, out, hinv, h => by
    simp only [mapAll] at h
    split at h
    · cases h
    · rename_i c1 e1 h1
      split at h
      · cases h
      · rename_i c2 es2 h2
        injection h with h; injection h with ha hb
        subst ha; subst hb
        obtain ⟨hinv1, hext1, hstep1, hrel1⟩ := mapTid_spec start c c1 e e1 hinv h1
        obtain ⟨hinv2, hext2, hstep2, hall⟩ := mapAll_spec start es c1 c2 es2 hinv1 h2
        exact ⟨hinv2, hext1.trans hext2, hstep2.trans hstep1, All2.cons (hrel1.mono hext2) hall⟩

/-- **`map_tid_to_range` is pass class and touches nothing but the tid.** -/
theorem tidmap_pass (start : Int) (es out : List TEv) (c cF : TidCtx) (hinv : TidInv start c)
    (h : mapAll c es = .ok (cF, out)) :
    out.map (·.uid) = es.map (·.uid) ∧ out.map (·.pid) = es.map (·.pid) := by
  have hall := (mapAll_spec start es c cF out hinv h).2.2.2
  clear h
  induction hall with
  | nil => exact ⟨rfl, rfl⟩
  | cons hr _ ih => exact ⟨by simp [hr.1, ih.1], by simp [hr.2.1, ih.2]⟩

theorem forall₂_of_mem_zip {R : TEv → TEv → Prop} : ∀ {es out : List TEv}, All2 R es out →
    ∀ p ∈ es.zip out, R p.1 p.2
  | _, _, .nil, p, hp => by simp at hp
  | _, _, .cons hr hrest, p, hp => by
    simp only [List.zip_cons_cons, List.mem_cons] at hp
    rcases hp with rfl | hp
    · exact hr
    · exact forall₂_of_mem_zip hrest p hp

/-- **lanes are never merged and never split by the tid mapping**: for any two rewritten events of
one run (from a context that satisfies the invariant, with a non-zero step), the new tids are equal
IFF the original tids are. -/
theorem tidmap_lanes (start : Int) (es out : List TEv) (c cF : TidCtx) (hinv : TidInv start c)
    (hstep : c.step ≠ 0) (h : mapAll c es = .ok (cF, out))
    (p q : TEv × TEv) (hp : p ∈ es.zip out) (hq : q ∈ es.zip out) (mp : Mapped p.1) (mq : Mapped q.1) :
    p.2.tid = q.2.tid ↔ p.1.tid = q.1.tid := by
  obtain ⟨hinvF, _, hstepF, hall⟩ := mapAll_spec start es c cF out hinv h
  have rp := forall₂_of_mem_zip hall p hp
  have rq := forall₂_of_mem_zip hall q hq
  obtain ⟨t1, ht1, hs1, hl1⟩ := rp.2.2.2.2.1 mp
  obtain ⟨t2, ht2, hs2, hl2⟩ := rq.2.2.2.2.1 mq
  constructor
  · intro heq
    cases hv : p.2.tid with
    | none => simp [hv] at hs1
    | some v =>
      have e1 : lookup cF t1 = some v := hv ▸ hl1
      have e2 : lookup cF t2 = some v := by rw [hl2, ← heq, hv]
      have := lookup_injective start cF hinvF (by rw [hstepF]; exact hstep) t1 t2 v e1 e2
      rw [ht1, ht2, this]
  · intro heq
    have : t1 = t2 := by rw [ht1, ht2] at heq; exact Option.some.inj heq
    rw [← hl1, ← hl2, this]

/-- **the same for (pid, tid) lanes** - what the overlap stage behind it works on: the stage leaves the pid alone, so
two rewritten events share a lane afterwards IFF they shared one before. -/
theorem tidmap_lanes_pidtid (start : Int) (es out : List TEv) (c cF : TidCtx) (hinv : TidInv start c)
    (hstep : c.step ≠ 0) (h : mapAll c es = .ok (cF, out))
    (p q : TEv × TEv) (hp : p ∈ es.zip out) (hq : q ∈ es.zip out) (mp : Mapped p.1) (mq : Mapped q.1) :
    (p.2.pid = q.2.pid ∧ p.2.tid = q.2.tid) ↔ (p.1.pid = q.1.pid ∧ p.1.tid = q.1.tid) := by
  have hall := (mapAll_spec start es c cF out hinv h).2.2.2
  have rp := (forall₂_of_mem_zip hall p hp).2.1
  have rq := (forall₂_of_mem_zip hall q hq).2.1
  rw [rp, rq, tidmap_lanes start es out c cF hinv hstep h p q hp hq mp mq]

/-- with a non-empty table no call raises (the `IndexError` branch needs `remap_size = 0`) -/
theorem tidmap_total (start : Int) : ∀ (es : List TEv) (c : TidCtx), TidInv start c → c.remap ≠ [] →
    ∃ r, mapAll c es = .ok r
  | [], c, _, _ => ⟨_, rfl⟩
  | e :: es, c, hinv, hne => by
    have h1 : ∃ c1 e1, mapTid c e = .ok (c1, e1) := by
      unfold mapTid
      split
      · rename_i t _ _ _
        obtain ⟨c1, hc1⟩ := register_total c t hne
        simp only [hc1]
        exact ⟨_, _, rfl⟩
      · exact ⟨_, _, rfl⟩
    obtain ⟨c1, e1, h1⟩ := h1
    obtain ⟨hinv1, _, _, _⟩ := mapTid_spec start c c1 e e1 hinv h1
    have hne1 : c1.remap ≠ [] := by
      intro e0
      have hl := hinv1.2.1
      -- the table never shrinks: its length is at least that of the old one
      unfold mapTid at h1
      split at h1
      · split at h1
        · cases h1
        · rename_i c' hr
          injection h1 with h1; injection h1 with ha _; subst ha
          unfold register at hr
          split at hr
          · cases hr; exact hne e0
          · simp only at hr
            split at hr
            · split at hr
              · cases hr
              · cases hr; simp at e0
            · cases hr; exact hne e0
      · injection h1 with h1; injection h1 with ha _; subst ha; exact hne e0
    obtain ⟨r, hr⟩ := tidmap_total start es c1 hinv1 hne1
    exact ⟨(r.1, e1 :: r.2), by simp only [mapAll, h1, hr]⟩

/-- **the context the CLI registers** (table and step read off the live object, Gen/Tables.lean)
satisfies the invariant, has a non-zero step and a non-empty table — so the three theorems above
apply to every run of the tool -/
theorem registered_tid_ctx_ok :
    (∀ i (h : i < Gen.tidRemap.length), Gen.tidRemap[i] = Gen.tidRemap.headD 0 + (i : Int) * Gen.tidStep) ∧
    Gen.tidStep ≠ 0 ∧ Gen.tidRemap ≠ [] := by
  refine ⟨?_, by decide, by decide⟩
  have : ∀ i : Fin Gen.tidRemap.length, Gen.tidRemap[i.1] = Gen.tidRemap.headD 0 + (i.1 : Int) * Gen.tidStep := by
    decide +kernel
  exact fun i h => this ⟨i, h⟩

theorem registered_tid_ctx_inv :
    TidInv (Gen.tidRemap.headD 0) ⟨[], Gen.tidRemap, Gen.tidStep⟩ :=
  ⟨List.nodup_nil, Nat.zero_le _, registered_tid_ctx_ok.1⟩

/-- `TIDMappingContext.__init__` establishes the invariant for every size, start and step -/
theorem init_inv (size : Nat) (start step : Int) : TidInv start (TidCtx.init size start step) := by
  refine ⟨List.nodup_nil, Nat.zero_le _, ?_⟩
  intro i hi
  simp [TidCtx.init]

/-! ### drop_global_events -/

/-- **`--drop_globals` removes exactly the events whose name contains a listed part** and keeps the
others in order -/
theorem dropGlobals_spec (parts : List String) (evs : List (Nat × String)) (e : Nat × String) :
    e ∈ dropGlobals parts evs ↔ e ∈ evs ∧ ∀ p ∈ parts, PhaseName.hasSub e.2 p = false := by
  simp [dropGlobals, isGlobal]

theorem dropGlobals_sublist (parts : List String) (evs : List (Nat × String)) :
    (dropGlobals parts evs).Sublist evs := List.filter_sublist

/-- the name parts in the source are the documented ones -/
theorem glb_names_documented :
    Gen.glbNames = ["Execute graph", "SenFusedDeviceNode", "AIU Roundtrip", "Flex RoundTrip",
      "PostKeys", "FetchKeys", "Callback", "HostPrep", "AllocateFrame of", "Update CBs"] := by decide

/-! ### processing_filter -/

/-- **`-F pat` keeps exactly the events whose `ph` occurs in `pat`**; slices survive iff `X` does -/
theorem pfilter_spec (pat : Option String) (evs : List (Nat × String)) (e : Nat × String) :
    e ∈ processingFilter pat evs ↔ e ∈ evs ∧ ∃ p, pat = some p ∧ PhaseName.hasSub p e.2 = true := by
  cases pat <;> simp [processingFilter, keepPh]

theorem pfilter_sublist (pat : Option String) (evs : List (Nat × String)) :
    (processingFilter pat evs).Sublist evs := List.filter_sublist

/-! ### recombine_cpu_events -/

/-- **`recombine_cpu_events` is a per-event map that changes nothing but the tid**, and only of FLEX host slices -/
theorem recombine_only_tid (cpuTid : Int) (e : REv) :
    (recombine cpuTid e).uid = e.uid ∧ (recombine cpuTid e).pid = e.pid ∧ (recombine cpuTid e).name = e.name ∧
    (recombine cpuTid e).ph = e.ph ∧ (recombined e = false → recombine cpuTid e = e) ∧
    (recombined e = true → (recombine cpuTid e).tid = some cpuTid) := by
  unfold recombine
  split <;> simp_all

/-- device events (those with `args.TS1`) keep their lane: what the overlap resolution and C04 see of them is
what `map_tid_to_range` left -/
theorem recombine_device_untouched (cpuTid : Int) (e : REv) (h : e.hasTS1 = true) : recombine cpuTid e = e := by
  have : recombined e = false := by simp [recombined, h]
  exact (recombine_only_tid cpuTid e).2.2.2.2.1 this

theorem recombine_pass (cpuTid : Int) (es : List REv) :
    (es.map (recombine cpuTid)).map (·.uid) = es.map (·.uid) := by
  simp [List.map_map, Function.comp_def, (recombine_only_tid cpuTid _).1]

/-! ### non-vacuity -/

/-- 32 distinct tids on a 30-slot table: the table is continued, the two extra tids get 4000 and 4100 -/
example : (mapAll ⟨[], Gen.tidRemap, Gen.tidStep⟩
      ((List.range 32).map (fun k => (⟨k, true, some (7 * k), true, 0⟩ : TEv)))).toOption.map
        (fun r => (r.2.drop 29).map (·.tid)) = some [some 3900, some 4000, some 4100] := by decide +kernel

example : (mapAll (TidCtx.init 0 1000 100) [⟨0, true, some 5, true, 0⟩]).toOption = none := by decide

example : dropGlobals Gen.glbNames [(0, "Execute graph 7"), (1, "k Cmpt Exec")] = [(1, "k Cmpt Exec")] := by
  decide +kernel

end AiuVerif.C01
