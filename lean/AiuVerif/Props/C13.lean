/-
C13 — the `ConcurrentPreps` counter equals the number of in-flight Prep slices.

Statement (properties.jsonl): at every counter sample time `t` of a rank the value equals the
number of that rank's Prep slices with `start ≤ t < end`; a sample exists at every instant where
that number changes; sample times are strictly increasing per rank; the series ends at 0; Prep
slices are removed unless `keep_prep`, in which case slices and counter are both present.

All theorems are about the executable model `Model/Preps.lean` of
`pipeline/cmpt_collection.py` (+ the `acc_compute_prep` classifier), for all inputs.
Hypotheses: the Prep slices of a rank reach the stage sorted by start, with `dur > 0`.
-/
import AiuVerif.Lemmas.Preps

namespace AiuVerif.C13
open AiuVerif AiuVerif.Preps

/-- number of intervals in flight immediately before `t`: `#{i | sᵢ < t ≤ eᵢ}` (the left limit
of `inFlight`, see `inFlightBefore_is_left_limit`) -/
def inFlightBefore (ivs : List (Num × Num)) (t : Num) : Nat :=
  (ivs.filter (fun iv => decide (iv.1 < t) && decide (t ≤ iv.2))).length

/-- justification of `inFlightBefore`: it is the in-flight count at any earlier time `t'` with
no interval endpoint in the open interval `(t', t)` -/
theorem inFlightBefore_is_left_limit (ivs : List (Num × Num)) (t t' : Num) (hlt : t' < t)
    (hno : ∀ iv ∈ ivs, ¬ (t' < iv.1 ∧ iv.1 < t) ∧ ¬ (t' < iv.2 ∧ iv.2 < t)) :
    inFlight ivs t' = inFlightBefore ivs t := by
  unfold inFlight inFlightBefore
  congr 1
  apply List.filter_congr
  intro iv hiv
  have := hno iv hiv
  have h : (iv.1 ≤ t' ∧ t' < iv.2) ↔ (iv.1 < t ∧ t ≤ iv.2) := by grind
  by_cases h1 : iv.1 ≤ t' ∧ t' < iv.2
  · have h2 := h.mp h1; simp [h1, h2]
  · have h2 : ¬ (iv.1 < t ∧ t ≤ iv.2) := fun h' => h1 (h.mpr h')
    have e1 : (decide (iv.1 ≤ t') && decide (t' < iv.2)) = false := by
      simpa using fun a => by grind
    have e2 : (decide (iv.1 < t) && decide (t ≤ iv.2)) = false := by
      simpa using fun a => by grind
    rw [e1, e2]

/-- **sweep_correct** (core obligation).  For the Prep intervals of one rank, sorted by start
and with `s < e`, the samples emitted while streaming followed by the drained ones
(1) are strictly increasing in time, (2) are taken exactly at the interval endpoints,
(3) each carry the number of intervals in flight at their time, `#{i | sᵢ ≤ t < eᵢ}`,
(4) end with the value 0. -/
theorem sweep_correct (ivs : List (Num × Num))
    (hsorted : ivs.Pairwise (fun a b => a.1 ≤ b.1)) (hpos : ∀ iv ∈ ivs, iv.1 < iv.2) :
    (sweep ivs).Pairwise (fun a b => a.1 < b.1) ∧
    (∀ t, (∃ x ∈ sweep ivs, x.1 = t) ↔ (∃ iv ∈ ivs, t = iv.1 ∨ t = iv.2)) ∧
    (∀ x ∈ sweep ivs, x.2 = inFlight ivs x.1) ∧
    (ivs ≠ [] → ∃ x, (sweep ivs).getLast? = some x ∧ x.2 = 0) := by
  -- any lower bound for the first start will do as the initial `lo`
  have hlo : ∃ lo : Num, ∀ iv ∈ ivs, lo ≤ iv.1 := by
    cases ivs with
    | nil => exact ⟨0, by simp⟩
    | cons a l =>
      refine ⟨a.1, fun iv hiv => ?_⟩
      rcases List.mem_cons.mp hiv with rfl | hiv
      · exact Rat.le_refl
      · exact (List.pairwise_cons.mp hsorted).1 iv hiv
  obtain ⟨lo, hlo⟩ := hlo
  obtain ⟨lo', hinv⟩ := Inv.sweepFrom ivs (Inv.init lo) hlo hpos hsorted
  simp only [List.nil_append] at hinv
  have hval : ∀ x ∈ sweep ivs, x.2 = inFlight ivs x.1 := by
    intro x hx
    rcases List.mem_append.mp hx with hx | hx
    · exact hinv.out_val x hx
    · exact hinv.q_val x hx
  refine ⟨hinv.strict, hinv.times, hval, ?_⟩
  intro hne
  -- the series is not empty: the first start is sampled
  have hne' : sweep ivs ≠ [] := by
    cases ivs with
    | nil => exact absurd rfl hne
    | cons a l =>
      obtain ⟨x, hx, _⟩ := (hinv.times a.1).mpr ⟨a, by simp, Or.inl rfl⟩
      intro h0; unfold sweep at h0; rw [h0] at hx; simp at hx
  cases hl : (sweep ivs).getLast? with
  | none => exact absurd (List.getLast?_eq_none_iff.mp hl) hne'
  | some x =>
    refine ⟨x, rfl, ?_⟩
    obtain ⟨ys, hys⟩ := List.getLast?_eq_some_iff.mp hl
    have hx : x ∈ sweep ivs := by rw [hys]; simp
    rw [hval x hx]
    apply inFlight_eq_zero
    intro iv hiv
    -- the end of `iv` is sampled, and `x` is the latest sample
    obtain ⟨y, hy, hye⟩ := (hinv.times iv.2).mpr ⟨iv, hiv, Or.inr rfl⟩
    have hstrict : StrictTimes (ys ++ [x]) := by
      have := hinv.strict; unfold sweep at hys; rw [hys] at this; exact this
    have hy' : y ∈ ys ++ [x] := by unfold sweep at hys; rw [← hys]; exact hy
    rcases List.mem_append.mp hy' with hy' | hy'
    · have := (List.pairwise_append.mp hstrict).2.2 y hy' x (by simp); grind
    · simp at hy'; subst hy'; grind

/-- **a sample exists at every instant where the in-flight number changes**: if the count at
`t` differs from the count immediately before `t`, the series has a sample at `t`. -/
theorem sweep_samples_every_change (ivs : List (Num × Num))
    (hsorted : ivs.Pairwise (fun a b => a.1 ≤ b.1)) (hpos : ∀ iv ∈ ivs, iv.1 < iv.2)
    (t : Num) (hchg : inFlight ivs t ≠ inFlightBefore ivs t) : ∃ x ∈ sweep ivs, x.1 = t := by
  apply ((sweep_correct ivs hsorted hpos).2.1 t).mpr
  apply Classical.byContradiction
  intro hno
  apply hchg
  unfold inFlight inFlightBefore
  congr 1
  apply List.filter_congr
  intro iv hiv
  have h1 : t ≠ iv.1 := fun h => hno ⟨iv, hiv, Or.inl h⟩
  have h2 : t ≠ iv.2 := fun h => hno ⟨iv, hiv, Or.inr h⟩
  have e1 : decide (iv.1 ≤ t) = decide (iv.1 < t) := by
    apply decide_eq_decide.mpr; grind
  have e2 : decide (t < iv.2) = decide (t ≤ iv.2) := by
    apply decide_eq_decide.mpr; grind
  rw [e1, e2]

/-- **per rank**: whatever the interleaving of ranks in the stream and the `popitem` order of the
drain, the `ConcurrentPreps` samples of rank `p` leaving the stage (streamed, then drained) are the
single-rank sweep over the Prep slices of rank `p`. -/
theorem stage_counters_eq_sweep (keep : Bool) (evs : List PEv) (outs : List Out)
    (h : runStage keep evs = .ok outs) (p : Int) :
    countersOf p outs = sweep (prepIvs p evs) := by
  unfold runStage at h
  cases hr : runFrom keep [] evs with
  | error e => simp [hr] at h
  | ok r =>
    simp only [hr] at h
    injection h with h; subst h
    obtain ⟨hn, hq, hc⟩ := runFrom_proj evs (st' := r.1) (o := r.2) hr (by simp [keys]) p
    rw [countersOf_append, countersOf_drain hn, hq, hc]
    rfl

/-- **keep_prep**: every event — Prep slices included — leaves the stage exactly once, in order. -/
theorem stage_pass_keep (evs : List PEv) (outs : List Out) (h : runStage true evs = .ok outs) :
    passes outs = evs.map (fun ev => ev.uid) := by
  unfold runStage at h
  cases hr : runFrom true [] evs with
  | error e => simp [hr] at h
  | ok r =>
    simp only [hr] at h
    injection h with h; subst h
    rw [passes_append, passes_drain, runFrom_passes evs (st' := r.1) (o := r.2) hr]
    simp only [Bool.true_or, List.append_nil]
    rw [List.filter_eq_self.mpr (by simp)]

/-- **default (no keep_prep)**: exactly the Prep slices are removed; every other event leaves the
stage exactly once, in order. -/
theorem stage_pass_drop (evs : List PEv) (outs : List Out) (h : runStage false evs = .ok outs) :
    passes outs = (evs.filter (fun ev => !isPrepEv ev)).map (fun ev => ev.uid) := by
  unfold runStage at h
  cases hr : runFrom false [] evs with
  | error e => simp [hr] at h
  | ok r =>
    simp only [hr] at h
    injection h with h; subst h
    rw [passes_append, passes_drain, runFrom_passes evs (st' := r.1) (o := r.2) hr]
    simp

/-- **C13 at stage level**: for either `keep_prep` value, if the Prep slices of rank `p` arrive
sorted by start with positive duration, the `ConcurrentPreps` series of rank `p` is strictly
increasing in time, is sampled exactly at the slice endpoints (hence at every change), each value
is the number of `p`'s Prep slices with `start ≤ t < end`, and the series ends at 0. -/
theorem concurrent_preps_correct (keep : Bool) (evs : List PEv) (outs : List Out)
    (h : runStage keep evs = .ok outs) (p : Int)
    (hsorted : (prepIvs p evs).Pairwise (fun a b => a.1 ≤ b.1))
    (hpos : ∀ iv ∈ prepIvs p evs, iv.1 < iv.2) :
    (countersOf p outs).Pairwise (fun a b => a.1 < b.1) ∧
    (∀ t, (∃ x ∈ countersOf p outs, x.1 = t) ↔ (∃ iv ∈ prepIvs p evs, t = iv.1 ∨ t = iv.2)) ∧
    (∀ t, inFlight (prepIvs p evs) t ≠ inFlightBefore (prepIvs p evs) t →
        ∃ x ∈ countersOf p outs, x.1 = t) ∧
    (∀ x ∈ countersOf p outs, x.2 = inFlight (prepIvs p evs) x.1) ∧
    (prepIvs p evs ≠ [] → ∃ x, (countersOf p outs).getLast? = some x ∧ x.2 = 0) := by
  rw [stage_counters_eq_sweep keep evs outs h p]
  obtain ⟨h1, h2, h3, h4⟩ := sweep_correct (prepIvs p evs) hsorted hpos
  exact ⟨h1, h2, fun t ht => sweep_samples_every_change _ hsorted hpos t ht, h3, h4⟩

/-- **where the sortedness hypothesis comes from**: when the whole stream reaches the stage
sorted by `ts` (what `MpSyncTightContext.drain` — `revents.sort(key=ts)` — delivers in the
registered pipeline), the Prep intervals of every rank are sorted by start. -/
theorem prepIvs_sorted_of_sorted_stream (evs : List PEv)
    (hs : evs.Pairwise (fun a b => a.ts ≤ b.ts)) (p : Int) :
    (prepIvs p evs).Pairwise (fun a b => a.1 ≤ b.1) := by
  unfold prepIvs
  rw [List.pairwise_filterMap]
  refine hs.imp ?_
  intro a b hab x hx y hy
  by_cases ha : (isPrepEv a && a.pid == p) = true
  · by_cases hb : (isPrepEv b && b.pid == p) = true
    · simp only [ha, hb, if_true, Option.map_eq_some_iff] at hx hy
      obtain ⟨da, _, rfl⟩ := hx
      obtain ⟨db, _, rfl⟩ := hy
      exact hab
    · simp [hb] at hy
  · simp [ha] at hx

/-- **C13 for a ts-sorted stream**: `concurrent_preps_correct` with its two hypotheses replaced
by what the pipeline provides — the stream is sorted by `ts` and Prep slices have positive `dur`. -/
theorem concurrent_preps_correct_of_sorted_stream (keep : Bool) (evs : List PEv) (outs : List Out)
    (h : runStage keep evs = .ok outs)
    (hs : evs.Pairwise (fun a b => a.ts ≤ b.ts))
    (hd : ∀ ev ∈ evs, isPrepEv ev = true → ∀ d, ev.dur = some d → 0 < d) (p : Int) :
    (countersOf p outs).Pairwise (fun a b => a.1 < b.1) ∧
    (∀ t, inFlight (prepIvs p evs) t ≠ inFlightBefore (prepIvs p evs) t →
        ∃ x ∈ countersOf p outs, x.1 = t) ∧
    (∀ x ∈ countersOf p outs, x.2 = inFlight (prepIvs p evs) x.1) ∧
    (prepIvs p evs ≠ [] → ∃ x, (countersOf p outs).getLast? = some x ∧ x.2 = 0) := by
  have hpos : ∀ iv ∈ prepIvs p evs, iv.1 < iv.2 := by
    intro iv hiv
    unfold prepIvs at hiv
    obtain ⟨ev, hev, hiv⟩ := List.mem_filterMap.mp hiv
    by_cases ha : (isPrepEv ev && ev.pid == p) = true
    · simp only [ha, if_true, Option.map_eq_some_iff] at hiv
      obtain ⟨d, hdur, rfl⟩ := hiv
      have hprep : isPrepEv ev = true := by
        simp only [Bool.and_eq_true] at ha; exact ha.1
      have := hd ev hev hprep d hdur
      show ev.ts < ev.ts + d
      grind
    · simp [ha] at hiv
  obtain ⟨h1, _, h3, h4, h5⟩ :=
    concurrent_preps_correct keep evs outs h p (prepIvs_sorted_of_sorted_stream evs hs p) hpos
  exact ⟨h1, h3, h4, h5⟩

/-! ### non-vacuity and the repaired witnesses -/

/-- the nested family that the unrepaired code got wrong (`0` at `t = 2`): now `1` -/
example : sweep [(0, 3), (1, 2)] = [(0, 1), (1, 2), (2, 1), (3, 0)] := by decide +kernel

/-- equal starts, equal ends, touching and chained intervals in one family -/
example : sweep [(0, 2), (0, 4), (1, 2), (2, 4), (3, 5)] =
    [(0, 2), (1, 3), (2, 2), (3, 3), (4, 1), (5, 0)] := by decide +kernel

/-- the hypotheses of `sweep_correct` are satisfiable by that family -/
example : ([(0, 2), (0, 4), (1, 2), (2, 4), (3, 5)] : List (Num × Num)).Pairwise (fun a b => a.1 ≤ b.1) ∧
    ∀ iv ∈ ([(0, 2), (0, 4), (1, 2), (2, 4), (3, 5)] : List (Num × Num)), iv.1 < iv.2 := by
  decide +kernel

/-- sortedness is needed: on an unsorted family the series is wrong (sample `(1,1)` is emitted
before the interval `(0,3)` that covers `t = 1` arrives, and time order is lost) -/
example : sweep [(1, 2), (3, 4), (0, 3)] = [(1, 1), (2, 0), (0, 1), (3, 1), (4, 0)] := by
  decide +kernel

def ev (uid : Nat) (name : String) (pid : Int) (s d : Num) : PEv :=
  { uid, ph := "X", name, pid, ts := s, dur := some d, dial := .flex }

/-- a two-rank stream through the stage, Prep slices dropped: counters of both ranks, the
non-Prep slice passes -/
example : (runStage false [ev 1 "a Cmpt Prep" 0 0 3, ev 2 "b Cmpt Prep" 1 0 1, ev 3 "a Cmpt Exec" 0 1 1,
      ev 4 "c Cmpt Prep" 0 1 1]).toOption =
    some [.pass 3, .counter 0 0 1, .counter 1 0 1, .counter 1 1 0,
         .counter 0 1 2, .counter 0 2 1, .counter 0 3 0] := by decide +kernel

/-- an unknown jobhash makes the stage raise (the theorems speak about runs that return) -/
example : (match runStage false [{ ev 1 "a Cmpt Prep" 0 0 1 with dial := .unknownJob }] with
    | .error e => e
    | .ok _ => "") = "keyerror" := by decide +kernel

end AiuVerif.C13
