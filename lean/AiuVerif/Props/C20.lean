/-
C20 — communication summarization replaces each sequence by the hull of its parts.

Statement (properties.jsonl): with `--comm_summarize_seq`, all SenRdma slices of one input file
that share a sequence number are replaced by exactly one slice spanning from the earliest start to
the latest end of those parts and listing the union of their peers, compared with the same run
without the option; all slices that are not part of a communication sequence are exported unchanged.

The theorems are about the executable model `Model/Comm.lean` of
`pipeline/coll_group.py` (`CommunicationGroupContext`, `communication_event_collection`,
`communication_event_apply`, registered `collection → pipeline_barrier → apply`), for all streams.
The reference "run without the option" is the input stream of the three stages.

The code identifies a sequence by the integer `int(str(jobhash) + digits)`; different (file,
sequence number) pairs can get the same integer, and the integer 0 is treated as "no sequence".
`hull_spec` is therefore stated per *key*; `hull_spec_by_sequence` transfers it to (file, sequence
number) under the explicit hypotheses `KeysInjective` and `KeysNonzero`; `key_collision_merges` and
`key_zero_not_summarized` show on concrete streams that the hypotheses cannot be dropped.
-/
import AiuVerif.Lemmas.Comm

namespace AiuVerif.C20
open AiuVerif AiuVerif.Comm

/-- the sequence an event belongs to, as the statement reads it: (jobhash of its input file,
digit string of its sequence number); `none`: not a part of a communication sequence -/
def seqId (ev : CEv) : Option (Nat × List Char) :=
  if candidate ev then
    match ev.jobhash, seqDigits ev.name with
    | some j, some d => some (j, d)
    | _, _ => none
  else none

/-- the integer key separates the (file, sequence number) pairs that occur in the stream -/
def KeysInjective (evs : List CEv) : Prop :=
  ∀ ia ∈ evs.filterMap seqId, ∀ ib ∈ evs.filterMap seqId,
    seqKey ia.1 ia.2 = seqKey ib.1 ib.2 → ia = ib

/-- no (file, sequence number) pair of the stream has the key 0 -/
def KeysNonzero (evs : List CEv) : Prop :=
  ∀ i ∈ evs.filterMap seqId, seqKey i.1 i.2 ≠ 0

instance (evs : List CEv) : Decidable (KeysInjective evs) := by
  unfold KeysInjective; infer_instance

instance (evs : List CEv) : Decidable (KeysNonzero evs) := by
  unfold KeysNonzero; infer_instance

/-- the parts of sequence `i`, in stream order -/
def seqParts (i : Nat × List Char) (evs : List CEv) : List CEv :=
  evs.filter (fun ev => seqId ev == some i)

theorem memberKey_of_seqId {ev : CEv} {i : Nat × List Char} (h : seqId ev = some i) :
    memberKey ev = if seqKey i.1 i.2 = 0 then none else some (seqKey i.1 i.2) := by
  unfold seqId at h
  unfold memberKey
  by_cases hc : candidate ev = true
  · simp only [hc, if_true] at h ⊢
    cases hj : ev.jobhash with
    | none => simp [hj] at h
    | some j =>
      cases hd : seqDigits ev.name with
      | none => simp [hj, hd] at h
      | some d =>
        simp only [hj, hd, Option.some.injEq] at h
        subst h
        rfl
  · simp [hc] at h

theorem memberKey_none_of_seqId_none {ev : CEv} (h : seqId ev = none) : memberKey ev = none := by
  unfold seqId at h
  unfold memberKey
  by_cases hc : candidate ev = true
  · simp only [hc, if_true] at h ⊢
    cases hj : ev.jobhash with
    | none => rfl
    | some j =>
      cases hd : seqDigits ev.name with
      | none => rfl
      | some d => simp [hj, hd] at h
  · simp [hc]

theorem seqId_of_memberKey {ev : CEv} {k : Nat} (h : memberKey ev = some k) :
    ∃ i, seqId ev = some i ∧ seqKey i.1 i.2 = k := by
  cases hs : seqId ev with
  | none => rw [memberKey_none_of_seqId_none hs] at h; simp at h
  | some i =>
    refine ⟨i, rfl, ?_⟩
    rw [memberKey_of_seqId hs] at h
    by_cases h0 : seqKey i.1 i.2 = 0
    · simp [h0] at h
    · simpa [h0] using h

/-- under the two key hypotheses, grouping by key is grouping by (file, sequence number) -/
theorem seqParts_eq_partsOf {evs : List CEv} (hinj : KeysInjective evs) (hnz : KeysNonzero evs)
    {i : Nat × List Char} (hi : i ∈ evs.filterMap seqId) :
    seqParts i evs = partsOf (seqKey i.1 i.2) evs := by
  unfold seqParts partsOf
  apply List.filter_congr
  intro a ha
  have hnz' := hnz i hi
  cases hs : seqId a with
  | none => simp [memberKey_none_of_seqId_none hs]
  | some ia =>
    have hia : ia ∈ evs.filterMap seqId := List.mem_filterMap.mpr ⟨a, ha, hs⟩
    rw [memberKey_of_seqId hs]
    have hnza := hnz ia hia
    simp only [hnza, if_false]
    by_cases he : ia = i
    · subst he; simp
    · have hk : seqKey ia.1 ia.2 ≠ seqKey i.1 i.2 := fun hk => he (hinj ia hia i hi hk)
      have h1 : (some ia == some i) = false := by simpa using he
      have h2 : (some (seqKey ia.1 ia.2) == some (seqKey i.1 i.2)) = false := by simpa using hk
      rw [h1, h2]

/-- **hull_spec** (core obligation), per sequence key.  If the summarization returns, the input
uids are distinct and key `k` has parts, then among the output slices exactly one carries the uid
of a part of `k`; it is the *last* part, rewritten so that its `ts` is the earliest start `lo`, its
`ts + dur` the latest end `hi`, and its `Peers` the strictly increasing list of exactly the parts'
peers. -/
theorem hull_spec (evs : List CEv) (outs : List COut) (left : Nat)
    (h : summarize evs = .ok (outs, left)) (hu : (evs.map (fun ev => ev.uid)).Nodup)
    (k : Nat) (hne : partsOf k evs ≠ []) :
    ∃ (last : CEv) (name : String) (lo hi : Num) (peers : List Int),
      (partsOf k evs).getLast? = some last ∧
      outsOfKey k evs outs = [COut.merged { last with name := name, ts := lo, dur := hi - lo } peers] ∧
      (∀ p ∈ partsOf k evs, lo ≤ p.ts) ∧ (∃ p ∈ partsOf k evs, lo = p.ts) ∧
      (∀ p ∈ partsOf k evs, p.ts + p.dur ≤ hi) ∧ (∃ p ∈ partsOf k evs, hi = p.ts + p.dur) ∧
      lo + (hi - lo) = hi ∧
      peers.Pairwise (fun a b => a < b) ∧ (∀ x, x ∈ peers ↔ ∃ p ∈ partsOf k evs, p.peer = some x) := by
  have hr := summarize_ok_no_raise h
  rw [summarize_eq_spec evs hr] at h
  injection h with h; injection h with h1 h2
  subst h1
  obtain ⟨d, hd, hh⟩ := foldData_none_hull hne
  have hD : dataOf evs k = some d := hd
  cases hl : (partsOf k evs).getLast? with
  | none => exact absurd (List.getLast?_eq_none_iff.mp hl) hne
  | some last =>
    refine ⟨last, d.name, d.start, d.stop, d.peers, rfl, ?_, hh.start_le, hh.start_mem, hh.stop_ge,
      hh.stop_mem, by grind, hh.peers_sorted, hh.peers_mem⟩
    rw [outsOfKey_specOut hD evs hu, hl]
    rfl

/-- **hull_spec by (file, sequence number)**: under `KeysInjective` and `KeysNonzero` the same
holds for the SenRdma slices of one input file that share a sequence number. -/
theorem hull_spec_by_sequence (evs : List CEv) (outs : List COut) (left : Nat)
    (h : summarize evs = .ok (outs, left)) (hu : (evs.map (fun ev => ev.uid)).Nodup)
    (hinj : KeysInjective evs) (hnz : KeysNonzero evs)
    (i : Nat × List Char) (hne : seqParts i evs ≠ []) :
    ∃ (last : CEv) (name : String) (lo hi : Num) (peers : List Int),
      (seqParts i evs).getLast? = some last ∧
      outs.filter (fun o => (seqParts i evs).any (fun p => p.uid == o.uid)) =
        [COut.merged { last with name := name, ts := lo, dur := hi - lo } peers] ∧
      (∀ p ∈ seqParts i evs, lo ≤ p.ts) ∧ (∃ p ∈ seqParts i evs, lo = p.ts) ∧
      (∀ p ∈ seqParts i evs, p.ts + p.dur ≤ hi) ∧ (∃ p ∈ seqParts i evs, hi = p.ts + p.dur) ∧
      lo + (hi - lo) = hi ∧
      peers.Pairwise (fun a b => a < b) ∧ (∀ x, x ∈ peers ↔ ∃ p ∈ seqParts i evs, p.peer = some x) := by
  have hi : i ∈ evs.filterMap seqId := by
    cases hp : seqParts i evs with
    | nil => exact absurd hp hne
    | cons a l =>
      have ha : a ∈ seqParts i evs := by rw [hp]; simp
      have ha' := List.mem_filter.mp ha
      exact List.mem_filterMap.mpr ⟨a, ha'.1, by simpa using ha'.2⟩
  have heq := seqParts_eq_partsOf hinj hnz hi
  rw [heq] at hne ⊢
  exact hull_spec evs outs left h hu (seqKey i.1 i.2) hne

/-- **non_members_unchanged** (core obligation): the slices (and other events) that are not part
of a sequence leave the three stages exactly once, unchanged and in their original order. -/
theorem non_members_unchanged (evs : List CEv) (outs : List COut) (left : Nat)
    (h : summarize evs = .ok (outs, left)) :
    passesOf outs = evs.filter (fun ev => memberKey ev == none) := by
  have hr := summarize_ok_no_raise h
  rw [summarize_eq_spec evs hr] at h
  injection h with h; injection h with h1 h2
  subst h1
  exact passesOf_specOut _ evs

/-- the same, reading "not part of a sequence" off the event (`KeysNonzero` needed: a sequence
with key 0 is left alone by the code) -/
theorem non_members_unchanged_by_sequence (evs : List CEv) (outs : List COut) (left : Nat)
    (h : summarize evs = .ok (outs, left)) (hnz : KeysNonzero evs) :
    passesOf outs = evs.filter (fun ev => seqId ev == none) := by
  rw [non_members_unchanged evs outs left h]
  apply List.filter_congr
  intro a ha
  cases hs : seqId a with
  | none => simp [memberKey_none_of_seqId_none hs]
  | some ia =>
    have hia : ia ∈ evs.filterMap seqId := List.mem_filterMap.mpr ⟨a, ha, hs⟩
    rw [memberKey_of_seqId hs]
    simp [hnz ia hia]

/-- **nothing else is exported**: every output is either an unchanged event that is not part of a
sequence, or one of the output slices that `hull_spec` speaks about (it carries the uid of a part of
some key `k`).  With `hull_spec` (exactly one per key) this fixes the output completely. -/
theorem outputs_classified (evs : List CEv) (outs : List COut) (left : Nat)
    (h : summarize evs = .ok (outs, left)) :
    ∀ o ∈ outs, (∃ ev ∈ evs, memberKey ev = none ∧ o = COut.pass ev) ∨
      (∃ k, partsOf k evs ≠ [] ∧ o ∈ outsOfKey k evs outs) := by
  have hr := summarize_ok_no_raise h
  rw [summarize_eq_spec evs hr] at h
  injection h with h; injection h with h1 h2
  subst h1
  intro o ho
  rcases specOut_classified evs o ho with h1 | ⟨ev, hev, k, d, hm, rfl⟩
  · exact Or.inl h1
  · right
    have hp : ev ∈ partsOf k evs := mem_partsOf.mpr ⟨hev, hm⟩
    refine ⟨k, List.ne_nil_of_mem hp, ?_⟩
    unfold outsOfKey
    refine List.mem_filter.mpr ⟨ho, ?_⟩
    exact List.any_eq_true.mpr ⟨ev, hp, by simp [mergedEv, COut.uid]⟩

/-- **summarize_total** (the balance between the two phases): if every SenRdma slice carries a
jobhash, the run does not raise — application finds every key that it looks up — and no sequence
is left behind in the context. -/
theorem summarize_total (evs : List CEv) (hr : ∀ ev ∈ evs, raises ev = false) :
    ∃ outs, summarize evs = .ok (outs, 0) :=
  ⟨_, summarize_eq_spec evs hr⟩

/-- and conversely a SenRdma slice without jobhash makes the run raise -/
theorem summarize_raises (evs : List CEv) (ev : CEv) (hev : ev ∈ evs) (hr : raises ev = true) :
    ∃ e, summarize evs = .error e := by
  cases h : summarize evs with
  | error e => exact ⟨e, rfl⟩
  | ok r =>
    have := summarize_ok_no_raise h ev hev
    rw [hr] at this; simp at this

/-! ### the hypotheses cannot be dropped: concrete witnesses -/

def mkEv (uid : Nat) (name : String) (job : Nat) (ts dur : Num) (peer : Int) : CEv :=
  { uid, ph := "X", name, jobhash := some job, ts, dur, peer := some peer }

/-- file 1 / sequence 23 and file 12 / sequence 3: both get the key 123 -/
def collisionWitness : List CEv :=
  [mkEv 1 "SenRdmaSend_23" 1 0 1 5, mkEv 2 "SenRdmaSend_3" 12 10 1 6]

/-- **key_collision_merges**: two slices of *different* input files and *different* sequence
numbers are replaced by one slice spanning both — the statement fails without `KeysInjective`. -/
theorem key_collision_merges :
    ¬ KeysInjective collisionWitness ∧
    (collisionWitness.map seqId = [some (1, ['2', '3']), some (12, ['3'])]) ∧
    (summarize collisionWitness).toOption =
      some ([COut.merged { mkEv 2 "SenRdmaSend_3" 12 10 1 6 with name := "SenRdmaSend_", ts := 0, dur := 11 } [5, 6]], 0) := by
  refine ⟨?_, by decide +kernel, by decide +kernel⟩
  intro h
  have := h (1, ['2', '3']) (by decide +kernel) (12, ['3']) (by decide +kernel) (by decide +kernel)
  simp at this

/-- file with jobhash 0, sequence number 0 -/
def zeroWitness : List CEv :=
  [mkEv 1 "SenRdmaSend_0 a" 0 0 1 5, mkEv 2 "SenRdmaSend_0 b" 0 10 1 6]

/-- **key_zero_not_summarized**: a two-part sequence whose key is 0 is not summarized at all. -/
theorem key_zero_not_summarized :
    ¬ KeysNonzero zeroWitness ∧
    (zeroWitness.map seqId = [some (0, ['0']), some (0, ['0'])]) ∧
    (summarize zeroWitness).toOption = some (zeroWitness.map COut.pass, 0) := by
  refine ⟨?_, by decide +kernel, by decide +kernel⟩
  intro h
  exact h (0, ['0']) (by decide +kernel) (by decide +kernel)

/-! ### non-vacuity -/

/-- two interleaved sequences of one file, the same sequence number in a second file, a
non-member; the hypotheses of `hull_spec_by_sequence` hold -/
def sample : List CEv :=
  [mkEv 1 "SenRdmaSend_1030 - Set BcList [sync=g] DmaO" 7 10 5 0,
   mkEv 2 "SenRdmaSend_1000 [sync=h] DmaO" 7 11 30 1,
   mkEv 3 "SenRdmaSend_1030 - Xseg to rank 2 [sync=g] DmaO" 7 12 3 2,
   mkEv 4 "mm_3 Cmpt Exec" 7 13 1 9,
   mkEv 5 "SenRdmaSend_1030 Data [sync=g] DmaO" 9 14 6 1,
   mkEv 6 "SenRdmaSend_1030 Data [sync=g] DmaO" 7 9 2 2]

example : KeysInjective sample ∧ KeysNonzero sample ∧ (sample.map (fun ev => ev.uid)).Nodup := by
  decide +kernel

example : (summarize sample).toOption = some (
    [COut.merged { mkEv 2 "SenRdmaSend_1000 [sync=h] DmaO" 7 11 30 1 with
        name := "SenRdmaSend_1000 [sync=h] DmaO", ts := 11, dur := 30 } [1],
     COut.pass (mkEv 4 "mm_3 Cmpt Exec" 7 13 1 9),
     COut.merged { mkEv 5 "SenRdmaSend_1030 Data [sync=g] DmaO" 9 14 6 1 with
        name := "SenRdmaSend_1030 Data [sync=g] DmaO", ts := 14, dur := 6 } [1],
     COut.merged { mkEv 6 "SenRdmaSend_1030 Data [sync=g] DmaO" 7 9 2 2 with
        name := "SenRdmaSend_1030 ", ts := 9, dur := 6 } [0, 2]], 0) := by
  decide +kernel

example : seqParts (7, "1030".toList) sample ≠ [] := by decide +kernel

end AiuVerif.C20
