/-
C19, several ranks.  `PowerStatisticsContext` keeps ONE `last_power_sample` for all pids and the
samples of several ranks reach `analyze_power_statistics` rank after rank.  The theorems of
`Props/C19.lean` speak about whatever list of periods the collection produces; this file says which
list that is for a stream `s₁ ++ s₂` (everything up to the last event of one rank, then the events
from the first Power sample of the next rank on):

* `collect_append_overlapping`: when the next rank's first sample is not later than the last sample
  seen so far (the ranks' sampled ranges overlap, as those of one aligned job do), NO period is
  formed across the two ranks - the collected periods and kernel intervals are exactly those of the
  two parts, one after the other.  By induction over the ranks the pooled timeline of such a run is
  the concatenation of the ranks' own timelines, on which `C19.analyze_partitions_time` holds.
* `cross_rank_period_when_disjoint`: the hypothesis is needed - for ranks sampled over disjoint
  ranges a period from the last sample of one rank to the first sample of the next appears
  (observation `design_probes/e11.py`; outside the property's quantifier, which speaks of one
  sample sequence).
-/
import AiuVerif.Props.C19

namespace AiuVerif
namespace C19
open PowerStats

/-- the context with everything but `last` forgotten -/
def lastOnly (c : Coll) : Coll := { periods := [], last := c.last, kernels := [] }

/-- one callback step only ever APPENDS to `periods` and `kernels`, and what it appends (and the new
`last`) depends on the old `last` alone -/
theorem collect1_frame (c : Coll) (e : REv) :
    collect1 c e = { periods := c.periods ++ (collect1 (lastOnly c) e).periods,
                     last := (collect1 (lastOnly c) e).last,
                     kernels := c.kernels ++ (collect1 (lastOnly c) e).kernels } := by
  unfold collect1 lastOnly
  cases hts : e.ts with
  | none => simp
  | some ts =>
    simp only []
    by_cases h0 : ts = 0
    · simp [h0]
    · simp only [h0, if_false]
      by_cases hp : e.ph = "C" ∧ e.name = some "Power"
      · simp only [hp, and_self, if_true]
        cases hw : e.watts with
        | none => simp
        | some w =>
          cases hl : c.last with
          | none => simp
          | some lp =>
            obtain ⟨lts, lw⟩ := lp
            by_cases hlt : lts < ts <;> simp [hlt]
      · simp only [hp, if_false]
        by_cases hx : e.ph = "X" ∧ containsStr (e.name.getD "") "Cmpt Exec"
        · simp only [hx, and_self, if_true]
          by_cases hd : 0 < e.dur.getD 0 <;> simp [hd]
        · simp [hx]

/-- the same for a whole stream -/
theorem foldl_frame (s : List REv) (c : Coll) :
    s.foldl collect1 c = { periods := c.periods ++ (s.foldl collect1 (lastOnly c)).periods,
                           last := (s.foldl collect1 (lastOnly c)).last,
                           kernels := c.kernels ++ (s.foldl collect1 (lastOnly c)).kernels } := by
  induction s generalizing c with
  | nil => simp [lastOnly]
  | cons e rest ih =>
    simp only [List.foldl_cons]
    rw [ih (collect1 c e), ih (collect1 (lastOnly c) e)]
    have h1 := collect1_frame c e
    have hl : lastOnly (collect1 c e) = lastOnly (collect1 (lastOnly c) e) := by
      rw [h1]; simp [lastOnly]
    rw [hl]
    rw [h1]
    simp [List.append_assoc]

/-- **No period across two ranks whose sampled ranges overlap.**  `s₁` is everything collected so
far (its last Power sample was at `lts`), `e` the first Power sample of the next rank with
`0 ≠ ts ≤ lts`, `rest` whatever follows: the collection of the whole stream consists of the periods
and kernel intervals of `s₁` followed by those of `e :: rest` collected on its own. -/
theorem collect_append_overlapping (s₁ rest : List REv) (e : REv) (ts w lts lw : Num)
    (hts : e.ts = some ts) (hp : e.ph = "C" ∧ e.name = some "Power") (hw : e.watts = some w)
    (h0 : ts ≠ 0) (hl : (collect s₁).last = some (lts, lw)) (hle : ts ≤ lts) :
    (collect (s₁ ++ e :: rest)).periods = (collect s₁).periods ++ (collect (e :: rest)).periods ∧
    (collect (s₁ ++ e :: rest)).kernels = (collect s₁).kernels ++ (collect (e :: rest)).kernels := by
  have hnot : ¬ lts < ts := not_lt.mpr hle
  have step1 : collect1 (collect s₁) e = { collect s₁ with last := some (ts, w) } := by
    unfold collect1
    simp [hts, h0, hp, hw, hl, hnot]
  have step2 : collect1 ({} : Coll) e = { last := some (ts, w) } := by
    unfold collect1
    simp [hts, h0, hp, hw]
  have e0 : collect (s₁ ++ e :: rest) = rest.foldl collect1 (collect1 (collect s₁) e) := by
    simp [collect, List.foldl_append]
  have e1 : collect (s₁ ++ e :: rest) = rest.foldl collect1 { collect s₁ with last := some (ts, w) } := by
    rw [e0, step1]
  have e2 : collect (e :: rest) = rest.foldl collect1 { last := some (ts, w) } := by
    unfold collect
    rw [List.foldl_cons, step2]
  rw [e1, e2, foldl_frame rest { collect s₁ with last := some (ts, w) }, foldl_frame rest { last := some (ts, w) }]
  simp [lastOnly]

/-- the hypothesis `ts ≤ lts` is needed: rank 0 sampled over [10, 40], rank 1 over [100, 130] - the
collection contains the period (40, 100) that no rank sampled -/
theorem cross_rank_period_when_disjoint :
    let pw (t w : Num) : REv := { ph := "C", name := some "Power", ts := some t, watts := some w, dur := none }
    (collect [pw 10 5, pw 20 7, pw 40 0, pw 100 9, pw 110 3, pw 130 0]).periods =
      [(10, 20, 5), (20, 40, 7), (40, 100, 0), (100, 110, 9), (110, 130, 3)] := by
  decide +kernel

/-- non-vacuity of `collect_append_overlapping`: two ranks sampled over [10, 40] and [15, 35] -/
example :
    let pw (t w : Num) : REv := { ph := "C", name := some "Power", ts := some t, watts := some w, dur := none }
    (collect [pw 10 5, pw 20 7, pw 40 0]).last = some (40, 0) ∧
    (collect ([pw 10 5, pw 20 7, pw 40 0] ++ pw 15 9 :: [pw 25 3, pw 35 0])).periods =
      [(10, 20, 5), (20, 40, 7), (15, 25, 9), (25, 35, 3)] := by
  decide +kernel

end C19
end AiuVerif
