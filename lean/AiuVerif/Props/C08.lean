/-
C08 — exported events are globally ordered by timestamp, longer slices first on ties.

Structure of the argument:
  * `final_sort_last`   (generated data): the last `register_stage` site is an unconditional
    `sort_events` whose live context is global, unrestricted, keyed (ts,+1),(dur,-1);
  * `sort_batch`        : batch semantics of that stage = unqueued events, then the stable merge sort;
  * `export_sorted`     : for ANY stages in front of it and ANY input, the engine's output ends with
    that sorted block (uses C03.run_eq_runSpec) — no matter what is still buffered where;
  * `tie_rule`          : what `Pairwise evLE` means for the default key;
  * `intermediate_invisible` : the `-I` duplicate-and-hold stages (one after every stage, hence one
    after the final sort) do not change the output.
-/
import AiuVerif.Lemmas.Sort
import AiuVerif.Props.C03
import AiuVerif.Gen.Sites
import AiuVerif.Gen.Tables
import AiuVerif.Gen.Profiles
import AiuVerif.Props.C02

namespace AiuVerif.C08
open AiuVerif.Sort RS

/-- normal form of the context state of a *global* sort: no queue yet, or the single queue -/
def gstate (q : List SEv) : List (Lane × List SEv) := if q = [] then [] else [((0, 0), q)]

theorem stepQ_global (q : List SEv) (e : SEv) :
    stepQ true (gstate q) e = if queued e then (gstate (q ++ [e]), []) else (gstate q, [e]) := by
  unfold stepQ
  split
  · by_cases hq : q = []
    · simp [gstate, hq, insertQ, laneOf]
    · simp [gstate, hq, insertQ, laneOf]
  · rfl

/-- the sort stage in context state `gstate q` -/
def stageAt (revs : List Int) (q : List SEv) : RS SEv :=
  { σ := List (Lane × List SEv), s := gstate q, step := stepQ true, drain := drainQ revs }

theorem feed1_stageAt_pos (revs : List Int) (q : List SEv) (x : SEv) (xs : List SEv)
    (hx : queued x = true) :
    feed1 (stageAt revs q) (x :: xs) = feed1 (stageAt revs (q ++ [x])) xs := by
  have hstep : stepQ true (gstate q) x = (gstate (q ++ [x]), []) := by
    rw [stepQ_global]; simp [hx]
  simp only [feed1, stageAt, hstep, List.nil_append]

theorem feed1_stageAt_neg (revs : List Int) (q : List SEv) (x : SEv) (xs : List SEv)
    (hx : ¬ queued x = true) :
    feed1 (stageAt revs q) (x :: xs)
      = ((feed1 (stageAt revs q) xs).1, x :: (feed1 (stageAt revs q) xs).2) := by
  have hstep : stepQ true (gstate q) x = (gstate q, [x]) := by
    rw [stepQ_global]; simp [hx]
  simp only [feed1, stageAt, hstep, List.singleton_append]

theorem feed1_global (revs : List Int) (q xs : List SEv) :
    (feed1 (stageAt revs q) xs).2 = xs.filter (fun e => !queued e) ∧
    (feed1 (stageAt revs q) xs).1.drain (feed1 (stageAt revs q) xs).1.s
        = (q ++ xs.filter queued).mergeSort (evLE revs) := by
  induction xs generalizing q with
  | nil =>
    simp only [feed1, List.filter_nil, List.append_nil, true_and]
    by_cases hq : q = []
    · simp [stageAt, drainQ, gstate, hq]
    · simp [stageAt, drainQ, gstate, hq]
  | cons x xs ih =>
    by_cases hx : queued x = true
    · rw [feed1_stageAt_pos revs q x xs hx]
      have := ih (q ++ [x])
      simp only [hx, List.filter_cons, Bool.not_true, List.append_assoc,
        List.singleton_append] at this ⊢
      simpa using this
    · rw [feed1_stageAt_neg revs q x xs hx]
      have := ih q
      simp only [hx, List.filter_cons] at this ⊢
      simpa using this

/-- **Batch semantics of the global sort stage**: events that are not queued (no primary key / type
not accepted) pass through at once, the queued ones leave at drain as one stably sorted block. -/
theorem sort_batch (revs : List Int) (xs : List SEv) :
    batch (sortStage revs true) xs
      = xs.filter (fun e => !queued e) ++ (xs.filter queued).mergeSort (evLE revs) := by
  have h := feed1_global revs [] xs
  have hs : stageAt revs [] = sortStage revs true := by simp [stageAt, gstate, sortStage]
  rw [hs] at h
  simp only [batch, h.1, h.2, List.nil_append]

/-- events whose key tuple has the configured length (always true of real events: one slot per key) -/
def WellKeyed (revs : List Int) (e : SEv) : Prop := e.vals.length = revs.length

theorem evLE_trans (revs : List Int) (a b c : SEv) (ha : WellKeyed revs a) (hb : WellKeyed revs b)
    (hc : WellKeyed revs c) (h1 : evLE revs a b = true) (h2 : evLE revs b c = true) :
    evLE revs a c = true :=
  lexLE_trans _ _ _ (by rw [keyOf_length _ _ ha, keyOf_length _ _ hb])
    (by rw [keyOf_length _ _ hb, keyOf_length _ _ hc]) h1 h2

/-- sortedness of a merge sort whose elements are all well keyed (the order is total and transitive
on those; `List.pairwise_mergeSort` is applied on the subtype) -/
theorem sorted_block (revs : List Int) (q : List SEv) (hq : ∀ e ∈ q, WellKeyed revs e) :
    (q.mergeSort (evLE revs)).Pairwise (fun a b => evLE revs a b = true) := by
  -- transport to the subtype of well-keyed events
  let le' : {e : SEv // WellKeyed revs e} → {e : SEv // WellKeyed revs e} → Bool :=
    fun a b => evLE revs a.1 b.1
  have htr : ∀ a b c, le' a b → le' b c → le' a c :=
    fun a b c h1 h2 => evLE_trans revs a.1 b.1 c.1 a.2 b.2 c.2 h1 h2
  have htot : ∀ a b, (le' a b || le' b a) = true := fun a b =>
    lexLE_total _ _ (by rw [keyOf_length _ _ a.2, keyOf_length _ _ b.2])
  have hp := List.pairwise_mergeSort htr htot (q.attach.map fun x => ⟨x.1, hq x.1 x.2⟩)
  have hmap : ((q.attach.map fun x => (⟨x.1, hq x.1 x.2⟩ : {e : SEv // WellKeyed revs e})).mergeSort le').map
      Subtype.val = q.mergeSort (evLE revs) := by
    rw [List.map_mergeSort (r := le') (s := evLE revs) (f := Subtype.val)]
    · simp [List.map_map, Function.comp_def]
    · intro a _ b _; rfl
  rw [← hmap, List.pairwise_map]
  exact hp.imp (fun h => h)

/-- **The exported stream ends with one sorted block, whatever runs in front of the final sort.**
For every pipeline prefix `p` (any stages, any buffering), every input: the engine's output is the
unqueued events (in the real pipeline: none, every event has `ts`) followed by a permutation of
the queued ones that is sorted by the key. -/
theorem export_sorted (revs : List Int) (p : List (RS SEv)) (input : List SEv)
    (hk : ∀ e ∈ runSpec p input, WellKeyed revs e) :
    ∃ sorted, run (p ++ [sortStage revs true]) input
        = (runSpec p input).filter (fun e => !queued e) ++ sorted ∧
      sorted.Perm ((runSpec p input).filter queued) ∧
      sorted.Pairwise (fun a b => evLE revs a b = true) := by
  refine ⟨((runSpec p input).filter queued).mergeSort (evLE revs), ?_, List.mergeSort_perm _ _, ?_⟩
  · rw [C03.run_eq_runSpec]
    simp only [runSpec, List.foldl_append, List.foldl_cons, List.foldl_nil]
    exact sort_batch revs _
  · exact sorted_block revs _ (fun e he => hk e (List.mem_filter.mp he).1)

/-- if every event has the primary key (true behind `sanity_check`), the whole output is sorted -/
theorem export_sorted_all (revs : List Int) (p : List (RS SEv)) (input : List SEv)
    (hk : ∀ e ∈ runSpec p input, WellKeyed revs e) (hq : ∀ e ∈ runSpec p input, queued e = true) :
    (run (p ++ [sortStage revs true]) input).Pairwise (fun a b => evLE revs a b = true) ∧
    (run (p ++ [sortStage revs true]) input).Perm (runSpec p input) := by
  obtain ⟨s, h1, h2, h3⟩ := export_sorted revs p input hk
  have hf : (runSpec p input).filter (fun e => !queued e) = [] := by
    simp only [List.filter_eq_nil_iff]; intro e he; simp [hq e he]
  have hall : (runSpec p input).filter queued = runSpec p input :=
    List.filter_eq_self.mpr hq
  rw [h1, hf, List.nil_append]
  exact ⟨h3, by rw [hall] at h2; exact h2⟩

/-- **Tie rule** for the default key `ts,dur:r`: `a` may precede `b` iff `ts a < ts b`, or the
timestamps are equal and `a` is at least as long (a missing `dur` counts as 0, so events without
duration come last among equal timestamps). -/
theorem tie_rule (a b : SEv) (ta tb : Rat) (da db : Option Rat)
    (ha : a.vals = [some ta, da]) (hb : b.vals = [some tb, db]) :
    evLE [1, -1] a b = true ↔ ta < tb ∨ (ta = tb ∧ db.getD 0 ≤ da.getD 0) := by
  simp only [evLE, keyOf, ha, hb, List.zip_cons_cons, List.zip_nil_right, List.map_cons, List.map_nil,
    Option.getD_some, lexLE]
  have e1 : ((1 : Int) : Rat) * ta = ta := by grind
  have e2 : ((1 : Int) : Rat) * tb = tb := by grind
  have e3 : ((-1 : Int) : Rat) * da.getD 0 = -(da.getD 0) := by grind
  have e4 : ((-1 : Int) : Rat) * db.getD 0 = -(db.getD 0) := by grind
  rw [e1, e2, e3, e4]
  generalize da.getD 0 = x
  generalize db.getD 0 = y
  split
  · rename_i h; simp [h]
  · rename_i h1
    split
    · rename_i h2
      constructor
      · intro h; cases h
      · intro h; grind
    · rename_i h2
      have heq : ta = tb := by grind
      split
      · rename_i h3; constructor
        · intro _; right; exact ⟨heq, by grind⟩
        · intro _; rfl
      · rename_i h3
        split
        · rename_i h4; constructor
          · intro h; cases h
          · intro h; grind
        · rename_i h4; constructor
          · intro _; right; exact ⟨heq, by grind⟩
          · intro _; rfl

/-- a pass-through stage with an empty drain: `duplicate_and_hold` as the pipeline sees it -/
def dupHold : RS SEv := { σ := Unit, s := (), step := fun _ x => ((), [x]), drain := fun _ => [] }

theorem dupHold_batch (xs : List SEv) : batch dupHold xs = xs := by
  have : ∀ xs : List SEv, (feed1 dupHold xs).2 = xs ∧
      (feed1 dupHold xs).1.drain (feed1 dupHold xs).1.s = [] := by
    intro xs
    induction xs with
    | nil => exact ⟨rfl, rfl⟩
    | cons x xs ih =>
      simp only [feed1, dupHold] at ih ⊢
      exact ⟨by simpa using ih.1, ih.2⟩
  simp [batch, (this xs).1, (this xs).2]

/-- `-I`: a duplicate-and-hold stage after every registered stage -/
def withIntermediate : List (RS SEv) → List (RS SEv)
  | [] => []
  | st :: rest => st :: dupHold :: withIntermediate rest

/-- **Nothing is exported after, or changed by, the intermediate-dump stages** (in particular the
one that `-I` registers behind the final sort). -/
theorem intermediate_invisible (p : List (RS SEv)) (input : List SEv) :
    run (withIntermediate p) input = run p input := by
  rw [C03.run_eq_runSpec, C03.run_eq_runSpec]
  induction p generalizing input with
  | nil => rfl
  | cons st rest ih =>
    simp only [withIntermediate, runSpec, List.foldl_cons, dupHold_batch] at ih ⊢
    exact ih _

/-! ### the generated pipeline shape -/

/-- **The last registration site is the unconditional global (ts, −dur) sort over all event types**
(re-decided on the data generated from the current source and live contexts on every run). -/
theorem final_sort_last :
    Gen.sites.getLast?.map (fun s => (s.name, s.cond)) = some ("sort_events", false) ∧
    Gen.sortCtxs.getLast?.map (fun c => (c.site + 1, c.sortkey, c.globalSort, c.eventTypes))
      = some (Gen.sites.length, [("ts", 1), ("dur", -1)], true, none) := by
  decide +kernel

/-- **The shipped profiles end with the enabled final sort** — the registration of the last site is
matched against the last profile entry (C16.greedy_identity), so an entry moved behind it, or a
disabled last entry, would silently switch the final sort off. -/
theorem final_sort_enabled_in_profiles :
    Gen.everything.map (·.getLast?) = some (some ("sort_events", true)) ∧
    Gen.torchMinimal.map (·.getLast?) = some (some ("sort_events", true)) := by
  decide +kernel

/-- **The sort key of the final sort is the export key** (`sort_key_eq_export_key`): for every
switch combination no counter, flow arrow, metadata or instant event can reach the final sort with a
`dur` of its own — the only stage that puts one there (`compute_utilization`, on its counters) is
followed by the stage that removes it, whatever is switched on.  So "no duration" at the final sort
is "no duration" in the file, and `export_sorted_all` speaks about the exported order.  The stage
effects the analysis relies on are re-observed on the real per-stage streams of every `-I` run
(`harness/props/c02.py`, key `nonSliceDur`). -/
theorem sort_key_eq_export_key (v : String → Bool) :
    Export.mayCarry .nonSliceDur v (Gen.sites.dropLast.map fun s => ⟨s.name, s.cond, s.guard⟩) false = false ∧
    Export.effect .nonSliceDur "sort_events" = .none := by
  refine ⟨?_, rfl⟩
  have h := C02.no_nonslice_dur v false
  have hlast : Gen.sites.getLast?.map (·.name) = some "sort_events" := by decide +kernel
  -- the last site has no effect on the key, so the value behind all sites is the value in front of it
  have hsplit : C02.genSt = (Gen.sites.dropLast.map fun s => (⟨s.name, s.cond, s.guard⟩ : Export.St)) ++
      [⟨"sort_events", false, ""⟩] := by decide +kernel
  rw [hsplit] at h
  have key : ∀ (L : List Export.St) (f : Bool),
      Export.mayCarry .nonSliceDur v (L ++ [⟨"sort_events", false, ""⟩]) f = Export.mayCarry .nonSliceDur v L f := by
    intro L
    induction L with
    | nil => intro f; simp [Export.mayCarry, Export.selected, Export.effect]
    | cons s rest ih =>
      intro f
      simp only [List.cons_append, Export.mayCarry]
      split
      · split <;> exact ih _
      · exact ih _
  rw [key] at h
  exact h

/-! ### non-vacuity -/
def ev (u : Nat) (ts : Rat) (d : Option Rat) : SEv :=
  { uid := u, accepted := true, pid := 0, tid := 0, vals := [some ts, d] }

/-- the hypotheses of `export_sorted_all` are met by concrete events with ties in ts and dur -/
example : ∀ e ∈ [ev 1 5 (some 2), ev 2 3 none, ev 3 5 (some 4), ev 4 3 (some 1), ev 5 5 none],
    WellKeyed [1, -1] e ∧ queued e = true := by
  simp [WellKeyed, ev, queued, hasPrimary]
/-- longer first on a tie, slice before a duration-less event, earlier ts first -/
example : evLE [1, -1] (ev 3 5 (some 4)) (ev 1 5 (some 2)) = true ∧
    evLE [1, -1] (ev 1 5 (some 2)) (ev 3 5 (some 4)) = false ∧
    evLE [1, -1] (ev 1 5 (some 2)) (ev 5 5 none) = true ∧
    evLE [1, -1] (ev 5 5 none) (ev 1 5 (some 2)) = false ∧
    evLE [1, -1] (ev 2 3 none) (ev 3 5 (some 4)) = true := by decide +kernel

end AiuVerif.C08
