/-
C04 — after overlap resolution, slices sharing a pid/tid lane are nested or disjoint; -O tid
changes only the tid, never drops, never merges lanes; -O drop output is laminar.

All statements are about `Overlap.pipeline` (Model/OverlapSort.lean: the registered stages
sort_events → assert_ts_sequence → detect_partial_overlap_tids → pipeline_barrier →
detect_partial_overlap_events) or about the detection stage `Overlap.detectAll` for an arbitrary
tid map, for all event lists; the Python `assert`s and the `KeyError` at the end of a tid range are
error results of the model, so "the run produced an output" is the hypothesis `= .ok out`.
Ends are the rounded ends `Ev.endOf e = round(ts + dur, 4)` the code compares.
-/
import AiuVerif.Lemmas.Overlap
import AiuVerif.Lemmas.OverlapSort
import AiuVerif.Lemmas.OverlapLanes
import AiuVerif.Lemmas.OverlapRound
import AiuVerif.Lemmas.OverlapFuel
import AiuVerif.Lemmas.OverlapMoved

namespace AiuVerif.C04
open AiuVerif.Overlap

/-- two slices are disjoint or one contains the other, w.r.t. the rounded ends -/
def Laminar (a b : Ev) : Prop :=
  a.endOf ≤ b.ts ∨ b.endOf ≤ a.ts ∨
    (a.ts ≤ b.ts ∧ b.endOf ≤ a.endOf) ∨ (b.ts ≤ a.ts ∧ a.endOf ≤ b.endOf)

/-- any two slices of the stream that share `(pid, tid)` are laminar -/
def LanesLaminar (out : List Ev) : Prop :=
  out.Pairwise (fun a b => a.isX = true → b.isX = true → a.pid = b.pid → a.tid = b.tid → Laminar a b)

theorem lanesLaminar_of_lamList {out : List Ev} (h : LamList out) : LanesLaminar out := by
  refine List.Pairwise.imp ?_ h
  intro a b hab hxa hxb hp ht
  exact hab hxa hxb (by simp [Ev.lane, hp, ht])

/-- Stage level, any mode, any tid map (`next`), any fuel, any input stream: whatever
`detect_partial_overlap_events` emits without raising is laminar on every lane. -/
theorem laminar_stage (mode : Mode) (next : Nat → Nat → Option Nat) (fuel : Nat)
    (evs : List Ev) (st' : Lanes) (out : List Ev)
    (h : detectAll mode next fuel Lanes.init evs = .ok (st', out)) : LanesLaminar out := by
  have := detectAll_spec mode next fuel evs Lanes.init [] st' out Inv_init List.Pairwise.nil h
  exact lanesLaminar_of_lamList (by simpa using this.2)

/-- **Clause 1 (-O tid).** For every input event list, if the registered sub-pipeline
(sort → collect tids → barrier → detect, -O tid) produces an output, then any two output slices
with the same pid and tid are disjoint or nested w.r.t. the rounded ends. -/
theorem laminar_tid (evs out : List Ev) (h : pipeline .tid evs = .ok out) : LanesLaminar out := by
  unfold pipeline at h
  simp only [] at h
  split at h
  · cases h
  · rename_i st' out' hd
    injection h with h; subst h
    exact laminar_stage _ _ _ _ _ _ hd

/-- disjoint or nested on the *unrounded* ends `ts + dur`, up to 0.1 ns = 10⁻⁴ µs -/
def LaminarRaw (a b : Ev) : Prop :=
  a.ts + a.dur ≤ b.ts + 1/10000 ∨ b.ts + b.dur ≤ a.ts + 1/10000 ∨
    (a.ts ≤ b.ts ∧ b.ts + b.dur ≤ a.ts + a.dur + 1/10000) ∨
    (b.ts ≤ a.ts ∧ a.ts + a.dur ≤ b.ts + b.dur + 1/10000)

/-- the rounding the tool applies costs at most 0.1 ns: laminar on rounded ends implies laminar
on the exact ends up to 10⁻⁴ µs (`|round(x,4) − x| ≤ 5·10⁻⁵`, `rnd4_close`) -/
theorem laminarRaw_of_laminar {a b : Ev} (h : Laminar a b) : LaminarRaw a b := by
  have ha := rnd4_close (a.ts + a.dur)
  have hb := rnd4_close (b.ts + b.dur)
  unfold Laminar Ev.endOf at h
  unfold LaminarRaw
  grind

/-- **Clause 1 with the tolerance of the statement (-O tid and -O drop).** Any two output slices
with the same pid and tid are disjoint or nested on their true ends `ts + dur` up to 0.1 ns. -/
theorem laminar_raw (mode : Mode) (evs out : List Ev) (h : pipeline mode evs = .ok out) :
    out.Pairwise (fun a b => a.isX = true → b.isX = true → a.pid = b.pid → a.tid = b.tid →
      LaminarRaw a b) := by
  have hl : LanesLaminar out := by
    unfold pipeline at h
    simp only [] at h
    split at h
    · cases h
    · rename_i st' out' hd
      injection h with h; subst h
      exact laminar_stage _ _ _ _ _ _ hd
  exact List.Pairwise.imp (fun hab hxa hxb hp ht => laminarRaw_of_laminar (hab hxa hxb hp ht)) hl

/-- **Clause 1 (-O drop).** The same for -O drop, and the output is a sub-list of the sorted
input (events are only ever removed, never altered). -/
theorem laminar_drop (evs out : List Ev) (h : pipeline .drop evs = .ok out) : LanesLaminar out := by
  unfold pipeline at h
  simp only [] at h
  split at h
  · cases h
  · rename_i st' out' hd
    injection h with h; subst h
    exact laminar_stage _ _ _ _ _ _ hd

/-- **Clause 1 (-O drop), second half.** -O drop only removes events: the output is a sub-list
(same order, every survivor unchanged in all fields) of the sorted input, which is a permutation
of the input. -/
theorem drop_sublist (evs out : List Ev) (h : pipeline .drop evs = .ok out) :
    out.Sublist (sortStage evs) ∧ (sortStage evs).Perm evs := by
  unfold pipeline at h
  simp only [] at h
  split at h
  · cases h
  · rename_i st' out' hd
    injection h with h; subst h
    exact ⟨detectAll_drop_sublist _ _ _ _ _ _ hd, sortStage_perm evs⟩

/-- **Clause 2 (-O tid changes only the tid, never drops).** Stage level: the emitted stream is
the input stream elementwise — same length, same order, every field except `tid` equal. -/
theorem only_tid_changes_stage (next : Nat → Nat → Option Nat) (fuel : Nat)
    (evs : List Ev) (st st' : Lanes) (out : List Ev)
    (h : detectAll .tid next fuel st evs = .ok (st', out)) :
    out.map Ev.noTid = evs.map Ev.noTid :=
  detectAll_tid_noTid next fuel evs st st' out h

/-- **Clause 2, sub-pipeline.** With -O tid the output is the sorted input with tids replaced,
elementwise; hence, up to the order the sort stage fixes, exactly the input events: nothing
dropped, nothing duplicated, ts / dur / pid / ph / identity untouched. -/
theorem only_tid_changes (evs out : List Ev) (h : pipeline .tid evs = .ok out) :
    out.map Ev.noTid = (sortStage evs).map Ev.noTid ∧ (out.map Ev.noTid).Perm (evs.map Ev.noTid) := by
  unfold pipeline at h
  simp only [] at h
  split at h
  · cases h
  · rename_i st' out' hd
    injection h with h; subst h
    have := detectAll_tid_noTid _ _ _ _ _ _ hd
    exact ⟨this, this ▸ (sortStage_perm evs).map _⟩

/-- **Clause 3 (-O tid never merges lanes).** Put the sorted input and the output of the
sub-pipeline side by side (they correspond elementwise by `only_tid_changes`): two slices that
share an output lane `(pid, tid)` were on the same input lane.  Rests on
`owns_unique` (= `buildTidSpace_disjoint`): the ranges `_collect_and_build_tid_space` hands out
are pairwise disjoint and disjoint from every tid seen in the pid. -/
theorem lanes_not_merged (evs out : List Ev) (h : pipeline .tid evs = .ok out) :
    ∀ p ∈ (sortStage evs).zip out, ∀ q ∈ (sortStage evs).zip out,
      p.1.isX = true → q.1.isX = true → p.2.pid = q.2.pid → p.2.tid = q.2.tid →
        p.1.pid = q.1.pid ∧ p.1.tid = q.1.tid := by
  unfold pipeline at h
  simp only [] at h
  split at h
  · cases h
  rename_i st' out' hd
  injection h with h; subst h
  intro p hp q hq hxp hxq hpid htid
  obtain ⟨hp1, _, hp3, _⟩ := detectAll_tid_zip _ _ _ _ _ _ hd p hp
  obtain ⟨hq1, _, hq3, _⟩ := detectAll_tid_zip _ _ _ _ _ _ hd q hq
  have hpq : p.1.pid = q.1.pid := by rw [← hp1, ← hq1, hpid]
  refine ⟨hpq, ?_⟩
  have hmp := seenOf_foldl_mem (sortStage evs) [] p.1 (List.of_mem_zip hp).1 hxp
  have hmq := seenOf_foldl_mem (sortStage evs) [] q.1 (List.of_mem_zip hq).1 hxq
  rw [← hpq] at hmq hq3
  have hnx := nextOf_buildSpaces maxTidStreams (sortStage evs) p.1.pid
  have h1 := owns_reach hnx (owns_self hmp) hp3
  have h2 := owns_reach hnx (owns_self hmq) hq3
  rw [htid] at h1
  exact owns_unique h1 h2

/-- **The hypothesis `= .ok out` is met by every well-formed input except for the lane budget.**
For every input whose timestamps are non-negative (lane heads start at `0.0`), neither `assert` of
`overlap_detection` can fire in the registered sub-pipeline: the sort stage leaves every lane
start-sorted (`sortStage_laneSorted`), and a moved slice only ever lands on lanes of its own
family, which no other lane uses (`famDisj_built`).  The only error results left are the
`KeyError` at the end of a tid range (budget exceeded) and the model's fuel guard. -/
theorem no_assert (mode : Mode) (evs : List Ev) (hnn : ∀ e ∈ evs, 0 ≤ e.ts) (e : Err)
    (h : pipeline mode evs = .error e) : e = .keyError ∨ e = .recursion := by
  unfold pipeline at h
  simp only [] at h
  split at h
  · rename_i e' hd
    injection h with h; subst h
    refine detectAll_no_assert mode _ _ (sortStage evs) Lanes.init StateOK_init ?_
      (sortStage_laneSorted evs) ?_ _ hd
    · intro b hb _ t _
      exact hnn b ((sortStage_perm evs).mem_iff.mp hb)
    · cases mode with
      | tid => exact famDisj_built _ _
      | drop => exact famDisj_nil _
  · cases h

theorem exists_zip_of_mem_right {α β : Type} : ∀ (l : List α) (l' : List β), l.length = l'.length →
    ∀ y ∈ l', ∃ x, (x, y) ∈ l.zip l'
  | [], [], _, y, hy => by simp at hy
  | [], _ :: _, h, _, _ => by simp at h
  | _ :: _, [], h, _, _ => by simp at h
  | a :: l, b :: l', h, y, hy => by
    rcases List.mem_cons.mp hy with hy | hy
    · subst hy; exact ⟨a, by simp⟩
    · obtain ⟨x, hx⟩ := exists_zip_of_mem_right l l' (by simpa using h) y hy
      exact ⟨x, by simp [hx]⟩

/-- **Clause 2, "the offending slice" (-O tid moves only offending slices).** Take any slice `b` of
the sorted input (`sortStage evs = pre ++ b :: post`); the output has an element at the same
position, and if its tid differs from `b`'s then `b` is offending: an earlier slice `a` of the
*same input lane* partially overlaps it (not disjoint, not nested, w.r.t. the rounded ends).
Uses: lane stacks hold ends of emitted slices (`EndsFrom`), output lane ⇒ input lane
(`owns_unique`), the `(ts, -dur)` tie-break of the sort, monotonicity of `round(·,4)`. -/
theorem moved_only_if_offending (evs out pre post : List Ev) (b : Ev)
    (h : pipeline .tid evs = .ok out) (hs : sortStage evs = pre ++ b :: post) (hx : b.isX = true) :
    ∃ b', out[pre.length]? = some b' ∧
      (b'.tid ≠ b.tid →
        ∃ a ∈ pre, a.isX = true ∧ a.pid = b.pid ∧ a.tid = b.tid ∧ ¬ Laminar a b) := by
  unfold pipeline at h
  simp only [] at h
  split at h
  · cases h
  rename_i st' out' hd
  injection h with h; subst h
  have hks := sortStage_keySorted evs
  have hmem : ∀ e ∈ pre ++ b :: post, e ∈ sortStage evs := by rw [hs]; exact fun e he => he
  generalize hnx : nextOf (buildSpaces maxTidStreams (sortStage evs)) = next at hd
  generalize spaceSize (buildSpaces maxTidStreams (sortStage evs)) + 1 = fuel at hd
  rw [hs] at hd hks
  obtain ⟨st1, em, b', outpost, g1, g2, g3⟩ := moved_witness_stage next fuel pre b post _ _ hx hd
  have hlen : pre.length = em.length := by
    have := congrArg List.length (detectAll_tid_noTid next fuel pre _ _ _ g1)
    simpa using this.symm
  refine ⟨b', by rw [g2, hlen]; simp, ?_⟩
  intro hne
  obtain ⟨a', ha', k1, k2, k3, k4, k5⟩ := g3 hne
  obtain ⟨a, hz⟩ := exists_zip_of_mem_right pre em hlen a' ha'
  obtain ⟨z1, z2, z3, z4⟩ := detectAll_tid_zip next fuel pre _ _ _ g1 (a, a') hz
  simp only [] at z1 z2 z3 z4
  have hapre : a ∈ pre := (List.of_mem_zip hz).1
  have hax : a.isX = true := by rw [← z2]; exact k1
  have hpid : a.pid = b.pid := by
    rw [← z1]; exact congrArg Prod.fst k2
  have htid' : a'.tid = b.tid := congrArg Prod.snd k2
  -- the slice met on b's lane came from b's input lane
  have htid : a.tid = b.tid := by
    have hma := seenOf_foldl_mem (sortStage evs) [] a (hmem a (List.mem_append_left _ hapre)) hax
    have hmb := seenOf_foldl_mem (sortStage evs) [] b (hmem b (by simp)) hx
    rw [← hpid] at hmb
    have hn := nextOf_buildSpaces maxTidStreams (sortStage evs) a.pid
    rw [hnx] at hn
    have o1 := owns_reach hn (owns_self hma) z3
    rw [htid'] at o1
    exact owns_unique o1 (owns_self hmb)
  refine ⟨a, hapre, hax, hpid, htid, ?_⟩
  have hts : a'.ts = a.ts := by rw [z4]
  have hend : a'.endOf = a.endOf := by rw [z4]; rfl
  rw [hts] at k3
  rw [hend] at k4 k5
  -- equal starts are excluded by the (ts, -dur) order of the sort and monotone rounding
  have hk : KeyOrd a b := by
    have := (List.pairwise_append.mp hks).2.2 a hapre b (by simp)
    exact this (by simp [Ev.lane, hpid, htid])
  have hlt : a.ts < b.ts := by
    rcases hk with hk | ⟨hk1, hk2⟩
    · exact hk
    · exfalso
      have : b.endOf ≤ a.endOf := by
        unfold Ev.endOf
        apply rnd4_mono
        rw [hk1]; grind
      grind
  unfold Laminar
  grind

/-- **Budget (-O tid): a lane owns at most `max_tid_streams` = 5 extra lanes.** For every input
lane `(pid, T)` there is one list `c` of at most 5 tids such that every slice of that lane leaves
the sub-pipeline on tid `T` or on a tid of `c` (and by `lanes_not_merged` nobody else uses them).
A slice that collides on all six has nowhere to go: that is the `KeyError` of `error_is_budget`. -/
theorem lane_budget (evs out : List Ev) (h : pipeline .tid evs = .ok out) (pid T : Nat) :
    ∃ c : List Nat, c.length ≤ maxTidStreams ∧
      ∀ q ∈ (sortStage evs).zip out, q.1.isX = true → q.1.pid = pid → q.1.tid = T →
        q.2.tid = T ∨ q.2.tid ∈ c := by
  unfold pipeline at h
  simp only [] at h
  split at h
  · cases h
  rename_i st' out' hd
  injection h with h; subst h
  let seen := seenOf ((sortStage evs).foldl collect []) pid
  have hnd : seen.Nodup := seenOf_foldl_nodup (sortStage evs) [] (fun p => by simp [seenOf, amapGet]) pid
  by_cases hT : T ∈ seen
  · obtain ⟨c, hlen, hc⟩ := owns_budget (n := maxTidStreams) hnd hT
    refine ⟨c, hlen, ?_⟩
    intro q hq hx hp ht
    obtain ⟨_, _, hr, _⟩ := detectAll_tid_zip _ _ _ _ _ _ hd q hq
    rw [hp, ht] at hr
    exact hc _ (owns_reach (nextOf_buildSpaces maxTidStreams (sortStage evs) pid) (owns_self hT) hr)
  · refine ⟨[], by simp, ?_⟩
    intro q hq hx hp ht
    exfalso
    have := seenOf_foldl_mem (sortStage evs) [] q.1 (List.of_mem_zip hq).1 hx
    rw [hp, ht] at this
    exact hT this

/-- The model's fuel guard is an artefact that never shows: `find_next_tid` of a built space is
strictly increasing (`pidMap_built_lt`), so the re-detection recursion ends within the fuel
`#entries + 1` for every input (no hypothesis on the events). -/
theorem no_fuel_exhaustion (mode : Mode) (evs : List Ev) : pipeline mode evs ≠ .error .recursion := by
  intro h
  unfold pipeline at h
  simp only [] at h
  split at h
  · rename_i e' hd
    injection h with h; subst h
    revert hd
    cases mode with
    | tid =>
      exact detectAll_no_recursion _ _ (hopsLeft (buildSpaces maxTidStreams (sortStage evs)))
        (fun p t t' hn => hopsLeft_decreases (pidMap_built_lt _ _) hn) _
        (fun p t => Nat.le_succ_of_le (hopsLeft_le _ p t)) _ _
    | drop =>
      exact detectAll_no_recursion _ _ (hopsLeft [])
        (fun p t t' hn => by simp [nextOf, amapGet] at hn) _
        (fun p t => Nat.le_succ_of_le (hopsLeft_le _ p t)) _ _
  · cases h

/-- **Budget branch.** On well-formed input (timestamps ≥ 0) the only way the -O tid sub-pipeline
can fail is the `KeyError` of `find_next_tid` at the end of a tid range, i.e. a slice that collided
on its own lane and on all `max_tid_streams` lanes of its range (witness below: a staircase of 7). -/
theorem error_is_budget (evs : List Ev) (hnn : ∀ e ∈ evs, 0 ≤ e.ts) (e : Err)
    (h : pipeline .tid evs = .error e) : e = .keyError := by
  rcases no_assert .tid evs hnn e h with h1 | h1
  · exact h1
  · exact absurd (h1 ▸ h) (no_fuel_exhaustion .tid evs)

/-! ### converse of the budget branch -/

/-- the slice passes both assertions of `overlap_detection` on lane `(pid, t)` and partially overlaps
an open slice there (`check_overlap_condition` is true on a blocked lane) -/
def Colliding (st : Lanes) (ev : Ev) (t : Nat) : Prop :=
  let q := st (ev.pid, t)
  q.cur ≤ ev.ts ∧ q.blocked = !q.ends.isEmpty ∧ q.blocked = true ∧ overlaps ev.ts ev.endOf q.ends = true

/-- `chain` lists the lanes `find_next_tid` visits after lane `t`, up to the end of the range -/
def RangeChain (next : Nat → Nat → Option Nat) (pid : Nat) : Nat → List Nat → Prop
  | t, [] => next pid t = none
  | t, t' :: r => next pid t = some t' ∧ RangeChain next pid t' r

/-- **Converse of the budget branch** (stage level, any tid map, any lane table): a slice that
collides on its own lane and on every lane of its range raises the `KeyError` of `find_next_tid`,
provided the recursion budget covers the range (it always does: `no_fuel_exhaustion`).  Together
with `error_is_budget` (the only failure on well-formed input is that `KeyError`) and
`lane_budget` (a range has at most `max_tid_streams` lanes) this characterises the error branch. -/
theorem collide_chain_raises (next : Nat → Nat → Option Nat) (st : Lanes) (chain : List Nat) :
    ∀ (fuel : Nat) (ev : Ev), chain.length ≤ fuel → RangeChain next ev.pid ev.tid chain →
      Colliding st ev ev.tid → (∀ t ∈ chain, Colliding st ev t) →
      detect .tid next fuel st ev = .error .keyError := by
  induction chain with
  | nil =>
    intro fuel ev _ hch hc _
    obtain ⟨h1, h2, h3, h4⟩ := hc
    simp only [RangeChain] at hch
    unfold detect
    simp only [Ev.lane] at *
    have hne : (st (ev.pid, ev.tid)).ends ≠ [] := by
      intro h; rw [h3, h] at h2; simp at h2
    simp [h1, h2, h4, hch, hne]
  | cons t' r ih =>
    intro fuel ev hf hch hc hall
    obtain ⟨hn, hrest⟩ := hch
    obtain ⟨h1, h2, h3, h4⟩ := hc
    cases fuel with
    | zero => simp at hf
    | succ f =>
      have hrec := ih f { ev with tid := t' } (by simpa using hf) hrest
        (hall t' (List.mem_cons_self ..)) (fun t ht => hall t (List.mem_cons_of_mem _ ht))
      unfold detect
      simp only [Ev.lane] at *
      have hne : (st (ev.pid, ev.tid)).ends ≠ [] := by
        intro h; rw [h3, h] at h2; simp at h2
      simp [h1, h2, h4, hn, hrec, hne]

/-- non-vacuity: three busy lanes 0 → 1 → 2 (end of range) and a slice [5, 15) that cuts the open
end 10 on each of them -/
example :
    let next : Nat → Nat → Option Nat := fun _ t => if t < 2 then some (t + 1) else none
    let st : Lanes := fun _ => ⟨1, true, [10]⟩
    let ev : Ev := ⟨1, true, 0, 0, 5, 10⟩
    RangeChain next ev.pid ev.tid [1, 2] ∧ Colliding st ev ev.tid ∧ (∀ t ∈ [1, 2], Colliding st ev t) ∧
      detect .tid next 2 st ev = .error .keyError := by
  intro next st ev
  have hc : ∀ t, Colliding st ev t := by
    intro t
    refine ⟨by decide +kernel, by decide, rfl, by decide +kernel⟩
  have hch : RangeChain next ev.pid ev.tid [1, 2] := by
    simp [RangeChain, next, ev]
  exact ⟨hch, hc _, fun t _ => hc t,
    collide_chain_raises next st [1, 2] 2 ev (by simp) hch (hc _) (fun t _ => hc t)⟩

/-- **-O drop is total on well-formed input**: it always produces an output (to which
`laminar_drop` and `drop_sublist` apply). -/
theorem drop_total (evs : List Ev) (hnn : ∀ e ∈ evs, 0 ≤ e.ts) : ∃ out, pipeline .drop evs = .ok out := by
  cases hp : pipeline .drop evs with
  | ok out => exact ⟨out, rfl⟩
  | error e =>
    exfalso
    have h1 := no_assert .drop evs hnn e hp
    unfold pipeline at hp
    simp only [] at hp
    split at hp
    · rename_i e' hd
      injection hp with hp; subst hp
      have h2 := detectAll_drop_err _ _ _ _ _ hd
      rcases h1 with h1 | h1 <;> rcases h2 with h2 | h2 <;> rw [h1] at h2 <;> cases h2
    · cases hp

/-! ### non-vacuity: concrete runs that meet the hypotheses and exercise the branches -/

deriving instance DecidableEq for Except

def x (uid tid : Nat) (ts dur : Rat) : Ev := { uid := uid, isX := true, pid := 0, tid := tid, ts := ts, dur := dur }

/-- four slices on lane (0,7): uid 1 partially overlaps uid 0 (→ tid 8), uid 3 is nested, uid 2
collides on 7 and again on 8 (→ tid 9). -/
example : pipeline .tid [x 0 7 0 3, x 1 7 1 3, x 2 7 2 3, x 3 7 1 1]
    = .ok [x 0 7 0 3, x 1 8 1 3, x 3 7 1 1, x 2 9 2 3] := by decide +kernel

example : pipeline .drop [x 0 7 0 3, x 1 7 1 3, x 2 7 2 3, x 3 7 1 1]
    = .ok [x 0 7 0 3, x 3 7 1 1] := by decide +kernel

/-- the decomposition hypothesis of `moved_only_if_offending` on the same input: `b` = uid 1 (moved
to tid 8 above) comes after `pre` = [uid 0], which it partially overlaps -/
example : sortStage [x 0 7 0 3, x 1 7 1 3, x 2 7 2 3, x 3 7 1 1]
    = [x 0 7 0 3] ++ x 1 7 1 3 :: [x 3 7 1 1, x 2 7 2 3] := by decide +kernel

example : ¬ Laminar (x 0 7 0 3) (x 1 7 1 3) := by unfold Laminar; decide +kernel

/-- lanes 7 and 8 both exist in the input: the slice moved off lane 7 goes to 9 (8 is excluded),
the one moved off lane 8 to 14 (9..13 belong to lane 7) -/
example : pipeline .tid [x 0 7 0 3, x 1 7 1 3, x 2 8 0 3, x 3 8 1 3]
    = .ok [x 0 7 0 3, x 1 9 1 3, x 2 8 0 3, x 3 14 1 3] := by decide +kernel

/-- the rounding is not the identity: 1/32 + 1/32 ends at 0.0625, 1/32 alone at 0.0312 -/
example : (x 0 7 0 (1/32)).endOf = 39/1250 := by decide +kernel

/-- a seventh slice of a staircase exceeds the five extra lanes: the `KeyError` branch -/
example : pipeline .tid ((List.range 7).map fun i => x i 7 i 20) = .error .keyError := by decide +kernel

/-- a negative timestamp trips `assert current_ts <= event["ts"]` (lanes start at 0.0) -/
example : pipeline .tid [x 0 7 (-1) 3] = .error .assertOrder := by decide +kernel

end AiuVerif.C04
