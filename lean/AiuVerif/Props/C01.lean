/-
C01 — every input slice is exported exactly once unless a documented rule removes it.

Shape of the argument.  `uid` gives the identity of an input slice carried by an event (`none` for
events the tool synthesizes).  A stage *conserves* slices when the slice uids of its batch output
together with some list `r` of removed uids are a permutation of the slice uids of its batch
input (nothing duplicated, nothing invented); it is *pass class* when `r` is always empty.
`pipeline_conserves` lifts this through the real streaming engine for ANY pipeline, ANY input and
ANY amount of buffering (C03.run_eq_runSpec): a slice can only disappear in a filter-class stage,
and `site_classes_total` / `filters_are_documented` re-decide on the site list generated from the
source that every registrable stage has a class and that the filter-class ones are exactly the
documented rules.  That each real stage honours the contract of its class is validated on real
runs (per-stage in/out streams from `-I`), not proved.
-/
import AiuVerif.Model.Conserve
import AiuVerif.Props.C03
import AiuVerif.Gen.Sites
import AiuVerif.Gen.Returns
import AiuVerif.Lemmas.Sort
import AiuVerif.Props.C04
import AiuVerif.Props.C13
import AiuVerif.Props.C17
import AiuVerif.Props.C20

namespace AiuVerif.C01
open AiuVerif.Conserve RS
variable {α : Type}

def sliceUids (uid : α → Option Nat) (xs : List α) : List Nat := xs.filterMap uid

/-- nothing duplicated, nothing invented: output uids plus the removed ones are the input uids -/
def Conserving (uid : α → Option Nat) (st : RS α) : Prop :=
  ∀ xs, ∃ r, (sliceUids uid (batch st xs) ++ r).Perm (sliceUids uid xs)

/-- every input slice leaves exactly once -/
def PassClass (uid : α → Option Nat) (st : RS α) : Prop :=
  ∀ xs, (sliceUids uid (batch st xs)).Perm (sliceUids uid xs)

theorem PassClass.conserving {uid : α → Option Nat} {st : RS α} (h : PassClass uid st) :
    Conserving uid st := fun xs => ⟨[], by simpa using h xs⟩

/-- **Conservation through the engine.**  `p` pairs every stage with a flag "may filter".  If each
stage conserves slices, and the unflagged ones are pass class, then for every input there is one
list of removed uids per stage such that (exported uids ++ all removed) is a permutation of the
input uids, and the unflagged stages removed nothing. -/
theorem pipeline_conserves (uid : α → Option Nat) (p : List (RS α × Bool))
    (hc : ∀ st ∈ p, Conserving uid st.1) (hp : ∀ st ∈ p, st.2 = false → PassClass uid st.1)
    (input : List α) :
    ∃ rs : List (List Nat), rs.length = p.length ∧
      (sliceUids uid (run (p.map (·.1)) input) ++ rs.flatten).Perm (sliceUids uid input) ∧
      ∀ i (h1 : i < p.length) (h2 : i < rs.length), p[i].2 = false → rs[i] = [] := by
  rw [C03.run_eq_runSpec]
  induction p generalizing input with
  | nil => exact ⟨[], rfl, by simp [runSpec], by simp⟩
  | cons st rest ih =>
    have hc' : ∀ s ∈ rest, Conserving uid s.1 := fun s hs => hc s (List.mem_cons_of_mem _ hs)
    have hp' : ∀ s ∈ rest, s.2 = false → PassClass uid s.1 :=
      fun s hs => hp s (List.mem_cons_of_mem _ hs)
    obtain ⟨rs, hlen, hperm, hpass⟩ := ih hc' hp' (batch st.1 input)
    by_cases hf : st.2 = false
    · have h0 := hp st (List.mem_cons_self ..) hf input
      refine ⟨[] :: rs, by simp [hlen], ?_, ?_⟩
      · simp only [List.map_cons, runSpec, List.foldl_cons, List.flatten_cons, List.nil_append] at hperm ⊢
        exact hperm.trans h0
      · intro i h1 h2 hi
        cases i with
        | zero => rfl
        | succ i => exact hpass i (by simpa using h1) (by simpa using h2) (by simpa using hi)
    · obtain ⟨r0, h0⟩ := hc st (List.mem_cons_self ..) input
      refine ⟨r0 :: rs, by simp [hlen], ?_, ?_⟩
      · simp only [List.map_cons, runSpec, List.foldl_cons, List.flatten_cons] at hperm ⊢
        have h1 : (sliceUids uid (List.foldl (fun xs st => batch st xs) (batch st.1 input)
            (List.map (·.1) rest)) ++ (r0 ++ rs.flatten)).Perm
            ((sliceUids uid (List.foldl (fun xs st => batch st xs) (batch st.1 input)
              (List.map (·.1) rest)) ++ rs.flatten) ++ r0) := by
          rw [List.append_assoc]
          exact List.Perm.append_left _ List.perm_append_comm
        exact h1.trans ((List.Perm.append_right r0 hperm).trans h0)
      · intro i h1 h2 hi
        cases i with
        | zero => exact absurd hi hf
        | succ i => exact hpass i (by simpa using h1) (by simpa using h2) (by simpa using hi)

/-- **Exactly once.**  With distinct input uids no exported slice uid occurs twice. -/
theorem exported_once (uid : α → Option Nat) (p : List (RS α × Bool))
    (hc : ∀ st ∈ p, Conserving uid st.1) (input : List α) (hnd : (sliceUids uid input).Nodup) :
    (sliceUids uid (run (p.map (·.1)) input)).Nodup := by
  obtain ⟨rs, _, hperm, _⟩ := pipeline_conserves uid (p.map fun st => (st.1, true))
    (by
      intro st hst
      simp only [List.mem_map] at hst
      obtain ⟨s, hs, rfl⟩ := hst
      exact hc s hs)
    (by intro st _ h; simp only [List.mem_map] at *; rename_i hst; obtain ⟨s, _, rfl⟩ := hst; cases h)
    input
  have hmap : (p.map fun st => (st.1, true)).map (·.1) = p.map (·.1) := by
    simp [List.map_map, Function.comp_def]
  rw [hmap] at hperm
  have := (hperm.nodup_iff).mpr hnd
  exact (List.nodup_append.mp this).1

/-- **All pass class ⇒ nothing disappears**, whatever is still buffered when the input ends. -/
theorem all_pass_nothing_lost (uid : α → Option Nat) (p : List (RS α))
    (hp : ∀ st ∈ p, PassClass uid st) (input : List α) :
    (sliceUids uid (run p input)).Perm (sliceUids uid input) := by
  rw [C03.run_eq_runSpec]
  induction p generalizing input with
  | nil => simp [runSpec]
  | cons st rest ih =>
    simp only [runSpec, List.foldl_cons] at ih ⊢
    exact (ih (fun s hs => hp s (List.mem_cons_of_mem _ hs)) _).trans (hp st (List.mem_cons_self ..) input)

/-! ### stages that are pass class by construction

A callback whose every `return` statement is `[event]` (its own first parameter, never
re-assigned) hands each event it receives to the next stage exactly once; whatever its context
emits at drain is synthesized (carries no input-slice uid).  `perEvent_pass` is the model-level
fact; `syntactic_pass_sites` re-decides on the return shapes GENERATED from the source of every
callback that the stages listed in `syntacticPass` still have that form — an added `return []`
branch in any of them breaks the obligation. -/

/-- a stage that returns exactly one event per event, with the same slice identity, and whose
drain only emits events without slice identity -/
def PerEvent (uid : α → Option Nat) (st : RS α) : Prop :=
  (∀ s x, ∃ y, (st.step s x).2 = [y] ∧ uid y = uid x) ∧ (∀ s, ∀ y ∈ st.drain s, uid y = none)

theorem perEvent_feed1 {uid : α → Option Nat} {st : RS α} (h : PerEvent uid st) (xs : List α) :
    sliceUids uid (feed1 st xs).2 = sliceUids uid xs ∧ PerEvent uid (feed1 st xs).1 := by
  induction xs generalizing st with
  | nil => exact ⟨rfl, h⟩
  | cons x xs ih =>
    obtain ⟨y, hy, hu⟩ := h.1 st.s x
    have h' : PerEvent uid { st with s := (st.step st.s x).1 } := h
    obtain ⟨i1, i2⟩ := ih h'
    refine ⟨?_, by simpa [feed1] using i2⟩
    simp only [feed1, hy, List.singleton_append]
    simp only [sliceUids, List.filterMap_cons] at i1 ⊢
    rw [hu]
    cases uid x <;> simp [i1]

/-- **Per-event stages are pass class.** -/
theorem perEvent_pass (uid : α → Option Nat) (st : RS α) (h : PerEvent uid st) : PassClass uid st := by
  intro xs
  obtain ⟨h1, h2⟩ := perEvent_feed1 h xs
  have hd : sliceUids uid ((feed1 st xs).1.drain (feed1 st xs).1.s) = [] := by
    simp only [sliceUids, List.filterMap_eq_nil_iff]
    exact fun y hy => h2.2 _ y hy
  simp only [batch, sliceUids, List.filterMap_append] at *
  rw [h1, hd]
  simp

/-- the registered callbacks claimed to be per-event maps (all of class pass / out of domain) -/
def syntacticPass : List String :=
  ["drop_timestamp_reversed_events", "frequency_align_collect", "normalize_phase2",
   "remove_ids_from_name", "map_tid_to_range", "cycle_count_to_wallclock",
   "tighten_hts_by_instr_type", "recombine_cpu_events", "assert_ts_sequence",
   "detect_partial_overlap_tids", "collect_iteration_stats", "analyze_power_statistics",
   "compute_utilization_fingerprints", "communication_event_collection",
   "assert_global_ts_sequence", "launch_flow_collect", "event_categorizer",
   "cleanup_copy_of_device_ts", "cycle_count_conversion_cleanup", "calculate_stats_v2"]

/-- every one of them still has `[event]` as its only return shape and never re-assigns `event` -/
theorem syntactic_pass_sites :
    ∀ n ∈ syntacticPass, Gen.returns.lookup n = some (["event"], false) := by decide +kernel

/-- … and none of them is classified as a filter -/
theorem syntactic_pass_classes :
    ∀ n ∈ syntacticPass, classOf n = some .pass ∨ classOf n = some .outOfDomain := by decide +kernel

/-! ### the generated site list -/

/-- every registration site of the current source has a slice-flow class -/
theorem site_classes_total : ∀ s ∈ Gen.sites, (classOf s.name).isSome = true := by decide +kernel

/-- the filter-class stages are exactly the documented removal rules -/
theorem filters_are_documented :
    ∀ s ∈ Gen.sites, classOf s.name = some .filter → s.name ∈ documentedFilters := by decide +kernel

/-- stages outside the claimed domain are only reachable through a switch (never unconditional) -/
theorem out_of_domain_is_conditional :
    ∀ s ∈ Gen.sites, classOf s.name = some .outOfDomain → s.cond = true := by decide +kernel

/-! ### the documented rules -/

/-- a slice is in `specKept` iff no documented rule removes it -/
theorem specKept_iff (o : Opts) (input : List Slice) (u : Nat) :
    u ∈ specKept o input ↔ ∃ s ∈ input, s.uid = u ∧ removedBy o s = false := by
  simp [specKept, List.mem_map, List.mem_filter]
  constructor
  · rintro ⟨s, ⟨h1, h2⟩, h3⟩; exact ⟨s, h1, h3, h2⟩
  · rintro ⟨s, h1, h3, h2⟩; exact ⟨s, ⟨h1, h2⟩, h3⟩

/-- with every switch at its neutral value only non-positive durations are removed -/
theorem default_keeps_all (s : Slice) (h1 : s.durPos = true) (h2 : s.inLimit = true)
    (h3 : s.filtered = false) (h4 : s.isPrep = false) (h5 : s.dropped = false) :
    removedBy ⟨true, false, false, none⟩ s = false := by
  simp [removedBy, h1, h2, h3, h4, h5]

/-! ### class contracts proved for stage models that are themselves tied to the real code

`sortStage` is the model of `sort_events` + EventSortingContext (correspondence: C08's check);
`BStage.privBarrier []` is `pipeline_barrier` (C03's check).  For these the pass-class contract is
a theorem, not an observation. -/

/-- **`sort_events` is pass class**, per-lane or global, for every key configuration. -/
theorem sort_is_pass (uid : Sort.SEv → Option Nat) (revs : List Int) (g : Bool) :
    PassClass uid (Sort.sortStage revs g) := by
  intro xs
  exact (Sort.sort_batch_perm revs g xs).filterMap uid

/-- **`pipeline_barrier` is pass class.** -/
theorem barrier_is_pass (uid : α → Option Nat) : PassClass uid (BStage.privBarrier ([] : List α)) := by
  intro xs
  rw [BStage.privBarrier_batch]
  simp

/-- the four sorts and four barriers of the real pipeline cannot lose a slice, wherever they sit -/
example (uid : Sort.SEv → Option Nat) (input : List Sort.SEv) :
    (sliceUids uid (run [Sort.sortStage [1, -1] false, BStage.privBarrier [],
        Sort.sortStage [1] false, BStage.privBarrier [], Sort.sortStage [1, -1] true] input)).Perm
      (sliceUids uid input) := by
  apply all_pass_nothing_lost
  intro st hst
  simp only [List.mem_cons, List.mem_nil_iff, or_false] at hst
  rcases hst with rfl | rfl | rfl | rfl | rfl
  · exact sort_is_pass uid _ _
  · exact barrier_is_pass uid
  · exact sort_is_pass uid _ _
  · exact barrier_is_pass uid
  · exact sort_is_pass uid _ _

/-- **The `-O tid` overlap sub-pipeline is pass class** (model of sort → assert → detect tids →
barrier → detect events, tied to the code by C04's correspondence): whenever it returns, its
output carries exactly the input uids.  (When it does not return, the run aborts with the
lane-budget `KeyError` — C04.error_is_budget — and nothing is exported at all.) -/
theorem overlap_tid_conserves (evs out : List Overlap.Ev)
    (h : Overlap.pipeline .tid evs = .ok out) :
    (out.map (·.uid)).Perm (evs.map (·.uid)) := by
  have h2 := (C04.only_tid_changes evs out h).2
  have := h2.map (fun e : Overlap.Ev => e.uid)
  simpa [List.map_map, Function.comp_def, Overlap.Ev.noTid] using this

/-- **`-O drop` is filter class**: it never duplicates or invents a slice. -/
theorem overlap_drop_conserves (evs out : List Overlap.Ev)
    (h : Overlap.pipeline .drop evs = .ok out) :
    ∃ r, (out.map (·.uid) ++ r).Perm (evs.map (·.uid)) := by
  obtain ⟨hsub, hperm⟩ := C04.drop_sublist evs out h
  obtain ⟨l, hl⟩ := hsub.exists_perm_append
  refine ⟨l.map (·.uid), ?_⟩
  have h1 : ((out ++ l).map (·.uid)).Perm (evs.map (·.uid)) := (hl.symm.trans hperm).map _
  simpa using h1

/-- **`queueing_counter` is filter class** (model tied to the code by C13's correspondence): the
events it passes on are a sub-list of its input, in order — with `--keep_prep` all of them,
without it exactly the non-Prep ones.  Nothing is duplicated, nothing else disappears. -/
theorem prep_stage_conserves (keep : Bool) (evs : List Preps.PEv) (outs : List Preps.Out)
    (h : Preps.runStage keep evs = .ok outs) :
    (Preps.passes outs).Sublist (evs.map (·.uid)) := by
  cases keep with
  | true => rw [C13.stage_pass_keep evs outs h]; exact List.Sublist.refl _
  | false =>
    rw [C13.stage_pass_drop evs outs h]
    exact (List.filter_sublist).map _

theorem map_fst_zip_sublist {α β : Type} : ∀ (l₁ : List α) (l₂ : List β),
    ((l₁.zip l₂).map (·.1)).Sublist l₁
  | [], _ => by simp
  | _ :: _, [] => by simp
  | a :: l₁, b :: l₂ => by
    simp only [List.zip_cons_cons, List.map_cons]
    exact (map_fst_zip_sublist l₁ l₂).cons_cons a

/-- **`normalize_phase1` is filter class** (`--event_limit` / `--event_filter`; model tied to the code
by C17's correspondence): the uids leaving the stage are a sub-list of the uids entering it. -/
theorem limit_filter_stage_conserves {ρ : Type} (m : ρ → String → Bool) (c : Limit.Cfg)
    (fs : List (List String × ρ)) (cnt : Nat) (evs : List Limit.Ev)
    (h : (Limit.run m c fs cnt evs).2 = none) :
    ((Limit.run m c fs cnt evs).1.map (·.uid)).Sublist (evs.map (·.uid)) := by
  rw [C17.stage_selects m c fs cnt evs h]
  have h1 : ((evs.zip (Limit.limitFlags c cnt evs)).filter
      (fun p => p.2 && !Limit.dropsByFilter m fs p.1)).Sublist (evs.zip (Limit.limitFlags c cnt evs)) :=
    List.filter_sublist
  have h2 := h1.map (fun p => p.1.uid)
  refine h2.trans ?_
  have : (evs.zip (Limit.limitFlags c cnt evs)).map (fun p => p.1.uid)
      = ((evs.zip (Limit.limitFlags c cnt evs)).map (·.1)).map (·.uid) := by
    simp [List.map_map, Function.comp_def]
  rw [this]
  exact (map_fst_zip_sublist _ _).map _

/-- **`communication_event_apply` is merge class** (model tied to the code by C20's correspondence):
every slice that is not a member of a send sequence leaves exactly once, unchanged, in order. -/
theorem comm_stage_non_members (evs : List Comm.CEv) (outs : List Comm.COut) (left : Nat)
    (h : Comm.summarize evs = .ok (outs, left)) :
    Comm.passesOf outs = evs.filter (fun ev => Comm.memberKey ev == none) :=
  C20.non_members_unchanged evs outs left h

/-! ### non-vacuity: a holder, a filter and a duplicating-of-nonslices stage -/
def holdAll : RS (Option Nat) :=
  { σ := List (Option Nat), s := [], step := fun s x => (s ++ [x], []), drain := fun s => s }

example : PassClass (fun x => x) holdAll := by
  intro xs
  have : ∀ (h xs : List (Option Nat)),
      (feed1 { holdAll with s := h } xs).2 = [] ∧
      (feed1 { holdAll with s := h } xs).1.drain (feed1 { holdAll with s := h } xs).1.s = h ++ xs := by
    intro h xs
    induction xs generalizing h with
    | nil => simp [feed1, holdAll]
    | cons x xs ih =>
      have := ih (h ++ [x])
      simp only [feed1, holdAll] at this ⊢
      simpa [List.append_assoc] using this
  have h := this [] xs
  simp only [batch]
  rw [show ({ holdAll with s := [] } : RS (Option Nat)) = holdAll from rfl] at h
  rw [h.1, h.2]
  simp

end AiuVerif.C01
